import Gnet.Model.Wake
namespace Gnet.Props.C03
open Gnet.Wake

theorem init_not_queued (n : Nat) (th : Int) : ¬ anyQueued (init n th) := by
  simp [anyQueued, init, Gnet.Msq.init]

end Gnet.Props.C03
