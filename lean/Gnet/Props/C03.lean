/-
  C03: asynchronous requests run exactly once: no lost wake-up of a loop.
  Model: Gnet/Model/Wake.lean (producers running `Trigger`, the loop running the task part of
  `Polling`, over the full-granularity queue model of C13, the `wakeupCall` flag and an
  edge-triggered eventfd). All statements hold in every reachable state: any number of
  producers, any requests and priorities, any interleaving of single atomic operations and
  system calls.
  Only property theorems and non-vacuity examples live here; the invariant and helper lemmas
  are in Gnet/Proofs/Wake*.lean. Statements are never weakened to make a proof pass.
-/
import Gnet.Model.Wake
import Gnet.Proofs.Msq
import Gnet.Proofs.Wake
namespace Gnet.Props.C03
open Gnet Gnet.Wake

/-- both queues are reachable states of the C13 model, so every C13 theorem applies to them -/
theorem wake_queues_reachable (s : State) (h : Reachable s) :
    Msq.Reachable s.urgent ∧ Msq.Reachable s.low :=
  Proofs.Wake.queues_reachable s h

/-- NO LOST WAKE-UP: whenever a task sits in a queue (and the loop has not shut down), a
    wake-up is outstanding: the loop is still inside its chores at or before the final
    re-check, or an eventfd edge is pending, or the winner of the flag is about to write the
    eventfd, or a producer that has linked its task has not yet finished its own attempt. -/
theorem wake_no_lost (s : State) (h : Reachable s) (hq : anyQueued s) (hx : loopPc s ≠ .lExit) :
    WakeOutstanding s :=
  Proofs.Wake.no_lost s h hq hx

/-- in particular the state "loop about to block, nothing pending, nobody in flight, yet a
    task queued" is unreachable -/
theorem wake_blocked_empty (s : State) (h : Reachable s) (hl : loopPc s = .lWait) (he : s.edge = false)
    (hp : ∀ tid t, 0 < tid → s.threads[tid]? = some t → t.pc = .idle) : ¬ anyQueued s :=
  Proofs.Wake.blocked_empty s h hl he hp

/-- EXACTLY ONCE, IN ORDER: everything whose Enqueue has taken effect is, in that order,
    what the loop has executed, then at most one task it has just dequeued, then what is
    still queued - for the urgent queue (asynchronous writes) and the low-priority queue. -/
theorem wake_exactly_once_urgent (s : State) (h : Reachable s) :
    ∃ inflight : List Nat, inflight.length ≤ 1 ∧
      s.urgent.enqLog = s.executedU ++ inflight ++ s.urgent.absQ :=
  Proofs.Wake.exactly_once_urgent s h

theorem wake_exactly_once_low (s : State) (h : Reachable s) :
    ∃ inflight : List Nat, inflight.length ≤ 1 ∧
      s.low.enqLog = s.executedL ++ inflight ++ s.low.absQ :=
  Proofs.Wake.exactly_once_low s h

/-- high-priority requests always enter the urgent queue; low-priority ones enter it too
    unless the threshold routes them to the low-priority queue (so one goroutine's
    high-priority requests are carried out in issue order by `wake_exactly_once_urgent`) -/
theorem wake_high_priority_urgent (s : State) (tid task : Nat) (t : Thread)
    (ht : s.threads[tid]? = some t) (hi : t.pc = .idle) (h0 : 0 < tid) :
    ((start s tid task false).threads.getD tid {}).pc = .pEnqU :=
  Proofs.Wake.high_priority_urgent s tid task t ht hi h0

/-- the wake-up flag is a boolean and the eventfd counter counts exactly the writes -/
theorem wake_flag (s : State) (h : Reachable s) : s.wakeupCall = 0 ∨ s.wakeupCall = 1 :=
  Proofs.Wake.flag s h

/-- NEVER STUCK (the safety half of "is carried out"): from every reachable state with a
    queued task some continuation executes a task. Liveness proper additionally needs a fair
    scheduler, which is an assumption about the Go runtime. -/
theorem wake_never_stuck (s : State) (h : Reachable s) (hq : anyQueued s) (hx : loopPc s ≠ .lExit) :
    ∃ evs, s.executedU.length + s.executedL.length <
      (runEvs s evs).executedU.length + (runEvs s evs).executedL.length :=
  Proofs.Wake.never_stuck s h hq hx

-- non-vacuity: a producer has linked its task and the loop is blocked: the wake-up is the
-- producer's pending attempt; after it finishes the edge is pending
example : let s := runEvs (init 1 1024) [.start 1 7 false, .step 1, .step 1, .step 1, .step 1]
    (s.urgent.absQ, s.edge, (s.threads.getD 1 {}).pc, loopPc s) = ([7], false, Pc.pEnqU, Pc.lWait) := by decide
example : let s := runEvs (init 1 1024) ([.start 1 7 false] ++ List.replicate 8 (.step 1))
    (s.urgent.absQ, s.edge, s.wakeupCall, (s.threads.getD 1 {}).pc) = ([7], true, 1, Pc.idle) := by decide

end Gnet.Props.C03
