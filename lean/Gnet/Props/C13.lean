import Gnet.Model.Msq
namespace Gnet.Props.C13
open Gnet.Msq

theorem init_chain (n : Nat) : chain (init n) = [0] := by
  simp [chain, init, chainFrom, nextOf]

end Gnet.Props.C13
