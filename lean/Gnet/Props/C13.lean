/-
  C13: the lock-free task queue is a linearizable FIFO queue.
  The model (Gnet/Model/Msq.lean) has one transition per atomic operation and carries ghost
  state: the abstract atomic queue `absQ`, updated at exactly one point inside every
  operation (the linearisation point: the successful CAS on `tail.next` for Enqueue, the
  successful CAS on `head` for Dequeue), the logs of those points, and for a pending Dequeue
  whether the abstract queue was empty when it read `head.next`.
  All statements are for every reachable state: any number of threads, any programs, any
  interleaving of single atomic operations.
  Only property theorems and non-vacuity examples live here; helper lemmas and the
  invariant are in Gnet/Proofs/Msq*.lean. Statements are never weakened to make a proof pass.
-/
import Gnet.Model.Msq
import Gnet.Proofs.Msq
namespace Gnet.Props.C13
open Gnet.Msq

/-- FIFO bookkeeping of the linearisation points: what has been enqueued is what has been
    dequeued followed by what is still queued - every dequeued task was enqueued, none twice,
    in enqueue order; once the queue is drained (`absQ = []`) each exactly once. -/
theorem msq_fifo (s : State) (h : Reachable s) : s.enqLog = s.deqLog ++ s.absQ :=
  Proofs.Msq.fifo s h

/-- tasks are dequeued in the order their enqueues took effect (in particular the tasks one goroutine enqueues,
    whose enqueues take effect in program order, are dequeued in that order): the dequeue log is a prefix of
    the enqueue log -/
theorem msq_dequeue_order (s : State) (h : Reachable s) : s.deqLog <+: s.enqLog :=
  ⟨s.absQ, (msq_fifo s h).symm⟩

/-- at most once, and only what was enqueued: with distinct tasks no task is dequeued twice, and every
    dequeued task was enqueued -/
theorem msq_at_most_once (s : State) (h : Reachable s) (hd : s.enqLog.Nodup) :
    s.deqLog.Nodup ∧ ∀ v ∈ s.deqLog, v ∈ s.enqLog := by
  have hp := msq_dequeue_order s h
  exact ⟨hp.sublist.nodup hd, fun v hv => hp.subset hv⟩

/-- exactly once when drained: with an empty queue everything enqueued has been dequeued, in order -/
theorem msq_drained_exactly_once (s : State) (h : Reachable s) (he : s.absQ = []) : s.deqLog = s.enqLog := by
  have := msq_fifo s h
  simp [he] at this
  exact this.symm

/-- the abstract queue is the concrete linked structure behind the head node -/
theorem msq_abs_is_chain (s : State) (h : Reachable s) :
    s.absQ = ((chain s).drop (posOf s s.head + 1)).map (valueOf s) :=
  Proofs.Msq.abs_is_chain s h

/-- a Dequeue returns exactly the value the atomic queue handed out at its linearisation point -/
theorem msq_deq_value (s : State) (h : Reachable s) (tid : Nat) (t : Thread)
    (ht : s.threads[tid]? = some t) (hpc : t.pc = .dSub) :
    t.ghostRet = some t.task ∧ (step s tid).2 = some (.deqSome t.task) :=
  Proofs.Msq.deq_value s h tid t ht hpc

/-- a Dequeue reports 'empty' only if the queue was empty at an instant inside the call
    (when it read `head.next`) -/
theorem msq_empty_justified (s : State) (h : Reachable s) (tid : Nat) (t : Thread)
    (ht : s.threads[tid]? = some t) (hr : (step s tid).2 = some .deqNone) :
    t.ghostSawEmpty = true :=
  Proofs.Msq.empty_justified s h tid t ht hr

/-- the length counter lags behind the abstract queue by exactly the operations that have
    passed their linearisation point but not yet their counter update -/
theorem msq_length_lag (s : State) (h : Reachable s) :
    s.length = (s.absQ.length : Int)
      - (s.threads.countP (fun t => t.pc == .eCasTail || t.pc == .eAdd) : Nat)
      + (s.threads.countP (fun t => t.pc == .dSub) : Nat) :=
  Proofs.Msq.length_lag s h

/-- when no operation is in flight `Length` is the number of queued tasks (and `IsEmpty`,
    which tests `Length = 0`, agrees) -/
theorem msq_quiescent (s : State) (h : Reachable s) (hq : ∀ t ∈ s.threads, t.pc = .idle) :
    s.length = s.absQ.length :=
  Proofs.Msq.quiescent s h hq

/-- the dereference `next.value` in Dequeue never hits nil -/
theorem msq_no_nil_deref (s : State) (h : Reachable s) (tid : Nat) (t : Thread)
    (ht : s.threads[tid]? = some t) (hpc : t.pc = .dReloadHead) (hh : t.head = s.head)
    (hne : t.head ≠ t.tail) : t.next ≠ none :=
  Proofs.Msq.no_nil_deref s h tid t ht hpc hh hne

/-- the tail pointer lags behind the last linked node by at most one node, and the head never
    overtakes it -/
theorem msq_tail_lag (s : State) (h : Reachable s) :
    posOf s s.head ≤ posOf s s.tail ∧ posOf s s.tail < (chain s).length ∧
    (chain s).length ≤ posOf s s.tail + 2 :=
  Proofs.Msq.tail_lag s h

-- non-vacuity: a reachable state with a linked but uncounted node and a lagging tail
example : let s := runEvs (init 2) [.start 0 (.enq 5), .step 0, .step 0, .step 0, .step 0]
    (s.absQ, s.length, posOf s s.tail, (chain s).length) = ([5], 0, 0, 2) := by decide
-- and a Dequeue by the other thread that helps the tail forward and takes the task
example : let s := runEvs (init 2) ([.start 0 (.enq 5), .step 0, .step 0, .step 0, .step 0, .start 1 .deq] ++
      List.replicate 11 (.step 1))
    (s.absQ, s.deqLog, s.length) = ([], [5], -1) := by decide

end Gnet.Props.C13
