import Gnet.Model.LinkedList
namespace Gnet.Props.C11
open Gnet

theorem ll_empty_wf : (LL.empty : LL Nat).WF := ⟨by simp [LL.empty], by simp [LL.empty], by simp [LL.empty]⟩

end Gnet.Props.C11
