/-
  C11: linkedlist.Buffer behaves as a FIFO byte queue of copied segments.
  Only property theorems and non-vacuity examples live here; helper lemmas are in
  Gnet/Proofs/LinkedList.lean. Statements in this file are never weakened to make a proof pass.
-/
import Gnet.Model.LinkedList
import Gnet.Proofs.LinkedList
namespace Gnet.Props.C11
open Gnet

variable {α : Type}

theorem ll_empty_wf : (LL.empty : LL α).WF := Proofs.LinkedList.empty_wf

/-- Every operation from every well-formed state keeps the invariant and is a step of the
    specification: content is exactly what was pushed, in queue order, each byte once;
    `ReadFrom` stores and reports every byte the reader returned (also with EOF / an error);
    `WriteTo`, `Read`, `Discard`, `Pop` remove exactly what they hand out. -/
theorem ll_step_refines (gen : Nat → α) (l : LL α) (pos : Nat) (op : SegFifo.Op α) (h : l.WF) :
    (LL.step gen (l, pos) op).1.1.WF ∧
    SegFifo.Step gen LL.minRead (l.abs, pos) op
      ((LL.step gen (l, pos) op).1.1.abs, (LL.step gen (l, pos) op).1.2) (LL.step gen (l, pos) op).2 :=
  Proofs.LinkedList.step_refines gen l pos op h

/-- all finite histories from the empty buffer -/
theorem ll_run_refines (gen : Nat → α) (ops : List (SegFifo.Op α)) :
    (LL.run gen (LL.empty, 0) ops).1.1.WF ∧
    SegFifo.Run gen LL.minRead ([], 0) ops (LL.run gen (LL.empty, 0) ops).2
      ((LL.run gen (LL.empty, 0) ops).1.1.abs, (LL.run gen (LL.empty, 0) ops).1.2) :=
  Proofs.LinkedList.run_refines gen ops

/-- `Buffered` = number of content bytes, `Len` = number of segments, `IsEmpty` iff `Buffered = 0` -/
theorem ll_counters (l : LL α) (h : l.WF) :
    l.buffered = (l.abs.length : Int) ∧ l.len = (l.segs.length : Int) ∧
    (l.isEmpty = true ↔ l.buffered = 0) :=
  Proofs.LinkedList.counters l h

/-- `PushBack`/`PushFront` copy: no operation except `Append` ever links caller memory. -/
theorem ll_copy_semantics (gen : Nat → α) (l : LL α) (pos : Nat) (op : SegFifo.Op α)
    (h : l.AllOwned) (hop : ∀ p, op ≠ .append p) : (LL.step gen (l, pos) op).1.1.AllOwned :=
  Proofs.LinkedList.copy_semantics gen l pos op h hop

-- non-vacuity: a three-segment state satisfies the invariant
example : (⟨[⟨[1, 2], true⟩, ⟨[3], false⟩, ⟨[4, 5, 6], true⟩], 3, 6⟩ : LL Nat).WF :=
  ⟨by simp, by simp, by simp⟩

end Gnet.Props.C11
