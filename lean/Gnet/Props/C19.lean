/-
  C19 (control API state machine)
  on the engine model (Gnet/Model/Engine.lean). Small-step statements hold in every reachable
  state: any number of loops, ticker on or off, any interleaving of accepts, traffic, peer
  closes, shutdown requests from any source (also several racing), and the steps of the
  `stop` goroutine, the loops and the ticker.
-/
import Gnet.Model.Engine
import Gnet.Props.C06
import Gnet.Proofs.Engine
import Gnet.Props.Handover
namespace Gnet.Props.C19
open Gnet.Engine

/-- a handle that was never started: the empty-engine error everywhere, -1 from CountConnections -/
theorem api_never (c : Call) : api .never c = (if c = .count then .minusOne else .empty) :=
  Proofs.Engine.api_never c

/-- a running engine accepts the calls (argument errors aside) -/
theorem api_running : api .running .validate = .nil ∧ api .running .count = .number ∧ api .running .dup = .nil ∧
    api .running .registerNoTarget = .invalidAddr ∧ api .running .dupListenerUnknown = .invalidAddr :=
  Proofs.Engine.api_running

/-- after shutdown has completed: the in-shutdown error everywhere, -1 from CountConnections; in
    particular stopping twice is harmless -/
theorem api_down (c : Call) : api .down c = (if c = .count then .minusOne else .inShutdown) :=
  Proofs.Engine.api_down c

/-- inside OnBoot no event loop is registered yet: Register reports the empty-engine error -/
theorem api_booting_register : api .booting .registerNoTarget = .empty := Proofs.Engine.api_booting_register

/-- a shutdown request is never undone (Stop returning the context's error does not cancel it) -/
theorem request_is_final (s : State) (a : Step) (hc : s.ctxCancelled = true) : (step s a).ctxCancelled = true :=
  Proofs.Engine.request_is_final s a hc

/-- the flag that makes `Stop` return nil is set only by the last statement of engine.stop -/
theorem flag_only_at_end (s : State) (a : Step) (h0 : s.inShutdown = false) (h1 : (step s a).inShutdown = true) :
    a = .stopper ∧ s.stopPc = .setFlag :=
  Proofs.Engine.flag_only_at_end s a h0 h1

/-- an engine with several listeners (`Rotate`): only `Dup` changes - it cannot choose a listener while the engine
    runs - every other call, and `Dup` in every other phase, answers as for one listener -/
theorem api_multi : apiMulti .running .dup = .unsupported ∧ apiMulti .booting .dup = .unsupported ∧
    apiMulti .never .dup = .empty ∧ apiMulti .down .dup = .inShutdown ∧
    (∀ ph c, c ≠ .dup → apiMulti ph c = api ph c) ∧ apiMulti .running .dupListenerKnown = .nil := by
  refine ⟨by decide, by decide, by decide, by decide, ?_, by decide⟩
  intro ph c hc
  simp [apiMulti, hc]

/-! ### Register / Enroll deliver exactly one result (hand-over model, Model/Handover.lean)

Proved in Props/Handover.lean for every reachable state: an accepted call gets at most one result; it is without one
exactly while its registration waits in a queue; when everything has stopped every accepted call has been answered -
with a connection whose OnOpen has run, or with an error (its descriptor closed, OnOpen never run); once the
in-shutdown flag is set no call is accepted. (Until the fix "registrations handed to an event loop that has exited are
aborted" a call accepted during shutdown was never answered: former theorem `register_unanswered_reachable`.) -/
theorem results_at_most_once (s : Handover.State) (h : Handover.Reachable s) :
    s.results.Nodup ∧ (∀ fd ∈ s.results, fd ∈ s.enrolled) ∧ s.enrolled.Nodup :=
  Props.Handover.results_at_most_once s h

theorem unanswered_are_pending (s : Handover.State) (h : Handover.Reachable s) :
    ∀ fd, fd ∈ Handover.unanswered s ↔ (fd ∈ s.enrolled ∧ fd ∈ Handover.pending s) :=
  Props.Handover.unanswered_are_pending s h

theorem final_all_answered (s : Handover.State) (h : Handover.Reachable s) (hf : Handover.Final s = true) :
    Handover.unanswered s = [] :=
  Props.Handover.final_all_answered s h hf

theorem failed_results (s : Handover.State) (h : Handover.Reachable s) :
    (∀ fd ∈ s.failed, fd ∈ s.results ∧ fd ∈ s.closed ∧ fd ∉ s.opened.map Prod.fst) ∧
    (∀ fd ∈ s.results, fd ∉ s.failed → fd ∈ s.opened.map Prod.fst) :=
  Props.Handover.failed_results s h

theorem no_enrolment_after_flag (s : Handover.State) (hs : s.inShutdown = true) (l : Nat) :
    Handover.step s (.enroll l) = s :=
  Props.Handover.no_enrolment_after_flag s hs l

/-! Non-vacuity: a complete life of the small-step system - a connection is served, Stop is requested, the loop runs
its sentinel, closes the connection and exits, the stopper sets the flag - reaches the state the theorems speak of;
and the table has the entries the property names. -/
example : let s := run (init 1 false) [.accept 0, .traffic 0 0, .requestStop, .stopper, .stopper, .stopper, .runSentinel 0,
      .closeOne 0, .loopExit 0, .stopper, .stopper, .stopper]
    s.inShutdown = true ∧ s.trace = [.open 0, .traffic 0, .shutdown, .close 0] := by decide

example : api .never .stop = .empty ∧ api .running .validate = .nil ∧ api .down .dup = .inShutdown ∧ api .down .count = .minusOne := by
  decide

/-- the order of the statements of `engine.stop` / `Client.Stop` in the current source is the order of the stopper of the
model: pollers and listeners are closed only after every loop has exited, the flag is set last (Props/C06.lean) -/
theorem stop_order_followed : type_of% @Gnet.Props.C06.stop_order_followed := @Gnet.Props.C06.stop_order_followed

end Gnet.Props.C19
