/-
  C01 on the reactor model: byte accounting of every connection is preserved by every
  accepted round, i.e. for EVERY sequence of environment decisions (events, kernel results
  incl. short reads/writes, EAGAIN and errors, handler programs, task order) that the real loop
  can exhibit and the acceptor recognises.
-/
import Gnet.Spec.ReactorSpec
import Gnet.Proofs.ReactorBytes
namespace Gnet.Props.C01
open Gnet.Reactor

/-- inbound integrity is an invariant of accepted rounds -/
theorem inbound_integrity (s s' : RState) (toks : List Tok) (hn : NamesNodup s)
    (h : acceptRound s toks = .ok s') (hi : InvIn s) (hq : Quiet s) : InvIn s' ∧ Quiet s' ∧ NamesNodup s' :=
  Proofs.ReactorBytes.inbound_integrity s s' toks hn h hi hq

/-- it holds initially -/
theorem inbound_init (cfg : Cfg) : InvIn { cfg := cfg } ∧ Quiet { cfg := cfg } ∧ NamesNodup { cfg := cfg } :=
  Proofs.ReactorBytes.inbound_init cfg

end Gnet.Props.C01

