import Gnet.Model.Elastic
namespace Gnet.Props.C01
open Gnet

theorem placeholder_ering_empty : (⟨none, RbPool.empty⟩ : ERing Nat).abs = [] := by simp [ERing.abs]

end Gnet.Props.C01
