/-
  C01 on the reactor model: byte accounting of every connection is preserved by every
  accepted round, i.e. for EVERY sequence of environment decisions (events, kernel results
  incl. short reads/writes, EAGAIN and errors, handler programs, task order) that the real loop
  can exhibit and the acceptor recognises.
-/
import Gnet.Spec.ReactorSpec
import Gnet.Proofs.ReactorBytes
import Gnet.Spec.ReactorExample
import Gnet.Proofs.ReactorRuns
import Gnet.Props.C09
import Gnet.Props.C10
namespace Gnet.Props.C01
open Gnet.Reactor

/-- inbound integrity is an invariant of accepted rounds -/
theorem inbound_integrity (s s' : RState) (toks : List Tok) (hn : NamesNodup s)
    (h : acceptRound s toks = .ok s') (hi : InvIn s) (hq : Quiet s) : InvIn s' ∧ Quiet s' ∧ NamesNodup s' :=
  Proofs.ReactorBytes.inbound_integrity s s' toks hn h hi hq

/-- it holds initially -/
theorem inbound_init (cfg : Cfg) : InvIn { cfg := cfg } ∧ Quiet { cfg := cfg } ∧ NamesNodup { cfg := cfg } :=
  Proofs.ReactorBytes.inbound_init cfg

/-- the same for whole histories: after ANY number of accepted rounds from the initial state of any configuration -/
theorem inbound_integrity_all_histories (cfg : Cfg) (rounds : List (List Tok)) (s' : RState)
    (h : Proofs.ReactorRuns.acceptRounds { cfg := cfg } rounds = .ok s') : InvIn s' :=
  (Proofs.ReactorRuns.runs_from_init cfg rounds s' h).1

/-! Non-vacuity. A recorded history (Spec/ReactorExample.lean) is accepted round by round, the hypotheses of
`inbound_integrity` hold of its first state (`inbound_init`), and the accounting it preserves is not empty: four
bytes were delivered and all four wait in the inbound buffer. -/
example : (Example.after 2).bind Example.bytesView = some [[10, 11, 12, 13], [10, 11, 12, 13], [104, 105], [104, 105]] := by
  decide +kernel

example (s1 : RState) (h : acceptRound Example.s0 Example.round1 = .ok s1) : InvIn s1 :=
  (inbound_integrity _ _ _ (inbound_init _).2.2 h (inbound_init _).1 (inbound_init _).2.1).1

/-! ### What the abstraction of the reactor model rests on

The reactor model keeps the inbound buffer of a connection as a list of bytes. In the code it is an `elastic.RingBuffer`
over a `ring.Buffer`; that those behave as that list under every operation sequence is the refinement of C10 / C09,
restated here because the theorems above are about the code only together with it. The check of C01 therefore also
runs the correspondence of the two buffer models with the real buffers. -/

theorem inbound_buffer_is_fifo : type_of% @Gnet.Props.C10.ering_run_refines := @Gnet.Props.C10.ering_run_refines

theorem ring_is_fifo : type_of% @Gnet.Props.C09.ring_run_refines := @Gnet.Props.C09.ring_run_refines

end Gnet.Props.C01

