/-
  C04 on the reactor model, for every accepted round (every sequence of
  environment decisions the real loop can exhibit and the acceptor recognises).
-/
import Gnet.Spec.ReactorSpec
import Gnet.Proofs.ReactorLife
import Gnet.Spec.ReactorExample
import Gnet.Proofs.ReactorRuns
namespace Gnet.Props.C04
open Gnet.Reactor

/-- the per-connection callback word is `OnOpen OnTraffic* OnClose?`, `opened` tracks it,
    nothing is registered without being opened, nothing is opened after its descriptor closed -/
theorem lifecycle (s s' : RState) (toks : List Tok) (hn : NamesNodup s)
    (h : acceptRound s toks = .ok s') (hl : InvLife s) : InvLife s' :=
  Proofs.ReactorLife.lifecycle s s' toks hn h hl

theorem lifecycle_init (cfg : Cfg) : InvLife { cfg := cfg } := Proofs.ReactorLife.lifecycle_init cfg

/-- the same for whole histories: after ANY number of accepted rounds from the initial state of any configuration -/
theorem lifecycle_all_histories (cfg : Cfg) (rounds : List (List Tok)) (s' : RState)
    (h : Proofs.ReactorRuns.acceptRounds { cfg := cfg } rounds = .ok s') : InvLife s' :=
  (Proofs.ReactorRuns.runs_from_init cfg rounds s' h).2.2.1

/-! Non-vacuity: the recorded history runs through a whole life, OnOpen, OnTraffic, OnClose, after which the descriptor
is closed; `lifecycle_init` gives the hypothesis for its first round. -/
example : (Example.after 3).bind Example.lifeView = some (["open", "traffic", "close"], false) := by decide +kernel

example (s1 : RState) (h : acceptRound Example.s0 Example.round1 = .ok s1) : InvLife s1 :=
  lifecycle _ _ _ (by simp [NamesNodup, Example.s0]) h (lifecycle_init _)

end Gnet.Props.C04

