/-
  C04 on the reactor model, for every accepted round (every sequence of
  environment decisions the real loop can exhibit and the acceptor recognises).
-/
import Gnet.Spec.ReactorSpec
import Gnet.Proofs.ReactorLife
namespace Gnet.Props.C04
open Gnet.Reactor

/-- the per-connection callback word is `OnOpen OnTraffic* OnClose?`, `opened` tracks it,
    nothing is registered without being opened, nothing is opened after its descriptor closed -/
theorem lifecycle (s s' : RState) (toks : List Tok) (hn : NamesNodup s)
    (h : acceptRound s toks = .ok s') (hl : InvLife s) : InvLife s' :=
  Proofs.ReactorLife.lifecycle s s' toks hn h hl

theorem lifecycle_init (cfg : Cfg) : InvLife { cfg := cfg } := Proofs.ReactorLife.lifecycle_init cfg

end Gnet.Props.C04

