import Gnet.Model.Sockaddr
namespace Gnet.Props.C17
open Gnet.Sockaddr

theorem itod_zero : itod 0 = "0" := by simp [itod]

end Gnet.Props.C17
