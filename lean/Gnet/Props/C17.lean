/-
  C17: socket addresses survive conversion (the conversion half; the runtime half is
  decided by the reactor trace checks).
  Only property theorems and non-vacuity examples live here; helper lemmas are in
  Gnet/Proofs/Sockaddr.lean. Statements are never weakened to make a proof pass.
-/
import Gnet.Model.Sockaddr
import Gnet.Proofs.Sockaddr
namespace Gnet.Props.C17
open Gnet.Sockaddr

/-- a well-formed interface table: names and indices are distinct, indices positive, no
    interface is named like a decimal number or the empty string -/
abbrev GoodTable (ifs : IfTable) : Prop := Proofs.Sockaddr.GoodTable ifs

/-- IPv4 in either encoding, any port, no zone: the round trip yields the same address
    (under `net.IP.Equal`) and port -/
theorem roundtrip_v4 (ifs : IfTable) (ip : IP) (port : Int) (h4 : (to4 ip).isSome) :
    ∃ sa a, ipToSockaddr ifs ip false port "" = some sa ∧ sockaddrToNetAddr ifs sa = some a ∧
      ipEqual a.ip ip = true ∧ a.port = port ∧ a.zone = "" :=
  Proofs.Sockaddr.roundtrip_v4 ifs ip port h4

/-- IPv6 (16 bytes, not IPv4-mapped), any port, zone given by interface name -/
theorem roundtrip_v6_name (ifs : IfTable) (hg : GoodTable ifs) (ip : IP) (port : Int) (name : String) (idx : Nat)
    (h16 : ip.length = 16) (hn4 : to4 ip = none) (hz : (name, idx) ∈ ifs) (hi : idx < 2 ^ 32) :
    ∃ sa a, ipToSockaddr ifs ip false port name = some sa ∧ sockaddrToNetAddr ifs sa = some a ∧
      a.ip = ip ∧ a.port = port ∧ a.zone = name :=
  Proofs.Sockaddr.roundtrip_v6_name ifs hg ip port name idx h16 hn4 hz hi

/-- IPv6 without zone -/
theorem roundtrip_v6_nozone (ifs : IfTable) (ip : IP) (port : Int) (h16 : ip.length = 16) (hn4 : to4 ip = none) :
    ∃ sa a, ipToSockaddr ifs ip false port "" = some sa ∧ sockaddrToNetAddr ifs sa = some a ∧
      a.ip = ip ∧ a.port = port ∧ a.zone = "" :=
  Proofs.Sockaddr.roundtrip_v6_nozone ifs ip port h16 hn4

/-- IPv6 with a numeric zone `0 < n < 0xFFFFFF` (written canonically, i.e. `itod n`) that is not
    the index of an interface of this host -/
theorem roundtrip_v6_numeric (ifs : IfTable) (hg : GoodTable ifs) (ip : IP) (port : Int) (n : Nat)
    (h16 : ip.length = 16) (hn4 : to4 ip = none) (h0 : 0 < n) (hb : n < big)
    (hni : ∀ p ∈ ifs, p.2 ≠ n) :
    ∃ sa a, ipToSockaddr ifs ip false port (itod n) = some sa ∧ sockaddrToNetAddr ifs sa = some a ∧
      a.ip = ip ∧ a.port = port ∧ a.zone = itod n :=
  Proofs.Sockaddr.roundtrip_v6_numeric ifs hg ip port n h16 hn4 h0 hb hni

/-- `itod` and `dtoi` are inverse below `big` -/
theorem dtoi_itod (n : Nat) (hb : n < big) (h0 : 0 < n) : dtoi (itod n) = (n, true) :=
  Proofs.Sockaddr.dtoi_itod n hb h0

/-- a non-nil IP whose length is neither 4 nor 16 yields nil, never a wrong address -/
theorem invalid_length_nil (ifs : IfTable) (ip : IP) (port : Int) (zone : String)
    (h4 : ip.length ≠ 4) (h16 : ip.length ≠ 16) : ipToSockaddr ifs ip false port zone = none :=
  Proofs.Sockaddr.invalid_length_nil ifs ip port zone h4 h16

-- non-vacuity
example : ipToSockaddr [("lo", 1), ("eth0", 4)] ([0xfe, 0x80] ++ List.replicate 13 0 ++ [1]) false 80 "eth0"
    = some (.inet6 80 4 ([0xfe, 0x80] ++ List.replicate 13 0 ++ [1])) := by decide
example : itod 77777 = "77777" := by decide

/-- Unix-domain addresses: the three Unix networks round-trip with the name unchanged; any other network yields nil
    (never a wrong address) -/
theorem unix_roundtrip (network name : String) (h : network ∈ unixNetworks) :
    (unixAddrToSockaddr network name).bind sockaddrToUnixName = some name := by
  simp [unixAddrToSockaddr, h, sockaddrToUnixName]

theorem unix_unsupported_nil (network name : String) (h : network ∉ unixNetworks) :
    unixAddrToSockaddr network name = none := by
  simp [unixAddrToSockaddr, h]

example : unixAddrToSockaddr "unixgram" "/tmp/a.sock" = some (.unix "/tmp/a.sock") ∧ unixAddrToSockaddr "" "x" = none := by decide

end Gnet.Props.C17
