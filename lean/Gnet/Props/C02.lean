/-
  C02 on the reactor model: byte accounting of every connection is preserved by every
  accepted round, i.e. for EVERY sequence of environment decisions (events, kernel results
  incl. short reads/writes, EAGAIN and errors, handler programs, task order) that the real loop
  can exhibit and the acceptor recognises.
-/
import Gnet.Spec.ReactorSpec
import Gnet.Proofs.ReactorBytes
import Gnet.Spec.ReactorExample
import Gnet.Proofs.ReactorRuns
import Gnet.Props.C10
import Gnet.Props.C11
namespace Gnet.Props.C02
open Gnet.Reactor

/-- outbound integrity and ordering is an invariant of accepted rounds -/
theorem outbound_integrity (s s' : RState) (toks : List Tok) (hn : NamesNodup s)
    (h : acceptRound s toks = .ok s') (ho : InvOut s) (hq : Quiet s) : InvOut s' ∧ Quiet s' ∧ NamesNodup s' :=
  Proofs.ReactorBytes.outbound_integrity s s' toks hn h ho hq

theorem outbound_init (cfg : Cfg) : InvOut { cfg := cfg } :=
  Proofs.ReactorBytes.outbound_init cfg

/-- the same for whole histories: after ANY number of accepted rounds from the initial state of any configuration -/
theorem outbound_integrity_all_histories (cfg : Cfg) (rounds : List (List Tok)) (s' : RState)
    (h : Proofs.ReactorRuns.acceptRounds { cfg := cfg } rounds = .ok s') : InvOut s' :=
  (Proofs.ReactorRuns.runs_from_init cfg rounds s' h).2.1

/-! Non-vacuity: in the recorded history the OnOpen reply [104, 105] is accepted and handed to the kernel. -/
example : (Example.after 1).bind Example.bytesView = some [[], [], [104, 105], [104, 105]] := by decide +kernel

/-! ### What the abstraction of the reactor model rests on

The reactor model keeps the outbound buffer of a connection as a list of bytes. In the code it is an `elastic.Buffer` (a
ring buffer up to a static size, a linked list of copied segments beyond it); that it behaves as that list under every
operation sequence is the refinement of C10 / C11, restated here because the theorems above are about the code only
together with it. The check of C02 therefore also runs the correspondence of the two buffer models with the real
buffers. -/

theorem outbound_buffer_is_fifo : type_of% @Gnet.Props.C10.elastic_run_refines := @Gnet.Props.C10.elastic_run_refines

theorem overflow_list_is_fifo : type_of% @Gnet.Props.C11.ll_run_refines := @Gnet.Props.C11.ll_run_refines

end Gnet.Props.C02
