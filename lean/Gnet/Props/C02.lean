/-
  C02 on the reactor model: byte accounting of every connection is preserved by every
  accepted round, i.e. for EVERY sequence of environment decisions (events, kernel results
  incl. short reads/writes, EAGAIN and errors, handler programs, task order) that the real loop
  can exhibit and the acceptor recognises.
-/
import Gnet.Spec.ReactorSpec
import Gnet.Proofs.ReactorBytes
import Gnet.Spec.ReactorExample
import Gnet.Proofs.ReactorRuns
namespace Gnet.Props.C02
open Gnet.Reactor

/-- outbound integrity and ordering is an invariant of accepted rounds -/
theorem outbound_integrity (s s' : RState) (toks : List Tok) (hn : NamesNodup s)
    (h : acceptRound s toks = .ok s') (ho : InvOut s) (hq : Quiet s) : InvOut s' ∧ Quiet s' ∧ NamesNodup s' :=
  Proofs.ReactorBytes.outbound_integrity s s' toks hn h ho hq

theorem outbound_init (cfg : Cfg) : InvOut { cfg := cfg } :=
  Proofs.ReactorBytes.outbound_init cfg

/-- the same for whole histories: after ANY number of accepted rounds from the initial state of any configuration -/
theorem outbound_integrity_all_histories (cfg : Cfg) (rounds : List (List Tok)) (s' : RState)
    (h : Proofs.ReactorRuns.acceptRounds { cfg := cfg } rounds = .ok s') : InvOut s' :=
  (Proofs.ReactorRuns.runs_from_init cfg rounds s' h).2.1

/-! Non-vacuity: in the recorded history the OnOpen reply [104, 105] is accepted and handed to the kernel. -/
example : (Example.after 1).bind Example.bytesView = some [[], [], [104, 105], [104, 105]] := by decide +kernel

end Gnet.Props.C02
