/-
  C16: address parsing and option normalisation are total and exact.
  `Gnet.Gen.norm*` and `Gnet.Gen.determineEventLoops` are REGENERATED from gnet.go /
  client_unix.go on every run; `none` = panic.
  Only property theorems and non-vacuity examples live here; helper lemmas are in
  Gnet/Proofs/Options.lean. Statements are never weakened to make a proof pass.
-/
import Gnet.Model.Options
import Gnet.Proofs.Arith
import Gnet.Proofs.Options
import Gnet.Props.C16Url
import Gnet.Props.C20
namespace Gnet.Props.C16
open Gnet Gnet.Options

/-- Read/write buffer capacity (server): 64 KiB for requests ≤ 0, 1 KiB for 1..1024, otherwise the
    smallest power of two not smaller than the request; a panic only when no such int exists. -/
theorem norm_read_cap_server (x : BitVec 64) :
    (x.toInt ≤ 0 → Gen.normReadCapServer x 65536#64 = some 65536#64) ∧
    (0 < x.toInt → x.toInt ≤ 1024 → Gen.normReadCapServer x 65536#64 = some 1024#64) ∧
    (1024 < x.toInt → x.toInt ≤ 2 ^ 62 → ∃ r, Gen.normReadCapServer x 65536#64 = some r ∧
        Proofs.Arith.IsPow2 r.toInt ∧ x.toInt ≤ r.toInt ∧ 1024 ≤ r.toInt ∧
        ∀ p : Int, Proofs.Arith.IsPow2 p → x.toInt ≤ p → r.toInt ≤ p) ∧
    (2 ^ 62 < x.toInt → Gen.normReadCapServer x 65536#64 = none) :=
  Proofs.Options.norm_read_cap_server x

/-- normalising a buffer capacity is idempotent: whatever `normReadCapServer` returns (for any request
    on which it does not panic) is returned unchanged when given back as the request - options already
    normalised by a first engine survive being passed to a second one -/
theorem norm_cap_idempotent (x r : BitVec 64) (h : Gen.normReadCapServer x 65536#64 = some r) :
    Gen.normReadCapServer r 65536#64 = some r := by
  obtain ⟨h0, h1, h2, h3⟩ := norm_read_cap_server x
  by_cases c0 : x.toInt ≤ 0
  · rw [h0 c0] at h; cases h; decide
  · by_cases c1 : x.toInt ≤ 1024
    · rw [h1 (by omega) c1] at h; cases h; decide
    · by_cases c2 : x.toInt ≤ 2 ^ 62
      · obtain ⟨r', hr', _, hle, _, _⟩ := h2 (by omega) c2
        rw [hr'] at h; cases h
        have e0 : (0#64).toInt = 0 := by decide
        have e1 : (1024#64).toInt = 1024 := by decide
        have hx : Gen.normReadCapServer x 65536#64 = Gen.CeilToPowerOfTwo x := by
          unfold Gen.normReadCapServer
          simp only [BitVec.sle_iff_toInt_le, e0, e1]
          rw [if_neg (by omega), if_neg (by omega)]
        obtain ⟨q, hq, hqq⟩ := C20.ceil_idempotent x c2
        rw [hx, hq] at hr'; cases hr'
        unfold Gen.normReadCapServer
        simp only [BitVec.sle_iff_toInt_le, e0, e1]
        rw [if_neg (by omega), if_neg (by omega)]
        exact hqq
      · rw [h3 (by omega)] at h; cases h
/-- the other three switches are the same function -/
theorem norm_caps_agree (x mx : BitVec 64) :
    Gen.normWriteCapServer x mx = Gen.normReadCapServer x mx ∧
    Gen.normReadCapClient x mx = Gen.normReadCapServer x mx ∧
    Gen.normWriteCapClient x mx = Gen.normReadCapServer x mx :=
  Proofs.Options.norm_caps_agree x mx

/-- edge-triggered chunk: a positive request is rounded up to a power of two and switches
    edge-triggered mode on; otherwise 1 MiB when edge-triggered mode is on -/
theorem chunk_spec (chunk : BitVec 64) (et : Bool) :
    (0 < chunk.toInt → chunk.toInt ≤ 2 ^ 62 → ∃ r, chunkNorm chunk et = some (r, true) ∧
        Gen.CeilToPowerOfTwo chunk = some r) ∧
    (chunk.toInt ≤ 0 → et = true → chunkNorm chunk et = some (1048576#64, true)) ∧
    (chunk.toInt ≤ 0 → et = false → chunkNorm chunk et = some (chunk, false)) :=
  Proofs.Options.chunk_spec chunk et

/-- number of event loops: clamped to 1..256 according to Multicore / NumEventLoop -/
theorem evloops_spec (mc : Bool) (nel ncpu : BitVec 64) (hcpu : 1 ≤ ncpu.toInt) :
    ∃ r, Gen.determineEventLoops mc nel ncpu = some r ∧ 1 ≤ r.toInt ∧ r.toInt ≤ 256 ∧
      (0 < nel.toInt → r.toInt = min nel.toInt 256) ∧
      (nel.toInt ≤ 0 → mc = true → r.toInt = min ncpu.toInt 256) ∧
      (nel.toInt ≤ 0 → mc = false → r.toInt = 1) :=
  Proofs.Options.evloops_spec mc nel ncpu hcpu

/-- gnet's dispatch on the parsed URL is total: an error, or one of the seven schemes with a
    non-empty endpoint -/
theorem dispatch_total (u : UrlParts) :
    dispatch u = .urlError ∨ dispatch u = .invalidAddress ∨ dispatch u = .unsupportedProtocol ∨
    ∃ s e, dispatch u = .ok s e ∧ (s ∈ ipSchemes ∨ s = "unix") ∧ e ≠ "" :=
  Proofs.Options.dispatch_total u

/-- tcp*/udp*: the endpoint is returned exactly as `url.Parse` delivered the host -/
theorem dispatch_ip (u : UrlParts) (he : u.err = false) (hs : u.scheme ∈ ipSchemes)
    (hh : u.host ≠ "") (hp : u.path = "") : dispatch u = .ok u.scheme u.host :=
  Proofs.Options.dispatch_ip u he hs hh hp

theorem dispatch_unix (u : UrlParts) (he : u.err = false) (hs : u.scheme = "unix") (hj : u.joined ≠ "") :
    dispatch u = .ok "unix" u.joined :=
  Proofs.Options.dispatch_unix u he hs hj

/-- the documented errors -/
theorem dispatch_errors (u : UrlParts) (he : u.err = false) :
    (u.scheme = "" → dispatch u = .invalidAddress) ∧
    (u.scheme ∈ ipSchemes → (u.host = "" ∨ u.path ≠ "") → dispatch u = .invalidAddress) ∧
    (u.scheme = "unix" → u.joined = "" → dispatch u = .invalidAddress) ∧
    (u.scheme ≠ "" → u.scheme ∉ ipSchemes → u.scheme ≠ "unix" → dispatch u = .unsupportedProtocol) :=
  Proofs.Options.dispatch_errors u he

-- non-vacuity
example : Gen.normReadCapServer 5000#64 65536#64 = some 8192#64 := by decide
example : Gen.determineEventLoops true 0#64 16#64 = some 16#64 := by decide
example : dispatch ⟨false, "tcp6", "[fe80::1%eth0]:80", "", "[fe80::1%eth0]:80"⟩ = .ok "tcp6" "[fe80::1%eth0]:80" := by decide

/-! ### Address parsing, whole function (model of `net/url.Parse` + `path.Join` + the dispatch: Model/Url.lean)

Stated with their full hypotheses and examples in Props/C16Url.lean; restated here because they are obligations
of C16. The model of url.Parse is tied to Go's by the correspondence run (every generated and fuzzed address:
error-or-not, scheme, host, path, joined path and the final result must agree). -/

theorem parse_ip_exact : type_of% @Gnet.Props.C16Url.parse_ip_exact := @Gnet.Props.C16Url.parse_ip_exact

theorem v6_forms : type_of% @Gnet.Props.C16Url.v6_forms := @Gnet.Props.C16Url.v6_forms

theorem parse_unix_exact : type_of% @Gnet.Props.C16Url.parse_unix_exact := @Gnet.Props.C16Url.parse_unix_exact

theorem parse_unix_clean : type_of% @Gnet.Props.C16Url.parse_unix_clean := @Gnet.Props.C16Url.parse_unix_clean

theorem parse_total : type_of% @Gnet.Props.C16Url.parse_total := @Gnet.Props.C16Url.parse_total

theorem parse_unknown_scheme : type_of% @Gnet.Props.C16Url.parse_unknown_scheme := @Gnet.Props.C16Url.parse_unknown_scheme

theorem parse_no_scheme : type_of% @Gnet.Props.C16Url.parse_no_scheme := @Gnet.Props.C16Url.parse_no_scheme

theorem parse_no_scheme_name : type_of% @Gnet.Props.C16Url.parse_no_scheme_name := @Gnet.Props.C16Url.parse_no_scheme_name

end Gnet.Props.C16
