import Gnet.Model.Options
namespace Gnet.Props.C16
open Gnet Gnet.Options

theorem dispatch_url_error (u : UrlParts) (h : u.err = true) : dispatch u = .urlError := by
  simp [dispatch, h]

end Gnet.Props.C16
