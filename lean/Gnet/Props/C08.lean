/-
  C08 on the reactor model, for every accepted round (every sequence of
  environment decisions the real loop can exhibit and the acceptor recognises).
-/
import Gnet.Spec.ReactorSpec
import Gnet.Proofs.ReactorLife
namespace Gnet.Props.C08
open Gnet.Reactor

/-- one datagram, one event: an accepted UDP dispatch hands exactly the received payload to
    exactly one OnTraffic whose RemoteAddr is the datagram's source -/
theorem udp_one_event (fuel : Nat) (l : String) (s s' : RState) (r : Ret) (rest : List Tok)
    (n : Int) (src : String) (data : List Nat) (t : Tok)
    (ht : s.toks = .sysRecvfrom l n "nil" src data :: t :: rest)
    (h : (exec fuel (.readUDP l)).run s = .ok (r, s')) :
    ∃ en, t = .cb "OnTraffic" l data.length en src :=
  Proofs.ReactorLife.udp_one_event fuel l s s' r rest n src data t ht h

/-! Non-vacuity: a recorded UDP round (one datagram of three bytes from 127.0.0.1) is accepted; the same round with an
OnTraffic that shows two readable bytes is rejected. -/
def exState : RState := { cfg := { isET := false, chunk := 0, rbc := 2048 } }

example : (acceptRound exState [.enter "accept" "L0" "", .enter "readUDP" "L0" "",
    .sysRecvfrom "L0" 3 "nil" "inet4:7f000001:33991" [10, 11, 12],
    .cb "OnTraffic" "L0" 3 true "inet4:7f000001:33991", .ret none 0]).toOption.isSome = true := by decide +kernel

example : (acceptRound exState [.enter "accept" "L0" "", .enter "readUDP" "L0" "",
    .sysRecvfrom "L0" 3 "nil" "inet4:7f000001:33991" [10, 11, 12],
    .cb "OnTraffic" "L0" 2 true "inet4:7f000001:33991", .ret none 0]).toOption.isSome = false := by decide +kernel

end Gnet.Props.C08
