/-
  C16, parsing half: for every string, parsing a listen address either fails with an error or
  returns one of the seven supported schemes together with the endpoint exactly as written, and
  it never panics.

  `Gnet.Url.parseProtoAddr` (Gnet/Model/Url.lean) is an executable, TOTAL model of gnet's
  `parseProtoAddr`: `strings.ReplaceAll(addr, "%", "%25")`, Go 1.23 `net/url.Parse`,
  `path.Join` and the `switch u.Scheme` of gnet.go (`Gnet.Options.dispatch`).  It is tied to the
  real function by the recorded-data comparison of `gnetmodel arith` (`parse` lines): the model
  of url.Parse / path.Join is run on the address alone and every field it computes is compared
  with what the real url.Parse / path.Join returned.  A Go string is a byte string; a byte `b`
  is the character with code point `b`.  Totality of the Lean function is the "never panics"
  half for the model; for the real function it is the tie (no panic in any recorded run).

  The address grammar of the exactness theorems (all predicates `Bool`-valued, defined in
  Gnet/Model/Url.lean):
    nameChar      [a-z0-9.-]          hexColonChar  [0-9a-f:]
    zoneChar      [a-z0-9-]           segChar       [a-z0-9._-]
    isNameHost h      h non-empty over nameChar                               form (a)
    isV6Host h        h = "[" x "]",  x non-empty over hexColonChar            form (b)
    isV6ZoneHost h    h = "[" x "%" z "]",  x non-empty over hexColonChar,
                      z non-empty over zoneChar                                form (c)
    isIpHost h        one of the three
    isPort p          1 to 5 decimal digits
    isLowerWord s     non-empty, lower-case letters only
    isSchemeWord s    a lower-case letter, then lower-case letters and digits
    isCleanPath p     segments over segChar, none empty, "." or "..", separated by single
                      slashes, with or without a leading slash, no trailing slash
    isPathText p      non-empty over segChar and '/'

  Only property theorems and non-vacuity examples live here; the proofs are in
  Gnet/Proofs/Url*.lean.  Statements are never weakened to make a proof pass.
-/
import Gnet.Model.Url
import Gnet.Proofs.Url
namespace Gnet.Props.C16Url
open Gnet Gnet.Options Gnet.Url

/-- evaluate the model on a literal address (kernel evaluation, no native code) -/
macro "eval_addr" : tactic =>
  `(tactic| (unfold parseProtoAddr; simp only [String.reduceToList]; decide))

/-! ### tcp*/udp*: the endpoint is returned exactly as written -/

/-- For each of the six IP schemes, every host of form (a), (b) or (c) and every port of 1 to 5
    digits: the result is the scheme and `host:port` exactly as written.  In form (c) the raw '%'
    is escaped to "%25" by `parseProtoAddr` and unescaped again by url.Parse's zone handling. -/
theorem parse_ip_exact (scheme host port : String) (hs : scheme ∈ ipSchemes)
    (hh : isIpHost host.toList = true) (hp : isPort port.toList = true) :
    parseProtoAddr (scheme ++ "://" ++ host ++ ":" ++ port) = .ok scheme (host ++ ":" ++ port) :=
  Proofs.Url.parse_ip_exact scheme host port hs hh hp

example : parseProtoAddr "udp6://[fe80::4dc7:4bb%lo0]:9991" = .ok "udp6" "[fe80::4dc7:4bb%lo0]:9991" :=
  parse_ip_exact "udp6" "[fe80::4dc7:4bb%lo0]" "9991" (by decide) (by decide) (by decide)
example : parseProtoAddr "tcp4://192.168.0.1:65535" = .ok "tcp4" "192.168.0.1:65535" :=
  parse_ip_exact "tcp4" "192.168.0.1" "65535" (by decide) (by decide) (by decide)
example : parseProtoAddr "tcp://[::1]:80" = .ok "tcp" "[::1]:80" :=
  parse_ip_exact "tcp" "[::1]" "80" (by decide) (by decide) (by decide)
-- the same by evaluating the model
example : parseProtoAddr "udp6://[fe80::4dc7:4bb%lo0]:9991" = .ok "udp6" "[fe80::4dc7:4bb%lo0]:9991" := by
  eval_addr
example : parseProtoAddr "tcp://my-host.example.org:8080" = .ok "tcp" "my-host.example.org:8080" := by
  eval_addr

/-- the host predicates accept exactly the written forms (b) and (c) -/
theorem v6_forms (a z : String)
    (ha : a.toList ≠ [] ∧ a.toList.all hexColonChar = true)
    (hz : z.toList ≠ [] ∧ z.toList.all zoneChar = true) :
    isIpHost ("[" ++ a ++ "]").toList = true ∧ isIpHost ("[" ++ a ++ "%" ++ z ++ "]").toList = true := by
  rw [Proofs.Url.v6_text, Proofs.Url.v6zone_text]
  simp only [isIpHost, Bool.or_eq_true]
  exact ⟨Or.inl (Or.inr (Proofs.Url.isV6Host_intro ha.1 ha.2)),
    Or.inr (Proofs.Url.isV6ZoneHost_intro ha.1 ha.2 hz.1 hz.2)⟩

example : isIpHost "localhost".toList = true ∧ isIpHost "[fe80::1%eth0]".toList = true ∧
    isIpHost "[fe80::1%]".toList = false ∧ isIpHost "[fe80::1%Eth0]".toList = false ∧
    isIpHost "a b".toList = false ∧ isIpHost "[]".toList = false := by decide

/-! ### unix: the endpoint is the cleaned path -/

/-- A cleaned path, relative or absolute, comes back exactly as written.  With a leading slash
    url.Parse gives an empty host and the path; without, the first segment is the host and
    `path.Join(host, path)` puts the text together again. -/
theorem parse_unix_exact (p : String) (hp : isCleanPath p.toList = true) :
    parseProtoAddr ("unix://" ++ p) = .ok "unix" p :=
  Proofs.Url.parse_unix_exact p hp

example : parseProtoAddr "unix:///var/run/gnet_1.sock" = .ok "unix" "/var/run/gnet_1.sock" :=
  parse_unix_exact "/var/run/gnet_1.sock" (by decide)
example : parseProtoAddr "unix://gnet.sock" = .ok "unix" "gnet.sock" :=
  parse_unix_exact "gnet.sock" (by decide)
example : parseProtoAddr "unix://run/gnet/a.sock" = .ok "unix" "run/gnet/a.sock" := by eval_addr

/-- General form: any non-empty text over `[a-z0-9._-]` and '/' (with ".", "..", doubled or
    trailing slashes): the endpoint is `path.Clean` of the text. -/
theorem parse_unix_clean (p : String) (hp : isPathText p.toList = true) :
    parseProtoAddr ("unix://" ++ p) = .ok "unix" (String.ofList (pathClean p.toList)) :=
  Proofs.Url.parse_unix_clean p hp

example : parseProtoAddr "unix://a/./b//../c.sock/" = .ok "unix" "a/c.sock" := by eval_addr
example : parseProtoAddr "unix://../x" = .ok "unix" "../x" := by eval_addr
example : pathClean "/../a/../..".toList = "/".toList := by decide

/-! ### classification of every input -/

/-- For EVERY string: a success names one of the seven schemes and a non-empty endpoint. -/
theorem parse_total (s : String) :
    match parseProtoAddr s with
    | .ok sch ep => (sch ∈ ipSchemes ∨ sch = "unix") ∧ ep ≠ ""
    | _ => True :=
  Proofs.Url.parse_total s

example : parseProtoAddr "tcp://:80" = .ok "tcp" ":80" := by eval_addr
example : parseProtoAddr "tcp://" = .invalidAddress := by eval_addr
example : parseProtoAddr "unix://" = .invalidAddress := by eval_addr
example : parseProtoAddr "tcp://host:80/x" = .invalidAddress := by eval_addr
example : parseProtoAddr "//host:80" = .invalidAddress := by eval_addr
example : parseProtoAddr "tcp://ho st:80" = .urlError := by eval_addr

/-- A scheme gnet does not know (non-empty, lower-case letters, not one of the seven). -/
theorem parse_unknown_scheme (scheme host port : String)
    (hw : isLowerWord scheme.toList = true) (hn : scheme ∉ ipSchemes) (hu : scheme ≠ "unix")
    (hh : isIpHost host.toList = true) (hp : isPort port.toList = true) :
    parseProtoAddr (scheme ++ "://" ++ host ++ ":" ++ port) = .unsupportedProtocol :=
  Proofs.Url.parse_unknown_scheme scheme host port hw hn hu hh hp

example : parseProtoAddr "http://[fe80::1%eth0]:80" = .unsupportedProtocol :=
  parse_unknown_scheme "http" "[fe80::1%eth0]" "80" (by decide) (by decide) (by decide)
    (by decide) (by decide)
example : parseProtoAddr "sctp://10.0.0.1:5000" = .unsupportedProtocol := by eval_addr

/-- No scheme, bracketed IPv6 host: the text starts with '[', so there is no scheme, and the
    first path segment contains ':' - url.Parse fails ("first path segment in URL cannot contain
    colon"); gnet passes that error on. -/
theorem parse_no_scheme (host port : String)
    (hh : isV6Host host.toList = true ∨ isV6ZoneHost host.toList = true)
    (hp : isPort port.toList = true) :
    parseProtoAddr (host ++ ":" ++ port) = .urlError :=
  Proofs.Url.parse_no_scheme host port hh hp

example : parseProtoAddr "[fe80::1%eth0]:80" = .urlError :=
  parse_no_scheme "[fe80::1%eth0]" "80" (Or.inr (by decide)) (by decide)
example : parseProtoAddr "[::1]:80" = .urlError := by eval_addr

/-- No scheme, a name: "localhost:80" is read as scheme "localhost" with opaque text "80", so the
    answer is unsupported-protocol - or invalid-address when the name happens to be one of the
    seven schemes ("tcp:80", "unix:80": scheme known, host and path empty). -/
theorem parse_no_scheme_name (host port : String) (hh : isSchemeWord host.toList = true)
    (hp : isPort port.toList = true) :
    parseProtoAddr (host ++ ":" ++ port) =
      if host ∈ ipSchemes ∨ host = "unix" then .invalidAddress else .unsupportedProtocol :=
  Proofs.Url.parse_no_scheme_name host port hh hp

example : parseProtoAddr "localhost:80" = .unsupportedProtocol := by eval_addr
example : parseProtoAddr "tcp:80" = .invalidAddress := by eval_addr
example : parseProtoAddr "127.0.0.1:80" = .urlError := by eval_addr

end Gnet.Props.C16Url
