import Gnet.Spec.ReactorSpec
namespace Gnet.Props.C18
open Gnet.Reactor

theorem init_names (cfg : Cfg) : NamesNodup { cfg := cfg } := by simp [NamesNodup]

end Gnet.Props.C18
