/-
  C18 on the reactor model, for every accepted round (every sequence of
  environment decisions the real loop can exhibit and the acceptor recognises).
-/
import Gnet.Spec.ReactorSpec
import Gnet.Proofs.ReactorLife
import Gnet.Spec.ReactorExample
namespace Gnet.Props.C18
open Gnet.Reactor

/-- fault isolation (frame property): dispatching an event for connection `c` - whatever the
    kernel answers, including any error at any system call, and whatever the handler does
    with `c` - leaves every other connection exactly as it was -/
theorem fault_isolation (fuel : Nat) (c : String) (mask : Nat) (s s' : RState) (r : Ret)
    (h : (exec fuel (.processIO c mask)).run s = .ok (r, s')) (c' : String) (hc : c' ≠ c) :
    lookup s' c' = lookup s c' :=
  Proofs.ReactorLife.fault_isolation fuel c mask s s' r h c' hc

/-- the same for queued tasks and closes of `c` -/
theorem close_isolation (fuel : Nat) (c : String) (en : Bool) (s s' : RState) (r : Ret)
    (h : (exec fuel (.close c en)).run s = .ok (r, s')) (c' : String) (hc : c' ≠ c) :
    lookup s' c' = lookup s c' :=
  Proofs.ReactorLife.close_isolation fuel c en s s' r h c' hc

/-- a non-retryable read error closes exactly that connection: after an accepted dispatch of a
    readable event whose read(2) fails with an error other than EAGAIN the connection is no
    longer opened nor registered and its descriptor has been released -/
theorem read_error_closes (fuel : Nat) (c : String) (s s' : RState) (r : Ret) (rest : List Tok)
    (len : Nat) (n : Int) (err : String) (data : List Nat) (x : Conn)
    (hx : lookup s c = some x) (ho : x.opened = true) (hr : x.registered = true) (hn : NamesNodup s)
    (ht : s.toks = .enter "read" c "" :: .sysRead c len n err data :: rest)
    (he : err ≠ "nil") (he2 : err ≠ "EAGAIN")
    (h : (exec fuel (.elRead c)).run s = .ok (r, s')) :
    ∃ x', lookup s' c = some x' ∧ x'.opened = false ∧ x'.registered = false ∧ x'.fdOpen = false ∧
      x'.word = x.word ++ ["close"] ∧ x'.closeErrNil = false :=
  Proofs.ReactorLife.read_error_closes fuel c s s' r rest len n err data x hx ho hr hn ht he he2 h

/-! Non-vacuity: in the recorded history with a failing read (ECONNRESET) the connection is closed, its OnClose gets a
non-nil error and its descriptor is released. -/
example : Example.afterFault.bind Example.lifeView = some (["open", "traffic", "close"], false) ∧
    Example.afterFault.bind Example.closeErrView = some false := by decide +kernel

end Gnet.Props.C18

