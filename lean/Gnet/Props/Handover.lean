/-
  FIXED STATEMENTS (do not edit): the hand-over of accepted connections and of Register / Enroll calls, and their
  fate at shutdown, after the fix "registrations handed to an event loop that has exited are aborted".
  Every theorem here is proved in Gnet/Proofs/Handover.lean and only restated.
-/
import Gnet.Model.Handover
import Gnet.Proofs.Handover
namespace Gnet.Props.Handover
open Gnet.Handover

/-- C07/C04: ownership partition. Every descriptor the acceptor or an enrolment created is in exactly one place:
waiting in exactly one loop's queue, registered with exactly one loop, or closed (exactly once). -/
theorem handover_partition (s : State) (h : Reachable s) :
    (pending s ++ registered s ++ s.closed).Perm (created s) :=
  Proofs.Handover.partition s h

/-- C15 (last clause) / C04: OnOpen runs at most once per descriptor, and on the loop the load balancer chose. -/
theorem opened_on_assigned_loop (s : State) (h : Reachable s) :
    (∀ p ∈ s.opened, p ∈ s.assigned) ∧ (s.opened.map Prod.fst).Nodup ∧ s.assigned.map Prod.fst = created s :=
  Proofs.Handover.opened_assigned s h

/-- C03 at this level: a loop that keeps running serves every registration handed to it. -/
theorem running_loop_serves (s : State) (l : Nat) (x : Loop) (hx : s.loops[l]? = some x) (hr : x.running = true)
    (pre rest : List Task) (fd : Nat) (hq : x.queue = pre ++ Task.register fd :: rest) (hns : Task.sentinel ∉ pre) :
    (fd, l) ∈ (run s (List.replicate (pre.length + 1) (Step.exec l))).opened :=
  Proofs.Handover.running_loop_serves s l x hx hr pre rest fd hq hns

/-- registrations wait only in the queues of loops that are still polling -/
theorem pending_only_on_running_loops (s : State) (h : Reachable s) (l : Nat) (x : Loop)
    (hx : s.loops[l]? = some x) (hr : x.running = false) : pendingOf x = [] ∧ x.conns = [] :=
  Proofs.Handover.pending_only_on_running s h l x hx hr

/-- C07: no descriptor leaks. When everything has stopped every descriptor the framework created has been closed,
exactly once. -/
theorem final_no_leak (s : State) (h : Reachable s) (hf : Final s = true) :
    unclosed s = [] ∧ s.closed.Perm (created s) :=
  Proofs.Handover.final_no_leak s h hf

/-- C19: every accepted Register / Enroll call gets at most one result, only accepted calls get one, ... -/
theorem results_at_most_once (s : State) (h : Reachable s) :
    s.results.Nodup ∧ (∀ fd ∈ s.results, fd ∈ s.enrolled) ∧ s.enrolled.Nodup :=
  Proofs.Handover.results_at_most_once s h

/-- ... a call is without its result exactly while its registration waits in a queue, ... -/
theorem unanswered_are_pending (s : State) (h : Reachable s) :
    ∀ fd, fd ∈ unanswered s ↔ (fd ∈ s.enrolled ∧ fd ∈ pending s) :=
  Proofs.Handover.unanswered_are_pending s h

/-- ... so when everything has stopped every accepted call has been answered: with a connection whose OnOpen has
run, or with an error, in which case its descriptor has been closed and OnOpen never ran. -/
theorem final_all_answered (s : State) (h : Reachable s) (hf : Final s = true) : unanswered s = [] :=
  Proofs.Handover.final_all_answered s h hf

theorem failed_results (s : State) (h : Reachable s) :
    (∀ fd ∈ s.failed, fd ∈ s.results ∧ fd ∈ s.closed ∧ fd ∉ s.opened.map Prod.fst) ∧
    (∀ fd ∈ s.results, fd ∉ s.failed → fd ∈ s.opened.map Prod.fst) :=
  Proofs.Handover.failed_results s h

/-- after the flag is set no call is accepted any more: the set of accepted calls is final -/
theorem no_enrolment_after_flag (s : State) (hs : s.inShutdown = true) (l : Nat) : step s (.enroll l) = s :=
  Proofs.Handover.no_enrolment_after_flag s hs l

-- non-vacuity: the histories in which the unfixed code leaked a descriptor / never answered a call
example :
    let s := run (init 1) [.accept 0, .accept 0, .exec 0, .action 0, .postSentinels, .acceptorExit]
    Final s = true ∧ unclosed s = [] ∧ s.closed = [0, 1] ∧ s.opened = [(0, 0)] := by decide

example :
    let s := run (init 2) [.requestStop, .postSentinels, .accept 1, .exec 0, .exec 1, .acceptorExit]
    Final s = true ∧ unclosed s = [] ∧ s.closed = [0] ∧ s.opened = [] := by decide

example :
    let s := run (init 1) [.requestStop, .postSentinels, .exec 0, .enroll 0, .acceptorExit, .setFlag]
    Final s = true ∧ s.inShutdown = true ∧ unanswered s = [] ∧ s.results = [0] ∧ s.failed = [0] ∧ s.closed = [0] := by decide

-- non-vacuity: connections handed over, served, closed by peers and by shutdown; an enrolment that is answered
example :
    let s := run (init 2) [.accept 0, .accept 1, .exec 0, .exec 1, .peerClose 0 0, .accept 1, .exec 1,
                           .requestStop, .postSentinels, .acceptorExit, .exec 0, .exec 1]
    Final s = true ∧ pending s = [] ∧ s.closed = [0, 1, 2] ∧ s.opened = [(0, 0), (1, 1), (2, 1)] := by decide

example :
    let s := run (init 1) [.enroll 0, .exec 0, .requestStop, .postSentinels, .acceptorExit, .exec 0, .setFlag]
    Final s = true ∧ s.results = [0] ∧ s.failed = [] ∧ unanswered s = [] ∧ s.closed = [0] := by decide

-- non-vacuity of the step `reorder` (hand-overs of different goroutines reach the queue in an order of their own): the
-- second enrolment is registered first, everything above still holds of the run
example :
    let s := run (init 1) [.enroll 0, .enroll 0, .reorder 0 1, .exec 0, .exec 0, .requestStop, .postSentinels, .exec 0,
                           .acceptorExit, .setFlag]
    s.opened = [(1, 0), (0, 0)] ∧ Final s = true ∧ unclosed s = [] ∧ unanswered s = [] := by decide

end Gnet.Props.Handover
