/-
  FIXED STATEMENTS (do not edit): the hand-over of accepted connections and their fate at shutdown.
  Every theorem here is proved in Gnet/Proofs/Handover.lean and only restated.
-/
import Gnet.Model.Handover
import Gnet.Proofs.Handover
namespace Gnet.Props.Handover
open Gnet.Handover

/-- C07/C04: ownership partition. Every descriptor the acceptor created is in exactly one place:
waiting in exactly one loop's queue, registered with exactly one loop, or closed (exactly once). -/
theorem handover_partition (s : State) (h : Reachable s) :
    (pending s ++ registered s ++ s.closed).Perm (created s) :=
  Proofs.Handover.partition s h

/-- C15 (last clause) / C04: OnOpen runs at most once per descriptor, and on the loop the load
balancer chose for it. -/
theorem opened_on_assigned_loop (s : State) (h : Reachable s) :
    (∀ p ∈ s.opened, p ∈ s.assigned) ∧ (s.opened.map Prod.fst).Nodup ∧ s.assigned.map Prod.fst = created s :=
  Proofs.Handover.opened_assigned s h

/-- C03 at this level: a loop that keeps running serves every registration handed to it. -/
theorem running_loop_serves (s : State) (l : Nat) (x : Loop) (hx : s.loops[l]? = some x) (hr : x.running = true)
    (pre rest : List Task) (fd : Nat) (hq : x.queue = pre ++ Task.register fd :: rest) (hns : Task.sentinel ∉ pre) :
    (fd, l) ∈ (run s (List.replicate (pre.length + 1) (Step.exec l))).opened :=
  Proofs.Handover.running_loop_serves s l x hx hr pre rest fd hq hns

/-- C07, the finding characterised: when everything has stopped, the descriptors the framework
created and never closed are exactly those whose registration still sits in the queue of a loop
that left Polling. Nothing else can leak. -/
theorem final_unclosed_are_stranded (s : State) (h : Reachable s) (hf : Final s = true) :
    ∀ fd, fd ∈ unclosed s ↔ fd ∈ pending s :=
  Proofs.Handover.final_unclosed s h hf

/-- C07, the finding itself (known finding `accepted-socket-leaks-when-loop-exits-first`): such a
final state is reachable, both through a Shutdown action on the target loop and through an
ordinary Stop while a connection arrives. -/
theorem leak_reachable_by_action :
    let s := run (init 1) [.accept 0, .accept 0, .exec 0, .action 0, .postSentinels, .acceptorExit]
    Final s = true ∧ unclosed s = [1] :=
  Proofs.Handover.leak_by_action

theorem leak_reachable_by_stop :
    let s := run (init 2) [.requestStop, .postSentinels, .accept 1, .exec 0, .exec 1, .acceptorExit]
    Final s = true ∧ unclosed s = [0] :=
  Proofs.Handover.leak_by_stop

/-- no leak when no registration is stranded: if every queue is empty of registrations in the final
state, every created descriptor was closed exactly once. -/
theorem no_stranded_no_leak (s : State) (h : Reachable s) (hf : Final s = true) (hp : pending s = []) :
    s.closed.Perm (created s) :=
  Proofs.Handover.no_stranded_no_leak s h hf hp

/-- C19 (Register/Enroll deliver exactly one result per accepted call): never more than one, and only for accepted calls -/
theorem results_at_most_once (s : State) (h : Reachable s) :
    s.results.Nodup ∧ (∀ fd ∈ s.results, fd ∈ s.enrolled) ∧ s.enrolled.Nodup :=
  Proofs.Handover.results_at_most_once s h

/-- C19, the finding characterised: an accepted call is still without its result exactly when its registration is
waiting in a queue; once everything has stopped these are the registrations stranded in the queue of a loop that left
Polling - their callers wait forever -/
theorem unanswered_are_pending (s : State) (h : Reachable s) :
    ∀ fd, fd ∈ unanswered s ↔ (fd ∈ s.enrolled ∧ fd ∈ pending s) :=
  Proofs.Handover.unanswered_are_pending s h

/-- C19, the finding itself (known finding `register-races-with-shutdown`): a Register call accepted while the
engine is shutting down (the flag is only set at the very end) is never answered -/
theorem register_unanswered_reachable :
    let s := run (init 1) [.requestStop, .postSentinels, .exec 0, .enroll 0, .acceptorExit, .setFlag]
    Final s = true ∧ s.inShutdown = true ∧ unanswered s = [0] :=
  Proofs.Handover.register_unanswered_reachable

/-- after the flag is set no call is accepted any more: the set of accepted calls is final -/
theorem no_enrolment_after_flag (s : State) (hs : s.inShutdown = true) (l : Nat) : step s (.enroll l) = s :=
  Proofs.Handover.no_enrolment_after_flag s hs l

-- non-vacuity: a run in which connections are handed over, served, closed by peers and by shutdown
example :
    let s := run (init 2) [.accept 0, .accept 1, .exec 0, .exec 1, .peerClose 0 0, .accept 1, .exec 1,
                           .requestStop, .postSentinels, .acceptorExit, .exec 0, .exec 1]
    Final s = true ∧ pending s = [] ∧ s.closed = [0, 1, 2] ∧ s.opened = [(0, 0), (1, 1), (2, 1)] := by decide

-- non-vacuity: an enrolment that is answered
example :
    let s := run (init 1) [.enroll 0, .exec 0, .requestStop, .postSentinels, .acceptorExit, .exec 0, .setFlag]
    Final s = true ∧ s.results = [0] ∧ unanswered s = [] ∧ s.closed = [0] := by decide

end Gnet.Props.Handover
