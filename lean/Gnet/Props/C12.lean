/-
  C12: pooled memory is exclusively owned: no aliasing, no out-of-bounds.
  Only property theorems, the audited call-site table and non-vacuity examples live here;
  helper lemmas are in Gnet/Proofs/Pool.lean. Statements are never weakened to make a proof pass.
-/
import Gnet.Model.Pool
import Gnet.Gen.Facts
import Gnet.Proofs.Pool
namespace Gnet.Props.C12
open Gnet

/-- `Get(n)` for `0 < n ≤ MaxInt32`: exactly the requested length, capacity `2^class ≥ n`,
    whatever `sync.Pool` hands back. -/
theorem pool_get_shape (p : BsPool) (n : Int) (c : Option Nat) (h0 : 0 < n) (h1 : n ≤ 2147483647) :
    ∃ s, (p.get n c).2 = some s ∧ s.len = n.toNat ∧ s.cap = 2 ^ BsPool.classOf n.toNat ∧ n.toNat ≤ s.cap :=
  Proofs.Pool.get_shape p n c h0 h1

/-- `Get(n)` never hands out (and so never pins) a region of twice the requested size or more:
    `n ≤ cap < 2n` -/
theorem pool_get_tight (p : BsPool) (n : Int) (c : Option Nat) (h0 : 0 < n) (h1 : n ≤ 2147483647) :
    ∃ s, (p.get n c).2 = some s ∧ n.toNat ≤ s.cap ∧ s.cap < 2 * n.toNat := by
  obtain ⟨s, hs, _, hcap, hle⟩ := Proofs.Pool.get_shape p n c h0 h1
  refine ⟨s, hs, hle, ?_⟩
  obtain ⟨_, hmin⟩ := Proofs.Pool.classOf_spec n.toNat (by omega) (by omega)
  rw [hcap]
  generalize BsPool.classOf n.toNat = i at *
  rcases Nat.eq_zero_or_pos i with h | hpos
  · subst h; omega
  · have hn : ¬ n.toNat ≤ 2 ^ (i - 1) := fun h => by have := hmin _ h; omega
    have : 2 ^ i = 2 * 2 ^ (i - 1) := by
      conv => lhs; rw [show i = (i - 1) + 1 by omega, Nat.pow_succ]
      omega
    omega
/-- no class drift: a slice whose capacity is a class capacity `2^i` (every slice `Get` hands out)
    is filed by `Put` under exactly that class `i`, so it is found again by a `Get` of that class -/
theorem pool_put_same_class (i : Nat) (hi : i ≤ 31) :
    BsPool.classOf (2 ^ i) = i ∧ BsPool.putClass (2 ^ i) = i := by
  have hle : (2 : Nat) ^ i ≤ 2 ^ 31 := Nat.pow_le_pow_right (by decide) hi
  have hpos : 1 ≤ (2 : Nat) ^ i := Nat.one_le_two_pow
  obtain ⟨h1, hmin⟩ := Proofs.Pool.classOf_spec (2 ^ i) hpos hle
  have ha : BsPool.classOf (2 ^ i) ≤ i := hmin i (Nat.le_refl _)
  have hb : i ≤ BsPool.classOf (2 ^ i) := (Nat.pow_le_pow_iff_right (by decide)).mp h1
  have he : BsPool.classOf (2 ^ i) = i := by omega
  refine ⟨he, ?_⟩
  unfold BsPool.putClass
  simp [he]
theorem pool_get_nil (p : BsPool) (n : Int) (c : Option Nat) (h : n ≤ 0) : (p.get n c).2 = none :=
  Proofs.Pool.get_nil p n c h

/-- `Put` of a slice of ANY capacity (power of two or not, re-sliced tail, foreign memory) files
    its pointer under a class whose capacity does not exceed the slice's own capacity: a later
    `Get` can never reach beyond the memory the `Put` slice owned. -/
theorem pool_put_within (cap : Nat) (h0 : 0 < cap) (h1 : cap ≤ 2147483647) :
    2 ^ BsPool.putClass cap ≤ cap :=
  Proofs.Pool.put_within cap h0 h1

/-- the invariant: every stored pointer's class-sized region and every outstanding slice's
    capacity region lie inside their allocation and are pairwise disjoint -/
theorem pool_inv_init : Proofs.Pool.Inv BsPool.init := Proofs.Pool.inv_init

theorem pool_inv_get (p : BsPool) (n : Int) (c : Option Nat) (h : Proofs.Pool.Inv p) :
    Proofs.Pool.Inv (p.get n c).1 :=
  Proofs.Pool.inv_get p n c h

theorem pool_inv_foreign (p : BsPool) (n : Nat) (h : Proofs.Pool.Inv p) : Proofs.Pool.Inv (p.foreign n).1 :=
  Proofs.Pool.inv_foreign p n h

/-- `Put` under the caller discipline: `buf` is cut from an outstanding slice `owner` that the
    caller gives up with this call (so it is put at most once and not used afterwards) -/
theorem pool_inv_put (p : BsPool) (tag : Nat) (buf owner : Slice) (h : Proofs.Pool.Inv p)
    (ho : owner ∈ p.out) (ha : buf.alloc = owner.alloc)
    (hlo : owner.off ≤ buf.off) (hhi : buf.off + buf.cap ≤ owner.off + owner.cap) :
    Proofs.Pool.Inv (p.put tag buf (some owner)) :=
  Proofs.Pool.inv_put p tag buf owner h ho ha hlo hhi

theorem pool_inv_gc (p : BsPool) (keep : Stored → Bool) (h : Proofs.Pool.Inv p) : Proofs.Pool.Inv (p.gc keep) :=
  Proofs.Pool.inv_gc p keep h

/-- hence: two slices handed out and not yet returned never share memory, and a slice just
    obtained shares memory with no other outstanding slice -/
theorem pool_no_alias (p : BsPool) (h : Proofs.Pool.Inv p) :
    p.out.Pairwise (fun a b => Proofs.Pool.Disjoint a.alloc a.off a.cap b.alloc b.off b.cap) :=
  Proofs.Pool.no_alias p h

/-- all histories that follow the discipline, all pool choices, all collections -/
theorem pool_run_inv (ops : List Proofs.Pool.PoolOp) (hd : Proofs.Pool.Disciplined BsPool.init ops) :
    Proofs.Pool.Inv (Proofs.Pool.run BsPool.init ops) :=
  Proofs.Pool.run_inv ops hd

/-- The caller discipline at gnet's own `byteslice.Put` sites: the table is REGENERATED from
    the source (Facts.poolSites); each site carries a hand-written justification. A new, moved or
    changed `Put` site breaks this theorem. (An audited argument, not a proof about Go.) -/
def auditedPutSites : List (String × String × String × String × String) := [
  ("connection_unix.go", "*conn.Discard", "byteslice.Put", "c.cache", "cache was obtained by Get in Next/Peek, owned by the connection, set to nil right after"),
  ("pkg/buffer/linkedlist/linked_list_buffer.go", "*Buffer.Discard", "byteslice.Put", "b.buf", "node popped from the list, not re-linked; for Append-ed nodes the memory is the caller's (documented contract of Append)"),
  ("pkg/buffer/linkedlist/linked_list_buffer.go", "*Buffer.FreeNode", "byteslice.Put", "p", "explicit API: caller states ownership"),
  ("pkg/buffer/linkedlist/linked_list_buffer.go", "*Buffer.ReadFrom", "byteslice.Put", "b", "buffer obtained by Get in the same iteration and not linked (zero bytes read)"),
  ("pkg/buffer/linkedlist/linked_list_buffer.go", "*Buffer.Read", "byteslice.Put", "b.buf", "node popped and fully copied out"),
  ("pkg/buffer/linkedlist/linked_list_buffer.go", "*Buffer.Reset", "byteslice.Put", "b.buf", "node popped, list dropped"),
  ("pkg/buffer/linkedlist/linked_list_buffer.go", "*Buffer.WriteTo", "byteslice.Put", "b.buf", "node popped and fully written"),
  ("pkg/buffer/ring/ring_buffer.go", "*Buffer.grow", "byteslice.Put", "rb.buf", "old backing array, replaced by the new one in the next statement")
]

theorem put_sites_audited :
    (Facts.poolSites.filter (fun s => s.2.2.1 == "byteslice.Put")) =
    auditedPutSites.map (fun s => (s.1, s.2.1, s.2.2.1, s.2.2.2.1)) :=
  Proofs.Pool.put_sites_audited auditedPutSites rfl

-- non-vacuity: a hit serves a Put pointer, regions stay disjoint
example : ((BsPool.init.get 100 none).1.out.length = 1) := by decide

end Gnet.Props.C12
