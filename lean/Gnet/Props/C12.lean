import Gnet.Model.Pool
namespace Gnet.Props.C12
open Gnet

theorem get_nonpositive (p : BsPool) (n : Int) (c : Option Nat) (h : n ≤ 0) : (p.get n c).2 = none := by
  simp [BsPool.get, h]

end Gnet.Props.C12
