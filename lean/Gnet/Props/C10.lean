/-
  C10: elastic buffers (ring + linked list) behave as one FIFO byte queue.
  Only property theorems and non-vacuity examples live here; helper lemmas are in
  Gnet/Proofs/Elastic.lean. Statements are never weakened to make a proof pass.
-/
import Gnet.Model.Elastic
import Gnet.Proofs.Elastic
namespace Gnet.Props.C10
open Gnet

variable {α : Type} [Inhabited α]

/-- `elastic.RingBuffer`: every operation from every well-formed state (ring held or returned
    to the pool, any pool content) keeps the invariant and is a step of the FIFO specification. -/
theorem ering_step_refines (gen : Nat → α) (b : ERing α) (pos : Nat) (op : ElasticFifo.Op α) (h : b.WF) :
    (ERing.step gen (b, pos) op).1.1.WF ∧
    ElasticFifo.Step gen (b.abs, pos) op
      ((ERing.step gen (b, pos) op).1.1.abs, (ERing.step gen (b, pos) op).1.2) (ERing.step gen (b, pos) op).2 :=
  Proofs.Elastic.ering_step_refines gen b pos op h

theorem ering_run_refines (gen : Nat → α) (pool : RbPool) (ops : List (ElasticFifo.Op α)) :
    (ERing.run gen (⟨none, pool⟩, 0) ops).1.1.WF ∧
    ElasticFifo.Run gen ([], 0) ops (ERing.run gen (⟨none, pool⟩, 0) ops).2
      ((ERing.run gen (⟨none, pool⟩, 0) ops).1.1.abs, (ERing.run gen (⟨none, pool⟩, 0) ops).1.2) :=
  Proofs.Elastic.ering_run_refines gen pool ops

/-- `elastic.Buffer`: the content is `ring ++ list`, ring bytes older; every operation (Write,
    Writev with any split, ReadFrom, Read, Peek, Discard, WriteTo, Reset, Release) is a FIFO step:
    the switch-over at the static limit never reorders or drops bytes, `Peek(n)` yields exactly
    the first `n` bytes for `0 < n ≤ Buffered`, `Discard(n)` removes exactly `min n Buffered`. -/
theorem elastic_step_refines (gen : Nat → α) (m : Elastic α) (pos : Nat) (op : ElasticFifo.Op α) (h : m.WF) :
    (Elastic.step gen (m, pos) op).1.1.WF ∧
    ElasticFifo.Step gen (m.abs, pos) op
      ((Elastic.step gen (m, pos) op).1.1.abs, (Elastic.step gen (m, pos) op).1.2) (Elastic.step gen (m, pos) op).2 :=
  Proofs.Elastic.elastic_step_refines gen m pos op h

/-- all finite histories, every static-size limit, every pool content -/
theorem elastic_run_refines (gen : Nat → α) (ms : Nat) (pool : RbPool) (ops : List (ElasticFifo.Op α)) :
    (Elastic.run gen (Elastic.new ms pool, 0) ops).1.1.WF ∧
    ElasticFifo.Run gen ([], 0) ops (Elastic.run gen (Elastic.new ms pool, 0) ops).2
      ((Elastic.run gen (Elastic.new ms pool, 0) ops).1.1.abs, (Elastic.run gen (Elastic.new ms pool, 0) ops).1.2) :=
  Proofs.Elastic.elastic_run_refines gen ms pool ops

/-- `Buffered` and `IsEmpty` agree with the content -/
theorem elastic_counters (m : Elastic α) (h : m.WF) :
    m.buffered = (m.abs.length : Int) ∧ (m.isEmpty = true ↔ m.buffered = 0) :=
  Proofs.Elastic.elastic_counters m h

theorem ering_counters (b : ERing α) (h : b.WF) :
    b.buffered = b.abs.length ∧ (b.isEmpty = true ↔ b.buffered = 0) ∧ b.buffered + b.available = b.cap :=
  Proofs.Elastic.ering_counters b h

/-- a ring obtained from the pool (or freshly made) is well formed and empty -/
theorem ering_inst_fresh (b : ERing α) (h : b.rb = none) :
    (b.inst).1.WF ∧ (b.inst).1.abs = [] :=
  Proofs.Elastic.ering_inst_fresh b h

-- non-vacuity: a state with data in the ring and in the list at the same time
example : (Elastic.step (fun i => i) ((Elastic.new 2 ⟨some 4, []⟩ : Elastic Nat), 0) (.writev [[1, 2, 3], [4]])).1.1.abs
    = [1, 2, 3, 4] := by decide
example : ((Elastic.step (fun i => i) ((Elastic.new 2 ⟨some 4, []⟩ : Elastic Nat), 0) (.writev [[1, 2, 3], [4]])).1.1.list.segs.length,
           (Elastic.step (fun i => i) ((Elastic.new 2 ⟨some 4, []⟩ : Elastic Nat), 0) (.writev [[1, 2, 3], [4]])).1.1.ring.buffered)
    = (2, 2) := by decide

end Gnet.Props.C10
