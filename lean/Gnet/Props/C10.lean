import Gnet.Model.Elastic
namespace Gnet.Props.C10
open Gnet

theorem elastic_new_empty (ms : Nat) (p : RbPool) : (Elastic.new ms p : Elastic Nat).abs = [] := by
  simp [Elastic.new, Elastic.abs, ERing.abs, LL.abs, LL.empty]

end Gnet.Props.C10
