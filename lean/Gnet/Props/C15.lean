/-
  C15: load balancing follows the selected policy.
  Only property theorems and non-vacuity examples live here; helper lemmas are in
  Gnet/Proofs/LB.lean. Statements are never weakened to make a proof pass.
-/
import Gnet.Model.LB
import Gnet.Proofs.LB
import Gnet.Props.Handover
namespace Gnet.Props.C15
open Gnet

/-- Round robin: `k` consecutive calls from counter value `s` go to loops
    `(s + i) mod 2^64 mod N`, i = 0..k-1 (cyclic assignment). -/
theorem rr_cyclic (lb : LB) (hn : 0 < lb.size) (k : Nat) :
    Proofs.LB.rrRun lb k = (List.range k).map (fun i => (lb.nextIndex.toNat + i) % 2 ^ 64 % lb.size) :=
  Proofs.LB.rr_cyclic lb hn k

/-- after `k*N` accepts from a fresh balancer every one of the `N` loops has received exactly `k` -/
theorem rr_fair (counts : List Int) (hn : 0 < counts.length) (k : Nat) (hk : k * counts.length < 2 ^ 64)
    (j : Nat) (hj : j < counts.length) :
    (Proofs.LB.rrRun ⟨counts, 0⟩ (k * counts.length)).count j = k :=
  Proofs.LB.rr_fair counts hn k hk j hj

/-- any window of `N` consecutive round-robin choices, from any counter value that does not wrap
    inside the window, hands exactly one connection to each of the `N` loops -/
theorem rr_window (lb : LB) (hn : 0 < lb.size) (hw : lb.nextIndex.toNat + lb.size ≤ 2 ^ 64)
    (j : Nat) (hj : j < lb.size) : (Proofs.LB.rrRun lb lb.size).count j = 1 :=
  Proofs.LB.rr_window lb hn hw j hj

/-- least connections returns a registered loop whose count is minimal (the first such loop) -/
theorem lc_minimal (lb : LB) (hn : 0 < lb.size) :
    ∃ i, lb.lcNext = some i ∧ i < lb.size ∧
      (∀ j, j < lb.size → lb.counts.getD i 0 ≤ lb.counts.getD j 0) ∧
      (∀ j, j < i → lb.counts.getD i 0 < lb.counts.getD j 0) :=
  Proofs.LB.lc_minimal lb hn

/-- least connections keeps the loops balanced: if no two loops differ by more than one connection
    and every accepted connection is counted on the loop `lcNext` chose (`eventloop.register`),
    then after the accept still no two loops differ by more than one -/
theorem lc_keeps_balanced (lb : LB) (hn : 0 < lb.size) (hb : Proofs.LB.Balanced lb) :
    ∃ i, lb.lcNext = some i ∧ Proofs.LB.Balanced (Proofs.LB.opened lb i) :=
  Proofs.LB.lc_keeps_balanced lb hn hb

/-- from a fresh engine (`n` loops, no connection) any number of accepts under least-connections
    leaves no two loops more than one connection apart -/
theorem lc_run_balanced (n k : Nat) : Proofs.LB.Balanced (Proofs.LB.lcRun ⟨List.replicate n 0, 0⟩ k) :=
  Proofs.LB.lcRun_balanced _ (Proofs.LB.fresh_balanced n) k

/-- source-address hash: a registered loop, a pure function of (number of loops, address),
    and the sign branch of `hash` is dead on 64-bit ints -/
theorem hash_in_range (lb : LB) (hn : 0 < lb.size) (addr : List UInt8) :
    ∃ i, lb.hashNext addr = some i ∧ i < lb.size ∧ i = (Crc32.checksum addr).toNat % lb.size :=
  Proofs.LB.hash_in_range lb hn addr

theorem hash_pure (lb lb' : LB) (h : lb.size = lb'.size) (addr : List UInt8) :
    lb.hashNext addr = lb'.hashNext addr :=
  Proofs.LB.hash_pure lb lb' h addr

/-- every policy returns one of the registered loops for every N ≥ 1 (and panics only for N = 0) -/
theorem rr_in_range (lb : LB) (hn : 0 < lb.size) : ∃ i lb', lb.rrNext = some (i, lb') ∧ i < lb.size ∧
    lb'.counts = lb.counts ∧ lb'.nextIndex = lb.nextIndex + 1 :=
  Proofs.LB.rr_in_range lb hn

-- non-vacuity
example : Proofs.LB.rrRun ⟨[0, 0, 0], 0⟩ 7 = [0, 1, 2, 0, 1, 2, 0] := by decide
example : (⟨[3, 1, 2, 1], 0⟩ : LB).lcNext = some 1 := by decide
example : Proofs.LB.rrRun ⟨[0, 0, 0], 5⟩ 3 = [2, 0, 1] := by decide
example : (Proofs.LB.lcRun ⟨List.replicate 3 0, 0⟩ 7).counts = [3, 2, 2] := by decide
example : (Proofs.LB.opened ⟨[2, 1, 2, 1], 0⟩ 1).counts = [2, 2, 2, 1] := by decide
example : Proofs.LB.Balanced ⟨[2, 1, 2, 1], 0⟩ := by
  intro j k hj hk
  simp only [LB.size, List.length_cons, List.length_nil] at hj hk
  have : j = 0 ∨ j = 1 ∨ j = 2 ∨ j = 3 := by omega
  have : k = 0 ∨ k = 1 ∨ k = 2 ∨ k = 3 := by omega
  rcases ‹j = _ ∨ _› with rfl | rfl | rfl | rfl <;> rcases ‹k = _ ∨ _› with rfl | rfl | rfl | rfl <;> decide

/-- last clause of C15 ("the loop a connection is assigned to is the loop on which all of its callbacks run"),
on the hand-over model: OnOpen runs at most once per descriptor and on the loop the balancer chose. -/
theorem opened_on_assigned_loop (s : Handover.State) (h : Handover.Reachable s) :
    (∀ p ∈ s.opened, p ∈ s.assigned) ∧ (s.opened.map Prod.fst).Nodup ∧ s.assigned.map Prod.fst = Handover.created s :=
  Props.Handover.opened_on_assigned_loop s h

/-- a loop that keeps running serves every registration handed to it -/
theorem running_loop_serves (s : Handover.State) (l : Nat) (x : Handover.Loop) (hx : s.loops[l]? = some x) (hr : x.running = true)
    (pre rest : List Handover.Task) (fd : Nat) (hq : x.queue = pre ++ Handover.Task.register fd :: rest)
    (hns : Handover.Task.sentinel ∉ pre) :
    (fd, l) ∈ (Handover.run s (List.replicate (pre.length + 1) (Handover.Step.exec l))).opened :=
  Props.Handover.running_loop_serves s l x hx hr pre rest fd hq hns

end Gnet.Props.C15
