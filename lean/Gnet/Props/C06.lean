import Gnet.Model.Engine
namespace Gnet.Props.C06
open Gnet.Engine

theorem never_started_validate : api .never .validate = .empty := by decide

end Gnet.Props.C06
