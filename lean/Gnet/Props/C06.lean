/-
  C06 (graceful shutdown is complete, bounded and final)
  on the engine model (Gnet/Model/Engine.lean). Small-step statements hold in every reachable
  state: any number of loops, ticker on or off, any interleaving of accepts, traffic, peer
  closes, shutdown requests from any source (also several racing), and the steps of the
  `stop` goroutine, the loops and the ticker.
-/
import Gnet.Model.Engine
import Gnet.Proofs.Engine
import Gnet.Proofs.StopOrder
import Gnet.Gen.Facts
namespace Gnet.Props.C06
open Gnet.Engine

/-- COMPLETE: once the shutdown flag is set every loop and the ticker have exited, every
    connection that was opened has received its OnClose, and OnShutdown ran exactly once -/
theorem shutdown_complete (s : State) (h : Reachable s) (hs : s.inShutdown = true) :
    (∀ l ∈ s.loops, l.st = .exited ∧ l.conns = []) ∧ s.tickerAlive = false ∧
    s.trace.count .shutdown = 1 ∧ openIn s.trace = [] :=
  Proofs.Engine.shutdown_complete s h hs

/-- `Run` returns only after the flag is set -/
theorem run_returns_after_flag (s : State) (h : Reachable s) (hr : s.stopPc = .returned) : s.inShutdown = true :=
  Proofs.Engine.run_returns_after_flag s h hr

/-- FINAL: after `Run` has returned no step of any goroutine invokes a callback any more -/
theorem final (s : State) (h : Reachable s) (hr : s.stopPc = .returned) (a : Step) :
    (step s a).trace = s.trace :=
  Proofs.Engine.final s h hr a

/-- OnShutdown never runs twice, and connections are opened once and closed at most once -/
theorem callbacks_once (s : State) (h : Reachable s) :
    s.trace.count .shutdown ≤ 1 ∧
    (∀ c, s.trace.count (.open c) ≤ 1 ∧ s.trace.count (.close c) ≤ s.trace.count (.open c)) ∧
    (openIn s.trace).Perm (s.loops.flatMap (·.conns)) :=
  Proofs.Engine.callbacks_once s h

/-- BOUNDED (as absence of stuck states): once shutdown has been requested there is always a
    continuation in which `Run` returns; its length is bounded by the work left -/
theorem shutdown_terminates (s : State) (h : Reachable s) (hc : s.ctxCancelled = true) :
    ∃ steps, (run s steps).stopPc = .returned ∧
      steps.length ≤ 8 + 3 * s.loops.length + (s.loops.map (·.conns.length)).sum :=
  Proofs.Engine.shutdown_terminates s h hc

/-- a Shutdown action inside a callback leads to a shutdown request: the exiting loop itself
    cancels the context -/
theorem action_shutdown_requests (s : State) (l : Nat) (x : Loop) (hx : s.loops[l]? = some x)
    (hc : x.st = .closing) (he : x.conns = []) : (step s (.loopExit l)).ctxCancelled = true :=
  Proofs.Engine.action_shutdown_requests s l x hx hc he

-- non-vacuity: a life with two loops, a connection on each, a shutdown by action on loop 0
example : let s := run (init 2 true) [.accept 0, .accept 1, .traffic 1 1, .actionShutdown 0, .closeOne 0, .loopExit 0,
      .stopper, .stopper, .stopper, .runSentinel 1, .closeOne 1, .loopExit 1, .tickerExit, .stopper, .stopper, .stopper]
    (s.inShutdown, s.stopPc, s.trace) =
      (true, StopPc.returned, [.open 0, .open 1, .traffic 1, .close 0, .shutdown, .close 1]) := by decide

/-! ### The order of the statements of `engine.stop` / `Client.Stop` (tie: regenerated table `Facts.stopSites`)

The theorems above are about a stopper that waits for the request, runs OnShutdown, posts the shutdown tasks, waits for
the loops and the ticker, closes the pollers and listeners and only then sets the flag - in that order
(`stopper_order`). The calls the two functions make, in source order, are extracted from the current tree on every
run; `stop_order_followed` demands that they are exactly those statements in that order (nothing added, dropped or
moved; logging left out). (Source order of calls, not a proof about Go control flow.) -/

theorem stopper_order (s : State) (h0 : s.stopPc = .waitCtx) (hc : s.ctxCancelled = true) (he : allExited s = true) :
    (List.range 7).map (StopOrder.pcAfter s) = StopOrder.order ++ [.returned] :=
  Proofs.StopOrder.stopper_order s h0 hc he

theorem stop_order_followed : StopOrder.followed Facts.stopSites = true := by decide +kernel

-- the predicate is not trivially true: listeners closed right after OnShutdown (an extra call) are rejected
example : StopOrder.followed
    [("*engine.stop", ["Done", "OnShutdown", "close", "Trigger", "iterate", "Trigger", "Wait", "closeEventLoops", "Store"]),
     ("*Client.Stop", ["shutdown", "OnShutdown", "Trigger", "iterate", "Wait", "closeEventLoops", "Store"])] = false := by
  decide +kernel

-- ... and so is the flag set before the loops have been waited for
example : StopOrder.followed
    [("*engine.stop", ["Done", "OnShutdown", "Trigger", "iterate", "Trigger", "Store", "Wait", "closeEventLoops"]),
     ("*Client.Stop", ["shutdown", "OnShutdown", "Trigger", "iterate", "Wait", "closeEventLoops", "Store"])] = false := by
  decide +kernel

-- non-vacuity of `stopper_order`
example : let s := run (init 0 false) [.requestStop]
    s.stopPc = .waitCtx ∧ s.ctxCancelled = true ∧ allExited s = true := by decide

end Gnet.Props.C06

