/-
  C20: power-of-two and index arithmetic is exact over the whole integer range.
  The definitions in `Gnet.Gen` are REGENERATED from the Go source on every run
  (tools/cmd/gotolean); `none` = the Go function panics; Go `int` = `BitVec 64`.
  Only property theorems and non-vacuity examples live here; helper lemmas are in
  Gnet/Proofs/Arith.lean. Statements are never weakened to make a proof pass.
-/
import Gnet.Basic
import Gnet.Gen.Arith
import Gnet.Model.Gfd
import Gnet.Proofs.Arith
namespace Gnet.Props.C20
open Gnet

/-- `IsPowerOfTwo` is true exactly for `2^k`. -/
theorem ispow2_spec (n : BitVec 64) :
    ∃ b, Gen.IsPowerOfTwo n = some b ∧ (b = true ↔ Proofs.Arith.IsPow2 n.toInt) :=
  Proofs.Arith.ispow2_spec n

/-- `CeilToPowerOfTwo`: the smallest power of two `≥ max n 2`, whenever one fits an `int`. -/
theorem ceil_spec (n : BitVec 64) (h : n.toInt ≤ 2 ^ 62) :
    ∃ r, Gen.CeilToPowerOfTwo n = some r ∧ Proofs.Arith.IsPow2 r.toInt ∧ max n.toInt 2 ≤ r.toInt ∧
      ∀ p : Int, Proofs.Arith.IsPow2 p → max n.toInt 2 ≤ p → r.toInt ≤ p :=
  Proofs.Arith.ceil_spec n h

/-- it panics only when no such `int` exists -/
theorem ceil_panics (n : BitVec 64) : Gen.CeilToPowerOfTwo n = none ↔ 2 ^ 62 < n.toInt :=
  Proofs.Arith.ceil_panics n

/-- the `Nat`-level function used by the buffer models is the generated one -/
theorem ceil_eq_ceilPow2 (n : Nat) (h : n ≤ 2 ^ 62) :
    Gen.CeilToPowerOfTwo (BitVec.ofNat 64 n) = some (BitVec.ofNat 64 (ceilPow2 n)) :=
  Proofs.Arith.ceil_eq_ceilPow2 n h

/-- `FloorToPowerOfTwo`: `n` for `n ≤ 2`, else the largest power of two `≤ n`; never panics. -/
theorem floor_spec (n : BitVec 64) :
    ∃ r, Gen.FloorToPowerOfTwo n = some r ∧
      (n.toInt ≤ 2 → r = n) ∧
      (2 < n.toInt → Proofs.Arith.IsPow2 r.toInt ∧ r.toInt ≤ n.toInt ∧ n.toInt < 2 * r.toInt) :=
  Proofs.Arith.floor_spec n

/-- `ClosestPowerOfTwo` for `1 ≤ n ≤ 2^62`: the nearest power of two, the upper one on a tie.
    (`_partial`: for `2^62 < n` the Go function panics although for `n < 3*2^61` the nearer
    neighbour `2^62` exists - see `closest_counterexample` and known_findings.json.) -/
theorem closest_spec_partial (n : BitVec 64) (h1 : 1 ≤ n.toInt) (h2 : n.toInt ≤ 2 ^ 62) :
    ∃ r, Gen.ClosestPowerOfTwo n = some r ∧ Proofs.Arith.IsPow2 r.toInt ∧
      ∀ p : Int, Proofs.Arith.IsPow2 p →
        (Int.natAbs (n.toInt - r.toInt) ≤ Int.natAbs (n.toInt - p)) ∧
        (Int.natAbs (n.toInt - r.toInt) = Int.natAbs (n.toInt - p) → p ≤ r.toInt) :=
  Proofs.Arith.closest_spec_partial n h1 h2

/-- the full-strength statement fails at `2^62 + 1`: nearest power is `2^62`, the code panics -/
theorem closest_counterexample :
    Gen.ClosestPowerOfTwo (BitVec.ofNat 64 (2 ^ 62 + 1)) = none :=
  Proofs.Arith.closest_counterexample

/-- rounding up is idempotent: the result of `CeilToPowerOfTwo` is a fixed point of it
    (a buffer grown to a rounded capacity is never re-rounded to something larger) -/
theorem ceil_idempotent (n : BitVec 64) (h : n.toInt ≤ 2 ^ 62) :
    ∃ r, Gen.CeilToPowerOfTwo n = some r ∧ Gen.CeilToPowerOfTwo r = some r := by
  obtain ⟨r, hr, hp, hge, hmin⟩ := Proofs.Arith.ceil_spec n h
  have hr62 : r.toInt ≤ 2 ^ 62 := hmin (2 ^ 62) ⟨62, rfl⟩ (by omega)
  obtain ⟨r', hr', hp', hge', hmin'⟩ := Proofs.Arith.ceil_spec r hr62
  have h1 : r'.toInt ≤ r.toInt := hmin' r.toInt hp (by omega)
  have h2 : r.toInt ≤ r'.toInt := by omega
  have : r' = r := BitVec.eq_of_toInt_eq (by omega)
  exact ⟨r, hr, this ▸ hr'⟩

/-- for `3 ≤ n ≤ 2^62` the two roundings bracket `n`, and are within a factor two of it:
    `floor n ≤ n ≤ ceil n`, `n < 2 * floor n`, and `ceil n ≤ 2 * floor n` -/
theorem floor_le_ceil (n : BitVec 64) (h1 : 2 < n.toInt) (h2 : n.toInt ≤ 2 ^ 62) :
    ∃ f c, Gen.FloorToPowerOfTwo n = some f ∧ Gen.CeilToPowerOfTwo n = some c ∧
      f.toInt ≤ n.toInt ∧ n.toInt ≤ c.toInt ∧ n.toInt < 2 * f.toInt ∧ c.toInt ≤ 2 * f.toInt := by
  obtain ⟨f, hf, _, hf2⟩ := Proofs.Arith.floor_spec n
  obtain ⟨c, hc, _, hge, hmin⟩ := Proofs.Arith.ceil_spec n h2
  obtain ⟨⟨k, hk⟩, hfl, hfu⟩ := hf2 h1
  refine ⟨f, c, hf, hc, hfl, by omega, hfu, ?_⟩
  exact hmin (2 * f.toInt) ⟨k + 1, by rw [hk, Int.pow_succ]; omega⟩ (by omega)

/-- rounding up is monotone (a larger request never gets a smaller capacity) -/
theorem ceil_monotone (n m : BitVec 64) (hnm : n.toInt ≤ m.toInt) (hm : m.toInt ≤ 2 ^ 62) :
    ∃ a b, Gen.CeilToPowerOfTwo n = some a ∧ Gen.CeilToPowerOfTwo m = some b ∧ a.toInt ≤ b.toInt := by
  obtain ⟨a, ha, _, _, hmin⟩ := Proofs.Arith.ceil_spec n (by omega)
  obtain ⟨b, hb, hpb, hgeb, _⟩ := Proofs.Arith.ceil_spec m hm
  exact ⟨a, b, ha, hb, hmin _ hpb (by omega)⟩

/-- rounding down is monotone over the whole `int` range (including `n ≤ 2`, returned unchanged) -/
theorem floor_monotone (n m : BitVec 64) (hnm : n.toInt ≤ m.toInt) :
    ∃ a b, Gen.FloorToPowerOfTwo n = some a ∧ Gen.FloorToPowerOfTwo m = some b ∧ a.toInt ≤ b.toInt := by
  obtain ⟨a, ha, ha1, ha2⟩ := Proofs.Arith.floor_spec n
  obtain ⟨b, hb, hb1, hb2⟩ := Proofs.Arith.floor_spec m
  refine ⟨a, b, ha, hb, ?_⟩
  by_cases hn : n.toInt ≤ 2
  · have := ha1 hn; subst this
    by_cases hm : m.toInt ≤ 2
    · have := hb1 hm; subst this; exact hnm
    · obtain ⟨_, _, _⟩ := hb2 (by omega); omega
  · obtain ⟨⟨i, hi⟩, hal, _⟩ := ha2 (by omega)
    obtain ⟨⟨j, hj⟩, _, hbu⟩ := hb2 (by omega)
    rw [hi, hj] at *
    have h : (2 : Int) ^ i < 2 ^ (j + 1) := by rw [Int.pow_succ]; omega
    have h' : (2 : Nat) ^ i < 2 ^ (j + 1) := by exact_mod_cast h
    have : i < j + 1 := (Nat.pow_lt_pow_iff_right (by decide)).mp h'
    have : (2 : Nat) ^ i ≤ 2 ^ j := Nat.pow_le_pow_right (by decide) (by omega)
    exact_mod_cast this
/-- the two regenerated functions agree: whatever `CeilToPowerOfTwo` and (for `n > 2`)
    `FloorToPowerOfTwo` return is accepted by `IsPowerOfTwo` -/
theorem roundings_are_pow2 (n : BitVec 64) (h : n.toInt ≤ 2 ^ 62) :
    (∃ r, Gen.CeilToPowerOfTwo n = some r ∧ Gen.IsPowerOfTwo r = some true) ∧
    (2 < n.toInt → ∃ r, Gen.FloorToPowerOfTwo n = some r ∧ Gen.IsPowerOfTwo r = some true) := by
  constructor
  · obtain ⟨r, hr, hp, _⟩ := Proofs.Arith.ceil_spec n h
    obtain ⟨b, hb, hiff⟩ := Proofs.Arith.ispow2_spec r
    exact ⟨r, hr, by rw [hb, hiff.mpr hp]⟩
  · intro h2
    obtain ⟨r, hr, _, hf⟩ := Proofs.Arith.floor_spec n
    obtain ⟨b, hb, hiff⟩ := Proofs.Arith.ispow2_spec r
    exact ⟨r, hr, by rw [hb, hiff.mpr (hf h2).1]⟩
/-- byte-slice pool size class: the smallest class whose capacity `2^i` is at least the size -/
theorem bs_index_spec (s : BitVec 32) (h1 : 1 ≤ s.toNat) (h2 : s.toNat ≤ 2 ^ 31) :
    ∃ i, Gen.bsIndex s = some i ∧ s.toNat ≤ 2 ^ i.toNat ∧ ∀ j : Nat, s.toNat ≤ 2 ^ j → i.toNat ≤ j :=
  Proofs.Arith.bs_index_spec s h1 h2

/-- a larger request is never served from a smaller size class -/
theorem bs_index_monotone (s t : BitVec 32) (h1 : 1 ≤ s.toNat) (hst : s.toNat ≤ t.toNat) (h2 : t.toNat ≤ 2 ^ 31) :
    ∃ i j, Gen.bsIndex s = some i ∧ Gen.bsIndex t = some j ∧ i.toNat ≤ j.toNat := by
  obtain ⟨i, hi, _, hmin⟩ := Proofs.Arith.bs_index_spec s h1 (by omega)
  obtain ⟨j, hj, hle, _⟩ := Proofs.Arith.bs_index_spec t (by omega) h2
  exact ⟨i, j, hi, hj, hmin _ (by omega)⟩

/-- the size class wastes less than half: its capacity `2^i` is below twice the requested size -/
theorem bs_index_tight (s : BitVec 32) (h1 : 1 ≤ s.toNat) (h2 : s.toNat ≤ 2 ^ 31) :
    ∃ i, Gen.bsIndex s = some i ∧ s.toNat ≤ 2 ^ i.toNat ∧ 2 ^ i.toNat < 2 * s.toNat := by
  obtain ⟨i, hi, hle, hmin⟩ := Proofs.Arith.bs_index_spec s h1 h2
  refine ⟨i, hi, hle, ?_⟩
  rcases Nat.eq_zero_or_pos i.toNat with h0 | hpos
  · rw [h0]; omega
  · have hn : ¬ s.toNat ≤ 2 ^ (i.toNat - 1) := fun h => by have := hmin _ h; omega
    have : 2 ^ i.toNat = 2 * 2 ^ (i.toNat - 1) := by
      conv => lhs; rw [show i.toNat = (i.toNat - 1) + 1 by omega, Nat.pow_succ]
      omega
    omega
/-- packing (fd, loop index, row, column) and unpacking returns the same four values -/
theorem gfd_roundtrip (fd el row col : BitVec 64) (seq : BitVec 32)
    (hel : el.toNat < 256) (hrow : row.toNat < 256) (hcol : col.toNat < 65536) :
    (GFD.new fd el row col seq).fd = fd ∧ (GFD.new fd el row col seq).eventLoopIndex = el ∧
    (GFD.new fd el row col seq).row = row ∧ (GFD.new fd el row col seq).column = col ∧
    (GFD.new fd el row col seq).sequence = seq :=
  Proofs.Arith.gfd_roundtrip fd el row col seq hel hrow hcol

/-- `UpdateIndexes` changes only row and column -/
theorem gfd_update (fd el row col row' col' : BitVec 64) (seq : BitVec 32)
    (hel : el.toNat < 256) (hrow : row'.toNat < 256) (hcol : col'.toNat < 65536) :
    let g := (GFD.new fd el row col seq).updateIndexes row' col'
    g.fd = fd ∧ g.eventLoopIndex = el ∧ g.row = row' ∧ g.column = col' ∧ g.sequence = seq :=
  Proofs.Arith.gfd_update fd el row col row' col' seq hel hrow hcol

-- non-vacuity
example : Gen.CeilToPowerOfTwo 1000#64 = some 1024#64 := by decide
example : Gen.FloorToPowerOfTwo (BitVec.ofNat 64 (2 ^ 40 + 5)) = some (BitVec.ofNat 64 (2 ^ 40)) := by decide
example : Gen.ClosestPowerOfTwo 6#64 = some 8#64 := by decide
example : Gen.bsIndex 4097#32 = some 13#32 := by decide
example : Gen.bsIndex 4096#32 = some 12#32 := by decide
example : Gen.CeilToPowerOfTwo 1024#64 = some 1024#64 := by decide
example : (2 : Int) < (1000#64).toInt ∧ (1000#64).toInt ≤ 2 ^ 62 := by decide

end Gnet.Props.C20
