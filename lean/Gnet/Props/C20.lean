import Gnet.Gen.Arith
import Gnet.Model.Gfd
namespace Gnet.Props.C20
open Gnet

theorem ceil_small : Gen.CeilToPowerOfTwo 2#64 = some 2#64 := by decide

end Gnet.Props.C20
