import Gnet.Model.Registry
namespace Gnet.Props.C14
open Gnet

theorem matrix_init_lookup (r c : Nat) (fd : Int) : (Matrix.init r c).getConn fd = none := by
  simp [Matrix.init, Matrix.getConn]

end Gnet.Props.C14
