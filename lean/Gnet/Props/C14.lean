/-
  C14: the connection registry is a faithful map from descriptor to live connection.
  Only property theorems and non-vacuity examples live here; helper lemmas are in
  Gnet/Proofs/Registry.lean. Statements are never weakened to make a proof pass.
-/
import Gnet.Model.Registry
import Gnet.Proofs.Registry
namespace Gnet.Props.C14
open Gnet

/-- The compacting matrix registry (any dimensions within the identifier's field widths):
    for every valid history from the empty registry nothing panics and every lookup, count
    and iteration agrees with the finite-map specification - lookups return exactly the most
    recently registered, not yet removed connection; the count is the number of live
    connections; an iteration visits every live connection exactly once, also when each
    visited one is removed, after which the registry is empty and reusable (the history
    simply continues). Relocation of entries is invisible.
    At least two columns are required (the real constant is 65536): see
    `matrix_cols_one_counterexample` below. -/
theorem matrix_run_refines (rows cols : Nat) (hc : 1 < cols) (hr : rows ≤ 256) (hcc : cols ≤ 65536)
    (ops : List RegOp) (hv : RegSpec.init.validRun (rows * cols) ops) :
    ∃ m outs, (Matrix.init rows cols).run ops = some (m, outs) ∧ RegSpec.init.agreesRun ops outs :=
  Proofs.Registry.matrix_run_refines rows cols hc hr hcc ops hv

/-- The default map registry satisfies the same specification (no capacity limit). -/
theorem map_run_refines (ops : List RegOp) (cap : Nat) (hv : RegSpec.init.validRun cap ops) :
    RegSpec.init.agreesRun ops (RegMap.init.run ops).2 :=
  Proofs.Registry.map_run_refines ops cap hv

/-- the specification's lookup really is "most recently registered and not yet removed":
    keys of a valid history are distinct -/
theorem spec_keys_distinct (cap : Nat) (ops : List RegOp) (hv : RegSpec.init.validRun cap ops) :
    ((ops.foldl RegSpec.step RegSpec.init).live.map (·.1)).Nodup :=
  Proofs.Registry.spec_keys_distinct cap ops hv

/-- Why `1 < cols` is needed: with a single column every row holds one cell, so removing a
    connection that is NOT the last one empties its row; `delConn` then takes its early return
    "the deleted conn is the last one" (row dropped) without compacting, the cursor goes back
    to the hole, and the second following `addConn` overwrites a cell that is still occupied.
    On a 3 x 1 matrix this valid history makes `get 11` return connection 3 instead of 1.
    (In gnet the column count is a constant far above 1, so this is an artefact of the
    model's parameter, not a defect of the Go code.) -/
theorem matrix_cols_one_counterexample :
    RegSpec.init.validRun (3 * 1)
      [.conn 0 10, .add 0 0, .conn 1 11, .add 1 0, .del 0, .conn 2 12, .add 2 0, .conn 3 13, .add 3 0, .get 11] ∧
    ((Matrix.init 3 1).run
      [.conn 0 10, .add 0 0, .conn 1 11, .add 1 0, .del 0, .conn 2 12, .add 2 0, .conn 3 13, .add 3 0, .get 11]).map (·.2)
      = some [.unit, .unit, .unit, .unit, .unit, .unit, .unit, .unit, .unit, .found (some 3)] ∧
    (([RegOp.conn 0 10, .add 0 0, .conn 1 11, .add 1 0, .del 0, .conn 2 12, .add 2 0, .conn 3 13, .add 3 0].foldl
      RegSpec.step RegSpec.init).lookup 11) = some 1 := by
  refine ⟨?_, ?_, ?_⟩
  · simp [RegSpec.validRun, RegSpec.valid, RegSpec.step, RegSpec.init]
  · decide
  · decide

-- non-vacuity: a valid history that relocates an entry across a row boundary (2 x 2 matrix)
example : RegSpec.init.validRun 4
    [.conn 0 10, .add 0 0, .conn 1 11, .add 1 0, .conn 2 12, .add 2 0, .del 0, .get 12, .iter true, .count] := by
  simp [RegSpec.validRun, RegSpec.valid, RegSpec.step, RegSpec.init]
example : ((Matrix.init 2 2).run
    [.conn 0 10, .add 0 0, .conn 1 11, .add 1 0, .conn 2 12, .add 2 0, .del 0, .get 12, .iter true, .count]).map (·.2)
    = some [.unit, .unit, .unit, .unit, .unit, .unit, .unit, .found (some 2), .visited [2, 1], .count 0] := by
  decide

end Gnet.Props.C14
