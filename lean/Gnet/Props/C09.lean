import Gnet.Model.Ring
namespace Gnet.Props.C09
open Gnet

theorem ring_new_wf (n : Int) : (Ring.new n : Ring Nat).WF := by
  unfold Ring.new
  split
  · constructor <;> simp
  · constructor <;> simp [ceilPow2]
    all_goals (split <;> simp <;> try omega)
    all_goals exact Nat.pos_of_ne_zero (by simp)

end Gnet.Props.C09
