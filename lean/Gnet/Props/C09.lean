/-
  C09: ring.Buffer behaves as an unbounded FIFO byte queue.
  Only property theorems and non-vacuity examples live here; helper lemmas are in
  Gnet/Proofs/Ring.lean. Statements in this file are never weakened to make a proof pass.
-/
import Gnet.Model.Ring
import Gnet.Proofs.Ring
namespace Gnet.Props.C09
open Gnet

variable {α : Type} [Inhabited α]

/-- `ring.New(n)` yields a well-formed, empty buffer for every `n` (also negative, also 0). -/
theorem ring_new_wf (n : Int) : (Ring.new n : Ring α).WF := Proofs.Ring.new_wf n

theorem ring_new_empty (n : Int) : (Ring.new n : Ring α).abs = [] := Proofs.Ring.new_abs n

/-- Every operation, from every well-formed state (every reachable cursor position, wrapped,
    exactly full, about to grow): does not panic, keeps the representation invariant, and its
    effect on the abstract content and its observable result are a step of the FIFO
    specification - nothing lost, duplicated or reordered, counts exact, `Peek`/`Bytes`
    do not consume, short or failing readers/writers account for exactly what was moved. -/
theorem ring_step_refines (gen : Nat → α) (rb : Ring α) (pos : Nat) (op : Fifo.Op α) (h : rb.WF) :
    ∃ rb' pos' o, Ring.step gen (rb, pos) op = some ((rb', pos'), o) ∧ rb'.WF ∧
      Fifo.Step gen (rb.abs, pos) op (rb'.abs, pos') o :=
  Proofs.Ring.step_refines gen rb pos op h

/-- All finite histories from any constructor argument. -/
theorem ring_run_refines (gen : Nat → α) (n : Int) (ops : List (Fifo.Op α)) :
    ∃ rb' pos' os, Ring.run gen (Ring.new n, 0) ops = some ((rb', pos'), os) ∧ rb'.WF ∧
      Fifo.Run gen ([], 0) ops os (rb'.abs, pos') :=
  Proofs.Ring.run_refines gen n ops

/-- The counters always agree with the content. -/
theorem ring_counters (rb : Ring α) (h : rb.WF) :
    rb.buffered = rb.abs.length ∧ rb.buffered + rb.available = rb.cap ∧
    (rb.isEmpty = true ↔ rb.buffered = 0) ∧
    (rb.isFull = true ↔ (rb.buffered = rb.cap ∧ 0 < rb.cap)) :=
  Proofs.Ring.counters rb h

/-- `Peek` returns two segments whose concatenation is the prefix; the state is untouched. -/
theorem ring_peek_prefix (rb : Ring α) (n : Int) (h : rb.WF) :
    rb.peekSafe n = true ∧
    (rb.peek n).1 ++ (rb.peek n).2 = (if n ≤ 0 then rb.abs else rb.abs.take n.toNat) :=
  Proofs.Ring.peek_prefix rb n h

-- non-vacuity: a wrapped state, a full state, an unallocated state satisfy the hypothesis
example : (⟨[1, 2, 3, 4], 4, 3, 1, false⟩ : Ring Nat).WF ∧
          (⟨[1, 2, 3, 4], 4, 3, 1, false⟩ : Ring Nat).abs = [4, 1] := by
  refine ⟨⟨by simp, by simp, by simp, by simp, by simp⟩, by decide⟩
example : (⟨[1, 2, 3, 4], 4, 2, 2, false⟩ : Ring Nat).WF ∧
          (⟨[1, 2, 3, 4], 4, 2, 2, false⟩ : Ring Nat).abs = [3, 4, 1, 2] := by
  refine ⟨⟨by simp, by simp, by simp, by simp, by simp⟩, by decide⟩
example : (⟨[], 0, 0, 0, true⟩ : Ring Nat).WF := ⟨by simp, by simp, by simp, by simp, by simp⟩

end Gnet.Props.C09
