/-
  FIXED STATEMENTS (do not edit): the drain-and-abort protocol between the producers of registration tasks and an
  event loop that shuts down (Model/Drain.lean). Proved in Gnet/Proofs/Drain.lean.
-/
import Gnet.Model.Drain
import Gnet.Proofs.Drain
namespace Gnet.Props.Drain
open Gnet.Drain

/-- every task ever enqueued is in exactly one place - carried out by the loop, aborted by somebody, or still in
the queue - and there exactly once -/
theorem drain_partition (s : State) (h : Reachable s) :
    (s.ran ++ s.aborted ++ s.queue).Perm (List.range s.next) :=
  Proofs.Drain.partition s h

/-- no registration is stranded: once the loop has finished its drain and every producer has finished its
re-check, the queue is empty - whatever the interleaving, however many producers -/
theorem nothing_stranded (s : State) (h : Reachable s) (hq : Quiescent s = true) : s.queue = [] :=
  Proofs.Drain.nothing_stranded s h hq

/-- ... so every task was carried out or aborted, exactly once -/
theorem quiescent_all_settled (s : State) (h : Reachable s) (hq : Quiescent s = true) :
    (s.ran ++ s.aborted).Perm (List.range s.next) :=
  Proofs.Drain.all_settled s h hq

/-- the loop carries tasks out in the order they were enqueued, and aborts nothing while it is polling -/
theorem ran_in_order (s : State) (h : Reachable s) : s.ran.Pairwise (· < ·) :=
  Proofs.Drain.ran_in_order s h

-- non-vacuity: a producer that enqueues after the loop finished its own drain finds `exited` set and aborts its task
example :
    let s := run (init 2) [.enqueue 0, .load 0, .loopRun, .loopLeave, .enqueue 1, .loopSetExited, .loopDrain, .loopDrain,
                           .load 1, .prodDrain 1, .enqueue 0, .load 0, .prodDrain 0, .prodDrain 0]
    Quiescent s = true ∧ s.ran = [0] ∧ s.aborted = [1, 2] ∧ s.queue = [] := by decide

-- the re-check is what makes it work: without the producer's drain the task enqueued after the loop's drain stays
example :
    let s := run (init 1) [.loopLeave, .loopSetExited, .loopDrain, .enqueue 0]
    s.loop = .done ∧ s.queue = [0] ∧ Quiescent s = false := by decide

end Gnet.Props.Drain
