/-
  C07 on the reactor model, for every accepted round (every sequence of
  environment decisions the real loop can exhibit and the acceptor recognises).
-/
import Gnet.Spec.ReactorSpec
import Gnet.Props.C06
import Gnet.Proofs.ReactorLife
import Gnet.Props.Handover
import Gnet.Props.Drain
import Gnet.Props.Drain2
import Gnet.Proofs.DrainOrder
import Gnet.Gen.Facts
import Gnet.Spec.ReactorExample
import Gnet.Proofs.ReactorRuns
namespace Gnet.Props.C07
open Gnet.Reactor

/-- descriptor discipline: in every accepted round every system call made for a connection
    names a descriptor that the ledger still holds open; in particular none after the
    connection's close and no second close -/
theorem fd_discipline (s s' : RState) (toks : List Tok) (hn : NamesNodup s)
    (h : acceptRound s toks = .ok s') (hl : InvLife s) (hf : InvFd s) : InvFd s' :=
  Proofs.ReactorLife.fd_discipline s s' toks hn h hl hf

/-- the same for whole histories: after ANY number of accepted rounds from the initial state of any configuration -/
theorem fd_discipline_all_histories (cfg : Cfg) (rounds : List (List Tok)) (s' : RState)
    (h : Proofs.ReactorRuns.acceptRounds { cfg := cfg } rounds = .ok s') : InvFd s' :=
  (Proofs.ReactorRuns.runs_from_init cfg rounds s' h).2.2.2.1

/-! Non-vacuity of `fd_discipline`: the recorded history issues accept, epoll_ctl, write, read, epoll_ctl(DEL) and close on
c1, and ends with the descriptor closed. -/
example : (Example.after 3).bind Example.lifeView = some (["open", "traffic", "close"], false) := by decide +kernel

/-! ### Hand-over of accepted connections and shutdown (models: Model/Handover.lean, Model/Drain.lean)

Stated and proved in Props/Handover.lean and Props/Drain.lean; restated here because they are obligations of C07. Every
descriptor the acceptor or an enrolment creates is in exactly one place; a registration handed to an event loop is
either carried out by that loop or aborted (descriptor closed) - by the loop when it leaves Polling, or by whoever
handed it over if the loop had exited already - so when everything has stopped every descriptor has been closed.
(Until the fix a1bc45e+1 "registrations handed to an event loop that has exited are aborted" the code did neither: the
former theorems `leak_reachable_by_action` / `leak_reachable_by_stop` stated the leak, which the descriptor-count
oracle had found on the real engine.) -/

theorem handover_partition (s : Handover.State) (h : Handover.Reachable s) :
    (Handover.pending s ++ Handover.registered s ++ s.closed).Perm (Handover.created s) :=
  Props.Handover.handover_partition s h

theorem pending_only_on_running_loops (s : Handover.State) (h : Handover.Reachable s) (l : Nat) (x : Handover.Loop)
    (hx : s.loops[l]? = some x) (hr : x.running = false) : Handover.pendingOf x = [] ∧ x.conns = [] :=
  Props.Handover.pending_only_on_running_loops s h l x hx hr

theorem final_no_leak (s : Handover.State) (h : Handover.Reachable s) (hf : Handover.Final s = true) :
    Handover.unclosed s = [] ∧ s.closed.Perm (Handover.created s) :=
  Props.Handover.final_no_leak s h hf

/-- the interleaved protocol behind the atomic abort of the model above: no registration is stranded -/
theorem nothing_stranded (s : Drain.State) (h : Drain.Reachable s) (hq : Drain.Quiescent s = true) : s.queue = [] :=
  Props.Drain.nothing_stranded s h hq

theorem drain_partition (s : Drain.State) (h : Drain.Reachable s) :
    (s.ran ++ s.aborted ++ s.queue).Perm (List.range s.next) :=
  Props.Drain.drain_partition s h

/-- the same with the two task queues the poller really has (urgent and normal; `Poller.Drain` empties one after the
other, a producer's task may be in either): nothing is stranded in either queue -/
theorem nothing_stranded2 : type_of% @Gnet.Props.Drain2.nothing_stranded2 := @Gnet.Props.Drain2.nothing_stranded2

theorem drain2_partition : type_of% @Gnet.Props.Drain2.drain2_partition := @Gnet.Props.Drain2.drain2_partition

theorem quiescent_all_settled2 : type_of% @Gnet.Props.Drain2.quiescent_all_settled2 := @Gnet.Props.Drain2.quiescent_all_settled2

theorem no_abort_before_exit : type_of% @Gnet.Props.Drain2.no_abort_before_exit := @Gnet.Props.Drain2.no_abort_before_exit

/-! ### The order of the calls in the source is the order of the protocol (tie: regenerated table `Facts.protocolSites`)

`nothing_stranded` is a theorem about a protocol with a particular order of steps. `DrainOrder.step` is the same protocol
with that order as a parameter; with the order of the code it IS Model/Drain.lean (`drain_order_embeds`), with either pair
swapped a registration is stranded (`stranded_if_load_before_hand`, `stranded_if_drain_before_store`). The order the
source has - which calls a function makes, one after the other - is extracted from the current tree on every run and has
to be the order of the model (`drain_protocol_followed`): a change that re-orders, drops or adds one of these calls breaks
this theorem. (Source order of calls, not a proof about Go control flow.) -/

theorem drain_order_embeds (n : Nat) (steps : List Drain.Step) :
    DrainOrder.run DrainOrder.asCoded (DrainOrder.init n) steps = DrainOrder.emb (Drain.run (Drain.init n) steps) ∧
    DrainOrder.Quiescent (DrainOrder.emb (Drain.run (Drain.init n) steps)) =
      Drain.Quiescent (Drain.run (Drain.init n) steps) := by
  rw [← Proofs.DrainOrder.emb_init, Proofs.DrainOrder.embeds_run]
  exact ⟨rfl, Proofs.DrainOrder.emb_quiescent _⟩

/-- ... so with the order of the code nothing is stranded in the parametrised protocol either -/
theorem coded_order_nothing_stranded (n : Nat) (steps : List Drain.Step)
    (hq : DrainOrder.Quiescent (DrainOrder.run DrainOrder.asCoded (DrainOrder.init n) steps) = true) :
    (DrainOrder.run DrainOrder.asCoded (DrainOrder.init n) steps).queue = [] := by
  have h := drain_order_embeds n steps
  rw [h.1] at hq ⊢
  rw [h.2] at hq
  exact Props.Drain.nothing_stranded _ ⟨n, steps, rfl⟩ hq

/-- a producer that looks at `exited` before it hands its registration over strands it -/
theorem stranded_if_load_before_hand :
    let s := DrainOrder.run { storeFirst := true, handFirst := false } (DrainOrder.init 1)
      [.load 0, .loopLeave, .loopSetExited, .loopDrain, .enqueue 0]
    DrainOrder.Quiescent s = true ∧ s.queue = [0] ∧ s.ran = [] ∧ s.aborted = [] := by decide

/-- a loop that drains before it publishes `exited` strands what arrives between its last Dequeue and the store -/
theorem stranded_if_drain_before_store :
    let s := DrainOrder.run { storeFirst := false, handFirst := true } (DrainOrder.init 1)
      [.loopLeave, .loopSetExited, .loopDrain, .enqueue 0, .load 0, .loopSetExited]
    DrainOrder.Quiescent s = true ∧ s.exited = true ∧ s.queue = [0] ∧ s.ran = [] ∧ s.aborted = [] := by decide

theorem drain_protocol_followed : DrainOrder.followed Facts.protocolSites = true := by decide +kernel

-- the predicate is not trivially true: the table with the two calls of abortPending swapped is rejected
example : DrainOrder.followed
    (Facts.protocolSites.map (fun e => if e.2.1 == "*eventloop.abortPending" then (e.1, e.2.1, ["drain", "store"]) else e))
    = false := by decide +kernel

/-- the order of the statements of `engine.stop` / `Client.Stop` in the current source is the order of the stopper of the
model: pollers and listeners are closed only after every loop has exited, the flag is set last (Props/C06.lean) -/
theorem stop_order_followed : type_of% @Gnet.Props.C06.stop_order_followed := @Gnet.Props.C06.stop_order_followed

end Gnet.Props.C07

