/-
  C07 on the reactor model, for every accepted round (every sequence of
  environment decisions the real loop can exhibit and the acceptor recognises).
-/
import Gnet.Spec.ReactorSpec
import Gnet.Proofs.ReactorLife
namespace Gnet.Props.C07
open Gnet.Reactor

/-- descriptor discipline: in every accepted round every system call made for a connection
    names a descriptor that the ledger still holds open; in particular none after the
    connection's close and no second close -/
theorem fd_discipline (s s' : RState) (toks : List Tok) (hn : NamesNodup s)
    (h : acceptRound s toks = .ok s') (hl : InvLife s) (hf : InvFd s) : InvFd s' :=
  Proofs.ReactorLife.fd_discipline s s' toks hn h hl hf

end Gnet.Props.C07

