/-
  C07 on the reactor model, for every accepted round (every sequence of
  environment decisions the real loop can exhibit and the acceptor recognises).
-/
import Gnet.Spec.ReactorSpec
import Gnet.Proofs.ReactorLife
import Gnet.Props.Handover
import Gnet.Spec.ReactorExample
import Gnet.Proofs.ReactorRuns
namespace Gnet.Props.C07
open Gnet.Reactor

/-- descriptor discipline: in every accepted round every system call made for a connection
    names a descriptor that the ledger still holds open; in particular none after the
    connection's close and no second close -/
theorem fd_discipline (s s' : RState) (toks : List Tok) (hn : NamesNodup s)
    (h : acceptRound s toks = .ok s') (hl : InvLife s) (hf : InvFd s) : InvFd s' :=
  Proofs.ReactorLife.fd_discipline s s' toks hn h hl hf

/-- the same for whole histories: after ANY number of accepted rounds from the initial state of any configuration -/
theorem fd_discipline_all_histories (cfg : Cfg) (rounds : List (List Tok)) (s' : RState)
    (h : Proofs.ReactorRuns.acceptRounds { cfg := cfg } rounds = .ok s') : InvFd s' :=
  (Proofs.ReactorRuns.runs_from_init cfg rounds s' h).2.2.2.1

/-! Non-vacuity of `fd_discipline`: the recorded history issues accept, epoll_ctl, write, read, epoll_ctl(DEL) and close on
c1, and ends with the descriptor closed. -/
example : (Example.after 3).bind Example.lifeView = some (["open", "traffic", "close"], false) := by decide +kernel

/-! ### Hand-over of accepted connections and shutdown (model: Model/Handover.lean)

Stated and proved in Props/Handover.lean for every reachable state of the hand-over model (any number of
loops, any schedule); restated here because they are obligations of C07: every descriptor the acceptor
creates is in exactly one place, and when everything has stopped the unclosed ones are exactly the
registrations stranded in the queue of a loop that left Polling first (the recorded finding). -/

theorem handover_partition (s : Handover.State) (h : Handover.Reachable s) :
    (Handover.pending s ++ Handover.registered s ++ s.closed).Perm (Handover.created s) :=
  Props.Handover.handover_partition s h

theorem final_unclosed_are_stranded (s : Handover.State) (h : Handover.Reachable s) (hf : Handover.Final s = true) :
    ∀ fd, fd ∈ Handover.unclosed s ↔ fd ∈ Handover.pending s :=
  Props.Handover.final_unclosed_are_stranded s h hf

theorem no_stranded_no_leak (s : Handover.State) (h : Handover.Reachable s) (hf : Handover.Final s = true)
    (hp : Handover.pending s = []) : s.closed.Perm (Handover.created s) :=
  Props.Handover.no_stranded_no_leak s h hf hp

theorem leak_reachable_by_action :
    let s := Handover.run (Handover.init 1) [.accept 0, .accept 0, .exec 0, .action 0, .postSentinels, .acceptorExit]
    Handover.Final s = true ∧ Handover.unclosed s = [1] :=
  Props.Handover.leak_reachable_by_action

theorem leak_reachable_by_stop :
    let s := Handover.run (Handover.init 2) [.requestStop, .postSentinels, .accept 1, .exec 0, .exec 1, .acceptorExit]
    Handover.Final s = true ∧ Handover.unclosed s = [0] :=
  Props.Handover.leak_reachable_by_stop

end Gnet.Props.C07

