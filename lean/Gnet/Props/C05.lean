/-
  C05: event-loop confinement and freedom from data races - the part a theorem can carry.
  `Gnet.Access` is REGENERATED from the source on every run (tools/cmd/access): for every
  documented concurrency-safe API function, transitively over static calls but without
  entering closures handed to Poller.Trigger (those run on the loop), every struct field it
  reads, writes or touches through sync/atomic; and every non-atomic field write of the
  package. The theorem below is a lock-set style audit of that table: every off-loop access
  is atomic, or reads a field nobody writes after the object became reachable, or is covered
  by a hand-written justification, or is a recorded finding. A new or changed access breaks it.
  This is an argument about an abstraction of the code, not a proof in the Go memory model.
-/
import Gnet.Gen.Access
namespace Gnet.Props.C05
open Gnet

/-- functions that write fields only before the written object is reachable from another
    goroutine (constructors, option setters, listener setup before Run starts anything) -/
def safeWriters : List String :=
  ["run", "NewClient", "createListeners", "(*listener).open", "(*listener).packPollAttachment",
   "(*connMatrix).init", "newUDPConn"]

def isOptionSetter (f : String) : Bool := f.startsWith "With"

/-- (root, field, reason): off-loop accesses that are safe for a reason the table cannot see -/
def justified : List (String × String × String) := [
  ("(*conn).AsyncWrite", "conn.remote", "read only for datagram sockets; release writes it only for stream connections"),
  ("(*conn).AsyncWrite", "eventloop.poller", "a connection exists only after its loop was fully constructed"),
  ("(*conn).AsyncWritev", "eventloop.poller", "a connection exists only after its loop was fully constructed"),
  ("(*conn).CloseWithCallback", "eventloop.poller", "a connection exists only after its loop was fully constructed"),
  ("(*conn).Close", "eventloop.poller", "a connection exists only after its loop was fully constructed"),
  ("(*conn).Wake", "eventloop.poller", "a connection exists only after its loop was fully constructed"),
  ("(*eventloop).Enroll", "connWithCallback.err", "written by whoever aborts the registration before it calls cb, which closes the channel the caller receives from before it reads the field"),
  ("(*eventloop).Register", "connWithCallback.err", "written by whoever aborts the registration before it calls cb, which closes the channel the caller receives from before it reads the field"),
  ("Engine.Register", "connWithCallback.err", "written by whoever aborts the registration before it calls cb, which closes the channel the caller receives from before it reads the field"),
  ("(*eventloop).Enroll", "conn.ctx", "written on the freshly created connection before it is handed to the loop"),
  ("(*eventloop).Enroll", "conn.remote", "written on the freshly created connection before it is handed to the loop"),
  ("(*eventloop).Enroll", "eventloop.engine", "an EventLoop handle is obtained from a connection, i.e. after the loop was constructed"),
  ("(*eventloop).Enroll", "eventloop.idx", "an EventLoop handle is obtained from a connection, i.e. after the loop was constructed"),
  ("(*eventloop).Enroll", "eventloop.poller", "an EventLoop handle is obtained from a connection, i.e. after the loop was constructed"),
  ("(*eventloop).Execute", "eventloop.engine", "an EventLoop handle is obtained from a connection, i.e. after the loop was constructed"),
  ("(*eventloop).Execute", "eventloop.poller", "an EventLoop handle is obtained from a connection, i.e. after the loop was constructed"),
  ("(*eventloop).Register", "conn.ctx", "written on the freshly created connection before it is handed to the loop"),
  ("(*eventloop).Register", "conn.remote", "written on the freshly created connection before it is handed to the loop"),
  ("(*eventloop).Register", "eventloop.engine", "an EventLoop handle is obtained from a connection, i.e. after the loop was constructed"),
  ("(*eventloop).Register", "eventloop.idx", "an EventLoop handle is obtained from a connection, i.e. after the loop was constructed"),
  ("(*eventloop).Register", "eventloop.poller", "an EventLoop handle is obtained from a connection, i.e. after the loop was constructed"),
  ("Engine.Register", "conn.ctx", "written on the freshly created connection before it is handed to the loop"),
  ("Engine.Register", "conn.remote", "written on the freshly created connection before it is handed to the loop")]

/-- (root, field, finding id): genuine races, demonstrated with the race detector and listed in
    known_findings.json -/
def findings : List (String × String × String) := [
  ("Engine.CountConnections", "baseLoadBalancer.eventLoops", "race-engine-handle-published-in-onboot"),
  ("Engine.Register", "baseLoadBalancer.eventLoops", "race-engine-handle-published-in-onboot"),
  ("Engine.Register", "baseLoadBalancer.size", "race-engine-handle-published-in-onboot"),
  ("Engine.Register", "eventloop.engine", "race-engine-handle-published-in-onboot"),
  ("Engine.Register", "eventloop.idx", "race-engine-handle-published-in-onboot"),
  ("Engine.Register", "eventloop.poller", "race-engine-handle-published-in-onboot"),
  ("Engine.Dup", "listener.fd", "race-dup-vs-listener-close"),
  ("Engine.DupListener", "listener.fd", "race-dup-vs-listener-close")]

/-- nobody but a safe writer writes `field` -/
def neverWrittenLater (field : String) : Bool :=
  Access.writes.all fun w => w.2 != field || safeWriters.contains w.1 || isOptionSetter w.1

def covered (l : List (String × String × String)) (root field : String) : Bool :=
  l.any fun j => j.1 == root && j.2.1 == field

/-- the audit of one off-loop access -/
def ok (r : String × String × String) : Bool :=
  r.2.2 == "atomic" ||
  (r.2.2 == "read" && neverWrittenLater r.2.1) ||
  covered justified r.1 r.2.1 || covered findings r.1 r.2.1

/-- every field access of the concurrency-safe API is accounted for -/
theorem ownership_table_audited : Access.offLoop.all ok = true := by decide +kernel

/-- the lists of exceptions contain nothing stale: every entry names an access that exists -/
theorem exceptions_not_stale :
    (justified ++ findings).all (fun j => Access.offLoop.any fun r => r.1 == j.1 && r.2.1 == j.2.1) = true := by decide +kernel

/-- state that is shared by all event loops and by foreign goroutines without any loop owning it: the counters of the
    process-wide ring-buffer pool, the wake-up flag of a poller, the pointers and the counter of the lock-free
    task queue. Every access to it, anywhere in those packages, must go through sync/atomic (the `sync.Pool`s
    inside the pools synchronise themselves). -/
def sharedAtomicFields : List String :=
  ["Pool.calls", "Pool.calibrating", "Pool.defaultSize", "Pool.maxSize", "Poller.wakeupCall",
   "lockFreeQueue.head", "lockFreeQueue.tail", "lockFreeQueue.length", "node.next"]

theorem shared_state_atomic :
    Access.shared.all (fun r => !sharedAtomicFields.contains r.2.2.1 || r.2.2.2 == "atomic") = true := by decide +kernel

/-- the list is not stale: each of these fields is accessed somewhere -/
theorem shared_fields_exist :
    sharedAtomicFields.all (fun f => Access.shared.any fun r => r.2.2.1 == f) = true := by decide +kernel

end Gnet.Props.C05
