/-
  FIXED STATEMENTS (do not edit): the drain-and-abort protocol with the two task queues of the poller
  (Model/Drain2.lean). Proved in Gnet/Proofs/Drain2.lean.
-/
import Gnet.Model.Drain2
import Gnet.Proofs.Drain2
namespace Gnet.Props.Drain2
open Gnet.Drain2

/-- every task ever enqueued is in exactly one place - carried out by the loop, aborted by somebody, or still in one
of the two queues - and there exactly once -/
theorem drain2_partition (s : State) (h : Reachable s) :
    (s.ran ++ s.aborted ++ s.qU ++ s.qN).Perm (List.range s.next) :=
  Proofs.Drain2.partition s h

/-- no registration is stranded in either queue: once the loop has finished its drain and every producer its re-check,
both queues are empty - whatever the interleaving, however many producers, whichever queue each task went to -/
theorem nothing_stranded2 (s : State) (h : Reachable s) (hq : Quiescent s = true) : s.qU = [] ∧ s.qN = [] :=
  Proofs.Drain2.nothing_stranded s h hq

/-- ... so every task was carried out or aborted, exactly once -/
theorem quiescent_all_settled2 (s : State) (h : Reachable s) (hq : Quiescent s = true) :
    (s.ran ++ s.aborted).Perm (List.range s.next) :=
  Proofs.Drain2.all_settled s h hq

/-- the loop aborts nothing while it is polling, and nobody aborts anything before `exited` is set -/
theorem no_abort_before_exit (s : State) (h : Reachable s) (he : s.exited = false) : s.aborted = [] :=
  Proofs.Drain2.no_abort_before_exit s h he

-- non-vacuity: tasks in both queues, the loop drains one, a late producer drains its own
example :
    let s := run (init 2) [.enqueue 0 true, .load 0, .enqueue 1 false, .loopRunU, .loopLeave, .loopSetExited,
                           .loopDrain, .loopDrain, .loopDrain, .load 1, .prodDrain 1, .prodDrain 1,
                           .enqueue 0 false, .load 0, .prodDrain 0, .prodDrain 0, .prodDrain 0]
    Quiescent s = true ∧ s.ran = [0] ∧ s.aborted = [1, 2] ∧ s.qU = [] ∧ s.qN = [] := by decide

end Gnet.Props.Drain2
