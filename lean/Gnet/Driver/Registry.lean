import Gnet.Driver.Util
import Gnet.Model.Registry
namespace Gnet.Driver.RegD
open Gnet

inductive St where
  | mat (m : Matrix)
  | map (m : RegMap)

def idsStr (l : List Nat) : String := if l.isEmpty then "none" else ",".intercalate (l.map toString)

def sortNat (l : List Nat) : List Nat := (l.toArray.qsort (· < ·)).toList

def step (s : St) (ws : List String) : Option (St × String) :=
  let bad : Option (St × String) := some (s, "bad-op")
  match ws with
  | ["newmatrix", r, c] => match r.toNat?, c.toNat? with
    | some r, some c => some (.mat (Matrix.init r c), s!"ok rows={r} cols={c}")
    | _, _ => bad
  | ["newmap"] => some (.map RegMap.init, "ok")
  | _ =>
  match s with
  | .mat m =>
    match ws with
    | ["conn", id, fd] => match id.toNat?, parseInt fd with
      | some id, some fd => some (.mat (m.newConn id fd), "ok")
      | _, _ => bad
    | ["add", id, el] => match id.toNat?, el.toNat? with
      | some id, some el => let m' := m.addConn id el; some (.mat m', s!"ok count={m'.loadCount} cursor={m'.row},{m'.col}")
      | _, _ => bad
    | ["del", id] => match id.toNat? with
      | some id => match m.delConn id with
        | some m' => some (.mat m', s!"ok count={m'.loadCount} cursor={m'.row},{m'.col}")
        | none => none
      | none => bad
    | ["get", fd] => match parseInt fd with
      | some fd => some (s, s!"id={match m.getConn fd with | none => "-1" | some i => toString i}")
      | none => bad
    | ["count"] => some (s, s!"count={m.loadCount}")
    | ["iter", d, k] => match k.toNat? with
      | some k => match m.iterate (d == "1") k with
        | some (m', ids) => some (.mat m', s!"ids={idsStr ids} count={m'.loadCount} cursor={m'.row},{m'.col}")
        | none => none
      | none => bad
    | ["gfd", id] => match id.toNat? with
      | some id => let c := m.objs id; some (s, s!"fd={c.fd} row={c.grow} col={c.gcol}")
      | none => bad
    | _ => bad
  | .map m =>
    match ws with
    | ["conn", id, fd] => match id.toNat?, parseInt fd with
      | some id, some fd => some (.map (m.newConn id fd), "ok")
      | _, _ => bad
    | ["add", id, _] => match id.toNat? with
      | some id => let m' := m.addConn id; some (.map m', s!"ok count={m'.loadCount} cursor=0,0")
      | none => bad
    | ["del", id] => match id.toNat? with
      | some id => let m' := m.delConn id; some (.map m', s!"ok count={m'.loadCount} cursor=0,0")
      | none => bad
    | ["get", fd] => match parseInt fd with
      | some fd => some (s, s!"id={match m.getConn fd with | none => "-1" | some i => toString i}")
      | none => bad
    | ["count"] => some (s, s!"count={m.loadCount}")
    | ["iter", d, _] =>
      let (m', ids) := m.iterate (d == "1")
      some (.map m', s!"ids={idsStr (sortNat ids)} count={m'.loadCount} cursor=0,0")
    | ["gfd", id] => match id.toNat? with
      | some id => some (s, s!"fd={m.objs id} row=0 col=0")
      | none => bad
    | _ => bad

def main : IO Unit := loop (fun _ => St.map RegMap.init) step

end Gnet.Driver.RegD
