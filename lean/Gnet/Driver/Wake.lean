import Gnet.Driver.Util
import Gnet.Model.Wake
namespace Gnet.Driver.WakeD
open Gnet Gnet.Wake

def qdump (q : Msq.State) : String :=
  s!"{Msq.posOf q q.head},{Msq.posOf q q.tail},{(Msq.chain q).length},{q.length}"

def outStr : Out → String
  | .none => "none" | .triggered => "triggered" | .executed v => s!"exec:{v}"
  | .blocked => "blocked" | .exited => "exited"

def dump (s : State) (o : Out) : String :=
  s!"out={outStr o} wc={s.wakeupCall} u={qdump s.urgent} l={qdump s.low} x={s.executedU.length + s.executedL.length}"

def step (s : State) (ws : List String) : Option (State × String) :=
  let bad : Option (State × String) := some (s, "bad-op")
  match ws with
  | ["init", n, th] => match n.toNat?, parseInt th with
    | some n, some th => some (init n th, "ok")
    | _, _ => bad
  | ["start", tid, task, low] => match tid.toNat?, task.toNat? with
    | some tid, some task => some (start s tid task (low == "1"), "ok")
    | _, _ => bad
  | ["step", tid] => match tid.toNat? with
    | some tid => let (s', o) := Wake.step s tid; some (s', dump s' o)
    | none => bad
  | _ => bad

def main : IO Unit := loop (fun _ => init 0 1024) step

end Gnet.Driver.WakeD
