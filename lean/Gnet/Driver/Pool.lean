import Gnet.Driver.Util
import Gnet.Model.Pool
namespace Gnet.Driver.PoolD
open Gnet

structure St where
  p : BsPool
  opno : Nat
  slices : List (Nat × Slice)     -- id (op number of the get / foreign) -> slice

def lookup (s : St) (id : Nat) : Option Slice := (s.slices.find? (·.1 == id)).map (·.2)

def step (s : St) (ws : List String) : Option (St × String) :=
  let s := { s with opno := s.opno + 1 }
  let bad : Option (St × String) := some (s, "bad-op")
  match ws with
  | ["ringget"] => some (s, "ok")
  | ["ringput"] => some (s, "ok")
  | ["get", size] => match parseInt size with
    | some size =>
      let (p', r) := s.p.get size none
      match r with
      | none => some ({ s with p := p' }, "nil")
      | some _ => bad      -- a positive size always comes with the pool's choice
    | none => bad
  | ["get", size, ch] => match parseInt size with
    | some size =>
      let choice : Option Nat := if ch.startsWith "hit=" then (ch.drop 4).toNat? else none
      let (p', r) := s.p.get size choice
      match r with
      | none => some ({ s with p := p' }, "nil")
      | some sl => some ({ s with p := p', slices := (s.opno, sl) :: s.slices },
                         s!"len={sl.len} cap={sl.cap} base={sl.alloc}+{sl.off}")
    | none => bad
  | ["foreign", n] => match n.toNat? with
    | some n =>
      let (p', sl) := s.p.foreign n
      some ({ s with p := p', slices := (s.opno, sl) :: s.slices }, s!"len={n} cap={n} base={sl.alloc}+0")
    | none => bad
  | ["put", id, lo, hi] => match id.toNat?, lo.toNat?, hi.toNat? with
    | some id, some lo, some hi =>
      match lookup s id with
      | some sl =>
        let buf : Slice := ⟨sl.alloc, sl.off + lo, hi - lo, hi - lo⟩
        let p' := s.p.put s.opno buf (some sl)
        let cls := if buf.cap = 0 ∨ buf.cap > BsPool.maxInt32 then "-" else toString (BsPool.putClass buf.cap)
        some ({ s with p := p', slices := s.slices.filter (·.1 != id) }, s!"ok class={cls}")
      | none => bad
    | _, _, _ => bad
  | ["gc"] => some (s, "ok")
  | _ => bad

def main : IO Unit := loop (fun _ => ({ p := BsPool.init, opno := 0, slices := [] } : St)) step

end Gnet.Driver.PoolD
