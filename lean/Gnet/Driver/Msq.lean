import Gnet.Driver.Util
import Gnet.Model.Msq
namespace Gnet.Driver.MsqD
open Gnet Gnet.Msq

def retStr : Option Ret → String
  | none => "-"
  | some .enqDone => "enq"
  | some (.deqSome v) => s!"deq:{v}"
  | some .deqNone => "deq:nil"
  | some (.len n) => s!"len:{n}"

def dump (s : State) : String :=
  s!"head={posOf s s.head} tail={posOf s s.tail} nodes={(chain s).length} length={s.length}"

def step (s : State) (ws : List String) : Option (State × String) :=
  let bad : Option (State × String) := some (s, "bad-op")
  match ws with
  | ["init", n] => match n.toNat? with
    | some n => some (init n, "ok")
    | none => bad
  | ["start", tid, "enq", v] => match tid.toNat?, v.toNat? with
    | some tid, some v => some (start s tid (.enq v), "ok")
    | _, _ => bad
  | ["start", tid, "deq"] => match tid.toNat? with
    | some tid => some (start s tid .deq, "ok")
    | none => bad
  | ["start", tid, "len"] => match tid.toNat? with
    | some tid => some (start s tid .len, "ok")
    | none => bad
  | ["step", tid] => match tid.toNat? with
    | some tid => let (s', r) := Msq.step s tid; some (s', s!"ret={retStr r} " ++ dump s')
    | none => bad
  | _ => bad

def main : IO Unit := loop (fun _ => init 0) step

end Gnet.Driver.MsqD
