import Gnet.Driver.Util
import Gnet.Model.Reactor
import Gnet.Gen.Arith
import Gnet.Model.Options
namespace Gnet.Driver.ReactorD
open Gnet Gnet.Reactor

def kv (ws : List String) (k : String) : Option String :=
  (ws.find? (·.startsWith (k ++ "="))).map (·.drop (k.length + 1) |>.toString)

def bytesOr (s : Option String) : List Nat := ((s.bind bytesOfHex).getD [])

def parseTok (t : String) : Tok :=
  let ws := (t.trimAscii.toString.splitOn " ").filter (· ≠ "")
  match ws with
  | "enter" :: fn :: rest =>
    let c := (kv rest "fd").getD ""
    let arg := (rest.filter (fun w => !w.startsWith "fd=")).headD ""
    .enter fn c arg
  | "sys" :: "read" :: rest =>
    .sysRead ((kv rest "fd").getD "") (((kv rest "len").bind (·.toNat?)).getD 0) (((kv rest "n").bind (·.toInt?)).getD 0)
      ((kv rest "err").getD "") (bytesOr (kv rest "data"))
  | "sys" :: "write" :: rest =>
    .sysWrite ((kv rest "fd").getD "") (bytesOr (kv rest "data")) (((kv rest "n").bind (·.toInt?)).getD 0) ((kv rest "err").getD "")
  | "sys" :: "writev" :: rest =>
    .sysWritev ((kv rest "fd").getD "") (((kv rest "segs").bind (·.toNat?)).getD 0) (bytesOr (kv rest "data"))
      (((kv rest "n").bind (·.toInt?)).getD 0) ((kv rest "err").getD "")
  | "sys" :: "close" :: rest => .sysClose ((kv rest "fd").getD "") ((kv rest "err").getD "")
  | "sys" :: "epoll_ctl" :: m :: rest => .sysCtl m ((kv rest "fd").getD "") ((kv rest "err").getD "")
  | "sys" :: "accept" :: rest => .sysAccept ((kv rest "fd").getD "") ((kv rest "nfd").getD "") ((kv rest "err").getD "")
  | "sys" :: "dup" :: rest => .sysDup ((kv rest "fd").getD "") ((kv rest "nfd").getD "") ((kv rest "err").getD "")
  | "sys" :: "recvfrom" :: rest =>
    .sysRecvfrom ((kv rest "fd").getD "") (((kv rest "n").bind (·.toInt?)).getD 0) ((kv rest "err").getD "")
      ((kv rest "from").getD "") (bytesOr (kv rest "data"))
  | "sys" :: "sendto" :: rest =>
    .sysSendto ((kv rest "fd").getD "") (bytesOr (kv rest "data")) ((kv rest "to").getD "") ((kv rest "err").getD "")
  | "cb" :: kind :: rest =>
    .cb kind ((kv rest "c").getD "") (((kv rest "readable").bind (·.toNat?)).getD 0) ((kv rest "err").getD "nil" == "nil")
      ((kv rest "remote").getD "")
  | "hop" :: h :: _ =>
    let (op, arg) := match h.splitOn ":" with
      | [o] => (o, "")
      | o :: more => (o, ":".intercalate more)
      | [] => ("", "")
    .hop op arg
  | "res" :: rest =>
    let data := match kv rest "data" with | some d => bytesOr (some d) | none => bytesOr (kv rest "sink")
    .res (((kv rest "n").bind (·.toInt?)).getD 0) ((kv rest "err").getD "nil") data
  | "ret" :: rest =>
    let out := match kv rest "out" with
      | none => none
      | some "nil" => none
      | some h => some ((bytesOfHex h).getD [])
    .ret out (((kv rest "action").bind (·.toNat?)).getD 0)
  | "exit" :: rest => .exit ((kv rest "err").getD "nil" == "nil")
  | _ => .other t

structure St where
  rs : RState

def countRegistered (s : RState) : Nat := (s.conns.filter (·.2.registered)).length

/-- accept one `round/idle/exit count=N | tok | tok …` record -/
def acceptRecord (s : RState) (rec : String) : Except String RState :=
  match rec.splitOn " | " with
  | [] => .ok s
  | head :: toks =>
    let toks := toks.filter (fun t => t.trimAscii.toString ≠ "-" ∧ t.trimAscii.toString ≠ "")
    match acceptRound s (toks.map parseTok) with
    | .error e => .error e
    | .ok s' =>
      let hw := (head.splitOn " ").filter (· ≠ "")
      let cnt := ((kv hw "count").bind (·.toNat?)).getD 0
      if cnt != countRegistered s' then .error s!"CountConnections is {cnt}, the model has {countRegistered s'} open connections"
      else .ok s'

def normOpt (f : BitVec 64 → BitVec 64 → Option (BitVec 64)) (x : Int) : Nat :=
  ((f (BitVec.ofInt 64 x) (BitVec.ofNat 64 Facts.maxStreamBufferCap)).map (·.toNat)).getD 0

def step (s : St) (ws : List String) : Option (St × String) :=
  match ws with
  | ["newloop", mode, chunk, rbc, wbc, _proto] =>
    let et := mode == "et"
    let chunkI := (parseInt chunk).getD 0
    let (c, e) := ((Options.chunkNorm (BitVec.ofInt 64 (if et then chunkI else 0)) et).map (fun p => (p.1.toNat, p.2))).getD (0, et)
    let r := normOpt Gen.normReadCapServer ((parseInt rbc).getD 0)
    let w := normOpt Gen.normWriteCapServer ((parseInt wbc).getD 0)
    some ({ rs := { cfg := { isET := e, chunk := c, rbc := r } } }, s!"ok et={boolStr e} chunk={c} rbc={r} wbc={w}")
  | "async" :: c :: "write" :: h :: _ =>
    let data := (bytesOfHex h).getD []
    some ({ rs := { s.rs with tasks := s.rs.tasks ++ [.asyncWrite c data] } }, "ok")
  | "async" :: c :: "writev" :: h :: _ =>
    some ({ rs := { s.rs with tasks := s.rs.tasks ++ [.asyncWritev c (parseHexSegs h)] } }, "ok")
  | "async" :: c :: "wake" :: _ => some ({ rs := { s.rs with tasks := s.rs.tasks ++ [.wake c] } }, "ok")
  | "async" :: c :: "close" :: _ => some ({ rs := { s.rs with tasks := s.rs.tasks ++ [.close c] } }, "ok")
  | "poll" :: rest | "drain" :: _ :: rest =>
    let line := " ".intercalate (if ws.head? == some "drain" then rest else rest)
    if line == "exited" then some (s, "exited") else
    let recs := line.splitOn " || "
    let res := recs.foldl (fun (acc : Except String RState) r => acc.bind fun st => acceptRecord st r) (.ok s.rs)
    match res with
    | .ok rs' => some ({ rs := rs' }, line)
    | .error e => some (s, "MISMATCH: " ++ e)
  | _ => some (s, "ok")

def main : IO Unit := loop (fun _ => ({ rs := { cfg := { isET := false, chunk := 0, rbc := 0 } } } : St)) step

end Gnet.Driver.ReactorD
