import Gnet.Driver.Util
import Gnet.Model.Ring
namespace Gnet.Driver.RingD
open Gnet

structure St where
  rb : Ring Nat
  pos : Nat        -- position of the scripted reader's fresh-byte counter

def gen (i : Nat) : Nat := i % 251

def stat (rb : Ring Nat) : String :=
  s!" buffered={rb.buffered} avail={rb.available} cap={rb.cap} len={rb.len} empty={boolStr rb.isEmpty} full={boolStr rb.isFull}"

def step (s : St) (ws : List String) : Option (St × String) :=
  let bad : Option (St × String) := some (s, "bad-op")
  let rb := s.rb
  match ws with
  | ["new", n] => match parseInt n with
    | some n => let rb' : Ring Nat := Ring.new n; some ({ s with rb := rb' }, "ok" ++ stat rb')
    | none => bad
  | ["write", h] => match bytesOfHex h with
    | some p => if rb.writeSafe p then
        let rb' := rb.write p; some ({ s with rb := rb' }, s!"n={p.length} err=nil" ++ stat rb') else none
    | none => bad
  | ["writestring", h] => match bytesOfHex h with
    | some p => if rb.writeSafe p then
        let rb' := rb.write p; some ({ s with rb := rb' }, s!"n={p.length} err=nil" ++ stat rb') else none
    | none => bad
  | ["writebyte", h] => match bytesOfHex h with
    | some [c] => if rb.writeByteSafe c then
        let rb' := rb.writeByte c; some ({ s with rb := rb' }, "err=nil" ++ stat rb') else none
    | _ => bad
  | ["read", n] => match n.toNat? with
    | some n => if rb.readSafe n then
        let (rb', data, e) := rb.read n
        some ({ s with rb := rb' }, s!"n={data.length} err={e.toStr} data={hexOfBytes data}" ++ stat rb') else none
    | none => bad
  | ["readbyte"] => if rb.readByteSafe then
        let (rb', b, e) := rb.readByte
        some ({ s with rb := rb' }, s!"b={hexOfBytes b.toList} err={e.toStr}" ++ stat rb') else none
  | ["peek", n] => match parseInt n with
    | some n => if rb.peekSafe n then
        let (h, t) := rb.peek n
        some (s, s!"head={hexOfBytes h} tail={hexOfBytes t}" ++ stat rb) else none
    | none => bad
  | ["discard", n] => match parseInt n with
    | some n => let (rb', d) := rb.discard n
                if !rb.discardSafe n then none  -- `% 0`
                else some ({ s with rb := rb' }, s!"n={d} err=nil" ++ stat rb')
    | none => bad
  | ["bytes"] => if rb.bytesSafe then some (s, s!"data={hexOfBytes rb.bytes}" ++ stat rb) else none
  | ["readfrom", sc] => match parseRScript sc with
    | some sc => if rb.readFromSafe gen s.pos sc then
        let (rb', n, e, pos') := rb.readFrom gen s.pos 0 sc
        some ({ rb := rb', pos := pos' }, s!"n={n} err={e.toStr}" ++ stat rb') else none
    | none => bad
  | ["writeto", sc] => match parseWScript sc with
    | some sc => if rb.writeToSafe sc then
        let (rb', n, e, sink, _) := rb.writeTo sc
        some ({ s with rb := rb' }, s!"n={n} err={e.toStr} sink={hexOfBytes sink}" ++ stat rb') else none
    | none => bad
  | ["reset"] => let rb' := rb.reset; some ({ s with rb := rb' }, "ok" ++ stat rb')
  | _ => bad

def main : IO Unit := loop (fun _ => ({ rb := Ring.new 0, pos := 0 } : St)) step

end Gnet.Driver.RingD
