import Gnet.Driver.Util
import Gnet.Model.Sockaddr
namespace Gnet.Driver.SockaddrD
open Gnet Gnet.Sockaddr

def strOf (l : List Nat) : String := String.ofList (l.map Char.ofNat)
def hexOfStr (s : String) : String := hexOfBytes (s.toList.map (·.toNat))

def saStr : Option SA → String
  | none => "sa=nil"
  | some (.inet4 p a) => s!"sa=inet4 port={p} addr={hexOfBytes a}"
  | some (.inet6 p z a) => s!"sa=inet6 port={p} zone={z} addr={hexOfBytes a}"
  | some (.unix n) => s!"sa=unix name={hexOfStr n}"

def backStr (ifs : IfTable) : Option SA → String
  | none => "back=nil"
  | some sa => match sockaddrToNetAddr ifs sa with
    | some a => s!"back=ip:{hexOfBytes a.ip} port={a.port} zone={hexOfStr a.zone}"
    | none => "back=nil"

def parseIfs (s : String) : IfTable :=
  if s = "-" then [] else
  (s.splitOn ",").filterMap fun item =>
    match item.splitOn ":" with
    | [n, i] => match bytesOfHex n, i.toNat? with
      | some n, some i => some (strOf n, i)
      | _, _ => none
    | _ => none

def step (ifs : IfTable) (ws : List String) : Option (IfTable × String) :=
  let bad : Option (IfTable × String) := some (ifs, "bad-op")
  match ws with
  | ["ifs", t] => some (parseIfs t, "ok")
  | ["convunix", nw, name] =>
    match bytesOfHex nw, bytesOfHex name with
    | some nw, some name =>
      let sa := unixAddrToSockaddr (strOf nw) (strOf name)
      let back := match sa.bind sockaddrToUnixName with
        | some n => s!"back=unix:{hexOfStr n}"
        | none => "back=nil"
      some (ifs, saStr sa ++ " " ++ back)
    | _, _ => bad
  | [cv, ip, nil, port, zone] =>
    if cv ≠ "conv" ∧ cv ≠ "convudp" then bad else
    match bytesOfHex ip, parseInt port, bytesOfHex zone with
    | some ip, some port, some zone =>
      let sa := ipToSockaddr ifs ip (nil == "1") port (strOf zone)
      some (ifs, saStr sa ++ " " ++ backStr ifs sa)
    | _, _, _ => bad
  | ["itod", n] => match n.toNat? with
    | some n => some (ifs, s!"s={hexOfStr (itod n)}")
    | none => bad
  | ["dtoi", s] => match bytesOfHex s with
    | some s => let (n, ok) := dtoi (strOf s); some (ifs, s!"n={n} ok={boolStr ok}")
    | none => bad
  | ["zone2int", z] => match bytesOfHex z with
    | some z => some (ifs, s!"n={zoneToInt ifs (strOf z)}")
    | none => bad
  | ["zone2str", n] => match n.toNat? with
    | some n => some (ifs, s!"s={hexOfStr (zoneToString ifs n)}")
    | none => bad
  | _ => bad

def main : IO Unit := loop (fun _ => ([] : IfTable)) step

end Gnet.Driver.SockaddrD
