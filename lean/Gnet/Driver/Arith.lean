import Gnet.Driver.Util
import Gnet.Gen.Arith
import Gnet.Model.Gfd
import Gnet.Model.Options
import Gnet.Model.Url
namespace Gnet.Driver.ArithD
open Gnet

def bv (s : String) : Option (BitVec 64) := (parseInt s).map (BitVec.ofInt 64)
def res (r : Option (BitVec 64)) : String :=
  match r with | none => "r=panic" | some v => s!"r={v.toInt}"

open Gnet.Options (chunkNorm)

def step (_ : Unit) (ws : List String) : Option (Unit × String) :=
  let ok (s : String) : Option (Unit × String) := some ((), s)
  match ws with
  | ["ispow2", n] => match bv n with
    | some n => ok (match Gen.IsPowerOfTwo n with | none => "r=panic" | some b => s!"r={boolStr b}")
    | none => ok "bad-op"
  | ["ceil", n] => match bv n with | some n => ok (res (Gen.CeilToPowerOfTwo n)) | none => ok "bad-op"
  | ["floor", n] => match bv n with | some n => ok (res (Gen.FloorToPowerOfTwo n)) | none => ok "bad-op"
  | ["closest", n] => match bv n with | some n => ok (res (Gen.ClosestPowerOfTwo n)) | none => ok "bad-op"
  | ["bsindex", n] => match n.toNat? with
    | some n => ok (match Gen.bsIndex (BitVec.ofNat 32 n) with | none => "r=panic" | some v => s!"r={v.toNat}")
    | none => ok "bad-op"
  | ["rbindex", n] => match bv n with | some n => ok (res (Gen.rbIndex n)) | none => ok "bad-op"
  | ["evloops", mc, nel, ncpu] => match bv nel, bv ncpu with
    | some nel, some ncpu => ok (res (Gen.determineEventLoops (mc == "1") nel ncpu))
    | _, _ => ok "bad-op"
  | [kind, rbc, wbc, chunk, et] =>
    if kind = "normserver" ∨ kind = "normclient" then
      match bv rbc, bv wbc, bv chunk with
      | some rbc, some wbc, some chunk =>
        let mx := BitVec.ofNat 64 Facts.maxStreamBufferCap
        let r := if kind = "normserver" then Gen.normReadCapServer rbc mx else Gen.normReadCapClient rbc mx
        let w := if kind = "normserver" then Gen.normWriteCapServer wbc mx else Gen.normWriteCapClient wbc mx
        match chunkNorm chunk (et == "1"), r, w with
        | some (c, e), some r, some w => ok s!"r={r.toInt} w={w.toInt} c={c.toInt} et={boolStr e}"
        | _, _, _ => ok "r=panic"
      | _, _, _ => ok "bad-op"
    else if kind = "gfd" then
      match bv rbc, bv wbc, bv chunk, bv et with
      | some fd, some el, some row, some col =>
        let g := GFD.new fd el row col 1
        ok s!"fd={g.fd.toInt} el={g.eventLoopIndex.toInt} row={g.row.toInt} col={g.column.toInt}"
      | _, _, _, _ => ok "bad-op"
    else ok "bad-op"
  | ["parse", addr, uerr, sch, host, path, joined] =>
    match bytesOfHex addr, bytesOfHex sch, bytesOfHex host, bytesOfHex path, bytesOfHex joined with
    | some addr, some sch, some host, some path, some joined =>
      let chars (l : List Nat) : List Char := l.map (fun b => Char.ofNat b)
      let str (l : List Nat) : String := String.ofList (chars l)
      let u : Options.UrlParts := ⟨uerr == "1", str sch, str host, str path, str joined⟩
      let reply (r : Options.ParseResult) : String :=
        match r with
        | .ok s e => s!"r=ok scheme={s} ep={hexOfBytes (e.toList.map (·.toNat))}"
        | .urlError => "r=err:url"
        | .invalidAddress => "r=err:invalid"
        | .unsupportedProtocol => "r=err:unsupported"
      -- the model of url.Parse / path.Join, run on the address alone, against the recorded fields
      let mismatch : Option String :=
        match Url.urlParse (Url.escapePercent (chars addr)) with
        | .error => if u.err then none else some "model says url.Parse fails, it succeeded"
        | .ok ms mh mp =>
          if u.err then some "model says url.Parse succeeds, it failed"
          else if ms ≠ chars sch then some s!"scheme {hexOfBytes (ms.map (·.toNat))}"
          else if mh ≠ chars host then some s!"host {hexOfBytes (mh.map (·.toNat))}"
          else if mp ≠ chars path then some s!"path {hexOfBytes (mp.map (·.toNat))}"
          else if Url.pathJoin2 mh mp ≠ chars joined then
            some s!"joined {hexOfBytes ((Url.pathJoin2 mh mp).map (·.toNat))}"
          else if Url.parseProtoAddrL (chars addr) ≠ Options.dispatch u then some "result"
          else none
      ok (match mismatch with
        | some why => s!"MISMATCH url-model: {why}"
        | none => reply (Options.dispatch u))
    | _, _, _, _, _ => ok "bad-op"
  | ["gfdupd", fd, el, row, col, row2, col2] =>
    match bv fd, bv el, bv row, bv col, bv row2, bv col2 with
    | some fd, some el, some row, some col, some row2, some col2 =>
      let g := (GFD.new fd el row col 1).updateIndexes row2 col2
      ok s!"fd={g.fd.toInt} el={g.eventLoopIndex.toInt} row={g.row.toInt} col={g.column.toInt}"
    | _, _, _, _, _, _ => ok "bad-op"
  | _ => ok "bad-op"

def main : IO Unit := loop (fun _ => ()) step

end Gnet.Driver.ArithD
