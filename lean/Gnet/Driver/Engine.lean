import Gnet.Driver.Util
import Gnet.Model.Engine
import Gnet.Model.Handover
import Gnet.Model.Drain
namespace Gnet.Driver.EngineD
open Gnet Gnet.Engine

/-- Hand-overs made by DIFFERENT goroutines reach the task queue of a loop in an order the log cannot know: the log
has the creation of the connection (entry of newStreamConn), the queue has the order of the Enqueue calls, and between
the two a goroutine may be overtaken. Every Register / Enroll call runs on a goroutine of its own, the acceptor is one
goroutine. So the replay lets a loop register any pending ENROLMENT, and an acceptor hand-over that is behind
enrolments only, and demands the FIFO order among the acceptor's hand-overs (one producer). The model's queue is put
into the order the registration reveals by the model's own step `reorder`, so the replay stays a run of the model the
theorems of Props/Handover quantify over. -/
def promote (s : Handover.State) (l k : Nat) : Option Handover.State :=
  match s.loops[l]? with
  | none => none
  | some x =>
    if !x.queue.contains (.register k) then none else
    let before := x.queue.takeWhile (· != .register k)
    let kEnrolled := s.enrolled.contains k
    let blocked := before.any fun t => match t with
      | .register j => !kEnrolled && !s.enrolled.contains j     -- both from the acceptor: FIFO
      | .sentinel => true
    if blocked then none
    else some (Handover.step s (.reorder l k))   -- a step of the proved model (Model/Handover.lean)

/-- replays the hand-over events of a real engine life on the hand-over model: the acceptor's hand-overs
(A:loop:seq), registrations on the loops (E:loop:seq, which must follow the FIFO order of the hand-overs),
closes (C:loop:seq) and loops leaving Polling (X:loop); returns the number of descriptors the model leaves
unclosed once everything has stopped -/
def hoReplay (nloops : Nat) (evs : List String) : Except String (Nat × Nat) := do
  let s ← evs.foldlM (init := Handover.init nloops) fun s e =>
    match e.splitOn ":" with
    | ["A", l, k] =>
      match l.toNat?, k.toNat? with
      | some l, some k =>
        if k ≠ s.nextFd then .error s!"hand-over {e}: connections are numbered in hand-over order, expected {s.nextFd}"
        else if l ≥ s.loops.length then .error s!"hand-over {e}: no such loop"
        else .ok (Handover.step s (.accept l))
      | _, _ => .error s!"unparsable hand-over event {e}"
    | ["N", l, k] =>     -- a connection created by a Register / Enroll call
      match l.toNat?, k.toNat? with
      | some l, some k =>
        if k ≠ s.nextFd then .error s!"enrolment {e}: connections are numbered in creation order, expected {s.nextFd}"
        else if l ≥ s.loops.length then .error s!"enrolment {e}: no such loop"
        else .ok (Handover.step s (.enroll l))
      | _, _ => .error s!"unparsable hand-over event {e}"
    | ["E", l, k] =>
      match l.toNat?, k.toNat? with
      | some l, some k =>
        match s.loops[l]? with
        | some x =>
          if !x.running then .error s!"{e}: loop {l} registers a connection after it left Polling"
          else match x.queue with
            | .register k' :: _ => if k' = k then .ok (Handover.step s (.exec l))
                else match promote s l k with
                  | some s' => .ok (Handover.step s' (.exec l))
                  | none => .error s!"{e}: loop {l} registers {k} while {k'} was handed to it first by the same goroutine, or {k} was not handed to it"
            | _ => .error s!"{e}: loop {l} registers {k}, which was not handed to it"
        | none => .error s!"{e}: no such loop"
      | _, _ => .error s!"unparsable hand-over event {e}"
    | ["C", l, k] =>
      match l.toNat?, k.toNat? with
      | some l, some k => .ok (Handover.step s (.peerClose l k))
      | _, _ => .error s!"unparsable hand-over event {e}"
    | ["X", l] =>
      match l.toNat? with
      | some l =>
        match s.loops[l]? with
        | some x => if x.running then .ok (Handover.step s (.action l)) else .error s!"{e}: loop {l} leaves Polling twice"
        | none => .error s!"{e}: no such loop"
      | none => .error s!"unparsable hand-over event {e}"
    | _ => .error s!"unparsable hand-over event {e}"
  let s := Handover.run s [.requestStop, .postSentinels, .acceptorExit, .setFlag]
  if !Handover.Final s then .error "Run returned although a loop never left Polling (no closeConns seen for it)"
  else
    -- an unanswered Register(address) call also keeps the socket it dialled itself: one more open socket per call
    let u := (Handover.unanswered s).length
    .ok ((Handover.unclosed s).length + u, u)

def parseTok (t : String) : Option Tok :=
  match t.splitOn ":" with
  | ["boot"] => some .boot
  | ["shutdown"] => some .shutdown
  | ["open", c] => some (.open c)
  | ["traffic", c] => some (.traffic c)
  | ["close", c] => some (.close c)
  | ["runreturn", e] => some (.runreturn e)
  | ["api", rest] => match rest.splitOn "_" with
    | [ph, call, res] => some (.api ph call res)
    | _ => none
  | _ => none

def stopOk (source stop : String) : Bool :=
  match source with
  | "engstop" | "pkgstop" | "regrace" | "slowclose" | "stormstop" => stop == "nil"
  | "ctxexpired" => stop == "ctx" || stop == "nil"
  | "twice" => stop == "nil,inshutdown"
  | _ => stop == "-"

def judge (source : String) (nloops : Nat) (multi : Bool) (rest : List String) : Option (Unit × String) :=
    let line := " ".intercalate rest
    match (match line.splitOn " | " with
           | [head, body, ho] => some (head, body, some ho)
           | [head, body] => some (head, body, none)
           | _ => none) with
    | some (head, body, ho) =>
      let hw := (head.splitOn " ").filter (· ≠ "")
      let stop := ((hw.find? (·.startsWith "stop=")).map (·.drop 5 |>.toString)).getD "?"
      if !(hw.contains "result=ok") then some ((), "MISMATCH: " ++ head)
      else if !stopOk source stop then some ((), s!"MISMATCH: Stop returned {stop} for request kind {source}")
      else
        let toks := ((body.splitOn " ").filter (· ≠ "")).map parseTok
        if toks.any (·.isNone) then some ((), "MISMATCH: unparsable token")
        else match acceptTrace (source == "boot") multi (toks.filterMap id) with
          | .ok a =>
            if !a.returned then some ((), "MISMATCH: Run never returned")
            else match ho with
              | none => some ((), line)
              | some h =>
                -- " ho leaked=N ev ev ..": the model recomputes N from the events
                match (h.splitOn " ").filter (· ≠ "") with
                | "ho" :: _leaked :: _unanswered :: evs =>
                  match hoReplay nloops evs with
                  | .ok (n, u) => some ((), s!"{head} | {body} | ho leaked={n} unanswered={u}" ++ (if evs.isEmpty then "" else " " ++ " ".intercalate evs))
                  | .error e => some ((), "MISMATCH: hand-over: " ++ e)
                | _ => some ((), "MISMATCH: malformed hand-over record")
          | .error e => some ((), "MISMATCH: " ++ e)
    | none => some ((), "MISMATCH: malformed life record: " ++ line)

/-- `hammer <mode> <rounds>`: both parties of every round have finished, nobody runs tasks. Model/Drain.lean: the state is
quiescent, so nothing is left in the queue (`nothing_stranded`) and every registration was carried out or aborted
(`quiescent_all_settled`) - here aborted, since the loop runs none. The model's reply is that prediction for the number
of registrations the implementation reports to have handed over. -/
def hammerPrediction (handed : Nat) : String :=
  -- every round is a fresh instance of the protocol with one producer and a loop that has left Polling; the schedule below
  -- is one of its interleavings, the theorems say the outcome is the same for all of them
  let r := Drain.run { Drain.init 1 with loop := .leaving }
             [.enqueue 0, .loopSetExited, .load 0, .loopDrain, .loopDrain, .prodDrain 0]
  let ok := Drain.Quiescent r
  s!"result=ok handed={handed * r.next} aborted={handed * r.aborted.length} left={handed * r.queue.length} open=0 unanswered={if ok then 0 else 1}"

def judgeHammer (rounds : Nat) (rest : List String) : Option (Unit × String) :=
  match rest.find? (·.startsWith "handed=") with
  | some h =>
    let handed := (h.drop 7).toString.toNat?.getD 0
    if handed == 0 || handed > rounds then some ((), "MISMATCH: handed out of range")
    else some ((), hammerPrediction handed)
  | none => some ((), "MISMATCH: malformed hammer record: " ++ " ".intercalate rest)

def step (_ : Unit) (ws : List String) : Option (Unit × String) :=
  match ws with
  | "life" :: _proto :: loops :: _rp :: _tk :: _n :: source :: _et :: _lb :: rest =>
    -- a Shutdown action returned from OnBoot: Run returns without creating any loop
    judge source (if source == "boot" then 0 else loops.toNat?.getD 0) (_proto == "both") rest
  | "hammer" :: _mode :: rounds :: rest => judgeHammer (rounds.toNat?.getD 0) rest
  | "clife" :: _proto :: loops :: _tk :: _n :: _mode :: _et :: rest => judge "client" (loops.toNat?.getD 0) false rest
  | _ => some ((), "bad-op")

def main : IO Unit := loop (fun _ => ()) step

end Gnet.Driver.EngineD
