import Gnet.Driver.Util
import Gnet.Model.Engine
namespace Gnet.Driver.EngineD
open Gnet Gnet.Engine

def parseTok (t : String) : Option Tok :=
  match t.splitOn ":" with
  | ["boot"] => some .boot
  | ["shutdown"] => some .shutdown
  | ["open", c] => some (.open c)
  | ["traffic", c] => some (.traffic c)
  | ["close", c] => some (.close c)
  | ["runreturn", e] => some (.runreturn e)
  | ["api", rest] => match rest.splitOn "_" with
    | [ph, call, res] => some (.api ph call res)
    | _ => none
  | _ => none

def stopOk (source stop : String) : Bool :=
  match source with
  | "engstop" | "pkgstop" | "regrace" | "slowclose" => stop == "nil"
  | "ctxexpired" => stop == "ctx" || stop == "nil"
  | "twice" => stop == "nil,inshutdown"
  | _ => stop == "-"

def judge (source : String) (rest : List String) : Option (Unit × String) :=
    let line := " ".intercalate rest
    match line.splitOn " | " with
    | [head, body] =>
      let hw := (head.splitOn " ").filter (· ≠ "")
      let stop := ((hw.find? (·.startsWith "stop=")).map (·.drop 5 |>.toString)).getD "?"
      if !(hw.contains "result=ok") then some ((), "MISMATCH: " ++ head)
      else if !stopOk source stop then some ((), s!"MISMATCH: Stop returned {stop} for request kind {source}")
      else
        let toks := ((body.splitOn " ").filter (· ≠ "")).map parseTok
        if toks.any (·.isNone) then some ((), "MISMATCH: unparsable token")
        else match acceptTrace (source == "boot") (toks.filterMap id) with
          | .ok a => if a.returned then some ((), line) else some ((), "MISMATCH: Run never returned")
          | .error e => some ((), "MISMATCH: " ++ e)
    | _ => some ((), "MISMATCH: malformed life record: " ++ line)

def step (_ : Unit) (ws : List String) : Option (Unit × String) :=
  match ws with
  | "life" :: _proto :: _loops :: _rp :: _tk :: _n :: source :: _et :: _lb :: rest => judge source rest
  | "clife" :: _proto :: _loops :: _tk :: _n :: _mode :: _et :: rest => judge "client" rest
  | _ => some ((), "bad-op")

def main : IO Unit := loop (fun _ => ()) step

end Gnet.Driver.EngineD
