import Gnet.Driver.Util
import Gnet.Model.LinkedList
namespace Gnet.Driver.LLD
open Gnet

structure St where
  l : LL Nat
  pos : Nat

def gen (i : Nat) : Nat := i % 251

def stat (l : LL Nat) : String :=
  s!" len={l.len} buffered={l.buffered} empty={boolStr l.isEmpty}"

def segsStr (ss : List (List Nat)) : String :=
  if ss.isEmpty then "none" else "|".intercalate (ss.map hexOfBytes)

def parseSegs (s : String) : Option (List (List Nat)) :=
  if s = "none" then some [] else (s.splitOn ",").mapM bytesOfHex

def step (s : St) (ws : List String) : Option (St × String) :=
  let bad : Option (St × String) := some (s, "bad-op")
  let l := s.l
  match ws with
  | ["new"] => some ({ l := LL.empty, pos := 0 }, "ok" ++ stat (LL.empty : LL Nat))
  | ["pushback", h] => match bytesOfHex h with
    | some p => let l' := l.pushBackCopy p; some ({ s with l := l' }, "ok" ++ stat l')
    | none => bad
  | ["pushfront", h] => match bytesOfHex h with
    | some p => let l' := l.pushFrontCopy p; some ({ s with l := l' }, "ok" ++ stat l')
    | none => bad
  | ["append", h] => match bytesOfHex h with
    | some p => let l' := l.append p; some ({ s with l := l' }, "ok" ++ stat l')
    | none => bad
  | ["pop"] =>
    let (d, l') := l.popBytes
    some ({ s with l := l' }, s!"data={match d with | none => "nil" | some d => hexOfBytes d}" ++ stat l')
  | ["read", n] => match n.toNat? with
    | some n =>
      let (l', d, e) := l.read n
      some ({ s with l := l' }, s!"n={d.length} err={e.toStr} data={hexOfBytes d}" ++ stat l')
    | none => bad
  | ["peek", n] => match parseInt n with
    | some n => let (ss, e) := l.peek n; some (s, s!"segs={segsStr ss} err={e.toStr}" ++ stat l)
    | none => bad
  | ["peekwb", n, bs] => match parseInt n, parseSegs bs with
    | some n, some bs => let (ss, e) := l.peekWithBytes n bs; some (s, s!"segs={segsStr ss} err={e.toStr}" ++ stat l)
    | _, _ => bad
  | ["discard", n] => match parseInt n with
    | some n => let (l', d) := l.discard n; some ({ s with l := l' }, s!"n={d} err=nil" ++ stat l')
    | none => bad
  | ["readfrom", sc] => match parseRScript sc with
    | some sc =>
      let (l', n, e, pos') := l.readFrom gen s.pos 0 sc
      some ({ l := l', pos := pos' }, s!"n={n} err={e.toStr}" ++ stat l')
    | none => bad
  | ["writeto", sc] => match parseWScript sc with
    | some sc =>
      let (l', n, e, sink) := l.writeTo sc
      some ({ s with l := l' }, s!"n={n} err={e.toStr} sink={hexOfBytes sink}" ++ stat l')
    | none => bad
  | ["reset"] => let l' := l.reset; some ({ s with l := l' }, "ok" ++ stat l')
  | _ => bad

def main : IO Unit := loop (fun _ => ({ l := LL.empty, pos := 0 } : St)) step

end Gnet.Driver.LLD
