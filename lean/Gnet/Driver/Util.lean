/-
  Line-protocol utilities shared by all model drivers (hex, number and script parsing).
-/
import Gnet.Basic
namespace Gnet.Driver

def hexDigit (n : Nat) : Char :=
  if n < 10 then Char.ofNat (48 + n) else Char.ofNat (87 + n)

def hexOfBytes (bs : List Nat) : String :=
  if bs.isEmpty then "-" else
  String.ofList (bs.flatMap fun b => [hexDigit (b / 16 % 16), hexDigit (b % 16)])

def hexVal (c : Char) : Option Nat :=
  if '0' ≤ c ∧ c ≤ '9' then some (c.toNat - 48)
  else if 'a' ≤ c ∧ c ≤ 'f' then some (c.toNat - 87)
  else none

partial def bytesOfHexAux : List Char → List Nat → Option (List Nat)
  | [], acc => some acc.reverse
  | [_], _ => none
  | a :: b :: rest, acc =>
    match hexVal a, hexVal b with
    | some x, some y => bytesOfHexAux rest ((x * 16 + y) :: acc)
    | _, _ => none

def bytesOfHex (s : String) : Option (List Nat) :=
  if s = "-" then some [] else bytesOfHexAux s.toList []

def parseInt (s : String) : Option Int := s.toInt?

def parseRScript (s : String) : Option (List RStep) :=
  if s = "-" then some [] else
  (s.splitOn ",").mapM fun item =>
    match item.splitOn ":" with
    | [k, e] => do let k ← k.toNat?; let e ← Err.parse e; pure ⟨k, e⟩
    | _ => none

def parseWScript (s : String) : Option (List WStep) :=
  if s = "-" then some [] else
  (s.splitOn ",").mapM fun item =>
    match item.splitOn ":" with
    | [k, e] => do let k ← k.toNat?; let e ← Err.parse e; pure ⟨k, e⟩
    | _ => none

def boolStr (b : Bool) : String := if b then "1" else "0"

/-- generic driver loop. `step` gets the state (`none` = dead after a panic or before the first
    `case`) and the words of the line; it answers the new state (`none` = panic) and a reply. -/
partial def loop {σ : Type} (init : Unit → σ) (step : σ → List String → Option (σ × String)) : IO Unit := do
  let stdin ← IO.getStdin
  let stdout ← IO.getStdout
  let rec go (st : Option σ) : IO Unit := do
    let line ← stdin.getLine
    if line.isEmpty then return ()
    let ws := (line.trimAscii.toString.splitOn " ").filter (· ≠ "")
    match ws with
    | [] => go st
    | "case" :: _ => stdout.putStrLn line.trimAscii.toString; go (some (init ()))
    | _ =>
      match st with
      | none => stdout.putStrLn "dead"; go none
      | some s =>
        match step s ws with
        | none => stdout.putStrLn "panic"; go none
        | some (s', out) => stdout.putStrLn out; go (some s')
  go none
  stdout.flush

end Gnet.Driver
