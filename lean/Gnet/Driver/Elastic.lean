import Gnet.Driver.Util
import Gnet.Model.Elastic
namespace Gnet.Driver.ElasticD
open Gnet

inductive Obj where
  | ring (b : ERing Nat)
  | buf (m : Elastic Nat)

structure St where
  obj : Obj
  pos : Nat

def gen (i : Nat) : Nat := i % 251

def rstat (b : ERing Nat) : String :=
  s!" buffered={b.buffered} avail={b.available} cap={b.cap} len={b.len} empty={boolStr b.isEmpty} full={boolStr b.isFull} alloc={boolStr b.rb.isSome}"

def bstat (m : Elastic Nat) : String :=
  s!" buffered={m.buffered} empty={boolStr m.isEmpty} ralloc={boolStr m.ring.rb.isSome} rcap={m.ring.cap} rbuf={m.ring.buffered} llen={m.list.len} lbuf={m.list.buffered}"

def segsStr (ss : List (List Nat)) : String :=
  if ss.isEmpty then "none" else "|".intercalate (ss.map hexOfBytes)

def parseSegs (s : String) : Option (List (List Nat)) :=
  if s = "none" then some [] else (s.splitOn ",").mapM bytesOfHex

def poolOf (ws : List String) : RbPool :=
  match ws with
  | [c] => match c.toNat? with | some c => ⟨some c, []⟩ | none => RbPool.empty
  | _ => RbPool.empty

def stepRing (s : St) (b : ERing Nat) (ws : List String) : Option (St × String) :=
  let bad : Option (St × String) := some (s, "bad-op")
  let ret (b' : ERing Nat) (out : String) : Option (St × String) := some ({ s with obj := .ring b' }, out ++ rstat b')
  match ws with
  | ["write", h] | ["writestring", h] => match bytesOfHex h with
    | some p => ret (b.write p) s!"n={p.length} err=nil"
    | none => bad
  | ["writebyte", h] => match bytesOfHex h with
    | some [c] => ret (b.writeByte c) "err=nil"
    | _ => bad
  | ["read", n] => match n.toNat? with
    | some n => let (b', d, e) := b.read n; ret b' s!"n={d.length} err={e.toStr} data={hexOfBytes d}"
    | none => bad
  | ["readbyte"] => let (b', x, e) := b.readByte; ret b' s!"b={hexOfBytes x.toList} err={e.toStr}"
  | ["peek", n] => match parseInt n with
    | some n => let (h, t) := b.peek n; ret b s!"head={hexOfBytes h} tail={hexOfBytes t}"
    | none => bad
  | ["discard", n] => match parseInt n with
    | some n => let (b', d, e) := b.discard n; ret b' s!"n={d} err={e.toStr}"
    | none => bad
  | ["bytes"] => ret b s!"data={hexOfBytes b.bytes}"
  | ["readfrom", sc] => match parseRScript sc with
    | some sc => let (b', n, e, pos') := b.readFrom gen s.pos sc
                 some ({ obj := .ring b', pos := pos' }, s!"n={n} err={e.toStr}" ++ rstat b')
    | none => bad
  | ["writeto", sc] => match parseWScript sc with
    | some sc => let (b', n, e, sink, _) := b.writeTo sc; ret b' s!"n={n} err={e.toStr} sink={hexOfBytes sink}"
    | none => bad
  | ["reset"] => ret b.reset "ok"
  | ["done"] => ret b.doneAll "ok"
  | _ => bad

def stepBuf (s : St) (m : Elastic Nat) (ws : List String) : Option (St × String) :=
  let bad : Option (St × String) := some (s, "bad-op")
  let ret (m' : Elastic Nat) (out : String) : Option (St × String) := some ({ s with obj := .buf m' }, out ++ bstat m')
  match ws with
  | ["write", h] => match bytesOfHex h with
    | some p => ret (m.write p) s!"n={p.length} err=nil"
    | none => bad
  | ["writev", bs] => match parseSegs bs with
    | some bs => let (m', n) := m.writev bs; ret m' s!"n={n} err=nil"
    | none => bad
  | ["read", n] => match n.toNat? with
    | some n => let (m', d, e) := m.read n; ret m' s!"n={d.length} err={e.toStr} data={hexOfBytes d}"
    | none => bad
  | ["peek", n] => match parseInt n with
    | some n => let (ss, e) := m.peek n; ret m s!"segs={segsStr ss} err={e.toStr}"
    | none => bad
  | ["discard", n] => match parseInt n with
    | some n => let (m', d, e) := m.discard n; ret m' s!"n={d} err={e.toStr}"
    | none => bad
  | ["readfrom", sc] => match parseRScript sc with
    | some sc => let (m', n, e, pos') := m.readFrom gen s.pos sc
                 some ({ obj := .buf m', pos := pos' }, s!"n={n} err={e.toStr}" ++ bstat m')
    | none => bad
  | ["writeto", sc] => match parseWScript sc with
    | some sc => let (m', n, e, sink) := m.writeTo sc; ret m' s!"n={n} err={e.toStr} sink={hexOfBytes sink}"
    | none => bad
  | ["reset", n] => match parseInt n with
    | some n => ret (m.reset n) "ok"
    | none => bad
  | ["release"] => ret m.release "ok"
  | _ => bad

def step (s : St) (ws : List String) : Option (St × String) :=
  match ws with
  | "newring" :: rest =>
    let b : ERing Nat := ⟨none, poolOf rest⟩
    some ({ obj := .ring b, pos := 0 }, "ok" ++ rstat b)
  | "newbuf" :: ms :: rest =>
    match ms.toNat? with
    | some ms => let m : Elastic Nat := Elastic.new ms (poolOf rest)
                 some ({ obj := .buf m, pos := 0 }, "ok" ++ bstat m)
    | none => some (s, "bad-op")
  | _ => match s.obj with
    | .ring b => stepRing s b ws
    | .buf m => stepBuf s m ws

def main : IO Unit := loop (fun _ => ({ obj := .ring ⟨none, RbPool.empty⟩, pos := 0 } : St)) step

end Gnet.Driver.ElasticD
