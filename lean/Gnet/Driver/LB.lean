import Gnet.Driver.Util
import Gnet.Model.LB
import Gnet.Proofs.LB
namespace Gnet.Driver.LBD
open Gnet

structure St where
  kind : String
  lb : LB

def step (s : St) (ws : List String) : Option (St × String) :=
  let bad : Option (St × String) := some (s, "bad-op")
  match ws with
  | ["newlb", kind, n] => match n.toNat? with
    | some n => some ({ kind, lb := ⟨List.replicate n 0, 0⟩ }, s!"ok len={n}")
    | none => bad
  | ["setrr", v] => match v.toNat? with
    | some v => some ({ s with lb := { s.lb with nextIndex := BitVec.ofNat 64 v } }, "ok")
    | none => bad
  | ["addcount", i, d] => match i.toNat?, parseInt d with
    | some i, some d =>
      let c := s.lb.counts.getD i 0 + d
      some ({ s with lb := { s.lb with counts := s.lb.counts.set i c } }, s!"count={c}")
    | _, _ => bad
  | ["lcrun", k] => match k.toNat? with
    | some k =>
      if s.kind = "lc" then
        if s.lb.size = 0 ∧ 0 < k then none
        else
          let lb' := Proofs.LB.lcRun s.lb k      -- the function `lc_run_balanced` is about
          some ({ s with lb := lb' }, s!"counts={lb'.counts}")
      else bad
    | none => bad
  | ["next", h] => match bytesOfHex h with
    | some bs =>
      let addr := bs.map (fun b => UInt8.ofNat b)
      if s.kind = "rr" then
        match s.lb.rrNext with
        | some (i, lb') => some ({ s with lb := lb' }, s!"idx={i}")
        | none => none
      else if s.kind = "lc" then
        match s.lb.lcNext with | some i => some (s, s!"idx={i}") | none => none
      else
        match s.lb.hashNext addr with | some i => some (s, s!"idx={i}") | none => none
    | none => bad
  | _ => bad

def main : IO Unit := loop (fun _ => ({ kind := "rr", lb := ⟨[], 0⟩ } : St)) step

end Gnet.Driver.LBD
