/-
  Lean definitions of the `math/bits` functions the translated code calls (trusted base:
  they are taken to be what Go's `bits.Len`, `bits.Len32` compute).
-/
namespace Gnet

/-- minimum number of bits needed to represent `n`; `0` for `n = 0` -/
def bitLen (n : Nat) : Nat := if n = 0 then 0 else Nat.log2 n + 1

/-- `bits.Len(uint)` as an `int` -/
def bitsLen64 (x : BitVec 64) : BitVec 64 := BitVec.ofNat 64 (bitLen x.toNat)

/-- `bits.Len32(uint32)` as an `int` -/
def bitsLen32 (x : BitVec 32) : BitVec 64 := BitVec.ofNat 64 (bitLen x.toNat)

end Gnet
