/-
  Shared vocabulary of the gnet models: error enum, reader/writer scripts, Go's `copy`.
  Core Lean only (no Mathlib) so that the driver links as a native executable.
-/
namespace Gnet

/-- The small error enum all drivers canonicalise Go errors to. -/
inductive Err where
  | nil | eof | shortBuffer | shortWrite | isEmpty | closed | other (tag : Nat)
  deriving DecidableEq, Repr, Inhabited

def Err.toStr : Err → String
  | .nil => "nil" | .eof => "eof" | .shortBuffer => "shortbuffer" | .shortWrite => "shortwrite"
  | .isEmpty => "isempty" | .closed => "closed" | .other t => s!"other{t}"

def Err.parse (s : String) : Option Err :=
  match s with
  | "nil" => some .nil | "eof" => some .eof | "shortbuffer" => some .shortBuffer
  | "shortwrite" => some .shortWrite | "isempty" => some .isEmpty | "closed" => some .closed
  | _ => if s.startsWith "other" then (s.drop 5).toNat?.map Err.other else none

/-- One step of a scripted `io.Reader`: asked for `len` bytes it delivers `min k len` fresh
    bytes together with `err`. A script that has run out answers `(0, EOF)`. -/
structure RStep where
  k : Nat
  err : Err
  deriving DecidableEq, Repr, Inhabited

/-- One step of a scripted `io.Writer`: offered `len` bytes it accepts `min k len` of them and
    returns `err`. A script that has run out accepts nothing and fails (`other 0`). -/
structure WStep where
  k : Nat
  err : Err
  deriving DecidableEq, Repr, Inhabited

/-- Go's `copy(dst[off:], src)` on an immutable list: the first
    `min src.length (dst.length - off)` elements of `src` overwrite `dst` from `off`. -/
def blit {α} (dst : List α) (off : Nat) (src : List α) : List α :=
  dst.take off ++ src.take (dst.length - off) ++ dst.drop (off + min src.length (dst.length - off))

/-- Number of elements `copy(dst[off:], src)` moves. -/
def blitCount {α} (dst : List α) (off : Nat) (src : List α) : Nat :=
  min src.length (dst.length - off)

/-- smallest power of two `≥ max n 2` (specification of `math.CeilToPowerOfTwo`, tied to the
    generated `BitVec 64` definition in `Props/C20`). -/
def ceilPow2 (n : Nat) : Nat := if n ≤ 2 then 2 else 2 ^ (Nat.log2 (n - 1) + 1)

end Gnet
