/-
  Why the ORDER of the calls in the drain-and-abort protocol matters (Model/Drain.lean has the order the code uses).
  The same protocol with the order of two pairs of steps as a parameter:

    storeFirst : abortPending does  exited.Store(true)  before  Poller.Drain      (the code: true)
    handFirst  : a producer does    Trigger(.., el.register, ..)  before  exited.Load()   (the code: true)

  With both flags set this is Model/Drain.lean (theorem `embeds` in Proofs/DrainOrder.lean); with either flag cleared a
  registration can be stranded (the two witnesses in Props/C07.lean). The order that the source has is extracted on every
  run (Gen/Facts.lean `protocolSites`) and compared with the order of the model (Props/C07.lean
  `drain_protocol_followed`).
-/
import Gnet.Model.Drain
namespace Gnet.DrainOrder

structure Order where
  storeFirst : Bool
  handFirst : Bool
  deriving DecidableEq, Repr

def asCoded : Order := { storeFirst := true, handFirst := true }

inductive LoopPc where
  | polling | leaving | draining
  | storing     -- only when the drain comes first: the queue was found empty, `exited` not yet stored
  | done
  deriving DecidableEq, Repr

inductive ProdPc where
  | idle
  | loaded (saw : Bool)   -- only when the load comes first: the value of `exited` it saw
  | enqueued
  | draining
  deriving DecidableEq, Repr

structure State where
  loop : LoopPc := .polling
  exited : Bool := false
  queue : List Nat := []
  prods : List ProdPc
  next : Nat := 0
  ran : List Nat := []
  aborted : List Nat := []
  deriving Repr

def init (nprod : Nat) : State := { prods := List.replicate nprod .idle }

def setProd (s : State) (p : Nat) (pc : ProdPc) : State := { s with prods := s.prods.set p pc }

def step (o : Order) (s : State) : Drain.Step → State
  | .loopRun =>
    if s.loop = .polling then
      match s.queue with
      | t :: q => { s with queue := q, ran := s.ran ++ [t] }
      | [] => s
    else s
  | .loopLeave => if s.loop = .polling then { s with loop := .leaving } else s
  | .loopSetExited =>
    if s.loop = .leaving then { s with loop := .draining, exited := o.storeFirst || s.exited }
    else if s.loop = .storing then { s with loop := .done, exited := true }
    else s
  | .loopDrain =>
    if s.loop = .draining then
      match s.queue with
      | t :: q => { s with queue := q, aborted := s.aborted ++ [t] }
      | [] => { s with loop := if o.storeFirst then .done else .storing }
    else s
  | .enqueue p =>
    if o.handFirst then
      if s.prods[p]? = some .idle then
        { setProd s p .enqueued with queue := s.queue ++ [s.next], next := s.next + 1 }
      else s
    else
      match s.prods[p]? with
      | some (.loaded saw) =>
        { setProd s p (if saw then .draining else .idle) with queue := s.queue ++ [s.next], next := s.next + 1 }
      | _ => s
  | .load p =>
    if o.handFirst then
      if s.prods[p]? = some .enqueued then setProd s p (if s.exited then .draining else .idle) else s
    else
      if s.prods[p]? = some .idle then setProd s p (.loaded s.exited) else s
  | .prodDrain p =>
    if s.prods[p]? = some .draining then
      match s.queue with
      | t :: q => { s with queue := q, aborted := s.aborted ++ [t] }
      | [] => setProd s p .idle
    else s

def run (o : Order) (s : State) : List Drain.Step → State
  | [] => s
  | a :: rest => run o (step o s a) rest

def Quiescent (s : State) : Bool := s.loop == .done && s.prods.all (· == .idle)

/-- the embedding of the states of Model/Drain.lean -/
def embLoop : Drain.LoopPc → LoopPc
  | .polling => .polling | .leaving => .leaving | .draining => .draining | .done => .done

def embProd : Drain.ProdPc → ProdPc
  | .idle => .idle | .enqueued => .enqueued | .draining => .draining

def emb (s : Drain.State) : State :=
  { loop := embLoop s.loop, exited := s.exited, queue := s.queue, prods := s.prods.map embProd,
    next := s.next, ran := s.ran, aborted := s.aborted }

/-- what "the source follows the protocol" means for the table of protocol events extracted from the source
    (Gen/Facts.lean `protocolSites`: file, function, events in source order) -/
def eventsOf (t : List (String × String × List String)) (fn : String) : List (List String) :=
  (t.filter (fun e => e.2.1 == fn)).map (·.2.2)

/-- hand, then one or more loads, then abort (nothing of the protocol before the hand-over) -/
def producerShape (evs : List String) : Bool :=
  match evs with
  | "hand" :: "load" :: rest => rest.dropWhile (· == "load") == ["abort"]
  | _ => false

def followed (t : List (String × String × List String)) : Bool :=
  -- abortPending: store, then drain - and it exists
  eventsOf t "*eventloop.abortPending" == [["store", "drain"]] &&
  -- closeConns ends with the abort - and it exists
  eventsOf t "*eventloop.closeConns" == [["abort"]] &&
  -- every function that hands a registration over re-checks afterwards and aborts
  t.all (fun e => !e.2.2.contains "hand" || producerShape e.2.2) &&
  -- the three producers are there
  (eventsOf t "*eventloop.accept0").length == 1 && (eventsOf t "*eventloop.enroll").length == 1 &&
  (eventsOf t "*Client.EnrollContext").length == 1 &&
  -- nobody else stores or drains, nobody clears the flag
  t.all (fun e => e.2.1 == "*eventloop.abortPending" ||
    !(e.2.2.contains "store" || e.2.2.contains "drain" || e.2.2.contains "store-other")) &&
  -- every loop that serves connections closes them (and so aborts) after it has left Polling, in both reactor flavours
  t.all (fun e => !(e.2.1 == "*eventloop.orbit" || e.2.1 == "*eventloop.run") ||
    e.2.2 == ["polling", "closeConns", "shutdown"]) &&
  (eventsOf t "*eventloop.orbit").length == 2 && (eventsOf t "*eventloop.run").length == 2

end Gnet.DrainOrder
