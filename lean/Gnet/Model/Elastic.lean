/-
  Executable model of `pkg/buffer/elastic`: `elastic.RingBuffer` (a lazily allocated, pooled
  ring) and `elastic.Buffer` (ring + linked list), composed from the C09 / C11 models, and of
  the ring-buffer pool as far as it is observable (capacities of recycled rings).
-/
import Gnet.Model.Ring
import Gnet.Model.LinkedList
import Gnet.Spec.ElasticFifo

namespace Gnet

/-- the ring-buffer pool as one goroutine on one P sees it: `sync.Pool`'s private slot and
    the LIFO shared list. An entry is the capacity of a (reset, hence empty) ring. -/
structure RbPool where
  priv : Option Nat
  shared : List Nat
  deriving Repr, DecidableEq

namespace RbPool
def empty : RbPool := ⟨none, []⟩
def put (p : RbPool) (cap : Nat) : RbPool :=
  match p.priv with
  | none => { p with priv := some cap }
  | some _ => { p with shared := cap :: p.shared }
/-- `Get`: a recycled ring's capacity, or `none` (a new ring of the default size 0) -/
def get (p : RbPool) : Option Nat × RbPool :=
  match p.priv with
  | some c => (some c, { p with priv := none })
  | none => match p.shared with
    | c :: rest => (some c, { p with shared := rest })
    | [] => (none, p)
end RbPool

/-- `elastic.RingBuffer` together with the pool it draws from -/
structure ERing (α : Type) where
  rb : Option (Ring α)
  pool : RbPool
  deriving Repr

namespace ERing
variable {α : Type} [Inhabited α]

/-- a ring as it comes out of the pool: reset, arbitrary old content -/
def pooled (cap : Nat) : Ring α := { buf := List.replicate cap default, size := cap, r := 0, w := 0, isEmpty := true }

/-- `instance()` -/
def inst (b : ERing α) : Ring α × ERing α :=
  match b.rb with
  | some r => (r, b)
  | none =>
    match b.pool.get with
    | (some c, p') => (pooled c, { rb := some (pooled c), pool := p' })
    | (none, p') => (Ring.new 0, { rb := some (Ring.new 0), pool := p' })

/-- `Done()` -/
def doneAll (b : ERing α) : ERing α :=
  match b.rb with
  | some r => { rb := none, pool := b.pool.put r.cap }
  | none => b

/-- `done()` -/
def done (b : ERing α) : ERing α :=
  match b.rb with
  | some r => if r.isEmpty then { rb := none, pool := b.pool.put r.cap } else b
  | none => b

def setRb (b : ERing α) (r : Ring α) : ERing α := { b with rb := some r }

def peek (b : ERing α) (n : Int) : List α × List α :=
  match b.rb with
  | none => ([], [])
  | some r => r.peek n

def discard (b : ERing α) (n : Int) : ERing α × Nat × Err :=
  match b.rb with
  | none => (b, 0, .isEmpty)
  | some r => let (r', d) := r.discard n; ((b.setRb r').done, d, .nil)

def read (b : ERing α) (n : Nat) : ERing α × List α × Err :=
  match b.rb with
  | none => (b, [], .isEmpty)
  | some r => let (r', d, e) := r.read n; ((b.setRb r').done, d, e)

def readByte (b : ERing α) : ERing α × Option α × Err :=
  match b.rb with
  | none => (b, none, .isEmpty)
  | some r => let (r', x, e) := r.readByte; ((b.setRb r').done, x, e)

def write (b : ERing α) (p : List α) : ERing α :=
  if p.length = 0 then b
  else let (r, b') := b.inst; b'.setRb (r.write p)

def writeByte (b : ERing α) (c : α) : ERing α :=
  let (r, b') := b.inst; b'.setRb (r.writeByte c)

def buffered (b : ERing α) : Nat := match b.rb with | none => 0 | some r => r.buffered
def len (b : ERing α) : Nat := match b.rb with | none => 0 | some r => r.len
def cap (b : ERing α) : Nat := match b.rb with | none => 0 | some r => r.cap
def available (b : ERing α) : Nat := match b.rb with | none => 0 | some r => r.available
def bytes (b : ERing α) : List α := match b.rb with | none => [] | some r => r.bytes
def isFull (b : ERing α) : Bool := match b.rb with | none => false | some r => r.isFull
def isEmpty (b : ERing α) : Bool := match b.rb with | none => true | some r => r.isEmpty
def reset (b : ERing α) : ERing α := match b.rb with | none => b | some r => b.setRb r.reset

def readFrom (gen : Nat → α) (b : ERing α) (pos : Nat) (sc : List RStep) : ERing α × Nat × Err × Nat :=
  let (r, b') := b.inst
  let (r', n, e, pos') := r.readFrom gen pos 0 sc
  (b'.setRb r', n, e, pos')

def writeTo (b : ERing α) (sc : List WStep) : ERing α × Nat × Err × List α × List WStep :=
  match b.rb with
  | none => (b, 0, .isEmpty, [], sc)
  | some r =>
    let (r', n, e, sink, rest) := r.writeTo sc
    ((b.setRb r').done, n, e, sink, rest)

def abs (b : ERing α) : List α := match b.rb with | none => [] | some r => r.abs

/-- one operation of `elastic.RingBuffer` on (buffer, reader position). `writev` does not
    exist on the wrapper and is treated as the concatenated `Write`. -/
def step (gen : Nat → α) (s : ERing α × Nat) : ElasticFifo.Op α → (ERing α × Nat) × Fifo.Obs α
  | .write p => ((s.1.write p, s.2), ⟨p.length, .nil, []⟩)
  | .writeByte c => ((s.1.writeByte c, s.2), ⟨1, .nil, []⟩)
  | .writev bs => ((s.1.write bs.flatten, s.2), ⟨bs.flatten.length, .nil, []⟩)
  | .read n => let (b', d, e) := s.1.read n; ((b', s.2), ⟨d.length, e, d⟩)
  | .readByte => let (b', x, e) := s.1.readByte; ((b', s.2), ⟨x.toList.length, e, x.toList⟩)
  | .peek n => let (h, t) := s.1.peek n; (s, ⟨(h ++ t).length, .nil, h ++ t⟩)
  | .discard n => let (b', d, e) := s.1.discard n; ((b', s.2), ⟨d, e, []⟩)
  | .bytes => (s, ⟨s.1.bytes.length, .nil, s.1.bytes⟩)
  | .readFrom sc => let (b', n, e, pos') := s.1.readFrom gen s.2 sc; ((b', pos'), ⟨n, e, []⟩)
  | .writeTo sc => let (b', n, e, sink, _) := s.1.writeTo sc; ((b', s.2), ⟨n, e, sink⟩)
  | .reset _ => ((s.1.reset, s.2), ⟨0, .nil, []⟩)
  | .release => ((s.1.doneAll, s.2), ⟨0, .nil, []⟩)

def run (gen : Nat → α) (s : ERing α × Nat) : List (ElasticFifo.Op α) → (ERing α × Nat) × List (Fifo.Obs α)
  | [] => (s, [])
  | op :: ops => let (s', o) := step gen s op; let (s'', os) := run gen s' ops; (s'', o :: os)

/-- representation invariant: the held ring, if any, is well formed -/
def WF (b : ERing α) : Prop := ∀ r, b.rb = some r → r.WF

end ERing

/-- `elastic.Buffer` -/
structure Elastic (α : Type) where
  maxStatic : Nat
  ring : ERing α
  list : LL α
  deriving Repr

namespace Elastic
variable {α : Type} [Inhabited α]

def maxInt32 : Nat := 2147483647

def new (maxStatic : Nat) (pool : RbPool) : Elastic α := ⟨maxStatic, ⟨none, pool⟩, LL.empty⟩

def buffered (m : Elastic α) : Int := (m.ring.buffered : Int) + m.list.buffered
def isEmpty (m : Elastic α) : Bool := m.ring.isEmpty && m.list.isEmpty

/-- `Read(p)`, `len(p) = n` -/
def read (m : Elastic α) (n : Nat) : Elastic α × List α × Err :=
  let (rg, d, e) := m.ring.read n
  if d.length = n then ({ m with ring := rg }, d, e)
  else
    let (l', d2, e2) := m.list.read (n - d.length)
    ({ m with ring := rg, list := l' }, d ++ d2, e2)

/-- `Peek(n)` -/
def peek (m : Elastic α) (n : Int) : List (List α) × Err :=
  let all := n ≤ 0 ∨ n = (maxInt32 : Int)
  if ¬ all ∧ n > m.buffered then ([], .shortBuffer)
  else
    let nn : Int := if all then maxInt32 else n
    let (h, t) := m.ring.peek nn
    if (m.ring.buffered : Int) = nn then ([h, t], .nil)
    else m.list.peekWithBytes nn [h, t]

/-- `Discard(n)` -/
def discard (m : Elastic α) (n : Int) : Elastic α × Nat × Err :=
  let (rg, d, e) := m.ring.discard n
  if n ≤ d then ({ m with ring := rg }, d, e)
  else
    let (l', d2) := m.list.discard (n - d)
    ({ m with ring := rg, list := l' }, d + d2, .nil)

/-- `Write(p)` -/
def write (m : Elastic α) (p : List α) : Elastic α :=
  if !m.list.isEmpty || m.ring.buffered ≥ m.maxStatic then { m with list := m.list.pushBackCopy p }
  else if m.ring.len ≥ m.maxStatic ∧ p.length > m.ring.available then
    let writable := m.ring.available
    { m with ring := m.ring.write (p.take writable), list := m.list.pushBackCopy (p.drop writable) }
  else { m with ring := m.ring.write p }

/-- first loop of `Writev`; returns ring, list, remaining segments to push to the list -/
def writevLoop (rg : ERing α) (l : LL α) (writable : Nat) : List (List α) → ERing α × LL α × List (List α)
  | [] => (rg, l, [])
  | b :: rest =>
    if b.length > writable then (rg.write (b.take writable), l.pushBackCopy (b.drop writable), rest)
    else writevLoop (rg.write b) l (writable - b.length) rest

/-- `Writev(bs)` -/
def writev (m : Elastic α) (bs : List (List α)) : Elastic α × Nat :=
  let total := (bs.map List.length).sum
  if !m.list.isEmpty || m.ring.buffered ≥ m.maxStatic then
    ({ m with list := bs.foldl (fun l b => l.pushBackCopy b) m.list }, total)
  else
    let writable := if m.ring.len < m.maxStatic then m.maxStatic - m.ring.buffered else m.ring.available
    let (rg, l, rest) := writevLoop m.ring m.list writable bs
    ({ m with ring := rg, list := rest.foldl (fun l b => l.pushBackCopy b) l }, total)

/-- `ReadFrom(r)` -/
def readFrom (gen : Nat → α) (m : Elastic α) (pos : Nat) (sc : List RStep) : Elastic α × Nat × Err × Nat :=
  if !m.list.isEmpty || m.ring.buffered ≥ m.maxStatic then
    let (l', n, e, pos') := m.list.readFrom gen pos 0 sc
    ({ m with list := l' }, n, e, pos')
  else
    let (rg, n, e, pos') := m.ring.readFrom gen pos sc
    ({ m with ring := rg }, n, e, pos')

/-- `WriteTo(w)` -/
def writeTo (m : Elastic α) (sc : List WStep) : Elastic α × Nat × Err × List α :=
  let (rg, n, e, sink, rest) :=
    if m.ring.isEmpty then (m.ring, 0, Err.nil, [], sc) else m.ring.writeTo sc
  if e ≠ .nil then ({ m with ring := rg }, n, e, sink)
  else
    let (l', n2, e2, sink2) := LL.writeToLoop m.list.segs m.list.size m.list.bytes rest 0 []
    ({ m with ring := rg, list := l' }, n + n2, e2, sink ++ sink2)

/-- `Reset(maxStaticBytes)` -/
def reset (m : Elastic α) (maxStatic : Int) : Elastic α :=
  { maxStatic := if maxStatic > 0 then maxStatic.toNat else m.maxStatic,
    ring := m.ring.reset, list := m.list.reset }

/-- `Release()` -/
def release (m : Elastic α) : Elastic α := { m with ring := m.ring.doneAll, list := m.list.reset }

/-- abstract content: the ring's bytes are older than the list's -/
def abs (m : Elastic α) : List α := m.ring.abs ++ m.list.abs

/-- one operation of `elastic.Buffer`. `writeByte`, `readByte`, `bytes` do not exist on the
    mixed buffer and are treated as `Write` of one byte / `Read(1)` / `Peek` of everything. -/
def step (gen : Nat → α) (s : Elastic α × Nat) : ElasticFifo.Op α → (Elastic α × Nat) × Fifo.Obs α
  | .write p => ((s.1.write p, s.2), ⟨p.length, .nil, []⟩)
  | .writeByte c => ((s.1.write [c], s.2), ⟨1, .nil, []⟩)
  | .writev bs => let (m', n) := s.1.writev bs; ((m', s.2), ⟨n, .nil, []⟩)
  | .read n => let (m', d, e) := s.1.read n; ((m', s.2), ⟨d.length, e, d⟩)
  | .readByte => let (m', d, e) := s.1.read 1; ((m', s.2), ⟨d.length, e, d⟩)
  | .peek n => let (ss, e) := s.1.peek n; (s, ⟨ss.flatten.length, e, ss.flatten⟩)
  | .discard n => let (m', d, e) := s.1.discard n; ((m', s.2), ⟨d, e, []⟩)
  | .bytes => let (ss, _) := s.1.peek 0; (s, ⟨ss.flatten.length, .nil, ss.flatten⟩)
  | .readFrom sc => let (m', n, e, pos') := s.1.readFrom gen s.2 sc; ((m', pos'), ⟨n, e, []⟩)
  | .writeTo sc => let (m', n, e, sink) := s.1.writeTo sc; ((m', s.2), ⟨n, e, sink⟩)
  | .reset ms => ((s.1.reset ms, s.2), ⟨0, .nil, []⟩)
  | .release => ((s.1.release, s.2), ⟨0, .nil, []⟩)

def run (gen : Nat → α) (s : Elastic α × Nat) : List (ElasticFifo.Op α) → (Elastic α × Nat) × List (Fifo.Obs α)
  | [] => (s, [])
  | op :: ops => let (s', o) := step gen s op; let (s'', os) := run gen s' ops; (s'', o :: os)

/-- representation invariant -/
structure WF (m : Elastic α) : Prop where
  ring : m.ring.WF
  list : m.list.WF

end Elastic
end Gnet
