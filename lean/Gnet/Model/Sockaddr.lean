/-
  Model of `pkg/socket/sockaddr.go`: conversion between net.Addr forms and kernel socket
  addresses. `net.IP.To4/To16`, the interface table (name <-> index) are modelled; the table
  is a parameter (a finite list of (name, index) pairs).
-/
namespace Gnet.Sockaddr

abbrev IP := List Nat            -- bytes; length 4, 16 or anything else (invalid); [] with isNil = nil slice

inductive SA where
  | inet4 (port : Int) (addr : List Nat)                 -- addr : 4 bytes
  | inet6 (port : Int) (zoneId : Nat) (addr : List Nat)  -- addr : 16 bytes
  | unix (name : String)
  deriving Repr, DecidableEq

structure NetAddr where                                   -- net.TCPAddr / net.UDPAddr
  ip : IP
  port : Int
  zone : String
  deriving Repr, DecidableEq

abbrev IfTable := List (String × Nat)

def v4InV6Prefix : List Nat := [0, 0, 0, 0, 0, 0, 0, 0, 0, 0, 255, 255]

/-- `net.IP.To4` -/
def to4 (ip : IP) : Option IP :=
  if ip.length = 4 then some ip
  else if ip.length = 16 ∧ ip.take 12 = v4InV6Prefix then some (ip.drop 12)
  else none

/-- `net.IP.To16` -/
def to16 (ip : IP) : Option IP :=
  if ip.length = 4 then some (v4InV6Prefix ++ ip)
  else if ip.length = 16 then some ip
  else none

/-- `net.IP.Equal` -/
def ipEqual (a b : IP) : Bool :=
  if a.length = b.length then a == b
  else if a.length = 4 ∧ b.length = 16 then b.take 12 == v4InV6Prefix && b.drop 12 == a
  else if a.length = 16 ∧ b.length = 4 then a.take 12 == v4InV6Prefix && a.drop 12 == b
  else false

def big : Nat := 0xFFFFFF

/-- `dtoi(s, 0)`: leading decimal digits; `(0, false)` if none or if the number reaches `big` -/
def dtoiLoop : List Char → Nat → Nat → Nat × Nat × Bool
  | [], n, i => (n, i, true)
  | c :: rest, n, i =>
    if '0' ≤ c ∧ c ≤ '9' then
      let n' := n * 10 + (c.toNat - '0'.toNat)
      if n' ≥ big then (0, i, false) else dtoiLoop rest n' (i + 1)
    else (n, i, true)

def dtoi (s : String) : Nat × Bool :=
  let (n, i, ok) := dtoiLoop s.toList 0 0
  if ¬ ok then (0, false) else if i = 0 then (0, false) else (n, true)

/-- decimal digits of `v`, most significant first (`itod`; "0" for 0) -/
def itodDigits : Nat → Nat → List Char
  | 0, _ => []
  | fuel + 1, v => if v = 0 then [] else itodDigits fuel (v / 10) ++ [Char.ofNat (v % 10 + '0'.toNat)]

def itod (v : Nat) : String := if v = 0 then "0" else String.ofList (itodDigits 32 v)

/-- `ip6ZoneToInt` -/
def zoneToInt (ifs : IfTable) (zone : String) : Nat :=
  if zone = "" then 0
  else match ifs.find? (·.1 == zone) with
    | some (_, idx) => idx
    | none => (dtoi zone).1

/-- `ip6ZoneToString` -/
def zoneToString (ifs : IfTable) (zone : Nat) : String :=
  if zone = 0 then ""
  else match ifs.find? (·.2 == zone) with
    | some (name, _) => name
    | none => itod zone

/-- `IPToSockaddr(ip, port, zone)`; `isNil` distinguishes a nil slice from an empty one -/
def ipToSockaddr (ifs : IfTable) (ip : IP) (isNil : Bool) (port : Int) (zone : String) : Option SA :=
  if isNil then
    if zone ≠ "" then some (.inet6 port (zoneToInt ifs zone % 2 ^ 32) (List.replicate 16 0))
    else some (.inet4 port (List.replicate 4 0))
  else
    match to4 ip with
    | some ip4 => if zone = "" then some (.inet4 port ip4)
                  else (to16 ip).map fun ip6 => .inet6 port (zoneToInt ifs zone % 2 ^ 32) ip6
    | none => (to16 ip).map fun ip6 => .inet6 port (zoneToInt ifs zone % 2 ^ 32) ip6

/-- `SockaddrToTCPOrUnixAddr` / `SockaddrToUDPAddr` for the inet cases -/
def sockaddrToNetAddr (ifs : IfTable) : SA → Option NetAddr
  | .inet4 port addr => some ⟨addr, port, ""⟩
  | .inet6 port zone addr => some ⟨addr, port, zoneToString ifs zone⟩
  | .unix _ => none

/-- `UnixAddrToSockaddr` as seen through `NetAddrToSockaddr`: the three Unix-domain networks convert (the name is
    kept as it is), every other network yields nil -/
def unixNetworks : List String := ["unix", "unixgram", "unixpacket"]

def unixAddrToSockaddr (network name : String) : Option SA :=
  if network ∈ unixNetworks then some (.unix name) else none

/-- `SockaddrToTCPOrUnixAddr` for the Unix case: the name -/
def sockaddrToUnixName : SA → Option String
  | .unix n => some n
  | _ => none

end Gnet.Sockaddr
