/-
  Model of `pkg/pool/byteslice/byteslice.go` over an abstract memory of allocations.
  A slice is (allocation, offset, len, cap). The pool keeps, per size class, the base pointers
  it was given (`unsafe.SliceData`); `sync.Pool`'s freedom (return any stored item or nothing,
  drop items at a collection) appears as explicit choices in the operations.
  The size-class function is the GENERATED `Gen.bsIndex`.
-/
import Gnet.Gen.Arith
namespace Gnet

structure Slice where
  alloc : Nat
  off : Nat
  len : Nat
  cap : Nat
  deriving Repr, DecidableEq

/-- a stored base pointer, tagged by the `Put` that stored it -/
structure Stored where
  tag : Nat
  alloc : Nat
  off : Nat
  deriving Repr, DecidableEq

structure BsPool where
  bags : Nat → List Stored        -- size class -> stored pointers
  allocs : List Nat               -- size of allocation i (fresh id = length)
  out : List Slice                -- slices handed out and not yet returned (ghost state)

namespace BsPool

def maxInt32 : Nat := 2147483647

def init : BsPool := ⟨fun _ => [], [], []⟩

/-- `index(uint32(size))` -/
def classOf (size : Nat) : Nat :=
  match Gen.bsIndex (BitVec.ofNat 32 size) with
  | some i => i.toNat
  | none => 0

/-- the class `Put` files a capacity under -/
def putClass (cap : Nat) : Nat :=
  let idx := classOf cap
  if cap ≠ 2 ^ idx then idx - 1 else idx

/-- `Get(size)`; `choice` = tag of the stored pointer `sync.Pool` hands back, or `none` for a miss.
    Returns `none` for the slice when Go returns `nil`. -/
def get (p : BsPool) (size : Int) (choice : Option Nat) : BsPool × Option Slice :=
  if size ≤ 0 then (p, none)
  else
    let n := size.toNat
    if n > maxInt32 then
      let s : Slice := ⟨p.allocs.length, 0, n, n⟩
      ({ p with allocs := p.allocs ++ [n], out := s :: p.out }, some s)
    else
      let idx := classOf n
      let hit := choice.bind fun t => (p.bags idx).find? (·.tag == t)
      match hit with
      | some st =>
        let s : Slice := ⟨st.alloc, st.off, n, 2 ^ idx⟩
        ({ p with bags := fun i => if i = idx then (p.bags idx).filter (·.tag != st.tag) else p.bags i,
                  out := s :: p.out }, some s)
      | none =>
        let s : Slice := ⟨p.allocs.length, 0, n, 2 ^ idx⟩
        ({ p with allocs := p.allocs ++ [2 ^ idx], out := s :: p.out }, some s)

/-- `Put(buf)` by the `tag`-th operation. The caller gives up the outstanding slice `owner`
    (the slice `buf` was cut from), if any. -/
def put (p : BsPool) (tag : Nat) (buf : Slice) (owner : Option Slice) : BsPool :=
  let p := match owner with | some o => { p with out := p.out.erase o } | none => p
  if buf.cap = 0 ∨ buf.cap > maxInt32 then p
  else
    let idx := putClass buf.cap
    { p with bags := fun i => if i = idx then ⟨tag, buf.alloc, buf.off⟩ :: p.bags idx else p.bags i }

/-- the application allocates `n` bytes outside the pool (`make([]byte, n)`) -/
def foreign (p : BsPool) (n : Nat) : BsPool × Slice :=
  let s : Slice := ⟨p.allocs.length, 0, n, n⟩
  ({ p with allocs := p.allocs ++ [n], out := s :: p.out }, s)

/-- a collection may drop any stored pointers: keep those selected by `keep` -/
def gc (p : BsPool) (keep : Stored → Bool) : BsPool := { p with bags := fun i => (p.bags i).filter keep }

end BsPool
end Gnet
