/-
  The hand-over protocol between the producers of registration tasks (the acceptor, Register / Enroll calls,
  a client's Dial / Enroll) and an event loop that is shutting down, at the granularity of its atomic steps
  (eventloop_unix.go `closeConns` / `abortPending`, acceptor_unix.go `accept0`, `enroll`, client_unix.go
  `EnrollContext`, pkg/netpoll `Poller.Drain`):

    loop:      leaves Polling ... closes its connections; exited.Store(true); Drain: Dequeue until empty; done
    producer:  Trigger = Enqueue(task) [; wake-up]; if exited.Load() { Drain: Dequeue until empty }; done

  A drained registration is aborted (its descriptor is closed, its caller is told). The queue is the MPMC
  lock-free queue of C13: Enqueue and Dequeue are atomic here (linearisable). What has to be shown is that no
  registration is stranded: when the loop and all producers are done, the queue is empty, and every task that was
  ever enqueued was either run by the loop or aborted by somebody - exactly once.
-/
namespace Gnet.Drain

inductive LoopPc where
  | polling        -- runs tasks from the queue
  | leaving        -- has left Polling (sentinel or Shutdown action), closes its connections
  | draining       -- exited = true has been stored, Dequeue until empty
  | done
  deriving DecidableEq, Repr

inductive ProdPc where
  | idle
  | enqueued       -- Enqueue done, exited not yet loaded
  | draining       -- exited was true: Dequeue until empty
  deriving DecidableEq, Repr

structure State where
  loop : LoopPc := .polling
  exited : Bool := false
  queue : List Nat := []            -- registration tasks, oldest first
  prods : List ProdPc               -- one entry per producer
  next : Nat := 0                   -- tasks are numbered in enqueue order
  ran : List Nat := []              -- tasks the loop carried out
  aborted : List Nat := []          -- tasks somebody drained and aborted
  deriving Repr

def init (nprod : Nat) : State := { prods := List.replicate nprod .idle }

inductive Step where
  | loopRun          -- polling: dequeue the oldest task and carry it out
  | loopLeave        -- polling -> leaving
  | loopSetExited    -- leaving -> draining, exited := true
  | loopDrain        -- draining: Dequeue; a task is aborted, an empty queue ends the drain
  | enqueue (p : Nat)
  | load (p : Nat)   -- enqueued: load exited
  | prodDrain (p : Nat)
  deriving Repr

def setProd (s : State) (p : Nat) (pc : ProdPc) : State := { s with prods := s.prods.set p pc }

def step (s : State) : Step → State
  | .loopRun =>
    if s.loop = .polling then
      match s.queue with
      | t :: q => { s with queue := q, ran := s.ran ++ [t] }
      | [] => s
    else s
  | .loopLeave => if s.loop = .polling then { s with loop := .leaving } else s
  | .loopSetExited => if s.loop = .leaving then { s with loop := .draining, exited := true } else s
  | .loopDrain =>
    if s.loop = .draining then
      match s.queue with
      | t :: q => { s with queue := q, aborted := s.aborted ++ [t] }
      | [] => { s with loop := .done }
    else s
  | .enqueue p =>
    if s.prods[p]? = some .idle then
      { setProd s p .enqueued with queue := s.queue ++ [s.next], next := s.next + 1 }
    else s
  | .load p =>
    if s.prods[p]? = some .enqueued then setProd s p (if s.exited then .draining else .idle) else s
  | .prodDrain p =>
    if s.prods[p]? = some .draining then
      match s.queue with
      | t :: q => { s with queue := q, aborted := s.aborted ++ [t] }
      | [] => setProd s p .idle
    else s

def run (s : State) : List Step → State
  | [] => s
  | a :: rest => run (step s a) rest

def Reachable (s : State) : Prop := ∃ n steps, s = run (init n) steps

/-- nobody is going to touch the queue again: the loop is done and every producer is idle -/
def Quiescent (s : State) : Bool := s.loop == .done && s.prods.all (· == .idle)

end Gnet.Drain
