/-
  Small-step model of `pkg/queue/lock_free_queue.go` (Michael-Scott queue without node
  recycling): one transition per atomic operation (`load`, `cas`, `atomic.AddInt32`,
  `atomic.LoadInt32`), any number of threads, each with a program counter and its locals.
  Nodes live in an append-only heap (Go's garbage collector never frees a reachable node,
  so there is no ABA). Ghost state: the abstract queue, the logs of linearised enqueues and
  dequeues, and for a pending Dequeue whether the abstract queue was empty when it read
  `head.next`.
-/
namespace Gnet.Msq

structure Node where
  value : Nat
  next : Option Nat
  deriving Repr, DecidableEq, Inhabited

/-- an operation a thread may start -/
inductive Op where
  | enq (v : Nat)
  | deq
  | len          -- `Length()` / `IsEmpty()`
  deriving Repr, DecidableEq

/-- program counters: the NEXT atomic action of the thread -/
inductive Pc where
  | idle
  | eLoadTail | eLoadNext | eReloadTail | eCasNext | eCasTail | eAdd | eHelpTail
  | dLoadHead | dLoadTail | dLoadNext | dReloadHead | dHelpTail | dCasHead | dSub
  | lLoad
  deriving Repr, DecidableEq, Inhabited

/-- what a completed operation returned -/
inductive Ret where
  | enqDone
  | deqSome (v : Nat)
  | deqNone
  | len (n : Int)
  deriving Repr, DecidableEq

structure Thread where
  pc : Pc := .idle
  node : Nat := 0            -- the node allocated by the current Enqueue
  head : Nat := 0            -- local snapshots (node ids)
  tail : Nat := 0
  next : Option Nat := none
  task : Nat := 0            -- value read from `next.value`
  ghostSawEmpty : Bool := false   -- ghost: abstract queue was empty at this Dequeue's `load(&head.next)`
  ghostRet : Option Nat := none   -- ghost: what the atomic queue returned at the linearisation point
  deriving Repr, DecidableEq, Inhabited

structure State where
  nodes : List Node          -- heap; node 0 is the initial dummy
  head : Nat
  tail : Nat
  length : Int
  threads : List Thread
  -- ghost
  absQ : List Nat            -- the abstract (atomic) queue
  enqLog : List Nat          -- values in the order their enqueues took effect
  deqLog : List Nat          -- values in the order their dequeues took effect
  deriving Repr

def init (nthreads : Nat) : State :=
  { nodes := [⟨0, none⟩], head := 0, tail := 0, length := 0,
    threads := List.replicate nthreads {}, absQ := [], enqLog := [], deqLog := [] }

def nextOf (s : State) (n : Nat) : Option Nat := (s.nodes.getD n default).next
def valueOf (s : State) (n : Nat) : Nat := (s.nodes.getD n default).value

def setThread (s : State) (tid : Nat) (t : Thread) : State := { s with threads := s.threads.set tid t }

/-- a thread that is idle starts an operation (a local step: allocation of the new node
    for an enqueue, no shared access) -/
def start (s : State) (tid : Nat) (op : Op) : State :=
  match s.threads[tid]? with
  | none => s
  | some t =>
    if t.pc ≠ .idle then s
    else match op with
      | .enq v =>
        let s := { s with nodes := s.nodes ++ [⟨v, none⟩] }
        setThread s tid { t with pc := .eLoadTail, node := s.nodes.length - 1, ghostRet := none }
      | .deq => setThread s tid { t with pc := .dLoadHead, ghostSawEmpty := false, ghostRet := none }
      | .len => setThread s tid { t with pc := .lLoad }

/-- one atomic action of thread `tid`; returns the new state and the operation's result when
    this action completed it -/
def step (s : State) (tid : Nat) : State × Option Ret :=
  match s.threads[tid]? with
  | none => (s, none)
  | some t =>
    match t.pc with
    | .idle => (s, none)
    -- Enqueue
    | .eLoadTail => (setThread s tid { t with tail := s.tail, pc := .eLoadNext }, none)
    | .eLoadNext => (setThread s tid { t with next := nextOf s t.tail, pc := .eReloadTail }, none)
    | .eReloadTail =>
      if t.tail = s.tail then
        match t.next with
        | none => (setThread s tid { t with pc := .eCasNext }, none)
        | some _ => (setThread s tid { t with pc := .eHelpTail }, none)
      else (setThread s tid { t with pc := .eLoadTail }, none)
    | .eCasNext =>
      -- cas(&tail.next, next (= nil), n)
      if nextOf s t.tail = none then
        let nd := s.nodes.getD t.tail default
        let v := valueOf s t.node
        let s := { s with nodes := s.nodes.set t.tail { nd with next := some t.node },
                          absQ := s.absQ ++ [v], enqLog := s.enqLog ++ [v] }   -- linearisation point
        (setThread s tid { t with pc := .eCasTail }, none)
      else (setThread s tid { t with pc := .eLoadTail }, none)
    | .eCasTail =>
      let s := if s.tail = t.tail then { s with tail := t.node } else s
      (setThread s tid { t with pc := .eAdd }, none)
    | .eAdd =>
      let s := { s with length := s.length + 1 }
      (setThread s tid { t with pc := .idle }, some .enqDone)
    | .eHelpTail =>
      let s := match t.next with
        | some nx => if s.tail = t.tail then { s with tail := nx } else s
        | none => s
      (setThread s tid { t with pc := .eLoadTail }, none)
    -- Dequeue
    | .dLoadHead => (setThread s tid { t with head := s.head, pc := .dLoadTail }, none)
    | .dLoadTail => (setThread s tid { t with tail := s.tail, pc := .dLoadNext }, none)
    | .dLoadNext =>
      (setThread s tid { t with next := nextOf s t.head, pc := .dReloadHead,
                                ghostSawEmpty := s.absQ.isEmpty }, none)
    | .dReloadHead =>
      if t.head = s.head then
        if t.head = t.tail then
          match t.next with
          | none => (setThread s tid { t with pc := .idle }, some .deqNone)
          | some _ => (setThread s tid { t with pc := .dHelpTail }, none)
        else
          match t.next with
          | some nx => (setThread s tid { t with task := valueOf s nx, pc := .dCasHead }, none)
          | none => (setThread s tid { t with pc := .idle }, none)   -- nil dereference: Go would panic
      else (setThread s tid { t with pc := .dLoadHead }, none)
    | .dHelpTail =>
      let s := match t.next with
        | some nx => if s.tail = t.tail then { s with tail := nx } else s
        | none => s
      (setThread s tid { t with pc := .dLoadHead }, none)
    | .dCasHead =>
      match t.next with
      | some nx =>
        if s.head = t.head then
          let s := { s with head := nx, deqLog := s.deqLog ++ s.absQ.take 1 }   -- linearisation point
          let r := s.absQ.head?
          let s := { s with absQ := s.absQ.drop 1 }
          (setThread s tid { t with pc := .dSub, ghostRet := r }, none)
        else (setThread s tid { t with pc := .dLoadHead }, none)
      | none => (setThread s tid { t with pc := .idle }, none)
    | .dSub =>
      let s := { s with length := s.length - 1 }
      (setThread s tid { t with pc := .idle }, some (.deqSome t.task))
    -- Length / IsEmpty
    | .lLoad => (setThread s tid { t with pc := .idle }, some (.len s.length))

/-- the chain of linked nodes starting at `n` (fuel bounds the walk) -/
def chainFrom (s : State) : Nat → Nat → List Nat
  | 0, _ => []
  | fuel + 1, n => n :: (match nextOf s n with | none => [] | some m => chainFrom s fuel m)

def chain (s : State) : List Nat := chainFrom s s.nodes.length 0

/-- position of a node in the chain (chain length if absent) -/
def posOf (s : State) (n : Nat) : Nat := (chain s).findIdx (· == n)

/-- a schedule event: a thread starts an operation or performs its next atomic action -/
inductive Ev where
  | start (tid : Nat) (op : Op)
  | step (tid : Nat)
  deriving Repr

def apply (s : State) : Ev → State
  | .start tid op => start s tid op
  | .step tid => (step s tid).1

def runEvs (s : State) : List Ev → State
  | [] => s
  | e :: es => runEvs (apply s e) es

/-- reachable states: any finite schedule from the initial state, any number of threads -/
def Reachable (s : State) : Prop := ∃ n evs, s = runEvs (init n) evs

end Gnet.Msq
