/-
  Model of `internal/gfd`: the 16-byte connection identifier
  |el 1 byte|row 1 byte|column 2 bytes|sequence 4 bytes|fd 8 bytes|, big endian,
  with the offsets taken from the source (Facts).
-/
import Gnet.Gen.Facts
namespace Gnet

abbrev GFD := List (BitVec 8)

namespace GFD
def colOff : Nat := Facts.gfdColumnOffset
def seqOff : Nat := Facts.gfdSequenceOffset
def fdOff : Nat := Facts.gfdFdOffset

/-- `binary.BigEndian.PutUintN(g[off:], v)` for an `n`-byte field -/
def putBE (g : GFD) (off n : Nat) (v : Nat) : GFD :=
  (List.range n).foldl (fun g i => g.set (off + i) (BitVec.ofNat 8 (v / 256 ^ (n - 1 - i)))) g

/-- `binary.BigEndian.UintN(g[off:])` -/
def getBE (g : GFD) (off n : Nat) : Nat :=
  (List.range n).foldl (fun acc i => acc * 256 + (g.getD (off + i) 0).toNat) 0

/-- `NewGFD(fd, elIndex, row, column)` with sequence number `seq` -/
def new (fd : BitVec 64) (el row col : BitVec 64) (seq : BitVec 32) : GFD :=
  let g : GFD := List.replicate 16 0
  let g := g.set 0 (el.setWidth 8)
  let g := g.set 1 (row.setWidth 8)
  let g := putBE g colOff 2 (col.setWidth 16).toNat
  let g := putBE g seqOff 4 seq.toNat
  putBE g fdOff 8 fd.toNat

def fd (g : GFD) : BitVec 64 := BitVec.ofNat 64 (getBE g fdOff 8)
def eventLoopIndex (g : GFD) : BitVec 64 := (g.getD 0 0).setWidth 64
def row (g : GFD) : BitVec 64 := (g.getD 1 0).setWidth 64
def column (g : GFD) : BitVec 64 := BitVec.ofNat 64 (getBE g colOff 2)
def sequence (g : GFD) : BitVec 32 := BitVec.ofNat 32 (getBE g seqOff 4)

/-- `UpdateIndexes(row, column)` -/
def updateIndexes (g : GFD) (row col : BitVec 64) : GFD :=
  let g := g.set 1 (row.setWidth 8)
  putBE g colOff 2 (col.setWidth 16).toNat

end GFD
end Gnet
