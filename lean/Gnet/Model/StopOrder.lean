/-
  The order of the statements of `engine.stop` / `Client.Stop` (engine_unix.go, client_unix.go) and the order in which
  the stopper of Model/Engine.lean executes them. The call sequence of the two functions is extracted from the current
  source on every run (Gen/Facts.lean `stopSites`); Props/C06.lean demands that it is the order of the model.
-/
import Gnet.Model.Engine
namespace Gnet.StopOrder
open Gnet.Engine

/-- which statement of the stopper a call of `engine.stop` / `Client.Stop` belongs to -/
def pcOfCall : String → Option StopPc
  | "Done" => some .waitCtx            -- <-ctx.Done()
  | "shutdown" => some .waitCtx        -- Client.Stop cancels the context itself instead of waiting for it
  | "OnShutdown" => some .onShutdown
  | "Trigger" => some .postSentinels   -- the shutdown task for every loop (and the acceptor)
  | "iterate" => some .postSentinels
  | "Wait" => some .waitGroup
  | "closeEventLoops" => some .closeLoops
  | "Store" => some .setFlag           -- inShutdown.Store(true)
  | _ => none

/-- consecutive repetitions count once -/
def squeeze : List (Option StopPc) → List (Option StopPc)
  | a :: b :: rest => if a = b then squeeze (b :: rest) else a :: squeeze (b :: rest)
  | l => l

/-- the order of the model: what the stopper does, statement by statement -/
def order : List StopPc := [.waitCtx, .onShutdown, .postSentinels, .waitGroup, .closeLoops, .setFlag]

def followed (t : List (String × List String)) : Bool :=
  t.length == 2 &&
  t.all (fun e => squeeze (e.2.map pcOfCall) == order.map some) &&
  (t.map (·.1)) == ["*engine.stop", "*Client.Stop"]

/-- the program counter of the stopper after k of its steps -/
def pcAfter (s : State) (k : Nat) : StopPc := (run s (List.replicate k .stopper)).stopPc

end Gnet.StopOrder
