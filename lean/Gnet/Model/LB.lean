/-
  Executable model of `load_balancer.go`: the three `next` functions over `n` registered
  loops with per-loop connection counts. CRC-32 (IEEE) is implemented bitwise.
-/
namespace Gnet

namespace Crc32
def poly : UInt32 := 0xEDB88320

def stepBit (crc : UInt32) : UInt32 := if crc &&& 1 = 1 then (crc >>> 1) ^^^ poly else crc >>> 1

def stepByte (crc : UInt32) (b : UInt8) : UInt32 :=
  let c := crc ^^^ b.toUInt32
  stepBit (stepBit (stepBit (stepBit (stepBit (stepBit (stepBit (stepBit c)))))))

/-- `crc32.ChecksumIEEE` -/
def checksum (bs : List UInt8) : UInt32 := (bs.foldl stepByte 0xFFFFFFFF) ^^^ 0xFFFFFFFF
end Crc32

structure LB where
  counts : List Int          -- connection count of each registered loop, in registration order
  nextIndex : BitVec 64      -- round-robin counter (`uint64`)
  deriving Repr

namespace LB

def size (lb : LB) : Nat := lb.counts.length

/-- round robin: `eventLoops[nextIndex % size]`, then `nextIndex++`; `none` = division by zero -/
def rrNext (lb : LB) : Option (Nat × LB) :=
  if lb.size = 0 then none
  else some (lb.nextIndex.toNat % lb.size, { lb with nextIndex := lb.nextIndex + 1 })

/-- the scan of least-connections over the loops after the first -/
def lcScan : List Int → Nat → Nat → Int → Nat
  | [], _, best, _ => best
  | c :: rest, i, best, minN => if c < minN then lcScan rest (i + 1) i c else lcScan rest (i + 1) best minN

/-- least connections; `none` = index out of range on an empty list -/
def lcNext (lb : LB) : Option Nat :=
  match lb.counts with
  | [] => none
  | c0 :: rest => some (lcScan rest 1 0 c0)

/-- `hash(s)`: `int(crc32)`, negated if negative (never, with 64-bit ints) -/
def hash (addr : List UInt8) : Int :=
  let v : Int := (Crc32.checksum addr).toNat
  if v ≥ 0 then v else -v

/-- source-address hash -/
def hashNext (lb : LB) (addr : List UInt8) : Option Nat :=
  if lb.size = 0 then none else some ((hash addr).toNat % lb.size)

end LB
end Gnet
