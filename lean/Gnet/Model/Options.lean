/-
  Model of gnet's own part of `parseProtoAddr` (gnet.go) - the dispatch on what `net/url.Parse`
  and `path.Join` return, which are inputs here (modelled, not verified) - and of the
  edge-triggered chunk normalisation of `createListeners` / `NewClient` (the buffer-capacity
  switches and `determineEventLoops` are GENERATED, see Gnet/Gen/Arith.lean).
-/
import Gnet.Gen.Arith
namespace Gnet.Options

inductive ParseResult where
  | ok (scheme : String) (endpoint : String)
  | urlError                  -- the error of url.Parse is passed through
  | invalidAddress            -- errorx.ErrInvalidNetworkAddress
  | unsupportedProtocol       -- errorx.ErrUnsupportedProtocol
  deriving Repr, DecidableEq

/-- what `url.Parse(escaped address)` returned, and `path.Join(u.Host, u.Path)` -/
structure UrlParts where
  err : Bool
  scheme : String
  host : String
  path : String
  joined : String
  deriving Repr

def ipSchemes : List String := ["tcp", "tcp4", "tcp6", "udp", "udp4", "udp6"]

/-- the `switch u.Scheme` of `parseProtoAddr` -/
def dispatch (u : UrlParts) : ParseResult :=
  if u.err then .urlError
  else if u.scheme = "" then .invalidAddress
  else if u.scheme ∈ ipSchemes then
    if u.host = "" ∨ u.path ≠ "" then .invalidAddress else .ok u.scheme u.host
  else if u.scheme = "unix" then
    if u.joined = "" then .invalidAddress else .ok u.scheme u.joined
  else .unsupportedProtocol

/-- `EdgeTriggeredIOChunk` / `EdgeTriggeredIO` after normalisation; `none` = panic -/
def chunkNorm (chunk : BitVec 64) (et : Bool) : Option (BitVec 64 × Bool) :=
  if BitVec.slt 0#64 chunk then (Gen.CeilToPowerOfTwo chunk).map (fun c => (c, true))
  else if et then some (1048576#64, true) else some (chunk, et)

end Gnet.Options
