/-
  Executable model of the part of Go 1.23 `net/url.Parse` and `path.Join` / `path.Clean` that
  gnet's `parseProtoAddr` (gnet.go) depends on, and of `parseProtoAddr` as a whole.

  A Go string is a BYTE string.  It is modelled as `List Char` in which every byte `b` is the
  character with code point `b` (0..255) - the same decoding the model driver uses for the hex
  fields of the line protocol.  No function below interprets UTF-8: Go's `net/url` works on
  bytes, and the two places where it ranges over runes (`validOptionalPort`, `validUserinfo`)
  only accept ASCII, so a byte >= 0x80 is rejected there whatever rune it belongs to.
  Characters >= 0x100 (not bytes) are treated like the bytes 0x80..0xff, so the model is total
  over `List Char` / `String`.

  Only error-or-not, `Scheme`, `Host` and `Path` of the result are kept (`Opaque` URLs have
  `Host = ""` and `Path = ""`); user info, query and fragment are modelled as far as they
  decide error-or-not.  There is NO `unmodelled` case: the model is total.

  Source read: /usr/lib/go-1.23/src/net/url/url.go (Parse, parse, getScheme, parseAuthority,
  parseHost, validOptionalPort, unescape, shouldEscape, setPath, setFragment,
  stringContainsCTLByte, validUserinfo) and /usr/lib/go-1.23/src/path/path.go (Join, Clean).
-/
import Gnet.Model.Options
namespace Gnet.Url

abbrev Bytes := List Char

/-! ## character classes -/

def isLower (c : Char) : Bool := 'a' ≤ c && c ≤ 'z'
def isUpper (c : Char) : Bool := 'A' ≤ c && c ≤ 'Z'
def isAlpha (c : Char) : Bool := isLower c || isUpper c
def isDigit (c : Char) : Bool := '0' ≤ c && c ≤ '9'
def isAlnum (c : Char) : Bool := isAlpha c || isDigit c

/-- `ishex` -/
def isHex (c : Char) : Bool :=
  isDigit c || ('a' ≤ c && c ≤ 'f') || ('A' ≤ c && c ≤ 'F')

/-- `unhex` -/
def unhex (c : Char) : Nat :=
  if isDigit c then c.toNat - 48
  else if 'a' ≤ c && c ≤ 'f' then c.toNat - 97 + 10
  else if 'A' ≤ c && c ≤ 'F' then c.toNat - 65 + 10
  else 0

/-- the `encoding` constants of net/url -/
inductive Mode where
  | path | pathSegment | host | zone | userPassword | queryComponent | fragment
  deriving DecidableEq, Repr

/-- the characters that `shouldEscape` lets through in `encodeHost` / `encodeZone` -/
def hostSubDelim (c : Char) : Bool :=
  c = '!' || c = '$' || c = '&' || c = '\'' || c = '(' || c = ')' || c = '*' || c = '+' ||
  c = ',' || c = ';' || c = '=' || c = ':' || c = '[' || c = ']' || c = '<' || c = '>' || c = '"'

def isMark (c : Char) : Bool := c = '-' || c = '_' || c = '.' || c = '~'

def isReserved (c : Char) : Bool :=
  c = '$' || c = '&' || c = '+' || c = ',' || c = '/' || c = ':' || c = ';' || c = '=' ||
  c = '?' || c = '@'

/-- `shouldEscape(c, mode)` -/
def shouldEscape (c : Char) (m : Mode) : Bool :=
  if isAlnum c then false
  else if (m = .host || m = .zone) && hostSubDelim c then false
  else if isMark c then false
  else if isReserved c && m = .path then c = '?'
  else if isReserved c && m = .pathSegment then c = '/' || c = ';' || c = ',' || c = '?'
  else if isReserved c && m = .userPassword then c = '@' || c = '/' || c = '?' || c = ':'
  else if isReserved c && m = .queryComponent then true
  else if isReserved c && m = .fragment then false
  else if m = .fragment && (c = '!' || c = '(' || c = ')' || c = '*') then false
  else true

/-- the byte a `%ab` triple stands for -/
def pctByte (a b : Char) : Char := Char.ofNat (unhex a * 16 + unhex b)

/-- the checks `unescape` makes on a well-formed `%ab` triple; `true` = EscapeError -/
def pctRejected (m : Mode) (a b : Char) : Bool :=
  (m = .host && unhex a < 8 && !(a = '2' && b = '5')) ||
  (m = .zone && !(a = '2' && b = '5') && pctByte a b ≠ ' ' && shouldEscape (pctByte a b) .host)

/-- `unescape(s, mode)`; `none` = error (EscapeError or InvalidHostError).  Go validates the whole
    string first and decodes afterwards; one pass gives the same answer because decoding cannot
    fail. -/
def unescape (m : Mode) : Bytes → Option Bytes
  | [] => some []
  | c :: rest =>
    if c = '%' then
      match rest with
      | a :: b :: rest' =>
        if isHex a && isHex b then
          if pctRejected m a b then none
          else (unescape m rest').map (pctByte a b :: ·)
        else none
      | _ => none
    else if c = '+' then
      (unescape m rest).map ((if m = .queryComponent then ' ' else '+') :: ·)
    else if (m = .host || m = .zone) && c.toNat < 0x80 && shouldEscape c m then none
    else (unescape m rest).map (c :: ·)

/-! ## getScheme -/

inductive SchemeResult where
  | err                                  -- "missing protocol scheme"
  | ok (scheme rest : Bytes)
  deriving Repr, DecidableEq

/-- the loop of `getScheme`; `pre` = `rawURL[:i]` -/
def getSchemeGo (raw : Bytes) (pre : Bytes) : Bytes → SchemeResult
  | [] => .ok [] raw
  | c :: cs =>
    if isAlpha c then getSchemeGo raw (pre ++ [c]) cs
    else if isDigit c || c = '+' || c = '-' || c = '.' then
      if pre = [] then .ok [] raw else getSchemeGo raw (pre ++ [c]) cs
    else if c = ':' then
      if pre = [] then .err else .ok pre cs
    else .ok [] raw

def getScheme (raw : Bytes) : SchemeResult := getSchemeGo raw [] raw

/-- `strings.ToLower` on a scheme (ASCII letters, digits, `+-.` only) -/
def toLowerAscii (c : Char) : Char := if isUpper c then Char.ofNat (c.toNat + 32) else c

/-! ## parseHost / parseAuthority -/

/-- `validOptionalPort` -/
def validOptionalPort : Bytes → Bool
  | [] => true
  | c :: ds => c = ':' && ds.all isDigit

/-- split at the LAST occurrence of `c` (`strings.LastIndex`): text before, text after -/
def splitLast (c : Char) : Bytes → Option (Bytes × Bytes)
  | [] => none
  | x :: xs =>
    match splitLast c xs with
    | some (a, b) => some (x :: a, b)
    | none => if x = c then some ([], xs) else none

def pct25 : Bytes := ['%', '2', '5']

/-- split at the FIRST occurrence of "%25" (`strings.Index`): text before, text from "%25" on -/
def splitPct25 : Bytes → Option (Bytes × Bytes)
  | [] => none
  | c :: cs =>
    if pct25.isPrefixOf (c :: cs) then some ([], c :: cs)
    else (splitPct25 cs).map (fun ab => (c :: ab.1, ab.2))

/-- `parseHost`; `none` = error -/
def parseHost (host : Bytes) : Option Bytes :=
  if host.head? = some '[' then
    match splitLast ']' host with
    | none => none                                         -- missing ']' in host
    | some (inner, colonPort) =>                           -- inner = host[:i], colonPort = host[i+1:]
      if !validOptionalPort colonPort then none
      else
        match splitPct25 inner with
        | some (h1, z) =>
          match unescape .host h1, unescape .zone z, unescape .host (']' :: colonPort) with
          | some a, some b, some c => some (a ++ b ++ c)
          | _, _, _ => none
        | none => unescape .host host
  else
    match splitLast ':' host with
    | some (_, port) => if port.all isDigit then unescape .host host else none
    | none => unescape .host host

/-- `validUserinfo` -/
def validUserinfoChar (c : Char) : Bool :=
  isAlnum c || c = '-' || c = '.' || c = '_' || c = ':' || c = '~' || c = '!' || c = '$' ||
  c = '&' || c = '\'' || c = '(' || c = ')' || c = '*' || c = '+' || c = ',' || c = ';' ||
  c = '=' || c = '%' || c = '@'

/-- error-or-not of the user-info part of `parseAuthority` (the user itself is not kept) -/
def userinfoOk (ui : Bytes) : Bool :=
  ui.all validUserinfoChar &&
  (if ui.contains ':' then
     (unescape .userPassword (ui.takeWhile (· ≠ ':'))).isSome &&
     (unescape .userPassword ((ui.dropWhile (· ≠ ':')).drop 1)).isSome
   else (unescape .userPassword ui).isSome)

/-- `parseAuthority`, host only; `none` = error -/
def parseAuthority (authority : Bytes) : Option Bytes :=
  match splitLast '@' authority with
  | none => parseHost authority
  | some (ui, h) =>
    match parseHost h with
    | none => none
    | some host => if userinfoOk ui then some host else none

/-! ## parse / Parse -/

inductive UrlResult where
  | error
  | ok (scheme host path : Bytes)
  deriving Repr, DecidableEq

/-- `stringContainsCTLByte` -/
def isCTL (c : Char) : Bool := c.toNat < 0x20 || c.toNat = 0x7f

/-- `parse(rawURL, viaRequest = false)` -/
def parseNoFrag (raw : Bytes) : UrlResult :=
  if raw.any isCTL then .error
  else if raw = ['*'] then .ok [] [] ['*']
  else
    match getScheme raw with
    | .err => .error
    | .ok sch rest0 =>
      let scheme := sch.map toLowerAscii
      -- both branches (`ForceQuery` / `strings.Cut(rest, "?")`) keep the text before the first '?'
      let rest := rest0.takeWhile (· ≠ '?')
      if rest.head? ≠ some '/' ∧ scheme ≠ [] then .ok scheme [] []          -- opaque
      else if rest.head? ≠ some '/' ∧ (rest.takeWhile (· ≠ '/')).contains ':' then .error
      else if ['/', '/'].isPrefixOf rest ∧ (scheme ≠ [] ∨ ¬ ['/', '/', '/'].isPrefixOf rest) then
        let a := rest.drop 2
        match parseAuthority (a.takeWhile (· ≠ '/')) with
        | none => .error
        | some host =>
          match unescape .path (a.dropWhile (· ≠ '/')) with                   -- setPath
          | none => .error
          | some p => .ok scheme host p
      else
        match unescape .path rest with                                        -- setPath
        | none => .error
        | some p => .ok scheme [] p

/-- `url.Parse` -/
def urlParse (raw : Bytes) : UrlResult :=
  let u := raw.takeWhile (· ≠ '#')
  let frag := (raw.dropWhile (· ≠ '#')).drop 1
  match parseNoFrag u with
  | .error => .error
  | r => if frag = [] then r else if (unescape .fragment frag).isSome then r else .error   -- setFragment

/-! ## path.Clean / path.Join -/

/-- split at every '/' (always at least one piece) -/
def splitSlash : Bytes → List Bytes
  | [] => [[]]
  | c :: cs =>
    match splitSlash cs with
    | [] => [[]]                     -- unreachable
    | s :: ss => if c = '/' then [] :: s :: ss else (c :: s) :: ss

def dotdot : Bytes := ['.', '.']

/-- one path element of the loop of `Clean`; `out` = the elements written so far, LAST FIRST.
    ".." elements are only ever written when nothing can be removed, so they form the bottom of
    the stack: "can backtrack" (`out.w > dotdot`) = the top is not "..". -/
def cleanStep (rooted : Bool) (out : List Bytes) (seg : Bytes) : List Bytes :=
  if seg = [] ∨ seg = ['.'] then out
  else if seg = dotdot then
    match out with
    | top :: below => if top = dotdot then dotdot :: out else below
    | [] => if rooted then [] else [dotdot]
  else seg :: out

def joinSlash : List Bytes → Bytes
  | [] => []
  | [s] => s
  | s :: ss => s ++ '/' :: joinSlash ss

/-- `path.Clean` -/
def pathClean (p : Bytes) : Bytes :=
  if p = [] then ['.']
  else
    let rooted := p.head? = some '/'
    let out := ((splitSlash p).foldl (cleanStep rooted) []).reverse
    if rooted then '/' :: joinSlash out
    else if out = [] then ['.'] else joinSlash out

/-- `path.Join(a, b)` -/
def pathJoin2 (a b : Bytes) : Bytes :=
  if a = [] ∧ b = [] then []
  else if a = [] then pathClean b
  else pathClean (a ++ '/' :: b)

/-! ## parseProtoAddr -/

/-- `strings.ReplaceAll(s, "%", "%25")` -/
def escapePercent (s : Bytes) : Bytes := s.flatMap (fun c => if c = '%' then pct25 else [c])

def toParts : UrlResult → Options.UrlParts
  | .error => ⟨true, "", "", "", ""⟩
  | .ok s h p => ⟨false, String.ofList s, String.ofList h, String.ofList p, String.ofList (pathJoin2 h p)⟩

def parseProtoAddrL (addr : Bytes) : Options.ParseResult :=
  Options.dispatch (toParts (urlParse (escapePercent addr)))

/-- gnet's `parseProtoAddr` -/
def parseProtoAddr (addr : String) : Options.ParseResult := parseProtoAddrL addr.toList

/-! ## the well-formed addresses the exactness theorems (Gnet/Props/C16Url.lean) talk about

  All predicates are `Bool`-valued, hence decidable.  They describe a SUBSET of what Go accepts. -/

/-- host names and dotted IPv4: `[a-z0-9.-]` -/
def nameChar (c : Char) : Bool := isLower c || isDigit c || c = '.' || c = '-'
/-- inside an IPv6 literal: `[0-9a-f:]` -/
def hexColonChar (c : Char) : Bool := isDigit c || ('a' ≤ c && c ≤ 'f') || c = ':'
/-- zone identifier: `[a-z0-9-]` (no '.', no upper case) -/
def zoneChar (c : Char) : Bool := isLower c || isDigit c || c = '-'
/-- unix path segment: `[a-z0-9._-]` -/
def segChar (c : Char) : Bool := isLower c || isDigit c || c = '.' || c = '_' || c = '-'

/-- form (a): a non-empty string over `[a-z0-9.-]` -/
def isNameHost (h : Bytes) : Bool := h ≠ [] && h.all nameChar

/-- what is between the first and the last character -/
def inner (h : Bytes) : Bytes := (h.drop 1).dropLast

/-- form (b): `[` hex/colon characters `]`, at least one character inside -/
def isV6Host (h : Bytes) : Bool :=
  h = '[' :: inner h ++ [']'] && inner h ≠ [] && (inner h).all hexColonChar

/-- the part of an IPv6 literal before '%' -/
def v6Addr (h : Bytes) : Bytes := (inner h).takeWhile (· ≠ '%')
/-- the part of an IPv6 literal after the first '%' -/
def v6Zone (h : Bytes) : Bytes := ((inner h).dropWhile (· ≠ '%')).drop 1

/-- form (c): `[` hex/colon characters `%` zone `]`, address and zone non-empty -/
def isV6ZoneHost (h : Bytes) : Bool :=
  h = '[' :: v6Addr h ++ '%' :: v6Zone h ++ [']'] &&
  v6Addr h ≠ [] && (v6Addr h).all hexColonChar && v6Zone h ≠ [] && (v6Zone h).all zoneChar

/-- a host of form (a), (b) or (c) -/
def isIpHost (h : Bytes) : Bool := isNameHost h || isV6Host h || isV6ZoneHost h

/-- 1 to 5 decimal digits -/
def isPort (p : Bytes) : Bool := 1 ≤ p.length && p.length ≤ 5 && p.all isDigit

/-- a scheme-like word: non-empty, lower-case letters only -/
def isLowerWord (s : Bytes) : Bool := s ≠ [] && s.all isLower

/-- a scheme word as gnet uses them: a lower-case letter, then lower-case letters and digits -/
def isSchemeWord (s : Bytes) : Bool :=
  match s with
  | c :: cs => isLower c && cs.all (fun x => isLower x || isDigit x)
  | [] => false

/-- a proper unix path segment: non-empty over `[a-z0-9._-]`, not "." and not ".." -/
def isSegment (s : Bytes) : Bool := s ≠ [] && s.all segChar && s ≠ ['.'] && s ≠ dotdot

/-- proper segments separated by single slashes, no leading and no trailing slash -/
def isRelPath (p : Bytes) : Bool := (splitSlash p).all isSegment

/-- a cleaned unix path, relative or absolute -/
def isCleanPath (p : Bytes) : Bool :=
  match p with
  | c :: q => if c = '/' then isRelPath q else isRelPath p
  | [] => false

/-- any non-empty text over `[a-z0-9._-]` and '/' (may contain ".", "..", doubled slashes) -/
def isPathText (p : Bytes) : Bool := p ≠ [] && p.all (fun c => segChar c || c = '/')

end Gnet.Url
