/-
  Model of the hand-over of accepted connections from the acceptor (main reactor, acceptor_unix.go
  `accept0`) to the sub-reactors (eventloop_unix.go `register`, reactor_default.go `orbit`) and of
  what happens to them when the engine shuts down (engine_unix.go `stop`).

  The task queue of a loop is an abstract FIFO (justified by C13/C03: every triggered task is run
  exactly once, in order, by a loop that keeps running). What this model adds is the part the
  other models leave out: a loop that LEAVES `Polling` (shutdown sentinel, or a callback on that
  loop returning Shutdown) does not look at its queue again, while `Poller.Trigger` keeps
  accepting tasks for it.

  Since the fix "registrations handed to an event loop that has exited are aborted" a loop that leaves Polling
  drains its queue and aborts the registrations in it (closes the descriptor, tells the caller), and whoever hands
  a registration to a loop that has already exited does the same right away. In this model both are atomic with the
  exit / the hand-over; that this is what the interleaved protocol amounts to is the theorem `nothing_stranded` of
  Model/Drain.lean.

  Ghost fields record which loop the load balancer chose for a descriptor and where OnOpen ran.
-/
namespace Gnet.Handover

inductive Task where
  | register (fd : Nat)
  | sentinel
  deriving DecidableEq, Repr

structure Loop where
  running : Bool := true
  queue : List Task := []
  conns : List Nat := []          -- registered (opened) descriptors
  deriving Repr, DecidableEq

structure State where
  loops : List Loop
  acceptorRunning : Bool := true
  ctxCancelled : Bool := false
  sentinelsPosted : Bool := false
  nextFd : Nat := 0
  closed : List Nat := []               -- descriptors the framework closed, in order
  opened : List (Nat × Nat) := []       -- ghost: (fd, loop) for every OnOpen, in order
  assigned : List (Nat × Nat) := []     -- ghost: (fd, loop the load balancer chose)
  enrolled : List Nat := []             -- descriptors created by Register/Enroll calls that were ACCEPTED (returned nil)
  results : List Nat := []              -- enrolled descriptors whose caller has been given its RegisteredResult
  failed : List Nat := []               -- ... those of them whose result was an error (registration aborted)
  inShutdown : Bool := false            -- the flag Register/Enroll look at: set when everything has stopped
  deriving Repr

def init (n : Nat) : State := { loops := List.replicate n {} }

inductive Step where
  | accept (l : Nat)            -- the acceptor accepts a connection, the balancer picks loop l, Trigger(register)
  | exec (l : Nat)              -- loop l runs the task at the head of its queue
  | action (l : Nat)            -- a callback on loop l returns Shutdown: the loop leaves Polling
  | peerClose (l : Nat) (fd : Nat)
  | requestStop                 -- Engine.Stop / Stop / engine.shutdown
  | postSentinels               -- engine.stop: Trigger(shutdown sentinel) on every loop and on the acceptor
  | acceptorExit                -- the acceptor runs its sentinel
  | enroll (l : Nat)            -- a foreign goroutine calls Register/Enroll: accepted unless the engine has shut down;
                                -- a descriptor is duplicated, the balancer picks loop l, Trigger(register + result callback)
  | setFlag                     -- engine.stop: everything has stopped, the in-shutdown flag is set
  | reorder (l : Nat) (fd : Nat) -- hand-overs made by different goroutines reach the queue of loop l in an order of their
                                -- own: a pending registration moves to the head of the queue (nothing is created,
                                -- closed or registered by this step)
  deriving Repr

def setLoop (s : State) (l : Nat) (x : Loop) : State := { s with loops := s.loops.set l x }

/-- descriptors still waiting in the queue of loop x -/
def pendingOf (x : Loop) : List Nat :=
  x.queue.filterMap fun t => match t with | .register fd => some fd | .sentinel => none

/-- loop l leaves Polling: closeConns, then the registrations still in its queue are aborted (closed, their callers
told), engine.shutdown -/
def exitLoop (s : State) (l : Nat) (x : Loop) : State :=
  { setLoop s l { x with running := false, conns := [], queue := [] } with
    closed := s.closed ++ x.conns ++ pendingOf x, ctxCancelled := true,
    results := s.results ++ (pendingOf x).filter (· ∈ s.enrolled),
    failed := s.failed ++ (pendingOf x).filter (· ∈ s.enrolled) }

def step (s : State) : Step → State
  | .accept l =>
    match s.loops[l]? with
    | some x =>
      if s.acceptorRunning then
        if x.running then
          { setLoop s l { x with queue := x.queue ++ [.register s.nextFd] } with
            nextFd := s.nextFd + 1, assigned := s.assigned ++ [(s.nextFd, l)] }
        else -- the chosen loop has exited: the acceptor aborts the registration itself
          { s with nextFd := s.nextFd + 1, assigned := s.assigned ++ [(s.nextFd, l)], closed := s.closed ++ [s.nextFd] }
      else s
    | none => s
  | .exec l =>
    match s.loops[l]? with
    | some x =>
      if x.running then
        match x.queue with
        | .register fd :: q =>
          { setLoop s l { x with queue := q, conns := x.conns ++ [fd] } with
            opened := s.opened ++ [(fd, l)],
            -- the registration of an enrolled connection delivers the caller's result
            results := if fd ∈ s.enrolled then s.results ++ [fd] else s.results }
        | .sentinel :: q => exitLoop s l { x with queue := q }
        | [] => s
      else s
    | none => s
  | .action l =>
    match s.loops[l]? with
    | some x => if x.running then exitLoop s l x else s
    | none => s
  | .peerClose l fd =>
    match s.loops[l]? with
    | some x =>
      if x.running ∧ fd ∈ x.conns then
        { setLoop s l { x with conns := x.conns.erase fd } with closed := s.closed ++ [fd] }
      else s
    | none => s
  | .requestStop => { s with ctxCancelled := true }
  | .postSentinels =>
    if s.ctxCancelled ∧ ¬ s.sentinelsPosted then
      { s with sentinelsPosted := true, loops := s.loops.map fun x => { x with queue := x.queue ++ [.sentinel] } }
    else s
  | .acceptorExit => if s.sentinelsPosted then { s with acceptorRunning := false } else s
  | .enroll l =>
    match s.loops[l]? with
    | some x =>
      if ¬ s.inShutdown then
        if x.running then
          { setLoop s l { x with queue := x.queue ++ [.register s.nextFd] } with
            nextFd := s.nextFd + 1, assigned := s.assigned ++ [(s.nextFd, l)], enrolled := s.enrolled ++ [s.nextFd] }
        else -- the chosen loop has exited: the call is answered with an error, its descriptor closed
          { s with nextFd := s.nextFd + 1, assigned := s.assigned ++ [(s.nextFd, l)], enrolled := s.enrolled ++ [s.nextFd],
                   closed := s.closed ++ [s.nextFd], results := s.results ++ [s.nextFd], failed := s.failed ++ [s.nextFd] }
      else s
    | none => s
  | .setFlag => if !s.acceptorRunning && s.loops.all (!·.running) then { s with inShutdown := true } else s
  | .reorder l fd =>
    match s.loops[l]? with
    | some x =>
      if Task.register fd ∈ x.queue then
        setLoop s l { x with queue := .register fd :: x.queue.erase (.register fd) }
      else s
    | none => s

def run (s : State) : List Step → State
  | [] => s
  | a :: rest => run (step s a) rest

def Reachable (s : State) : Prop := ∃ n steps, s = run (init n) steps

/-- everything has stopped: this is when `Run` returns -/
def Final (s : State) : Bool := !s.acceptorRunning && s.loops.all (!·.running)

/-- accepted Register/Enroll calls whose caller never got a result -/
def unanswered (s : State) : List Nat := s.enrolled.filter (· ∉ s.results)

def pending (s : State) : List Nat := (s.loops.map pendingOf).flatten
def registered (s : State) : List Nat := (s.loops.map (·.conns)).flatten

/-- every descriptor the acceptor ever created -/
def created (s : State) : List Nat := List.range s.nextFd   -- by the acceptor or by an enrolment

/-- descriptors the framework created and has not closed -/
def unclosed (s : State) : List Nat := (created s).filter (· ∉ s.closed)

end Gnet.Handover
