/-
  Executable model of `pkg/buffer/ring/ring_buffer.go`, statement by statement.
  Every Go method that mutates the receiver becomes a function returning the new state.
  Index/slice expressions that Go bounds-checks at run time are collected, per operation,
  in a `…Safe` predicate: the stepping function answers `none` (= panic) when one fails.
  Constants come from `Gnet.Gen.Facts` (regenerated from the source on every run).
-/
import Gnet.Basic
import Gnet.Gen.Facts
import Gnet.Spec.Fifo

namespace Gnet

structure Ring (α : Type) where
  buf : List α
  size : Nat
  r : Nat
  w : Nat
  isEmpty : Bool
  deriving Repr, DecidableEq

namespace Ring
variable {α : Type} [Inhabited α]

def MinRead : Nat := Facts.ringMinRead
def DefaultBufferSize : Nat := Facts.ringDefaultBufferSize
def bufferGrowThreshold : Nat := Facts.ringBufferGrowThreshold

/-- `ring.New(size)` -/
def new (size : Int) : Ring α :=
  if size = 0 then { buf := [], size := 0, r := 0, w := 0, isEmpty := true }
  else
    let s := ceilPow2 size.toNat
    { buf := List.replicate s default, size := s, r := 0, w := 0, isEmpty := true }

/-- `Reset` -/
def reset (rb : Ring α) : Ring α := { rb with isEmpty := true, r := 0, w := 0 }

/-- `Buffered` -/
def buffered (rb : Ring α) : Nat :=
  if rb.r = rb.w then (if rb.isEmpty then 0 else rb.size)
  else if rb.w > rb.r then rb.w - rb.r
  else rb.size - rb.r + rb.w

/-- `Available` -/
def available (rb : Ring α) : Nat :=
  if rb.r = rb.w then (if rb.isEmpty then rb.size else 0)
  else if rb.w < rb.r then rb.r - rb.w
  else rb.size - rb.w + rb.r

def len (rb : Ring α) : Nat := rb.buf.length
def cap (rb : Ring α) : Nat := rb.size
def isFull (rb : Ring α) : Bool := rb.r == rb.w && !rb.isEmpty

/-- `peekAll` -/
def peekAll (rb : Ring α) : List α × List α :=
  if rb.isEmpty then ([], [])
  else if rb.w > rb.r then ((rb.buf.drop rb.r).take (rb.w - rb.r), [])
  else (rb.buf.drop rb.r, if rb.w ≠ 0 then rb.buf.take rb.w else [])

/-- `Peek(n)` -/
def peek (rb : Ring α) (n : Int) : List α × List α :=
  if rb.isEmpty then ([], [])
  else if n ≤ 0 then rb.peekAll
  else
    let n := n.toNat
    if rb.w > rb.r then
      let m := min (rb.w - rb.r) n
      ((rb.buf.drop rb.r).take m, [])
    else
      let m := min (rb.size - rb.r + rb.w) n
      if rb.r + m ≤ rb.size then ((rb.buf.drop rb.r).take m, [])
      else (rb.buf.drop rb.r, rb.buf.take (m - (rb.size - rb.r)))

/-- bounds checks of `Peek` -/
def peekSafe (rb : Ring α) (n : Int) : Bool :=
  if rb.isEmpty then true
  else if rb.w > rb.r then rb.w ≤ rb.buf.length
  else
    let m := if n ≤ 0 then rb.size - rb.r + rb.w else min (rb.size - rb.r + rb.w) n.toNat
    rb.r ≤ rb.buf.length && rb.w ≤ rb.buf.length &&
      (if rb.r + m ≤ rb.size then rb.r + m ≤ rb.buf.length else rb.size - rb.r ≤ m)

/-- `Discard(n)`: returns the new state and the count. -/
def discard (rb : Ring α) (n : Int) : Ring α × Nat :=
  if n ≤ 0 then (rb, 0)
  else
    let d := rb.buffered
    if n.toNat < d then ({ rb with r := (rb.r + n.toNat) % rb.size }, n.toNat)
    else (rb.reset, d)

/-- `Read(p)` with `len(p) = n`: new state, bytes copied into `p`, error. -/
def read (rb : Ring α) (n : Nat) : Ring α × List α × Err :=
  if n = 0 then (rb, [], .nil)
  else if rb.isEmpty then (rb, [], .isEmpty)
  else if rb.w > rb.r then
    let m := min (rb.w - rb.r) n
    let data := (rb.buf.drop rb.r).take m
    let rb1 := { rb with r := rb.r + m }
    (if rb1.r = rb1.w then rb1.reset else rb1, data, .nil)
  else
    let m := min (rb.size - rb.r + rb.w) n
    let data :=
      if rb.r + m ≤ rb.size then (rb.buf.drop rb.r).take m
      else rb.buf.drop rb.r ++ rb.buf.take (m - (rb.size - rb.r))
    let rb1 := { rb with r := (rb.r + m) % rb.size }
    (if rb1.r = rb1.w then rb1.reset else rb1, data, .nil)

def readSafe (rb : Ring α) (n : Nat) : Bool :=
  if n = 0 || rb.isEmpty then true
  else if rb.w > rb.r then rb.r + min (rb.w - rb.r) n ≤ rb.buf.length
  else
    let m := min (rb.size - rb.r + rb.w) n
    0 < rb.size && rb.r ≤ rb.buf.length &&
      (if rb.r + m ≤ rb.size then rb.r + m ≤ rb.buf.length
       else rb.size - rb.r ≤ m && m - (rb.size - rb.r) ≤ rb.buf.length)

/-- `ReadByte` -/
def readByte (rb : Ring α) : Ring α × Option α × Err :=
  if rb.isEmpty then (rb, none, .isEmpty)
  else
    let b := rb.buf[rb.r]?
    let r1 := if rb.r + 1 = rb.size then 0 else rb.r + 1
    let rb1 := { rb with r := r1 }
    (if rb1.r = rb1.w then rb1.reset else rb1, b, .nil)

def readByteSafe (rb : Ring α) : Bool := rb.isEmpty || rb.r < rb.buf.length

/-- the `for 0 < n && n < newCap { n += n / 4 }` loop of `grow`; only entered with
    `n ≥ bufferGrowThreshold`. (For `n < 4` the Go loop would not terminate; the model stops.) -/
def growLoop (n newCap : Nat) : Nat :=
  if h : 4 ≤ n ∧ n < newCap then growLoop (n + n / 4) newCap else n
termination_by newCap - n
decreasing_by have : 0 < n / 4 := Nat.div_pos h.1 (by decide); omega

/-- the capacity `grow(newCap)` settles on -/
def growCap (size newCap : Nat) : Nat :=
  if size = 0 then
    if newCap ≤ DefaultBufferSize then DefaultBufferSize else ceilPow2 newCap
  else
    let doubleCap := size + size
    if newCap ≤ doubleCap then
      if size < bufferGrowThreshold then doubleCap
      else growLoop size newCap
    else newCap

/-- `grow(newCap)`: the fresh slice comes from the byte-slice pool with arbitrary content
    (`default` here; never observable when the buffer is correct). -/
def grow (rb : Ring α) (newCap : Nat) : Ring α :=
  let nc := growCap rb.size newCap
  let oldLen := rb.buffered
  let (_, data, _) := rb.read nc
  let newBuf := data ++ List.replicate (nc - data.length) default
  { buf := newBuf, size := nc, r := 0, w := oldLen,
    isEmpty := if oldLen > 0 then false else (rb.read nc).1.isEmpty }

/-- `Write(p)` -/
def write (rb : Ring α) (p : List α) : Ring α :=
  let n := p.length
  if n = 0 then rb
  else
    let free := rb.available
    let rb : Ring α := if n > free then rb.grow (rb.size + n - free) else rb
    let rb : Ring α :=
      if rb.w ≥ rb.r then
        let c1 := rb.size - rb.w
        if c1 ≥ n then { rb with buf := blit rb.buf rb.w p, w := rb.w + n }
        else
          let b1 := blit rb.buf rb.w (p.take c1)
          { rb with buf := blit b1 0 (p.drop c1), w := n - c1 }
      else { rb with buf := blit rb.buf rb.w p, w := rb.w + n }
    let rb : Ring α := if rb.w = rb.size then { rb with w := 0 } else rb
    { rb with isEmpty := false }

/-- bounds checks of `Write` (after the growth decision): `buf[w:]`, `p[:c1]`. -/
def writeSafe (rb : Ring α) (p : List α) : Bool :=
  let n := p.length
  if n = 0 then true
  else
    let free := rb.available
    let rb1 := if n > free then rb.grow (rb.size + n - free) else rb
    (if n > free then rb.readSafe (growCap rb.size (rb.size + n - free)) else true) &&
    rb1.w ≤ rb1.buf.length &&
    (if rb1.w ≥ rb1.r then (if rb1.size - rb1.w ≥ n then true else rb1.size - rb1.w ≤ n) else true)

/-- `WriteByte(c)` -/
def writeByte (rb : Ring α) (c : α) : Ring α :=
  let rb : Ring α := if rb.available < 1 then rb.grow (rb.size + 1) else rb
  let rb : Ring α := { rb with buf := rb.buf.set rb.w c, w := rb.w + 1 }
  let rb : Ring α := if rb.w = rb.size then { rb with w := 0 } else rb
  { rb with isEmpty := false }

def writeByteSafe (rb : Ring α) (_c : α) : Bool :=
  let rb1 := if rb.available < 1 then rb.grow (rb.size + 1) else rb
  (if rb.available < 1 then rb.readSafe (growCap rb.size (rb.size + 1)) else true) &&
  rb1.w < rb1.buf.length

/-- `Bytes()` -/
def bytes (rb : Ring α) : List α :=
  if rb.isEmpty then []
  else if rb.w = rb.r then rb.buf.drop rb.r ++ rb.buf.take rb.w
  else if rb.w > rb.r then (rb.buf.drop rb.r).take (rb.w - rb.r)
  else rb.buf.drop rb.r ++ (if rb.w ≠ 0 then rb.buf.take rb.w else [])

def bytesSafe (rb : Ring α) : Bool :=
  rb.isEmpty || (rb.r ≤ rb.buf.length && rb.w ≤ rb.buf.length)

/-- fresh bytes a scripted reader delivers: positions `pos, pos+1, …` of the generator -/
abbrev fresh (gen : Nat → α) (pos m : Nat) : List α := Fifo.fresh gen pos m

/-- one iteration of the `ReadFrom` loop: grow if fewer than `MinRead` bytes are free, then one
    `r.Read` into the contiguous free area. Returns the state and the number of bytes read. -/
def rfStep (gen : Nat → α) (rb : Ring α) (pos : Nat) (st : RStep) : Ring α × Nat :=
  let rb : Ring α := if rb.available < MinRead then rb.grow (rb.buffered + MinRead) else rb
  let L := if rb.w ≥ rb.r then rb.size - rb.w else rb.r - rb.w
  let m := min st.k L
  ({ rb with buf := blit rb.buf rb.w (fresh gen pos m),
             isEmpty := if m > 0 then false else rb.isEmpty,
             w := (rb.w + m) % rb.size }, m)

/-- bounds checks of one iteration: `buf[w:]`, `buf[w:r]`, `% size`. -/
def rfStepSafe (rb : Ring α) : Bool :=
  let g := rb.available < MinRead
  let rb1 := if g then rb.grow (rb.buffered + MinRead) else rb
  (if g then rb.readSafe (growCap rb.size (rb.buffered + MinRead)) else true) &&
  0 < rb1.size && rb1.w ≤ rb1.buf.length && (rb1.w ≥ rb1.r || rb1.r ≤ rb1.buf.length)

/-- `ReadFrom(r)`: one loop iteration per script step; a script that ran out answers `(0, EOF)`.
    Returns state, total count, error, new reader position. -/
def readFrom (gen : Nat → α) (rb : Ring α) (pos : Nat) (n : Nat) : List RStep → Ring α × Nat × Err × Nat
  | [] => let (rb', m) := rfStep gen rb pos ⟨0, .eof⟩; (rb', n + m, .nil, pos + m)
  | st :: rest =>
    let (rb', m) := rfStep gen rb pos st
    if st.err = .eof then (rb', n + m, .nil, pos + m)
    else if st.err ≠ .nil then (rb', n + m, st.err, pos + m)
    else readFrom gen rb' (pos + m) (n + m) rest

def readFromSafe (gen : Nat → α) (rb : Ring α) (pos : Nat) : List RStep → Bool
  | [] => rfStepSafe rb
  | st :: rest =>
    rfStepSafe rb &&
    (if st.err ≠ .nil then true else readFromSafe gen (rfStep gen rb pos st).1 (pos + (rfStep gen rb pos st).2) rest)

/-- one `w.Write(chunk)` of a scripted writer: accepted count and error. A script that ran
    out accepts nothing and fails. -/
def wstep (script : List WStep) (offered : Nat) : Nat × Err × List WStep :=
  match script with
  | [] => (0, .other 0, [])
  | s :: rest => (min s.k offered, s.err, rest)

/-- `WriteTo(w)`: state, count, error, bytes the writer accepted, rest of the script. -/
def writeTo (rb : Ring α) (script : List WStep) : Ring α × Nat × Err × List α × List WStep :=
  if rb.isEmpty then (rb, 0, .isEmpty, [], script)
  else if rb.w > rb.r then
    let n := rb.w - rb.r
    let chunk := (rb.buf.drop rb.r).take n
    let (m, err, rest) := wstep script n
    let rb : Ring α := { rb with r := rb.r + m }
    let rb : Ring α := if rb.r = rb.w then rb.reset else rb
    let e := if err ≠ .nil then err else if !rb.isEmpty then .shortWrite else .nil
    (rb, m, e, chunk.take m, rest)
  else
    let n := rb.size - rb.r + rb.w
    if rb.r + n ≤ rb.size then
      let chunk := (rb.buf.drop rb.r).take n
      let (m, err, rest) := wstep script n
      let rb : Ring α := { rb with r := (rb.r + m) % rb.size }
      let rb : Ring α := if m = n then rb.reset else rb
      let e := if err ≠ .nil then err else if !rb.isEmpty then .shortWrite else .nil
      (rb, m, e, chunk.take m, rest)
    else
      let c1 := rb.size - rb.r
      let chunk1 := rb.buf.drop rb.r
      let (m, err, rest) := wstep script c1
      let rb : Ring α := { rb with r := (rb.r + m) % rb.size }
      if err ≠ .nil then (rb, m, err, chunk1.take m, rest)
      else if m < c1 then (rb, m, .shortWrite, chunk1.take m, rest)
      else
        let c2 := n - c1
        let chunk2 := rb.buf.take c2
        let (m2, err2, rest2) := wstep rest c2
        let rb : Ring α := { rb with r := m2 }
        let rb : Ring α := if rb.r = rb.w then rb.reset else rb
        let e := if err2 ≠ .nil then err2 else if !rb.isEmpty then .shortWrite else .nil
        (rb, m + m2, e, chunk1.take m ++ chunk2.take m2, rest2)

def writeToSafe (rb : Ring α) (_script : List WStep) : Bool :=
  rb.isEmpty || (0 < rb.size && rb.r ≤ rb.buf.length && rb.w ≤ rb.buf.length &&
    (if rb.w > rb.r then true
     else if rb.r + (rb.size - rb.r + rb.w) ≤ rb.size then rb.r + (rb.size - rb.r + rb.w) ≤ rb.buf.length
     else true))

/-- the abstract content: what a reader would still get, oldest first -/
def abs (rb : Ring α) : List α :=
  if rb.isEmpty then []
  else if rb.r < rb.w then (rb.buf.drop rb.r).take (rb.w - rb.r)
  else rb.buf.drop rb.r ++ rb.buf.take rb.w

/-- well-formedness (representation invariant) -/
structure WF (rb : Ring α) : Prop where
  len_eq : rb.buf.length = rb.size
  r_lt : rb.size = 0 ∨ rb.r < rb.size
  w_lt : rb.size = 0 ∨ rb.w < rb.size
  empty_zero : rb.isEmpty = true → rb.r = 0 ∧ rb.w = 0
  zero_empty : rb.size = 0 → rb.isEmpty = true

/-- `Discard` computes `% size`: Go panics on a zero divisor -/
def discardSafe (rb : Ring α) (n : Int) : Bool := !(0 < n && n.toNat < rb.buffered && rb.size == 0)

/-- one operation of the public API on (buffer, reader position); `none` = the Go code panics -/
def step (gen : Nat → α) (s : Ring α × Nat) : Fifo.Op α → Option ((Ring α × Nat) × Fifo.Obs α)
  | .write p => if s.1.writeSafe p then some ((s.1.write p, s.2), ⟨p.length, .nil, []⟩) else none
  | .writeByte c => if s.1.writeByteSafe c then some ((s.1.writeByte c, s.2), ⟨1, .nil, []⟩) else none
  | .read n =>
    if s.1.readSafe n then
      let (rb', data, e) := s.1.read n
      some ((rb', s.2), ⟨data.length, e, data⟩)
    else none
  | .readByte =>
    if s.1.readByteSafe then
      let (rb', b, e) := s.1.readByte
      some ((rb', s.2), ⟨b.toList.length, e, b.toList⟩)
    else none
  | .peek n =>
    if s.1.peekSafe n then
      let (h, t) := s.1.peek n
      some (s, ⟨(h ++ t).length, .nil, h ++ t⟩)
    else none
  | .discard n =>
    if s.1.discardSafe n then
      let (rb', d) := s.1.discard n
      some ((rb', s.2), ⟨d, .nil, []⟩)
    else none
  | .bytes => if s.1.bytesSafe then some (s, ⟨s.1.bytes.length, .nil, s.1.bytes⟩) else none
  | .readFrom sc =>
    if s.1.readFromSafe gen s.2 sc then
      let (rb', n, e, pos') := s.1.readFrom gen s.2 0 sc
      some ((rb', pos'), ⟨n, e, []⟩)
    else none
  | .writeTo sc =>
    if s.1.writeToSafe sc then
      let (rb', n, e, sink, _) := s.1.writeTo sc
      some ((rb', s.2), ⟨n, e, sink⟩)
    else none
  | .reset => some ((s.1.reset, s.2), ⟨0, .nil, []⟩)

/-- a whole history -/
def run (gen : Nat → α) (s : Ring α × Nat) : List (Fifo.Op α) → Option ((Ring α × Nat) × List (Fifo.Obs α))
  | [] => some (s, [])
  | op :: ops =>
    match step gen s op with
    | none => none
    | some (s', o) =>
      match run gen s' ops with
      | none => none
      | some (s'', os) => some (s'', o :: os)

end Ring
end Gnet
