/-
  Small-step model of the wake-up protocol of `pkg/netpoll/poller_epoll_{default,ultimate}.go`:
  producers executing `Trigger` and the event loop executing the task part of `Polling`, over
  two lock-free queues (the full-granularity model of C13, `Gnet.Msq`), the `wakeupCall`
  flag, and an eventfd registered edge-triggered in epoll (a counter plus one pending-edge
  bit: every write produces an edge, edges coalesce, `epoll_wait` consumes the edge).
  One transition per atomic operation / system call. Thread 0 is the loop, threads 1.. are
  producers. Task value 0 is the shutdown sentinel (its Exec returns ErrEngineShutdown).
-/
import Gnet.Model.Msq
import Gnet.Gen.Facts

namespace Gnet.Wake
open Gnet

inductive Pc where
  | idle
  -- producer: Trigger(priority, task)
  | pLen            -- low priority only: urgentQ.Length() >= threshold ?
  | pEnqU           -- inside urgentQ.Enqueue (sub-machine of C13)
  | pEnqL           -- inside lowQ.Enqueue
  | pCas            -- CAS(wakeupCall, 0, 1)
  | pWrite          -- write(efd)
  -- loop: Polling
  | lWait           -- epoll_wait
  | lDeqU           -- inside urgentQ.Dequeue
  | lDeqL           -- inside lowQ.Dequeue
  | lStore          -- StoreInt32(wakeupCall, 0)
  | lEmptyL         -- lowQ.IsEmpty()
  | lEmptyU         -- urgentQ.IsEmpty()
  | lCas            -- CAS(wakeupCall, 0, 1)
  | lWrite          -- write(efd)
  | lExit           -- Polling returned (shutdown sentinel executed)
  deriving Repr, DecidableEq, Inhabited

structure Thread where
  pc : Pc := .idle
  task : Nat := 0          -- producer: the task being submitted
  low : Bool := false      -- producer: priority of the current Trigger
  lowCount : Nat := 0      -- loop: low-priority tasks executed in this round
  deriving Repr, DecidableEq, Inhabited

structure State where
  urgent : Msq.State
  low : Msq.State
  wakeupCall : Int
  efdCount : Nat
  edge : Bool              -- an eventfd event is pending in the epoll ready list
  msecZero : Bool          -- the loop's next epoll_wait is non-blocking (msec = 0)
  threshold : Int          -- highPriorityEventsThreshold
  threads : List Thread
  executedU : List Nat     -- tasks executed, from the urgent queue, in order
  executedL : List Nat     -- tasks executed, from the low-priority queue, in order
  deriving Repr

def maxAsync : Nat := Facts.maxAsyncTasksAtOneTime

/-- `n` producers; the loop starts at its first `epoll_wait` -/
def init (nprod : Nat) (threshold : Int) : State :=
  { urgent := Msq.init (nprod + 1), low := Msq.init (nprod + 1), wakeupCall := 0, efdCount := 0,
    edge := false, msecZero := false, threshold := threshold,
    threads := { pc := .lWait } :: List.replicate nprod {}, executedU := [], executedL := [] }

def setThread (s : State) (tid : Nat) (t : Thread) : State := { s with threads := s.threads.set tid t }

/-- a producer that is idle calls `Trigger(priority, task)` -/
def start (s : State) (tid : Nat) (task : Nat) (lowPrio : Bool) : State :=
  if tid = 0 then s else
  match s.threads[tid]? with
  | none => s
  | some t =>
    if t.pc ≠ .idle then s
    else if lowPrio then setThread s tid { t with pc := .pLen, task := task, low := true }
    else
      let s := { s with urgent := Msq.start s.urgent tid (.enq task) }
      setThread s tid { t with pc := .pEnqU, task := task, low := false }

/-- the loop begins the next `Dequeue` of the urgent queue -/
def beginDeqU (s : State) (t : Thread) : State :=
  setThread { s with urgent := Msq.start s.urgent 0 .deq } 0 { t with pc := .lDeqU }

def beginDeqL (s : State) (t : Thread) : State :=
  setThread { s with low := Msq.start s.low 0 .deq } 0 { t with pc := .lDeqL }

/-- what a step reports: nothing, a finished Trigger, an executed task, a blocked wait, loop exit -/
inductive Out where
  | none
  | triggered
  | executed (v : Nat)
  | blocked
  | exited
  deriving Repr, DecidableEq

/-- one atomic action of thread `tid` -/
def step (s : State) (tid : Nat) : State × Out :=
  match s.threads[tid]? with
  | none => (s, .none)
  | some t =>
    match t.pc with
    | .idle => (s, .none)
    | .lExit => (s, .none)
    -- producer
    | .pLen =>
      if s.urgent.length ≥ s.threshold then
        (setThread { s with low := Msq.start s.low tid (.enq t.task) } tid { t with pc := .pEnqL }, .none)
      else
        (setThread { s with urgent := Msq.start s.urgent tid (.enq t.task) } tid { t with pc := .pEnqU }, .none)
    | .pEnqU =>
      let (q, r) := Msq.step s.urgent tid
      let s := { s with urgent := q }
      (match r with
       | some _ => (setThread s tid { t with pc := .pCas }, .none)
       | none => (s, .none))
    | .pEnqL =>
      let (q, r) := Msq.step s.low tid
      let s := { s with low := q }
      (match r with
       | some _ => (setThread s tid { t with pc := .pCas }, .none)
       | none => (s, .none))
    | .pCas =>
      if s.wakeupCall = 0 then (setThread { s with wakeupCall := 1 } tid { t with pc := .pWrite }, .none)
      else (setThread s tid { t with pc := .idle }, .triggered)
    | .pWrite =>
      (setThread { s with efdCount := s.efdCount + 1, edge := true } tid { t with pc := .idle }, .triggered)
    -- loop
    | .lWait =>
      if s.edge then
        -- the eventfd event is delivered: doChores
        let s := { s with edge := false, msecZero := true }
        (beginDeqU s { t with lowCount := 0 }, .none)
      else if s.msecZero then ({ s with msecZero := false }, .none)   -- empty non-blocking poll
      else (s, .blocked)
    | .lDeqU =>
      let (q, r) := Msq.step s.urgent 0
      let s := { s with urgent := q }
      (match r with
       | some (.deqSome v) =>
         let s := { s with executedU := s.executedU ++ [v] }
         if v = 0 then (setThread s 0 { t with pc := .lExit }, .exited)
         else (beginDeqU s t, .executed v)
       | some .deqNone =>
         -- urgent queue drained: up to MaxAsyncTasksAtOneTime low-priority tasks
         if t.lowCount < maxAsync then (beginDeqL s t, .none)
         else (setThread s 0 { t with pc := .lStore }, .none)
       | _ => (s, .none))
    | .lDeqL =>
      let (q, r) := Msq.step s.low 0
      let s := { s with low := q }
      (match r with
       | some (.deqSome v) =>
         let s := { s with executedL := s.executedL ++ [v] }
         if v = 0 then (setThread s 0 { t with pc := .lExit }, .exited)
         else
           let t := { t with lowCount := t.lowCount + 1 }
           if t.lowCount < maxAsync then (beginDeqL s t, .executed v)
           else (setThread s 0 { t with pc := .lStore }, .executed v)
       | some .deqNone => (setThread s 0 { t with pc := .lStore }, .none)
       | _ => (s, .none))
    | .lStore => (setThread { s with wakeupCall := 0 } 0 { t with pc := .lEmptyL }, .none)
    | .lEmptyL =>
      if s.low.length ≠ 0 then (setThread s 0 { t with pc := .lCas }, .none)
      else (setThread s 0 { t with pc := .lEmptyU }, .none)
    | .lEmptyU =>
      if s.urgent.length ≠ 0 then (setThread s 0 { t with pc := .lCas }, .none)
      else (setThread s 0 { t with pc := .lWait }, .none)
    | .lCas =>
      if s.wakeupCall = 0 then (setThread { s with wakeupCall := 1 } 0 { t with pc := .lWrite }, .none)
      else (setThread s 0 { t with pc := .lWait }, .none)
    | .lWrite =>
      (setThread { s with efdCount := s.efdCount + 1, edge := true } 0 { t with pc := .lWait }, .none)

inductive Ev where
  | start (tid : Nat) (task : Nat) (low : Bool)
  | step (tid : Nat)
  deriving Repr

def apply (s : State) : Ev → State
  | .start tid v l => start s tid v l
  | .step tid => (step s tid).1

def runEvs (s : State) : List Ev → State
  | [] => s
  | e :: es => runEvs (apply s e) es

def Reachable (s : State) : Prop := ∃ n th evs, s = runEvs (init n th) evs

/-- a task sits in one of the queues -/
def anyQueued (s : State) : Prop := s.urgent.absQ ≠ [] ∨ s.low.absQ ≠ []

def loopPc (s : State) : Pc := (s.threads.getD 0 {}).pc

/-- a producer is in flight between the linearisation point of its Enqueue and the end of
    its own wake-up attempt -/
def producerPending (s : State) : Prop :=
  ∃ tid t, 0 < tid ∧ s.threads[tid]? = some t ∧
    (t.pc = .pCas ∨ t.pc = .pWrite ∨
     (t.pc = .pEnqU ∧ ((s.urgent.threads.getD tid {}).pc = .eCasTail ∨ (s.urgent.threads.getD tid {}).pc = .eAdd)) ∨
     (t.pc = .pEnqL ∧ ((s.low.threads.getD tid {}).pc = .eCasTail ∨ (s.low.threads.getD tid {}).pc = .eAdd)))

/-- a wake-up is outstanding: the loop is still inside its chores before or at the final
    re-check, or an eventfd edge is pending, or some thread that won the flag is about to write
    the eventfd, or a producer has linked its task and has not yet finished its own attempt -/
def WakeOutstanding (s : State) : Prop :=
  s.edge = true ∨
  loopPc s = .lDeqU ∨ loopPc s = .lDeqL ∨ loopPc s = .lStore ∨ loopPc s = .lEmptyL ∨ loopPc s = .lEmptyU ∨
  loopPc s = .lCas ∨ loopPc s = .lWrite ∨
  producerPending s

end Gnet.Wake
