/-
  The reactor model: the loop-side logic of one gnet event loop (eventloop_unix.go,
  connection_unix.go, connection_linux.go, acceptor_unix.go) as a TRACE ACCEPTOR.

  The buffers are abstract FIFO byte queues (`List Nat`): by the refinement theorems of
  C09/C10/C11 the ring, the elastic ring and the mixed ring/list buffer behave exactly like
  that, so the reactor only needs their specification.

  A trace is the list of tokens one round of the real loop logged. Tokens that the
  environment decides (which event or task comes next, results of system calls, what the
  user's handler does and returns, how many bytes a scripted reader/writer moved) are INPUTS;
  tokens that the framework decides (which system call it issues on which descriptor with
  which bytes, which callback it invokes, what a Conn method returns) are PREDICTIONS that
  must match. `exec` consumes tokens; it fails with a message on the first mismatch.
-/
import Gnet.Gen.Facts

namespace Gnet.Reactor

/-- one token of the trace -/
inductive Tok where
  | enter (fn : String) (c : String) (arg : String)
  | sysRead (c : String) (len : Nat) (n : Int) (err : String) (data : List Nat)
  | sysWrite (c : String) (data : List Nat) (n : Int) (err : String)
  | sysWritev (c : String) (segs : Nat) (data : List Nat) (n : Int) (err : String)
  | sysClose (c : String) (err : String)
  | sysCtl (method : String) (c : String) (err : String)
  | sysAccept (l : String) (nfd : String) (err : String)
  | sysDup (fd : String) (nfd : String) (err : String)
  | sysRecvfrom (l : String) (n : Int) (err : String) (src : String) (data : List Nat)
  | sysSendto (l : String) (data : List Nat) (dst : String) (err : String)
  | cb (kind : String) (c : String) (readable : Nat) (errNil : Bool) (remote : String)
  | hop (op : String) (arg : String)
  | res (n : Int) (err : String) (data : List Nat)
  | ret (out : Option (List Nat)) (action : Nat)
  | exit (errNil : Bool)
  | other (text : String)
  deriving Repr, DecidableEq, Inhabited

structure Cfg where
  isET : Bool
  chunk : Nat
  rbc : Nat            -- len(el.buffer)
  iovMax : Nat := Facts.iovMax
  deriving Repr

/-- a task the framework has queued (payloads of asynchronous writes travel here) -/
inductive Task where
  | asyncWrite (c : String) (data : List Nat)
  | asyncWritev (c : String) (segs : List (List Nat))
  | read0 (c : String)
  | write0 (c : String)
  | wake (c : String)
  | close (c : String)
  deriving Repr, DecidableEq

structure Conn where
  opened : Bool := false
  isEOF : Bool := false
  registered : Bool := false      -- present in the loop's connection registry
  fdOpen : Bool := true           -- ledger: the descriptor has not been closed
  inbound : List Nat := []        -- c.inboundBuffer (abstract FIFO)
  buffer : List Nat := []         -- c.buffer: bytes of the latest read not yet consumed
  outbound : List Nat := []       -- c.outboundBuffer (abstract FIFO)
  -- ghost logs for the theorems
  delivered : List Nat := []      -- bytes returned by successful read(2) calls, in order
  consumed : List Nat := []       -- bytes the handler obtained through the read methods
  accepted : List Nat := []       -- bytes accepted by write operations, in effect order
  toKernel : List Nat := []       -- bytes the kernel accepted from write/writev
  word : List String := []        -- callbacks seen: "open" | "traffic" | "close"
  closeErrNil : Bool := true
  deriving Repr, Inhabited

structure RState where
  cfg : Cfg
  conns : List (String × Conn) := []
  nconn : Nat := 0
  toks : List Tok := []
  tasks : List Task := []          -- queued asynchronous work (ghost: order is checked by C03)
  freshPos : Nat := 0              -- position of the scripted readers' byte stream
  sysLog : List (String × Bool) := []   -- ghost: (descriptor, was it open?) for every predicted system call
  exited : Bool := false
  deriving Repr

abbrev M := StateT RState (Except String)

inductive Code where
  | nil | err | shutdown | acceptErr
  deriving Repr, DecidableEq, Inhabited

structure Ret where
  code : Code := .nil
  n : Nat := 0
  errName : String := "nil"
  deriving Repr, Inhabited

def getConn (c : String) : M Conn := do
  match (← get).conns.find? (·.1 == c) with
  | some (_, x) => pure x
  | none => throw s!"unknown connection {c}"

def setConn (c : String) (x : Conn) : M Unit :=
  modify fun s => { s with conns := s.conns.map fun p => if p.1 == c then (c, x) else p }

def modConn (c : String) (f : Conn → Conn) : M Unit := do
  let x ← getConn c
  setConn c (f x)

/-- a kernel never transfers more than it was offered, and hands back exactly `n` bytes -/
def Tok.sane : Tok → Bool
  | .sysRead _ len n _ data => n ≤ len && (if n > 0 then data.length == n.toNat else data.isEmpty)
  | .sysWrite _ data n _ => n ≤ data.length
  | .sysWritev _ _ data n _ => n ≤ data.length
  | .sysRecvfrom _ n _ _ data => if n > 0 then data.length == n.toNat else data.isEmpty
  | _ => true

/-- next token -/
def pop : M Tok := do
  let s ← get
  match s.toks with
  | [] => throw "trace ended while the model expects more"
  | t :: rest =>
    if !t.sane then throw s!"impossible system call result in the trace: {repr t}"
    set { s with toks := rest }; pure t

def peekTok : M (Option Tok) := do pure (← get).toks.head?

def fresh (pos m : Nat) : List Nat := (List.range m).map fun i => (pos + i) % 251

/-- ghost: record a predicted system call on descriptor `c` -/
def noteSys (c : String) : M Unit := do
  let x ← getConn c
  modify fun s => { s with sysLog := s.sysLog ++ [(c, x.fdOpen)] }

def mismatch (what : String) (t : Tok) : M α := throw s!"expected {what}, trace has {repr t}"

def expectEnter (fn c : String) : M String := do
  match ← pop with
  | .enter f c' a => if f == fn && c' == c then pure a else mismatch s!"enter {fn} {c}" (.enter f c' a)
  | t => mismatch s!"enter {fn} {c}" t

def isRetryable (e : String) : Bool := e == "EAGAIN"

/-- epoll event bits -/
def evIN := 0x1
def evPRI := 0x2
def evOUT := 0x4
def evERR := 0x8
def evHUP := 0x10
def evRDHUP := 0x2000
def has (mask bits : Nat) : Bool := mask &&& bits != 0

/-- what the model is asked to do -/
inductive Work where
  | accept (l : String)
  | register0 (c : String)
  | open (c : String)
  | connOpen (c : String) (buf : List Nat)        -- conn.open(out): write the OnOpen reply
  | processIO (c : String) (mask : Nat)
  | elRead (c : String)
  | elReadLoop (c : String) (recv : Nat)
  | elWrite (c : String)
  | elWriteLoop (c : String) (sent : Nat)
  | close (c : String) (errNil : Bool)
  | closeFlush (c : String)
  | handleAction (c : String) (action : Nat)
  | callback (kind : String) (c : String)          -- consume hops until `ret`
  | connWrite (c : String) (data : List Nat)
  | connWriteLoop (c : String) (data : List Nat) (total : Nat)
  | connWritev (c : String) (segs : List (List Nat))
  | connWritevLoop (c : String) (segs : List (List Nat)) (total : Nat)
  | flush (c : String)
  | wake (c : String)
  | readUDP (l : String)
  | udpCallback (l : String) (src : String)
  | closeConns
  deriving Repr

def parseHexSegs (s : String) : List (List Nat) :=
  let hexVal (c : Char) : Nat :=
    if '0' ≤ c ∧ c ≤ '9' then c.toNat - 48 else if 'a' ≤ c ∧ c ≤ 'f' then c.toNat - 87 else 0
  let rec go : List Char → List Nat → List Nat
    | a :: b :: rest, acc => go rest ((hexVal a * 16 + hexVal b) :: acc)
    | _, acc => acc.reverse
  (s.splitOn ",").map fun h => if h == "-" then [] else go h.toList []

/-- drop `n` bytes from a list of segments the way conn.writev re-slices `bs` -/
def dropSegs : List (List Nat) → Nat → List (List Nat)
  | [], _ => []
  | b :: rest, n => if n < b.length then b.drop n :: rest else dropSegs rest (n - b.length)

/-- the result of a hop (the next token) must be what the model computed -/
def checkHop (op : String) (n' : Int) (err' : String) (data' : List Nat) : M Unit := do
  match ← pop with
  | .res n err data =>
    if n == n' && err == err' && data == data' then pure ()
    else throw s!"hop {op}: the implementation returned n={n} err={err} data={repr data}, the model n={n'} err={err'} data={repr data'}"
  | t => mismatch s!"result of hop {op}" t

/-- hops whose byte count is decided by the environment (scripted reader / writer): read the result -/
def popRes (op : String) : M (Int × String × List Nat) := do
  match ← pop with
  | .res n err data => pure (n, err, data)
  | t => mismatch s!"result of hop {op}" t

/-- `exec fuel w`: run the framework function `w` against the trace -/
def exec : Nat → Work → M Ret
  | 0, _ => throw "out of fuel"
  | fuel + 1, w => do
    let cfg := (← get).cfg
    match w with
    | .accept l => do
      let _ ← expectEnter "accept" l
      match ← pop with
      | .sysAccept l' nfd err =>
        if l' != l then throw s!"accept on {l'} instead of {l}"
        if err == "nil" then
          -- the trace names every accepted descriptor freshly (the driver never reuses a name)
          if (← get).conns.any (·.1 == nfd) then throw s!"descriptor name {nfd} is already in use"
          modify fun s => { s with conns := s.conns ++ [(nfd, {})], nconn := s.nconn + 1 }
          exec fuel (.register0 nfd)
        else if err == "EINTR" || err == "EAGAIN" || err == "ECONNRESET" || err == "ECONNABORTED" then pure {}
        else pure { code := .acceptErr }
      | .enter "readUDP" l' _ =>
        -- UDP listener: the token just popped was the entry of readUDP
        if l' != l then throw s!"readUDP on {l'} instead of {l}"
        exec fuel (.readUDP l)
      | t => mismatch s!"sys accept {l}" t
    | .register0 c => do
      let _ ← expectEnter "register0" c
      noteSys c
      match ← pop with
      | .sysCtl m c' err =>
        let want := if cfg.isET then "AddReadWrite" else "AddRead"
        if m != want || c' != c then throw s!"expected epoll_ctl {want} {c}, trace has {m} {c'}"
        if err != "nil" then
          noteSys c
          match ← pop with
          | .sysClose c'' _ =>
            if c'' != c then throw s!"expected close {c}"
            modConn c fun x => { x with fdOpen := false, opened := false }
            pure { code := .err }
          | t => mismatch s!"sys close {c}" t
        else
          modConn c fun x => { x with registered := true }
          exec fuel (.open c)
      | t => mismatch s!"sys epoll_ctl add {c}" t
    | .open c => do
      let _ ← expectEnter "open" c
      modConn c fun x => { x with opened := true }
      match ← pop with
      | .cb "OnOpen" c' _ _ _ =>
        if c' != c then throw s!"OnOpen for {c'} instead of {c}"
        modConn c fun x => { x with word := x.word ++ ["open"] }
      | t => mismatch s!"cb OnOpen {c}" t
      exec fuel (.callback "open" c)
    | .connOpen c buf => do
      -- conn.open(buf): behind data a Write inside OnOpen left in the outbound buffer; otherwise a
      -- loop of write(2) until done, EAGAIN (buffer the rest) or error
      if !(← getConn c).outbound.isEmpty then
        modConn c fun x => { x with outbound := x.outbound ++ buf }
        pure {}
      else
      noteSys c
      match ← pop with
      | .sysWrite c' d n err =>
        if c' != c || d != buf then throw s!"OnOpen reply: expected write {c} of {buf.length} bytes, trace has write {c'} of {d.length} bytes"
        if err != "nil" then
          if isRetryable err then
            modConn c fun x => { x with outbound := x.outbound ++ buf }
            pure {}
          else pure { code := .err, errName := err }
        else
          modConn c fun x => { x with toKernel := x.toKernel ++ buf.take n.toNat }
          let rest := buf.drop n.toNat
          if rest.isEmpty then pure {} else exec fuel (.connOpen c rest)
      | t => mismatch s!"sys write {c} (OnOpen reply)" t
    | .processIO c mask => do
      if has mask (evERR ||| evHUP ||| evRDHUP) && !has mask (evIN ||| evPRI ||| evOUT) then
        -- outboundBuffer.Release(): "don't bother to write to a connection that is already broken";
        -- the bytes are dropped on purpose and leave the ghost log of accepted bytes as well
        modConn c fun x => { x with outbound := [], accepted := x.toKernel }
        exec fuel (.close c false)
      else
        let r1 ← if has mask (evOUT ||| evERR ||| evHUP) then exec fuel (.elWrite c) else pure {}
        if r1.code != .nil then pure r1 else
        let r2 ← if has mask (evIN ||| evPRI ||| evERR ||| evHUP) then exec fuel (.elRead c) else pure {}
        if r2.code != .nil then pure r2 else
        let x ← getConn c
        if has mask evRDHUP && x.opened then
          if !has mask evIN then exec fuel (.close c false)
          else
            modConn c fun x => { x with isEOF := true }
            exec fuel (.elRead c)
        else pure {}
    | .elRead c => do
      let _ ← expectEnter "read" c
      let x ← getConn c
      if !x.opened then pure {} else exec fuel (.elReadLoop c 0)
    | .elReadLoop c recv => do
      noteSys c
      match ← pop with
      | .sysRead c' len n err data =>
        if c' != c || len != cfg.rbc then throw s!"expected read {c} len={cfg.rbc}, trace has read {c'} len={len}"
        if err != "nil" || n == 0 then
          if err == "EAGAIN" then pure {}
          else exec fuel (.close c false)
        else
          let recv := recv + n.toNat
          modConn c fun x => { x with buffer := data, delivered := x.delivered ++ data }
          let x ← getConn c
          match ← pop with
          | .cb "OnTraffic" c' readable _ _ =>
            if c' != c then throw s!"OnTraffic for {c'} instead of {c}"
            if readable != x.inbound.length + x.buffer.length then
              throw s!"OnTraffic {c}: {readable} bytes readable, the model has {x.inbound.length + x.buffer.length}"
            modConn c fun x => { x with word := x.word ++ ["traffic"] }
          | t => mismatch s!"cb OnTraffic {c}" t
          let r ← exec fuel (.callback "traffic" c)
          if r.n == 1 then exec fuel (.close c true)
          else if r.n == 2 then pure { code := .shutdown }
          else
            let x ← getConn c
            if !x.opened then pure {}
            else
              modConn c fun x => { x with inbound := x.inbound ++ x.buffer, buffer := [] }
              let x ← getConn c
              if x.isEOF || (cfg.isET && recv < cfg.chunk) then exec fuel (.elReadLoop c recv)
              else if cfg.isET && n.toNat == cfg.rbc then
                modify fun s => { s with tasks := s.tasks ++ [.read0 c] }
                pure {}
              else pure {}
      | t => mismatch s!"sys read {c}" t
    | .elWrite c => do
      let _ ← expectEnter "write" c
      let x ← getConn c
      if !x.opened || x.outbound.isEmpty then pure {} else exec fuel (.elWriteLoop c 0)
    | .elWriteLoop c sent => do
      let x ← getConn c
      noteSys c
      let (d, n, err) ← (do
        match ← pop with
        | .sysWrite c' d n err =>
          if c' != c then throw s!"expected write {c}, trace has write {c'}"
          if d != x.outbound then throw s!"write {c}: the kernel is offered {d.length} bytes that are not the {x.outbound.length} buffered bytes"
          pure (d, n, err)
        | .sysWritev c' segs d n err =>
          if c' != c then throw s!"expected writev {c}, trace has writev {c'}"
          if !(d == x.outbound || (segs == cfg.iovMax && d == x.outbound.take d.length && !d.isEmpty)) then
            throw s!"writev {c}: the kernel is offered {d.length} bytes that are not a prefix of the {x.outbound.length} buffered bytes"
          pure (d, n, err)
        | t => mismatch s!"sys write/writev {c}" t)
      let k := if n > 0 then n.toNat else 0
      modConn c fun x => { x with outbound := x.outbound.drop k, toKernel := x.toKernel ++ d.take k }
      if err == "EAGAIN" then pure {}
      else if err != "nil" then exec fuel (.close c false)
      else
        let sent := sent + k
        let x ← getConn c
        if cfg.isET && !x.outbound.isEmpty && sent < cfg.chunk then exec fuel (.elWriteLoop c sent)
        else if !cfg.isET && x.outbound.isEmpty then
          noteSys c
          match ← pop with
          | .sysCtl "ModRead" c' e =>
            if c' != c then throw s!"expected epoll_ctl ModRead {c}"
            if e != "nil" then exec fuel (.close c false) else pure {}
          | t => mismatch s!"sys epoll_ctl ModRead {c}" t
        else if cfg.isET && !x.outbound.isEmpty then
          modify fun s => { s with tasks := s.tasks ++ [.write0 c] }
          pure {}
        else pure {}
    | .close c errNil => do
      let a ← expectEnter "close" c
      if a != toString errNil then throw s!"close {c}: the implementation passes err==nil:{a}, the model {errNil}"
      let x ← getConn c
      if !x.opened || !x.registered then pure {}
      else
        modConn c fun x => { x with registered := false }
        match ← pop with
        | .cb "OnClose" c' _ en _ =>
          if c' != c then throw s!"OnClose for {c'} instead of {c}"
          if en != errNil then throw s!"OnClose {c}: error is nil:{en}, the model says nil:{errNil}"
          modConn c fun x => { x with word := x.word ++ ["close"], closeErrNil := errNil }
        | t => mismatch s!"cb OnClose {c}" t
        let r ← exec fuel (.callback "close" c)
        let _ ← exec fuel (.closeFlush c)
        -- release()
        modConn c fun x => { x with opened := false, isEOF := false, buffer := [], inbound := [], outbound := [] }
        noteSys c
        let e0 ← (do match ← pop with
          | .sysCtl "Delete" c' e => if c' != c then throw s!"expected epoll_ctl Delete {c}" else pure e
          | t => mismatch s!"sys epoll_ctl Delete {c}" t)
        noteSys c
        let e1 ← (do match ← pop with
          | .sysClose c' e => if c' != c then throw s!"expected close {c}" else pure e
          | t => mismatch s!"sys close {c}" t)
        modConn c fun x => { x with fdOpen := false }
        if e0 != "nil" || e1 != "nil" then pure { code := .err, errName := "other" }
        else exec fuel (.handleAction c r.n)
    | .closeFlush c => do
      let x ← getConn c
      if x.outbound.isEmpty then pure {}
      else
        noteSys c
        match ← pop with
        | .sysWritev c' segs d n err =>
          if c' != c then throw s!"expected writev {c} (flush at close)"
          if !(d == x.outbound || (segs == cfg.iovMax && d == x.outbound.take d.length && !d.isEmpty)) then
            throw s!"writev {c} at close: offered bytes are not the buffered bytes"
          if err != "nil" then pure {}
          else
            let k := n.toNat
            modConn c fun x => { x with outbound := x.outbound.drop k, toKernel := x.toKernel ++ d.take k }
            exec fuel (.closeFlush c)
        | t => mismatch s!"sys writev {c} (flush at close)" t
    | .handleAction c action =>
      if action == 1 then exec fuel (.close c true)
      else if action == 2 then pure { code := .shutdown }
      else pure {}
    | .wake c => do
      let _ ← expectEnter "wake" c
      let x ← getConn c
      if !x.opened || !x.registered then pure {}
      else
        match ← pop with
        | .cb "OnTraffic" c' readable _ _ =>
          if c' != c then throw s!"OnTraffic for {c'} instead of {c}"
          if readable != x.inbound.length + x.buffer.length then throw s!"OnTraffic (wake) {c}: readable mismatch"
          modConn c fun x => { x with word := x.word ++ ["traffic"] }
        | t => mismatch s!"cb OnTraffic {c} (wake)" t
        let r ← exec fuel (.callback "traffic" c)
        exec fuel (.handleAction c r.n)
    | .flush c => do
      let r ← exec fuel (.elWrite c)
      if r.code != .nil then pure r else
      let x ← getConn c
      if x.opened && !cfg.isET && !x.outbound.isEmpty then
        noteSys c
        match ← pop with
        | .sysCtl "ModReadWrite" c' e =>
          if c' != c then throw s!"expected epoll_ctl ModReadWrite {c}"
          if e != "nil" then
            let _ ← exec fuel (.close c false)
            pure { code := .err, errName := "other" }
          else pure {}
        | t => mismatch s!"sys epoll_ctl ModReadWrite {c} (Flush)" t
      else pure {}
    | .connWrite c data => do
      let x ← getConn c
      if !x.opened then pure { code := .err, n := 0, errName := "closed" }
      else if !x.outbound.isEmpty then
        modConn c fun x => { x with outbound := x.outbound ++ data, accepted := x.accepted ++ data }
        pure { n := data.length }
      else
        modConn c fun x => { x with accepted := x.accepted ++ data }
        exec fuel (.connWriteLoop c data data.length)
    | .connWriteLoop c data total => do
      noteSys c
      match ← pop with
      | .sysWrite c' d n err =>
        if c' != c || d != data then throw s!"Write on {c}: expected write(2) of the {data.length} given bytes, trace has write {c'} of {d.length} bytes"
        if err != "nil" then
          if err == "EAGAIN" then
            modConn c fun x => { x with outbound := x.outbound ++ data }
            if !cfg.isET then
              noteSys c
              match ← pop with
              | .sysCtl "ModReadWrite" c'' e =>
                if c'' != c then throw s!"expected epoll_ctl ModReadWrite {c}"
                if e != "nil" then
                  let _ ← exec fuel (.close c false)
                  pure { code := .err, n := total, errName := "other" }
                else pure { n := total }
              | t => mismatch s!"sys epoll_ctl ModReadWrite {c}" t
            else pure { n := total }
          else
            -- the bytes not handed to the kernel are not accepted
            modConn c fun x => { x with accepted := x.accepted.take (x.accepted.length - data.length) }
            let _ ← exec fuel (.close c false)
            pure { code := .err, n := 0, errName := "other" }
        else
          let k := n.toNat
          modConn c fun x => { x with toKernel := x.toKernel ++ data.take k }
          let rest := data.drop k
          if cfg.isET && !rest.isEmpty then exec fuel (.connWriteLoop c rest total)
          else if !rest.isEmpty then
            modConn c fun x => { x with outbound := x.outbound ++ rest }
            noteSys c
            match ← pop with
            | .sysCtl "ModReadWrite" c'' e =>
              if c'' != c then throw s!"expected epoll_ctl ModReadWrite {c}"
              if e != "nil" then
                let _ ← exec fuel (.close c false)
                pure { code := .err, n := total, errName := "other" }
              else pure { n := total }
            | t => mismatch s!"sys epoll_ctl ModReadWrite {c}" t
          else pure { n := total }
      | t => mismatch s!"sys write {c} (Write)" t
    | .connWritev c segs => do
      let x ← getConn c
      let total := (segs.map List.length).sum
      if !x.opened then pure { code := .err, n := 0, errName := "closed" }
      else if !x.outbound.isEmpty then
        modConn c fun x => { x with outbound := x.outbound ++ segs.flatten, accepted := x.accepted ++ segs.flatten }
        pure { n := total }
      else
        modConn c fun x => { x with accepted := x.accepted ++ segs.flatten }
        exec fuel (.connWritevLoop c segs total)
    | .connWritevLoop c segs total => do
      noteSys c
      let offered := (segs.take cfg.iovMax).flatten
      match ← pop with
      | .sysWritev c' ns d n err =>
        if c' != c || d != offered || ns != min segs.length cfg.iovMax then
          throw s!"Writev on {c}: expected writev(2) of {min segs.length cfg.iovMax} segments / {offered.length} bytes, trace has {ns} segments / {d.length} bytes"
        let remaining := segs.flatten
        if err != "nil" then
          if err == "EAGAIN" then
            modConn c fun x => { x with outbound := x.outbound ++ remaining }
            if !cfg.isET then
              noteSys c
              match ← pop with
              | .sysCtl "ModReadWrite" c'' e =>
                if c'' != c then throw s!"expected epoll_ctl ModReadWrite {c}"
                if e != "nil" then
                  let _ ← exec fuel (.close c false)
                  pure { code := .err, n := total, errName := "other" }
                else pure { n := total }
              | t => mismatch s!"sys epoll_ctl ModReadWrite {c}" t
            else pure { n := total }
          else
            modConn c fun x => { x with accepted := x.accepted.take (x.accepted.length - remaining.length) }
            let _ ← exec fuel (.close c false)
            pure { code := .err, n := 0, errName := "other" }
        else
          let k := n.toNat
          modConn c fun x => { x with toKernel := x.toKernel ++ d.take k }
          let rest := dropSegs segs k
          let restLen := (rest.map List.length).sum
          if cfg.isET && restLen > 0 then exec fuel (.connWritevLoop c rest total)
          else if restLen > 0 then
            modConn c fun x => { x with outbound := x.outbound ++ rest.flatten }
            noteSys c
            match ← pop with
            | .sysCtl "ModReadWrite" c'' e =>
              if c'' != c then throw s!"expected epoll_ctl ModReadWrite {c}"
              if e != "nil" then
                let _ ← exec fuel (.close c false)
                pure { code := .err, n := total, errName := "other" }
              else pure { n := total }
            | t => mismatch s!"sys epoll_ctl ModReadWrite {c}" t
          else pure { n := total }
      | t => mismatch s!"sys writev {c} (Writev)" t
    | .callback kind c => do
      -- the user's handler: every hop is an input (what it calls) plus a prediction (what it gets back)
      match ← pop with
      | .ret out action =>
        if kind == "open" then
          if !(← getConn c).opened then pure {} else    -- closed inside OnOpen
          match out with
          | some buf =>
            modConn c fun x => { x with accepted := x.accepted ++ buf }
            let r ← exec fuel (.connOpen c buf)
            if r.code != .nil then
              let r' ← exec fuel (.close c false)
              pure r'
            else
              let x ← getConn c
              if !x.outbound.isEmpty && !cfg.isET then
                noteSys c
                match ← pop with
                | .sysCtl "ModReadWrite" c' e =>
                  if c' != c then throw s!"expected epoll_ctl ModReadWrite {c}"
                  if e != "nil" then exec fuel (.close c false) else exec fuel (.handleAction c action)
                | t => mismatch s!"sys epoll_ctl ModReadWrite {c} (open)" t
              else exec fuel (.handleAction c action)
          | none =>
            let x ← getConn c
            if !x.outbound.isEmpty && !cfg.isET then
              noteSys c
              match ← pop with
              | .sysCtl "ModReadWrite" c' e =>
                if c' != c then throw s!"expected epoll_ctl ModReadWrite {c}"
                if e != "nil" then exec fuel (.close c false) else exec fuel (.handleAction c action)
              | t => mismatch s!"sys epoll_ctl ModReadWrite {c} (open)" t
            else exec fuel (.handleAction c action)
        else pure { n := action }
      | .hop op arg => do
        let x ← getConn c
        let all := x.inbound ++ x.buffer
        let consume (k : Nat) : M Unit := modConn c fun x =>
          { x with consumed := x.consumed ++ (x.inbound ++ x.buffer).take k,
                   inbound := x.inbound.drop k, buffer := x.buffer.drop (k - x.inbound.length) }
        let argN : Int := arg.toInt?.getD 0
        match op with
        | "read" =>
          let want := argN.toNat
          let k := min want all.length
          let e := if x.inbound.isEmpty && k == 0 && want > 0 then "shortbuffer" else "nil"
          checkHop op k e (all.take k)
          consume k
        | "next" =>
          if argN > all.length then checkHop op 0 "shortbuffer" []
          else
            let k := if argN ≤ 0 then all.length else argN.toNat
            checkHop op k "nil" (all.take k)
            consume k
        | "peek" =>
          if argN > all.length then checkHop op 0 "shortbuffer" []
          else
            let k := if argN ≤ 0 then all.length else argN.toNat
            checkHop op k "nil" (all.take k)
        | "discard" =>
          let k := if argN ≥ all.length || argN ≤ 0 then all.length else argN.toNat
          checkHop op k "nil" []
          consume k
        | "inbuf" => checkHop op all.length "nil" []
        | "outbuf" => checkHop op x.outbound.length "nil" []
        | "writeto" =>
          -- how much the scripted writer took is an input; it must be a prefix of the readable bytes
          let (n, _, data) ← popRes op
          let k := n.toNat
          if data != all.take k || data.length != k then throw s!"WriteTo on {c}: the writer received bytes that are not the next {k} readable bytes"
          consume k
        | "readfrom" | "readbulk" =>
          -- how much the reader delivered is an input; exactly those bytes are appended
          let (n, _, _) ← popRes op
          let k := n.toNat
          let pos := (← get).freshPos
          modify fun s => { s with freshPos := pos + k }
          modConn c fun x => { x with outbound := x.outbound ++ fresh pos k, accepted := x.accepted ++ fresh pos k }
        | "write" =>
          let r ← exec fuel (.connWrite c (parseHexSegs arg).flatten)
          checkHop op r.n r.errName []
        | "writev" =>
          let r ← exec fuel (.connWritev c (parseHexSegs arg))
          checkHop op r.n r.errName []
        | "flush" =>
          let r ← exec fuel (.flush c)
          checkHop op 0 (if r.code == .nil then "nil" else r.errName) []
        | "asyncwrite" =>
          modify fun s => { s with tasks := s.tasks ++ [.asyncWrite c (parseHexSegs arg).flatten] }
          checkHop op 0 "nil" []
        | "asyncwritev" =>
          modify fun s => { s with tasks := s.tasks ++ [.asyncWritev c (parseHexSegs arg)] }
          checkHop op 0 "nil" []
        | "wake" =>
          modify fun s => { s with tasks := s.tasks ++ [.wake c] }
          checkHop op 0 "nil" []
        | "close" =>
          modify fun s => { s with tasks := s.tasks ++ [.close c] }
          checkHop op 0 "nil" []
        | "elclose" =>
          let r ← exec fuel (.close c true)
          checkHop op 0 (if r.code == .err then "other" else "nil") []
        | "addr" => let _ ← popRes op; pure ()
        | "dup" =>
          -- Conn.Dup(): dup(2) on the descriptor of `c`. The duplicate belongs to the user: it enters
          -- no ledger and changes no model state. The call itself is a system call on c's descriptor,
          -- so the ledger must hold it open (a dup after the framework closed it is rejected)
          if !x.fdOpen then throw s!"dup on {c} although the framework has closed this descriptor"
          noteSys c
          match ← pop with
          | .sysDup fd _ err =>
            if fd != c then throw s!"dup on {fd} instead of {c}"
            checkHop op 0 (if err == "nil" then "nil" else "other") []
          | t => mismatch s!"sys dup {c}" t
        | _ => throw s!"unknown hop {op}"
        exec fuel (.callback kind c)
      | t => mismatch s!"hop or ret (inside {kind} callback of {c})" t
    | .readUDP l => do
      match ← pop with
      | .sysRecvfrom l' n err src data =>
        if l' != l then throw s!"recvfrom on {l'} instead of {l}"
        if err != "nil" then pure {}
        else
          -- a fresh transient connection named after the listener carries exactly this datagram
          let _ := n
          modify fun s => { s with conns := (s.conns.filter (·.1 != l)) ++ [(l, { opened := true, buffer := data, delivered := data })] }
          match ← pop with
          | .cb "OnTraffic" c' readable _ remote =>
            if c' != l then throw s!"OnTraffic for {c'} instead of the UDP socket {l}"
            if readable != data.length then throw s!"UDP OnTraffic: {readable} bytes readable, the datagram has {data.length}"
            if remote != src then throw s!"UDP OnTraffic: RemoteAddr {remote}, datagram source {src}"
            exec fuel (.udpCallback l src)
          | t => mismatch s!"cb OnTraffic (UDP) {l}" t
      | t => mismatch s!"sys recvfrom {l}" t
    | .udpCallback l src => do
      match ← pop with
      | .ret _ action =>
        modify fun s => { s with conns := s.conns.filter (·.1 != l) }    -- release of the transient connection
        if action == 2 then pure { code := .shutdown } else pure {}
      | .hop op arg => do
        let x ← getConn l
        let all := x.buffer
        let argN : Int := arg.toInt?.getD 0
        match op with
        | "read" =>
          let k := min argN.toNat all.length
          checkHop op k (if k == 0 && argN > 0 then "shortbuffer" else "nil") (all.take k)
          modConn l fun x => { x with consumed := x.consumed ++ x.buffer.take k, buffer := x.buffer.drop k }
        | "next" =>
          if argN > all.length then checkHop op 0 "shortbuffer" []
          else
            let k := if argN ≤ 0 then all.length else argN.toNat
            checkHop op k "nil" (all.take k)
            modConn l fun x => { x with consumed := x.consumed ++ x.buffer.take k, buffer := x.buffer.drop k }
        | "peek" =>
          if argN > all.length then checkHop op 0 "shortbuffer" []
          else
            let k := if argN ≤ 0 then all.length else argN.toNat
            checkHop op k "nil" (all.take k)
        | "discard" =>
          let k := if argN ≥ all.length || argN ≤ 0 then all.length else argN.toNat
          checkHop op k "nil" []
          modConn l fun x => { x with consumed := x.consumed ++ x.buffer.take k, buffer := x.buffer.drop k }
        | "inbuf" => checkHop op all.length "nil" []
        | "write" =>
          let payload := (parseHexSegs arg).flatten
          match ← pop with
          | .sysSendto l' d dst e =>
            if l' != l || d != payload || dst != src then throw s!"UDP Write: expected one sendto of the given {payload.length} bytes to {src}, trace has {d.length} bytes to {dst}"
            checkHop op (if e == "nil" then payload.length else 0) (if e == "nil" then "nil" else "other") []
          | t => mismatch s!"sys sendto {l}" t
        | _ => throw s!"unsupported UDP hop {op}"
        exec fuel (.udpCallback l src)
      | t => mismatch s!"hop or ret (UDP callback)" t
    | .closeConns => do
      -- registry iteration order is the environment's choice: follow the trace
      match ← peekTok with
      | some (.enter "close" c _) =>
        let _ ← exec fuel (.close c true)
        exec fuel .closeConns
      | _ => pure {}

/-- is `t` a queued asynchronous write or writev of connection `c`? (AsyncWrite and AsyncWritev
    tasks of one connection are carried out in the order they were issued) -/
def isAsyncOut (c : String) : Task → Bool
  | .asyncWrite c' _ => c' == c
  | .asyncWritev c' _ => c' == c
  | _ => false

/-- one top-level item of a round: an event dispatch or a queued task -/
def topLevel (fuel : Nat) : M Code := do
  match ← peekTok with
  | none => pure .nil
  | some t =>
    match t with
    | .enter "accept" l _ => do let r ← exec fuel (.accept l); pure r.code
    | .enter "processIO" c a => do
      let _ ← pop
      let r ← exec fuel (.processIO c (a.toNat?.getD 0)); pure r.code
    | .enter "asyncWrite" c _ => do
      let _ ← pop
      -- the oldest queued asynchronous write or writev of this connection takes effect now; it
      -- must be a plain write (AsyncWrite and AsyncWritev tasks share one FIFO queue)
      let s ← get
      match s.tasks.find? (isAsyncOut c) with
      | some (.asyncWrite _ data) =>
        set { s with tasks := s.tasks.erase (.asyncWrite c data) }
        let x ← getConn c
        if !x.opened then pure .nil
        else
          let r ← exec fuel (.connWrite c data)
          pure (if r.code == .shutdown then .shutdown else .nil)
      | some (.asyncWritev _ _) =>
        throw s!"asyncWrite task for {c} runs but the oldest pending asynchronous write of {c} is a writev (asynchronous writes must be carried out in issue order)"
      | _ => throw s!"asyncWrite task for {c} runs but no asynchronous write is pending"
    | .enter "asyncWritev" c _ => do
      let _ ← pop
      -- the same for Conn.AsyncWritev: the task function performs c.writev(segments)
      let s ← get
      match s.tasks.find? (isAsyncOut c) with
      | some (.asyncWritev _ segs) =>
        set { s with tasks := s.tasks.erase (.asyncWritev c segs) }
        let x ← getConn c
        if !x.opened then pure .nil
        else
          let r ← exec fuel (.connWritev c segs)
          pure (if r.code == .shutdown then .shutdown else .nil)
      | some (.asyncWrite _ _) =>
        throw s!"asyncWritev task for {c} runs but the oldest pending asynchronous write of {c} is a plain write (asynchronous writes must be carried out in issue order)"
      | _ => throw s!"asyncWritev task for {c} runs but no asynchronous writev is pending"
    | .enter "wake" c _ => do
      modify fun s => { s with tasks := s.tasks.erase (.wake c) }
      let r ← exec fuel (.wake c); pure r.code
    | .enter "close" c _ => do
      modify fun s => { s with tasks := s.tasks.erase (.close c) }
      let r ← exec fuel (.close c true); pure r.code
    | .enter "read0" c _ => do
      let _ ← pop
      modify fun s => { s with tasks := s.tasks.erase (.read0 c) }
      let r ← exec fuel (.elRead c); pure r.code
    | .enter "write0" c _ => do
      let _ ← pop
      modify fun s => { s with tasks := s.tasks.erase (.write0 c) }
      let r ← exec fuel (.elWrite c); pure r.code
    | .sysCtl "Delete" _ _ => do let _ ← pop; pure .nil      -- event of a stale descriptor
    | .enter "closeConns" _ _ => do
      let _ ← pop
      let _ ← exec fuel .closeConns
      if (← get).conns.any (·.2.registered) then throw "closeConns left a registered connection"
      pure .nil
    | .exit _ => do
      let _ ← pop
      modify fun s => { s with exited := true }
      pure .nil
    | t => throw s!"unexpected token at the top level of a round: {repr t}"

/-- after `Polling` has returned (shutdown sentinel or Shutdown action, or a fatal accept error)
    the loop only closes its connections and exits -/
def finish (fuel : Nat) : M Unit := do
  match ← peekTok with
  | some (.enter "closeConns" _ _) =>
    let _ ← pop
    let _ ← exec fuel .closeConns
    -- closeConns iterates the whole registry: nothing may stay registered
    if (← get).conns.any (·.2.registered) then throw "closeConns left a registered connection"
    match ← pop with
    | .exit _ => modify fun s => { s with exited := true }
    | t => mismatch "exit" t
  | some t => mismatch "enter closeConns (the loop has left Polling)" t
  | none => throw "trace ended although the loop has left Polling"

/-- a whole round -/
def round : Nat → M Unit
  | 0 => throw "out of fuel"
  | fuel + 1 => do
    match ← peekTok with
    | none => pure ()
    | some _ =>
      let code ← topLevel (fuel + 1)
      if code == .shutdown || code == .acceptErr then
        finish (fuel + 1)
        match ← peekTok with
        | none => pure ()
        | some t => mismatch "end of trace after the loop exited" t
      else round fuel

/-- accept the tokens of one round from state `s` -/
def acceptRound (s : RState) (toks : List Tok) : Except String RState :=
  let fuel := 4 * toks.length + 64
  match (round fuel).run { s with toks := toks } with
  | .ok (_, s') => .ok s'
  | .error e => .error e

end Gnet.Reactor
