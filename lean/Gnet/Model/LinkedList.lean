/-
  Executable model of `pkg/buffer/linkedlist/linked_list_buffer.go`.
  The singly linked list of nodes is a `List` of segments; the cached counters `size` and
  `bytes` are separate fields updated exactly where the Go code updates them, so that
  "counters agree with the list" is a theorem. A segment carries an ownership tag:
  `true` = its memory was allocated by the buffer (copy), `false` = it aliases the caller's
  slice (`Append`).
-/
import Gnet.Basic
import Gnet.Gen.Facts
import Gnet.Spec.Fifo
import Gnet.Spec.SegFifo

namespace Gnet

structure Seg (α : Type) where
  data : List α
  owned : Bool
  deriving Repr, DecidableEq

structure LL (α : Type) where
  segs : List (Seg α)
  size : Int
  bytes : Int
  deriving Repr, DecidableEq

namespace LL
variable {α : Type}

def maxInt32 : Nat := 2147483647
def minRead : Nat := Facts.llMinRead

def empty : LL α := ⟨[], 0, 0⟩

/-- `pop` -/
def pop (l : LL α) : Option (Seg α) × LL α :=
  match l.segs with
  | [] => (none, l)
  | b :: rest => (some b, ⟨rest, l.size - 1, l.bytes - b.data.length⟩)

/-- `pushFront` -/
def pushFront (l : LL α) (b : Seg α) : LL α := ⟨b :: l.segs, l.size + 1, l.bytes + b.data.length⟩

/-- `pushBack` -/
def pushBack (l : LL α) (b : Seg α) : LL α := ⟨l.segs ++ [b], l.size + 1, l.bytes + b.data.length⟩

def len (l : LL α) : Int := l.size
def buffered (l : LL α) : Int := l.bytes
def isEmpty (l : LL α) : Bool := l.segs.isEmpty

/-- `Append(p)` keeps the caller's slice -/
def append (l : LL α) (p : List α) : LL α := if p.length = 0 then l else l.pushBack ⟨p, false⟩
/-- `PushBack(p)` copies -/
def pushBackCopy (l : LL α) (p : List α) : LL α := if p.length = 0 then l else l.pushBack ⟨p, true⟩
/-- `PushFront(p)` copies -/
def pushFrontCopy (l : LL α) (p : List α) : LL α := if p.length = 0 then l else l.pushFront ⟨p, true⟩

/-- `Pop()` -/
def popBytes (l : LL α) : Option (List α) × LL α :=
  match l.pop with
  | (none, l') => (none, l')
  | (some b, l') => (some b.data, l')

/-- the loop of `Read(p)`: `want` = free room left in `p`; returns bytes copied -/
def readLoop (segs : List (Seg α)) (size bytes : Int) (want : Nat) : List α × LL α :=
  match segs with
  | [] => ([], ⟨[], size, bytes⟩)
  | b :: rest =>
    -- pop
    let size := size - 1
    let bytes := bytes - b.data.length
    let m := min want b.data.length
    if m < b.data.length then
      -- re-slice and push back to the front; then n == len(p) holds
      (b.data.take m, ⟨⟨b.data.drop m, b.owned⟩ :: rest, size + 1, bytes + (b.data.length - m : Nat)⟩)
    else if want - m = 0 then (b.data, ⟨rest, size, bytes⟩)
    else
      let (d, l') := readLoop rest size bytes (want - m)
      (b.data ++ d, l')

/-- `Read(p)` with `len(p) = n` -/
def read (l : LL α) (n : Nat) : LL α × List α × Err :=
  if n = 0 then (l, [], .nil)
  else
    let (d, l') := readLoop l.segs l.size l.bytes n
    (l', d, if d.length = 0 then .eof else .nil)

/-- the segment loop shared by `Peek` and `PeekWithBytes` -/
def peekLoop (segs : List (List α)) (cum maxBytes : Nat) : List (List α) × Nat :=
  match segs with
  | [] => ([], cum)
  | b :: rest =>
    let off := if cum + b.length > maxBytes then maxBytes - cum else b.length
    if cum + off = maxBytes then ([b.take off], cum + off)
    else
      let (r, c) := peekLoop rest (cum + off) maxBytes
      (b.take off :: r, c)

/-- `Peek(maxBytes)` -/
def peek (l : LL α) (n : Int) : List (List α) × Err :=
  if n ≤ 0 ∨ n = maxInt32 then ((peekLoop (l.segs.map (·.data)) 0 maxInt32).1, .nil)
  else if n > l.buffered then ([], .shortBuffer)
  else ((peekLoop (l.segs.map (·.data)) 0 n.toNat).1, .nil)

/-- first loop of `PeekWithBytes`: skips empty slices, stops when `maxBytes` is reached -/
def pwbLoop (bs : List (List α)) (cum maxBytes : Nat) : List (List α) × Nat × Bool :=
  match bs with
  | [] => ([], cum, false)
  | b :: rest =>
    if b.length > 0 then
      let off := if cum + b.length > maxBytes then maxBytes - cum else b.length
      if cum + off = maxBytes then ([b.take off], cum + off, true)
      else
        let (r, c, done) := pwbLoop rest (cum + off) maxBytes
        (b.take off :: r, c, done)
    else pwbLoop rest cum maxBytes

/-- `PeekWithBytes(maxBytes, bs...)` -/
def peekWithBytes (l : LL α) (n : Int) (bs : List (List α)) : List (List α) × Err :=
  let total : Int := l.buffered + ((bs.map List.length).sum : Nat)
  if n > 0 ∧ n ≠ maxInt32 ∧ n > total then ([], .shortBuffer)
  else
    let mx : Nat := if n ≤ 0 ∨ n = maxInt32 then maxInt32 else n.toNat
    let (r, cum, done) := pwbLoop bs 0 mx
    if done then (r, .nil)
    else (r ++ (peekLoop (l.segs.map (·.data)) cum mx).1, .nil)

/-- the loop of `Discard(n)` -/
def discardLoop (segs : List (Seg α)) (size bytes : Int) (n : Nat) (discarded : Nat) : Nat × LL α :=
  if n = 0 then (discarded, ⟨segs, size, bytes⟩)
  else match segs with
  | [] => (discarded, ⟨[], size, bytes⟩)
  | b :: rest =>
    let size := size - 1
    let bytes := bytes - b.data.length
    if n < b.data.length then
      (discarded + n, ⟨⟨b.data.drop n, b.owned⟩ :: rest, size + 1, bytes + (b.data.length - n : Nat)⟩)
    else discardLoop rest size bytes (n - b.data.length) (discarded + b.data.length)

/-- `Discard(n)` -/
def discard (l : LL α) (n : Int) : LL α × Nat :=
  if n ≤ 0 then (l, 0)
  else
    let (d, l') := discardLoop l.segs l.size l.bytes n.toNat 0
    (l', d)

/-- `ReadFrom(r)`: every iteration offers a fresh `minRead`-byte slice -/
def readFrom (gen : Nat → α) (l : LL α) (pos n : Nat) : List RStep → LL α × Nat × Err × Nat
  | [] => (l, n, .nil, pos)        -- script ran out: (0, EOF)
  | st :: rest =>
    let m := min st.k minRead
    let l' := if m > 0 then l.pushBack ⟨Fifo.fresh gen pos m, true⟩ else l
    if st.err = .eof then (l', n + m, .nil, pos + m)
    else if st.err ≠ .nil then (l', n + m, st.err, pos + m)
    else readFrom gen l' (pos + m) (n + m) rest

/-- one `w.Write(chunk)` of a scripted writer -/
def wstep (script : List WStep) (offered : Nat) : Nat × Err × List WStep :=
  match script with
  | [] => (0, .other 0, [])
  | s :: rest => (min s.k offered, s.err, rest)

/-- the loop of `WriteTo(w)` -/
def writeToLoop (segs : List (Seg α)) (size bytes : Int) (script : List WStep) (n : Nat) (sink : List α) :
    LL α × Nat × Err × List α :=
  match segs with
  | [] => (⟨[], size, bytes⟩, n, .nil, sink)
  | b :: rest =>
    let size := size - 1
    let bytes := bytes - b.data.length
    let (m, err, script') := wstep script b.data.length
    if m < b.data.length then
      (⟨⟨b.data.drop m, b.owned⟩ :: rest, size + 1, bytes + (b.data.length - m : Nat)⟩, n + m,
        (if err = .nil then .shortWrite else err), sink ++ b.data.take m)
    else if err ≠ .nil then (⟨rest, size, bytes⟩, n + m, err, sink ++ b.data)
    else writeToLoop rest size bytes script' (n + m) (sink ++ b.data)

def writeTo (l : LL α) (script : List WStep) : LL α × Nat × Err × List α :=
  writeToLoop l.segs l.size l.bytes script 0 []

/-- `Reset()` -/
def reset (_l : LL α) : LL α := ⟨[], 0, 0⟩

/-- abstract content -/
def abs (l : LL α) : List α := (l.segs.map (·.data)).flatten

/-- representation invariant: counters in step with the list, no empty segment -/
structure WF (l : LL α) : Prop where
  size_eq : l.size = l.segs.length
  bytes_eq : l.bytes = ((l.segs.map (·.data.length)).sum : Nat)
  no_empty : ∀ s ∈ l.segs, s.data ≠ []

/-- one operation of the public API on (buffer, reader position) -/
def step (gen : Nat → α) (s : LL α × Nat) : SegFifo.Op α → (LL α × Nat) × Fifo.Obs α
  | .pushBack p => ((s.1.pushBackCopy p, s.2), ⟨0, .nil, []⟩)
  | .pushFront p => ((s.1.pushFrontCopy p, s.2), ⟨0, .nil, []⟩)
  | .append p => ((s.1.append p, s.2), ⟨0, .nil, []⟩)
  | .pop =>
    let (d, l') := s.1.popBytes
    ((l', s.2), ⟨(d.getD []).length, .nil, d.getD []⟩)
  | .read n =>
    let (l', d, e) := s.1.read n
    ((l', s.2), ⟨d.length, e, d⟩)
  | .peek n =>
    let (ss, e) := s.1.peek n
    (s, ⟨ss.flatten.length, e, ss.flatten⟩)
  | .peekWithBytes n bs =>
    let (ss, e) := s.1.peekWithBytes n bs
    (s, ⟨ss.flatten.length, e, ss.flatten⟩)
  | .discard n =>
    let (l', d) := s.1.discard n
    ((l', s.2), ⟨d, .nil, []⟩)
  | .readFrom sc =>
    let (l', n, e, pos') := s.1.readFrom gen s.2 0 sc
    ((l', pos'), ⟨n, e, []⟩)
  | .writeTo sc =>
    let (l', n, e, sink) := s.1.writeTo sc
    ((l', s.2), ⟨n, e, sink⟩)
  | .reset => ((s.1.reset, s.2), ⟨0, .nil, []⟩)

def run (gen : Nat → α) (s : LL α × Nat) : List (SegFifo.Op α) → (LL α × Nat) × List (Fifo.Obs α)
  | [] => (s, [])
  | op :: ops =>
    let (s', o) := step gen s op
    let (s'', os) := run gen s' ops
    (s'', o :: os)

/-- every segment's memory belongs to the buffer (no caller memory reachable) -/
def AllOwned (l : LL α) : Prop := ∀ s ∈ l.segs, s.owned = true

end LL
end Gnet
