/-
  The drain-and-abort protocol of Model/Drain.lean with the TWO task queues the poller really has
  (pkg/netpoll: urgentAsyncTaskQueue and asyncTaskQueue; `Poller.Trigger` chooses one of them by priority and backlog,
  `Poller.Drain` empties the urgent queue first and then the other one, by whoever calls it):

    loop:      leaves Polling ... closes its connections; exited.Store(true);
               Dequeue(urgent) until empty; Dequeue(normal) until empty; done
    producer:  Enqueue(task) into one of the two queues; if exited.Load() { Dequeue(urgent) until empty;
               Dequeue(normal) until empty }; done

  While it is polling the loop takes tasks from either queue (the real loop prefers the urgent one; the model leaves the
  choice open). Which queue a producer uses is open too. Enqueue and Dequeue are atomic (C13).
-/
namespace Gnet.Drain2

inductive LoopPc where
  | polling
  | leaving
  | drainU        -- exited = true has been stored; emptying the urgent queue
  | drainN        -- found the urgent queue empty; emptying the other one
  | done
  deriving DecidableEq, Repr

inductive ProdPc where
  | idle
  | enqueued      -- Enqueue done, exited not yet loaded
  | drainU        -- exited was true: emptying the urgent queue
  | drainN
  deriving DecidableEq, Repr

structure State where
  loop : LoopPc := .polling
  exited : Bool := false
  qU : List Nat := []               -- urgent queue, oldest first
  qN : List Nat := []               -- the other queue
  prods : List ProdPc
  next : Nat := 0
  ran : List Nat := []
  aborted : List Nat := []
  deriving Repr

def init (nprod : Nat) : State := { prods := List.replicate nprod .idle }

inductive Step where
  | loopRunU | loopRunN            -- polling: take the oldest task of one queue and carry it out
  | loopLeave
  | loopSetExited
  | loopDrain                      -- one Dequeue of the loop's drain
  | enqueue (p : Nat) (urgent : Bool)
  | load (p : Nat)
  | prodDrain (p : Nat)            -- one Dequeue of a producer's drain
  deriving Repr

def setProd (s : State) (p : Nat) (pc : ProdPc) : State := { s with prods := s.prods.set p pc }

def step (s : State) : Step → State
  | .loopRunU =>
    if s.loop = .polling then
      match s.qU with
      | t :: q => { s with qU := q, ran := s.ran ++ [t] }
      | [] => s
    else s
  | .loopRunN =>
    if s.loop = .polling then
      match s.qN with
      | t :: q => { s with qN := q, ran := s.ran ++ [t] }
      | [] => s
    else s
  | .loopLeave => if s.loop = .polling then { s with loop := .leaving } else s
  | .loopSetExited => if s.loop = .leaving then { s with loop := .drainU, exited := true } else s
  | .loopDrain =>
    if s.loop = .drainU then
      match s.qU with
      | t :: q => { s with qU := q, aborted := s.aborted ++ [t] }
      | [] => { s with loop := .drainN }
    else if s.loop = .drainN then
      match s.qN with
      | t :: q => { s with qN := q, aborted := s.aborted ++ [t] }
      | [] => { s with loop := .done }
    else s
  | .enqueue p urgent =>
    if s.prods[p]? = some .idle then
      if urgent then { setProd s p .enqueued with qU := s.qU ++ [s.next], next := s.next + 1 }
      else { setProd s p .enqueued with qN := s.qN ++ [s.next], next := s.next + 1 }
    else s
  | .load p =>
    if s.prods[p]? = some .enqueued then setProd s p (if s.exited then .drainU else .idle) else s
  | .prodDrain p =>
    if s.prods[p]? = some .drainU then
      match s.qU with
      | t :: q => { s with qU := q, aborted := s.aborted ++ [t] }
      | [] => setProd s p .drainN
    else if s.prods[p]? = some .drainN then
      match s.qN with
      | t :: q => { s with qN := q, aborted := s.aborted ++ [t] }
      | [] => setProd s p .idle
    else s

def run (s : State) : List Step → State
  | [] => s
  | a :: rest => run (step s a) rest

def Reachable (s : State) : Prop := ∃ n steps, s = run (init n) steps

def Quiescent (s : State) : Bool := s.loop == .done && s.prods.all (· == .idle)

end Gnet.Drain2
