/-
  Model of the engine life cycle (engine_unix.go: run / start / stop / shutdown, gnet.go: the
  control API of `Engine`, reactor_default.go: what a loop does when it leaves `Polling`).

  Part 1: the control API as a decision table over the engine phase.
  Part 2: a small-step system of the goroutines involved in a shutdown (the `stop` goroutine
          started by `run`, the event loops, the ticker) with a ghost trace of callbacks.
  Part 3: an acceptor for the coarse traces the real engine produces in the runs.
-/
namespace Gnet.Engine

/-- phase of an engine handle as the user sees it -/
inductive Phase where
  | never      -- zero value `Engine{}`: never started
  | booting    -- inside OnBoot: handle valid, event loops not yet registered
  | running
  | down       -- shutdown has completed (`inShutdown` set)
  deriving Repr, DecidableEq, Inhabited

inductive Call where
  | validate | count | dup | registerNoTarget | dupListenerUnknown | stop
  | dupListenerKnown      -- DupListener with the network and address of one of the listeners
  deriving Repr, DecidableEq

inductive Res where
  | nil | empty | inShutdown | invalidAddr | minusOne | number
  | unsupported           -- errorx.ErrUnsupportedOp
  deriving Repr, DecidableEq

/-- `Engine.Validate` -/
def validate : Phase → Res
  | .never => .empty
  | .down => .inShutdown
  | _ => .nil

/-- the control API (gnet.go), for calls whose arguments are otherwise fine -/
def api (ph : Phase) : Call → Res
  | .validate => validate ph
  | .count => if validate ph = .nil then .number else .minusOne
  | .dup => validate ph                      -- one listener
  | .registerNoTarget =>
    if validate ph ≠ .nil then validate ph
    else if ph = .booting then .empty        -- no event loop registered yet
    else .invalidAddr                        -- context without connection or address
  | .dupListenerUnknown => if validate ph ≠ .nil then validate ph else .invalidAddr
  | .stop => validate ph                     -- a running engine: see the small-step system
  | .dupListenerKnown => validate ph

/-- the control API of an engine with more than one listener (`Rotate`): `Dup` cannot choose -/
def apiMulti (ph : Phase) (c : Call) : Res :=
  if c = .dup ∧ validate ph = .nil then .unsupported else api ph c

/-! ### Part 2: shutdown as a small-step system -/

inductive LoopSt where
  | running
  | closing     -- left Polling: closeConns in progress
  | exited
  deriving Repr, DecidableEq, Inhabited

inductive StopPc where
  | waitCtx | onShutdown | postSentinels | waitGroup | closeLoops | setFlag | returned
  deriving Repr, DecidableEq, Inhabited

inductive Cb where
  | open (c : Nat) | traffic (c : Nat) | close (c : Nat) | tick | shutdown
  deriving Repr, DecidableEq

structure Loop where
  st : LoopSt := .running
  sentinel : Bool := false      -- the shutdown task is in its queue
  conns : List Nat := []        -- opened, not yet closed
  deriving Repr, Inhabited

structure State where
  loops : List Loop
  ctxCancelled : Bool := false
  tickerAlive : Bool
  stopPc : StopPc := .waitCtx
  inShutdown : Bool := false
  trace : List Cb := []          -- ghost: callbacks in the order they ran
  nextConn : Nat := 0
  deriving Repr

def init (nloops : Nat) (ticker : Bool) : State :=
  { loops := List.replicate nloops {}, tickerAlive := ticker }

inductive Step where
  | accept (l : Nat)                 -- loop l opens a new connection
  | traffic (l : Nat) (c : Nat)
  | peerClose (l : Nat) (c : Nat)
  | requestStop                      -- Engine.Stop / Stop / anything calling engine.shutdown: cancels the context
  | actionShutdown (l : Nat)         -- a callback on loop l returns Shutdown: the loop leaves Polling
  | runSentinel (l : Nat)            -- loop l executes the queued shutdown task and leaves Polling
  | closeOne (l : Nat)               -- closeConns: next open connection gets OnClose
  | loopExit (l : Nat)               -- closeConns done: engine.shutdown(err) and return
  | tick
  | tickerExit
  | stopper                          -- the next statement of engine.stop
  deriving Repr

def setLoop (s : State) (l : Nat) (x : Loop) : State := { s with loops := s.loops.set l x }

def allExited (s : State) : Bool := s.loops.all (·.st == .exited) && !s.tickerAlive

def step (s : State) : Step → State
  | .accept l =>
    match s.loops[l]? with
    | some x => if x.st = .running then
        let c := s.nextConn
        { setLoop s l { x with conns := x.conns ++ [c] } with nextConn := c + 1, trace := s.trace ++ [.open c] }
      else s
    | none => s
  | .traffic l c =>
    match s.loops[l]? with
    | some x => if x.st = .running ∧ c ∈ x.conns then { s with trace := s.trace ++ [.traffic c] } else s
    | none => s
  | .peerClose l c =>
    match s.loops[l]? with
    | some x => if x.st = .running ∧ c ∈ x.conns then
        { setLoop s l { x with conns := x.conns.erase c } with trace := s.trace ++ [.close c] }
      else s
    | none => s
  | .requestStop => { s with ctxCancelled := true }
  | .actionShutdown l =>
    match s.loops[l]? with
    | some x => if x.st = .running then setLoop s l { x with st := .closing } else s
    | none => s
  | .runSentinel l =>
    match s.loops[l]? with
    | some x => if x.st = .running ∧ x.sentinel then setLoop s l { x with st := .closing } else s
    | none => s
  | .closeOne l =>
    match s.loops[l]? with
    | some x =>
      if x.st = .closing then
        match x.conns with
        | c :: rest => { setLoop s l { x with conns := rest } with trace := s.trace ++ [.close c] }
        | [] => s
      else s
    | none => s
  | .loopExit l =>
    match s.loops[l]? with
    | some x => if x.st = .closing ∧ x.conns = [] then
        { setLoop s l { x with st := .exited } with ctxCancelled := true }   -- engine.shutdown -> turnOff
      else s
    | none => s
  | .tick => if s.tickerAlive ∧ ¬ s.ctxCancelled then { s with trace := s.trace ++ [.tick] } else s
  | .tickerExit => if s.tickerAlive ∧ s.ctxCancelled then { s with tickerAlive := false } else s
  | .stopper =>
    match s.stopPc with
    | .waitCtx => if s.ctxCancelled then { s with stopPc := .onShutdown } else s
    | .onShutdown => { s with stopPc := .postSentinels, trace := s.trace ++ [.shutdown] }
    | .postSentinels => { s with stopPc := .waitGroup, loops := s.loops.map fun x => { x with sentinel := true } }
    | .waitGroup => if allExited s then { s with stopPc := .closeLoops } else s
    | .closeLoops => { s with stopPc := .setFlag }
    | .setFlag => { s with stopPc := .returned, inShutdown := true }
    | .returned => s

def run (s : State) : List Step → State
  | [] => s
  | a :: rest => run (step s a) rest

def Reachable (s : State) : Prop := ∃ n t steps, s = run (init n t) steps

/-- connections with an OnOpen and no OnClose in a callback trace -/
def openIn (tr : List Cb) : List Nat :=
  tr.foldl (fun acc e => match e with | .open c => acc ++ [c] | .close c => acc.erase c | _ => acc) []

/-! ### Part 3: acceptor for the traces of the real engine -/

inductive Tok where
  | api (ph : String) (call : String) (res : String)
  | boot | shutdown
  | open (c : String) | traffic (c : String) | close (c : String)
  | runreturn (err : String)
  deriving Repr, DecidableEq

structure Acc where
  booted : Bool := false
  shutdowns : Nat := 0
  returned : Bool := false
  live : List String := []
  seen : List String := []
  deriving Repr

def phaseOf : String → Option Phase
  | "never" => some .never | "booting" => some .booting | "running" => some .running | "down" => some .down
  | _ => none

def resStr : Res → String
  | .nil => "nil" | .empty => "empty" | .inShutdown => "inshutdown" | .invalidAddr => "invalidaddr"
  | .minusOne => "-1" | .number => "n" | .unsupported => "unsupported"

def callOf : String → Option Call
  | "validate" => some .validate | "count" => some .count | "dup" => some .dup
  | "register-notarget" => some .registerNoTarget | "duplistener-unknown" => some .dupListenerUnknown
  | "stop" => some .stop
  | "duplistener-known" => some .dupListenerKnown
  | _ => none

/-- one token; `none` = rejected, with the reason -/
def acceptTok (bootShutdown : Bool) (multi : Bool) (a : Acc) : Tok → Except String Acc
  | .api ph call res =>
    if call = "register-result" then (if res = "1" then .ok a else .error s!"Register delivered {res} results")
    else match phaseOf ph, callOf call with
      | some p, some c =>
        let want := if multi then apiMulti p c else api p c
        if resStr want = res then .ok a else .error s!"{call} in phase {ph} returned {res}, the table says {resStr want}"
      | _, _ => .error s!"unknown api probe {ph} {call}"
  | .boot => if a.booted then .error "OnBoot twice" else .ok { a with booted := true }
  | .shutdown =>
    if a.returned then .error "OnShutdown after Run returned"
    else if bootShutdown then .error "OnShutdown although OnBoot asked for shutdown"
    else if a.shutdowns ≥ 1 then .error "OnShutdown twice" else .ok { a with shutdowns := 1 }
  | .open c =>
    if a.returned then .error s!"OnOpen {c} after Run returned"
    else if ¬ a.booted then .error "OnOpen before OnBoot"
    else if c ∈ a.seen then .error s!"OnOpen twice for {c}" else .ok { a with live := c :: a.live, seen := c :: a.seen }
  | .traffic c =>
    if a.returned then .error s!"OnTraffic {c} after Run returned"
    else if c ∈ a.live then .ok a else .error s!"OnTraffic for {c} which is not open"
  | .close c =>
    if a.returned then .error s!"OnClose {c} after Run returned"
    else if c ∈ a.live then .ok { a with live := a.live.erase c } else .error s!"OnClose for {c} which is not open"
  | .runreturn err =>
    if err ≠ "nil" then .error s!"Run returned {err}"
    else if a.live ≠ [] then .error s!"Run returned while {a.live} never saw OnClose"
    else if ¬ bootShutdown ∧ a.shutdowns ≠ 1 then .error "Run returned without OnShutdown"
    else .ok { a with returned := true }

def acceptTrace (bootShutdown : Bool) (multi : Bool) (toks : List Tok) : Except String Acc :=
  toks.foldlM (acceptTok bootShutdown multi) {}

end Gnet.Engine
