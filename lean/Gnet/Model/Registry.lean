/-
  Executable models of the two connection registries:
  `conn_matrix.go` (build tag gc_opt; parametrised by ROWS x COLS) and `conn_map.go`.
  Connection objects are identified by a small integer `id`; the heap `objs` holds the fields
  of `*conn` the registry reads and writes (`fd`, and the position packed into `gfd`).
  `none` as a result = the Go code panics (index into a nil row).
-/
namespace Gnet

/-- the fields of a `*conn` the registry touches -/
structure MConn where
  fd : Int
  el : Nat
  grow : Nat
  gcol : Nat
  deriving Repr, DecidableEq, Inhabited

structure Matrix where
  rows : Nat
  cols : Nat
  disableCompact : Bool
  counts : Nat → Int
  row : Nat
  col : Nat
  table : Nat → Option (Nat → Option Nat)
  fd2gfd : Int → Option (Nat × Nat)
  objs : Nat → MConn

namespace Matrix

def upd {β : Type} (f : Nat → β) (k : Nat) (v : β) : Nat → β := fun i => if i = k then v else f i
def updI {β : Type} (f : Int → β) (k : Int) (v : β) : Int → β := fun i => if i = k then v else f i

def init (rows cols : Nat) : Matrix :=
  { rows, cols, disableCompact := false, counts := fun _ => 0, row := 0, col := 0,
    table := fun _ => none, fd2gfd := fun _ => none, objs := fun _ => default }

/-- the driver creates a connection object -/
def newConn (m : Matrix) (id : Nat) (fd : Int) : Matrix :=
  { m with objs := upd m.objs id ⟨fd, 0, 0, 0⟩ }

/-- `loadCount` -/
def loadCount (m : Matrix) : Int := (List.range m.rows).foldl (fun acc r => acc + m.counts r) 0

/-- `addConn(c, index)` -/
def addConn (m : Matrix) (id : Nat) (el : Nat) : Matrix :=
  if m.row ≥ m.rows then m
  else
    let tr : Nat → Option Nat := match m.table m.row with | none => fun _ => none | some t => t
    let c := m.objs id
    let c' : MConn := { c with el := el % 256, grow := m.row % 256, gcol := m.col % 65536 }
    let m1 := { m with
      objs := upd m.objs id c',
      fd2gfd := updI m.fd2gfd c.fd (some (c'.grow, c'.gcol)),
      table := upd m.table m.row (some (upd tr m.col (some id))),
      counts := upd m.counts m.row (m.counts m.row + 1) }
    if m.col + 1 = m.cols then { m1 with row := m.row + 1, col := 0 } else { m1 with col := m.col + 1 }

/-- clear a cell the way `delConn` does: drop the whole row when its count reached zero.
    `none` = indexing a nil row. -/
def clearCell (m : Matrix) (r c : Nat) : Option Matrix :=
  if m.counts r = 0 then some { m with table := upd m.table r none }
  else match m.table r with
    | none => none
    | some tr => some { m with table := upd m.table r (some (upd tr c none)) }

/-- inner loop: columns `n-1, n-2, …` down to `columnMin + 1`; first occupied column -/
def scanCols (tr : Nat → Option Nat) (columnMin : Int) : Nat → Option Nat
  | 0 => none
  | c + 1 => if (c : Int) > columnMin then (if (tr c).isSome then some c else scanCols tr columnMin c) else none

/-- outer loop: rows `n-1, …` down to `r`; `none` = panic, `some none` = nothing found -/
def scanRows (m : Matrix) (r cl : Nat) : Nat → Option (Option (Nat × Nat))
  | 0 => some none
  | row + 1 =>
    if row ≥ r then
      if m.counts row = 0 then scanRows m r cl row
      else
        let columnMin : Int := if row = r then cl else -1
        if ((m.cols : Int) - 1 > columnMin) then
          match m.table row with
          | none => none
          | some tr =>
            match scanCols tr columnMin m.cols with
            | some c => some (some (row, c))
            | none => scanRows m r cl row
        else scanRows m r cl row
    else some none

/-- `delConn(c)` -/
def delConn (m : Matrix) (id : Nat) : Option Matrix :=
  let c := m.objs id
  let r := c.grow
  let cl := c.gcol
  let m := { m with fd2gfd := updI m.fd2gfd c.fd none, counts := upd m.counts r (m.counts r - 1) }
  match clearCell m r cl with
  | none => none
  | some m =>
    let m := if m.row > r ∨ m.col > cl then { m with row := r, col := cl } else m
    if m.disableCompact ∨ (m.table r).isNone then some m
    else
      match scanRows m r cl m.rows with
      | none => none
      | some none => some m
      | some (some (row, column)) =>
        match m.table row with
        | none => none
        | some trow =>
          match trow column with
          | none => none
          | some mid =>
            let mc := m.objs mid
            let mc' : MConn := { mc with grow := r % 256, gcol := cl % 65536 }
            let m := { m with objs := upd m.objs mid mc',
                              fd2gfd := updI m.fd2gfd mc.fd (some (mc'.grow, mc'.gcol)) }
            match m.table r with
            | none => none
            | some tr =>
              let m := { m with table := upd m.table r (some (upd tr cl (some mid))) }
              let m := { m with counts := upd m.counts row (m.counts row - 1) }
              let m := { m with counts := upd m.counts r (m.counts r + 1) }
              match clearCell m row column with
              | none => none
              | some m => some { m with row := row, col := column }

/-- `getConn(fd)` -/
def getConn (m : Matrix) (fd : Int) : Option Nat :=
  match m.fd2gfd fd with
  | none => none
  | some (r, c) =>
    match m.table r with
    | none => none
    | some tr => tr c

/-- the cells in iteration order (row-major over allocated rows) -/
def cells (m : Matrix) : List (Nat × Nat) :=
  (List.range m.rows).flatMap fun r => (List.range m.cols).map fun c => (r, c)

/-- `iterate(f)` where `f` optionally deletes the visited connection and stops after
    `stopAfter` visits (0 = never). Go ranges over a snapshot of each row slice header, so a
    row dropped during the visit is still walked to its end. Returns visited ids. -/
def iterLoop (del : Bool) (stopAfter : Nat) : List (Nat × Nat) → Matrix → (Nat → Option (Nat → Option Nat)) →
    List Nat → Option (Matrix × List Nat)
  | [], m, _, acc => some (m, acc.reverse)
  | (r, c) :: rest, m, snap, acc =>
    -- the row slice header was read when the row loop started; cell contents are read live
    -- through the shared backing array unless the row has been dropped from the table
    let cell : Option Nat :=
      match snap r with
      | none => none
      | some str => match m.table r with
        | some tr => tr c
        | none => str c
    match cell with
    | none => iterLoop del stopAfter rest m snap acc
    | some id =>
      let acc := id :: acc
      let m' := if del then delConn m id else some m
      match m' with
      | none => none
      | some m' =>
        if stopAfter ≠ 0 ∧ acc.length ≥ stopAfter then some (m', acc.reverse)
        else iterLoop del stopAfter rest m' snap acc

def iterate (m : Matrix) (del : Bool) (stopAfter : Nat) : Option (Matrix × List Nat) :=
  let m0 := { m with disableCompact := true }
  match iterLoop del stopAfter m0.cells m0 m0.table [] with
  | none => none
  | some (m', ids) => some ({ m' with disableCompact := false }, ids)

end Matrix

/-- `conn_map.go`: a plain map -/
structure RegMap where
  conns : Int → Option Nat
  count : Int
  objs : Nat → Int          -- id -> fd
  live : List Int           -- keys, for iteration (order is the environment's choice)

namespace RegMap
def init : RegMap := ⟨fun _ => none, 0, fun _ => 0, []⟩
def newConn (m : RegMap) (id : Nat) (fd : Int) : RegMap := { m with objs := Matrix.upd m.objs id fd }
def addConn (m : RegMap) (id : Nat) : RegMap :=
  let fd := m.objs id
  { m with conns := Matrix.updI m.conns fd (some id), count := m.count + 1,
           live := if m.live.contains fd then m.live else m.live ++ [fd] }
def delConn (m : RegMap) (id : Nat) : RegMap :=
  let fd := m.objs id
  { m with conns := Matrix.updI m.conns fd none, count := m.count - 1, live := m.live.erase fd }
def getConn (m : RegMap) (fd : Int) : Option Nat := m.conns fd
def loadCount (m : RegMap) : Int := m.count
/-- iteration over the live keys in the model's own order (callers compare as sets) -/
def iterate (m : RegMap) (del : Bool) : RegMap × List Nat :=
  m.live.foldl (fun (acc : RegMap × List Nat) fd =>
    match acc.1.conns fd with
    | none => acc
    | some id => (if del then acc.1.delConn id else acc.1, acc.2 ++ [id])) (m, [])
end RegMap

end Gnet

namespace Gnet

/-- operations of the registry as the event loop uses it -/
inductive RegOp where
  | conn (id : Nat) (fd : Int)     -- a connection object comes into being
  | add (id : Nat) (el : Nat)      -- addConn
  | del (id : Nat)                 -- delConn
  | get (fd : Int)                 -- getConn
  | count                          -- loadCount
  | iter (del : Bool)              -- iterate over everything, optionally removing each visited connection
  deriving Repr

/-- what the caller observes -/
inductive RegOut where
  | unit
  | found (id : Option Nat)
  | count (n : Int)
  | visited (ids : List Nat)
  deriving Repr, DecidableEq

namespace Matrix
/-- one operation; `none` = panic -/
def runOp (m : Matrix) : RegOp → Option (Matrix × RegOut)
  | .conn id fd => some (m.newConn id fd, .unit)
  | .add id el => some (m.addConn id el, .unit)
  | .del id => (m.delConn id).map fun m' => (m', .unit)
  | .get fd => some (m, .found (m.getConn fd))
  | .count => some (m, .count m.loadCount)
  | .iter d => (m.iterate d 0).map fun (m', ids) => (m', .visited ids)

def run (m : Matrix) : List RegOp → Option (Matrix × List RegOut)
  | [] => some (m, [])
  | op :: ops =>
    match runOp m op with
    | none => none
    | some (m', o) =>
      match run m' ops with
      | none => none
      | some (m'', os) => some (m'', o :: os)
end Matrix

namespace RegMap
def runOp (m : RegMap) : RegOp → RegMap × RegOut
  | .conn id fd => (m.newConn id fd, .unit)
  | .add id _ => (m.addConn id, .unit)
  | .del id => (m.delConn id, .unit)
  | .get fd => (m, .found (m.getConn fd))
  | .count => (m, .count m.loadCount)
  | .iter d => let (m', ids) := m.iterate d; (m', .visited ids)

def run (m : RegMap) : List RegOp → RegMap × List RegOut
  | [] => (m, [])
  | op :: ops => let (m', o) := runOp m op; let (m'', os) := run m' ops; (m'', o :: os)
end RegMap

/-- the specification: a finite map from descriptor to live connection, as an association
    list with distinct keys, plus the descriptor each connection object was created with -/
structure RegSpec where
  live : List (Int × Nat)
  fdOf : Nat → Int

namespace RegSpec
def init : RegSpec := ⟨[], fun _ => 0⟩

def lookup (s : RegSpec) (fd : Int) : Option Nat := (s.live.find? (fun p => p.1 == fd)).map (·.2)

/-- what gnet's event loop guarantees about its calls: an object is created before it is
    registered and not while it is registered, a descriptor is registered at most once at a
    time, only registered connections are removed, and the matrix is not over capacity -/
def valid (s : RegSpec) (capacity : Nat) : RegOp → Prop
  | .conn id _ => ∀ p ∈ s.live, p.2 ≠ id
  | .add id _ => (∀ p ∈ s.live, p.1 ≠ s.fdOf id ∧ p.2 ≠ id) ∧ s.live.length < capacity
  | .del id => (s.fdOf id, id) ∈ s.live
  | _ => True

def step (s : RegSpec) : RegOp → RegSpec
  | .conn id fd => { s with fdOf := fun i => if i = id then fd else s.fdOf i }
  | .add id _ => { s with live := s.live ++ [(s.fdOf id, id)] }
  | .del id => { s with live := s.live.filter (fun p => p.2 != id) }
  | .iter true => { s with live := [] }
  | _ => s

/-- an observation agrees with the specification state before the operation -/
def agrees (s : RegSpec) : RegOp → RegOut → Prop
  | .get fd, .found r => r = s.lookup fd
  | .count, .count n => n = s.live.length
  | .iter _, .visited ids => ids.Perm (s.live.map (·.2))      -- every live connection exactly once
  | .conn _ _, .unit => True
  | .add _ _, .unit => True
  | .del _, .unit => True
  | _, _ => False

/-- a whole history is valid / its observations agree -/
def validRun (s : RegSpec) (capacity : Nat) : List RegOp → Prop
  | [] => True
  | op :: ops => s.valid capacity op ∧ validRun (s.step op) capacity ops

def agreesRun (s : RegSpec) : List RegOp → List RegOut → Prop
  | [], [] => True
  | op :: ops, o :: os => s.agrees op o ∧ agreesRun (s.step op) ops os
  | _, _ => False
end RegSpec

end Gnet
