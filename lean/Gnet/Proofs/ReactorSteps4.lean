/-
  One level of `exec` for the works started from the top level of a round:
  accept, register0, open, processIO, elRead(Loop), wake, readUDP, udpCallback, closeConns.
-/
import Gnet.Proofs.ReactorSteps3
namespace Gnet.Reactor
variable {A B : Prop}

theorem step_elRead {fuel : Nat} (ih : Specs A B fuel) :
    ∀ ko c s r s', Ok (exec (fuel+1) (.elRead c)) s r s' → Good A B ko s c (Lv A B 2) → Good A B ko s' c (AfterRead A B r) := by
  intro ko c s r s' h hG
  unfold Ok at h
  rw [exec] at h
  mget
  menter
  mconn
  replace hG : Good A B ko s c (Lv A B 2) := hG.mono (by rintro _ rfl; exact hx)
  split at h
  · mret; exact hG.mono (fun _ => AfterRead.of_two)
  · exact ih.elReadLoop _ _ _ _ _ _ h hG

theorem step_elReadLoop {fuel : Nat} (ih : Specs A B fuel) :
    ∀ ko c recv s r s', Ok (exec (fuel+1) (.elReadLoop c recv)) s r s' → Good A B ko s c (Lv A B 2) →
    Good A B ko s' c (AfterRead A B r) := by
  intro ko c recv s r s' h hG
  unfold Ok at h
  rw [exec] at h
  mget
  mnote
  mpop
  msplit
  rename_i c' len n err data
  mguard
  split at h
  · split at h
    · mret; exact hG.mono (fun _ => AfterRead.of_two)
    · exact (ih.close _ _ _ _ _ _ _ h hG).mono (fun _ hx => AfterRead.of_two (Lv.after_close hx))
  mbeta
  extract_lets recv' at h
  mmod (Lv A B 1)
  · exact fun x hx => Lv.deliver data hx
  mconn
  mpop
  msplit
  mguard
  mguard
  mmod (Lv A B 1)
  · rintro _ rfl
    exact Lv.congr hx rfl rfl rfl rfl rfl rfl rfl rfl rfl
  mbeta
  mcall
  replace hG := ih.callback _ _ _ 1 _ _ _ (by simp) hcall hG
  clear hcall
  split at h
  · exact (ih.close _ _ _ _ _ _ _ h hG).mono (fun _ hx => AfterRead.of_two (Lv.closed_of_unreg (Nat.le_refl 1) hx))
  split at h
  · mret
    subst hr
    exact hG.mono (fun x hx => ⟨hx, fun hne => absurd rfl hne⟩)
  clear hx
  mconn
  split at h
  · rename_i hop
    mret
    refine hG.mono ?_
    rintro _ rfl
    exact AfterRead.of_two (Lv.closed (by simpa using hop))
  mmod (Lv A B 2)
  · rintro _ rfl; exact Lv.handover (Nat.le_refl 1) hx
  clear hx
  mconn
  replace hG : Good A B ko s c (Lv A B 2) := hG.mono (by rintro _ rfl; exact hx)
  split at h
  · exact ih.elReadLoop _ _ _ _ _ _ h hG
  split at h
  · have h := modify_bind_inv h
    replace hG := hG.set_tasks (s.tasks ++ [Task.read0 c])
    mret; exact hG.mono (fun _ => AfterRead.of_two)
  · mret; exact hG.mono (fun _ => AfterRead.of_two)

theorem step_processIO {fuel : Nat} (ih : Specs A B fuel) :
    ∀ ko c mask s r s', Ok (exec (fuel+1) (.processIO c mask)) s r s' → Good A B ko s c (Lv A B 2) →
    Good A B ko s' c (AfterRead A B r) := by
  intro ko c mask s r s' h hG
  unfold Ok at h
  rw [exec] at h
  mget
  rename_i jp1
  -- (the configuration is not used by processIO: `cfg` names the continuation after the read)
  have cont2 : ∀ s r2, Good A B ko s c (AfterRead A B r2) → StateT.run (cfg r2) s = .ok (r, s') →
      Good A B ko s' c (AfterRead A B r) := by
    clear h hG
    intro s r2 hG h
    dsimp only [cfg] at h
    split at h
    · mret; subst hr; exact hG
    rename_i hcode
    have hcode' : r2.code = .nil := by simpa using hcode
    replace hG : Good A B ko s c (Lv A B 2) := hG.mono (fun x hx => hx.2 (by rw [hcode']; decide))
    mconn
    replace hG : Good A B ko s c (Lv A B 2) := hG.mono (by rintro _ rfl; exact hx)
    split at h
    · split at h
      · exact (ih.close _ _ _ _ _ _ _ h hG).mono (fun _ hx => AfterRead.of_two (Lv.after_close hx))
      · mmod (Lv A B 2)
        · exact fun x hx => Lv.congr hx rfl rfl rfl rfl rfl rfl rfl rfl rfl
        exact ih.elRead _ _ _ _ _ h hG
    · mret; exact hG.mono (fun _ => AfterRead.of_two)
  have cont1 : ∀ s r1, Good A B ko s c (Lv A B 2) → StateT.run (jp1 r1) s = .ok (r, s') →
      Good A B ko s' c (AfterRead A B r) := by
    clear h hG
    intro s r1 hG h
    dsimp only [jp1] at h
    split at h
    · mret; exact hG.mono (fun _ => AfterRead.of_two)
    split at h
    · mcall
      exact cont2 _ _ (ih.elRead _ _ _ _ _ hcall hG) h
    · rw [pure_bind] at h
      exact cont2 _ _ (hG.mono (fun _ => AfterRead.of_two)) h
  split at h
  · mmod (Lv A B 2)
    · exact fun x hx => Lv.release hx
    exact (ih.close _ _ _ _ _ _ _ h hG).mono (fun _ hx => AfterRead.of_two (Lv.after_close hx))
  split at h
  · mcall
    exact cont1 _ _ (ih.elWrite _ _ _ _ _ _ hcall hG) h
  · rw [pure_bind] at h
    exact cont1 _ _ hG h

theorem step_wake {fuel : Nat} (ih : Specs A B fuel) :
    ∀ ko c k s r s', Ok (exec (fuel+1) (.wake c)) s r s' → Good A B ko s c (Lv A B k) → Good A B ko s' c (Lv A B k) := by
  intro ko c k s r s' h hG
  unfold Ok at h
  rw [exec] at h
  mget
  menter
  mconn
  replace hG : Good A B ko s c (Lv A B k) := hG.mono (by rintro _ rfl; exact hx)
  split at h
  · mret; exact hG
  mpop
  msplit
  mguard
  mguard
  mmod (Lv A B k)
  · exact fun x hx => Lv.congr hx rfl rfl rfl rfl rfl rfl rfl rfl rfl
  mbeta
  mcall
  replace hG := ih.callback _ _ _ k _ _ _ (by simp) hcall hG
  clear hcall
  exact (ih.handleAction _ _ _ _ _ _ _ h hG).mono (fun _ => Lv.after_action)

theorem step_open {fuel : Nat} (ih : Specs A B fuel) :
    ∀ ko c s r s', Ok (exec (fuel+1) (.open c)) s r s' → Good A B ko s c (Raw1 A B) → Good A B ko s' c (Lv A B 2) := by
  intro ko c s r s' h hG
  unfold Ok at h
  rw [exec] at h
  mget
  menter
  mmod (Lv A B 2)
  · exact fun x hx => Raw1.open hx
  mpop
  msplit
  mguard
  mmod (Lv A B 2)
  · exact fun x hx => Lv.congr hx rfl rfl rfl rfl rfl rfl rfl rfl rfl
  mbeta
  exact ih.callback _ _ _ 2 _ _ _ (by simp) h hG

theorem step_register0 {fuel : Nat} (ih : Specs A B fuel) :
    ∀ ko c s r s', Ok (exec (fuel+1) (.register0 c)) s r s' → Good A B ko s c (Raw0 A B) → Good A B ko s' c (Lv A B 2) := by
  intro ko c s r s' h hG
  unfold Ok at h
  rw [exec] at h
  mget
  menter
  mnote
  mpop
  msplit
  mguard
  split at h
  · mnote
    mpop
    msplit
    mguard
    mmod (Lv A B 2)
    · exact fun x _ => Lv.closed rfl
    mret; exact hG
  · mmod (Raw1 A B)
    · exact fun x hx => ⟨rfl, hx⟩
    exact ih.open_ _ _ _ _ _ h hG

theorem Raw0.fresh : Raw0 A B {} := ⟨rfl, fun _ => rfl, fun _ => rfl⟩

theorem step_accept {fuel : Nat} (ih : Specs A B fuel) :
    ∀ ko l s r s', Ok (exec (fuel+1) (.accept l)) s r s' → Good A B ko s l (Lv A B ko) → Good A B ko s' l (Lv A B ko) := by
  intro ko l s r s' h hG
  unfold Ok at h
  rw [exec] at h
  mget
  menter
  mpop
  msplit
  · rename_i l' nfd err
    mguard
    split at h
    · have h := get_bind_inv h
      mguard
      have h := modify_bind_inv h
      replace hG := hG.accept (Ψ := Raw0 A B) (s.nconn + 1) hc Raw0.fresh
      replace hG := ih.register0 _ _ _ _ _ h hG
      exact (hG.mono (fun _ => Lv.of_two) |>.rest_irrel l)
    · split at h
      · mret; exact hG
      · mret; exact hG
  · mguard
    exact ih.readUDP _ _ _ _ _ h hG

theorem step_readUDP {fuel : Nat} (ih : Specs A B fuel) :
    ∀ ko l s r s', Ok (exec (fuel+1) (.readUDP l)) s r s' → Good A B ko s l (Lv A B ko) → Good A B ko s' l (Lv A B ko) := by
  intro ko l s r s' h hG
  unfold Ok at h
  rw [exec] at h
  mget
  mpop
  msplit
  rename_i l' n err src data
  mguard
  split at h
  · mret; exact hG
  mbeta
  have h := modify_bind_inv h
  replace hG := hG.udp { opened := true, buffer := data, delivered := data }
  mpop
  msplit
  mguard
  mguard
  mguard
  exact ih.udpCallback _ _ _ _ _ _ h hG

theorem step_closeConns {fuel : Nat} (ih : Specs A B fuel) :
    ∀ ko s r s', Ok (exec (fuel+1) .closeConns) s r s' → Good A B ko s "" (Lv A B ko) → Good A B ko s' "" (Lv A B ko) := by
  intro ko s r s' h hG
  unfold Ok at h
  rw [exec] at h
  mget
  have h := peekTok_bind_inv h
  split at h
  · rename_i c arg _
    mcall
    replace hG := (ih.close _ _ _ _ _ _ _ hcall (hG.rest_irrel c)).mono (fun _ => Lv.after_close)
    exact ih.closeConns _ _ _ _ h (hG.rest_irrel "")
  · mret; exact hG

theorem step_udpCallback {fuel : Nat} (ih : Specs A B fuel) :
    ∀ ko l src s r s', Ok (exec (fuel+1) (.udpCallback l src)) s r s' → Good A B ko s l (Lv A B 0) → Good A B ko s' l (Lv A B ko) := by
  intro ko l src s r s' h hG
  unfold Ok at h
  rw [exec] at h
  mget
  mpop
  msplit
  · have h := modify_bind_inv h
    replace hG := hG.udp_done
    split at h
    · mret; exact hG
    · mret; exact hG
  · rename_i op arg
    mconn
    replace hG : Good A B ko s l (Lv A B 0) := hG.mono (fun _ _ => Lv.zero _)
    mbeta
    extract_lets all argN at h
    have fin : ∀ s, Good A B ko s l (Lv A B 0) → StateT.run (exec fuel (.udpCallback l src)) s = .ok (r, s') →
        Good A B ko s' l (Lv A B ko) :=
      fun s hG h => ih.udpCallback _ _ _ _ _ _ h hG
    split at h
    · -- read
      mcheck
      mmod (Lv A B 0)
      · exact fun x _ => Lv.zero _
      exact fin _ hG h
    · -- next
      split at h
      · mcheck; exact fin _ hG h
      · mcheck
        mmod (Lv A B 0)
        · exact fun x _ => Lv.zero _
        exact fin _ hG h
    · -- peek
      split at h
      · mcheck; exact fin _ hG h
      · mcheck; exact fin _ hG h
    · -- discard
      mcheck
      mmod (Lv A B 0)
      · exact fun x _ => Lv.zero _
      exact fin _ hG h
    · -- inbuf
      mcheck; exact fin _ hG h
    · -- write
      mpop
      msplit
      mguard
      mcheck; exact fin _ hG h
    · mdead

end Gnet.Reactor
