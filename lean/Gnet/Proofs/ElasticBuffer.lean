/-
  C10, second layer: `elastic.Buffer` (`Elastic`) = ring wrapper + linked list, content
  `ring ++ list`. For every operation: invariant, abstract content, observation.
-/
import Gnet.Proofs.ElasticRing
import Gnet.Proofs.LinkedList
set_option linter.unusedSectionVars false
set_option linter.unusedVariables false
set_option linter.unusedSimpArgs false
namespace Gnet.Proofs.Elastic
open Gnet
variable {α : Type} [Inhabited α]

/-! ### linked-list facts not in `Proofs/LinkedList` -/

theorem ll_isEmpty_abs (l : LL α) (h : l.isEmpty = true) : l.abs = [] := by
  rcases l with ⟨segs, s, b⟩
  cases segs with
  | nil => rfl
  | cons x xs => simp [LL.isEmpty] at h

theorem ll_pushBackCopy_spec (l : LL α) (p : List α) (h : l.WF) :
    (l.pushBackCopy p).WF ∧ (l.pushBackCopy p).abs = l.abs ++ p := by
  unfold LL.pushBackCopy
  by_cases hp : p.length = 0
  · rw [if_pos hp, List.length_eq_zero_iff.mp hp]; simp [h]
  · rw [if_neg hp]
    refine ⟨LinkedList.wf_pushBack _ _ h ?_, by simp⟩
    intro h'; simp at h'; simp [h'] at hp

theorem ll_foldl_pushBackCopy_spec (bs : List (List α)) : ∀ (l : LL α), l.WF →
    (bs.foldl (fun l b => l.pushBackCopy b) l).WF ∧
    (bs.foldl (fun l b => l.pushBackCopy b) l).abs = l.abs ++ bs.flatten := by
  induction bs with
  | nil => intro l h; simp [h]
  | cons b rest ih =>
    intro l h
    obtain ⟨w, a⟩ := ll_pushBackCopy_spec l b h
    obtain ⟨w2, a2⟩ := ih _ w
    refine ⟨w2, ?_⟩
    simp only [List.foldl_cons, List.flatten_cons]
    rw [a2, a, List.append_assoc]

theorem ll_reset_spec (l : LL α) : l.reset.WF ∧ l.reset.abs = [] :=
  ⟨LinkedList.wf_nil, rfl⟩

theorem rfErr_ne_eof (sc : List RStep) : SegFifo.rfErr sc ≠ .eof := by
  induction sc with
  | nil => simp [SegFifo.rfErr]
  | cons st rest ih =>
    simp only [SegFifo.rfErr]
    split
    · simp
    · split
      · assumption
      · exact ih

theorem ll_peekWithBytes_spec (l : LL α) (n : Int) (bs : List (List α)) (h : l.WF)
    (hn : ¬ (n > 0 ∧ n ≠ (LL.maxInt32 : Int) ∧ n > (l.abs.length : Int) + (bs.flatten.length : Int))) :
    (l.peekWithBytes n bs).2 = .nil ∧
    (l.peekWithBytes n bs).1.flatten =
      (bs.flatten ++ l.abs).take (if n ≤ 0 ∨ n = (LL.maxInt32 : Int) then LL.maxInt32 else n.toNat) := by
  have hsum : (bs.map List.length).sum = bs.flatten.length := by rw [List.length_flatten]
  have hb : l.buffered = (l.abs.length : Int) := LinkedList.wf_bytes l h
  simp only [LL.peekWithBytes]
  rw [hsum, hb, if_neg hn]
  exact ⟨LinkedList.ite_pair_snd _ _ _ _, LinkedList.peekWithBytes_flatten l _ bs⟩

/-! ### unfolded forms of the operations (the `let (a, b) := …` patterns as projections) -/

theorem read_eq (m : Elastic α) (n : Nat) :
    m.read n =
      if (m.ring.read n).2.1.length = n then
        ({ m with ring := (m.ring.read n).1 }, (m.ring.read n).2.1, (m.ring.read n).2.2)
      else
        ({ m with ring := (m.ring.read n).1,
                  list := (m.list.read (n - (m.ring.read n).2.1.length)).1 },
          (m.ring.read n).2.1 ++ (m.list.read (n - (m.ring.read n).2.1.length)).2.1,
          (m.list.read (n - (m.ring.read n).2.1.length)).2.2) := rfl

theorem discard_eq (m : Elastic α) (n : Int) :
    m.discard n =
      if n ≤ ((m.ring.discard n).2.1 : Int) then
        ({ m with ring := (m.ring.discard n).1 }, (m.ring.discard n).2.1, (m.ring.discard n).2.2)
      else
        ({ m with ring := (m.ring.discard n).1,
                  list := (m.list.discard (n - ((m.ring.discard n).2.1 : Int))).1 },
          (m.ring.discard n).2.1 + (m.list.discard (n - ((m.ring.discard n).2.1 : Int))).2, .nil) := rfl

theorem readFrom_eq (gen : Nat → α) (m : Elastic α) (pos : Nat) (sc : List RStep) :
    m.readFrom gen pos sc =
      if (!m.list.isEmpty || decide (m.ring.buffered ≥ m.maxStatic)) = true then
        ({ m with list := (m.list.readFrom gen pos 0 sc).1 }, (m.list.readFrom gen pos 0 sc).2.1,
          (m.list.readFrom gen pos 0 sc).2.2.1, (m.list.readFrom gen pos 0 sc).2.2.2)
      else
        ({ m with ring := (m.ring.readFrom gen pos sc).1 }, (m.ring.readFrom gen pos sc).2.1,
          (m.ring.readFrom gen pos sc).2.2.1, (m.ring.readFrom gen pos sc).2.2.2) := rfl

/-! ### write -/

theorem list_empty_of_not {m : Elastic α}
    (hc : ¬ ((!m.list.isEmpty || decide (m.ring.buffered ≥ m.maxStatic)) = true)) :
    m.list.abs = [] := by
  apply ll_isEmpty_abs
  cases hE : m.list.isEmpty
  · simp [hE] at hc
  · rfl

theorem write_spec' (m : Elastic α) (p : List α) (h : m.WF) :
    (m.write p).WF ∧ (m.write p).abs = m.abs ++ p := by
  unfold Elastic.write
  split
  · obtain ⟨w, a⟩ := ll_pushBackCopy_spec m.list p h.list
    exact ⟨⟨h.ring, w⟩, by simp only [Elastic.abs, a, List.append_assoc]⟩
  · rename_i hc
    have hl := list_empty_of_not hc
    split
    · obtain ⟨w1, a1⟩ := write_spec m.ring (p.take m.ring.available) h.ring
      obtain ⟨w2, a2⟩ := ll_pushBackCopy_spec m.list (p.drop m.ring.available) h.list
      refine ⟨⟨w1, w2⟩, ?_⟩
      simp only [Elastic.abs, a1, a2, hl, List.nil_append, List.append_nil, List.append_assoc,
        List.take_append_drop]
    · obtain ⟨w1, a1⟩ := write_spec m.ring p h.ring
      refine ⟨⟨w1, h.list⟩, ?_⟩
      simp only [Elastic.abs, a1, hl, List.append_nil]

theorem writevLoop_spec (bs : List (List α)) : ∀ (rg : ERing α) (l : LL α) (w : Nat),
    rg.WF → l.WF → l.abs = [] →
    (Elastic.writevLoop rg l w bs).1.WF ∧ (Elastic.writevLoop rg l w bs).2.1.WF ∧
    (Elastic.writevLoop rg l w bs).1.abs ++ (Elastic.writevLoop rg l w bs).2.1.abs ++
      (Elastic.writevLoop rg l w bs).2.2.flatten = rg.abs ++ bs.flatten := by
  induction bs with
  | nil => intro rg l w hr hl he; simp [Elastic.writevLoop, hr, hl, he]
  | cons b rest ih =>
    intro rg l w hr hl he
    unfold Elastic.writevLoop
    split
    · obtain ⟨w1, a1⟩ := write_spec rg (b.take w) hr
      obtain ⟨w2, a2⟩ := ll_pushBackCopy_spec l (b.drop w) hl
      refine ⟨w1, w2, ?_⟩
      simp only [a1, a2, he, List.nil_append, List.flatten_cons, List.append_assoc]
      rw [← List.append_assoc (b.take w), List.take_append_drop]
    · obtain ⟨w1, a1⟩ := write_spec rg b hr
      obtain ⟨i1, i2, i3⟩ := ih (rg.write b) l (w - b.length) w1 hl he
      refine ⟨i1, i2, ?_⟩
      rw [i3, a1, List.flatten_cons, List.append_assoc]

theorem writev_spec (m : Elastic α) (bs : List (List α)) (h : m.WF) :
    (m.writev bs).1.WF ∧ (m.writev bs).1.abs = m.abs ++ bs.flatten ∧
    (m.writev bs).2 = bs.flatten.length := by
  have hsum : (bs.map List.length).sum = bs.flatten.length := by rw [List.length_flatten]
  unfold Elastic.writev
  split
  · obtain ⟨w, a⟩ := ll_foldl_pushBackCopy_spec bs m.list h.list
    exact ⟨⟨h.ring, w⟩, by simp only [Elastic.abs, a, List.append_assoc], hsum⟩
  · rename_i hc
    have hl := list_empty_of_not hc
    generalize (if m.ring.len < m.maxStatic then m.maxStatic - m.ring.buffered else m.ring.available) = w
    obtain ⟨i1, i2, i3⟩ := writevLoop_spec bs m.ring m.list w h.ring h.list hl
    obtain ⟨w2, a2⟩ := ll_foldl_pushBackCopy_spec (Elastic.writevLoop m.ring m.list w bs).2.2 _ i2
    refine ⟨⟨i1, w2⟩, ?_, hsum⟩
    show (Elastic.writevLoop m.ring m.list w bs).1.abs ++
      (List.foldl (fun l b => l.pushBackCopy b) (Elastic.writevLoop m.ring m.list w bs).2.1
        (Elastic.writevLoop m.ring m.list w bs).2.2).abs = _
    rw [a2, ← List.append_assoc, i3]
    simp only [Elastic.abs, hl, List.append_nil]

/-! ### read -/

theorem read_spec' (m : Elastic α) (n : Nat) (h : m.WF) :
    (m.read n).1.WF ∧ (m.read n).1.abs = m.abs.drop n ∧ (m.read n).2.1 = m.abs.take n ∧
    (0 < n → n ≤ m.abs.length → (m.read n).2.2 = .nil) := by
  obtain ⟨r1, r2, r3, r4⟩ := read_spec m.ring n h.ring
  rw [read_eq]
  split
  · rename_i hd
    rw [r3, List.length_take] at hd
    have hle : n ≤ m.ring.abs.length := by omega
    refine ⟨⟨r1, h.list⟩, ?_, ?_, ?_⟩
    · simp only [Elastic.abs, r2]
      rw [List.drop_append_of_le_length hle]
    · simp only [Elastic.abs, r3]
      rw [List.take_append_of_le_length hle]
    · intro h0 _
      rcases r4 with r4 | r4
      · exact r4
      · rw [r4] at hle; simp at hle; omega
  · rename_i hd
    rw [r3, List.length_take] at hd
    have hlt : m.ring.abs.length < n := by omega
    have hlen : (m.ring.read n).2.1.length = m.ring.abs.length := by
      rw [r3, List.length_take]; omega
    rw [hlen]
    obtain ⟨l1, l2, l3, l4⟩ := LinkedList.read_spec m.list (n - m.ring.abs.length) h.list
    refine ⟨⟨r1, l1⟩, ?_, ?_, ?_⟩
    · simp only [Elastic.abs, r2, l2]
      rw [List.drop_append, List.drop_of_length_le (by omega : m.ring.abs.length ≤ n)]
    · simp only [Elastic.abs, r3, l3]
      rw [List.take_append]
    · intro h0 hle
      simp only [Elastic.abs, List.length_append] at hle
      rcases l4 with l4 | l4
      · exact l4
      · rw [l4.1] at hle; simp at hle; omega

/-! ### peek -/

theorem buffered_eq (m : Elastic α) (h : m.WF) : m.buffered = (m.abs.length : Int) := by
  have h1 := (counters m.ring h.ring).1
  have h2 := LinkedList.wf_bytes m.list h.list
  simp only [Elastic.buffered, LL.buffered, Elastic.abs, List.length_append, h1, h2]
  omega

theorem take_take_append (a b : List α) (k : Nat) : (a.take k ++ b).take k = (a ++ b).take k := by
  by_cases hk : k ≤ a.length
  · rw [List.take_append_of_le_length (by rw [List.length_take]; omega),
      List.take_append_of_le_length hk, List.take_take, Nat.min_self]
  · rw [List.take_of_length_le (by omega : a.length ≤ k)]

/-- `Peek` with the effective count `k` (`maxInt32` for "everything") when enough is buffered -/
theorem peek_core (m : Elastic α) (h : m.WF) (nn : Int) (hpos : 0 < nn)
    (hok : nn = (Elastic.maxInt32 : Int) ∨ nn.toNat ≤ m.abs.length) :
    (if (m.ring.buffered : Int) = nn then ([(m.ring.peek nn).1, (m.ring.peek nn).2], Err.nil)
      else m.list.peekWithBytes nn [(m.ring.peek nn).1, (m.ring.peek nn).2]).2 = .nil ∧
    (if (m.ring.buffered : Int) = nn then ([(m.ring.peek nn).1, (m.ring.peek nn).2], Err.nil)
      else m.list.peekWithBytes nn [(m.ring.peek nn).1, (m.ring.peek nn).2]).1.flatten
      = m.abs.take nn.toNat := by
  have hp := peek_spec m.ring nn h.ring
  rw [if_neg (by omega)] at hp
  have hbuf := (counters m.ring h.ring).1
  have hflat : [(m.ring.peek nn).1, (m.ring.peek nn).2].flatten = m.ring.abs.take nn.toNat := by
    simp only [List.flatten_cons, List.flatten_nil, List.append_nil]; exact hp
  split
  · rename_i he
    refine ⟨rfl, ?_⟩
    rw [hflat]
    have : nn.toNat = m.ring.abs.length := by omega
    simp only [Elastic.abs]
    rw [this, List.take_append_of_le_length (Nat.le_refl _)]
  · rename_i he
    have hmax : (LL.maxInt32 : Int) = (Elastic.maxInt32 : Int) := rfl
    have hcond : ¬ (nn > 0 ∧ nn ≠ (LL.maxInt32 : Int) ∧
        nn > (m.list.abs.length : Int) +
          (([(m.ring.peek nn).1, (m.ring.peek nn).2].flatten.length : Nat) : Int)) := by
      rw [hflat, List.length_take]
      rintro ⟨_, c2, c3⟩
      rcases hok with hok | hok
      · exact c2 (by rw [hmax]; exact hok)
      · simp only [Elastic.abs, List.length_append] at hok
        omega
    obtain ⟨p1, p2⟩ := ll_peekWithBytes_spec m.list nn _ h.list hcond
    refine ⟨p1, ?_⟩
    rw [p2, hflat]
    have hk : (if nn ≤ 0 ∨ nn = (LL.maxInt32 : Int) then LL.maxInt32 else nn.toNat) = nn.toNat := by
      split
      · rename_i hc
        rcases hc with hc | hc
        · omega
        · rw [hc]; rfl
      · rfl
    rw [hk]
    simp only [Elastic.abs]
    exact take_take_append _ _ _

theorem peek_all (m : Elastic α) (n : Int) (h : m.WF) (hn : n ≤ 0 ∨ n = (Elastic.maxInt32 : Int)) :
    (m.peek n).2 = .nil ∧ (m.peek n).1.flatten = m.abs.take Elastic.maxInt32 := by
  have := peek_core m h (Elastic.maxInt32 : Int) (by decide) (Or.inl rfl)
  simp only [Elastic.peek]
  rw [if_neg (fun hc => hc.1 hn), if_pos hn]
  exact this

theorem peek_some (m : Elastic α) (n : Int) (h : m.WF) (hn : 0 < n) (hm : n ≠ (Elastic.maxInt32 : Int))
    (hle : n.toNat ≤ m.abs.length) :
    (m.peek n).2 = .nil ∧ (m.peek n).1.flatten = m.abs.take n.toNat := by
  have := peek_core m h n hn (Or.inr hle)
  have hb := buffered_eq m h
  have hall : ¬ (n ≤ 0 ∨ n = (Elastic.maxInt32 : Int)) := by omega
  simp only [Elastic.peek]
  rw [if_neg (by rw [hb]; omega), if_neg hall]
  exact this

theorem peek_short (m : Elastic α) (n : Int) (h : m.WF) (hn : 0 < n) (hm : n ≠ (Elastic.maxInt32 : Int))
    (hgt : m.abs.length < n.toNat) :
    (m.peek n).1 = [] := by
  have hb := buffered_eq m h
  have hall : ¬ (n ≤ 0 ∨ n = (Elastic.maxInt32 : Int)) := by omega
  simp only [Elastic.peek]
  rw [if_pos ⟨hall, by rw [hb]; omega⟩]

/-! ### discard -/

theorem discard_spec' (m : Elastic α) (n : Int) (h : m.WF) :
    (m.discard n).1.WF ∧ (m.discard n).1.abs = m.abs.drop n.toNat ∧
    (m.discard n).2.1 = min n.toNat m.abs.length := by
  obtain ⟨r1, r2, r3, _⟩ := discard_spec m.ring n h.ring
  rw [discard_eq]
  split
  · rename_i hd
    rw [r3] at hd
    have hle : n.toNat ≤ m.ring.abs.length := by omega
    refine ⟨⟨r1, h.list⟩, ?_, ?_⟩
    · simp only [Elastic.abs, r2]
      rw [List.drop_append_of_le_length hle]
    · simp only [Elastic.abs, r3, List.length_append]; omega
  · rename_i hd
    rw [r3] at hd ⊢
    have hlt : m.ring.abs.length < n.toNat := by omega
    have hmin : min n.toNat m.ring.abs.length = m.ring.abs.length := by omega
    rw [hmin]
    obtain ⟨l1, l2, l3⟩ := LinkedList.discard_spec m.list (n - (m.ring.abs.length : Int)) h.list
    have hk : (n - (m.ring.abs.length : Int)).toNat = n.toNat - m.ring.abs.length := by omega
    refine ⟨⟨r1, l1⟩, ?_, ?_⟩
    · simp only [Elastic.abs, r2, l2, hk]
      rw [List.drop_append, List.drop_of_length_le (by omega : m.ring.abs.length ≤ n.toNat)]
    · simp only [Elastic.abs, l3, hk, List.length_append]; omega

/-! ### readFrom -/

theorem readFrom_spec' (gen : Nat → α) (m : Elastic α) (pos : Nat) (sc : List RStep) (h : m.WF) :
    (m.readFrom gen pos sc).1.WF ∧
    ∃ k, (m.readFrom gen pos sc).2.1 = k ∧ (m.readFrom gen pos sc).2.2.2 = pos + k ∧
      (m.readFrom gen pos sc).1.abs = m.abs ++ Fifo.fresh gen pos k ∧
      (m.readFrom gen pos sc).2.2.1 ≠ .eof := by
  rw [readFrom_eq]
  split
  · obtain ⟨l1, l2, l3, l4, l5⟩ := LinkedList.readFrom_spec gen m.list pos 0 sc h.list
    refine ⟨⟨h.ring, l1⟩, SegFifo.rfCount LL.minRead sc, ?_, l5, ?_, ?_⟩
    · simp only [l3, Nat.zero_add]
    · simp only [Elastic.abs, l2, List.append_assoc]
    · simp only [l4]; exact rfErr_ne_eof sc
  · rename_i hc
    have hl := list_empty_of_not hc
    obtain ⟨r1, k, r2, r3, r4, r5⟩ := readFrom_spec gen m.ring pos sc h.ring
    refine ⟨⟨r1, h.list⟩, k, r2, r3, ?_, r5⟩
    simp only [Elastic.abs, r4, hl, List.append_nil]

/-! ### reset, release, counters -/

theorem reset_spec' (m : Elastic α) (ms : Int) (h : m.WF) :
    (m.reset ms).WF ∧ (m.reset ms).abs = [] := by
  obtain ⟨r1, r2⟩ := reset_spec m.ring h.ring
  obtain ⟨l1, l2⟩ := ll_reset_spec m.list
  exact ⟨⟨r1, l1⟩, by simp only [Elastic.reset, Elastic.abs, r2, l2, List.append_nil]⟩

theorem release_spec (m : Elastic α) : m.release.WF ∧ m.release.abs = [] := by
  obtain ⟨l1, l2⟩ := ll_reset_spec m.list
  exact ⟨⟨doneAll_wf m.ring, l1⟩,
    by simp only [Elastic.release, Elastic.abs, doneAll_abs, l2, List.append_nil]⟩

theorem counters' (m : Elastic α) (h : m.WF) :
    m.buffered = (m.abs.length : Int) ∧ (m.isEmpty = true ↔ m.buffered = 0) := by
  refine ⟨buffered_eq m h, ?_⟩
  obtain ⟨c1, c2, _⟩ := counters m.ring h.ring
  obtain ⟨d1, _, d3⟩ := LinkedList.counters m.list h.list
  simp only [Elastic.isEmpty, Elastic.buffered, Bool.and_eq_true]
  rw [c2, d3, d1]
  omega

/-! ### writeTo -/

/-- the ring part of `WriteTo`: skipped when the ring is empty -/
def wtRing (m : Elastic α) (sc : List WStep) : ERing α × Nat × Err × List α × List WStep :=
  if m.ring.isEmpty then (m.ring, 0, Err.nil, [], sc) else m.ring.writeTo sc

theorem writeTo_eq (m : Elastic α) (sc : List WStep) :
    m.writeTo sc =
      if (wtRing m sc).2.2.1 ≠ .nil then
        ({ m with ring := (wtRing m sc).1 }, (wtRing m sc).2.1, (wtRing m sc).2.2.1, (wtRing m sc).2.2.2.1)
      else
        ({ m with ring := (wtRing m sc).1,
                  list := (LL.writeToLoop m.list.segs m.list.size m.list.bytes (wtRing m sc).2.2.2.2 0 []).1 },
          (wtRing m sc).2.1 +
            (LL.writeToLoop m.list.segs m.list.size m.list.bytes (wtRing m sc).2.2.2.2 0 []).2.1,
          (LL.writeToLoop m.list.segs m.list.size m.list.bytes (wtRing m sc).2.2.2.2 0 []).2.2.1,
          (wtRing m sc).2.2.2.1 ++
            (LL.writeToLoop m.list.segs m.list.size m.list.bytes (wtRing m sc).2.2.2.2 0 []).2.2.2) := rfl

theorem wtRing_spec (m : Elastic α) (sc : List WStep) (h : m.WF) :
    (wtRing m sc).1.WF ∧
    (wtRing m sc).1.abs = m.ring.abs.drop (wtRing m sc).2.1 ∧
    (wtRing m sc).2.2.2.1 = m.ring.abs.take (wtRing m sc).2.1 ∧
    (wtRing m sc).2.1 ≤ m.ring.abs.length ∧
    ((wtRing m sc).2.2.1 = .nil → (wtRing m sc).2.1 = m.ring.abs.length) := by
  unfold wtRing
  split
  · rename_i he
    obtain ⟨c1, c2, _⟩ := counters m.ring h.ring
    have h0 : m.ring.abs.length = 0 := by rw [← c1]; exact c2.mp he
    refine ⟨h.ring, by simp, by simp, by simp, fun _ => h0.symm⟩
  · exact writeTo_spec m.ring sc h.ring

theorem writeTo_spec' (m : Elastic α) (sc : List WStep) (h : m.WF) :
    (m.writeTo sc).1.WF ∧
    (m.writeTo sc).1.abs = m.abs.drop (m.writeTo sc).2.1 ∧
    (m.writeTo sc).2.2.2 = m.abs.take (m.writeTo sc).2.1 ∧
    (m.writeTo sc).2.1 ≤ m.abs.length ∧
    ((m.writeTo sc).2.2.1 = .nil → (m.writeTo sc).2.1 = m.abs.length) := by
  obtain ⟨r1, r2, r3, r4, r5⟩ := wtRing_spec m sc h
  rw [writeTo_eq]
  split
  · rename_i he
    refine ⟨⟨r1, h.list⟩, ?_, ?_, ?_, fun hc => absurd hc he⟩
    · simp only [Elastic.abs, r2]
      rw [List.drop_append_of_le_length r4]
    · simp only [Elastic.abs, r3]
      rw [List.take_append_of_le_length r4]
    · simp only [Elastic.abs, List.length_append]; omega
  · rename_i he
    have he' : (wtRing m sc).2.2.1 = .nil := Classical.not_not.mp he
    have hn := r5 he'
    have hwf : (LL.mk m.list.segs m.list.size m.list.bytes).WF := h.list
    obtain ⟨k, l1, l2, l3, l4, l5, l6⟩ :=
      LinkedList.writeToLoop_spec m.list.segs m.list.size m.list.bytes (wtRing m sc).2.2.2.2 0 [] hwf
    have hflat : LinkedList.flat m.list.segs = m.list.abs := rfl
    rw [hflat] at l1 l3 l5 l6
    refine ⟨⟨r1, l2⟩, ?_, ?_, ?_, ?_⟩
    · simp only [Elastic.abs, r2, l3, l4, hn, Nat.zero_add]
      rw [List.drop_append, List.drop_of_length_le (by omega : m.ring.abs.length ≤ m.ring.abs.length + k)]
      simp
    · simp only [Elastic.abs, r3, l5, l4, hn, Nat.zero_add, List.nil_append]
      rw [List.take_append, List.take_of_length_le (by omega : m.ring.abs.length ≤ m.ring.abs.length + k)]
      simp
    · simp only [Elastic.abs, l4, hn, List.length_append]; omega
    · intro hc
      have := l6 hc
      simp only [Elastic.abs, l4, hn, List.length_append]; omega

end Gnet.Proofs.Elastic
