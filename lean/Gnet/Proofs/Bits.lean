/-
  `Nat`-level facts about `bitLen`, powers of two and the "smear" cascade, and the bridge
  from `BitVec 64` to `Nat`/`Int`. Core Lean only.
-/
import Gnet.Basic
import Gnet.Basic.Bits
namespace Gnet.Proofs.Bits
open Gnet

/-! ### bitLen -/

theorem lt_two_pow_bitLen (m : Nat) : m < 2 ^ bitLen m := by
  unfold bitLen
  split
  · subst_vars; simp
  · exact Nat.lt_log2_self

theorem bitLen_le_of_lt {m j : Nat} (h : m < 2 ^ j) : bitLen m ≤ j := by
  unfold bitLen
  split
  · omega
  · rename_i h0
    have := (Nat.log2_lt h0).2 h
    omega

theorem two_pow_bitLen_le {m : Nat} (h0 : m ≠ 0) : 2 ^ (bitLen m - 1) ≤ m := by
  unfold bitLen
  rw [if_neg h0]
  simpa using Nat.log2_self_le h0

theorem bitLen_pos {m : Nat} (h0 : m ≠ 0) : 0 < bitLen m := by
  unfold bitLen; rw [if_neg h0]; omega

theorem bitLen_eq {m : Nat} (h0 : m ≠ 0) : bitLen m = Nat.log2 m + 1 := by
  unfold bitLen; rw [if_neg h0]

/-- monotone powers -/
theorem pow_le_pow {a b : Nat} (h : a ≤ b) : 2 ^ a ≤ 2 ^ b := Nat.pow_le_pow_right (by decide) h

theorem pow_lt_pow_iff {a b : Nat} : 2 ^ a < 2 ^ b ↔ a < b := Nat.pow_lt_pow_iff_right (by decide)

theorem pow_le_pow_iff {a b : Nat} : 2 ^ a ≤ 2 ^ b ↔ a ≤ b := Nat.pow_le_pow_iff_right (by decide)

/-! ### powers of two and `m &&& (m-1)` -/

theorem and_pred_pow (k : Nat) : 2 ^ k &&& (2 ^ k - 1) = 0 := by
  rw [Nat.and_two_pow_sub_one_eq_mod]; exact Nat.mod_self _

theorem pow_of_and_pred {m : Nat} (hm : 0 < m) (h : m &&& (m - 1) = 0) : ∃ k, m = 2 ^ k := by
  have h0 : m ≠ 0 := by omega
  refine ⟨Nat.log2 m, ?_⟩
  have hlo := Nat.log2_self_le h0
  have hhi := @Nat.lt_log2_self m
  generalize Nat.log2 m = k at *
  rcases Nat.lt_or_ge (2 ^ k) m with hlt | hge
  · exfalso
    -- m = 2^k + r, 0 < r < 2^k ; both m and m-1 have bit k
    have hp : 2 ^ (k + 1) = 2 * 2 ^ k := by rw [Nat.pow_succ]; omega
    have e1 : m = 2 ^ k + (m - 2 ^ k) := by omega
    have e2 : m - 1 = 2 ^ k + (m - 1 - 2 ^ k) := by omega
    have t1 : m.testBit k = true := by
      rw [e1, Nat.testBit_two_pow_add_eq, Nat.testBit_lt_two_pow (by omega)]; rfl
    have t2 : (m - 1).testBit k = true := by
      rw [e2, Nat.testBit_two_pow_add_eq, Nat.testBit_lt_two_pow (by omega)]; rfl
    have : (m &&& (m - 1)).testBit k = true := by rw [Nat.testBit_and, t1, t2]; rfl
    rw [h] at this
    simp at this
  · omega

theorem and_pred_eq_zero_iff {m : Nat} (hm : 0 < m) : m &&& (m - 1) = 0 ↔ ∃ k, m = 2 ^ k := by
  constructor
  · exact pow_of_and_pred hm
  · rintro ⟨k, rfl⟩; exact and_pred_pow k

/-! ### the smear cascade -/

/-- after smearing `w` positions below the top bit `k` -/
def Smeared (k w y : Nat) : Prop :=
  (∀ i, k < i → y.testBit i = false) ∧ (∀ i, i ≤ k → k < i + w → y.testBit i = true)

theorem smeared_init {x k : Nat} (hlo : 2 ^ k ≤ x) (hhi : x < 2 ^ (k + 1)) : Smeared k 1 x := by
  constructor
  · intro i hi
    exact Nat.testBit_lt_two_pow (Nat.lt_of_lt_of_le hhi (pow_le_pow hi))
  · intro i h1 h2
    have : i = k := by omega
    subst this
    have hp : 2 ^ (i + 1) = 2 * 2 ^ i := by rw [Nat.pow_succ]; omega
    have e1 : x = 2 ^ i + (x - 2 ^ i) := by omega
    rw [e1, Nat.testBit_two_pow_add_eq, Nat.testBit_lt_two_pow (by omega)]; rfl

theorem smeared_step {k w s y : Nat} (hs : s ≤ w) (h : Smeared k w y) :
    Smeared k (w + s) (y ||| y >>> s) := by
  obtain ⟨h1, h2⟩ := h
  constructor
  · intro i hi
    rw [Nat.testBit_or, Nat.testBit_shiftRight, h1 i hi, h1 (s + i) (by omega)]; rfl
  · intro i hi hk
    rw [Nat.testBit_or, Nat.testBit_shiftRight]
    by_cases hc : k < i + w
    · rw [h2 i hi hc]; rfl
    · rw [h2 (s + i) (by omega) (by omega)]; simp

theorem smeared_full {k w y : Nat} (hw : k < w) (h : Smeared k w y) : y = 2 ^ (k + 1) - 1 := by
  obtain ⟨h1, h2⟩ := h
  apply Nat.eq_of_testBit_eq
  intro i
  rw [Nat.testBit_two_pow_sub_one]
  by_cases hi : i < k + 1
  · rw [h2 i (by omega) (by omega)]; simp [hi]
  · rw [h1 i (by omega)]; simp [hi]

/-- the `Nat` version of the cascade in `FloorToPowerOfTwo` -/
def smear (x : Nat) : Nat :=
  let x := x ||| x >>> 1
  let x := x ||| x >>> 2
  let x := x ||| x >>> 4
  let x := x ||| x >>> 8
  let x := x ||| x >>> 16
  let x := x ||| x >>> 32
  x

theorem smear_eq {x k : Nat} (hlo : 2 ^ k ≤ x) (hhi : x < 2 ^ (k + 1)) (hk : k < 64) :
    smear x = 2 ^ (k + 1) - 1 := by
  have h0 := smeared_init hlo hhi
  have h1 := smeared_step (s := 1) (by omega) h0
  have h2 := smeared_step (s := 2) (by omega) h1
  have h3 := smeared_step (s := 4) (by omega) h2
  have h4 := smeared_step (s := 8) (by omega) h3
  have h5 := smeared_step (s := 16) (by omega) h4
  have h6 := smeared_step (s := 32) (by omega) h5
  exact smeared_full (by omega) h6

theorem smear_sub {x k : Nat} (hlo : 2 ^ k ≤ x) (hhi : x < 2 ^ (k + 1)) (hk : k < 64) :
    smear x - smear x >>> 1 = 2 ^ k := by
  rw [smear_eq hlo hhi hk, Nat.shiftRight_eq_div_pow]
  have hp : 2 ^ (k + 1) = 2 * 2 ^ k := by rw [Nat.pow_succ]; omega
  have : 0 < 2 ^ k := Nat.two_pow_pos k
  omega

end Gnet.Proofs.Bits
