/-
  One level of `exec` for the user's handler: callback.
-/
import Gnet.Proofs.ReactorSteps2
namespace Gnet.Reactor
variable {A B : Prop}

theorem step_callback {fuel : Nat} (ih : Specs A B fuel) :
    ∀ ko kind c k s r s', (kind = "open" → 1 ≤ k) → Ok (exec (fuel+1) (.callback kind c)) s r s' →
    Good A B ko s c (Lv A B k) → Good A B ko s' c (Lv A B k) := by
  intro ko kind c k s r s' hk h hG
  unfold Ok at h
  rw [exec] at h
  mget
  rename_i consume jp
  mpop
  msplit
  · rename_i out action
    split at h
    · rename_i hkind
      have hk1 : 1 ≤ k := hk (by simpa using hkind)
      mconn
      replace hG : Good A B ko s c (Lv A B k) := hG.mono (by rintro _ rfl; exact hx)
      split at h
      · mret; exact hG
      -- the common tail: arm the write event if something is buffered, then the action
      have tail : ∀ s, Good A B ko s c (Lv A B k) →
          StateT.run (do
            let x ← getConn c
            if (!x.outbound.isEmpty && !cfg.isET) = true then do
              noteSys c
              let __do_lift ← pop
              match __do_lift with
                | Tok.sysCtl "ModReadWrite" c' e =>
                  have __do_jp := fun __r =>
                    if (e != "nil") = true then exec fuel (Work.close c false) else exec fuel (Work.handleAction c action);
                  if (c' != c) = true then do
                    let __r ← throw (toString "expected epoll_ctl ModReadWrite " ++ toString c)
                    __do_jp __r
                  else __do_jp ()
                | t => mismatch (toString "sys epoll_ctl ModReadWrite " ++ toString c ++ toString " (open)") t
            else exec fuel (Work.handleAction c action)) s = .ok (r, s') →
          Good A B ko s' c (Lv A B k) := by
        clear h hG hx
        intro s hG h
        mconn
        replace hG : Good A B ko s c (Lv A B k) := hG.mono (by rintro _ rfl; exact hx)
        split at h
        · mnote
          mpop
          msplit
          mguard
          split at h
          · exact (ih.close _ _ _ _ _ _ _ h hG).mono (fun _ => Lv.after_close)
          · exact (ih.handleAction _ _ _ _ _ _ _ h hG).mono (fun _ => Lv.after_action)
        · exact (ih.handleAction _ _ _ _ _ _ _ h hG).mono (fun _ => Lv.after_action)
      split at h
      · rename_i buf
        mmod (Snd A B k buf)
        · intro x hx; exact Snd.start buf hx
        mcall
        replace hG := ih.connOpen _ _ _ k _ _ _ hk1 hcall hG
        clear hcall
        split at h
        · rename_i hcode
          have hcode' : ret.code ≠ .nil := by simpa using hcode
          replace hG := ih.close _ _ _ _ _ _ _ h hG
          refine hG.mono (fun x hx => ?_)
          rcases hx with hx | ⟨hx, hreg⟩
          · exact Lv.closed hx
          · rw [if_neg hcode'] at hx
            refine Lv.closed ?_
            cases ho : x.opened
            · rfl
            · rw [hx ho] at hreg; cases hreg
        · rename_i hcode
          have hcode' : ret.code = .nil := by simpa using hcode
          replace hG : Good A B ko s c (Lv A B k) := hG.mono (fun x hx => by rw [if_pos hcode'] at hx; exact hx)
          exact tail _ hG h
      · exact tail _ hG h
    · mret; exact hG
  · rename_i op arg
    mconn
    replace hG : Good A B ko s c (Lv A B k) := hG.mono (by rintro _ rfl; exact hx)
    mbeta
    extract_lets all argN at h
    have fin : ∀ s (u : Unit), Good A B ko s c (Lv A B k) → StateT.run (jp u) s = .ok (r, s') →
        Good A B ko s' c (Lv A B k) :=
      fun s u hG h => ih.callback _ _ _ _ _ _ _ hk h hG
    split at h
    · -- read
      mcheck
      mmod (Lv A B k)
      · exact fun x hx => Lv.consume _ hx
      exact fin _ () hG h
    · -- next
      split at h
      · mcheck; exact fin _ () hG h
      · mcheck
        mmod (Lv A B k)
        · exact fun x hx => Lv.consume _ hx
        exact fin _ () hG h
    · -- peek
      split at h
      · mcheck; exact fin _ () hG h
      · mcheck; exact fin _ () hG h
    · -- discard
      mcheck
      mmod (Lv A B k)
      · exact fun x hx => Lv.consume _ hx
      exact fin _ () hG h
    · -- inbuf
      mcheck; exact fin _ () hG h
    · -- outbuf
      mcheck; exact fin _ () hG h
    · -- writeto
      mres
      mguard
      mmod (Lv A B k)
      · exact fun x hx => Lv.consume _ hx
      exact fin _ () hG h
    · -- readfrom
      mres
      have h := get_bind_inv h
      have h := modify_bind_inv h
      replace hG := hG.set_freshPos (s.freshPos + res.1.toNat)
      mmod (Lv A B k)
      · exact fun x hx => Lv.append_both _ hx
      exact fin _ () hG h
    · -- readbulk
      mres
      have h := get_bind_inv h
      have h := modify_bind_inv h
      replace hG := hG.set_freshPos (s.freshPos + res.1.toNat)
      mmod (Lv A B k)
      · exact fun x hx => Lv.append_both _ hx
      exact fin _ () hG h
    · -- write
      mcall
      replace hG := ih.connWrite _ _ _ _ _ _ _ hcall hG
      clear hcall
      mcheck; exact fin _ () hG h
    · -- writev
      mcall
      replace hG := ih.connWritev _ _ _ _ _ _ _ hcall hG
      clear hcall
      mcheck; exact fin _ () hG h
    · -- flush
      mcall
      replace hG := ih.flush _ _ _ _ _ _ hcall hG
      clear hcall
      mcheck; exact fin _ () hG h
    · -- asyncwrite
      have h := modify_bind_inv h
      replace hG := hG.set_tasks (s.tasks ++ [Task.asyncWrite c (parseHexSegs arg).flatten])
      mcheck; exact fin _ () hG h
    · -- asyncwritev
      have h := modify_bind_inv h
      replace hG := hG.set_tasks (s.tasks ++ [Task.asyncWritev c (parseHexSegs arg)])
      mcheck; exact fin _ () hG h
    · -- wake
      have h := modify_bind_inv h
      replace hG := hG.set_tasks (s.tasks ++ [Task.wake c])
      mcheck; exact fin _ () hG h
    · -- close
      have h := modify_bind_inv h
      replace hG := hG.set_tasks (s.tasks ++ [Task.close c])
      mcheck; exact fin _ () hG h
    · -- elclose
      mcall
      replace hG := (ih.close _ _ _ _ _ _ _ hcall hG).mono (fun _ => Lv.after_close)
      clear hcall
      mcheck; exact fin _ () hG h
    · -- addr
      mres; exact fin _ () hG h
    · -- dup: a system call on the descriptor of `c`; no model state changes
      mguard
      mnote
      mpop
      msplit
      mguard
      mcheck; exact fin _ () hG h
    · mdead

end Gnet.Reactor
