/-
  C14: both connection registries refine the finite-map specification.
  Helper files: RegistrySpec (specification invariant), RegistryMap (map registry),
  RegistryInv (matrix invariant; conn/add/get/count), RegistryDel, RegistryDel2 (delConn with
  compaction), RegistryIter, RegistryIter2 (iteration, with and without removal).
-/
import Gnet.Model.Registry
import Gnet.Proofs.RegistryIter2
namespace Gnet.Proofs.Registry
open Gnet

theorem addConn_dims (m : Matrix) (id el : Nat) :
    (m.addConn id el).rows = m.rows ∧ (m.addConn id el).cols = m.cols := by
  unfold Matrix.addConn
  dsimp only
  split
  · exact ⟨rfl, rfl⟩
  · split <;> exact ⟨rfl, rfl⟩

/-- one operation from a state satisfying the invariant -/
theorem Inv.runOp {m : Matrix} {s : RegSpec} (h : Inv m s) (op : RegOp) (hv : s.valid (m.rows * m.cols) op) :
    ∃ m' o, m.runOp op = some (m', o) ∧ s.agrees op o ∧ Inv m' (s.step op) ∧
      m'.rows = m.rows ∧ m'.cols = m.cols := by
  cases op with
  | conn id fd => exact ⟨_, _, rfl, trivial, h.conn id fd hv, rfl, rfl⟩
  | add id el =>
    obtain ⟨a, b⟩ := addConn_dims m id el
    exact ⟨_, _, rfl, trivial, h.add id el hv, a, b⟩
  | del id =>
    obtain ⟨m', e, hi', a, b⟩ := h.del id hv
    refine ⟨m', .unit, ?_, trivial, hi', a, b⟩
    show (m.delConn id).map _ = _
    rw [e]; rfl
  | get fd => exact ⟨m, _, rfl, h.get fd, h, rfl, rfl⟩
  | count => exact ⟨m, _, rfl, h.count, h, rfl, rfl⟩
  | iter d =>
    cases d with
    | false =>
      obtain ⟨ids, e, hp⟩ := h.iter_false
      refine ⟨m, .visited ids, ?_, hp, h, rfl, rfl⟩
      show (m.iterate false 0).map _ = _
      rw [e]; rfl
    | true =>
      obtain ⟨m', ids, e, hp, hi', a, b⟩ := h.iter_true
      refine ⟨m', .visited ids, ?_, hp, hi', a, b⟩
      show (m.iterate true 0).map _ = _
      rw [e]; rfl

theorem matrix_refines : ∀ (ops : List RegOp) (m : Matrix) (s : RegSpec), Inv m s →
    s.validRun (m.rows * m.cols) ops → ∃ m' outs, m.run ops = some (m', outs) ∧ s.agreesRun ops outs
  | [], m, _, _, _ => ⟨m, [], rfl, trivial⟩
  | op :: ops, m, s, h, hv => by
    obtain ⟨m1, o, e1, ha, h1, a, b⟩ := h.runOp op hv.1
    have hv2 : (s.step op).validRun (m1.rows * m1.cols) ops := by rw [a, b]; exact hv.2
    obtain ⟨m2, outs, e2, ha2⟩ := matrix_refines ops m1 (s.step op) h1 hv2
    refine ⟨m2, o :: outs, ?_, ha, ha2⟩
    show (match m.runOp op with
      | none => none
      | some (m', o) => match m'.run ops with
        | none => none
        | some (m'', os) => some (m'', o :: os)) = _
    rw [e1]
    dsimp only
    rw [e2]

theorem matrix_run_refines (rows cols : Nat) (hc : 1 < cols) (hr : rows ≤ 256) (hcc : cols ≤ 65536)
    (ops : List RegOp) (hv : RegSpec.init.validRun (rows * cols) ops) :
    ∃ m outs, (Matrix.init rows cols).run ops = some (m, outs) ∧ RegSpec.init.agreesRun ops outs :=
  matrix_refines ops (Matrix.init rows cols) RegSpec.init (Inv.init rows cols hc hr hcc) hv

theorem map_run_refines (ops : List RegOp) (cap : Nat) (hv : RegSpec.init.validRun cap ops) :
    RegSpec.init.agreesRun ops (RegMap.init.run ops).2 :=
  map_run_refines' ops cap hv

theorem spec_keys_distinct (cap : Nat) (ops : List RegOp) (hv : RegSpec.init.validRun cap ops) :
    ((ops.foldl RegSpec.step RegSpec.init).live.map (·.1)).Nodup :=
  spec_keys_distinct' cap ops hv

end Gnet.Proofs.Registry
