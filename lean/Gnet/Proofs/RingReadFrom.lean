import Gnet.Proofs.RingGrow
set_option linter.unusedSectionVars false
set_option linter.unusedVariables false
set_option linter.unusedSimpArgs false
namespace Gnet.Proofs.Ring
open Gnet
variable {α : Type} [Inhabited α]

theorem length_fresh (gen : Nat → α) (pos m : Nat) : (Fifo.fresh gen pos m).length = m := by
  simp [Fifo.fresh]

theorem fresh_add (gen : Nat → α) (pos a b : Nat) :
    Fifo.fresh gen pos (a + b) = Fifo.fresh gen pos a ++ Fifo.fresh gen (pos + a) b := by
  simp [Fifo.fresh, List.range_add, Nat.add_assoc]

/-- one `ReadFrom` iteration after the growth decision -/
def rfStepCore (gen : Nat → α) (rb : Ring α) (pos : Nat) (st : RStep) : Ring α × Nat :=
  let L := if rb.w ≥ rb.r then rb.size - rb.w else rb.r - rb.w
  let m := min st.k L
  ({ rb with buf := blit rb.buf rb.w (Fifo.fresh gen pos m),
             isEmpty := if m > 0 then false else rb.isEmpty,
             w := (rb.w + m) % rb.size }, m)

theorem rfStep_eq (gen : Nat → α) (rb : Ring α) (pos : Nat) (st : RStep) :
    Ring.rfStep gen rb pos st =
      rfStepCore gen (if rb.available < Ring.MinRead then rb.grow (rb.buffered + Ring.MinRead) else rb) pos st :=
  rfl

theorem rfStepCore_spec (gen : Nat → α) (rb : Ring α) (pos : Nat) (st : RStep) (h : rb.WF)
    (hfit : 1 ≤ rb.available) :
    (0 < rb.size ∧ rb.w ≤ rb.buf.length ∧ rb.r ≤ rb.buf.length) ∧
    (rfStepCore gen rb pos st).1.WF ∧
    (rfStepCore gen rb pos st).1.abs = rb.abs ++ Fifo.fresh gen pos (rfStepCore gen rb pos st).2 := by
  rcases rb with ⟨buf, size, r, w, e⟩
  obtain ⟨hl, hr, hw, he, hz⟩ := h
  simp only at hl hr hw he hz
  simp only [Ring.available] at hfit
  cases e
  · have hz' : size ≠ 0 := by simpa using hz
    have hr' : r < size := by omega
    have hw' : w < size := by omega
    simp only [Bool.false_eq_true, if_false] at hfit
    by_cases hrw : r = w
    · simp only [hrw, if_true] at hfit; omega
    · refine ⟨by simp only []; omega, ?_⟩
      by_cases c1 : r ≤ w
      · simp only [rfStepCore, ge_iff_le, c1, if_true]
        have hmle : min st.k (size - w) ≤ size - w := Nat.min_le_right ..
        generalize min st.k (size - w) = m at hmle ⊢
        have hfl := length_fresh gen pos m
        generalize Fifo.fresh gen pos m = f at hfl ⊢
        rw [mod_wrap (w + m) size (by omega), blit_fit _ _ _ (by omega)]
        ring_auto
      · simp only [rfStepCore, ge_iff_le, c1, if_false]
        have hmle : min st.k (r - w) ≤ r - w := Nat.min_le_right ..
        generalize min st.k (r - w) = m at hmle ⊢
        have hfl := length_fresh gen pos m
        generalize Fifo.fresh gen pos m = f at hfl ⊢
        rw [mod_wrap (w + m) size (by omega), blit_fit _ _ _ (by omega)]
        ring_auto
  · obtain ⟨rfl, rfl⟩ := he rfl
    simp only [if_true] at hfit
    refine ⟨by simp only []; omega, ?_⟩
    simp only [rfStepCore, ge_iff_le, Nat.le_refl, if_true]
    have hmle : min st.k (size - 0) ≤ size - 0 := Nat.min_le_right ..
    generalize min st.k (size - 0) = m at hmle ⊢
    have hfl := length_fresh gen pos m
    generalize Fifo.fresh gen pos m = f at hfl ⊢
    rw [mod_wrap (0 + m) size (by omega), blit_fit _ _ _ (by omega)]
    ring_auto

theorem minRead_pos : 1 ≤ Ring.MinRead := by decide

theorem rfStep_spec (gen : Nat → α) (rb : Ring α) (pos : Nat) (st : RStep) (h : rb.WF) :
    rb.rfStepSafe = true ∧ (Ring.rfStep gen rb pos st).1.WF ∧
    (Ring.rfStep gen rb pos st).1.abs = rb.abs ++ Fifo.fresh gen pos (Ring.rfStep gen rb pos st).2 := by
  have hg := grown_spec rb Ring.MinRead h
  rw [rfStep_eq]
  unfold Ring.rfStepSafe
  simp only [buffered_eq rb h]
  simp only at hg
  generalize (if rb.available < Ring.MinRead then rb.grow (rb.abs.length + Ring.MinRead) else rb) = rb1 at hg ⊢
  obtain ⟨hwf1, habs1, hfit1, hsafe⟩ := hg
  have hc := rfStepCore_spec gen rb1 pos st hwf1 (Nat.le_trans minRead_pos hfit1)
  refine ⟨?_, hc.2.1, by rw [hc.2.2, habs1]⟩
  simp only [Bool.and_eq_true, Bool.or_eq_true, decide_eq_true_eq]
  refine ⟨⟨⟨?_, hc.1.1⟩, hc.1.2.1⟩, Or.inr hc.1.2.2⟩
  split
  · exact hsafe ‹_›
  · rfl

theorem readFrom_spec (gen : Nat → α) (sc : List RStep) : ∀ (rb : Ring α) (pos n : Nat), rb.WF →
    rb.readFromSafe gen pos sc = true ∧ (rb.readFrom gen pos n sc).1.WF ∧
    ∃ m, (rb.readFrom gen pos n sc).2.1 = n + m ∧ (rb.readFrom gen pos n sc).2.2.2 = pos + m ∧
      (rb.readFrom gen pos n sc).1.abs = rb.abs ++ Fifo.fresh gen pos m ∧
      (rb.readFrom gen pos n sc).2.2.1 ≠ .eof := by
  induction sc with
  | nil =>
    intro rb pos n h
    obtain ⟨h1, h2, h3⟩ := rfStep_spec gen rb pos ⟨0, .eof⟩ h
    simp only [Ring.readFromSafe, Ring.readFrom]
    exact ⟨h1, h2, _, rfl, rfl, h3, by simp⟩
  | cons st rest ih =>
    intro rb pos n h
    obtain ⟨h1, h2, h3⟩ := rfStep_spec gen rb pos st h
    simp only [Ring.readFromSafe, Ring.readFrom]
    by_cases e1 : st.err = .eof
    · simp only [e1, if_true, ne_eq, reduceCtorEq, not_false_eq_true, Bool.and_true]
      exact ⟨h1, h2, _, rfl, rfl, h3, by simp⟩
    · by_cases e2 : st.err = .nil
      · obtain ⟨i1, i2, m, i3, i4, i5, i6⟩ :=
          ih (Ring.rfStep gen rb pos st).1 (pos + (Ring.rfStep gen rb pos st).2)
            (n + (Ring.rfStep gen rb pos st).2) h2
        simp only [e2, if_true, if_false, ne_eq, reduceCtorEq, not_true_eq_false, Bool.and_eq_true]
        refine ⟨⟨h1, i1⟩, i2, (Ring.rfStep gen rb pos st).2 + m, ?_, ?_, ?_, i6⟩
        · rw [i3]; omega
        · rw [i4]; omega
        · rw [i5, h3, fresh_add, List.append_assoc]
      · simp only [e1, e2, if_true, if_false, ne_eq, not_false_eq_true, Bool.and_true]
        exact ⟨h1, h2, _, rfl, rfl, h3, trivial⟩

end Gnet.Proofs.Ring
