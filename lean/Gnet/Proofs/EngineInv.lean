/-
  Invariants of the engine shutdown system (Gnet/Model/Engine.lean, Part 2), preserved by every step.
-/
import Gnet.Model.Engine
namespace Gnet.Proofs.Engine
open Gnet.Engine

theorem allExited_iff (s : State) : allExited s = true ↔ (∀ x ∈ s.loops, x.st = .exited) ∧ s.tickerAlive = false := by
  simp [allExited, List.all_eq_true]

structure InvCtl (s : State) : Prop where
  ctx : s.stopPc = .waitCtx ∨ s.ctxCancelled = true
  allEx : (s.stopPc = .closeLoops ∨ s.stopPc = .setFlag ∨ s.stopPc = .returned) →
    (∀ x ∈ s.loops, x.st = .exited) ∧ s.tickerAlive = false
  flag : s.inShutdown = true ↔ s.stopPc = .returned
  shut : s.trace.count .shutdown = if s.stopPc = .waitCtx ∨ s.stopPc = .onShutdown then 0 else 1
  exEmpty : ∀ x ∈ s.loops, x.st = .exited → x.conns = []
  sent : s.stopPc ≠ .waitCtx → s.stopPc ≠ .onShutdown → s.stopPc ≠ .postSentinels →
    ∀ x ∈ s.loops, x.sentinel = true

theorem forall_mem_set {α} {P : α → Prop} {ls : List α} {l : Nat} {y : α}
    (h : ∀ x ∈ ls, P x) (hy : P y) : ∀ x ∈ ls.set l y, P x := by
  intro x hx
  rcases List.mem_or_eq_of_mem_set hx with h1 | h1
  · exact h x h1
  · exact h1 ▸ hy

theorem invCtl_init (n : Nat) (t : Bool) : InvCtl (init n t) := by
  constructor <;> simp [init]

theorem invCtl_setLoop {s : State} (h : InvCtl s) {l : Nat} {x y : Loop} (hx : s.loops[l]? = some x)
    (tr : List Cb) (htr : tr.count .shutdown = s.trace.count .shutdown)
    (cc : Bool) (hcc : s.ctxCancelled = true → cc = true)
    (h1 : y.sentinel = x.sentinel) (h2 : x.st = .exited → y = x) (h3 : y.st = .exited → y.conns = [])
    (nc : Nat) :
    InvCtl { setLoop s l y with trace := tr, ctxCancelled := cc, nextConn := nc } := by
  have hm := List.mem_of_getElem? hx
  constructor
  · simp [setLoop]; rcases h.ctx with h | h <;> simp [h, hcc]
  · simp only [setLoop]
    intro hp
    have := h.allEx hp
    have hy : y = x := h2 (this.1 x hm)
    exact ⟨forall_mem_set this.1 (hy ▸ this.1 x hm), this.2⟩
  · exact h.flag
  · simp only [htr]; exact h.shut
  · simp only [setLoop]
    exact forall_mem_set h.exEmpty h3
  · simp only [setLoop]
    intro a b c
    exact forall_mem_set (h.sent a b c) (h1 ▸ h.sent a b c x hm)

theorem invCtl_trace {s : State} (h : InvCtl s) (tr : List Cb) (htr : tr.count .shutdown = s.trace.count .shutdown) :
    InvCtl { s with trace := tr } := by
  constructor
  · exact h.ctx
  · exact h.allEx
  · exact h.flag
  · simp only [htr]; exact h.shut
  · exact h.exEmpty
  · exact h.sent

theorem invCtl_step {s : State} (h : InvCtl s) (a : Step) : InvCtl (step s a) := by
  cases a with
  | accept l =>
    simp only [step]; split
    · rename_i x hx; split
      · exact invCtl_setLoop h hx (y := { x with conns := x.conns ++ [s.nextConn] }) (s.trace ++ [.open s.nextConn]) (by simp) s.ctxCancelled id rfl (by intro h'; simp_all) (by intro h'; simp_all) (s.nextConn + 1)
      · exact h
    · exact h
  | traffic l c =>
    simp only [step]; split
    · split
      · exact invCtl_trace h _ (by simp)
      · exact h
    · exact h
  | peerClose l c =>
    simp only [step]; split
    · rename_i x hx; split
      · rename_i hc
        have := invCtl_setLoop h hx (y := { x with conns := x.conns.erase c }) (s.trace ++ [.close c]) (by simp) s.ctxCancelled id rfl (by intro h'; simp_all) (by intro h'; simp_all) s.nextConn
        exact this
      · exact h
    · exact h
  | requestStop =>
    simp only [step]
    constructor
    · simp
    · exact h.allEx
    · exact h.flag
    · exact h.shut
    · exact h.exEmpty
    · exact h.sent
  | actionShutdown l =>
    simp only [step]; split
    · rename_i x hx; split
      · exact invCtl_setLoop h hx (y := { x with st := .closing }) s.trace rfl s.ctxCancelled id rfl (by intro h'; simp_all) (by intro h'; simp_all) s.nextConn
      · exact h
    · exact h
  | runSentinel l =>
    simp only [step]; split
    · rename_i x hx; split
      · exact invCtl_setLoop h hx (y := { x with st := .closing }) s.trace rfl s.ctxCancelled id rfl (by intro h'; simp_all) (by intro h'; simp_all) s.nextConn
      · exact h
    · exact h
  | closeOne l =>
    simp only [step]; split
    · rename_i x hx; split
      · split
        · rename_i c rest hc
          exact invCtl_setLoop h hx (y := { x with conns := rest }) (s.trace ++ [.close c]) (by simp) s.ctxCancelled id rfl (by intro h'; simp_all) (by intro h'; simp_all) s.nextConn
        · exact h
      · exact h
    · exact h
  | loopExit l =>
    simp only [step]; split
    · rename_i x hx; split
      · exact invCtl_setLoop h hx (y := { x with st := .exited }) s.trace rfl true (fun _ => rfl) rfl (by intro h'; simp_all) (by intro h'; simp_all) s.nextConn
      · exact h
    · exact h
  | tick =>
    simp only [step]; split
    · exact invCtl_trace h _ (by simp)
    · exact h
  | tickerExit =>
    simp only [step]; split
    · rename_i hc
      constructor
      · exact h.ctx
      · intro hp; exact ⟨(h.allEx hp).1, rfl⟩
      · exact h.flag
      · exact h.shut
      · exact h.exEmpty
      · exact h.sent
    · exact h
  | stopper =>
    have h1 := h.ctx; have h2 := h.allEx; have h3 := h.flag; have h4 := h.shut; have h5 := h.exEmpty; have h6 := h.sent
    simp only [step]; split
    · split
      · constructor <;> simp_all
      · exact h
    · constructor <;> simp_all
    · constructor <;> simp_all
    · split
      · rename_i he
        rw [allExited_iff] at he
        constructor <;> simp_all
      · exact h
    · constructor <;> simp_all
    · constructor <;> simp_all
    · exact h

theorem openIn_open (tr : List Cb) (c : Nat) : openIn (tr ++ [.open c]) = openIn tr ++ [c] := by
  simp [openIn, List.foldl_append]
theorem openIn_close (tr : List Cb) (c : Nat) : openIn (tr ++ [.close c]) = (openIn tr).erase c := by
  simp [openIn, List.foldl_append]
theorem openIn_traffic (tr : List Cb) (c : Nat) : openIn (tr ++ [.traffic c]) = openIn tr := by
  simp [openIn, List.foldl_append]
theorem openIn_tick (tr : List Cb) : openIn (tr ++ [.tick]) = openIn tr := by
  simp [openIn, List.foldl_append]
theorem openIn_shutdown (tr : List Cb) : openIn (tr ++ [.shutdown]) = openIn tr := by
  simp [openIn, List.foldl_append]

theorem set_split {α β} (f : α → List β) : ∀ (ls : List α) (l : Nat) (x : α), ls[l]? = some x →
    ∃ rest, (ls.flatMap f).Perm (f x ++ rest) ∧ ∀ y, ((ls.set l y).flatMap f).Perm (f y ++ rest) := by
  intro ls
  induction ls with
  | nil => intro l x h; simp at h
  | cons a t ih =>
    intro l x h
    cases l with
    | zero =>
      simp at h; subst h
      exact ⟨t.flatMap f, by simp, by intro y; simp⟩
    | succ l =>
      simp at h
      obtain ⟨rest, h1, h2⟩ := ih l x h
      have key : ∀ (u : List β), (f a ++ (u ++ rest)).Perm (u ++ (f a ++ rest)) := by
        intro u
        rw [← List.append_assoc, ← List.append_assoc]
        exact List.Perm.append_right rest List.perm_append_comm
      refine ⟨f a ++ rest, ?_, ?_⟩
      · simp only [List.flatMap_cons]
        exact (List.Perm.append_left (f a) h1).trans (key _)
      · intro y
        simp only [List.set_cons_succ, List.flatMap_cons]
        exact (List.Perm.append_left (f a) (h2 y)).trans (key _)

structure InvConn (s : State) : Prop where
  bal : ∀ c, s.trace.count (.open c) = s.trace.count (.close c) + (openIn s.trace).count c
  fresh : ∀ c, s.nextConn ≤ c → s.trace.count (.open c) = 0
  once : ∀ c, s.trace.count (.open c) ≤ 1
  perm : (openIn s.trace).Perm (s.loops.flatMap (·.conns))

theorem invConn_init (n : Nat) (t : Bool) : InvConn (init n t) := by
  constructor <;> simp [init, openIn]

theorem invConn_of {s s' : State} (h : InvConn s)
    (ho : ∀ c, s'.trace.count (.open c) = s.trace.count (.open c))
    (hc : ∀ c, s'.trace.count (.close c) = s.trace.count (.close c))
    (hopen : openIn s'.trace = openIn s.trace) (hn : s'.nextConn = s.nextConn)
    (hp : (s'.loops.flatMap (·.conns)).Perm (s.loops.flatMap (·.conns))) : InvConn s' := by
  constructor
  · intro c; rw [ho, hc, hopen]; exact h.bal c
  · intro c; rw [ho, hn]; exact h.fresh c
  · intro c; rw [ho]; exact h.once c
  · rw [hopen]; exact h.perm.trans hp.symm

theorem flatMap_set_same {s : State} {l : Nat} {x y : Loop} (hx : s.loops[l]? = some x) (hy : y.conns = x.conns) :
    ((s.loops.set l y).flatMap (·.conns)).Perm (s.loops.flatMap (·.conns)) := by
  obtain ⟨rest, h1, h2⟩ := set_split (·.conns) s.loops l x hx
  have := h2 y
  simp only [hy] at this
  exact this.trans h1.symm

theorem invConn_accept {s : State} (h : InvConn s) {l : Nat} {x : Loop} (hx : s.loops[l]? = some x) :
    InvConn { setLoop s l { x with conns := x.conns ++ [s.nextConn] } with
      nextConn := s.nextConn + 1, trace := s.trace ++ [.open s.nextConn] } := by
  have hf := h.fresh s.nextConn (Nat.le_refl _)
  constructor
  · intro c
    have := h.bal c
    simp only [openIn_open, List.count_append, List.count_singleton]
    simp
    by_cases hc : s.nextConn = c <;> simp [hc] <;> omega
  · intro c hc
    simp only [List.count_append, List.count_singleton]
    have := h.fresh c (by simp at hc; omega)
    have : s.nextConn ≠ c := by simp at hc; omega
    simp_all
  · intro c
    have := h.once c
    simp only [List.count_append, List.count_singleton]
    by_cases hc : s.nextConn = c
    · subst hc; simp [hf]
    · simp [hc]; exact this
  · simp only [openIn_open, setLoop]
    obtain ⟨rest, h1, h2⟩ := set_split (·.conns) s.loops l x hx
    refine List.Perm.trans ?_ (h2 _).symm
    simp only
    have := (h.perm.trans h1)
    refine (List.Perm.append_right [s.nextConn] this).trans ?_
    rw [List.append_assoc, List.append_assoc]
    exact List.Perm.append_left _ List.perm_append_comm

theorem invConn_close {s : State} (h : InvConn s) {l : Nat} {x y : Loop} {c : Nat} (hx : s.loops[l]? = some x)
    (hc : c ∈ x.conns) (hy : y.conns = x.conns.erase c) :
    InvConn { setLoop s l y with trace := s.trace ++ [.close c] } := by
  obtain ⟨rest, h1, h2⟩ := set_split (·.conns) s.loops l x hx
  have hp := h.perm.trans h1
  have hmem : c ∈ openIn s.trace := hp.mem_iff.mpr (by simp [hc])
  have hpos : 0 < (openIn s.trace).count c := List.count_pos_iff.mpr hmem
  constructor
  · intro d
    have := h.bal d
    simp only [openIn_close, List.count_append, List.count_singleton, List.count_erase]
    by_cases hd : c = d
    · subst hd; simp; omega
    · simp [hd]; exact this
  · intro d hd
    have := h.fresh d hd
    simpa [List.count_append] using this
  · intro d
    have := h.once d
    simpa [List.count_append] using this
  · simp only [openIn_close, setLoop]
    refine List.Perm.trans ?_ (h2 _).symm
    simp only [hy]
    have := hp.erase c
    rwa [List.erase_append_left _ hc] at this


theorem invConn_step {s : State} (h : InvConn s) (a : Step) : InvConn (step s a) := by
  cases a with
  | accept l =>
    simp only [step]; split
    · rename_i x hx; split
      · exact invConn_accept h hx
      · exact h
    · exact h
  | traffic l c =>
    simp only [step]; split
    · split
      · exact invConn_of h (by simp [List.count_append]) (by simp [List.count_append]) (openIn_traffic _ _) rfl (List.Perm.refl _)
      · exact h
    · exact h
  | peerClose l c =>
    simp only [step]; split
    · rename_i x hx; split
      · rename_i hc
        exact invConn_close h hx hc.2 rfl
      · exact h
    · exact h
  | requestStop => exact invConn_of h (fun _ => rfl) (fun _ => rfl) rfl rfl (List.Perm.refl _)
  | actionShutdown l =>
    simp only [step]; split
    · rename_i x hx; split
      · exact invConn_of h (fun _ => rfl) (fun _ => rfl) rfl rfl (flatMap_set_same hx rfl)
      · exact h
    · exact h
  | runSentinel l =>
    simp only [step]; split
    · rename_i x hx; split
      · exact invConn_of h (fun _ => rfl) (fun _ => rfl) rfl rfl (flatMap_set_same hx rfl)
      · exact h
    · exact h
  | closeOne l =>
    simp only [step]; split
    · rename_i x hx; split
      · split
        · rename_i c rest hc
          exact invConn_close h hx (by simp [hc]) (by simp [hc])
        · exact h
      · exact h
    · exact h
  | loopExit l =>
    simp only [step]; split
    · rename_i x hx; split
      · exact invConn_of h (fun _ => rfl) (fun _ => rfl) rfl rfl (flatMap_set_same hx rfl)
      · exact h
    · exact h
  | tick =>
    simp only [step]; split
    · exact invConn_of h (by simp [List.count_append]) (by simp [List.count_append]) (openIn_tick _) rfl (List.Perm.refl _)
    · exact h
  | tickerExit =>
    simp only [step]; split
    · exact invConn_of h (fun _ => rfl) (fun _ => rfl) rfl rfl (List.Perm.refl _)
    · exact h
  | stopper =>
    simp only [step]; split
    · split
      · exact invConn_of h (fun _ => rfl) (fun _ => rfl) rfl rfl (List.Perm.refl _)
      · exact h
    · exact invConn_of h (by simp [List.count_append]) (by simp [List.count_append]) (openIn_shutdown _) rfl (List.Perm.refl _)
    · refine invConn_of h (fun _ => rfl) (fun _ => rfl) rfl rfl ?_
      simp [List.flatMap_map]
    · split
      · exact invConn_of h (fun _ => rfl) (fun _ => rfl) rfl rfl (List.Perm.refl _)
      · exact h
    · exact invConn_of h (fun _ => rfl) (fun _ => rfl) rfl rfl (List.Perm.refl _)
    · exact invConn_of h (fun _ => rfl) (fun _ => rfl) rfl rfl (List.Perm.refl _)
    · exact h


/-- the full invariant of reachable states -/
structure Inv (s : State) : Prop where
  ctl : InvCtl s
  conn : InvConn s

theorem inv_init (n : Nat) (t : Bool) : Inv (init n t) := ⟨invCtl_init n t, invConn_init n t⟩

theorem inv_step {s : State} (h : Inv s) (a : Step) : Inv (step s a) :=
  ⟨invCtl_step h.ctl a, invConn_step h.conn a⟩

theorem inv_run {s : State} (h : Inv s) (steps : List Step) : Inv (run s steps) := by
  induction steps generalizing s with
  | nil => exact h
  | cons a rest ih => exact ih (inv_step h a)

theorem inv_reachable {s : State} (h : Reachable s) : Inv s := by
  obtain ⟨n, t, steps, rfl⟩ := h
  exact inv_run (inv_init n t) steps

end Gnet.Proofs.Engine
