/-
  A small weakest-precondition calculus for the reactor monad `M = StateT RState (Except String)`
  and the specifications of the primitive operations of `Gnet/Model/Reactor.lean`.
-/
import Gnet.Spec.ReactorSpec
namespace Gnet.Proofs.ReactorL
open Gnet.Reactor

/-- partial-correctness weakest precondition: if `m` succeeds from `s` the result satisfies `Q` -/
def wp (m : M α) (Q : α → RState → Prop) (s : RState) : Prop :=
  ∀ a s', m.run s = .ok (a, s') → Q a s'

theorem wp_mono {m : M α} {Q Q' : α → RState → Prop} {s : RState}
    (h : wp m Q' s) (hq : ∀ a s', Q' a s' → Q a s') : wp m Q s :=
  fun a s' e => hq a s' (h a s' e)

theorem wp_elim {m : M α} {Q : α → RState → Prop} {s : RState} {a : α} {s' : RState}
    (h : wp m Q s) (e : m.run s = .ok (a, s')) : Q a s' := h a s' e

theorem wp_post {m : M α} {Q : α → RState → Prop} {s : RState} (h : ∀ a s', Q a s') : wp m Q s :=
  fun a s' _ => h a s'

theorem wp_and {m : M α} {Q1 Q2 : α → RState → Prop} {s : RState}
    (h1 : wp m Q1 s) (h2 : wp m Q2 s) : wp m (fun a s' => Q1 a s' ∧ Q2 a s') s :=
  fun a s' e => ⟨h1 a s' e, h2 a s' e⟩

theorem wp_pure (a : α) (Q : α → RState → Prop) (s) : wp (pure a : M α) Q s ↔ Q a s := by
  simp [wp, StateT.run, pure, StateT.pure, Except.pure]

theorem wp_bind (m : M α) (f : α → M β) (Q : β → RState → Prop) (s) :
    wp (m >>= f) Q s ↔ wp m (fun a s1 => wp (f a) Q s1) s := by
  simp only [wp, StateT.run, bind, StateT.bind, Except.bind]
  constructor
  · intro h a s1 h1 b s2 h2
    apply h; rw [h1]; exact h2
  · intro h b s2 h2
    cases h1 : m s with
    | error e => rw [h1] at h2; cases h2
    | ok p => obtain ⟨a, s1⟩ := p; rw [h1] at h2; exact h a s1 h1 b s2 h2

theorem wp_throw (e : String) (Q : α → RState → Prop) (s) : wp (throw e : M α) Q s ↔ True := by
  simp [wp, StateT.run, throw, throwThe, MonadExceptOf.throw, StateT.lift, bind, Except.bind]

theorem throw_bind (e : String) (f : α → M β) : (throw e >>= f : M β) = throw e := rfl

theorem wp_get (Q : RState → RState → Prop) (s) : wp (get : M RState) Q s ↔ Q s s := by
  simp [wp, StateT.run, get, getThe, MonadStateOf.get, StateT.get, pure, Except.pure]

theorem wp_set (s0 : RState) (Q : PUnit → RState → Prop) (s) : wp (set s0 : M PUnit) Q s ↔ Q ⟨⟩ s0 := by
  simp only [wp, StateT.run, set, StateT.set, pure, Except.pure]
  constructor
  · intro h; exact h _ _ rfl
  · intro h a s' e; cases e; exact h

theorem wp_modify (f : RState → RState) (Q : PUnit → RState → Prop) (s) :
    wp (modify f : M PUnit) Q s ↔ Q ⟨⟩ (f s) := by
  simp only [wp, StateT.run, modify, modifyGet, MonadStateOf.modifyGet, StateT.modifyGet, pure, Except.pure]
  constructor
  · intro h; exact h _ _ rfl
  · intro h a s' e; cases e; exact h

theorem wp_ite (b : Prop) [Decidable b] (m1 m2 : M α) (Q : α → RState → Prop) (s) :
    wp (if b then m1 else m2) Q s ↔ (b → wp m1 Q s) ∧ (¬ b → wp m2 Q s) := by
  by_cases h : b <;> simp [h]

/-! ### lists of connections -/

def lookupL (l : List (String × Conn)) (c : String) : Option Conn := (l.find? (·.1 == c)).map (·.2)

def updL (l : List (String × Conn)) (c : String) (y : Conn) : List (String × Conn) :=
  l.map fun p => if p.1 == c then (c, y) else p

theorem lookup_eq (s : RState) (c : String) : lookup s c = lookupL s.conns c := rfl

theorem lookupL_nil (c : String) : lookupL [] c = none := rfl

theorem lookupL_cons (p : String × Conn) (l) (c : String) :
    lookupL (p :: l) c = if p.1 = c then some p.2 else lookupL l c := by
  unfold lookupL
  by_cases h : p.1 = c <;> simp [h]

theorem lookupL_updL_same (l : List (String × Conn)) (c : String) (y : Conn) :
    lookupL (updL l c y) c = (lookupL l c).map fun _ => y := by
  induction l with
  | nil => rfl
  | cons p l ih =>
    rw [updL, List.map_cons, ← updL]
    by_cases h : p.1 = c
    · simp [lookupL_cons, h]
    · simp [lookupL_cons, h, ih]

theorem lookupL_updL_other (l : List (String × Conn)) (c c' : String) (y : Conn) (h : c' ≠ c) :
    lookupL (updL l c y) c' = lookupL l c' := by
  induction l with
  | nil => rfl
  | cons p l ih =>
    rw [updL, List.map_cons, ← updL]
    by_cases h1 : p.1 = c
    · have h2 : ¬ c = c' := fun e => h e.symm
      have h3 : ¬ p.1 = c' := by rw [h1]; exact h2
      simp [lookupL_cons, h1, h2, ih]
    · simp [lookupL_cons, h1, ih]

theorem names_updL (l : List (String × Conn)) (c : String) (y : Conn) :
    (updL l c y).map (·.1) = l.map (·.1) := by
  induction l with
  | nil => rfl
  | cons p l ih =>
    rw [updL, List.map_cons, ← updL]
    by_cases h1 : p.1 = c
    · simp [h1, ih]
    · simp [h1, ih]

/-! ### primitive operations -/

theorem wp_getConn (c : String) (Q : Conn → RState → Prop) (s) :
    wp (getConn c) Q s ↔ ∀ x, lookupL s.conns c = some x → Q x s := by
  unfold getConn
  rw [wp_bind, wp_get]
  unfold lookupL
  cases h : s.conns.find? (·.1 == c) with
  | none => simp [wp_throw]
  | some p => obtain ⟨n, x⟩ := p; simp [wp_pure]

theorem wp_setConn (c : String) (y : Conn) (Q : PUnit → RState → Prop) (s) :
    wp (setConn c y) Q s ↔ Q ⟨⟩ { s with conns := updL s.conns c y } := by
  unfold setConn; rw [wp_modify]; rfl

theorem wp_modConn (c : String) (f : Conn → Conn) (Q : PUnit → RState → Prop) (s) :
    wp (modConn c f) Q s ↔
      ∀ x, lookupL s.conns c = some x → Q ⟨⟩ { s with conns := updL s.conns c (f x) } := by
  unfold modConn; rw [wp_bind, wp_getConn]; simp only [wp_setConn]

theorem wp_noteSys (c : String) (Q : PUnit → RState → Prop) (s) :
    wp (noteSys c) Q s ↔
      ∀ x, lookupL s.conns c = some x → Q ⟨⟩ { s with sysLog := s.sysLog ++ [(c, x.fdOpen)] } := by
  unfold noteSys; rw [wp_bind, wp_getConn]; simp only [wp_modify]

theorem wp_pop (Q : Tok → RState → Prop) (s) :
    wp pop Q s ↔ ∀ t rest, s.toks = t :: rest → t.sane = true → Q t { s with toks := rest } := by
  unfold pop; rw [wp_bind, wp_get]
  cases h : s.toks with
  | nil => simp [wp_throw]
  | cons t rest =>
    simp only [↓throw_bind, wp_bind, wp_set, wp_pure, wp_ite, wp_throw]
    constructor
    · intro h' t' rest' e hs; cases e; exact h'.2 (by simp [hs])
    · intro h'
      refine ⟨fun _ => trivial, fun hs => h' _ _ rfl ?_⟩
      simpa using hs

theorem wp_peekTok (Q : Option Tok → RState → Prop) (s) :
    wp peekTok Q s ↔ Q s.toks.head? s := by
  unfold peekTok; rw [wp_bind, wp_get, wp_pure]

theorem wp_mismatch (what : String) (t : Tok) (Q : α → RState → Prop) (s) :
    wp (mismatch what t : M α) Q s ↔ True := by
  unfold mismatch; rw [wp_throw]

theorem wp_expectEnter (fn c : String) (Q : String → RState → Prop) (s) :
    wp (expectEnter fn c) Q s ↔
      ∀ a rest, s.toks = .enter fn c a :: rest → Q a { s with toks := rest } := by
  unfold expectEnter; rw [wp_bind, wp_pop]
  constructor
  · intro h a rest ht
    have := h _ _ ht rfl
    simpa [wp_pure] using this
  · intro h t rest ht _
    split
    · rename_i f c' a
      rw [wp_ite]
      refine ⟨fun hb => ?_, fun _ => by rw [wp_mismatch]; trivial⟩
      simp only [Bool.and_eq_true, beq_iff_eq] at hb
      obtain ⟨rfl, rfl⟩ := hb
      rw [wp_pure]; exact h _ _ ht
    · rw [wp_mismatch]; trivial

theorem wp_checkHop (op : String) (n : Int) (e : String) (d : List Nat) (Q : Unit → RState → Prop) (s) :
    wp (checkHop op n e d) Q s ↔
      ∀ rest, s.toks = .res n e d :: rest → Q () { s with toks := rest } := by
  unfold checkHop; rw [wp_bind, wp_pop]
  constructor
  · intro h rest ht
    have := h _ _ ht rfl
    simpa [wp_pure] using this
  · intro h t rest ht _
    split
    · rename_i n' e' d'
      rw [wp_ite]
      refine ⟨fun hb => ?_, fun _ => by rw [wp_throw]; trivial⟩
      simp only [Bool.and_eq_true, beq_iff_eq] at hb
      obtain ⟨⟨rfl, rfl⟩, rfl⟩ := hb
      rw [wp_pure]; exact h _ ht
    · rw [wp_mismatch]; trivial

theorem wp_popRes (op : String) (Q : (Int × String × List Nat) → RState → Prop) (s) :
    wp (popRes op) Q s ↔
      ∀ n e d rest, s.toks = .res n e d :: rest → Q (n, e, d) { s with toks := rest } := by
  unfold popRes; rw [wp_bind, wp_pop]
  constructor
  · intro h n e d rest ht
    have := h _ _ ht rfl
    simpa [wp_pure] using this
  · intro h t rest ht _
    split
    · rw [wp_pure]; exact h _ _ _ _ ht
    · rw [wp_mismatch]; trivial

theorem exec_zero (w : Work) (Q : Ret → RState → Prop) (s) : wp (exec 0 w) Q s := by
  rw [exec, wp_throw]; trivial

/-- the connection a piece of work is about -/
def target : Work → Option String
  | .accept _ => none
  | .register0 c => some c
  | .open c => some c
  | .connOpen c _ => some c
  | .processIO c _ => some c
  | .elRead c => some c
  | .elReadLoop c _ => some c
  | .elWrite c => some c
  | .elWriteLoop c _ => some c
  | .close c _ => some c
  | .closeFlush c => some c
  | .handleAction c _ => some c
  | .callback _ c => some c
  | .connWrite c _ => some c
  | .connWriteLoop c _ _ => some c
  | .connWritev c _ => some c
  | .connWritevLoop c _ _ => some c
  | .flush c => some c
  | .wake c => some c
  | .readUDP _ => none
  | .udpCallback _ _ => none
  | .closeConns => none

attribute [irreducible] wp

/-- the simp set that turns `wp (do ...) Q s` into a verification condition -/
macro "wsimp" : tactic => `(tactic| simp only [↓throw_bind, wp_bind, wp_get, wp_set, wp_ite, wp_throw,
  wp_pure, wp_modify, wp_pop, wp_getConn, wp_modConn, wp_noteSys, wp_peekTok, wp_mismatch,
  wp_expectEnter, wp_checkHop, wp_popRes])

end Gnet.Proofs.ReactorL
