/-
  The inductive invariant of the wake-up protocol model (C03) and its basic lemmas.
-/
import Gnet.Model.Wake
import Gnet.Proofs.Msq
import Gnet.Proofs.WakeMsq
namespace Gnet.Proofs.Wake
open Gnet Gnet.Wake
open Gnet.Proofs.Msq (thr EnqPc DeqPc PendPc)

/-- total view of a thread (threads out of range look idle) -/
def wt (s : State) (j : Nat) : Thread := s.threads.getD j {}

theorem wt_of_getElem? {s : State} {j : Nat} {t : Thread} (h : s.threads[j]? = some t) :
    wt s j = t := by
  simp [wt, List.getD_eq_getElem?_getD, h]

theorem getElem?_of_lt {s : State} {j : Nat} (h : j < s.threads.length) :
    s.threads[j]? = some (wt s j) := by
  simp [wt, List.getD_eq_getElem?_getD, List.getElem?_eq_getElem h]

theorem lt_of_getElem? {s : State} {j : Nat} {t : Thread} (h : s.threads[j]? = some t) :
    j < s.threads.length := Msq.lt_of_getElem? h

theorem wt_of_ge {s : State} {j : Nat} (h : s.threads.length ≤ j) : wt s j = {} := by
  simp [wt, List.getD_eq_getElem?_getD, List.getElem?_eq_none_iff.2 h]

theorem loopPc_eq (s : State) : loopPc s = (wt s 0).pc := rfl

def LoopPc : Pc → Bool
  | .lWait | .lDeqU | .lDeqL | .lStore | .lEmptyL | .lEmptyU | .lCas | .lWrite | .lExit => true
  | _ => false
def ProdPc : Pc → Bool
  | .idle | .pLen | .pEnqU | .pEnqL | .pCas | .pWrite => true
  | _ => false

/-- the thread's pc inside the urgent queue, given its pc in the protocol -/
def okU (p : Pc) (u : Msq.Pc) : Bool :=
  match p with
  | .pEnqU => EnqPc u
  | .lDeqU => DeqPc u
  | _ => u == .idle
def okL (p : Pc) (l : Msq.Pc) : Bool :=
  match p with
  | .pEnqL => EnqPc l
  | .lDeqL => DeqPc l
  | _ => l == .idle

/-- (I1) single consumer, producers only enqueue, sub-operations are in progress exactly
    while the protocol pc says so -/
def TOk (j : Nat) (p : Pc) (u l : Msq.Pc) : Prop :=
  (if j = 0 then LoopPc p else ProdPc p) = true ∧ okU p u = true ∧ okL p l = true

/-- the producer has linked its task and not finished its own wake-up attempt -/
def pend (p : Pc) (u l : Msq.Pc) : Bool :=
  match p with
  | .pCas | .pWrite => true
  | .pEnqU => PendPc u
  | .pEnqL => PendPc l
  | _ => false

def Pending (s : State) : Prop :=
  ∃ j, 0 < j ∧ pend (wt s j).pc (thr s.urgent j).pc (thr s.low j).pc = true

theorem PendPc_iff (u : Msq.Pc) : PendPc u = true ↔ (u = .eCasTail ∨ u = .eAdd) := by
  cases u <;> simp [PendPc]

theorem pending_iff (s : State) : Pending s ↔ producerPending s := by
  constructor
  · rintro ⟨j, h0, hp⟩
    by_cases hlt : j < s.threads.length
    · refine ⟨j, wt s j, h0, getElem?_of_lt hlt, ?_⟩
      revert hp
      unfold pend
      cases hpc : (wt s j).pc <;> simp [PendPc_iff, thr]
    · rw [wt_of_ge (Nat.le_of_not_lt hlt)] at hp
      simp [pend] at hp
  · rintro ⟨j, t, h0, ht, hp⟩
    refine ⟨j, h0, ?_⟩
    rw [wt_of_getElem? ht]
    unfold pend
    rcases hp with h | h | ⟨h, h'⟩ | ⟨h, h'⟩ <;> simp [h, PendPc_iff] <;> exact h'

/-- loop pcs at which `wakeupCall = 1` needs no pending edge or writer -/
def SetI2 : Pc → Bool
  | .lWrite | .lDeqU | .lDeqL | .lStore | .lExit => true
  | _ => false
/-- loop pcs covering a task in the low-priority queue -/
def SetL : Pc → Bool
  | .lDeqU | .lDeqL | .lStore | .lEmptyL | .lCas | .lWrite | .lExit => true
  | _ => false
/-- loop pcs covering a task in the urgent queue -/
def SetU : Pc → Bool
  | .lDeqU | .lDeqL | .lStore | .lEmptyL | .lEmptyU | .lCas | .lWrite | .lExit => true
  | _ => false

/-- the task just unlinked by the loop's Dequeue and not yet returned -/
def inflight (th : Msq.Thread) : List Nat := if th.pc = .dSub then [th.task] else []

structure WInv (s : State) : Prop where
  iu : Msq.Inv s.urgent
  il : Msq.Inv s.low
  lenU : s.urgent.threads.length = s.threads.length
  lenL : s.low.threads.length = s.threads.length
  pos : 0 < s.threads.length
  tok : ∀ j, TOk j (wt s j).pc (thr s.urgent j).pc (thr s.low j).pc
  flag : s.wakeupCall = 0 ∨ s.wakeupCall = 1
  i2 : s.wakeupCall = 1 → s.edge = true ∨ (∃ j, (wt s j).pc = .pWrite) ∨ SetI2 (wt s 0).pc = true
  i3L : s.low.absQ ≠ [] → s.edge = true ∨ Pending s ∨ SetL (wt s 0).pc = true
  i3U : s.urgent.absQ ≠ [] → s.edge = true ∨ Pending s ∨ SetU (wt s 0).pc = true
  i4U : s.urgent.deqLog = s.executedU ++ inflight (Msq.thr s.urgent 0)
  i4L : s.low.deqLog = s.executedL ++ inflight (Msq.thr s.low 0)
  lc : (wt s 0).pc = .lDeqU → (wt s 0).lowCount = 0

/-- what a transition of thread `tid` leaves alone -/
structure Frame (s s' : State) (tid : Nat) (t' : Thread) : Prop where
  lt : tid < s.threads.length
  threads : s'.threads = s.threads.set tid t'
  lenU : s'.urgent.threads.length = s.urgent.threads.length
  lenL : s'.low.threads.length = s.low.threads.length
  neU : ∀ j, j ≠ tid → Msq.thr s'.urgent j = Msq.thr s.urgent j
  neL : ∀ j, j ≠ tid → Msq.thr s'.low j = Msq.thr s.low j

namespace Frame
variable {s s' : State} {tid : Nat} {t' : Thread}

theorem wt_self (F : Frame s s' tid t') : wt s' tid = t' := by
  unfold wt; rw [F.threads, Msq.getD_set_self F.lt]

theorem wt_ne (F : Frame s s' tid t') {j : Nat} (h : j ≠ tid) : wt s' j = wt s j := by
  unfold wt; rw [F.threads, Msq.getD_set_ne h]

theorem len (F : Frame s s' tid t') : s'.threads.length = s.threads.length := by
  rw [F.threads]; simp

/-- producers other than the acting thread stay pending -/
theorem pending_mono (F : Frame s s' tid t')
    (h : pend (wt s tid).pc (thr s.urgent tid).pc (thr s.low tid).pc = true →
         pend t'.pc (thr s'.urgent tid).pc (thr s'.low tid).pc = true) :
    Pending s → Pending s' := by
  rintro ⟨j, h0, hp⟩
  refine ⟨j, h0, ?_⟩
  by_cases hj : j = tid
  · subst hj; rw [F.wt_self]; exact h hp
  · rw [F.wt_ne hj, F.neU j hj, F.neL j hj]; exact hp

theorem pending_self (F : Frame s s' tid t') (h0 : 0 < tid)
    (h : pend t'.pc (thr s'.urgent tid).pc (thr s'.low tid).pc = true) : Pending s' :=
  ⟨tid, h0, by rw [F.wt_self]; exact h⟩

theorem writer_mono (F : Frame s s' tid t') (h : (wt s tid).pc = .pWrite → t'.pc = .pWrite) :
    (∃ j, (wt s j).pc = .pWrite) → ∃ j, (wt s' j).pc = .pWrite := by
  rintro ⟨j, hp⟩
  refine ⟨j, ?_⟩
  by_cases hj : j = tid
  · subst hj; rw [F.wt_self]; exact h hp
  · rw [F.wt_ne hj]; exact hp

end Frame

end Gnet.Proofs.Wake
