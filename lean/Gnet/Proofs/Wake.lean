/-
  C03: the wake-up protocol theorems. The invariant is in `WakeInv.lean`, its preservation in
  `WakeStep.lean`, queue-level facts in `WakeMsq.lean`.
-/
import Gnet.Model.Wake
import Gnet.Proofs.Msq
import Gnet.Proofs.WakeMsq
import Gnet.Proofs.WakeInv
import Gnet.Proofs.WakeStep
import Gnet.Proofs.WakeSolo
import Gnet.Proofs.WakeLive
namespace Gnet.Proofs.Wake
open Gnet Gnet.Wake

theorem runEvs_e0 (q : Msq.State) : q = Msq.runEvs q [] := rfl
theorem runEvs_e1 (q : Msq.State) (a : Nat) (b : Msq.Op) : Msq.start q a b = Msq.runEvs q [.start a b] := rfl
theorem runEvs_e2 (q : Msq.State) (a : Nat) : (Msq.step q a).1 = Msq.runEvs q [.step a] := rfl
theorem runEvs_e3 (q : Msq.State) (a c : Nat) (b : Msq.Op) :
    Msq.start (Msq.step q a).1 c b = Msq.runEvs q [.step a, .start c b] := rfl

theorem step_queues (s : State) (tid : Nat) :
    (∃ evs, (step s tid).1.urgent = Msq.runEvs s.urgent evs) ∧
    (∃ evs, (step s tid).1.low = Msq.runEvs s.low evs) := by
  cases ht : s.threads[tid]? with
  | none => exact ⟨⟨[], by simp [step, ht]; rfl⟩, ⟨[], by simp [step, ht]; rfl⟩⟩
  | some t =>
    rw [step_eq ht]
    cases hpc : t.pc <;> simp only
    all_goals (repeat' split)
    all_goals constructor
    all_goals try simp only [setThread, beginDeqU, beginDeqL]
    all_goals first
      | exact ⟨_, runEvs_e0 _⟩
      | exact ⟨_, runEvs_e1 _ _ _⟩
      | exact ⟨_, runEvs_e2 _ _⟩
      | exact ⟨_, runEvs_e3 _ _ _ _⟩

theorem start_queues (s : State) (tid v : Nat) (l : Bool) :
    (∃ evs, (start s tid v l).urgent = Msq.runEvs s.urgent evs) ∧
    (∃ evs, (start s tid v l).low = Msq.runEvs s.low evs) := by
  unfold start
  repeat' split
  all_goals constructor
  all_goals try simp only [setThread]
  all_goals first
    | exact ⟨_, runEvs_e0 _⟩
    | exact ⟨_, runEvs_e1 _ _ _⟩

theorem msq_reachable_runEvs {q : Msq.State} (h : Msq.Reachable q) (evs : List Msq.Ev) :
    Msq.Reachable (Msq.runEvs q evs) := by
  obtain ⟨n, evs0, rfl⟩ := h
  exact ⟨n, evs0 ++ evs, by rw [Msq.runEvs_append]⟩

theorem queues_reachable_runEvs : ∀ (evs : List Ev) (s : State),
    Msq.Reachable s.urgent ∧ Msq.Reachable s.low →
    Msq.Reachable (runEvs s evs).urgent ∧ Msq.Reachable (runEvs s evs).low := by
  intro evs
  induction evs with
  | nil => intro s hs; exact hs
  | cons e es ih =>
    intro s hs
    simp only [runEvs]
    apply ih
    cases e with
    | start tid v l =>
      obtain ⟨⟨e1, h1⟩, ⟨e2, h2⟩⟩ := start_queues s tid v l
      simp only [apply]
      rw [h1, h2]
      exact ⟨msq_reachable_runEvs hs.1 _, msq_reachable_runEvs hs.2 _⟩
    | step tid =>
      obtain ⟨⟨e1, h1⟩, ⟨e2, h2⟩⟩ := step_queues s tid
      simp only [apply]
      rw [h1, h2]
      exact ⟨msq_reachable_runEvs hs.1 _, msq_reachable_runEvs hs.2 _⟩

theorem queues_reachable (s : State) (h : Reachable s) :
    Msq.Reachable s.urgent ∧ Msq.Reachable s.low := by
  obtain ⟨n, th, evs, rfl⟩ := h
  exact queues_reachable_runEvs evs _ ⟨⟨n + 1, [], rfl⟩, ⟨n + 1, [], rfl⟩⟩

theorem no_lost (s : State) (h : Reachable s) (hq : anyQueued s) (hx : loopPc s ≠ .lExit) :
    WakeOutstanding s := by
  have W := winv_reachable h
  have key : s.edge = true ∨ Pending s ∨ SetU (wt s 0).pc = true := by
    rcases hq with hq | hq
    · exact W.i3U hq
    · rcases W.i3L hq with h | h | h
      · exact Or.inl h
      · exact Or.inr (Or.inl h)
      · exact Or.inr (Or.inr (SetL_SetU h))
  unfold WakeOutstanding
  rw [loopPc_eq] at hx ⊢
  rcases key with h | h | h
  · exact Or.inl h
  · exact Or.inr (Or.inr (Or.inr (Or.inr (Or.inr (Or.inr (Or.inr (Or.inr ((pending_iff s).1 h))))))))
  · revert h hx
    cases (wt s 0).pc <;> simp [SetU]

theorem blocked_empty (s : State) (h : Reachable s) (hl : loopPc s = .lWait) (he : s.edge = false)
    (hp : ∀ tid t, 0 < tid → s.threads[tid]? = some t → t.pc = .idle) : ¬ anyQueued s := by
  intro hq
  have hw := no_lost s h hq (by rw [hl]; intro h; cases h)
  unfold WakeOutstanding at hw
  rw [hl, he] at hw
  rcases hw with h | h | h | h | h | h | h | h | ⟨tid, t, h0, ht, hpc⟩ <;> try (cases h; done)
  have := hp tid t h0 ht
  rw [this] at hpc
  simp at hpc

theorem exactly_once_urgent (s : State) (h : Reachable s) :
    ∃ inflight : List Nat, inflight.length ≤ 1 ∧
      s.urgent.enqLog = s.executedU ++ inflight ++ s.urgent.absQ := by
  have W := winv_reachable h
  obtain ⟨c, hh, t, I⟩ := W.iu
  refine ⟨inflight (Msq.thr s.urgent 0), ?_, ?_⟩
  · unfold inflight; split <;> simp
  · rw [I.fifo, W.i4U]

theorem exactly_once_low (s : State) (h : Reachable s) :
    ∃ inflight : List Nat, inflight.length ≤ 1 ∧
      s.low.enqLog = s.executedL ++ inflight ++ s.low.absQ := by
  have W := winv_reachable h
  obtain ⟨c, hh, t, I⟩ := W.il
  refine ⟨inflight (Msq.thr s.low 0), ?_, ?_⟩
  · unfold inflight; split <;> simp
  · rw [I.fifo, W.i4L]

theorem high_priority_urgent (s : State) (tid task : Nat) (t : Thread)
    (ht : s.threads[tid]? = some t) (hi : t.pc = .idle) (h0 : 0 < tid) :
    ((start s tid task false).threads.getD tid {}).pc = .pEnqU := by
  have hlt := lt_of_getElem? ht
  unfold start
  rw [if_neg (by omega), ht]
  simp only [hi]
  simp [setThread, List.getD_eq_getElem?_getD, hlt]

theorem flag (s : State) (h : Reachable s) : s.wakeupCall = 0 ∨ s.wakeupCall = 1 :=
  (winv_reachable h).flag

theorem never_stuck (s : State) (h : Reachable s) (hq : anyQueued s) (hx : loopPc s ≠ .lExit) :
    ∃ evs, s.executedU.length + s.executedL.length <
      (runEvs s evs).executedU.length + (runEvs s evs).executedL.length := by
  have W := winv_reachable h
  obtain ⟨evs, he⟩ := never_stuck_inv W hq (by rw [← loopPc_eq]; exact hx)
  exact ⟨evs, he⟩
end Gnet.Proofs.Wake
