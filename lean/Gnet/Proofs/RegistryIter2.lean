/-
  `iterate` with removal of every visited connection (the shutdown pattern): during the loop
  compaction is disabled and only a weaker invariant holds; at the end the registry is empty.
-/
import Gnet.Proofs.RegistryIter
namespace Gnet.Proofs.Registry
open Gnet

/-- the invariant of the removal loop; `lo r` = first not yet visited column of row `r`,
    `m0` = the registry when the loop started -/
structure LoopInv (m0 : Matrix) (lo : Nat → Nat) (cur : Matrix) : Prop where
  rows : cur.rows = m0.rows
  cols : cur.cols = m0.cols
  dc : cur.disableCompact = true
  objs : cur.objs = m0.objs
  cellc : ∀ r c, cell cur r c = if lo r ≤ c then cell m0 r c else none
  alloc : ∀ r, (cur.table r).isSome ↔ lo r < hi m0.row m0.col m0.cols r
  cnt : ∀ r, cur.counts r = ((hi m0.row m0.col m0.cols r - lo r : Nat) : Int)
  f2g : ∀ fd, cur.fd2gfd fd = none ∨ ∃ r c, m0.fd2gfd fd = some (r, c) ∧ lo r ≤ c
  cursor : (cur.row = 0 ∧ cur.col = 0) ∨ ((∀ r, lo r = 0) ∧ cur.row = m0.row ∧ cur.col = m0.col)

theorem LoopInv.start {m0 : Matrix} {s : RegSpec} (h0 : Inv m0 s) :
    LoopInv m0 (hi 0 0 m0.cols) { m0 with disableCompact := true } := by
  have hz : ∀ r, hi 0 0 m0.cols r = 0 := by
    intro r
    rcases hi_spec 0 0 m0.cols r with a | a | a <;> omega
  refine ⟨rfl, rfl, rfl, rfl, ?_, ?_, ?_, ?_, Or.inr ⟨hz, rfl, rfl⟩⟩
  · intro r c
    rw [hz, if_pos (Nat.zero_le _)]
    rfl
  · intro r
    rw [hz]
    exact h0.alloc r
  · intro r
    rw [hz]
    exact h0.cnt r
  · intro fd
    show m0.fd2gfd fd = none ∨ _
    cases hf : m0.fd2gfd fd with
    | none => exact Or.inl rfl
    | some p => exact Or.inr ⟨p.1, p.2, rfl, by rw [hz]; exact Nat.zero_le _⟩

/-- one visited position -/
theorem LoopInv.step {m0 : Matrix} {s : RegSpec} (h0 : Inv m0 s) {lo : Nat → Nat} {cur : Matrix}
    (li : LoopInv m0 lo cur) (r c : Nat) (hlo : lo r = c) (hfirst : (∀ r', lo r' = 0) → r = 0) :
    readCell m0.table cur r c = cell m0 r c ∧
    (cell m0 r c = none → LoopInv m0 (fun r' => if r' = r then c + 1 else lo r') cur) ∧
    (∀ id, cell m0 r c = some id →
      ∃ cur', cur.delConn id = some cur' ∧ LoopInv m0 (fun r' => if r' = r then c + 1 else lo r') cur') := by
  refine ⟨?_, ?_, ?_⟩
  · -- what the loop reads
    unfold readCell
    show _ = cellT m0.table r c
    unfold cellT
    cases hs : m0.table r with
    | none => rfl
    | some str =>
      dsimp only
      cases ht : cur.table r with
      | none => rfl
      | some tr =>
        dsimp only
        have := li.cellc r c
        rw [hlo, if_pos (Nat.le_refl c)] at this
        have e1 : cell cur r c = tr c := by
          show cellT cur.table r c = _
          unfold cellT; rw [ht]
        have e2 : cell m0 r c = str c := by
          show cellT m0.table r c = _
          unfold cellT; rw [hs]
        rw [← e1, ← e2, this]
  · -- an empty cell: nothing changes
    intro hnone
    have hge : hi m0.row m0.col m0.cols r ≤ c := by
      have := h0.dense r c
      rw [hnone] at this
      simp at this
      omega
    refine ⟨li.rows, li.cols, li.dc, li.objs, ?_, ?_, ?_, ?_, ?_⟩
    · intro r' c'
      rw [li.cellc]
      by_cases e : r' = r
      · rw [if_pos e, e, hlo]
        by_cases e2 : c' = c
        · rw [e2, if_pos (Nat.le_refl c), if_neg (by omega), hnone]
        · by_cases e3 : c ≤ c'
          · rw [if_pos e3, if_pos (by omega)]
          · rw [if_neg e3, if_neg (by omega)]
      · rw [if_neg e]
    · intro r'
      rw [li.alloc]
      by_cases e : r' = r
      · rw [if_pos e, e, hlo]; omega
      · rw [if_neg e]
    · intro r'
      rw [li.cnt]
      by_cases e : r' = r
      · rw [if_pos e, e, hlo]
        have : hi m0.row m0.col m0.cols r - c = hi m0.row m0.col m0.cols r - (c + 1) := by omega
        rw [this]
      · rw [if_neg e]
    · intro fd
      rcases li.f2g fd with hn | ⟨r', c', h1, h2⟩
      · exact Or.inl hn
      · right
        refine ⟨r', c', h1, ?_⟩
        by_cases e : r' = r
        · rw [if_pos e]
          rw [e, hlo] at h2
          have : c' ≠ c := by
            intro e2
            obtain ⟨id, hid, _⟩ := h0.fd2gfd_some h1
            rw [e, e2, hnone] at hid
            cases hid
          omega
        · rw [if_neg e]; exact h2
    · rcases li.cursor with hc | ⟨hz, h1, h2⟩
      · exact Or.inl hc
      · left
        have hr0 : r = 0 := hfirst hz
        have hc0 : c = 0 := by rw [← hlo]; exact hz r
        subst hr0
        subst hc0
        have hc2 := h0.c2
        rw [h1, h2]
        rcases hi_spec m0.row m0.col m0.cols 0 with a | a | a <;> omega
  · -- an occupied cell: the connection is removed without compaction
    intro id hid
    obtain ⟨hgrow, hgcol, hlive⟩ := h0.obj r c id hid
    have hpos := h0.cell_pos hid
    have hgrow' : (cur.objs id).grow = r := by rw [li.objs]; exact hgrow
    have hgcol' : (cur.objs id).gcol = c := by rw [li.objs]; exact hgcol
    have hcntr : cur.counts r = ((hi m0.row m0.col m0.cols r - c : Nat) : Int) := by
      rw [li.cnt, hlo]
    have hallocr : (cur.table r).isSome := (li.alloc r).2 (by rw [hlo]; exact hpos)
    have hpre : cur.counts (cur.objs id).grow - 1 ≠ 0 → (cur.table (cur.objs id).grow).isSome := by
      intro _; rw [hgrow']; exact hallocr
    obtain ⟨rows3, cols3, dc3, o3, f3, c3, t3⟩ := core3 cur id r c hgrow' hgcol'
    refine ⟨delCore cur id, ?_, ?_⟩
    · rw [delConn_eq cur id hpre, if_pos (Or.inl (dc3.trans li.dc))]
    have hz_iff : (cur.counts r - 1 = 0) ↔ hi m0.row m0.col m0.cols r = c + 1 := by omega
    refine ⟨rows3.trans li.rows, cols3.trans li.cols, dc3.trans li.dc, o3.trans li.objs, ?_, ?_, ?_, ?_, ?_⟩
    · intro r' c'
      show cellT (delCore cur id).table r' c' = _
      rw [t3, cellT_clearT]
      have hcc : ∀ x y, cellT cur.table x y = if lo x ≤ y then cell m0 x y else none := li.cellc
      by_cases e : r' = r
      · rw [e]
        simp only [if_true, true_and]
        by_cases hz : cur.counts r - 1 = 0
        · rw [decide_eq_true hz]
          simp only [if_true]
          by_cases e3 : c + 1 ≤ c'
          · rw [if_pos e3]
            have := h0.dense r c'
            cases hx : cell m0 r c' with
            | none => rfl
            | some x => rw [hx] at this; simp at this; omega
          · rw [if_neg e3]
        · rw [decide_eq_false hz]
          simp only [Bool.false_eq_true, if_false]
          by_cases e2 : c' = c
          · rw [if_pos e2, if_neg (by omega)]
          · rw [if_neg e2, hcc, hlo]
            by_cases e3 : c ≤ c'
            · rw [if_pos e3, if_pos (by omega)]
            · rw [if_neg e3, if_neg (by omega)]
      · simp only [e, false_and, if_false, ite_self]
        exact hcc r' c'
    · intro r'
      rw [t3, clearT_isSome]
      by_cases e : r' = r
      · rw [if_pos e, if_pos e, e, Option.isSome_iff_exists.1 hallocr |>.choose_spec]
        by_cases hz : cur.counts r - 1 = 0
        · rw [decide_eq_true hz]; simp; omega
        · rw [decide_eq_false hz]; simp; omega
      · rw [if_neg e, if_neg e]
        exact li.alloc r'
    · intro r'
      rw [c3]
      by_cases e : r' = r
      · rw [if_pos e, e, upd_same, hcntr]; omega
      · rw [if_neg e, upd_other _ _ _ _ e]; exact li.cnt r'
    · intro fd
      rw [f3, li.objs, h0.objfd]
      by_cases e : fd = s.fdOf id
      · left; rw [e, updI_same]
      · rw [updI_other _ _ _ _ e]
        rcases li.f2g fd with hn | ⟨r', c', h1, h2⟩
        · exact Or.inl hn
        · right
          refine ⟨r', c', h1, ?_⟩
          by_cases e1 : r' = r
          · rw [if_pos e1]
            rw [e1, hlo] at h2
            have : c' ≠ c := by
              intro e2
              obtain ⟨id', hid', hl'⟩ := h0.fd2gfd_some h1
              rw [e1, e2, hid] at hid'
              cases hid'
              exact e (h0.sinv.mem_fdOf hl').symm
            omega
          · rw [if_neg e1]; exact h2
    · left
      rcases li.cursor with hc | ⟨hz, h1, h2⟩
      · have hk : ¬ (cur.row > (cur.objs id).grow ∨ cur.col > (cur.objs id).gcol) := by omega
        obtain ⟨a, b⟩ := delCore_cursor_keep cur id hk
        exact ⟨a.trans hc.1, b.trans hc.2⟩
      · have hr0 : r = 0 := hfirst hz
        have hc0 : c = 0 := by rw [← hlo]; exact hz r
        have hk : cur.row > (cur.objs id).grow ∨ cur.col > (cur.objs id).gcol := by
          rw [hgrow', hgcol', h1, h2, hr0, hc0]
          rw [hr0, hc0] at hpos
          rcases hi_spec m0.row m0.col m0.cols 0 with a | a | a <;> omega
        obtain ⟨a, b⟩ := delCore_cursor cur id hk
        exact ⟨a.trans (hgrow'.trans hr0), b.trans (hgcol'.trans hc0)⟩

theorem hi_succ_col (r c cols : Nat) :
    (fun r' => if r' = r then c + 1 else hi r c cols r') = hi r (c + 1) cols := by
  funext r'
  by_cases e : r' = r
  · rw [if_pos e]
    rcases hi_spec r (c + 1) cols r' with a | a | a <;> omega
  · rw [if_neg e]
    rcases hi_spec r (c + 1) cols r' with a | a | a <;>
      rcases hi_spec r c cols r' with b | b | b <;> omega

theorem hi_next_row (r cols : Nat) : hi r cols cols = hi (r + 1) 0 cols := by
  funext r'
  rcases hi_spec r cols cols r' with a | a | a <;>
    rcases hi_spec (r + 1) 0 cols r' with b | b | b <;> omega

theorem visit_cons_none (m : Matrix) (r c : Nat) (l : List (Nat × Nat)) (h : cell m r c = none) :
    visit m ((r, c) :: l) = visit m l := by
  unfold visit
  simp only [List.filterMap_cons, h]

theorem visit_cons_some (m : Matrix) (r c id : Nat) (l : List (Nat × Nat)) (h : cell m r c = some id) :
    visit m ((r, c) :: l) = id :: visit m l := by
  unfold visit
  simp only [List.filterMap_cons, h]

theorem visit_append (m : Matrix) (l1 l2 : List (Nat × Nat)) :
    visit m (l1 ++ l2) = visit m l1 ++ visit m l2 := by
  unfold visit
  rw [List.filterMap_append]

/-- one row of the removal loop -/
theorem loop_row {m0 : Matrix} {s : RegSpec} (h0 : Inv m0 s) (r : Nat) : ∀ (n c : Nat) (cur : Matrix),
    c + n = m0.cols → LoopInv m0 (hi r c m0.cols) cur →
    ∃ cur', LoopInv m0 (hi r m0.cols m0.cols) cur' ∧ ∀ rest acc,
      Matrix.iterLoop true 0 ((List.range' c n).map (fun c => (r, c)) ++ rest) cur m0.table acc =
      Matrix.iterLoop true 0 rest cur' m0.table
        ((visit m0 ((List.range' c n).map (fun c => (r, c)))).reverse ++ acc)
  | 0, c, cur, hcn, li => by
    have : c = m0.cols := by omega
    rw [this] at li
    exact ⟨cur, li, fun rest acc => by simp [visit]⟩
  | n + 1, c, cur, hcn, li => by
    have hc2 := h0.c2
    have hlo : hi r c m0.cols r = c := by
      rcases hi_spec r c m0.cols r with a | a | a <;> omega
    have hfirst : (∀ r', hi r c m0.cols r' = 0) → r = 0 := by
      intro hz
      have := hz 0
      rcases hi_spec r c m0.cols 0 with a | a | a <;> omega
    obtain ⟨hread, hnone, hsome⟩ := li.step h0 r c hlo hfirst
    rw [hi_succ_col] at hnone hsome
    cases hc : cell m0 r c with
    | none =>
      obtain ⟨cur', li', heq⟩ := loop_row h0 r n (c + 1) cur (by omega) (hnone hc)
      refine ⟨cur', li', fun rest acc => ?_⟩
      rw [List.range'_succ, List.map_cons, List.cons_append,
        iterLoop_cons_none _ _ _ _ _ _ _ _ (hread.trans hc), heq, visit_cons_none _ _ _ _ hc]
    | some id =>
      obtain ⟨cur1, hdel, li1⟩ := hsome id hc
      obtain ⟨cur', li', heq⟩ := loop_row h0 r n (c + 1) cur1 (by omega) li1
      refine ⟨cur', li', fun rest acc => ?_⟩
      rw [List.range'_succ, List.map_cons, List.cons_append,
        iterLoop_cons_some true r c _ cur cur1 _ acc id (hread.trans hc) (by simpa using hdel), heq,
        visit_cons_some _ _ _ _ _ hc, List.reverse_cons, List.append_assoc]
      rfl

/-- all rows of the removal loop -/
theorem loop_rows {m0 : Matrix} {s : RegSpec} (h0 : Inv m0 s) : ∀ (k r : Nat) (cur : Matrix),
    r + k = m0.rows → LoopInv m0 (hi r 0 m0.cols) cur →
    ∃ cur', LoopInv m0 (hi m0.rows 0 m0.cols) cur' ∧ ∀ rest acc,
      Matrix.iterLoop true 0
        ((List.range' r k).flatMap (fun r => (List.range m0.cols).map fun c => (r, c)) ++ rest) cur m0.table acc =
      Matrix.iterLoop true 0 rest cur' m0.table
        ((visit m0 ((List.range' r k).flatMap (fun r => (List.range m0.cols).map fun c => (r, c)))).reverse ++ acc)
  | 0, r, cur, hk, li => by
    have : r = m0.rows := by omega
    rw [this] at li
    exact ⟨cur, li, fun rest acc => by simp [visit]⟩
  | k + 1, r, cur, hk, li => by
    obtain ⟨cur1, li1, heq1⟩ := loop_row h0 r m0.cols 0 cur (by omega) li
    rw [hi_next_row] at li1
    rw [← List.range_eq_range'] at heq1
    obtain ⟨cur', li', heq⟩ := loop_rows h0 k (r + 1) cur1 (by omega) li1
    refine ⟨cur', li', fun rest acc => ?_⟩
    rw [List.range'_succ, List.flatMap_cons, List.append_assoc, heq1, heq,
      visit_append, List.reverse_append, List.append_assoc]

theorem Inv.iter_true {m : Matrix} {s : RegSpec} (h : Inv m s) :
    ∃ m' ids, m.iterate true 0 = some (m', ids) ∧ ids.Perm (s.live.map (·.2)) ∧
      Inv m' (s.step (.iter true)) ∧ m'.rows = m.rows ∧ m'.cols = m.cols := by
  obtain ⟨cur, li, heq⟩ := loop_rows h m.rows 0 { m with disableCompact := true } (by omega) (LoopInv.start h)
  have hcells : m.cells = (List.range' 0 m.rows).flatMap (fun r => (List.range m.cols).map fun c => (r, c)) := by
    unfold Matrix.cells
    rw [List.range_eq_range' (n := m.rows)]
  have e : Matrix.iterLoop true 0 (Matrix.cells { m with disableCompact := true })
      { m with disableCompact := true } m.table [] = some (cur, visit m m.cells) := by
    have := heq [] []
    rw [List.append_nil, iterLoop_nil, ← hcells] at this
    rw [show Matrix.cells { m with disableCompact := true } = m.cells from rfl, this]
    simp
  refine ⟨{ cur with disableCompact := false }, visit m m.cells, ?_, h.visit_perm, ?_, li.rows, li.cols⟩
  · unfold Matrix.iterate
    dsimp only
    rw [e]
  · -- the registry is empty again
    have hc2 := h.c2
    have hcur := h.cur
    have hfin : ∀ r, hi m.row m.col m.cols r ≤ hi m.rows 0 m.cols r := by
      intro r
      rcases hi_spec m.row m.col m.cols r with a | a | a <;>
        rcases hi_spec m.rows 0 m.cols r with b | b | b <;> omega
    have hcell : ∀ r c, cell cur r c = none := by
      intro r c
      rw [li.cellc]
      by_cases e1 : hi m.rows 0 m.cols r ≤ c
      · rw [if_pos e1]
        have h1 := h.dense r c
        have h3 := hfin r
        cases hx : cell m r c with
        | none => rfl
        | some x =>
          rw [hx] at h1
          have h2 := h1.1 rfl
          omega
      · rw [if_neg e1]
    have hz : ∀ r, hi 0 0 m.cols r = 0 := by
      intro r
      rcases hi_spec 0 0 m.cols r with a | a | a <;> omega
    have hcursor : cur.row = 0 ∧ cur.col = 0 := by
      rcases li.cursor with hc | ⟨hz0, h1, h2⟩
      · exact hc
      · have := hz0 0
        rw [h1, h2]
        rcases hi_spec m.rows 0 m.cols 0 with a | a | a <;> omega
    refine ⟨by show 1 < cur.cols; rw [li.cols]; exact h.c2, by show cur.rows ≤ 256; rw [li.rows]; exact h.rle,
      by show cur.cols ≤ 65536; rw [li.cols]; exact h.cle, ?_, ?_, ?_, ?_, ?_, ?_, ?_, ?_, ?_, ?_, rfl⟩
    · show (cur.row < cur.rows ∧ cur.col < cur.cols) ∨ (cur.row = cur.rows ∧ cur.col = 0)
      rw [hcursor.1, hcursor.2, li.rows, li.cols]
      omega
    · intro r c
      show (cell cur r c).isSome ↔ c < hi cur.row cur.col cur.cols r
      rw [hcell, hcursor.1, hcursor.2, li.cols, hz]
      simp
    · intro r
      show (cur.table r).isSome ↔ 0 < hi cur.row cur.col cur.cols r
      rw [li.alloc, hcursor.1, hcursor.2, li.cols, hz]
      have := hfin r
      omega
    · intro r
      show cur.counts r = (hi cur.row cur.col cur.cols r : Nat)
      rw [li.cnt, hcursor.1, hcursor.2, li.cols, hz]
      have := hfin r
      omega
    · intro r c id hc
      have : cell cur r c = some id := hc
      rw [hcell] at this
      cases this
    · intro i
      show (cur.objs i).fd = s.fdOf i
      rw [li.objs]
      exact h.objfd i
    · intro p hp
      cases hp
    · intro fd _
      show cur.fd2gfd fd = none
      rcases li.f2g fd with hn | ⟨r, c, h1, h2⟩
      · exact hn
      · exfalso
        obtain ⟨id, hid, _⟩ := h.fd2gfd_some h1
        have := h.cell_pos hid
        have := hfin r
        omega
    · exact h.sinv.step 0 (.iter true) trivial
    · show ([] : List (Int × Nat)).length = cur.row * cur.cols + cur.col
      rw [hcursor.1, hcursor.2]
      simp

end Gnet.Proofs.Registry
