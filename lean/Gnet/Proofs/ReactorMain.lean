/-
  The induction on fuel for `exec`, then `topLevel`, `finish`, `round`.
-/
import Gnet.Proofs.ReactorSteps4
namespace Gnet.Reactor
variable {A B : Prop}

theorem exec_zero {w : Work} {s : RState} {r : Ret} {s' : RState} (h : Ok (exec 0 w) s r s') : False := by
  unfold Ok at h
  rw [exec] at h
  exact throw_inv h

theorem specs (A B : Prop) : ∀ fuel, Specs A B fuel
  | 0 =>
    { accept := by intros; exact (exec_zero ‹_›).elim
      register0 := by intros; exact (exec_zero ‹_›).elim
      open_ := by intros; exact (exec_zero ‹_›).elim
      connOpen := by intros; exact (exec_zero ‹_›).elim
      processIO := by intros; exact (exec_zero ‹_›).elim
      elRead := by intros; exact (exec_zero ‹_›).elim
      elReadLoop := by intros; exact (exec_zero ‹_›).elim
      elWrite := by intros; exact (exec_zero ‹_›).elim
      elWriteLoop := by intros; exact (exec_zero ‹_›).elim
      close := by intros; exact (exec_zero ‹_›).elim
      closeFlush := by intros; exact (exec_zero ‹_›).elim
      handleAction := by intros; exact (exec_zero ‹_›).elim
      callback := by intros; exact (exec_zero ‹_›).elim
      connWrite := by intros; exact (exec_zero ‹_›).elim
      connWriteLoop := by intros; exact (exec_zero ‹_›).elim
      connWritev := by intros; exact (exec_zero ‹_›).elim
      connWritevLoop := by intros; exact (exec_zero ‹_›).elim
      flush := by intros; exact (exec_zero ‹_›).elim
      wake := by intros; exact (exec_zero ‹_›).elim
      readUDP := by intros; exact (exec_zero ‹_›).elim
      udpCallback := by intros; exact (exec_zero ‹_›).elim
      closeConns := by intros; exact (exec_zero ‹_›).elim }
  | fuel + 1 =>
    have ih := specs A B fuel
    { accept := step_accept ih
      register0 := step_register0 ih
      open_ := step_open ih
      connOpen := step_connOpen ih
      processIO := step_processIO ih
      elRead := step_elRead ih
      elReadLoop := step_elReadLoop ih
      elWrite := step_elWrite ih
      elWriteLoop := step_elWriteLoop ih
      close := step_close ih
      closeFlush := step_closeFlush ih
      handleAction := step_handleAction ih
      callback := step_callback ih
      connWrite := step_connWrite ih
      connWriteLoop := step_connWriteLoop ih
      connWritev := step_connWritev ih
      connWritevLoop := step_connWritevLoop ih
      flush := step_flush ih
      wake := step_wake ih
      readUDP := step_readUDP ih
      udpCallback := step_udpCallback ih
      closeConns := step_closeConns ih }

/-- everybody at rest is in particular everybody at level 1 -/
theorem Good.relax {s : RState} {c : String} (hG : Good A B 2 s c (Lv A B 2)) : Good A B 1 s "" (Lv A B 1) :=
  ⟨hG.nodup, fun p hp _ => Lv.of_two (hG.all p hp), fun p hp _ => Lv.of_two (hG.all p hp)⟩

theorem Good.after_read {s : RState} {c : String} {r : Ret} (hG : Good A B 2 s c (AfterRead A B r)) :
    Good A B 1 s "" (Lv A B 1) ∧ (r.code ≠ .shutdown → Good A B 2 s "" (Lv A B 2)) := by
  have h1 : ∀ p ∈ s.conns, Lv A B 1 p.2 := by
    intro p hp
    by_cases hc : p.1 = c
    · exact (hG.here p hp hc).1
    · exact Lv.of_two (hG.others p hp hc)
  refine ⟨⟨hG.nodup, fun p hp _ => h1 p hp, fun p hp _ => h1 p hp⟩, fun hne => ?_⟩
  exact (hG.mono (fun x hx => hx.2 hne)).rest_irrel ""

/-- closeConns left nothing registered: nothing is opened any more -/
theorem Good.all_closed {s : RState} (hG : Good A B 1 s "" (Lv A B 1))
    (hreg : ¬ (s.conns.any (·.2.registered)) = true) : Good A B 2 s "" (Lv A B 2) := by
  have h2 : ∀ p ∈ s.conns, Lv A B 2 p.2 := by
    intro p hp
    refine Lv.closed ?_
    cases ho : p.2.opened
    · rfl
    · exfalso
      apply hreg
      rw [List.any_eq_true]
      exact ⟨p, hp, Lv.reg (Nat.le_refl 1) (hG.all p hp) ho⟩
  exact ⟨hG.nodup, fun p hp _ => h2 p hp, fun p hp _ => h2 p hp⟩

/-- `Good` does not depend on the token list etc. -/
theorem Good.set_tasks' {ko : Nat} {s : RState} {c : String} {Ψ : Conn → Prop} (f : List Task → List Task)
    (hG : Good A B ko s c Ψ) : Good A B ko { s with tasks := f s.tasks } c Ψ := hG.set_tasks _

theorem topLevel_spec (fuel : Nat) (s : RState) (code : Code) (s' : RState)
    (h : (topLevel fuel).run s = .ok (code, s')) (hG : Good A B 2 s "" (Lv A B 2)) :
    Good A B 1 s' "" (Lv A B 1) ∧ (code ≠ .shutdown → Good A B 2 s' "" (Lv A B 2)) := by
  have ih := specs A B fuel
  have done2 : ∀ {s : RState} {c : String}, Good A B 2 s c (Lv A B 2) →
      Good A B 1 s "" (Lv A B 1) ∧ (code ≠ .shutdown → Good A B 2 s "" (Lv A B 2)) :=
    fun hG => ⟨hG.relax, fun _ => hG.rest_irrel ""⟩
  unfold topLevel at h
  have h := peekTok_bind_inv h
  split at h
  · mret; exact done2 hG
  split at h
  · -- accept
    mcall
    replace hG := ih.accept _ _ _ _ _ hcall (hG.rest_irrel _)
    mret; exact done2 hG
  · -- processIO
    mpop
    mcall
    replace hG := ih.processIO _ _ _ _ _ _ hcall (hG.rest_irrel _)
    mret
    subst hr
    exact hG.after_read
  · -- asyncWrite
    mpop
    have h := get_bind_inv h
    split at h
    · have h := set_bind_inv h
      obtain ⟨x, hx, hG, h⟩ := Good.getConn_step ((hG.set_tasks _).rest_irrel _) h
      replace hG := hG.mono (Ψ' := Lv A B 2) (by rintro _ rfl; exact hx)
      split at h
      · mret; exact done2 hG
      · mcall
        replace hG := ih.connWrite _ _ _ _ _ _ _ hcall hG
        mret; exact done2 hG
    · mdead
    · mdead
  · -- asyncWritev
    mpop
    have h := get_bind_inv h
    split at h
    · have h := set_bind_inv h
      obtain ⟨x, hx, hG, h⟩ := Good.getConn_step ((hG.set_tasks _).rest_irrel _) h
      replace hG := hG.mono (Ψ' := Lv A B 2) (by rintro _ rfl; exact hx)
      split at h
      · mret; exact done2 hG
      · mcall
        replace hG := ih.connWritev _ _ _ _ _ _ _ hcall hG
        mret; exact done2 hG
    · mdead
    · mdead
  · -- wake
    have h := modify_bind_inv h
    mcall
    replace hG := ih.wake _ _ _ _ _ _ hcall ((hG.set_tasks _).rest_irrel _)
    mret; exact done2 hG
  · -- close
    have h := modify_bind_inv h
    mcall
    replace hG := (ih.close _ _ _ (Lv A B 2) _ _ _ hcall ((hG.set_tasks _).rest_irrel _)).mono (fun _ => Lv.after_close)
    mret; exact done2 hG
  · -- read0
    mpop
    have h := modify_bind_inv h
    mcall
    replace hG := ih.elRead _ _ _ _ _ hcall ((hG.set_tasks _).rest_irrel _)
    mret
    subst hr
    exact hG.after_read
  · -- write0
    mpop
    have h := modify_bind_inv h
    mcall
    replace hG := ih.elWrite _ _ 2 _ _ _ hcall ((hG.set_tasks _).rest_irrel _)
    mret; exact done2 hG
  · -- stale event
    mpop
    mret; exact done2 hG
  · -- closeConns
    mpop
    mcall
    replace hG := ih.closeConns _ _ _ _ hcall hG
    clear hcall
    have h := get_bind_inv h
    mguard
    mret; exact done2 hG
  · -- exit
    mpop
    have h := modify_bind_inv h
    replace hG := hG.set_exited true
    mret; exact done2 hG
  · mdead

theorem finish_spec (fuel : Nat) (s : RState) (u : Unit) (s' : RState)
    (h : (finish fuel).run s = .ok (u, s')) (hG : Good A B 1 s "" (Lv A B 1)) :
    Good A B 2 s' "" (Lv A B 2) := by
  have ih := specs A B fuel
  unfold finish at h
  have h := peekTok_bind_inv h
  split at h
  · mpop
    mcall
    replace hG := ih.closeConns _ _ _ _ hcall hG
    clear hcall
    have h := get_bind_inv h
    mguard
    replace hG := hG.all_closed hc
    mpop
    split at h
    · have h' := modify_inv h
      subst h'
      exact hG.set_exited true
    · mdead
  · mdead
  · mdead

theorem round_spec : ∀ (fuel : Nat) (s : RState) (u : Unit) (s' : RState),
    (round fuel).run s = .ok (u, s') → Good A B 2 s "" (Lv A B 2) → Good A B 2 s' "" (Lv A B 2)
  | 0, s, u, s', h, _ => by
    unfold round at h
    exact (throw_inv h).elim
  | fuel + 1, s, u, s', h, hG => by
    unfold round at h
    have h := peekTok_bind_inv h
    split at h
    · mret; exact hG
    mcall
    obtain ⟨hG1, hG2⟩ := topLevel_spec _ _ _ _ hcall hG
    clear hcall hG
    split at h
    · mcall
      have hG := finish_spec _ _ _ _ hcall hG1
      clear hcall
      have h := peekTok_bind_inv h
      split at h
      · mret; exact hG
      · mdead
    · rename_i hcode
      have hne : ret ≠ .shutdown := by
        intro he; apply hcode; rw [he]; rfl
      exact round_spec fuel _ _ _ h (hG2 hne)

theorem acceptRound_spec (s s' : RState) (toks : List Tok) (h : acceptRound s toks = .ok s')
    (hG : Good A B 2 s "" (Lv A B 2)) : Good A B 2 s' "" (Lv A B 2) := by
  unfold acceptRound at h
  dsimp only at h
  split at h
  · rename_i u s'' heq
    injection h with h
    subst h
    exact round_spec _ _ _ _ heq (hG.set_toks toks)
  · cases h

end Gnet.Reactor
