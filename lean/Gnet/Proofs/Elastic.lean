import Gnet.Model.Elastic
import Gnet.Proofs.Ring
import Gnet.Proofs.LinkedList
import Gnet.Proofs.ElasticRing
import Gnet.Proofs.ElasticRingStep
import Gnet.Proofs.ElasticBuffer
set_option linter.unusedSectionVars false
set_option linter.unusedVariables false
namespace Gnet.Proofs.Elastic
open Gnet
variable {α : Type} [Inhabited α]

theorem ering_step_refines (gen : Nat → α) (b : ERing α) (pos : Nat) (op : ElasticFifo.Op α) (h : b.WF) :
    (ERing.step gen (b, pos) op).1.1.WF ∧
    ElasticFifo.Step gen (b.abs, pos) op
      ((ERing.step gen (b, pos) op).1.1.abs, (ERing.step gen (b, pos) op).1.2) (ERing.step gen (b, pos) op).2 :=
  ering_step gen b pos op h

theorem ering_run_refines (gen : Nat → α) (pool : RbPool) (ops : List (ElasticFifo.Op α)) :
    (ERing.run gen (⟨none, pool⟩, 0) ops).1.1.WF ∧
    ElasticFifo.Run gen ([], 0) ops (ERing.run gen (⟨none, pool⟩, 0) ops).2
      ((ERing.run gen (⟨none, pool⟩, 0) ops).1.1.abs, (ERing.run gen (⟨none, pool⟩, 0) ops).1.2) :=
  ering_run_from gen ops ⟨none, pool⟩ 0 (wf_none pool)

theorem elastic_step_refines (gen : Nat → α) (m : Elastic α) (pos : Nat) (op : ElasticFifo.Op α) (h : m.WF) :
    (Elastic.step gen (m, pos) op).1.1.WF ∧
    ElasticFifo.Step gen (m.abs, pos) op
      ((Elastic.step gen (m, pos) op).1.1.abs, (Elastic.step gen (m, pos) op).1.2) (Elastic.step gen (m, pos) op).2 := by
  cases op with
  | write p =>
    obtain ⟨h1, h2⟩ := write_spec' m p h
    refine ⟨h1, ?_⟩
    show ElasticFifo.Step gen (m.abs, pos) (.write p) ((m.write p).abs, pos) ⟨p.length, .nil, []⟩
    rw [h2]; exact ElasticFifo.Step.write _ _ _
  | writeByte c =>
    obtain ⟨h1, h2⟩ := write_spec' m [c] h
    refine ⟨h1, ?_⟩
    show ElasticFifo.Step gen (m.abs, pos) (.writeByte c) ((m.write [c]).abs, pos) ⟨1, .nil, []⟩
    rw [h2]; exact ElasticFifo.Step.writeByte _ _ _
  | writev bs =>
    obtain ⟨h1, h2, h3⟩ := writev_spec m bs h
    refine ⟨h1, ?_⟩
    show ElasticFifo.Step gen (m.abs, pos) (.writev bs) ((m.writev bs).1.abs, pos)
      ⟨(m.writev bs).2, .nil, []⟩
    rw [h2, h3]; exact ElasticFifo.Step.writev _ _ _
  | read n =>
    obtain ⟨h1, h2, h3, _⟩ := read_spec' m n h
    refine ⟨h1, ?_⟩
    show ElasticFifo.Step gen (m.abs, pos) (.read n) ((m.read n).1.abs, pos)
      ⟨(m.read n).2.1.length, (m.read n).2.2, (m.read n).2.1⟩
    rw [h2, h3, List.length_take]; exact ElasticFifo.Step.read _ _ _ _
  | readByte =>
    obtain ⟨h1, h2, h3, h4⟩ := read_spec' m 1 h
    refine ⟨h1, ?_⟩
    show ElasticFifo.Step gen (m.abs, pos) .readByte ((m.read 1).1.abs, pos)
      ⟨(m.read 1).2.1.length, (m.read 1).2.2, (m.read 1).2.1⟩
    rw [h2, h3, List.length_take]
    refine ElasticFifo.Step.readByte _ _ _ ?_
    intro hne
    exact h4 (by omega) (List.length_pos_iff.mpr hne)
  | peek n =>
    refine ⟨h, ?_⟩
    show ElasticFifo.Step gen (m.abs, pos) (.peek n) (m.abs, pos)
      ⟨(m.peek n).1.flatten.length, (m.peek n).2, (m.peek n).1.flatten⟩
    by_cases hn : n ≤ 0 ∨ n = (Elastic.maxInt32 : Int)
    · obtain ⟨p1, p2⟩ := peek_all m n h hn
      rw [p1, p2]
      exact ElasticFifo.Step.peekAll _ _ n _ hn (Or.inr rfl)
    · have hpos : 0 < n := by omega
      have hm : n ≠ (Elastic.maxInt32 : Int) := fun hc => hn (Or.inr hc)
      by_cases hle : n.toNat ≤ m.abs.length
      · obtain ⟨p1, p2⟩ := peek_some m n h hpos hm hle
        rw [p1, p2]
        have := ElasticFifo.Step.peek (gen := gen) m.abs pos n hpos hm hle
        rwa [List.length_take, Nat.min_eq_left hle]
      · have p1 := peek_short m n h hpos hm (by omega)
        rw [p1]
        exact ElasticFifo.Step.peekShort _ _ n _ _ hpos hm (by omega) (Or.inl rfl)
  | discard n =>
    obtain ⟨h1, h2, h3⟩ := discard_spec' m n h
    refine ⟨h1, ?_⟩
    show ElasticFifo.Step gen (m.abs, pos) (.discard n) ((m.discard n).1.abs, pos)
      ⟨(m.discard n).2.1, (m.discard n).2.2, []⟩
    rw [h2, h3]; exact ElasticFifo.Step.discard _ _ _ _
  | bytes =>
    refine ⟨h, ?_⟩
    show ElasticFifo.Step gen (m.abs, pos) .bytes (m.abs, pos)
      ⟨(m.peek 0).1.flatten.length, .nil, (m.peek 0).1.flatten⟩
    obtain ⟨_, p2⟩ := peek_all m 0 h (Or.inl (Int.le_refl 0))
    rw [p2]
    exact ElasticFifo.Step.bytes _ _ _ (Or.inr rfl)
  | readFrom sc =>
    obtain ⟨h1, k, h2, h3, h4, h5⟩ := readFrom_spec' gen m pos sc h
    refine ⟨h1, ?_⟩
    show ElasticFifo.Step gen (m.abs, pos) (.readFrom sc)
      ((m.readFrom gen pos sc).1.abs, (m.readFrom gen pos sc).2.2.2)
      ⟨(m.readFrom gen pos sc).2.1, (m.readFrom gen pos sc).2.2.1, []⟩
    rw [h2, h3, h4]; exact ElasticFifo.Step.readFrom _ _ _ _ _ h5
  | writeTo sc =>
    obtain ⟨h1, h2, h3, h4, h5⟩ := writeTo_spec' m sc h
    refine ⟨h1, ?_⟩
    show ElasticFifo.Step gen (m.abs, pos) (.writeTo sc) ((m.writeTo sc).1.abs, pos)
      ⟨(m.writeTo sc).2.1, (m.writeTo sc).2.2.1, (m.writeTo sc).2.2.2⟩
    rw [h2, h3]; exact ElasticFifo.Step.writeTo _ _ _ _ _ h4 h5
  | reset ms =>
    obtain ⟨h1, h2⟩ := reset_spec' m ms h
    refine ⟨h1, ?_⟩
    show ElasticFifo.Step gen (m.abs, pos) (.reset ms) ((m.reset ms).abs, pos) ⟨0, .nil, []⟩
    rw [h2]; exact ElasticFifo.Step.reset _ _ _
  | release =>
    obtain ⟨h1, h2⟩ := release_spec m
    refine ⟨h1, ?_⟩
    show ElasticFifo.Step gen (m.abs, pos) .release (m.release.abs, pos) ⟨0, .nil, []⟩
    rw [h2]; exact ElasticFifo.Step.release _ _

theorem elastic_run_from (gen : Nat → α) (ops : List (ElasticFifo.Op α)) : ∀ (m : Elastic α) (pos : Nat), m.WF →
    (Elastic.run gen (m, pos) ops).1.1.WF ∧
    ElasticFifo.Run gen (m.abs, pos) ops (Elastic.run gen (m, pos) ops).2
      ((Elastic.run gen (m, pos) ops).1.1.abs, (Elastic.run gen (m, pos) ops).1.2) := by
  induction ops with
  | nil => intro m pos h; exact ⟨h, ElasticFifo.Run.nil _⟩
  | cons op ops ih =>
    intro m pos h
    obtain ⟨w1, s1⟩ := elastic_step_refines gen m pos op h
    obtain ⟨w2, s2⟩ := ih (Elastic.step gen (m, pos) op).1.1 (Elastic.step gen (m, pos) op).1.2 w1
    exact ⟨w2, ElasticFifo.Run.cons _ _ _ _ _ _ _ s1 s2⟩

theorem elastic_run_refines (gen : Nat → α) (ms : Nat) (pool : RbPool) (ops : List (ElasticFifo.Op α)) :
    (Elastic.run gen (Elastic.new ms pool, 0) ops).1.1.WF ∧
    ElasticFifo.Run gen ([], 0) ops (Elastic.run gen (Elastic.new ms pool, 0) ops).2
      ((Elastic.run gen (Elastic.new ms pool, 0) ops).1.1.abs, (Elastic.run gen (Elastic.new ms pool, 0) ops).1.2) :=
  elastic_run_from gen ops (Elastic.new ms pool) 0 ⟨wf_none pool, LinkedList.empty_wf⟩

theorem elastic_counters (m : Elastic α) (h : m.WF) :
    m.buffered = (m.abs.length : Int) ∧ (m.isEmpty = true ↔ m.buffered = 0) :=
  counters' m h

theorem ering_counters (b : ERing α) (h : b.WF) :
    b.buffered = b.abs.length ∧ (b.isEmpty = true ↔ b.buffered = 0) ∧ b.buffered + b.available = b.cap :=
  counters b h

theorem ering_inst_fresh (b : ERing α) (h : b.rb = none) :
    (b.inst).1.WF ∧ (b.inst).1.abs = [] :=
  inst_fresh b h
end Gnet.Proofs.Elastic
