import Gnet.Proofs.RingBasic
set_option linter.unusedSectionVars false
set_option linter.unusedVariables false
set_option linter.unusedSimpArgs false
namespace Gnet.Proofs.Ring
open Gnet
variable {α : Type} [Inhabited α]

theorem mod_wrap (a s : Nat) (h : a < 2 * s) : a % s = if a < s then a else a - s := by
  split
  · exact Nat.mod_eq_of_lt ‹_›
  · rw [Nat.mod_eq_sub_mod (by omega), Nat.mod_eq_of_lt (by omega)]

theorem read_spec (rb : Ring α) (n : Nat) (h : rb.WF) :
    rb.readSafe n = true ∧ (rb.read n).1.WF ∧ (rb.read n).1.abs = rb.abs.drop n ∧
    (rb.read n).2.1 = rb.abs.take n ∧ ((rb.read n).2.2 = .nil ∨ (rb.abs = [] ∧ 0 < n)) := by
  rcases rb with ⟨buf, size, r, w, e⟩
  obtain ⟨hl, hr, hw, he, hz⟩ := h
  simp only at hl hr hw he hz
  by_cases hn : n = 0
  · subst hn
    simp [Ring.read, Ring.readSafe]
    exact wf_mk hl hr hw he hz
  cases e
  · have hz' : size ≠ 0 := by simpa using hz
    have hr' : r < size := by omega
    have hw' : w < size := by omega
    by_cases hrw : r < w
    · simp only [Ring.read, Ring.readSafe, Ring.reset, hn, hrw, gt_iff_lt, if_true, if_false, Bool.false_eq_true, Bool.or_false, decide_false]
      ring_auto
    · have h2 : r + min (size - r + w) n < 2 * size := by omega
      simp only [Ring.read, Ring.readSafe, Ring.reset, hn, hrw, gt_iff_lt, if_true, if_false, Bool.false_eq_true, Bool.or_false, decide_false, mod_wrap _ _ h2]
      ring_auto
  · obtain ⟨rfl, rfl⟩ := he rfl
    simp [Ring.read, Ring.readSafe, Ring.abs, hn]
    exact ⟨wf_mk hl hr hw he hz, by omega⟩

theorem mod_wrap' (a s : Nat) :
    a % s = if a < s then a else if a < 2 * s then a - s else a % s := by
  split
  · exact Nat.mod_eq_of_lt ‹_›
  · split
    · rw [Nat.mod_eq_sub_mod (by omega), Nat.mod_eq_of_lt (by omega)]
    · rfl

theorem getElem?_toList (l : List α) (r : Nat) : l[r]?.toList = (l.drop r).take 1 := by
  by_cases h : r < l.length
  · rw [List.getElem?_eq_getElem h, List.drop_eq_getElem_cons h]; rfl
  · rw [List.getElem?_eq_none (by omega), List.drop_of_length_le (by omega)]; rfl

theorem readByte_spec (rb : Ring α) (h : rb.WF) :
    rb.readByteSafe = true ∧ rb.readByte.1.WF ∧ rb.readByte.1.abs = rb.abs.drop 1 ∧
    rb.readByte.2.1.toList = rb.abs.take 1 ∧
    ((rb.readByte.2.2 = .nil ∧ 0 < rb.abs.length) ∨ (rb.readByte.2.2 = .isEmpty ∧ rb.abs.length = 0)) := by
  rcases rb with ⟨buf, size, r, w, e⟩
  obtain ⟨hl, hr, hw, he, hz⟩ := h
  simp only at hl hr hw he hz
  cases e
  · have hz' : size ≠ 0 := by simpa using hz
    have hr' : r < size := by omega
    have hw' : w < size := by omega
    simp only [Ring.readByte, Ring.readByteSafe, Ring.reset, if_true, if_false, Bool.false_eq_true,
      Bool.false_or, getElem?_toList]
    ring_auto
  · obtain ⟨rfl, rfl⟩ := he rfl
    simp [Ring.readByte, Ring.readByteSafe, Ring.abs]
    exact wf_mk hl hr hw he hz

theorem discard_spec (rb : Ring α) (n : Int) (h : rb.WF) :
    rb.discardSafe n = true ∧ (rb.discard n).1.WF ∧ (rb.discard n).1.abs = rb.abs.drop n.toNat ∧
    (rb.discard n).2 = min n.toNat rb.abs.length := by
  rcases rb with ⟨buf, size, r, w, e⟩
  obtain ⟨hl, hr, hw, he, hz⟩ := h
  simp only at hl hr hw he hz
  cases e
  · have hz' : size ≠ 0 := by simpa using hz
    have hr' : r < size := by omega
    have hw' : w < size := by omega
    simp only [Ring.discard, Ring.discardSafe, Ring.buffered, Ring.reset, if_true, if_false, Bool.false_eq_true]
    rw [mod_wrap' (r + n.toNat) size]
    ring_auto
  · obtain ⟨rfl, rfl⟩ := he rfl
    simp only [Ring.discard, Ring.discardSafe, Ring.buffered, Ring.reset, if_true, if_false]
    ring_auto

theorem bytes_spec (rb : Ring α) (h : rb.WF) : rb.bytesSafe = true ∧ rb.bytes = rb.abs := by
  rcases rb with ⟨buf, size, r, w, e⟩
  obtain ⟨hl, hr, hw, he, hz⟩ := h
  simp only at hl hr hw he hz
  cases e
  · have hz' : size ≠ 0 := by simpa using hz
    have hr' : r < size := by omega
    have hw' : w < size := by omega
    simp only [Ring.bytes, Ring.bytesSafe, if_true, if_false, Bool.false_eq_true, Bool.false_or]
    ring_auto
  · simp [Ring.bytes, Ring.bytesSafe, Ring.abs]

theorem peek_prefix_aux (rb : Ring α) (n : Int) (h : rb.WF) :
    rb.peekSafe n = true ∧
    (rb.peek n).1 ++ (rb.peek n).2 = (if n ≤ 0 then rb.abs else rb.abs.take n.toNat) := by
  rcases rb with ⟨buf, size, r, w, e⟩
  obtain ⟨hl, hr, hw, he, hz⟩ := h
  simp only at hl hr hw he hz
  cases e
  · have hz' : size ≠ 0 := by simpa using hz
    have hr' : r < size := by omega
    have hw' : w < size := by omega
    simp only [Ring.peek, Ring.peekAll, Ring.peekSafe, if_true, if_false, Bool.false_eq_true]
    ring_auto
  · simp [Ring.peek, Ring.peekSafe, Ring.abs]

end Gnet.Proofs.Ring
