import Gnet.Model.Msq
import Gnet.Proofs.MsqChain
import Gnet.Proofs.MsqInv
import Gnet.Proofs.MsqStep
namespace Gnet.Proofs.Msq
open Gnet.Msq

/-- in a state satisfying the invariant the witnesses are the model's `chain` and `posOf` -/
theorem InvW.chain_eq {s : State} {c : List Nat} {h t : Nat} (I : InvW s c h t) : chain s = c :=
  Msq.chain_eq s c I.c0 I.cnext I.nodup I.bound

theorem InvW.posOf_head {s : State} {c : List Nat} {h t : Nat} (I : InvW s c h t) :
    posOf s s.head = h := by
  unfold posOf; rw [I.chain_eq]; exact findIdx_of_nodup I.nodup I.hd

theorem InvW.posOf_tail {s : State} {c : List Nat} {h t : Nat} (I : InvW s c h t) :
    posOf s s.tail = t := by
  unfold posOf; rw [I.chain_eq]; exact findIdx_of_nodup I.nodup I.tl

theorem fifo (s : State) (h : Reachable s) : s.enqLog = s.deqLog ++ s.absQ := by
  obtain ⟨c, hh, t, I⟩ := inv_reachable h
  exact I.fifo

theorem abs_is_chain (s : State) (h : Reachable s) :
    s.absQ = ((chain s).drop (posOf s s.head + 1)).map (valueOf s) := by
  obtain ⟨c, hh, t, I⟩ := inv_reachable h
  rw [I.posOf_head, I.chain_eq]; exact I.abs

theorem deq_value (s : State) (h : Reachable s) (tid : Nat) (t : Thread)
    (ht : s.threads[tid]? = some t) (hpc : t.pc = .dSub) :
    t.ghostRet = some t.task ∧ (step s tid).2 = some (.deqSome t.task) := by
  obtain ⟨c, hh, tt, I⟩ := inv_reachable h
  have hT := I.thr tid t ht
  simp [TInv, hpc, Pre] at hT
  refine ⟨hT, ?_⟩
  rw [step_eq ht]; simp only [hpc]

theorem empty_justified (s : State) (h : Reachable s) (tid : Nat) (t : Thread)
    (ht : s.threads[tid]? = some t) (hr : (step s tid).2 = some .deqNone) :
    t.ghostSawEmpty = true := by
  obtain ⟨c, hh, tt, I⟩ := inv_reachable h
  have hT := I.thr tid t ht
  rw [step_eq ht] at hr
  cases hpc : t.pc <;> simp only [hpc] at hr <;> try (simp at hr; done)
  · -- eReloadTail
    split at hr
    · split at hr <;> simp at hr
    · simp at hr
  · -- eCasNext
    split at hr <;> simp at hr
  · -- dReloadHead
    simp [TInv, hpc, Pre] at hT
    obtain ⟨ph, hph, hle, pt, hpt, hle2, hle3, hsome, hnone⟩ := hT
    cases hn : t.next with
    | none => exact (hnone hn).2
    | some nx =>
      rw [hn] at hr
      split at hr
      · split at hr <;> simp at hr
      · simp at hr
  · -- dCasHead
    split at hr
    · split at hr <;> simp at hr
    · simp at hr

theorem length_lag (s : State) (h : Reachable s) :
    s.length = (s.absQ.length : Int)
      - (s.threads.countP (fun t => t.pc == .eCasTail || t.pc == .eAdd) : Nat)
      + (s.threads.countP (fun t => t.pc == .dSub) : Nat) := by
  obtain ⟨c, hh, t, I⟩ := inv_reachable h
  exact I.len

theorem quiescent (s : State) (h : Reachable s) (hq : ∀ t ∈ s.threads, t.pc = .idle) :
    s.length = s.absQ.length := by
  have hl := length_lag s h
  have h1 : s.threads.countP (fun t => t.pc == .eCasTail || t.pc == .eAdd) = 0 := by
    rw [List.countP_eq_zero]
    intro t ht; simp [hq t ht]
  have h2 : s.threads.countP (fun t => t.pc == .dSub) = 0 := by
    rw [List.countP_eq_zero]
    intro t ht; simp [hq t ht]
  rw [h1, h2] at hl
  simpa using hl

theorem no_nil_deref (s : State) (h : Reachable s) (tid : Nat) (t : Thread)
    (ht : s.threads[tid]? = some t) (hpc : t.pc = .dReloadHead) (hh : t.head = s.head)
    (hne : t.head ≠ t.tail) : t.next ≠ none := by
  obtain ⟨c, h0, tt, I⟩ := inv_reachable h
  have _ := hh   -- not needed: the snapshot `t.next` is non-nil whenever `t.head ≠ t.tail`
  have hT := I.thr tid t ht
  simp [TInv, hpc, Pre] at hT
  obtain ⟨ph, hph, hle, pt, hpt, hle2, hle3, hsome, hnone⟩ := hT
  intro hn
  have := (hnone hn).1
  subst this
  rw [hph] at hpt
  exact hne (Option.some.inj hpt)

theorem tail_lag (s : State) (h : Reachable s) :
    posOf s s.head ≤ posOf s s.tail ∧ posOf s s.tail < (chain s).length ∧
    (chain s).length ≤ posOf s s.tail + 2 := by
  obtain ⟨c, hh, t, I⟩ := inv_reachable h
  rw [I.posOf_head, I.posOf_tail, I.chain_eq]
  exact ⟨I.ht, lt_of_getElem? I.tl, I.lag⟩
end Gnet.Proofs.Msq
