/-
  Frame properties of the reactor model:
  * `frame_gen`: work about connection `c` preserves every property of the connection list that is
    stable under rewriting the entries named `c`;
  * `unreg_stable`: while `c` is not registered, the write-side / close-side work about `c` does not
    change its lifecycle fields (nested closes return at once) and, if its descriptor is open, logs
    only system calls on an open descriptor.
-/
import Gnet.Proofs.ReactorLBase
namespace Gnet.Proofs.ReactorL
open Gnet.Reactor

set_option maxRecDepth 4000
set_option linter.unusedSimpArgs false

set_option hygiene false in
macro "fr_auto" : tactic => `(tactic| repeat' first
  | intro _
  | apply And.intro
  | exact True.intro
  | assumption
  | (apply hP)
  | (refine wp_mono (ih _ rfl _ ?_) ?_)
  | (split <;> wsimp))

theorem frame_gen (c : String) (P : List (String × Conn) → Prop)
    (hP : ∀ l y, P l → P (updL l c y)) :
    ∀ fuel w, target w = some c → ∀ s, P s.conns → wp (exec fuel w) (fun _ s' => P s'.conns) s := by
  intro fuel
  induction fuel with
  | zero => intro w _ s _; exact exec_zero _ _ _
  | succ fuel ih =>
    intro w hw s hs
    cases w <;> cases hw <;> rw [exec] <;> dsimp only <;> wsimp
    all_goals fr_auto

def FdL (l : List (String × Bool)) : Prop := ∀ e ∈ l, e.2 = true

theorem FdL_append {l : List (String × Bool)} {c : String} {b : Bool} (h : FdL l) (hb : b = true) :
    FdL (l ++ [(c, b)]) := by
  intro e he
  rw [List.mem_append] at he
  cases he with
  | inl h1 => exact h e h1
  | inr h1 => simp only [List.mem_singleton] at h1; subst h1; exact hb

/-- the lifecycle fields of a connection -/
abbrev Core := Bool × Bool × Bool × List String × Bool
def core (x : Conn) : Core := (x.opened, x.registered, x.fdOpen, x.word, x.closeErrNil)

/-- work that never invokes OnTraffic / OnOpen -/
def inS : Work → Bool
  | .connOpen .. | .elWrite .. | .elWriteLoop .. | .close .. | .closeFlush .. | .handleAction ..
  | .callback .. | .connWrite .. | .connWriteLoop .. | .connWritev .. | .connWritevLoop .. | .flush .. => true
  | _ => false

def PA (G : Prop) (c : String) (k : Core) (cs : List (String × Conn)) (sl : List (String × Bool)) : Prop :=
  ∃ x, lookupL cs c = some x ∧ core x = k ∧ (G → x.fdOpen = true ∧ FdL sl)

theorem PA_upd {G c k cs sl x y} (h : PA G c k cs sl) (hx : lookupL cs c = some x) (hy : core y = core x) :
    PA G c k (updL cs c y) sl := by
  obtain ⟨x0, h0, hk, hf⟩ := h
  rw [hx] at h0; cases h0
  refine ⟨y, by rw [lookupL_updL_same, hx]; rfl, hy.trans hk, fun g => ⟨?_, (hf g).2⟩⟩
  have := (hf g).1
  simp only [core, Prod.mk.injEq] at hy
  rw [hy.2.2.1]; exact this

theorem PA_log {G c k cs sl x} (h : PA G c k cs sl) (hx : lookupL cs c = some x) :
    PA G c k cs (sl ++ [(c, x.fdOpen)]) := by
  obtain ⟨x0, h0, hk, hf⟩ := h
  rw [hx] at h0; cases h0
  exact ⟨x, hx, hk, fun g => ⟨(hf g).1, FdL_append (hf g).2 (hf g).1⟩⟩

theorem PA_absurd {G c k cs sl x} (hk : k.2.1 = false) (h : PA G c k cs sl) (hx : lookupL cs c = some x)
    (hb : ¬ (!x.opened || !x.registered) = true) : False := by
  obtain ⟨x0, h0, hk0, hf⟩ := h
  rw [hx] at h0; cases h0
  subst hk0
  simp only [core] at hk
  simp [hk] at hb

set_option hygiene false in
macro "a_auto" : tactic => `(tactic| repeat' first
  | (exfalso; apply PA_absurd hk <;> assumption)
  | intro _
  | apply And.intro
  | exact True.intro
  | assumption
  | (refine PA_log ?_ (by assumption))
  | (apply PA_upd; rotate_left; assumption; rfl)
  | (refine wp_mono (ih _ rfl rfl _ ?_) ?_ <;> try dsimp only)
  | (split <;> wsimp))

theorem unreg_stable (G : Prop) (c : String) (k : Core) (hk : k.2.1 = false) :
    ∀ fuel w, target w = some c → inS w = true → ∀ s, PA G c k s.conns s.sysLog →
      wp (exec fuel w) (fun _ s' => PA G c k s'.conns s'.sysLog) s := by
  intro fuel
  induction fuel with
  | zero => intro w _ _ s _; exact exec_zero _ _ _
  | succ fuel ih =>
    intro w hw hS s hs
    cases w <;> cases hw <;> cases hS <;> rw [exec] <;> dsimp only <;> wsimp
    all_goals a_auto

end Gnet.Proofs.ReactorL
