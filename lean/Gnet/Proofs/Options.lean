import Gnet.Model.Options
import Gnet.Proofs.Arith
namespace Gnet.Proofs.Options
open Gnet Gnet.Options

theorem norm_read_cap_server (x : BitVec 64) :
    (x.toInt ≤ 0 → Gen.normReadCapServer x 65536#64 = some 65536#64) ∧
    (0 < x.toInt → x.toInt ≤ 1024 → Gen.normReadCapServer x 65536#64 = some 1024#64) ∧
    (1024 < x.toInt → x.toInt ≤ 2 ^ 62 → ∃ r, Gen.normReadCapServer x 65536#64 = some r ∧
        Proofs.Arith.IsPow2 r.toInt ∧ x.toInt ≤ r.toInt ∧ 1024 ≤ r.toInt ∧
        ∀ p : Int, Proofs.Arith.IsPow2 p → x.toInt ≤ p → r.toInt ≤ p) ∧
    (2 ^ 62 < x.toInt → Gen.normReadCapServer x 65536#64 = none) := by
  have e0 : (0#64).toInt = 0 := by decide
  have e1 : (1024#64).toInt = 1024 := by decide
  have hp := Proofs.Arith.p62
  unfold Gen.normReadCapServer
  simp only [BitVec.sle_iff_toInt_le, e0, e1]
  refine ⟨?_, ?_, ?_, ?_⟩
  · intro h; rw [if_pos h]
  · intro h1 h2; rw [if_neg (by omega), if_pos h2]
  · intro h1 h2
    rw [if_neg (by omega), if_neg (by omega)]
    obtain ⟨r, hr, hpow, hle, hmin⟩ := Proofs.Arith.ceil_spec x h2
    refine ⟨r, hr, hpow, by omega, by omega, ?_⟩
    intro p hp hxp
    exact hmin p hp (by omega)
  · intro h
    rw [if_neg (by omega), if_neg (by omega)]
    exact (Proofs.Arith.ceil_panics x).2 h

theorem norm_caps_agree (x mx : BitVec 64) :
    Gen.normWriteCapServer x mx = Gen.normReadCapServer x mx ∧
    Gen.normReadCapClient x mx = Gen.normReadCapServer x mx ∧
    Gen.normWriteCapClient x mx = Gen.normReadCapServer x mx := ⟨rfl, rfl, rfl⟩

theorem chunk_spec (chunk : BitVec 64) (et : Bool) :
    (0 < chunk.toInt → chunk.toInt ≤ 2 ^ 62 → ∃ r, chunkNorm chunk et = some (r, true) ∧
        Gen.CeilToPowerOfTwo chunk = some r) ∧
    (chunk.toInt ≤ 0 → et = true → chunkNorm chunk et = some (1048576#64, true)) ∧
    (chunk.toInt ≤ 0 → et = false → chunkNorm chunk et = some (chunk, false)) := by
  have e0 : (0#64).toInt = 0 := by decide
  unfold chunkNorm
  simp only [BitVec.slt_iff_toInt_lt, e0]
  refine ⟨?_, ?_, ?_⟩
  · intro h1 h2
    obtain ⟨r, hr, _⟩ := Proofs.Arith.ceil_spec chunk h2
    exact ⟨r, by rw [if_pos h1, hr]; rfl, hr⟩
  · intro h1 h2; subst h2; rw [if_neg (by omega)]; rfl
  · intro h1 h2; subst h2; rw [if_neg (by omega)]; rfl

theorem evloops_spec (mc : Bool) (nel ncpu : BitVec 64) (hcpu : 1 ≤ ncpu.toInt) :
    ∃ r, Gen.determineEventLoops mc nel ncpu = some r ∧ 1 ≤ r.toInt ∧ r.toInt ≤ 256 ∧
      (0 < nel.toInt → r.toInt = min nel.toInt 256) ∧
      (nel.toInt ≤ 0 → mc = true → r.toInt = min ncpu.toInt 256) ∧
      (nel.toInt ≤ 0 → mc = false → r.toInt = 1) := by
  have e0 : (0#64).toInt = 0 := by decide
  have e1 : (1#64).toInt = 1 := by decide
  have e256 : (256#64).toInt = 256 := by decide
  unfold Gen.determineEventLoops
  simp only [BitVec.slt_iff_toInt_lt, e0, e256]
  cases mc
  · by_cases h1 : 0 < nel.toInt
    · by_cases h2 : 256 < nel.toInt
      · exact ⟨256#64, by simp [h1, h2], by omega, by omega, by omega, by omega, by omega⟩
      · exact ⟨nel, by simp [h1, h2], by omega, by omega, by omega, by omega, by omega⟩
    · exact ⟨1#64, by simp [h1, e1], by omega, by omega, by omega,
        fun _ h => by simp at h, by omega⟩
  · by_cases h1 : 0 < nel.toInt
    · by_cases h2 : 256 < nel.toInt
      · exact ⟨256#64, by simp [h1, h2], by omega, by omega, by omega, by omega, by omega⟩
      · exact ⟨nel, by simp [h1, h2], by omega, by omega, by omega, by omega, by omega⟩
    · by_cases h2 : 256 < ncpu.toInt
      · exact ⟨256#64, by simp [h1, h2], by omega, by omega, by omega, by omega,
          fun _ h => by simp at h⟩
      · exact ⟨ncpu, by simp [h1, h2], by omega, by omega, by omega, by omega,
          fun _ h => by simp at h⟩

theorem dispatch_total (u : UrlParts) :
    dispatch u = .urlError ∨ dispatch u = .invalidAddress ∨ dispatch u = .unsupportedProtocol ∨
    ∃ s e, dispatch u = .ok s e ∧ (s ∈ ipSchemes ∨ s = "unix") ∧ e ≠ "" := by
  unfold dispatch
  by_cases he : u.err = true
  · left; rw [if_pos he]
  rw [if_neg he]
  by_cases h0 : u.scheme = ""
  · right; left; rw [if_pos h0]
  rw [if_neg h0]
  by_cases hs : u.scheme ∈ ipSchemes
  · rw [if_pos hs]
    by_cases hc : u.host = "" ∨ u.path ≠ ""
    · right; left; rw [if_pos hc]
    · right; right; right
      rw [if_neg hc]
      exact ⟨u.scheme, u.host, rfl, Or.inl hs, fun h => hc (Or.inl h)⟩
  rw [if_neg hs]
  by_cases hu : u.scheme = "unix"
  · rw [if_pos hu]
    by_cases hj : u.joined = ""
    · right; left; rw [if_pos hj]
    · right; right; right
      rw [if_neg hj]
      exact ⟨u.scheme, u.joined, rfl, Or.inr hu, hj⟩
  · right; right; left; rw [if_neg hu]

theorem scheme_ne_empty_of_ip {s : String} (hs : s ∈ ipSchemes) : s ≠ "" := by
  intro h; subst h; revert hs; decide

theorem unix_not_ip : "unix" ∉ ipSchemes := by decide

theorem dispatch_ip (u : UrlParts) (he : u.err = false) (hs : u.scheme ∈ ipSchemes)
    (hh : u.host ≠ "") (hp : u.path = "") : dispatch u = .ok u.scheme u.host := by
  unfold dispatch
  rw [if_neg (by simp [he]), if_neg (scheme_ne_empty_of_ip hs), if_pos hs,
    if_neg (by intro h; rcases h with h | h; exact hh h; exact h hp)]

theorem dispatch_unix (u : UrlParts) (he : u.err = false) (hs : u.scheme = "unix") (hj : u.joined ≠ "") :
    dispatch u = .ok "unix" u.joined := by
  unfold dispatch
  rw [if_neg (by simp [he]), if_neg (by rw [hs]; decide), if_neg (by rw [hs]; exact unix_not_ip),
    if_pos hs, if_neg hj, hs]

theorem dispatch_errors (u : UrlParts) (he : u.err = false) :
    (u.scheme = "" → dispatch u = .invalidAddress) ∧
    (u.scheme ∈ ipSchemes → (u.host = "" ∨ u.path ≠ "") → dispatch u = .invalidAddress) ∧
    (u.scheme = "unix" → u.joined = "" → dispatch u = .invalidAddress) ∧
    (u.scheme ≠ "" → u.scheme ∉ ipSchemes → u.scheme ≠ "unix" → dispatch u = .unsupportedProtocol) := by
  unfold dispatch
  rw [if_neg (by simp [he])]
  refine ⟨?_, ?_, ?_, ?_⟩
  · intro h; rw [if_pos h]
  · intro hs hc; rw [if_neg (scheme_ne_empty_of_ip hs), if_pos hs, if_pos hc]
  · intro hs hj
    rw [if_neg (by rw [hs]; decide), if_neg (by rw [hs]; exact unix_not_ip), if_pos hs, if_pos hj]
  · intro h0 hs hu; rw [if_neg h0, if_neg hs, if_neg hu]
end Gnet.Proofs.Options
