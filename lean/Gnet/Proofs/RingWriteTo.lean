import Gnet.Proofs.RingRead
set_option linter.unusedSectionVars false
set_option linter.unusedVariables false
set_option linter.unusedSimpArgs false
namespace Gnet.Proofs.Ring
open Gnet
variable {α : Type} [Inhabited α]

theorem wstep_le (sc : List WStep) (n : Nat) : (Ring.wstep sc n).1 ≤ n := by
  cases sc <;> simp [Ring.wstep]; omega

theorem writeTo_spec (rb : Ring α) (sc : List WStep) (h : rb.WF) :
    rb.writeToSafe sc = true ∧ (rb.writeTo sc).1.WF ∧
    (rb.writeTo sc).1.abs = rb.abs.drop (rb.writeTo sc).2.1 ∧
    (rb.writeTo sc).2.2.2.1 = rb.abs.take (rb.writeTo sc).2.1 ∧
    (rb.writeTo sc).2.1 ≤ rb.abs.length ∧
    ((rb.writeTo sc).2.2.1 = .nil → (rb.writeTo sc).2.1 = rb.abs.length) := by
  rcases rb with ⟨buf, size, r, w, e⟩
  obtain ⟨hl, hr, hw, he, hz⟩ := h
  simp only at hl hr hw he hz
  cases e
  · have hz' : size ≠ 0 := by simpa using hz
    have hr' : r < size := by omega
    have hw' : w < size := by omega
    by_cases hrw : r < w
    · simp only [Ring.writeTo, Ring.writeToSafe, Ring.reset, if_true, if_false, Bool.false_eq_true,
        Bool.false_or, gt_iff_lt, hrw]
      have hle := wstep_le sc (w - r)
      generalize Ring.wstep sc (w - r) = x at hle ⊢
      rcases x with ⟨m, err, rest⟩
      simp only at hle ⊢
      ring_auto
    · by_cases hw0 : w = 0
      · subst hw0
        have c1 : r + (size - r + 0) ≤ size := by omega
        simp only [Ring.writeTo, Ring.writeToSafe, Ring.reset, if_true, if_false, Bool.false_eq_true,
          Bool.false_or, gt_iff_lt, hrw, c1]
        have hle := wstep_le sc (size - r + 0)
        generalize Ring.wstep sc (size - r + 0) = x at hle ⊢
        rcases x with ⟨m, err, rest⟩
        simp only at hle ⊢
        rw [mod_wrap (r + m) size (by omega)]
        ring_auto
      · have c1 : ¬ r + (size - r + w) ≤ size := by omega
        simp only [Ring.writeTo, Ring.writeToSafe, Ring.reset, if_true, if_false, Bool.false_eq_true,
          Bool.false_or, gt_iff_lt, hrw, c1]
        have hle := wstep_le sc (size - r)
        generalize Ring.wstep sc (size - r) = x at hle ⊢
        rcases x with ⟨m, err, rest⟩
        simp only at hle ⊢
        have hle2 := wstep_le rest (size - r + w - (size - r))
        generalize Ring.wstep rest (size - r + w - (size - r)) = x2 at hle2 ⊢
        rcases x2 with ⟨m2, err2, rest2⟩
        simp only at hle2 ⊢
        rw [mod_wrap (r + m) size (by omega)]
        ring_auto
  · simp [Ring.writeTo, Ring.writeToSafe, Ring.abs]
    exact wf_mk hl hr hw he hz

end Gnet.Proofs.Ring
