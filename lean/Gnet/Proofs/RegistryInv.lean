/-
  Representation invariant of the compacting matrix registry and the simple operations
  (`conn`, `add`, `get`, `count`).
-/
import Gnet.Proofs.RegistryMap
namespace Gnet.Proofs.Registry
open Gnet

/-- content of a cell of a table (an unallocated row is empty) -/
def cellT (t : Nat → Option (Nat → Option Nat)) (r c : Nat) : Option Nat :=
  match t r with
  | none => none
  | some tr => tr c

def cell (m : Matrix) (r c : Nat) : Option Nat := cellT m.table r c

/-- number of occupied cells of row `r` when the cursor is at `(R, C)` -/
def hi (R C cols r : Nat) : Nat := if r < R then cols else if r = R then C else 0

theorem hi_spec (R C cols r : Nat) :
    (r < R ∧ hi R C cols r = cols) ∨ (r = R ∧ hi R C cols r = C) ∨ (R < r ∧ hi R C cols r = 0) := by
  unfold hi
  by_cases h1 : r < R
  · left; exact ⟨h1, if_pos h1⟩
  · by_cases h2 : r = R
    · right; left; exact ⟨h2, by rw [if_neg h1, if_pos h2]⟩
    · right; right; exact ⟨by omega, by rw [if_neg h1, if_neg h2]⟩

theorem cellT_upd_some (t : Nat → Option (Nat → Option Nat)) (r : Nat) (tr : Nat → Option Nat)
    (ht : t r = some tr) (c : Nat) (v : Option Nat) (r' c' : Nat) :
    cellT (Matrix.upd t r (some (Matrix.upd tr c v))) r' c' =
      if r' = r ∧ c' = c then v else cellT t r' c' := by
  unfold cellT
  by_cases hr : r' = r
  · subst hr
    rw [upd_same]
    by_cases hc : c' = c
    · subst hc; simp
    · simp [hc, ht]
  · rw [upd_other _ _ _ _ hr]; simp [hr]

theorem cellT_upd_fresh (t : Nat → Option (Nat → Option Nat)) (r : Nat)
    (c : Nat) (v : Option Nat) (r' c' : Nat) :
    cellT (Matrix.upd t r (some (Matrix.upd (match t r with | none => fun _ => none | some x => x) c v))) r' c' =
      if r' = r ∧ c' = c then v else cellT t r' c' := by
  unfold cellT
  by_cases hr : r' = r
  · subst hr
    rw [upd_same]
    by_cases hc : c' = c
    · subst hc; simp
    · cases ht : t r' <;> simp [hc]
  · rw [upd_other _ _ _ _ hr]; simp [hr]

theorem cellT_drop (t : Nat → Option (Nat → Option Nat)) (r : Nat) (r' c' : Nat) :
    cellT (Matrix.upd t r none) r' c' = if r' = r then none else cellT t r' c' := by
  unfold cellT
  by_cases hr : r' = r
  · subst hr; simp
  · rw [upd_other _ _ _ _ hr]; simp [hr]

/-- the representation invariant between operations -/
structure Inv (m : Matrix) (s : RegSpec) : Prop where
  c2 : 1 < m.cols
  rle : m.rows ≤ 256
  cle : m.cols ≤ 65536
  cur : (m.row < m.rows ∧ m.col < m.cols) ∨ (m.row = m.rows ∧ m.col = 0)
  dense : ∀ r c, (cell m r c).isSome ↔ c < hi m.row m.col m.cols r
  alloc : ∀ r, (m.table r).isSome ↔ 0 < hi m.row m.col m.cols r
  cnt : ∀ r, m.counts r = (hi m.row m.col m.cols r : Nat)
  obj : ∀ r c id, cell m r c = some id →
    (m.objs id).grow = r ∧ (m.objs id).gcol = c ∧ (s.fdOf id, id) ∈ s.live
  objfd : ∀ id, (m.objs id).fd = s.fdOf id
  fwd : ∀ p ∈ s.live, ∃ r c, m.fd2gfd p.1 = some (r, c) ∧ cell m r c = some p.2
  nokey : ∀ fd, (∀ p ∈ s.live, p.1 ≠ fd) → m.fd2gfd fd = none
  sinv : SInv s
  len : s.live.length = m.row * m.cols + m.col
  dc : m.disableCompact = false

theorem Inv.init (rows cols : Nat) (hc : 1 < cols) (hr : rows ≤ 256) (hcc : cols ≤ 65536) :
    Inv (Matrix.init rows cols) RegSpec.init := by
  refine ⟨hc, hr, hcc, ?_, ?_, ?_, ?_, ?_, fun _ => rfl, ?_, fun _ _ => rfl, SInv.init, ?_, rfl⟩
  · show (0 < rows ∧ 0 < cols) ∨ (0 = rows ∧ 0 = 0)
    omega
  · intro r c
    show (none : Option Nat).isSome ↔ c < hi 0 0 cols r
    rcases hi_spec 0 0 cols r with h | h | h <;> simp <;> omega
  · intro r
    show (none : Option (Nat → Option Nat)).isSome ↔ 0 < hi 0 0 cols r
    rcases hi_spec 0 0 cols r with h | h | h <;> simp <;> omega
  · intro r
    show (0 : Int) = (hi 0 0 cols r : Nat)
    rcases hi_spec 0 0 cols r with h | h | h <;> omega
  · intro r c id h; cases h
  · intro p hp; cases hp
  · show 0 = 0 * cols + 0
    omega

/-- position facts of an occupied cell -/
theorem Inv.cell_pos {m : Matrix} {s : RegSpec} (h : Inv m s) {r c id : Nat} (hc : cell m r c = some id) :
    c < hi m.row m.col m.cols r := (h.dense r c).1 (by rw [hc]; rfl)

theorem Inv.cell_bounds {m : Matrix} {s : RegSpec} (h : Inv m s) {r c id : Nat} (hc : cell m r c = some id) :
    r < m.rows ∧ c < m.cols ∧ (r < m.row ∨ (r = m.row ∧ c < m.col)) := by
  have := h.cell_pos hc
  have hcur := h.cur
  rcases hi_spec m.row m.col m.cols r with h1 | h1 | h1 <;> omega

/-- a live entry sits in the cell its descriptor maps to; the object records that cell -/
theorem Inv.live_cell {m : Matrix} {s : RegSpec} (h : Inv m s) {fd : Int} {id : Nat} (hp : (fd, id) ∈ s.live) :
    m.fd2gfd fd = some ((m.objs id).grow, (m.objs id).gcol) ∧
    cell m (m.objs id).grow (m.objs id).gcol = some id := by
  obtain ⟨r, c, h1, h2⟩ := h.fwd _ hp
  obtain ⟨e1, e2, _⟩ := h.obj r c id h2
  rw [e1, e2]; exact ⟨h1, h2⟩

/-- distinct cells hold distinct connections -/
theorem Inv.cell_inj {m : Matrix} {s : RegSpec} (h : Inv m s) {r c r' c' id : Nat}
    (h1 : cell m r c = some id) (h2 : cell m r' c' = some id) : r = r' ∧ c = c' := by
  obtain ⟨a1, a2, _⟩ := h.obj _ _ _ h1
  obtain ⟨b1, b2, _⟩ := h.obj _ _ _ h2
  exact ⟨a1.symm.trans b1, a2.symm.trans b2⟩

theorem Inv.fd2gfd_some {m : Matrix} {s : RegSpec} (h : Inv m s) {fd : Int} {r c : Nat}
    (hf : m.fd2gfd fd = some (r, c)) : ∃ id, cell m r c = some id ∧ (fd, id) ∈ s.live := by
  by_cases hk : ∃ p ∈ s.live, p.1 = fd
  · obtain ⟨p, hp, rfl⟩ := hk
    obtain ⟨r', c', h1, h2⟩ := h.fwd _ hp
    rw [hf] at h1
    cases h1
    exact ⟨p.2, h2, hp⟩
  · have := h.nokey fd (fun p hp e => hk ⟨p, hp, e⟩)
    rw [this] at hf; cases hf

/-! ### get -/

theorem Inv.get {m : Matrix} {s : RegSpec} (h : Inv m s) (fd : Int) : m.getConn fd = s.lookup fd := by
  by_cases hk : ∃ p ∈ s.live, p.1 = fd
  · obtain ⟨p, hp, rfl⟩ := hk
    obtain ⟨r, c, h1, h2⟩ := h.fwd _ hp
    rw [h.sinv.lookup_mem (show (p.1, p.2) ∈ s.live from hp)]
    unfold Matrix.getConn
    rw [h1]
    exact h2
  · have hk' : ∀ p ∈ s.live, p.1 ≠ fd := fun p hp e => hk ⟨p, hp, e⟩
    rw [lookup_not_key hk']
    unfold Matrix.getConn
    rw [h.nokey fd hk']

/-! ### count -/

theorem sum_hi (f : Nat → Int) (R C cols : Nat) (hf : ∀ r, f r = (hi R C cols r : Nat)) :
    ∀ n, (List.range n).foldl (fun acc r => acc + f r) 0 =
      ((if n ≤ R then n * cols else R * cols + C : Nat) : Int)
  | 0 => by simp
  | n + 1 => by
    rw [List.range_succ, List.foldl_append, sum_hi f R C cols hf n]
    simp only [List.foldl_cons, List.foldl_nil]
    rw [hf n]
    have e := Nat.succ_mul n cols
    rcases hi_spec R C cols n with h | h | h
    · rw [if_pos (by omega), if_pos (by omega), h.2]; simp only [Nat.succ_eq_add_one] at e; omega
    · rw [if_pos (by omega), if_neg (by omega), h.2, h.1]; omega
    · rw [if_neg (by omega), if_neg (by omega), h.2]; omega

theorem Inv.count {m : Matrix} {s : RegSpec} (h : Inv m s) : m.loadCount = s.live.length := by
  unfold Matrix.loadCount
  rw [sum_hi m.counts m.row m.col m.cols h.cnt m.rows, h.len]
  rcases h.cur with ⟨a, b⟩ | ⟨a, b⟩
  · rw [if_neg (by omega)]
  · rw [if_pos (by omega), a, b]; simp

/-! ### conn -/

theorem Inv.conn {m : Matrix} {s : RegSpec} (h : Inv m s) (id : Nat) (fd : Int)
    (hv : ∀ p ∈ s.live, p.2 ≠ id) : Inv (m.newConn id fd) (s.step (.conn id fd)) := by
  have hs' : SInv (s.step (.conn id fd)) := h.sinv.step 0 _ hv
  refine ⟨h.c2, h.rle, h.cle, h.cur, h.dense, h.alloc, h.cnt, ?_, ?_, h.fwd, h.nokey, hs', h.len, h.dc⟩
  · intro r c id' hc
    obtain ⟨a, b, d⟩ := h.obj r c id' (show cell m r c = some id' from hc)
    have hne : id' ≠ id := hv _ d
    show (Matrix.upd m.objs id ⟨fd, 0, 0, 0⟩ id').grow = r ∧ (Matrix.upd m.objs id ⟨fd, 0, 0, 0⟩ id').gcol = c ∧
      ((if id' = id then fd else s.fdOf id'), id') ∈ s.live
    rw [upd_other _ _ _ _ hne, if_neg hne]
    exact ⟨a, b, d⟩
  · intro i
    show (Matrix.upd m.objs id ⟨fd, 0, 0, 0⟩ i).fd = if i = id then fd else s.fdOf i
    by_cases e : i = id
    · subst e; simp
    · rw [upd_other _ _ _ _ e, if_neg e]; exact h.objfd i

/-! ### add -/

/-- `addConn` without the cursor movement -/
def addCore (m : Matrix) (id el : Nat) : Matrix :=
  { m with
    objs := Matrix.upd m.objs id { m.objs id with el := el % 256, grow := m.row % 256, gcol := m.col % 65536 },
    fd2gfd := Matrix.updI m.fd2gfd (m.objs id).fd (some (m.row % 256, m.col % 65536)),
    table := Matrix.upd m.table m.row
      (some (Matrix.upd (match m.table m.row with | none => fun _ => none | some t => t) m.col (some id))),
    counts := Matrix.upd m.counts m.row (m.counts m.row + 1) }

theorem addConn_eq (m : Matrix) (id el : Nat) (h : m.row < m.rows) :
    m.addConn id el = if m.col + 1 = m.cols then { addCore m id el with row := m.row + 1, col := 0 }
      else { addCore m id el with col := m.col + 1 } := by
  unfold Matrix.addConn
  rw [if_neg (by omega)]
  rfl

theorem Inv.add_core {m : Matrix} {s : RegSpec} (h : Inv m s) (id el : Nat)
    (hv : ∀ p ∈ s.live, p.1 ≠ s.fdOf id ∧ p.2 ≠ id) (hrow : m.row < m.rows) (hcol : m.col < m.cols)
    (R' C' : Nat) (hcur : (R' < m.rows ∧ C' < m.cols) ∨ (R' = m.rows ∧ C' = 0))
    (hhi : ∀ r, hi R' C' m.cols r = if r = m.row then m.col + 1 else hi m.row m.col m.cols r)
    (hlen : R' * m.cols + C' = m.row * m.cols + m.col + 1) :
    Inv { addCore m id el with row := R', col := C' } (s.step (.add id el)) := by
  have hs' : SInv (s.step (.add id el)) := h.sinv.step (s.live.length + 1) _ ⟨hv, by omega⟩
  have hr256 : m.row % 256 = m.row := Nat.mod_eq_of_lt (by have := h.rle; omega)
  have hc65536 : m.col % 65536 = m.col := Nat.mod_eq_of_lt (by have := h.cle; omega)
  have hhirow : hi m.row m.col m.cols m.row = m.col := by
    rcases hi_spec m.row m.col m.cols m.row with a | a | a <;> omega
  have hcell : ∀ r c, cell { addCore m id el with row := R', col := C' } r c =
      if r = m.row ∧ c = m.col then some id else cell m r c := by
    intro r c
    exact cellT_upd_fresh m.table m.row m.col (some id) r c
  have hempty : cell m m.row m.col = none := by
    have := h.dense m.row m.col
    rw [hhirow] at this
    cases hc : cell m m.row m.col with
    | none => rfl
    | some x => rw [hc] at this; simp at this
  have hlive' : (s.step (.add id el)).live = s.live ++ [(s.fdOf id, id)] := rfl
  refine ⟨h.c2, h.rle, h.cle, hcur, ?_, ?_, ?_, ?_, ?_, ?_, ?_, hs', ?_, h.dc⟩
  · intro r c
    rw [hcell]
    show _ ↔ c < hi R' C' m.cols r
    rw [hhi]
    by_cases e : r = m.row ∧ c = m.col
    · rw [if_pos e, if_pos e.1]; simp; omega
    · rw [if_neg e, h.dense]
      by_cases e1 : r = m.row
      · rw [if_pos e1, e1, hhirow]; omega
      · rw [if_neg e1]
  · intro r
    show (Matrix.upd m.table m.row _ r).isSome ↔ 0 < hi R' C' m.cols r
    rw [hhi]
    by_cases e1 : r = m.row
    · rw [if_pos e1, e1, upd_same]; simp
    · rw [if_neg e1, upd_other _ _ _ _ e1]; exact h.alloc r
  · intro r
    show Matrix.upd m.counts m.row (m.counts m.row + 1) r = (hi R' C' m.cols r : Nat)
    rw [hhi]
    by_cases e1 : r = m.row
    · rw [if_pos e1, e1, upd_same, h.cnt, hhirow]; simp
    · rw [if_neg e1, upd_other _ _ _ _ e1]; exact h.cnt r
  · intro r c id' hc
    rw [hcell] at hc
    show (Matrix.upd m.objs id _ id').grow = r ∧ (Matrix.upd m.objs id _ id').gcol = c ∧ _
    rw [hlive']
    by_cases e : r = m.row ∧ c = m.col
    · rw [if_pos e] at hc
      cases hc
      rw [upd_same]
      refine ⟨?_, ?_, ?_⟩
      · show m.row % 256 = r
        rw [hr256, e.1]
      · show m.col % 65536 = c
        rw [hc65536, e.2]
      · exact List.mem_append_right _ (List.mem_singleton.2 rfl)
    · rw [if_neg e] at hc
      obtain ⟨a, b, d⟩ := h.obj r c id' hc
      have hne : id' ≠ id := (hv _ d).2
      rw [upd_other _ _ _ _ hne]
      exact ⟨a, b, List.mem_append_left _ d⟩
  · intro i
    show (Matrix.upd m.objs id _ i).fd = s.fdOf i
    by_cases e : i = id
    · subst e; rw [upd_same]; exact h.objfd i
    · rw [upd_other _ _ _ _ e]; exact h.objfd i
  · intro p hp
    rw [hlive'] at hp
    rcases List.mem_append.1 hp with hp | hp
    · obtain ⟨r, c, h1, h2⟩ := h.fwd p hp
      refine ⟨r, c, ?_, ?_⟩
      · show Matrix.updI m.fd2gfd (m.objs id).fd _ p.1 = some (r, c)
        rw [h.objfd, updI_other _ _ _ _ (hv p hp).1]; exact h1
      · rw [hcell]
        have : ¬ (r = m.row ∧ c = m.col) := by
          rintro ⟨rfl, rfl⟩
          rw [hempty] at h2; cases h2
        rw [if_neg this]; exact h2
    · rw [List.mem_singleton] at hp
      subst hp
      refine ⟨m.row, m.col, ?_, ?_⟩
      · show Matrix.updI m.fd2gfd (m.objs id).fd _ (s.fdOf id) = some (m.row, m.col)
        rw [h.objfd, updI_same, hr256, hc65536]
      · rw [hcell, if_pos ⟨rfl, rfl⟩]
  · intro fd hfd
    rw [hlive'] at hfd
    show Matrix.updI m.fd2gfd (m.objs id).fd _ fd = none
    have hne : fd ≠ s.fdOf id := fun e =>
      hfd (s.fdOf id, id) (List.mem_append_right _ (List.mem_singleton.2 rfl)) e.symm
    rw [h.objfd, updI_other _ _ _ _ hne]
    exact h.nokey fd (fun p hp => hfd p (List.mem_append_left _ hp))
  · show (s.live ++ [(s.fdOf id, id)]).length = R' * m.cols + C'
    rw [hlen, List.length_append, h.len]; rfl

theorem Inv.add {m : Matrix} {s : RegSpec} (h : Inv m s) (id el : Nat)
    (hv : s.valid (m.rows * m.cols) (.add id el)) : Inv (m.addConn id el) (s.step (.add id el)) := by
  obtain ⟨hv1, hv2⟩ := hv
  have hpos : m.row < m.rows ∧ m.col < m.cols := by
    rcases h.cur with a | ⟨a, b⟩
    · exact a
    · exfalso
      rw [h.len, a, b] at hv2
      omega
  rw [addConn_eq m id el hpos.1]
  by_cases hcc : m.col + 1 = m.cols
  · rw [if_pos hcc]
    have hc := h.cur
    apply h.add_core id el hv1 hpos.1 hpos.2 (m.row + 1) 0
    · omega
    · intro r
      by_cases e : r = m.row
      · rw [if_pos e]
        rcases hi_spec (m.row + 1) 0 m.cols r with a | a | a <;> omega
      · rw [if_neg e]
        rcases hi_spec (m.row + 1) 0 m.cols r with a | a | a <;>
          rcases hi_spec m.row m.col m.cols r with b | b | b <;> omega
    · have := Nat.succ_mul m.row m.cols
      simp only [Nat.succ_eq_add_one] at this
      omega
  · rw [if_neg hcc]
    apply h.add_core id el hv1 hpos.1 hpos.2 m.row (m.col + 1)
    · omega
    · intro r
      by_cases e : r = m.row
      · rw [if_pos e]
        rcases hi_spec m.row (m.col + 1) m.cols r with a | a | a <;> omega
      · rw [if_neg e]
        rcases hi_spec m.row (m.col + 1) m.cols r with a | a | a <;>
          rcases hi_spec m.row m.col m.cols r with b | b | b <;> omega
    · omega

end Gnet.Proofs.Registry
