/-
  One level of `exec` for the works that act on a single connection from inside callbacks:
  handleAction, close, closeFlush, elWrite(Loop), flush, connWrite(Loop), connWritev(Loop), connOpen.
-/
import Gnet.Proofs.ReactorConn
namespace Gnet.Reactor
variable {A B : Prop}

theorem step_handleAction {fuel : Nat} (ih : Specs A B fuel) :
    ∀ ko c a Ψ s r s', Ok (exec (fuel+1) (.handleAction c a)) s r s' → Good A B ko s c Ψ →
    Good A B ko s' c (fun x => x.opened = false ∨ Ψ x) := by
  intro ko c a Ψ s r s' h hG
  unfold Ok at h
  rw [exec] at h
  mget
  split at h
  · exact (ih.close _ _ _ _ _ _ _ h hG).mono (by grind)
  · split at h
    · mret; exact hG.mono (by grind)
    · mret; exact hG.mono (by grind)

theorem step_close {fuel : Nat} (ih : Specs A B fuel) :
    ∀ ko c e Ψ s r s', Ok (exec (fuel+1) (.close c e)) s r s' → Good A B ko s c Ψ →
    Good A B ko s' c (fun x => x.opened = false ∨ (Ψ x ∧ x.registered = false)) := by
  intro ko c e Ψ s r s' h hG
  unfold Ok at h
  rw [exec] at h
  mget
  menter
  mguard
  mconn
  split at h
  · mret
    exact hG.mono (by grind)
  mmod (Lv A B 0)
  · intro x _; exact Lv.zero _
  mpop
  msplit
  mguard
  mguard
  mmod (Lv A B 0)
  · intro x _; exact Lv.zero _
  mbeta
  mcall
  replace hG := ih.callback _ _ _ 0 _ _ _ (by simp) hcall hG
  clear hcall
  rename_i r1
  mcall
  replace hG := ih.closeFlush _ _ _ _ _ hcall hG
  clear hcall
  mmod (fun x => x.opened = false)
  · intro x _; rfl
  mnote
  rw [bind_assoc] at h
  mpop
  msplit
  split at h
  · mdead
  rw [pure_bind] at h
  mnote
  rw [bind_assoc] at h
  mpop
  msplit
  split at h
  · mdead
  rw [pure_bind] at h
  mmod (fun x => x.opened = false)
  · intro x hx; exact hx
  split at h
  · mret
    exact hG.mono (fun x hx => Or.inl hx)
  · exact (ih.handleAction _ _ _ _ _ _ _ h hG).mono (by grind)

theorem step_closeFlush {fuel : Nat} (ih : Specs A B fuel) :
    ∀ ko c s r s', Ok (exec (fuel+1) (.closeFlush c)) s r s' → Good A B ko s c (Lv A B 0) → Good A B ko s' c (Lv A B 0) := by
  intro ko c s r s' h hG
  unfold Ok at h
  rw [exec] at h
  mget
  mconn
  split at h
  · mret; exact hG.mono (fun _ _ => Lv.zero _)
  mnote
  mpop
  msplit
  mguard
  mguard
  split at h
  · mret; exact hG.mono (fun _ _ => Lv.zero _)
  mmod (Lv A B 0)
  · intro _ _; exact Lv.zero _
  exact ih.closeFlush _ _ _ _ _ h hG

theorem step_elWrite {fuel : Nat} (ih : Specs A B fuel) :
    ∀ ko c k s r s', Ok (exec (fuel+1) (.elWrite c)) s r s' → Good A B ko s c (Lv A B k) → Good A B ko s' c (Lv A B k) := by
  intro ko c k s r s' h hG
  unfold Ok at h
  rw [exec] at h
  mget
  menter
  mconn
  replace hG : Good A B ko s c (Lv A B k) := hG.mono (by rintro _ rfl; exact hx)
  split at h
  · mret; exact hG
  · exact ih.elWriteLoop _ _ _ _ _ _ _ h hG

theorem step_elWriteLoop {fuel : Nat} (ih : Specs A B fuel) :
    ∀ ko c sent k s r s', Ok (exec (fuel+1) (.elWriteLoop c sent)) s r s' → Good A B ko s c (Lv A B k) → Good A B ko s' c (Lv A B k) := by
  intro ko c sent k s r s' h hG
  unfold Ok at h
  rw [exec] at h
  mget
  mconn
  mnote
  mcall
  have key : Good A B ko s c (fun y => y = x) ∧ ret.1 = x.outbound.take ret.1.length ∧ ret.2.1 ≤ (ret.1.length : Int) := by
    clear h
    have h := hcall
    clear hcall
    mpop
    msplit
    · rename_i c' d n err
      mguard
      mguard
      mret
      subst hr
      have hd : d = x.outbound := by simpa using hc
      refine ⟨hG, ?_, by simpa [Tok.sane] using ht⟩
      show d = List.take d.length x.outbound
      rw [hd, List.take_length]
    · rename_i c' segs d n err
      mguard
      mguard
      mret
      subst hr
      refine ⟨hG, ?_, by simpa [Tok.sane] using ht⟩
      show d = List.take d.length x.outbound
      have hc' : ¬d = x.outbound → (segs = cfg.iovMax ∧ d = List.take d.length x.outbound) ∧ ¬d = [] := by
        simpa using hc
      by_cases hd : d = x.outbound
      · rw [hd, List.take_length]
      · exact (hc' hd).1.2
  clear hcall
  obtain ⟨hG', hd, hn⟩ := key
  clear hG
  have hG := hG'
  clear hG'
  obtain ⟨d, n, err⟩ := ret
  dsimp only at hd hn
  mbeta
  extract_lets k' at h
  mmod (Lv A B k)
  · rintro _ rfl
    apply Lv.write hx
    apply prefix_write hd
    show (if n > 0 then n.toNat else 0) ≤ d.length
    split <;> omega
  split at h
  · mret; exact hG
  split at h
  · exact (ih.close _ _ _ _ _ _ _ h hG).mono (fun _ => Lv.after_close)
  mconn
  replace hG : Good A B ko s c (Lv A B k) := hG.mono (by rintro _ rfl; exact hx)
  split at h
  · exact ih.elWriteLoop _ _ _ _ _ _ _ h hG
  split at h
  · mnote
    mpop
    msplit
    mguard
    split at h
    · exact (ih.close _ _ _ _ _ _ _ h hG).mono (fun _ => Lv.after_close)
    · mret; exact hG
  split at h
  · have h := modify_bind_inv h
    replace hG := hG.set_tasks (s.tasks ++ [Task.write0 c])
    mret; exact hG
  · mret; exact hG

end Gnet.Reactor
