/-
  What `close` does to an opened and registered connection.
-/
import Gnet.Proofs.ReactorLRound
namespace Gnet.Proofs.ReactorL
open Gnet.Reactor

set_option maxRecDepth 4000
set_option linter.unusedSimpArgs false

theorem close_leaf2 {c : String} {cs : List (String × Conn)} {sl sl' : List (String × Bool)} {o f : Bool}
    {w : List String} {e : Bool} {x3 x6 y3 y6 : Conn}
    (h : PA False c (o, false, f, w, e) cs sl) (hx3 : lookupL cs c = some x3)
    (hx6 : lookupL (updL cs c y3) c = some x6)
    (h3 : y3.word = x3.word ∧ y3.registered = x3.registered ∧ y3.closeErrNil = x3.closeErrNil ∧ y3.opened = false)
    (h6 : y6.opened = x6.opened ∧ y6.registered = x6.registered ∧ y6.word = x6.word ∧
      y6.closeErrNil = x6.closeErrNil ∧ y6.fdOpen = false) :
    PA False c (false, false, false, w, e) (updL (updL cs c y3) c y6) sl' := by
  obtain ⟨x0, h0, hk0, _⟩ := h
  rw [hx3] at h0; cases h0
  rw [lookupL_updL_hit hx3] at hx6; cases hx6
  simp only [core, Prod.mk.injEq] at hk0
  obtain ⟨_, k2, _, k4, k5⟩ := hk0
  obtain ⟨a1, a2, a3, a4, a5⟩ := h6
  obtain ⟨b1, b2, b3, b4⟩ := h3
  refine ⟨y6, lookupL_updL_hit (lookupL_updL_hit hx3), ?_, fun g => g.elim⟩
  simp only [core, Prod.mk.injEq]
  exact ⟨by rw [a1, b4], by rw [a2, b2, k2], a5, by rw [a3, b1, k4], by rw [a4, b3, k5]⟩

theorem close_spec (c : String) (en : Bool) (x : Conn) (ho : x.opened = true) (hr : x.registered = true) :
    ∀ fuel s, lookupL s.conns c = some x →
      wp (exec fuel (.close c en))
        (fun _ s' => PA False c (false, false, false, x.word ++ ["close"], en) s'.conns s'.sysLog) s := by
  intro fuel s hx
  cases fuel with
  | zero => exact exec_zero _ _ _
  | succ fuel =>
    rw [exec]; dsimp only; wsimp
    intro a rest ht
    refine ⟨fun _ => trivial, fun _ x1 hx1 => ?_⟩
    rw [hx] at hx1; cases hx1
    refine ⟨fun hb => ?_, fun hb x2 hx2 t rest1 ht1 hsane => ?_⟩
    · simp [ho, hr] at hb
    rw [hx] at hx2; cases hx2
    split
    · rename_i c'' readable en1 remote
      wsimp
      refine ⟨fun _ => trivial, fun _ => ⟨fun _ => trivial, fun _ => ?_⟩⟩
      intro x2 hx2
      rw [lookupL_updL_hit hx] at hx2; cases hx2
      refine wp_mono (unreg_stable False c (x.opened, false, x.fdOpen, x.word ++ ["close"], en) rfl
        fuel _ rfl rfl _ ?_) ?_
      · dsimp only
        exact ⟨_, lookupL_updL_hit (lookupL_updL_hit hx), rfl, fun g => g.elim⟩
      · intro r s1 h1
        refine wp_mono (unreg_stable False c _ rfl fuel _ rfl rfl _ h1) ?_
        intro _ s2 h2
        repeat' first
          | intro _
          | apply And.intro
          | exact True.intro
          | (apply close_leaf2 h2; assumption; assumption; exact ⟨rfl, rfl, rfl, rfl⟩;
              exact ⟨rfl, rfl, rfl, rfl, rfl⟩)
          | (refine wp_mono (unreg_stable False c (false, false, false, x.word ++ ["close"], en) rfl
              fuel _ rfl rfl _ ?_) ?_ <;> try dsimp only)
          | assumption
          | (split <;> wsimp)
    · wsimp

end Gnet.Proofs.ReactorL
