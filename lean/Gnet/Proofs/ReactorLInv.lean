/-
  The lifecycle / descriptor invariant of the reactor model, preserved by all work about one
  connection (`J_target`).
-/
import Gnet.Proofs.ReactorLFrame
namespace Gnet.Proofs.ReactorL
open Gnet.Reactor

set_option maxRecDepth 4000
set_option linter.unusedSimpArgs false

/-- the per-connection part of `InvLife` -/
def LifeOK (x : Conn) : Prop :=
  WordOK x.word ∧
    (x.opened = true → ∃ k, x.word = "open" :: List.replicate k "traffic") ∧
    (x.registered = true → x.opened = true) ∧
    (x.fdOpen = false → x.opened = false ∧ x.registered = false)

theorem LifeOK_core {x y : Conn} (h : core y = core x) (hx : LifeOK x) : LifeOK y := by
  simp only [core, Prod.mk.injEq] at h
  obtain ⟨h1, h2, h3, h4, _⟩ := h
  unfold LifeOK
  rw [h1, h2, h3, h4]; exact hx

def InvLc (cs : List (String × Conn)) : Prop := ∀ c x, lookupL cs c = some x → LifeOK x

/-- all connections but `c` are fine -/
def InvO (c : String) (cs : List (String × Conn)) : Prop :=
  ∀ c' x, c' ≠ c → lookupL cs c' = some x → LifeOK x

theorem InvO_of_InvLc {c cs} (h : InvLc cs) : InvO c cs := fun c' x _ hx => h c' x hx

theorem InvO_upd {c cs y} (h : InvO c cs) : InvO c (updL cs c y) := by
  intro c' x hc hx
  rw [lookupL_updL_other _ _ _ _ hc] at hx
  exact h c' x hc hx

theorem InvLc_upd {c cs y} (h : InvO c cs) (hy : LifeOK y) : InvLc (updL cs c y) := by
  intro c' x hx
  by_cases hc : c' = c
  · subst hc
    rw [lookupL_updL_same] at hx
    cases h1 : lookupL cs c' with
    | none => rw [h1] at hx; cases hx
    | some x0 => rw [h1] at hx; cases hx; exact hy
  · rw [lookupL_updL_other _ _ _ _ hc] at hx
    exact h c' x hc hx

structure J (G : Prop) (cs : List (String × Conn)) (sl : List (String × Bool)) : Prop where
  inv : InvLc cs
  fd : G → FdL sl

structure PJ (G : Prop) (c : String) (cs : List (String × Conn)) (sl : List (String × Bool)) : Prop where
  j : J G cs sl
  op : ∃ x, lookupL cs c = some x ∧ x.opened = true

theorem J_of_PJ {G c cs sl} (h : PJ G c cs sl) : J G cs sl := h.j

theorem J_of_PJ_log {G c cs sl l} (h : PJ G c cs (sl ++ l)) : J G cs (sl ++ l) := h.j

theorem J_upd {G c cs sl x y} (h : J G cs sl) (hx : lookupL cs c = some x) (hy : core y = core x) :
    J G (updL cs c y) sl :=
  ⟨InvLc_upd (InvO_of_InvLc h.inv) (LifeOK_core hy (h.inv c x hx)), h.fd⟩

theorem PJ_upd {G c cs sl x y} (h : PJ G c cs sl) (hx : lookupL cs c = some x) (hy : core y = core x) :
    PJ G c (updL cs c y) sl := by
  refine ⟨J_upd h.j hx hy, y, by rw [lookupL_updL_same, hx]; rfl, ?_⟩
  obtain ⟨x0, h0, ho⟩ := h.op
  rw [hx] at h0; cases h0
  simp only [core, Prod.mk.injEq] at hy
  rw [hy.1]; exact ho

theorem PJ_fdOpen {G c cs sl x} (h : PJ G c cs sl) (hx : lookupL cs c = some x) : x.fdOpen = true := by
  obtain ⟨x0, h0, ho⟩ := h.op
  rw [hx] at h0; cases h0
  have := (h.j.inv c x hx).2.2.2
  cases hf : x.fdOpen with
  | true => rfl
  | false => rw [(this hf).1] at ho; cases ho

theorem PJ_log {G c cs sl x} (h : PJ G c cs sl) (hx : lookupL cs c = some x) :
    PJ G c cs (sl ++ [(c, x.fdOpen)]) :=
  ⟨⟨h.j.inv, fun g => FdL_append (h.j.fd g) (PJ_fdOpen h hx)⟩, h.op⟩

/-- a system call on the descriptor of `c` issued from a place where the connection need not be
    opened (the hop `dup` inside a callback): the model has just checked the ledger entry itself -/
theorem J_log_fd {G c cs sl x x1} (h : J G cs sl) (hb : ¬ (!x.fdOpen) = true)
    (hx : lookupL cs c = some x) (hx1 : lookupL cs c = some x1) :
    J G cs (sl ++ [(c, x1.fdOpen)]) := by
  rw [hx] at hx1; cases hx1
  exact ⟨h.inv, fun g => FdL_append (h.fd g) (by simpa using hb)⟩

/-- the lifecycle fields after one more OnTraffic -/
def coreT (x : Conn) : Core := (x.opened, x.registered, x.fdOpen, x.word ++ ["traffic"], x.closeErrNil)

theorem replicate_snoc (k : Nat) (a : String) : List.replicate k a ++ [a] = List.replicate (k + 1) a := by
  induction k with
  | zero => rfl
  | succ k ih => rw [List.replicate_succ, List.cons_append, ih]; rfl

theorem PJ_traffic {G c cs sl x y} (h : PJ G c cs sl) (hx : lookupL cs c = some x) (hy : core y = coreT x) :
    PJ G c (updL cs c y) sl := by
  obtain ⟨x0, h0, ho⟩ := h.op
  rw [hx] at h0; cases h0
  simp only [core, coreT, Prod.mk.injEq] at hy
  obtain ⟨h1, h2, h3, h4, _⟩ := hy
  have hl := h.j.inv c x hx
  obtain ⟨k, hk⟩ := hl.2.1 ho
  have hw : y.word = "open" :: List.replicate (k + 1) "traffic" := by
    rw [h4, hk, List.cons_append, replicate_snoc]
  refine ⟨⟨InvLc_upd (InvO_of_InvLc h.j.inv) ?_, h.j.fd⟩, y, by rw [lookupL_updL_same, hx]; rfl, by rw [h1]; exact ho⟩
  refine ⟨Or.inr (Or.inl ⟨k + 1, hw⟩), fun _ => ⟨k + 1, hw⟩, ?_, ?_⟩
  · rw [h1, h2]; exact hl.2.2.1
  · rw [h1, h2, h3]; exact hl.2.2.2

theorem PJ_g1 {G c cs sl x} (h : J G cs sl) (hb : ¬ (!x.opened) = true) (hx : lookupL cs c = some x) :
    PJ G c cs sl := ⟨h, x, hx, by simpa using hb⟩

theorem PJ_g2 {G c cs sl x} {b : Bool} (h : J G cs sl) (hb : ¬ (!x.opened || b) = true)
    (hx : lookupL cs c = some x) : PJ G c cs sl :=
  ⟨h, x, hx, by cases ho : x.opened <;> simp [ho] at hb ⊢⟩

theorem PJ_g3 {G c cs sl x} {b : Bool} (h : J G cs sl) (hb : (b && x.opened) = true)
    (hx : lookupL cs c = some x) : PJ G c cs sl :=
  ⟨h, x, hx, by simp at hb; exact hb.2⟩

theorem PJ_g4 {G c cs sl x} {b1 b2 : Bool} (h : J G cs sl) (hb : (x.opened && b1 && b2) = true)
    (hx : lookupL cs c = some x) : PJ G c cs sl :=
  ⟨h, x, hx, by simp at hb; exact hb.1.1⟩

set_option hygiene false in
macro "j_auto" : tactic => `(tactic| repeat' first
  | intro _
  | apply And.intro
  | exact True.intro
  | assumption
  | (refine J_log_fd ?_ (by assumption) (by assumption) (by assumption))
  | (refine PJ_log ?_ (by assumption))
  | (apply PJ_upd; rotate_left; assumption; rfl)
  | (apply PJ_traffic; rotate_left; assumption; rfl)
  | (apply PJ_g1; rotate_left; assumption; assumption; assumption)
  | (apply PJ_g2; rotate_left; assumption; assumption; assumption)
  | (apply PJ_g3; rotate_left; assumption; assumption; assumption)
  | (apply PJ_g4; rotate_left; assumption; assumption; assumption)
  | (apply J_of_PJ_log)
  | (apply J_upd; rotate_left; assumption; rfl)
  | (apply J_of_PJ)
  | (refine wp_mono (connOpen_PJ _ _ _ ?_) ?_ <;> try dsimp only)
  | (refine wp_mono (ihJ _ rfl rfl _ ?_) ?_ <;> try dsimp only)
  | (refine wp_mono (ihP _ rfl rfl _ ?_) ?_ <;> try dsimp only)
  | (split <;> wsimp))

theorem connOpen_PJ0 (G : Prop) (c : String) :
    ∀ fuel buf s, PJ G c s.conns s.sysLog →
      wp (exec fuel (.connOpen c buf)) (fun _ s' => PJ G c s'.conns s'.sysLog) s := by
  intro fuel
  induction fuel with
  | zero => intro _ s _; exact exec_zero _ _ _
  | succ fuel ih =>
    intro buf s hs
    rw [exec]; dsimp only; wsimp
    repeat' first
      | intro _
      | apply And.intro
      | exact True.intro
      | assumption
      | (refine PJ_log ?_ (by assumption))
      | (apply PJ_upd; rotate_left; assumption; rfl)
      | (refine wp_mono (ih _ _ ?_) ?_ <;> try dsimp only)
      | (split <;> wsimp)

def plainW : Work → Bool
  | .processIO .. | .elRead .. | .elWrite .. | .close .. | .handleAction .. | .callback ..
  | .connWrite .. | .connWritev .. | .flush .. | .wake .. => true
  | _ => false

def loopW : Work → Bool
  | .connOpen .. | .elReadLoop .. | .elWriteLoop .. | .closeFlush .. | .connWriteLoop .. | .connWritevLoop .. => true
  | _ => false

def PreW (G : Prop) (c : String) (w : Work) (cs : List (String × Conn)) (sl : List (String × Bool)) : Prop :=
  match w with
  | .register0 _ => J G cs sl ∧ ∃ x, lookupL cs c = some x ∧ x.opened = false ∧ x.registered = false ∧ x.fdOpen = true ∧ x.word = []
  | .open _ => InvO c cs ∧ (G → FdL sl) ∧ ∃ x, lookupL cs c = some x ∧ x.registered = true ∧ x.fdOpen = true ∧ x.word = []
  | .connOpen .. | .elReadLoop .. | .elWriteLoop .. | .closeFlush .. | .connWriteLoop .. | .connWritevLoop .. => PJ G c cs sl
  | _ => J G cs sl


theorem lookupL_updL_hit {cs : List (String × Conn)} {c : String} {x y : Conn} (h : lookupL cs c = some x) :
    lookupL (updL cs c y) c = some y := by rw [lookupL_updL_same, h]; rfl

structure CL (G : Prop) (c : String) (k : Core) (cs : List (String × Conn)) (sl : List (String × Bool)) : Prop where
  o : InvO c cs
  a : PA G c k cs sl

theorem closing_stable (G : Prop) (c : String) (k : Core) (hk : k.2.1 = false) (fuel : Nat) (w : Work)
    (ht : target w = some c) (hS : inS w = true) (s : RState) (h : CL G c k s.conns s.sysLog) :
    wp (exec fuel w) (fun _ s' => CL G c k s'.conns s'.sysLog) s :=
  wp_mono (wp_and (frame_gen c (InvO c) (fun _ _ => InvO_upd) fuel w ht s h.o)
    (unreg_stable G c k hk fuel w ht hS s h.a)) (fun _ _ h => ⟨h.1, h.2⟩)

theorem close_leaf {G c cs sl} {k : Core} {x3 x4 x5 x6 y3 y6 : Conn}
    (h : CL G c k cs sl) (hW : WordOK k.2.2.2.1) (hk : k.2.1 = false)
    (hx3 : lookupL cs c = some x3) (hx4 : lookupL (updL cs c y3) c = some x4)
    (hx5 : lookupL (updL cs c y3) c = some x5) (hx6 : lookupL (updL cs c y3) c = some x6)
    (h3 : y3.fdOpen = x3.fdOpen ∧ y3.word = x3.word ∧ y3.registered = x3.registered ∧ y3.opened = false)
    (h6 : y6.opened = x6.opened ∧ y6.registered = x6.registered ∧ y6.word = x6.word) :
    J G (updL (updL cs c y3) c y6) (sl ++ [(c, x4.fdOpen)] ++ [(c, x5.fdOpen)]) := by
  obtain ⟨hO, x0, h0, hk0, hf⟩ := h
  rw [hx3] at h0; cases h0
  have e : lookupL (updL cs c y3) c = some y3 := by rw [lookupL_updL_same, hx3]; rfl
  rw [e] at hx4 hx5 hx6; cases hx4; cases hx5; cases hx6
  subst hk0
  simp only [core] at hk hW
  obtain ⟨a1, a2, a3⟩ := h6
  obtain ⟨b1, b2, b3, b4⟩ := h3
  refine ⟨InvLc_upd (InvO_upd hO) ?_, fun g => ?_⟩
  · refine ⟨?_, ?_, ?_, ?_⟩
    · rw [a3, b2]; exact hW
    · intro h; rw [a1, b4] at h; cases h
    · intro h; rw [a2, b3, hk] at h; cases h
    · intro _; exact ⟨by rw [a1, b4], by rw [a2, b3, hk]⟩
  · have := hf g
    rw [b1]
    exact FdL_append (FdL_append this.2 this.1) this.1

theorem J_target (G : Prop) (c : String) :
    ∀ fuel w, target w = some c → ∀ s, PreW G c w s.conns s.sysLog →
      wp (exec fuel w) (fun _ s' => J G s'.conns s'.sysLog) s := by
  intro fuel
  induction fuel with
  | zero => intro w _ s _; exact exec_zero _ _ _
  | succ fuel ih =>
    intro w hw s hs
    have ihJ : ∀ w, target w = some c → plainW w = true → ∀ s, J G s.conns s.sysLog →
        wp (exec fuel w) (fun _ s' => J G s'.conns s'.sysLog) s := by
      intro w ht hp s hs
      apply ih w ht
      cases w <;> first | exact hs | cases hp
    have ihP : ∀ w, target w = some c → loopW w = true → ∀ s, PJ G c s.conns s.sysLog →
        wp (exec fuel w) (fun _ s' => J G s'.conns s'.sysLog) s := by
      intro w ht hp s hs
      apply ih w ht
      cases w <;> first | exact hs | cases hp
    have connOpen_PJ := connOpen_PJ0 G c
    cases w with
    | accept => cases hw
    | readUDP => cases hw
    | udpCallback => cases hw
    | closeConns => cases hw
    | register0 c' =>
      cases hw; dsimp only [PreW] at hs; rw [exec]; dsimp only; wsimp
      obtain ⟨hJ, x0, hx0, ho0, hr0, hf0, hw0⟩ := hs
      intro a rest ht x hx t rest1 ht1 hsane
      rw [hx0] at hx; cases hx
      split
      · wsimp
        refine ⟨fun _ => trivial, fun _ => ⟨fun _ => ?_, fun _ => ?_⟩⟩
        · intro x1 hx1 t2 rest2 ht2 hs2
          split
          · wsimp
            refine ⟨fun _ => trivial, fun _ => ?_⟩
            intro x2 hx2
            rw [hx0] at hx1 hx2; cases hx1; cases hx2
            refine ⟨InvLc_upd (InvO_of_InvLc hJ.inv) ?_, fun g => FdL_append (FdL_append (hJ.fd g) hf0) hf0⟩
            unfold LifeOK; dsimp only
            rw [hw0, hr0]
            exact ⟨Or.inl rfl, fun h => (nomatch h), fun h => (nomatch h), fun _ => ⟨rfl, rfl⟩⟩
          · wsimp
        · intro x1 hx1
          rw [hx0] at hx1; cases hx1
          apply ih _ rfl
          dsimp only [PreW]
          exact ⟨InvO_upd (InvO_of_InvLc hJ.inv), fun g => FdL_append (hJ.fd g) hf0, _,
            lookupL_updL_hit hx0, rfl, hf0, hw0⟩
      · wsimp
    | «open» c' => 
      cases hw; dsimp only [PreW] at hs; rw [exec]; dsimp only; wsimp
      obtain ⟨hO, hF, x0, hx0, hr0, hf0, hw0⟩ := hs
      intro a rest ht x hx t rest1 ht1 hsane
      rw [hx0] at hx; cases hx
      split
      · wsimp
        refine ⟨fun _ => trivial, fun _ x1 hx1 => ?_⟩
        rw [lookupL_updL_same, hx0] at hx1; cases hx1
        apply ihJ _ rfl rfl
        dsimp only
        refine ⟨InvLc_upd (InvO_upd hO) ?_, hF⟩
        unfold LifeOK; dsimp only
        rw [hw0, hf0]
        exact ⟨Or.inr (Or.inl ⟨0, rfl⟩), fun _ => ⟨0, rfl⟩, fun _ => rfl, fun h => (nomatch h)⟩
      · wsimp
    | close c' en =>
      cases hw; dsimp only [PreW] at hs; rw [exec]; dsimp only; wsimp
      intro a rest ht
      refine ⟨fun _ => trivial, fun _ x hx => ⟨fun _ => hs, fun hb x1 hx1 t rest1 ht1 hsane => ?_⟩⟩
      rw [hx] at hx1; cases hx1
      have hop : x.opened = true ∧ x.registered = true := by
        revert hb; cases x.opened <;> cases x.registered <;> simp
      have hL := hs.inv c x hx
      obtain ⟨j, hj⟩ := hL.2.1 hop.1
      have hfd : x.fdOpen = true := by
        cases hf : x.fdOpen with
        | true => rfl
        | false => have := (hL.2.2.2 hf).1; rw [hop.1] at this; cases this
      split
      · rename_i c'' readable en1 remote
        wsimp
        refine ⟨fun _ => trivial, fun _ => ⟨fun _ => trivial, fun _ => ?_⟩⟩
        intro x2 hx2
        rw [lookupL_updL_same, hx] at hx2; cases hx2
        have hk : (x.opened, false, x.fdOpen, x.word ++ ["close"], en).2.1 = false := rfl
        have hW : WordOK (x.opened, false, x.fdOpen, x.word ++ ["close"], en).2.2.2.1 :=
          Or.inr (Or.inr ⟨j, by rw [hj]⟩)
        refine wp_mono (closing_stable G c (x.opened, false, x.fdOpen, x.word ++ ["close"], en) hk
          fuel _ rfl rfl _ ?_) ?_
        · dsimp only
          exact ⟨InvO_upd (InvO_upd (InvO_of_InvLc hs.inv)), _,
            lookupL_updL_hit (lookupL_updL_hit hx), rfl, fun g => ⟨hfd, hs.fd g⟩⟩
        · intro r s1 h1
          refine wp_mono (closing_stable G c _ hk fuel _ rfl rfl _ h1) ?_
          intro _ s2 h2
          repeat' first
            | intro _
            | apply And.intro
            | exact True.intro
            | (apply close_leaf h2 hW hk; assumption; assumption; assumption; assumption;
                exact ⟨rfl, rfl, rfl, rfl⟩; exact ⟨rfl, rfl, rfl⟩)
            | (refine wp_mono (ihJ _ rfl rfl _ ?_) ?_ <;> try dsimp only)
            | assumption
            | (split <;> wsimp)
      · wsimp
    | _ => 
      cases hw; dsimp only [PreW] at hs; rw [exec]; dsimp only; wsimp
      j_auto

end Gnet.Proofs.ReactorL
