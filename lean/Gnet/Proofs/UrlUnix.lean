/-
  unix addresses: `path.Clean` / `path.Join` (model) and `url.Parse` on  "unix://" path.
-/
import Gnet.Proofs.UrlIp
namespace Gnet.Proofs.Url
open Gnet Gnet.Url

/-! ## splitSlash / joinSlash -/

theorem splitSlash_ne_nil (l : Bytes) : splitSlash l ≠ [] := by
  induction l with
  | nil => simp [splitSlash]
  | cons c cs ih =>
    unfold splitSlash
    cases h : splitSlash cs with
    | nil => simp
    | cons s ss => by_cases hc : c = '/' <;> simp [hc]

theorem splitSlash_cons (c : Char) (cs : Bytes) :
    ∃ s ss, splitSlash cs = s :: ss ∧
      splitSlash (c :: cs) = if c = '/' then [] :: s :: ss else (c :: s) :: ss := by
  cases h : splitSlash cs with
  | nil => exact absurd h (splitSlash_ne_nil cs)
  | cons s ss => exact ⟨s, ss, rfl, by rw [splitSlash, h]⟩

theorem splitSlash_slash (b : Bytes) : splitSlash ('/' :: b) = [] :: splitSlash b := by
  obtain ⟨s, ss, h, e⟩ := splitSlash_cons '/' b
  rw [e, h]; simp

theorem splitSlash_noSlash {a : Bytes} (h : '/' ∉ a) : splitSlash a = [a] := by
  induction a with
  | nil => rfl
  | cons x xs ih =>
    have hx : x ≠ '/' := fun e => h (by simp [e])
    have hxs : '/' ∉ xs := fun e => h (by simp [e])
    obtain ⟨s, ss, h1, e⟩ := splitSlash_cons x xs
    rw [e, if_neg hx]
    rw [ih hxs] at h1
    cases h1; rfl

theorem splitSlash_append {a : Bytes} (h : '/' ∉ a) (b : Bytes) :
    splitSlash (a ++ '/' :: b) = a :: splitSlash b := by
  induction a with
  | nil => exact splitSlash_slash b
  | cons x xs ih =>
    have hx : x ≠ '/' := fun e => h (by simp [e])
    have hxs : '/' ∉ xs := fun e => h (by simp [e])
    obtain ⟨s, ss, h1, e⟩ := splitSlash_cons x (xs ++ '/' :: b)
    rw [List.cons_append, e, if_neg hx]
    rw [ih hxs] at h1
    cases h1; rfl

theorem joinSlash_cons_cons (c : Char) (s : Bytes) (ss : List Bytes) :
    joinSlash ((c :: s) :: ss) = c :: joinSlash (s :: ss) := by
  cases ss <;> simp [joinSlash]

theorem joinSlash_nil_cons (s : Bytes) (ss : List Bytes) :
    joinSlash ([] :: s :: ss) = '/' :: joinSlash (s :: ss) := by
  simp [joinSlash]

theorem joinSlash_splitSlash (q : Bytes) : joinSlash (splitSlash q) = q := by
  induction q with
  | nil => rfl
  | cons c cs ih =>
    obtain ⟨s, ss, h, e⟩ := splitSlash_cons c cs
    rw [e]
    rw [h] at ih
    by_cases hc : c = '/'
    · rw [if_pos hc, joinSlash_nil_cons, ih, hc]
    · rw [if_neg hc, joinSlash_cons_cons, ih]

/-! ## Clean -/

theorem cleanStep_nil (r : Bool) (out : List Bytes) : cleanStep r out [] = out := by
  simp [cleanStep]

/-- a proper element is appended -/
def Regular (s : Bytes) : Prop := s ≠ [] ∧ s ≠ ['.'] ∧ s ≠ dotdot

theorem cleanStep_regular (r : Bool) (out : List Bytes) {s : Bytes} (h : Regular s) :
    cleanStep r out s = s :: out := by
  obtain ⟨h1, h2, h3⟩ := h
  simp [cleanStep, h1, h2, h3]

theorem foldl_regular (r : Bool) (segs : List Bytes) (h : ∀ s ∈ segs, Regular s) :
    ∀ acc, segs.foldl (cleanStep r) acc = segs.reverse ++ acc := by
  induction segs with
  | nil => intro acc; rfl
  | cons s ss ih =>
    intro acc
    rw [List.foldl_cons, cleanStep_regular r acc (h s (by simp)),
      ih (fun t ht => h t (by simp [ht]))]
    simp

theorem segment_regular {s : Bytes} (h : isSegment s = true) : Regular s := by
  simp only [isSegment, Bool.and_eq_true, decide_eq_true_eq] at h
  exact ⟨h.1.1.1, h.1.2, h.2⟩

theorem relPath_facts {q : Bytes} (h : isRelPath q = true) :
    q ≠ [] ∧ q.head? ≠ some '/' ∧ (splitSlash q).foldl (cleanStep false) [] = (splitSlash q).reverse ∧
      (splitSlash q).foldl (cleanStep true) [] = (splitSlash q).reverse := by
  have hreg : ∀ s ∈ splitSlash q, Regular s := by
    intro s hs
    exact segment_regular (List.all_eq_true.mp h s hs)
  refine ⟨?_, ?_, ?_, ?_⟩
  · intro e; subst e
    have := hreg [] (by simp [splitSlash]); exact this.1 rfl
  · cases q with
    | nil => simp
    | cons c cs =>
      intro e
      have hc : c = '/' := by simpa using e
      subst hc
      have := hreg [] (by rw [splitSlash_slash]; simp)
      exact this.1 rfl
  · simpa using foldl_regular false _ hreg []
  · simpa using foldl_regular true _ hreg []

/-- a cleaned path is a fixed point of `path.Clean` -/
theorem pathClean_clean {p : Bytes} (h : isCleanPath p = true) : pathClean p = p := by
  cases p with
  | nil => simp [isCleanPath] at h
  | cons c q =>
    simp only [isCleanPath] at h
    by_cases hc : c = '/'
    · subst hc
      simp only [if_true] at h
      obtain ⟨_, _, _, h4⟩ := relPath_facts h
      unfold pathClean
      rw [if_neg (by simp)]
      simp only [List.head?_cons, decide_true, if_true, splitSlash_slash, List.foldl_cons,
        cleanStep_nil, h4, List.reverse_reverse, joinSlash_splitSlash]
    · rw [if_neg hc] at h
      obtain ⟨_, h2, h3, _⟩ := relPath_facts h
      unfold pathClean
      rw [if_neg (by simp)]
      have hr : ((c :: q).head? = some '/') = False := by simpa using hc
      simp only [hr, decide_false, h3, List.reverse_reverse, joinSlash_splitSlash]
      simp [splitSlash_ne_nil]

/-- the slash `path.Join` puts between host and path changes nothing -/
theorem pathClean_join {au rest : Bytes} (hne : au ≠ []) (hsl : '/' ∉ au) (hrest : PathLike rest) :
    pathClean (au ++ '/' :: rest) = pathClean (au ++ rest) := by
  have hhead : ∀ t, (au ++ t).head? = au.head? := by
    intro t; cases au with
    | nil => exact absurd rfl hne
    | cons x xs => rfl
  have hne1 : au ++ '/' :: rest ≠ [] := by simp
  have hne2 : au ++ rest ≠ [] := by simp [hne]
  have hfold : ∀ r, (splitSlash (au ++ '/' :: rest)).foldl (cleanStep r) [] =
      (splitSlash (au ++ rest)).foldl (cleanStep r) [] := by
    intro r
    rcases hrest with rfl | ⟨t, rfl⟩
    · rw [splitSlash_append hsl, List.append_nil, splitSlash_noSlash hsl]
      simp [splitSlash, cleanStep_nil]
    · rw [splitSlash_append hsl, splitSlash_append hsl, splitSlash_slash]
      simp [cleanStep_nil]
  unfold pathClean
  rw [if_neg hne1, if_neg hne2]
  simp only [hhead, hfold]

theorem cleanStep_nonempty (r : Bool) (out : List Bytes) (s : Bytes) (h : ∀ t ∈ out, t ≠ []) :
    ∀ t ∈ cleanStep r out s, t ≠ [] := by
  unfold cleanStep
  by_cases h1 : s = [] ∨ s = ['.']
  · rw [if_pos h1]; exact h
  · rw [if_neg h1]
    by_cases h2 : s = dotdot
    · rw [if_pos h2]
      cases out with
      | nil =>
        cases r <;> simp [dotdot]
      | cons top below =>
        simp only
        by_cases h3 : top = dotdot
        · rw [if_pos h3]; intro t ht
          rcases List.mem_cons.mp ht with rfl | ht
          · simp [dotdot]
          · exact h t ht
        · rw [if_neg h3]; intro t ht; exact h t (by simp [ht])
    · rw [if_neg h2]; intro t ht
      rcases List.mem_cons.mp ht with rfl | ht
      · intro e; exact h1 (Or.inl e)
      · exact h t ht

theorem foldl_nonempty (r : Bool) (segs : List Bytes) :
    ∀ acc, (∀ t ∈ acc, t ≠ []) → ∀ t ∈ segs.foldl (cleanStep r) acc, t ≠ [] := by
  induction segs with
  | nil => intro acc h; exact h
  | cons s ss ih =>
    intro acc h
    rw [List.foldl_cons]
    exact ih _ (cleanStep_nonempty r acc s h)

theorem joinSlash_ne_nil {l : List Bytes} (hl : l ≠ []) (h : ∀ t ∈ l, t ≠ []) : joinSlash l ≠ [] := by
  cases l with
  | nil => exact absurd rfl hl
  | cons s ss =>
    have hs := h s (by simp)
    cases ss with
    | nil => simpa [joinSlash] using hs
    | cons s2 ss2 => simp [joinSlash]

/-- `path.Clean` never returns the empty string -/
theorem pathClean_ne_nil (p : Bytes) : pathClean p ≠ [] := by
  unfold pathClean
  by_cases h : p = []
  · rw [if_pos h]; simp
  · rw [if_neg h]
    simp only
    by_cases hr : p.head? = some '/'
    · simp [hr]
    · simp only [hr, decide_false, if_false]
      by_cases ho : ((splitSlash p).foldl (cleanStep false) []).reverse = []
      · rw [if_pos ho]; simp
      · rw [if_neg ho]
        apply joinSlash_ne_nil ho
        intro t ht
        exact foldl_nonempty false _ [] (by simp) t (by simpa using ht)

/-! ## `url.Parse` on "unix://" path -/

def unixB : Bytes := ['u', 'n', 'i', 'x']

theorem mem_takeWhile {p : Char → Bool} {l : Bytes} {x : Char} (h : x ∈ l.takeWhile p) :
    x ∈ l ∧ p x = true := by
  induction l with
  | nil => simp at h
  | cons c cs ih =>
    rw [List.takeWhile_cons] at h
    by_cases hc : p c = true
    · rw [if_pos hc] at h
      rcases List.mem_cons.mp h with rfl | h
      · exact ⟨by simp, hc⟩
      · exact ⟨by simp [(ih h).1], (ih h).2⟩
    · rw [if_neg hc] at h; simp at h

theorem mem_dropWhile {p : Char → Bool} {l : Bytes} {x : Char} (h : x ∈ l.dropWhile p) : x ∈ l := by
  induction l with
  | nil => simp at h
  | cons c cs ih =>
    rw [List.dropWhile_cons] at h
    by_cases hc : p c = true
    · rw [if_pos hc] at h; simp [ih h]
    · rw [if_neg hc] at h; exact h

theorem dropWhile_pathLike (l : Bytes) : PathLike (l.dropWhile (· ≠ '/')) := by
  induction l with
  | nil => exact Or.inl rfl
  | cons c cs ih =>
    rw [List.dropWhile_cons]
    by_cases hc : c = '/'
    · subst hc; simp [PathLike]
    · simp only [ne_eq, hc, not_false_eq_true, decide_true, if_true]; exact ih

theorem pathText_char {c : Char} (h : (segChar c || c = '/') = true) :
    isCTL c = false ∧ c ≠ '#' ∧ c ≠ '?' ∧ c ≠ '%' ∧ c ≠ '@' := by
  char_arith

theorem parseHost_seg {au : Bytes} (h : au.all segChar = true) : parseHost au = some au := by
  have hpl : Plain au := Plain.of_all h (fun _ => plain_of_seg)
  have hno : ∀ c, segChar c = false → c ∉ au := by
    intro c hc hm; have := List.all_eq_true.mp h c hm; simp [hc] at this
  unfold parseHost
  have hhead : au.head? ≠ some '[' := by
    cases au with
    | nil => simp
    | cons x xs =>
      intro e
      have : x = '[' := by simpa using e
      subst this
      exact hno '[' (by decide) (by simp)
  rw [if_neg hhead, splitLast_none (hno ':' (by decide))]
  exact unescape_host_plain hpl

theorem urlParse_unix {p : Bytes} (hp : isPathText p = true) :
    urlParse (escapePercent (unixB ++ ':' :: '/' :: '/' :: p)) =
      .ok unixB (p.takeWhile (· ≠ '/')) (p.dropWhile (· ≠ '/')) := by
  simp only [isPathText, Bool.and_eq_true, List.all_eq_true] at hp
  have hch := fun c hc => pathText_char (hp.2 c hc)
  have hpct : '%' ∉ unixB ++ ':' :: '/' :: '/' :: p := by
    intro hm
    rcases List.mem_append.mp hm with hm | hm
    · revert hm; decide
    · simp only [List.mem_cons] at hm
      rcases hm with e | e | e | hm
      · revert e; decide
      · revert e; decide
      · revert e; decide
      · exact (hch _ hm).2.2.2.1 rfl
  rw [escapePercent_id hpct]
  have hau : ∀ c ∈ p.takeWhile (· ≠ '/'), segChar c = true := by
    intro c hc
    obtain ⟨h1, h2⟩ := mem_takeWhile hc
    have := hp.2 c h1
    simp only [Bool.or_eq_true, decide_eq_true_eq] at this
    rcases this with h | h
    · exact h
    · simp [h] at h2
  have hsplit : p = p.takeWhile (· ≠ '/') ++ p.dropWhile (· ≠ '/') :=
    (List.takeWhile_append_dropWhile).symm
  have hsafe1 : Safe (p.takeWhile (· ≠ '/')) := fun c hc =>
    ⟨(hch c (mem_takeWhile hc).1).1, (hch c (mem_takeWhile hc).1).2.1, (hch c (mem_takeWhile hc).1).2.2.1⟩
  have hsafe2 : Safe (p.dropWhile (· ≠ '/')) := fun c hc =>
    ⟨(hch c (mem_dropWhile hc)).1, (hch c (mem_dropWhile hc)).2.1, (hch c (mem_dropWhile hc)).2.2.1⟩
  have hsl : '/' ∉ p.takeWhile (· ≠ '/') := by
    intro hm; have := (mem_takeWhile hm).2; simp at this
  have hat : '@' ∉ p.takeWhile (· ≠ '/') := fun hm => (hch _ (mem_takeWhile hm).1).2.2.2.2 rfl
  have hpct2 : '%' ∉ p.dropWhile (· ≠ '/') := fun hm => (hch _ (mem_dropWhile hm)).2.2.2.1 rfl
  have := urlParse_authority unixB _ _ (by decide) hsafe1 hsl hsafe2 (dropWhile_pathLike p)
  rw [← hsplit] at this
  rw [this]
  unfold afterAuthority
  rw [parseAuthority_noAt hat, parseHost_seg (List.all_eq_true.mpr hau), unescape_path_id hpct2]

/-- `path.Join(u.Host, u.Path)` is `path.Clean` of what was written after "unix://" -/
theorem pathJoin2_split {p : Bytes} (hne : p ≠ []) :
    pathJoin2 (p.takeWhile (· ≠ '/')) (p.dropWhile (· ≠ '/')) = pathClean p := by
  have hsplit : p.takeWhile (· ≠ '/') ++ p.dropWhile (· ≠ '/') = p := List.takeWhile_append_dropWhile
  unfold pathJoin2
  by_cases ha : p.takeWhile (· ≠ '/') = []
  · have hb : p.dropWhile (· ≠ '/') = p := by rw [ha] at hsplit; simpa using hsplit
    rw [if_neg (by rw [hb]; simp [hne]), if_pos ha, hb]
  · rw [if_neg (fun h => ha h.1), if_neg ha]
    have hsl : '/' ∉ p.takeWhile (· ≠ '/') := by
      intro hm; have := (mem_takeWhile hm).2; simp at this
    rw [pathClean_join ha hsl (dropWhile_pathLike p), hsplit]

/-! ## a cleaned path is path text -/

theorem mem_joinSlash {l : List Bytes} {c : Char} (h : c ∈ joinSlash l) :
    c = '/' ∨ ∃ s ∈ l, c ∈ s := by
  induction l with
  | nil => simp [joinSlash] at h
  | cons s ss ih =>
    cases ss with
    | nil => simp only [joinSlash] at h; exact Or.inr ⟨s, by simp, h⟩
    | cons s2 ss2 =>
      simp only [joinSlash, List.mem_append, List.mem_cons] at h
      rcases h with h | h | h
      · exact Or.inr ⟨s, by simp, h⟩
      · exact Or.inl h
      · rcases ih (by simpa [joinSlash] using h) with h | ⟨t, ht, hc⟩
        · exact Or.inl h
        · exact Or.inr ⟨t, by simp [ht], hc⟩

theorem relPath_text {q : Bytes} (h : isRelPath q = true) :
    ∀ c ∈ q, (segChar c || c = '/') = true := by
  intro c hc
  rw [← joinSlash_splitSlash q] at hc
  rcases mem_joinSlash hc with e | ⟨s, hs, hcs⟩
  · simp [e]
  · have := List.all_eq_true.mp h s hs
    simp only [isSegment, Bool.and_eq_true, List.all_eq_true] at this
    simp [this.1.1.2 c hcs]

theorem cleanPath_text {p : Bytes} (h : isCleanPath p = true) : isPathText p = true := by
  cases p with
  | nil => simp [isCleanPath] at h
  | cons c q =>
    simp only [isCleanPath] at h
    simp only [isPathText, Bool.and_eq_true, List.all_eq_true]
    refine ⟨by simp, ?_⟩
    by_cases hc : c = '/'
    · subst hc
      simp only [if_true] at h
      intro x hx
      rcases List.mem_cons.mp hx with rfl | hx
      · simp
      · exact relPath_text h x hx
    · rw [if_neg hc] at h
      exact relPath_text h

end Gnet.Proofs.Url
