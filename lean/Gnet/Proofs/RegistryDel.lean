/-
  `delConn` of the compacting matrix registry keeps the representation invariant.
-/
import Gnet.Proofs.RegistryInv
namespace Gnet.Proofs.Registry
open Gnet

/-! ### the backward scan -/

theorem scanCols_none (tr : Nat → Option Nat) (cmin : Int) : ∀ n : Nat,
    (∀ c : Nat, c < n → (c : Int) > cmin → tr c = none) → Matrix.scanCols tr cmin n = none
  | 0, _ => rfl
  | n + 1, h => by
    unfold Matrix.scanCols
    by_cases hn : (n : Int) > cmin
    · rw [if_pos hn, h n (by omega) hn]
      simp only [Option.isSome_none, Bool.false_eq_true, if_false]
      exact scanCols_none tr cmin n (fun c hc => h c (by omega))
    · rw [if_neg hn]

theorem scanCols_found (tr : Nat → Option Nat) (cmin : Int) (c : Nat) (hc : (c : Int) > cmin)
    (hs : (tr c).isSome) : ∀ n : Nat, c < n → (∀ c' : Nat, c < c' → c' < n → tr c' = none) →
    Matrix.scanCols tr cmin n = some c
  | 0, h, _ => by omega
  | n + 1, h, hn => by
    unfold Matrix.scanCols
    rw [if_pos (by omega)]
    by_cases e : c = n
    · subst e; rw [if_pos hs]
    · rw [hn n (by omega) (by omega)]
      simp only [Option.isSome_none, Bool.false_eq_true, if_false]
      exact scanCols_found tr cmin c hc hs n (by omega) (fun c' h1 h2 => hn c' h1 (by omega))

theorem scanRows_succ (m : Matrix) (r cl row : Nat) :
    Matrix.scanRows m r cl (row + 1) =
      if row ≥ r then
        if m.counts row = 0 then Matrix.scanRows m r cl row
        else
          if ((m.cols : Int) - 1 > (if row = r then (cl : Int) else -1)) then
            match m.table row with
            | none => none
            | some tr =>
              match Matrix.scanCols tr (if row = r then (cl : Int) else -1) m.cols with
              | some c => some (some (row, c))
              | none => Matrix.scanRows m r cl row
          else Matrix.scanRows m r cl row
      else some none := rfl

theorem scanRows_skip (m : Matrix) (r cl k : Nat) (hk : r ≤ k) : ∀ d,
    (∀ row, k ≤ row → row < k + d → m.counts row = 0) →
    Matrix.scanRows m r cl (k + d) = Matrix.scanRows m r cl k
  | 0, _ => rfl
  | d + 1, h => by
    show Matrix.scanRows m r cl ((k + d) + 1) = _
    rw [scanRows_succ, if_pos (show k + d ≥ r by omega), if_pos (h (k + d) (by omega) (by omega))]
    exact scanRows_skip m r cl k hk d (fun row h1 h2 => h row h1 (by omega))

theorem scanRows_below (m : Matrix) (r cl : Nat) : Matrix.scanRows m r cl r = some none := by
  cases r with
  | zero => rfl
  | succ r0 =>
    rw [scanRows_succ, if_neg (by omega)]

/-! ### `clearCell` as a total function on tables -/

def clearT (t : Nat → Option (Nat → Option Nat)) (zero : Bool) (r c : Nat) : Nat → Option (Nat → Option Nat) :=
  if zero then Matrix.upd t r none
  else match t r with
    | none => t
    | some tr => Matrix.upd t r (some (Matrix.upd tr c none))

theorem clearCell_eq (m : Matrix) (r c : Nat) (h : m.counts r ≠ 0 → (m.table r).isSome) :
    Matrix.clearCell m r c = some { m with table := clearT m.table (decide (m.counts r = 0)) r c } := by
  unfold Matrix.clearCell clearT
  by_cases hz : m.counts r = 0
  · simp [hz]
  · have := h hz
    cases ht : m.table r with
    | none => rw [ht] at this; cases this
    | some tr => simp [hz]

theorem cellT_clearT (t : Nat → Option (Nat → Option Nat)) (zero : Bool) (r c r' c' : Nat) :
    cellT (clearT t zero r c) r' c' =
      if zero then (if r' = r then none else cellT t r' c')
      else (if r' = r ∧ c' = c then none else cellT t r' c') := by
  unfold clearT
  cases zero with
  | true => simp only [if_true]; exact cellT_drop t r r' c'
  | false =>
    simp only [Bool.false_eq_true, if_false]
    cases ht : t r with
    | none =>
      show cellT t r' c' = _
      by_cases e : r' = r ∧ c' = c
      · rw [if_pos e, e.1]; unfold cellT; rw [ht]
      · rw [if_neg e]
    | some tr => exact cellT_upd_some t r tr ht c none r' c'

theorem clearT_isSome (t : Nat → Option (Nat → Option Nat)) (zero : Bool) (r c r' : Nat) :
    (clearT t zero r c r').isSome = if r' = r then (!zero && (t r).isSome) else (t r').isSome := by
  unfold clearT
  cases zero with
  | true =>
    simp only [if_true]
    by_cases e : r' = r
    · subst e; simp
    · rw [upd_other _ _ _ _ e, if_neg e]
  | false =>
    simp only [Bool.false_eq_true, if_false]
    cases ht : t r with
    | none =>
      show (t r').isSome = _
      by_cases e : r' = r
      · subst e; simp [ht]
      · rw [if_neg e]
    | some tr =>
      show (Matrix.upd t r (some (Matrix.upd tr c none)) r').isSome = _
      by_cases e : r' = r
      · subst e; simp
      · rw [upd_other _ _ _ _ e, if_neg e]

/-! ### `delConn` in pieces -/

/-- the part of `delConn` before the compaction -/
def delCore (m : Matrix) (id : Nat) : Matrix :=
  let c := m.objs id
  let m2 : Matrix := { m with
    fd2gfd := Matrix.updI m.fd2gfd c.fd none,
    counts := Matrix.upd m.counts c.grow (m.counts c.grow - 1),
    table := clearT m.table (decide (Matrix.upd m.counts c.grow (m.counts c.grow - 1) c.grow = 0)) c.grow c.gcol }
  if m2.row > c.grow ∨ m2.col > c.gcol then { m2 with row := c.grow, col := c.gcol } else m2

/-- moving the connection found at `(row, column)` into the hole `(r, cl)` -/
def relocate (m : Matrix) (r cl row column : Nat) : Option Matrix :=
  match m.table row with
  | none => none
  | some trow =>
    match trow column with
    | none => none
    | some mid =>
      let mc := m.objs mid
      let mc' : MConn := { mc with grow := r % 256, gcol := cl % 65536 }
      let m := { m with objs := Matrix.upd m.objs mid mc',
                        fd2gfd := Matrix.updI m.fd2gfd mc.fd (some (mc'.grow, mc'.gcol)) }
      match m.table r with
      | none => none
      | some tr =>
        let m := { m with table := Matrix.upd m.table r (some (Matrix.upd tr cl (some mid))) }
        let m := { m with counts := Matrix.upd m.counts row (m.counts row - 1) }
        let m := { m with counts := Matrix.upd m.counts r (m.counts r + 1) }
        match Matrix.clearCell m row column with
        | none => none
        | some m => some { m with row := row, col := column }

def compact (m : Matrix) (r cl : Nat) : Option Matrix :=
  match Matrix.scanRows m r cl m.rows with
  | none => none
  | some none => some m
  | some (some (row, column)) => relocate m r cl row column

theorem delConn_eq (m : Matrix) (id : Nat)
    (h : m.counts (m.objs id).grow - 1 ≠ 0 → (m.table (m.objs id).grow).isSome) :
    m.delConn id =
      if (delCore m id).disableCompact ∨ ((delCore m id).table (m.objs id).grow).isNone then some (delCore m id)
      else compact (delCore m id) (m.objs id).grow (m.objs id).gcol := by
  unfold Matrix.delConn
  dsimp only
  rw [clearCell_eq _ _ _ (by simpa using h)]
  rfl


theorem delCore_rows (m : Matrix) (id : Nat) : (delCore m id).rows = m.rows := by
  unfold delCore; dsimp only; split <;> rfl
theorem delCore_cols (m : Matrix) (id : Nat) : (delCore m id).cols = m.cols := by
  unfold delCore; dsimp only; split <;> rfl
theorem delCore_dc (m : Matrix) (id : Nat) : (delCore m id).disableCompact = m.disableCompact := by
  unfold delCore; dsimp only; split <;> rfl
theorem delCore_objs (m : Matrix) (id : Nat) : (delCore m id).objs = m.objs := by
  unfold delCore; dsimp only; split <;> rfl
theorem delCore_fd2gfd (m : Matrix) (id : Nat) :
    (delCore m id).fd2gfd = Matrix.updI m.fd2gfd (m.objs id).fd none := by
  unfold delCore; dsimp only; split <;> rfl
theorem delCore_counts (m : Matrix) (id : Nat) :
    (delCore m id).counts = Matrix.upd m.counts (m.objs id).grow (m.counts (m.objs id).grow - 1) := by
  unfold delCore; dsimp only; split <;> rfl
theorem delCore_table (m : Matrix) (id : Nat) :
    (delCore m id).table = clearT m.table (decide (m.counts (m.objs id).grow - 1 = 0))
      (m.objs id).grow (m.objs id).gcol := by
  unfold delCore; dsimp only; split <;> simp
theorem delCore_cursor (m : Matrix) (id : Nat) (h : m.row > (m.objs id).grow ∨ m.col > (m.objs id).gcol) :
    (delCore m id).row = (m.objs id).grow ∧ (delCore m id).col = (m.objs id).gcol := by
  unfold delCore; dsimp only; rw [if_pos h]; exact ⟨rfl, rfl⟩
theorem delCore_cursor_keep (m : Matrix) (id : Nat) (h : ¬ (m.row > (m.objs id).grow ∨ m.col > (m.objs id).gcol)) :
    (delCore m id).row = m.row ∧ (delCore m id).col = m.col := by
  unfold delCore; dsimp only; rw [if_neg h]; exact ⟨rfl, rfl⟩

/-! ### the last occupied cell -/

theorem last_exists (R C cols rows r cl : Nat) (hc2 : 1 < cols)
    (hcur : (R < rows ∧ C < cols) ∨ (R = rows ∧ C = 0)) (hocc : cl < hi R C cols r) :
    ∃ lr lc, (∀ r', hi lr lc cols r' = if r' = lr then hi R C cols r' - 1 else hi R C cols r') ∧
      lc + 1 = hi R C cols lr ∧ lr < rows ∧ lc < cols ∧
      (r < lr ∨ (r = lr ∧ cl ≤ lc)) ∧
      lr * cols + lc + 1 = R * cols + C ∧
      (∀ r', lr < r' → hi R C cols r' = 0) := by
  by_cases hC : C = 0
  · subst hC
    have hR : 0 < R := by rcases hi_spec R 0 cols r with a | a | a <;> omega
    obtain ⟨R', rfl⟩ : ∃ R', R = R' + 1 := ⟨R - 1, by omega⟩
    refine ⟨R', cols - 1, ?_, ?_, ?_, ?_, ?_, ?_, ?_⟩
    · intro r'
      by_cases e : r' = R'
      · rw [if_pos e]
        rcases hi_spec R' (cols - 1) cols r' with a | a | a <;>
          rcases hi_spec (R' + 1) 0 cols r' with b | b | b <;> omega
      · rw [if_neg e]
        rcases hi_spec R' (cols - 1) cols r' with a | a | a <;>
          rcases hi_spec (R' + 1) 0 cols r' with b | b | b <;> omega
    · rcases hi_spec (R' + 1) 0 cols R' with b | b | b <;> omega
    · omega
    · omega
    · rcases hi_spec (R' + 1) 0 cols r with b | b | b <;> omega
    · have := Nat.succ_mul R' cols
      simp only [Nat.succ_eq_add_one] at this
      omega
    · intro r' hr'
      rcases hi_spec (R' + 1) 0 cols r' with b | b | b <;> omega
  · refine ⟨R, C - 1, ?_, ?_, ?_, ?_, ?_, ?_, ?_⟩
    · intro r'
      by_cases e : r' = R
      · rw [if_pos e]
        rcases hi_spec R (C - 1) cols r' with a | a | a <;>
          rcases hi_spec R C cols r' with b | b | b <;> omega
      · rw [if_neg e]
        rcases hi_spec R (C - 1) cols r' with a | a | a <;>
          rcases hi_spec R C cols r' with b | b | b <;> omega
    · rcases hi_spec R C cols R with b | b | b <;> omega
    · omega
    · omega
    · rcases hi_spec R C cols r with b | b | b <;> omega
    · omega
    · intro r' hr'
      rcases hi_spec R C cols r' with b | b | b <;> omega

/-! ### the invariant after a removal, generically -/

theorem Inv.del_final {m : Matrix} {s : RegSpec} (h : Inv m s) (id : Nat) (hv : (s.fdOf id, id) ∈ s.live)
    (r cl lr lc mid : Nat) (hid : cell m r cl = some id) (hlast : cell m lr lc = some mid)
    (F1 : ∀ r', hi lr lc m.cols r' = if r' = lr then hi m.row m.col m.cols r' - 1 else hi m.row m.col m.cols r')
    (F2 : lc + 1 = hi m.row m.col m.cols lr)
    (F5 : lr * m.cols + lc + 1 = m.row * m.cols + m.col)
    (m' : Matrix)
    (e_rows : m'.rows = m.rows) (e_cols : m'.cols = m.cols) (e_dc : m'.disableCompact = false)
    (e_row : m'.row = lr) (e_col : m'.col = lc)
    (e_cell : ∀ r' c', cell m' r' c' =
      if r' = lr ∧ c' = lc then none else if r' = r ∧ c' = cl then some mid else cell m r' c')
    (e_alloc : ∀ r', (m'.table r').isSome ↔ 0 < hi lr lc m.cols r')
    (e_cnt : ∀ r', m'.counts r' = (hi lr lc m.cols r' : Nat))
    (e_fd : ∀ i, (m'.objs i).fd = (m.objs i).fd)
    (e_obj : ∀ i, i ≠ mid → m'.objs i = m.objs i)
    (e_mid : mid ≠ id → (m'.objs mid).grow = r ∧ (m'.objs mid).gcol = cl)
    (e_f2g : ∀ fd', m'.fd2gfd fd' =
      if fd' = s.fdOf id then none else if fd' = s.fdOf mid then some (r, cl) else m.fd2gfd fd') :
    Inv m' (s.step (.del id)) := by
  have hs' : SInv (s.step (.del id)) := h.sinv.step 0 _ hv
  have hlive' : (s.step (.del id)).live = s.live.filter (fun p => p.2 != id) := rfl
  have hmidlive : (s.fdOf mid, mid) ∈ s.live := (h.obj _ _ _ hlast).2.2
  have hcur := h.cur
  have hc2 := h.c2
  have hidpos := h.cell_pos hid
  -- if the removed cell is not the last one, the moved connection is another one
  have hne_of : ¬ (r = lr ∧ cl = lc) → mid ≠ id := by
    intro hn e
    rw [e] at hlast
    have := h.cell_inj hid hlast
    exact hn this
  have hfd_ne : ∀ {i j : Nat}, (s.fdOf i, i) ∈ s.live → (s.fdOf j, j) ∈ s.live → i ≠ j → s.fdOf i ≠ s.fdOf j := by
    intro i j hi hj hne e
    have := h.sinv.eq_of_fst hi hj e
    exact hne (congrArg Prod.snd this)
  refine ⟨by rw [e_cols]; exact h.c2, by rw [e_rows]; exact h.rle, by rw [e_cols]; exact h.cle, ?_, ?_, ?_, ?_,
    ?_, ?_, ?_, ?_, hs', ?_, e_dc⟩
  · rw [e_rows, e_cols, e_row, e_col]
    left
    rcases hi_spec m.row m.col m.cols lr with a | a | a <;> omega
  · intro r' c'
    rw [e_cell, e_row, e_col, e_cols, F1]
    by_cases e1 : r' = lr ∧ c' = lc
    · rw [if_pos e1, if_pos e1.1, e1.1, e1.2]; simp; omega
    · rw [if_neg e1]
      by_cases e2 : r' = r ∧ c' = cl
      · rw [if_pos e2, e2.1, e2.2]
        simp only [Option.isSome_some, true_iff]
        by_cases e3 : r = lr
        · rw [if_pos e3]
          have : cl ≠ lc := fun e4 => e1 ⟨e2.1.trans e3, e2.2.trans e4⟩
          rw [e3] at hidpos ⊢
          omega
        · rw [if_neg e3]; exact hidpos
      · rw [if_neg e2, h.dense]
        by_cases e3 : r' = lr
        · rw [if_pos e3, e3]
          have : c' ≠ lc := fun e4 => e1 ⟨e3, e4⟩
          omega
        · rw [if_neg e3]
  · intro r'
    rw [e_row, e_col, e_cols]
    exact e_alloc r'
  · intro r'
    rw [e_row, e_col, e_cols]
    exact e_cnt r'
  · intro r' c' i hc
    rw [e_cell] at hc
    rw [hlive']
    by_cases e1 : r' = lr ∧ c' = lc
    · rw [if_pos e1] at hc; cases hc
    · rw [if_neg e1] at hc
      by_cases e2 : r' = r ∧ c' = cl
      · rw [if_pos e2] at hc
        cases hc
        have hmne : mid ≠ id := hne_of (fun e3 => e1 ⟨e2.1.trans e3.1, e2.2.trans e3.2⟩)
        obtain ⟨a, b⟩ := e_mid hmne
        refine ⟨a.trans e2.1.symm, b.trans e2.2.symm, ?_⟩
        rw [List.mem_filter]
        exact ⟨hmidlive, by simpa using hmne⟩
      · rw [if_neg e2] at hc
        obtain ⟨a, b, d⟩ := h.obj _ _ _ hc
        have hi1 : i ≠ mid := by
          intro e3
          rw [e3] at hc
          exact e1 (h.cell_inj hc hlast)
        have hi2 : i ≠ id := by
          intro e3
          rw [e3] at hc
          exact e2 (h.cell_inj hc hid)
        rw [e_obj i hi1]
        refine ⟨a, b, ?_⟩
        rw [List.mem_filter]
        exact ⟨d, by simpa using hi2⟩
  · intro i
    rw [e_fd]; exact h.objfd i
  · intro p hp
    rw [hlive', List.mem_filter] at hp
    obtain ⟨hp, hpid⟩ := hp
    have hpid : p.2 ≠ id := by simpa using hpid
    have hpfd : s.fdOf p.2 = p.1 := h.sinv.fdof p hp
    have hp' : (s.fdOf p.2, p.2) ∈ s.live := by rw [hpfd]; exact hp
    have hk1 : p.1 ≠ s.fdOf id := by rw [← hpfd]; exact hfd_ne hp' hv hpid
    by_cases e1 : p.2 = mid
    · have hmne : mid ≠ id := e1 ▸ hpid
      have hpos : ¬ (r = lr ∧ cl = lc) := by
        rintro ⟨rfl, rfl⟩
        rw [hid] at hlast
        cases hlast
        exact hmne rfl
      refine ⟨r, cl, ?_, ?_⟩
      · rw [e_f2g, if_neg hk1, if_pos (by rw [← e1, hpfd])]
      · rw [e_cell, if_neg hpos, if_pos ⟨rfl, rfl⟩, e1]
    · obtain ⟨r', c', h1, h2⟩ := h.fwd p hp
      have hk2 : p.1 ≠ s.fdOf mid := by rw [← hpfd]; exact hfd_ne hp' hmidlive e1
      refine ⟨r', c', ?_, ?_⟩
      · rw [e_f2g, if_neg hk1, if_neg hk2]; exact h1
      · have n1 : ¬ (r' = lr ∧ c' = lc) := by
          rintro ⟨rfl, rfl⟩
          rw [h2] at hlast
          cases hlast
          exact e1 rfl
        have n2 : ¬ (r' = r ∧ c' = cl) := by
          rintro ⟨rfl, rfl⟩
          rw [h2] at hid
          cases hid
          exact hpid rfl
        rw [e_cell, if_neg n1, if_neg n2]; exact h2
  · intro fd' hfd'
    rw [hlive'] at hfd'
    rw [e_f2g]
    by_cases e1 : fd' = s.fdOf id
    · rw [if_pos e1]
    · rw [if_neg e1]
      have e2 : fd' ≠ s.fdOf mid := by
        intro e2
        by_cases e3 : mid = id
        · rw [e3] at e2; exact e1 e2
        · exact hfd' (s.fdOf mid, mid) (List.mem_filter.2 ⟨hmidlive, by simpa using e3⟩) e2.symm
      rw [if_neg e2]
      apply h.nokey
      intro p hp e3
      have hpfd : s.fdOf p.2 = p.1 := h.sinv.fdof p hp
      by_cases e4 : p.2 = id
      · rw [e4] at hpfd; exact e1 (e3.symm.trans hpfd.symm)
      · exact hfd' p (List.mem_filter.2 ⟨hp, by simpa using e4⟩) e3
  · rw [hlive', e_row, e_col, e_cols]
    have := filter_length h.sinv.pw hv
    have hl := h.len
    omega

/-! ### evaluating the compaction -/

theorem compact_none (m : Matrix) (r cl : Nat) (h : Matrix.scanRows m r cl m.rows = some none) :
    compact m r cl = some m := by
  unfold compact; rw [h]

theorem compact_some (m : Matrix) (r cl row column : Nat)
    (h : Matrix.scanRows m r cl m.rows = some (some (row, column))) :
    compact m r cl = relocate m r cl row column := by
  unfold compact; rw [h]

/-- the state after relocating `mid` from `(row, column)` into the hole `(r, cl)` -/
def relocState (m : Matrix) (r cl row column mid : Nat) (tr : Nat → Option Nat) : Matrix :=
  { m with
    objs := Matrix.upd m.objs mid { m.objs mid with grow := r % 256, gcol := cl % 65536 },
    fd2gfd := Matrix.updI m.fd2gfd (m.objs mid).fd (some (r % 256, cl % 65536)),
    table := clearT (Matrix.upd m.table r (some (Matrix.upd tr cl (some mid))))
      (decide (Matrix.upd (Matrix.upd m.counts row (m.counts row - 1)) r
        (Matrix.upd m.counts row (m.counts row - 1) r + 1) row = 0)) row column,
    counts := Matrix.upd (Matrix.upd m.counts row (m.counts row - 1)) r
        (Matrix.upd m.counts row (m.counts row - 1) r + 1),
    row := row, col := column }

theorem relocate_eq (m : Matrix) (r cl row column mid : Nat) (trow tr : Nat → Option Nat)
    (h1 : m.table row = some trow) (h2 : trow column = some mid) (h3 : m.table r = some tr)
    (h4 : Matrix.upd (Matrix.upd m.counts row (m.counts row - 1)) r
        (Matrix.upd m.counts row (m.counts row - 1) r + 1) row ≠ 0 →
      (Matrix.upd m.table r (some (Matrix.upd tr cl (some mid))) row).isSome) :
    relocate m r cl row column = some (relocState m r cl row column mid tr) := by
  unfold relocate
  simp only [h1, h2, h3]
  rw [clearCell_eq _ _ _ h4]
  rfl

theorem cellT_of_row {t : Nat → Option (Nat → Option Nat)} {r : Nat} {tr : Nat → Option Nat}
    (h : t r = some tr) (c : Nat) : tr c = cellT t r c := by
  unfold cellT; rw [h]

end Gnet.Proofs.Registry
