import Gnet.Model.StopOrder
namespace Gnet.Proofs.StopOrder
open Gnet.Engine Gnet.StopOrder

def nextPc : StopPc → StopPc
  | .waitCtx => .onShutdown | .onShutdown => .postSentinels | .postSentinels => .waitGroup
  | .waitGroup => .closeLoops | .closeLoops => .setFlag | .setFlag => .returned | .returned => .returned

def iter : Nat → StopPc → StopPc
  | 0, pc => pc
  | k + 1, pc => iter k (nextPc pc)

/-- one statement of the stopper, once the shutdown has been requested and every loop and the ticker have exited -/
theorem stopper_step (s : State) (hc : s.ctxCancelled = true) (he : allExited s = true) :
    (step s .stopper).stopPc = nextPc s.stopPc ∧ (step s .stopper).ctxCancelled = true ∧
    allExited (step s .stopper) = true := by
  obtain ⟨loops, ctx, ticker, pc, flag, trace, next⟩ := s
  simp only at hc
  subst hc
  cases pc <;> simp_all [step, nextPc, allExited, List.all_map, Function.comp_def]

theorem pcAfter_eq (k : Nat) (s : State) (hc : s.ctxCancelled = true) (he : allExited s = true) :
    pcAfter s k = iter k s.stopPc := by
  induction k generalizing s with
  | zero => rfl
  | succ k ih =>
    have h := stopper_step s hc he
    show (run (step s .stopper) (List.replicate k .stopper)).stopPc = iter k (nextPc s.stopPc)
    rw [← h.1]
    exact ih (step s .stopper) h.2.1 h.2.2

/-- ... the stopper runs through its statements in the order `order` and returns -/
theorem stopper_order (s : State) (h0 : s.stopPc = .waitCtx) (hc : s.ctxCancelled = true) (he : allExited s = true) :
    (List.range 7).map (pcAfter s) = order ++ [.returned] := by
  have e : ∀ k, pcAfter s k = iter k .waitCtx := fun k => h0 ▸ pcAfter_eq k s hc he
  simp [List.range, List.range.loop, e, iter, nextPc, order]

end Gnet.Proofs.StopOrder
