import Gnet.Model.Ring
import Gnet.Proofs.RingBasic
import Gnet.Proofs.RingRead
import Gnet.Proofs.RingWriteTo
import Gnet.Proofs.RingGrow
import Gnet.Proofs.RingWrite
import Gnet.Proofs.RingWriteByte
import Gnet.Proofs.RingReadFrom
set_option linter.unusedSectionVars false
namespace Gnet.Proofs.Ring
open Gnet
variable {α : Type} [Inhabited α]

theorem new_wf (n : Int) : (Ring.new n : Ring α).WF := new_wf_aux n
theorem new_abs (n : Int) : (Ring.new n : Ring α).abs = [] := new_abs_aux n
theorem counters (rb : Ring α) (h : rb.WF) :
    rb.buffered = rb.abs.length ∧ rb.buffered + rb.available = rb.cap ∧
    (rb.isEmpty = true ↔ rb.buffered = 0) ∧
    (rb.isFull = true ↔ (rb.buffered = rb.cap ∧ 0 < rb.cap)) := counters_aux rb h
theorem peek_prefix (rb : Ring α) (n : Int) (h : rb.WF) :
    rb.peekSafe n = true ∧
    (rb.peek n).1 ++ (rb.peek n).2 = (if n ≤ 0 then rb.abs else rb.abs.take n.toNat) :=
  peek_prefix_aux rb n h

theorem reset_spec (rb : Ring α) (h : rb.WF) : rb.reset.WF ∧ rb.reset.abs = [] := by
  refine ⟨⟨h.len_eq, ?_, ?_, fun _ => ⟨rfl, rfl⟩, fun _ => rfl⟩, rfl⟩
  · have := h.r_lt; simp only [Ring.reset]; omega
  · have := h.w_lt; simp only [Ring.reset]; omega

theorem step_refines (gen : Nat → α) (rb : Ring α) (pos : Nat) (op : Fifo.Op α) (h : rb.WF) :
    ∃ rb' pos' o, Ring.step gen (rb, pos) op = some ((rb', pos'), o) ∧ rb'.WF ∧
      Fifo.Step gen (rb.abs, pos) op (rb'.abs, pos') o := by
  cases op with
  | write p =>
    obtain ⟨h1, h2, h3⟩ := write_spec rb p h
    refine ⟨rb.write p, pos, ⟨p.length, .nil, []⟩, ?_, h2, ?_⟩
    · simp [Ring.step, h1]
    · rw [h3]; exact Fifo.Step.write _ _ _
  | writeByte c =>
    obtain ⟨h1, h2, h3⟩ := writeByte_spec rb c h
    refine ⟨rb.writeByte c, pos, ⟨1, .nil, []⟩, ?_, h2, ?_⟩
    · simp [Ring.step, h1]
    · rw [h3]; exact Fifo.Step.writeByte _ _ _
  | read n =>
    obtain ⟨h1, h2, h3, h4, h5⟩ := read_spec rb n h
    refine ⟨(rb.read n).1, pos, ⟨(rb.read n).2.1.length, (rb.read n).2.2, (rb.read n).2.1⟩, ?_, h2, ?_⟩
    · simp [Ring.step, h1]
    · rw [h3, h4, List.length_take]; exact Fifo.Step.read _ _ _ _ h5
  | readByte =>
    obtain ⟨h1, h2, h3, h4, h5⟩ := readByte_spec rb h
    refine ⟨rb.readByte.1, pos, ⟨rb.readByte.2.1.toList.length, rb.readByte.2.2, rb.readByte.2.1.toList⟩,
      ?_, h2, ?_⟩
    · simp [Ring.step, h1]
    · rw [h3, h4, List.length_take]
      refine Fifo.Step.readByte _ _ _ ?_
      rcases h5 with ⟨e, hl⟩ | ⟨e, hl⟩
      · rw [e]; simp; intro h0; rw [h0] at hl; simp at hl
      · rw [e, List.length_eq_zero_iff.mp hl]; simp
  | peek n =>
    obtain ⟨h1, h2⟩ := peek_prefix rb n h
    refine ⟨rb, pos, ⟨((rb.peek n).1 ++ (rb.peek n).2).length, .nil, (rb.peek n).1 ++ (rb.peek n).2⟩,
      ?_, h, ?_⟩
    · simp [Ring.step, h1]
    · rw [h2]
      by_cases hn : n ≤ 0
      · rw [if_pos hn]; exact Fifo.Step.peekAll _ _ _ hn
      · rw [if_neg hn, List.length_take]; exact Fifo.Step.peek _ _ _ (by omega)
  | discard n =>
    obtain ⟨h1, h2, h3, h4⟩ := discard_spec rb n h
    refine ⟨(rb.discard n).1, pos, ⟨(rb.discard n).2, .nil, []⟩, ?_, h2, ?_⟩
    · simp [Ring.step, h1]
    · rw [h3, h4]; exact Fifo.Step.discard _ _ _
  | bytes =>
    obtain ⟨h1, h2⟩ := bytes_spec rb h
    refine ⟨rb, pos, ⟨rb.bytes.length, .nil, rb.bytes⟩, ?_, h, ?_⟩
    · simp [Ring.step, h1]
    · rw [h2]; exact Fifo.Step.bytes _ _
  | readFrom sc =>
    obtain ⟨h1, h2, m, h3, h4, h5, h6⟩ := readFrom_spec gen sc rb pos 0 h
    refine ⟨(rb.readFrom gen pos 0 sc).1, (rb.readFrom gen pos 0 sc).2.2.2,
      ⟨(rb.readFrom gen pos 0 sc).2.1, (rb.readFrom gen pos 0 sc).2.2.1, []⟩, ?_, h2, ?_⟩
    · simp [Ring.step, h1]
    · rw [h3, h4, h5, Nat.zero_add]; exact Fifo.Step.readFrom _ _ _ _ _ h6
  | writeTo sc =>
    obtain ⟨h1, h2, h3, h4, h5, h6⟩ := writeTo_spec rb sc h
    refine ⟨(rb.writeTo sc).1, pos,
      ⟨(rb.writeTo sc).2.1, (rb.writeTo sc).2.2.1, (rb.writeTo sc).2.2.2.1⟩, ?_, h2, ?_⟩
    · simp [Ring.step, h1]
    · rw [h3, h4]; exact Fifo.Step.writeTo _ _ _ _ _ h5 h6
  | reset =>
    obtain ⟨h1, h2⟩ := reset_spec rb h
    refine ⟨rb.reset, pos, ⟨0, .nil, []⟩, rfl, h1, ?_⟩
    rw [h2]; exact Fifo.Step.reset _ _

theorem run_refines_from (gen : Nat → α) (ops : List (Fifo.Op α)) : ∀ (rb : Ring α) (pos : Nat), rb.WF →
    ∃ rb' pos' os, Ring.run gen (rb, pos) ops = some ((rb', pos'), os) ∧ rb'.WF ∧
      Fifo.Run gen (rb.abs, pos) ops os (rb'.abs, pos') := by
  induction ops with
  | nil => intro rb pos h; exact ⟨rb, pos, [], rfl, h, Fifo.Run.nil _⟩
  | cons op ops ih =>
    intro rb pos h
    obtain ⟨rb1, pos1, o, e1, w1, s1⟩ := step_refines gen rb pos op h
    obtain ⟨rb2, pos2, os, e2, w2, s2⟩ := ih rb1 pos1 w1
    refine ⟨rb2, pos2, o :: os, ?_, w2, Fifo.Run.cons _ _ _ _ _ _ _ s1 s2⟩
    simp [Ring.run, e1, e2]

theorem run_refines (gen : Nat → α) (n : Int) (ops : List (Fifo.Op α)) :
    ∃ rb' pos' os, Ring.run gen (Ring.new n, 0) ops = some ((rb', pos'), os) ∧ rb'.WF ∧
      Fifo.Run gen ([], 0) ops os (rb'.abs, pos') := by
  have := run_refines_from gen ops (Ring.new n : Ring α) 0 (new_wf n)
  rwa [new_abs] at this
end Gnet.Proofs.Ring
