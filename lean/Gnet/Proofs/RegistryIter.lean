/-
  `iterate` of the matrix registry: the visited connections are a permutation of the live
  ones; with removal of each visited connection the registry ends up empty and reusable.
-/
import Gnet.Proofs.RegistryDel2
namespace Gnet.Proofs.Registry
open Gnet

/-- how `iterLoop` reads a cell -/
def readCell (snap : Nat → Option (Nat → Option Nat)) (m : Matrix) (r c : Nat) : Option Nat :=
  match snap r with
  | none => none
  | some str => match m.table r with
    | some tr => tr c
    | none => str c

theorem iterLoop_nil (del : Bool) (k : Nat) (m : Matrix) (snap : Nat → Option (Nat → Option Nat))
    (acc : List Nat) : Matrix.iterLoop del k [] m snap acc = some (m, acc.reverse) := by
  rw [Matrix.iterLoop]

theorem iterLoop_cons (del : Bool) (k r c : Nat) (rest : List (Nat × Nat)) (m : Matrix)
    (snap : Nat → Option (Nat → Option Nat)) (acc : List Nat) :
    Matrix.iterLoop del k ((r, c) :: rest) m snap acc =
      match readCell snap m r c with
      | none => Matrix.iterLoop del k rest m snap acc
      | some id =>
        match (if del then m.delConn id else some m) with
        | none => none
        | some m' =>
          if k ≠ 0 ∧ (id :: acc).length ≥ k then some (m', (id :: acc).reverse)
          else Matrix.iterLoop del k rest m' snap (id :: acc) := by
  rw [Matrix.iterLoop]
  rfl

theorem iterLoop_cons_none (del : Bool) (k r c : Nat) (rest : List (Nat × Nat)) (m : Matrix)
    (snap : Nat → Option (Nat → Option Nat)) (acc : List Nat) (h : readCell snap m r c = none) :
    Matrix.iterLoop del k ((r, c) :: rest) m snap acc = Matrix.iterLoop del k rest m snap acc := by
  rw [iterLoop_cons, h]

theorem iterLoop_cons_some (del : Bool) (r c : Nat) (rest : List (Nat × Nat)) (m m' : Matrix)
    (snap : Nat → Option (Nat → Option Nat)) (acc : List Nat) (id : Nat) (h : readCell snap m r c = some id)
    (hd : (if del then m.delConn id else some m) = some m') :
    Matrix.iterLoop del 0 ((r, c) :: rest) m snap acc = Matrix.iterLoop del 0 rest m' snap (id :: acc) := by
  rw [iterLoop_cons, h]
  dsimp only
  rw [hd]
  simp

/-- the ids found when walking a list of cells of `m` -/
def visit (m : Matrix) (l : List (Nat × Nat)) : List Nat := l.filterMap (fun p => cell m p.1 p.2)

theorem readCell_self (m : Matrix) (t : Nat → Option (Nat → Option Nat)) (ht : m.table = t) (r c : Nat) :
    readCell t m r c = cellT t r c := by
  unfold readCell cellT
  rw [ht]
  cases t r <;> rfl

/-! ### plain iteration -/

theorem iterLoop_false (m : Matrix) : ∀ (l : List (Nat × Nat)) (acc : List Nat),
    Matrix.iterLoop false 0 l m m.table acc = some (m, acc.reverse ++ visit m l)
  | [], acc => by rw [iterLoop_nil]; simp [visit]
  | (r, c) :: rest, acc => by
    have hread := readCell_self m m.table rfl r c
    cases hc : cellT m.table r c with
    | none =>
      rw [hc] at hread
      rw [iterLoop_cons_none _ _ _ _ _ _ _ _ hread, iterLoop_false m rest acc]
      have : visit m ((r, c) :: rest) = visit m rest := by
        have hc' : cell m r c = none := hc
        unfold visit
        simp only [List.filterMap_cons, hc']
      rw [this]
    | some id =>
      rw [hc] at hread
      rw [iterLoop_cons_some false r c rest m m _ acc id hread (by simp), iterLoop_false m rest (id :: acc)]
      have : visit m ((r, c) :: rest) = id :: visit m rest := by
        have hc' : cell m r c = some id := hc
        unfold visit
        simp only [List.filterMap_cons, hc']
      rw [this]
      simp

theorem cells_nodup (m : Matrix) : m.cells.Nodup := by
  unfold Matrix.cells List.Nodup
  rw [List.pairwise_flatMap]
  constructor
  · intro r _
    rw [List.pairwise_map]
    exact (List.nodup_range (n := m.cols)).imp (fun hab e => hab (by cases e; rfl))
  · refine (List.nodup_range (n := m.rows)).imp ?_
    intro r1 r2 hne x hx y hy e
    rw [List.mem_map] at hx hy
    obtain ⟨c1, _, rfl⟩ := hx
    obtain ⟨c2, _, e2⟩ := hy
    rw [← e2] at e
    cases e
    exact hne rfl

theorem mem_cells (m : Matrix) (r c : Nat) : (r, c) ∈ m.cells ↔ r < m.rows ∧ c < m.cols := by
  unfold Matrix.cells
  rw [List.mem_flatMap]
  constructor
  · rintro ⟨r', hr', hm⟩
    rw [List.mem_map] at hm
    obtain ⟨c', hc', e⟩ := hm
    cases e
    exact ⟨List.mem_range.1 hr', List.mem_range.1 hc'⟩
  · rintro ⟨hr, hc⟩
    exact ⟨r, List.mem_range.2 hr, List.mem_map.2 ⟨c, List.mem_range.2 hc, rfl⟩⟩

/-- walking all cells finds every live connection exactly once -/
theorem Inv.visit_perm {m : Matrix} {s : RegSpec} (h : Inv m s) :
    (visit m m.cells).Perm (s.live.map (·.2)) := by
  rw [List.perm_ext_iff_of_nodup]
  · intro id
    unfold visit
    rw [List.mem_filterMap, List.mem_map]
    constructor
    · rintro ⟨p, _, hc⟩
      exact ⟨(s.fdOf id, id), (h.obj _ _ _ hc).2.2, rfl⟩
    · rintro ⟨p, hp, rfl⟩
      obtain ⟨r, c, _, h2⟩ := h.fwd p hp
      have hb := h.cell_bounds h2
      exact ⟨(r, c), (mem_cells m r c).2 ⟨hb.1, hb.2.1⟩, h2⟩
  · unfold visit List.Nodup
    refine List.Pairwise.filterMap _ ?_ (cells_nodup m)
    intro a a' hne b hb b' hb' e
    rw [e] at hb
    have := h.cell_inj hb hb'
    exact hne (Prod.ext this.1 this.2)
  · exact h.sinv.ids_nodup

theorem Inv.iter_false {m : Matrix} {s : RegSpec} (h : Inv m s) :
    ∃ ids, m.iterate false 0 = some (m, ids) ∧ ids.Perm (s.live.map (·.2)) := by
  refine ⟨visit m m.cells, ?_, h.visit_perm⟩
  unfold Matrix.iterate
  dsimp only
  have := iterLoop_false { m with disableCompact := true } m.cells []
  have e : Matrix.iterLoop false 0 (Matrix.cells { m with disableCompact := true })
      { m with disableCompact := true } m.table [] = some ({ m with disableCompact := true }, visit m m.cells) := by
    exact this
  rw [e]
  dsimp only
  have hdc := h.dc
  cases m
  simp only at hdc
  subst hdc
  rfl

end Gnet.Proofs.Registry
