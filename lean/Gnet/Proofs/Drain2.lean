import Gnet.Model.Drain2
namespace Gnet.Proofs.Drain2
open Gnet.Drain2

/-! ### rearrangements of the four lists -/

theorem perm_of_count {l₁ l₂ : List Nat} (h : ∀ a, l₁.count a = l₂.count a) : l₁.Perm l₂ :=
  List.perm_iff_count.2 h

theorem eq_abortU (ran ab q qN : List Nat) (t : Nat) :
    ran ++ (ab ++ [t]) ++ q ++ qN = ran ++ ab ++ t :: q ++ qN := by
  simp [List.append_assoc]

theorem perm_abortN (ran ab qU q : List Nat) (t : Nat) :
    (ran ++ (ab ++ [t]) ++ qU ++ q).Perm (ran ++ ab ++ qU ++ t :: q) := by
  apply perm_of_count; intro a
  simp only [List.count_append, List.count_cons, List.count_nil]; omega

theorem perm_runU (ran ab q qN : List Nat) (t : Nat) :
    (ran ++ [t] ++ ab ++ q ++ qN).Perm (ran ++ ab ++ t :: q ++ qN) := by
  apply perm_of_count; intro a
  simp only [List.count_append, List.count_cons, List.count_nil]; omega

theorem perm_runN (ran ab qU q : List Nat) (t : Nat) :
    (ran ++ [t] ++ ab ++ qU ++ q).Perm (ran ++ ab ++ qU ++ t :: q) := by
  apply perm_of_count; intro a
  simp only [List.count_append, List.count_cons, List.count_nil]; omega

theorem perm_enqU (ran ab qU qN : List Nat) (n : Nat) :
    (ran ++ ab ++ (qU ++ [n]) ++ qN).Perm (ran ++ ab ++ qU ++ qN ++ [n]) := by
  apply perm_of_count; intro a
  simp only [List.count_append, List.count_cons, List.count_nil]; omega

theorem eq_enqN (ran ab qU qN : List Nat) (n : Nat) :
    ran ++ ab ++ qU ++ (qN ++ [n]) = ran ++ ab ++ qU ++ qN ++ [n] := by
  simp [List.append_assoc]

/-! ### the program counters of the producers under `List.set` -/

theorem get_set_self {l : List ProdPc} {p : Nat} {y z : ProdPc} (hp : l[p]? = some y) :
    (l.set p z)[p]? = some z := by
  have hplt : p < l.length := (List.getElem?_eq_some_iff.1 hp).1
  rw [List.getElem?_set]
  simp [hplt]

theorem get_set_other {l : List ProdPc} {p q : Nat} {x y z : ProdPc} (hp : l[p]? = some y)
    (hq : l[q]? = some x) (hne : x ≠ y) : (l.set p z)[q]? = some x := by
  have hpq : p ≠ q := by
    intro e
    subst e
    rw [hp] at hq
    exact hne (Option.some.inj hq).symm
  rw [List.getElem?_set_ne hpq]
  exact hq

theorem get_of_set {l : List ProdPc} {p q : Nat} {x z : ProdPc} (h : (l.set p z)[q]? = some x) :
    x = z ∨ l[q]? = some x := by
  by_cases hpq : p = q
  · subst hpq
    rw [List.getElem?_set] at h
    simp only [if_true] at h
    split at h
    · left; exact (Option.some.inj h).symm
    · cases h
  · rw [List.getElem?_set_ne hpq] at h
    exact Or.inr h

/-- some producer is still going to look at the urgent queue -/
def PU (prods : List ProdPc) : Prop :=
  ∃ p : Nat, prods[p]? = some ProdPc.enqueued ∨ prods[p]? = some ProdPc.drainU

/-- some producer is still going to look at the other queue -/
def PN (prods : List ProdPc) : Prop :=
  ∃ p : Nat, prods[p]? = some ProdPc.enqueued ∨ prods[p]? = some ProdPc.drainU ∨ prods[p]? = some ProdPc.drainN

/-- the inductive invariant of the two-queue drain-and-abort protocol -/
structure Inv (s : State) : Prop where
  perm : (s.ran ++ s.aborted ++ s.qU ++ s.qN).Perm (List.range s.next)
  ex : s.exited = true ↔ (s.loop = .drainU ∨ s.loop = .drainN ∨ s.loop = .done)
  watchU : s.qU ≠ [] → (s.loop = .polling ∨ s.loop = .leaving ∨ s.loop = .drainU ∨ PU s.prods)
  watchN : s.qN ≠ [] → (s.loop ≠ .done ∨ PN s.prods)
  noAbort : s.exited = false → s.aborted = []
  prodEx : ∀ p : Nat, (s.prods[p]? = some ProdPc.drainU ∨ s.prods[p]? = some ProdPc.drainN) → s.exited = true

theorem inv_init (n : Nat) : Inv (init n) := by
  refine ⟨?_, ?_, ?_, ?_, ?_, ?_⟩
  · simp [init]
  · simp [init]
  · simp [init]
  · simp [init]
  · simp [init]
  · intro p hp
    simp only [init] at hp
    rcases hp with hp | hp
    · have := List.mem_of_getElem? hp
      rw [List.mem_replicate] at this
      exact absurd this.2 (by decide)
    · have := List.mem_of_getElem? hp
      rw [List.mem_replicate] at this
      exact absurd this.2 (by decide)

/-- removing the head of the urgent queue and aborting it -/
theorem inv_abortU (s : State) (t : Nat) (q : List Nat) (hq : s.qU = t :: q) (h : Inv s)
    (hex : s.exited = true)
    (hw : s.loop = .polling ∨ s.loop = .leaving ∨ s.loop = .drainU ∨ PU s.prods) :
    Inv { s with qU := q, aborted := s.aborted ++ [t] } := by
  have hperm := h.perm
  rw [hq] at hperm
  refine ⟨?_, h.ex, fun _ => hw, h.watchN, ?_, h.prodEx⟩
  · show (s.ran ++ (s.aborted ++ [t]) ++ q ++ s.qN).Perm (List.range s.next)
    rw [eq_abortU]; exact hperm
  · intro he
    have he' : s.exited = false := he
    rw [hex] at he'
    exact Bool.noConfusion he'

/-- removing the head of the other queue and aborting it -/
theorem inv_abortN (s : State) (t : Nat) (q : List Nat) (hq : s.qN = t :: q) (h : Inv s)
    (hex : s.exited = true) (hw : s.loop ≠ .done ∨ PN s.prods) :
    Inv { s with qN := q, aborted := s.aborted ++ [t] } := by
  have hperm := h.perm
  rw [hq] at hperm
  refine ⟨?_, h.ex, h.watchU, fun _ => hw, ?_, h.prodEx⟩
  · show (s.ran ++ (s.aborted ++ [t]) ++ s.qU ++ q).Perm (List.range s.next)
    exact (perm_abortN _ _ _ _ _).trans hperm
  · intro he
    have he' : s.exited = false := he
    rw [hex] at he'
    exact Bool.noConfusion he'

theorem inv_loopRunU (s : State) (h : Inv s) : Inv (step s .loopRunU) := by
  simp only [step]
  split
  · rename_i hl
    split
    · rename_i t q hq
      have hperm := h.perm
      rw [hq] at hperm
      refine ⟨?_, h.ex, ?_, ?_, h.noAbort, h.prodEx⟩
      · show (s.ran ++ [t] ++ s.aborted ++ q ++ s.qN).Perm (List.range s.next)
        exact (perm_runU _ _ _ _ _).trans hperm
      · intro _; exact Or.inl hl
      · intro _; left
        show s.loop ≠ .done
        rw [hl]; decide
    · exact h
  · exact h

theorem inv_loopRunN (s : State) (h : Inv s) : Inv (step s .loopRunN) := by
  simp only [step]
  split
  · rename_i hl
    split
    · rename_i t q hq
      have hperm := h.perm
      rw [hq] at hperm
      refine ⟨?_, h.ex, ?_, ?_, h.noAbort, h.prodEx⟩
      · show (s.ran ++ [t] ++ s.aborted ++ s.qU ++ q).Perm (List.range s.next)
        exact (perm_runN _ _ _ _ _).trans hperm
      · intro _; exact Or.inl hl
      · intro _; left
        show s.loop ≠ .done
        rw [hl]; decide
    · exact h
  · exact h

theorem inv_loopLeave (s : State) (h : Inv s) : Inv (step s .loopLeave) := by
  simp only [step]
  split
  · rename_i hl
    refine ⟨h.perm, ?_, ?_, ?_, h.noAbort, h.prodEx⟩
    · show s.exited = true ↔ (LoopPc.leaving = .drainU ∨ LoopPc.leaving = .drainN ∨ LoopPc.leaving = .done)
      have := h.ex
      rw [hl] at this
      simpa using this
    · intro _; exact Or.inr (Or.inl rfl)
    · intro _; left; show LoopPc.leaving ≠ .done; decide
  · exact h

theorem inv_loopSetExited (s : State) (h : Inv s) : Inv (step s .loopSetExited) := by
  simp only [step]
  split
  · refine ⟨h.perm, ?_, ?_, ?_, ?_, ?_⟩
    · show true = true ↔ (LoopPc.drainU = .drainU ∨ LoopPc.drainU = .drainN ∨ LoopPc.drainU = .done)
      simp
    · intro _; exact Or.inr (Or.inr (Or.inl rfl))
    · intro _; left; show LoopPc.drainU ≠ .done; decide
    · intro he
      exact Bool.noConfusion (he : true = false)
    · intro _ _; rfl
  · exact h

theorem inv_loopDrain (s : State) (h : Inv s) : Inv (step s .loopDrain) := by
  simp only [step]
  split
  · rename_i hl
    have hex : s.exited = true := h.ex.2 (Or.inl hl)
    split
    · rename_i t q hq
      exact inv_abortU s t q hq h hex (Or.inr (Or.inr (Or.inl hl)))
    · rename_i hq
      refine ⟨h.perm, ?_, ?_, ?_, h.noAbort, h.prodEx⟩
      · show s.exited = true ↔ (LoopPc.drainN = .drainU ∨ LoopPc.drainN = .drainN ∨ LoopPc.drainN = .done)
        rw [hex]; simp
      · intro hne; exact absurd hq hne
      · intro _; left; show LoopPc.drainN ≠ .done; decide
  · split
    · rename_i hl
      have hex : s.exited = true := h.ex.2 (Or.inr (Or.inl hl))
      split
      · rename_i t q hq
        exact inv_abortN s t q hq h hex (Or.inl (by rw [hl]; decide))
      · rename_i hq
        refine ⟨h.perm, ?_, ?_, ?_, h.noAbort, h.prodEx⟩
        · show s.exited = true ↔ (LoopPc.done = .drainU ∨ LoopPc.done = .drainN ∨ LoopPc.done = .done)
          rw [hex]; simp
        · intro hne
          have hne' : s.qU ≠ [] := hne
          rcases h.watchU hne' with hw | hw | hw | hw
          · rw [hl] at hw; exact LoopPc.noConfusion hw
          · rw [hl] at hw; exact LoopPc.noConfusion hw
          · rw [hl] at hw; exact LoopPc.noConfusion hw
          · exact Or.inr (Or.inr (Or.inr hw))
        · intro hne; exact absurd hq hne
    · exact h

theorem inv_enqueue (s : State) (p : Nat) (urgent : Bool) (h : Inv s) : Inv (step s (.enqueue p urgent)) := by
  simp only [step]
  split
  · rename_i hp
    have hself : (s.prods.set p ProdPc.enqueued)[p]? = some ProdPc.enqueued := get_set_self hp
    have hpe : ∀ q : Nat, ((s.prods.set p ProdPc.enqueued)[q]? = some ProdPc.drainU ∨
        (s.prods.set p ProdPc.enqueued)[q]? = some ProdPc.drainN) → s.exited = true := by
      intro q hq
      rcases hq with hq | hq
      · rcases get_of_set hq with e | e
        · exact ProdPc.noConfusion e
        · exact h.prodEx q (Or.inl e)
      · rcases get_of_set hq with e | e
        · exact ProdPc.noConfusion e
        · exact h.prodEx q (Or.inr e)
    cases urgent with
    | true =>
      simp only [if_true]
      refine ⟨?_, h.ex, ?_, ?_, h.noAbort, hpe⟩
      · show (s.ran ++ s.aborted ++ (s.qU ++ [s.next]) ++ s.qN).Perm (List.range (s.next + 1))
        rw [List.range_succ]
        exact (perm_enqU _ _ _ _ _).trans (List.Perm.append_right _ h.perm)
      · intro _
        exact Or.inr (Or.inr (Or.inr ⟨p, Or.inl hself⟩))
      · intro _
        exact Or.inr ⟨p, Or.inl hself⟩
    | false =>
      simp only [Bool.false_eq_true, if_false]
      refine ⟨?_, h.ex, ?_, ?_, h.noAbort, hpe⟩
      · show (s.ran ++ s.aborted ++ s.qU ++ (s.qN ++ [s.next])).Perm (List.range (s.next + 1))
        rw [List.range_succ, eq_enqN]
        exact List.Perm.append_right _ h.perm
      · intro _
        exact Or.inr (Or.inr (Or.inr ⟨p, Or.inl hself⟩))
      · intro _
        exact Or.inr ⟨p, Or.inl hself⟩
  · exact h

theorem inv_load (s : State) (p : Nat) (h : Inv s) : Inv (step s (.load p)) := by
  simp only [step]
  split
  · rename_i hp
    by_cases hex : s.exited = true
    · rw [if_pos hex]
      have hself : (s.prods.set p ProdPc.drainU)[p]? = some ProdPc.drainU := get_set_self hp
      refine ⟨h.perm, h.ex, ?_, ?_, h.noAbort, fun _ _ => hex⟩
      · intro _
        exact Or.inr (Or.inr (Or.inr ⟨p, Or.inr hself⟩))
      · intro _
        exact Or.inr ⟨p, Or.inr (Or.inl hself)⟩
    · rw [if_neg hex]
      have hloop : s.loop = .polling ∨ s.loop = .leaving := by
        have hn : ¬ (s.loop = .drainU ∨ s.loop = .drainN ∨ s.loop = .done) := fun hc => hex (h.ex.2 hc)
        cases hl : s.loop with
        | polling => exact Or.inl rfl
        | leaving => exact Or.inr rfl
        | drainU => exact absurd (Or.inl hl) hn
        | drainN => exact absurd (Or.inr (Or.inl hl)) hn
        | done => exact absurd (Or.inr (Or.inr hl)) hn
      refine ⟨h.perm, h.ex, ?_, ?_, h.noAbort, ?_⟩
      · intro _
        show s.loop = .polling ∨ s.loop = .leaving ∨ s.loop = .drainU ∨ _
        rcases hloop with hl | hl
        · exact Or.inl hl
        · exact Or.inr (Or.inl hl)
      · intro _
        left
        show s.loop ≠ .done
        rcases hloop with hl | hl <;> rw [hl] <;> decide
      · intro q hq
        have hq' : (s.prods.set p ProdPc.idle)[q]? = some ProdPc.drainU ∨
            (s.prods.set p ProdPc.idle)[q]? = some ProdPc.drainN := hq
        rcases hq' with hq' | hq'
        · rcases get_of_set hq' with e | e
          · exact ProdPc.noConfusion e
          · exact h.prodEx q (Or.inl e)
        · rcases get_of_set hq' with e | e
          · exact ProdPc.noConfusion e
          · exact h.prodEx q (Or.inr e)
  · exact h

theorem inv_prodDrain (s : State) (p : Nat) (h : Inv s) : Inv (step s (.prodDrain p)) := by
  simp only [step]
  split
  · rename_i hp
    have hex : s.exited = true := h.prodEx p (Or.inl hp)
    split
    · rename_i t q hq
      exact inv_abortU s t q hq h hex (Or.inr (Or.inr (Or.inr ⟨p, Or.inr hp⟩)))
    · rename_i hq
      have hself : (s.prods.set p ProdPc.drainN)[p]? = some ProdPc.drainN := get_set_self hp
      refine ⟨h.perm, h.ex, ?_, ?_, h.noAbort, fun _ _ => hex⟩
      · intro hne; exact absurd hq hne
      · intro _
        exact Or.inr ⟨p, Or.inr (Or.inr hself)⟩
  · split
    · rename_i hp
      have hex : s.exited = true := h.prodEx p (Or.inr hp)
      split
      · rename_i t q hq
        exact inv_abortN s t q hq h hex (Or.inr ⟨p, Or.inr (Or.inr hp)⟩)
      · rename_i hq
        refine ⟨h.perm, h.ex, ?_, ?_, h.noAbort, fun _ _ => hex⟩
        · intro hne
          have hne' : s.qU ≠ [] := hne
          show s.loop = .polling ∨ s.loop = .leaving ∨ s.loop = .drainU ∨ PU (s.prods.set p ProdPc.idle)
          rcases h.watchU hne' with hw | hw | hw | ⟨r, hr | hr⟩
          · exact Or.inl hw
          · exact Or.inr (Or.inl hw)
          · exact Or.inr (Or.inr (Or.inl hw))
          · exact Or.inr (Or.inr (Or.inr ⟨r, Or.inl (get_set_other hp hr (by decide))⟩))
          · exact Or.inr (Or.inr (Or.inr ⟨r, Or.inr (get_set_other hp hr (by decide))⟩))
        · intro hne; exact absurd hq hne
    · exact h

theorem inv_step (s : State) (a : Step) (h : Inv s) : Inv (step s a) := by
  cases a with
  | loopRunU => exact inv_loopRunU s h
  | loopRunN => exact inv_loopRunN s h
  | loopLeave => exact inv_loopLeave s h
  | loopSetExited => exact inv_loopSetExited s h
  | loopDrain => exact inv_loopDrain s h
  | enqueue p urgent => exact inv_enqueue s p urgent h
  | load p => exact inv_load s p h
  | prodDrain p => exact inv_prodDrain s p h

theorem inv_run (steps : List Step) : ∀ s : State, Inv s → Inv (run s steps) := by
  induction steps with
  | nil => intro s h; exact h
  | cons a rest ih => intro s h; exact ih (step s a) (inv_step s a h)

theorem inv_reachable (s : State) (h : Reachable s) : Inv s := by
  rcases h with ⟨n, steps, rfl⟩
  exact inv_run steps (init n) (inv_init n)

theorem partition (s : State) (h : Reachable s) :
    (s.ran ++ s.aborted ++ s.qU ++ s.qN).Perm (List.range s.next) :=
  (inv_reachable s h).perm

theorem nothing_stranded (s : State) (h : Reachable s) (hq : Quiescent s = true) : s.qU = [] ∧ s.qN = [] := by
  have inv := inv_reachable s h
  unfold Quiescent at hq
  rw [Bool.and_eq_true] at hq
  rcases hq with ⟨hdone, hall⟩
  have hdone' : s.loop = .done := by simpa using hdone
  rw [List.all_eq_true] at hall
  have hidle : ∀ (r : Nat) (x : ProdPc), s.prods[r]? = some x → x ≠ .idle → False := by
    intro r x hr hx
    have := hall _ (List.mem_of_getElem? hr)
    exact hx (by simpa using this)
  constructor
  · apply Classical.byContradiction
    intro hne
    rcases inv.watchU hne with hl | hl | hl | ⟨r, hr | hr⟩
    · rw [hdone'] at hl; exact LoopPc.noConfusion hl
    · rw [hdone'] at hl; exact LoopPc.noConfusion hl
    · rw [hdone'] at hl; exact LoopPc.noConfusion hl
    · exact hidle r _ hr (by decide)
    · exact hidle r _ hr (by decide)
  · apply Classical.byContradiction
    intro hne
    rcases inv.watchN hne with hl | ⟨r, hr | hr | hr⟩
    · exact hl hdone'
    · exact hidle r _ hr (by decide)
    · exact hidle r _ hr (by decide)
    · exact hidle r _ hr (by decide)

theorem all_settled (s : State) (h : Reachable s) (hq : Quiescent s = true) :
    (s.ran ++ s.aborted).Perm (List.range s.next) := by
  have hp := partition s h
  rcases nothing_stranded s h hq with ⟨hU, hN⟩
  rw [hU, hN, List.append_nil, List.append_nil] at hp
  exact hp

theorem no_abort_before_exit (s : State) (h : Reachable s) (he : s.exited = false) : s.aborted = [] :=
  (inv_reachable s h).noAbort he

end Gnet.Proofs.Drain2
