/-
  Helper lemmas for the model of url.Parse (Gnet/Model/Url.lean): character classes, the
  splitting functions, `unescape` and `getScheme` on plain text.
-/
import Gnet.Model.Url
namespace Gnet.Proofs.Url
open Gnet Gnet.Url

theorem charEq (c d : Char) : c = d ↔ c.toNat = d.toNat := by
  constructor
  · intro h; rw [h]
  · intro h; exact Char.ext (UInt32.toNat_inj.mp h)

theorem charLe (c d : Char) : c ≤ d ↔ c.toNat ≤ d.toNat := by
  rw [Char.le_def, UInt32.le_iff_toNat_le]; rfl

/-- turn every fact about character classes into linear arithmetic over `c.toNat` -/
macro "char_arith" : tactic => `(tactic|
  (simp only [isLower, isUpper, isAlpha, isDigit, isAlnum, isHex, isCTL, hostSubDelim, isMark,
      isReserved, nameChar, hexColonChar, zoneChar, segChar, validUserinfoChar,
      charLe, charEq, Char.reduceToNat, Bool.and_eq_true, Bool.or_eq_true, Bool.or_eq_false_iff,
      Bool.and_eq_false_iff, Bool.not_eq_true', decide_eq_true_eq, decide_eq_false_iff_not, ne_eq,
      Bool.decide_eq_true, Bool.decide_eq_false] at *
   <;> omega))

/-- the characters all our well-formed addresses are made of, apart from '/' and '%' -/
def plain (c : Char) : Bool :=
  isLower c || isDigit c || c = '.' || c = '-' || c = '_' || c = ':' || c = '[' || c = ']'

theorem plain_of_name {c} (h : nameChar c = true) : plain c = true := by
  unfold plain; char_arith
theorem plain_of_hexColon {c} (h : hexColonChar c = true) : plain c = true := by
  unfold plain; char_arith
theorem plain_of_zone {c} (h : zoneChar c = true) : plain c = true := by
  unfold plain; char_arith
theorem plain_of_seg {c} (h : segChar c = true) : plain c = true := by
  unfold plain; char_arith
theorem plain_of_digit {c} (h : isDigit c = true) : plain c = true := by
  unfold plain; char_arith
theorem plain_of_lower {c} (h : isLower c = true) : plain c = true := by
  unfold plain; char_arith

theorem plain_notCTL {c} (h : plain c = true) : isCTL c = false := by
  unfold plain at h; char_arith
theorem plain_ne {c} (h : plain c = true) :
    c ≠ '%' ∧ c ≠ '#' ∧ c ≠ '?' ∧ c ≠ '/' ∧ c ≠ '@' ∧ c ≠ '+' ∧ c ≠ '*' := by
  unfold plain at h; char_arith

theorem plain_noEscape {c} (h : plain c = true) : shouldEscape c .host = false := by
  unfold plain at h
  unfold shouldEscape
  by_cases h1 : isAlnum c = true
  · simp [h1]
  · have h2 : hostSubDelim c = true ∨ isMark c = true := by char_arith
    rcases h2 with h2 | h2
    · simp [h1, h2]
    · simp [h1, h2]

theorem shouldEscape_zone (c : Char) : shouldEscape c .zone = shouldEscape c .host := by
  simp [shouldEscape]

/-! ## lists -/

theorem takeWhile_all {p : Char → Bool} {l : Bytes} (h : ∀ x ∈ l, p x = true) :
    l.takeWhile p = l := by
  induction l with
  | nil => rfl
  | cons x xs ih =>
    rw [List.takeWhile_cons, h x (by simp), if_pos rfl, ih (fun y hy => h y (by simp [hy]))]

theorem dropWhile_all {p : Char → Bool} {l : Bytes} (h : ∀ x ∈ l, p x = true) :
    l.dropWhile p = [] := by
  induction l with
  | nil => rfl
  | cons x xs ih =>
    rw [List.dropWhile_cons, h x (by simp), if_pos rfl, ih (fun y hy => h y (by simp [hy]))]

theorem takeWhile_stop {p : Char → Bool} {a b : Bytes} {c : Char} (h : ∀ x ∈ a, p x = true)
    (hc : p c = false) : (a ++ c :: b).takeWhile p = a := by
  induction a with
  | nil => simp [hc]
  | cons x xs ih =>
    rw [List.cons_append, List.takeWhile_cons, h x (by simp), if_pos rfl,
      ih (fun y hy => h y (by simp [hy]))]

theorem dropWhile_stop {p : Char → Bool} {a b : Bytes} {c : Char} (h : ∀ x ∈ a, p x = true)
    (hc : p c = false) : (a ++ c :: b).dropWhile p = c :: b := by
  induction a with
  | nil => simp [hc]
  | cons x xs ih =>
    rw [List.cons_append, List.dropWhile_cons, h x (by simp), if_pos rfl,
      ih (fun y hy => h y (by simp [hy]))]

theorem ne_of_not_mem {c : Char} {l : Bytes} (h : c ∉ l) : ∀ x ∈ l, decide (x ≠ c) = true := by
  intro x hx; simp; intro e; exact h (e ▸ hx)

theorem takeWhile_ne_all {c : Char} {l : Bytes} (h : c ∉ l) : l.takeWhile (· ≠ c) = l :=
  takeWhile_all (ne_of_not_mem h)
theorem dropWhile_ne_all {c : Char} {l : Bytes} (h : c ∉ l) : l.dropWhile (· ≠ c) = [] :=
  dropWhile_all (ne_of_not_mem h)
theorem takeWhile_ne_append {c : Char} {a b : Bytes} (h : c ∉ a) :
    (a ++ c :: b).takeWhile (· ≠ c) = a :=
  takeWhile_stop (ne_of_not_mem h) (by simp)
theorem dropWhile_ne_append {c : Char} {a b : Bytes} (h : c ∉ a) :
    (a ++ c :: b).dropWhile (· ≠ c) = c :: b :=
  dropWhile_stop (ne_of_not_mem h) (by simp)

theorem splitLast_none {c : Char} {l : Bytes} (h : c ∉ l) : splitLast c l = none := by
  induction l with
  | nil => rfl
  | cons x xs ih =>
    have hx : x ≠ c := fun e => h (by simp [e])
    have hxs : c ∉ xs := fun e => h (by simp [e])
    simp [splitLast, ih hxs, hx]

theorem splitLast_append {c : Char} {a b : Bytes} (h : c ∉ b) :
    splitLast c (a ++ c :: b) = some (a, b) := by
  induction a with
  | nil => simp [splitLast, splitLast_none h]
  | cons x xs ih => simp [splitLast, ih]

theorem splitPct25_none {l : Bytes} (h : '%' ∉ l) : splitPct25 l = none := by
  induction l with
  | nil => rfl
  | cons x xs ih =>
    have hx : x ≠ '%' := fun e => h (by simp [e])
    have hxs : '%' ∉ xs := fun e => h (by simp [e])
    have hx' : '%' ≠ x := fun e => hx e.symm
    simp [splitPct25, pct25, List.isPrefixOf, ih hxs, hx']

theorem splitPct25_append {a b : Bytes} (h : '%' ∉ a) :
    splitPct25 (a ++ '%' :: '2' :: '5' :: b) = some (a, '%' :: '2' :: '5' :: b) := by
  induction a with
  | nil => simp [splitPct25, pct25, List.isPrefixOf]
  | cons x xs ih =>
    have hx : x ≠ '%' := fun e => h (by simp [e])
    have hxs : '%' ∉ xs := fun e => h (by simp [e])
    have hx' : '%' ≠ x := fun e => hx e.symm
    simp [splitPct25, pct25, List.isPrefixOf, ih hxs, hx']

/-! ## escaping of '%' -/

theorem escapePercent_append (a b : Bytes) :
    escapePercent (a ++ b) = escapePercent a ++ escapePercent b := by
  simp [escapePercent]

theorem escapePercent_id {l : Bytes} (h : '%' ∉ l) : escapePercent l = l := by
  induction l with
  | nil => rfl
  | cons x xs ih =>
    have hx : x ≠ '%' := fun e => h (by simp [e])
    have hxs : '%' ∉ xs := fun e => h (by simp [e])
    have := ih hxs
    simp [escapePercent] at this ⊢
    simp [hx, this]

theorem escapePercent_cons_pct (l : Bytes) :
    escapePercent ('%' :: l) = '%' :: '2' :: '5' :: escapePercent l := by
  simp [escapePercent, pct25]

theorem escapePercent_cons_ne {c : Char} (h : c ≠ '%') (l : Bytes) :
    escapePercent (c :: l) = c :: escapePercent l := by
  simp [escapePercent, h]

/-! ## plain text -/

def Plain (l : Bytes) : Prop := ∀ c ∈ l, plain c = true

theorem Plain.nil : Plain [] := fun _ h => by simp at h
theorem Plain.cons {c l} (hc : plain c = true) (hl : Plain l) : Plain (c :: l) := by
  intro x hx; rcases List.mem_cons.mp hx with rfl | hx
  · exact hc
  · exact hl x hx
theorem Plain.append {a b} (ha : Plain a) (hb : Plain b) : Plain (a ++ b) := by
  intro x hx; rcases List.mem_append.mp hx with hx | hx
  · exact ha x hx
  · exact hb x hx
theorem Plain.of_all {l : Bytes} {p : Char → Bool} (h : l.all p = true)
    (hp : ∀ c, p c = true → plain c = true) : Plain l := by
  intro c hc; exact hp c (List.all_eq_true.mp h c hc)

theorem Plain.not_mem {l : Bytes} (h : Plain l) {c : Char} (hc : plain c = false) : c ∉ l := by
  intro hm; have := h c hm; simp [hc] at this

theorem Plain.no_pct {l} (h : Plain l) : '%' ∉ l := h.not_mem (by decide)
theorem Plain.no_hash {l} (h : Plain l) : '#' ∉ l := h.not_mem (by decide)
theorem Plain.no_qm {l} (h : Plain l) : '?' ∉ l := h.not_mem (by decide)
theorem Plain.no_slash {l} (h : Plain l) : '/' ∉ l := h.not_mem (by decide)
theorem Plain.no_at {l} (h : Plain l) : '@' ∉ l := h.not_mem (by decide)

/-! ## unescape -/

theorem unescape_cons_ne {m : Mode} {c : Char} (h : c ≠ '%') (hp : c ≠ '+') (rest : Bytes) :
    unescape m (c :: rest) =
      if (m = .host || m = .zone) && c.toNat < 0x80 && shouldEscape c m then none
      else (unescape m rest).map (c :: ·) := by
  rw [unescape.eq_def]; simp [h, hp]

/-- text that needs no unescaping in host position comes back unchanged -/
theorem unescape_host_plain {l : Bytes} (h : Plain l) : unescape .host l = some l := by
  induction l with
  | nil => rfl
  | cons x xs ih =>
    have hx := h x (by simp)
    have hxs : Plain xs := fun c hc => h c (by simp [hc])
    obtain ⟨h1, _, _, _, _, h2, _⟩ := plain_ne hx
    rw [unescape_cons_ne h1 h2, plain_noEscape hx, ih hxs]; simp

theorem unescape_zone_plain {l : Bytes} (h : Plain l) : unescape .zone l = some l := by
  induction l with
  | nil => rfl
  | cons x xs ih =>
    have hx := h x (by simp)
    have hxs : Plain xs := fun c hc => h c (by simp [hc])
    obtain ⟨h1, _, _, _, _, h2, _⟩ := plain_ne hx
    rw [unescape_cons_ne h1 h2, shouldEscape_zone, plain_noEscape hx, ih hxs]; simp

/-- in path position only '%' and nothing else is touched -/
theorem unescape_path_id {l : Bytes} (h : '%' ∉ l) : unescape .path l = some l := by
  induction l with
  | nil => rfl
  | cons x xs ih =>
    have hx : x ≠ '%' := fun e => h (by simp [e])
    have hxs : '%' ∉ xs := fun e => h (by simp [e])
    rw [unescape.eq_def]; simp only [hx, if_false, ih hxs]
    by_cases hp : x = '+' <;> simp [hp]

/-- "%25" + zone text: the escape of '%' that `parseProtoAddr` put in is taken out again -/
theorem unescape_zone_pct25 {z : Bytes} (h : Plain z) :
    unescape .zone ('%' :: '2' :: '5' :: z) = some ('%' :: z) := by
  rw [unescape]
  have e1 : pctRejected .zone '2' '5' = false := by decide
  have e2 : pctByte '2' '5' = '%' := by decide
  have e3 : (isHex '2' && isHex '5') = true := by decide
  simp [e1, e2, e3, unescape_zone_plain h]

end Gnet.Proofs.Url
