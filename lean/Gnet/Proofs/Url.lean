/-
  C16, parsing half: `parseProtoAddr` (model of url.Parse + path.Join + gnet's dispatch) is exact
  on well-formed addresses and classifies everything else.  String-level statements; the work is
  in UrlBasic / UrlParse / UrlIp / UrlUnix.
-/
import Gnet.Proofs.UrlIp
import Gnet.Proofs.UrlUnix
import Gnet.Proofs.UrlNoScheme
import Gnet.Proofs.Options
namespace Gnet.Proofs.Url
open Gnet Gnet.Url Gnet.Options

theorem sep_toList : "://".toList = [':', '/', '/'] := rfl
theorem colon_toList : ":".toList = [':'] := rfl

theorem ipScheme_lowerWord {s : String} (h : s ∈ ipSchemes) : isSchemeWord s.toList = true := by
  simp only [ipSchemes, List.mem_cons, List.not_mem_nil, or_false] at h
  rcases h with rfl | rfl | rfl | rfl | rfl | rfl <;> decide

theorem port_digits {p : Bytes} (h : isPort p = true) : p.all isDigit = true := by
  simp only [isPort, Bool.and_eq_true] at h; exact h.2

/-- the address text  scheme "://" host ":" port  as bytes -/
theorem addr_toList (scheme host port : String) :
    (scheme ++ "://" ++ host ++ ":" ++ port).toList =
      scheme.toList ++ ':' :: '/' :: '/' :: (host.toList ++ ':' :: port.toList) := by
  simp [String.toList_append, sep_toList, colon_toList]

theorem hostport_ofList (host port : String) :
    String.ofList (host.toList ++ ':' :: port.toList) = host ++ ":" ++ port := by
  have : host.toList ++ ':' :: port.toList = host.toList ++ ":".toList ++ port.toList := by
    simp [colon_toList]
  rw [this, String.ofList_append, String.ofList_append, String.ofList_toList,
    String.ofList_toList, String.ofList_toList]

theorem parse_ip_exact (scheme host port : String) (hs : scheme ∈ ipSchemes)
    (hh : isIpHost host.toList = true) (hp : isPort port.toList = true) :
    parseProtoAddr (scheme ++ "://" ++ host ++ ":" ++ port) = .ok scheme (host ++ ":" ++ port) := by
  unfold parseProtoAddr parseProtoAddrL
  rw [addr_toList, urlParse_ip (ipScheme_lowerWord hs) hh (port_digits hp)]
  simp only [toParts]
  rw [Proofs.Options.dispatch_ip _ rfl (by simpa [String.ofList_toList] using hs)
    (by simp) (by simp)]
  simp only [String.ofList_toList, hostport_ofList]

/-- a scheme gnet does not know -/
theorem parse_unknown_scheme (scheme host port : String)
    (hw : isLowerWord scheme.toList = true) (hn : scheme ∉ ipSchemes) (hu : scheme ≠ "unix")
    (hh : isIpHost host.toList = true) (hp : isPort port.toList = true) :
    parseProtoAddr (scheme ++ "://" ++ host ++ ":" ++ port) = .unsupportedProtocol := by
  unfold parseProtoAddr parseProtoAddrL
  rw [addr_toList, urlParse_ip (lowerWord_schemeWord hw) hh (port_digits hp)]
  simp only [toParts]
  have hne : scheme ≠ "" := by
    intro e; subst e; revert hw; decide
  exact (Proofs.Options.dispatch_errors _ rfl).2.2.2 (by simpa [String.ofList_toList] using hne)
    (by simpa [String.ofList_toList] using hn) (by simpa [String.ofList_toList] using hu)

/-- classification of every result -/
theorem parse_total (s : String) :
    match parseProtoAddr s with
    | .ok sch ep => (sch ∈ ipSchemes ∨ sch = "unix") ∧ ep ≠ ""
    | _ => True := by
  unfold parseProtoAddr parseProtoAddrL
  rcases Proofs.Options.dispatch_total (toParts (urlParse (escapePercent s.toList))) with
    h | h | h | ⟨sch, ep, h, h1, h2⟩
  · rw [h]; trivial
  · rw [h]; trivial
  · rw [h]; trivial
  · rw [h]; exact ⟨h1, h2⟩

/-! ## unix -/

theorem unix_toList (p : String) :
    ("unix://" ++ p).toList = unixB ++ ':' :: '/' :: '/' :: p.toList := by
  rw [String.toList_append]; rfl

theorem unix_ofList : String.ofList unixB = "unix" := rfl

/-- any text over `[a-z0-9._-]` and '/': the endpoint is `path.Clean` of the text -/
theorem parse_unix_clean (p : String) (hp : isPathText p.toList = true) :
    parseProtoAddr ("unix://" ++ p) = .ok "unix" (String.ofList (pathClean p.toList)) := by
  have hne : p.toList ≠ [] := by
    simp only [isPathText, Bool.and_eq_true, decide_eq_true_eq] at hp; exact hp.1
  unfold parseProtoAddr parseProtoAddrL
  rw [unix_toList, urlParse_unix hp]
  simp only [toParts, pathJoin2_split hne]
  rw [Proofs.Options.dispatch_unix _ rfl unix_ofList
    (by simpa [String.ofList_eq_empty_iff] using pathClean_ne_nil p.toList)]

/-- a cleaned path comes back exactly as written -/
theorem parse_unix_exact (p : String) (hp : isCleanPath p.toList = true) :
    parseProtoAddr ("unix://" ++ p) = .ok "unix" p := by
  rw [parse_unix_clean p (cleanPath_text hp), pathClean_clean hp, String.ofList_toList]

/-! ## no scheme -/

theorem noScheme_toList (host port : String) :
    (host ++ ":" ++ port).toList = host.toList ++ ':' :: port.toList := by
  simp [String.toList_append, colon_toList]

/-- "[v6]:port" and "[v6%zone]:port" without scheme: the error of url.Parse -/
theorem parse_no_scheme (host port : String)
    (hh : isV6Host host.toList = true ∨ isV6ZoneHost host.toList = true)
    (hp : isPort port.toList = true) :
    parseProtoAddr (host ++ ":" ++ port) = .urlError := by
  unfold parseProtoAddr parseProtoAddrL
  rw [noScheme_toList, urlParse_v6_noScheme hh (port_digits hp)]
  rfl

/-- "name:port" without scheme: the name is taken for the scheme -/
theorem parse_no_scheme_name (host port : String) (hh : isSchemeWord host.toList = true)
    (hp : isPort port.toList = true) :
    parseProtoAddr (host ++ ":" ++ port) =
      if host ∈ ipSchemes ∨ host = "unix" then .invalidAddress else .unsupportedProtocol := by
  unfold parseProtoAddr parseProtoAddrL
  rw [noScheme_toList, urlParse_name_noScheme hh (port_digits hp)]
  have hne : host ≠ "" := by
    intro e; subst e; revert hh; decide
  have hj : pathJoin2 [] [] = [] := by decide
  simp only [toParts, String.ofList_toList, hj]
  unfold dispatch
  by_cases h1 : host ∈ ipSchemes
  · simp [h1, hne]
  · by_cases h2 : host = "unix"
    · subst h2; simp [h1]
    · simp [h1, h2, hne]

/-! ## the host predicates accept exactly the three written forms -/

theorem inner_bracket (b : Bytes) : inner ('[' :: b ++ [']']) = b := by
  simp [inner]

theorem isV6Host_intro {a : Bytes} (hne : a ≠ []) (ha : a.all hexColonChar = true) :
    isV6Host ('[' :: a ++ [']']) = true := by
  simp only [isV6Host, inner_bracket, Bool.and_eq_true, decide_eq_true_eq]
  exact ⟨⟨trivial, hne⟩, ha⟩

theorem isV6ZoneHost_intro {a z : Bytes} (hne : a ≠ []) (ha : a.all hexColonChar = true)
    (hzne : z ≠ []) (hz : z.all zoneChar = true) :
    isV6ZoneHost ('[' :: a ++ '%' :: z ++ [']']) = true := by
  have hpct : '%' ∉ a := (hexColon_plain ha).no_pct
  have e : '[' :: a ++ '%' :: z ++ [']'] = '[' :: (a ++ '%' :: z) ++ [']'] := by simp
  have h1 : v6Addr ('[' :: a ++ '%' :: z ++ [']']) = a := by
    rw [e]; unfold v6Addr; rw [inner_bracket, takeWhile_ne_append hpct]
  have h2 : v6Zone ('[' :: a ++ '%' :: z ++ [']']) = z := by
    rw [e]; unfold v6Zone; rw [inner_bracket, dropWhile_ne_append hpct]; rfl
  simp only [isV6ZoneHost, h1, h2, Bool.and_eq_true, decide_eq_true_eq]
  exact ⟨⟨⟨⟨trivial, hne⟩, ha⟩, hzne⟩, hz⟩

theorem v6_text (a : String) : ("[" ++ a ++ "]").toList = '[' :: a.toList ++ [']'] := by
  simp only [String.toList_append]; rfl

theorem v6zone_text (a z : String) :
    ("[" ++ a ++ "%" ++ z ++ "]").toList = '[' :: a.toList ++ '%' :: z.toList ++ [']'] := by
  simp only [String.toList_append]
  have e1 : "[".toList = ['['] := rfl
  have e2 : "%".toList = ['%'] := rfl
  have e3 : "]".toList = [']'] := rfl
  rw [e1, e2, e3]; simp

end Gnet.Proofs.Url
