/-
  C01 / C02: inbound and outbound byte accounting are invariants of accepted rounds.
  The work is done in Gnet/Proofs/Reactor{Hoare,Inv,Specs,Conn,Steps1..4,Main}.lean: a forward Hoare
  logic for the acceptor monad, an induction on the fuel of `exec` over all works at once, then
  `topLevel`, `finish`, `round`. Here the generic invariant `Good A B 2 s "" (Lv A B 2)` is
  instantiated with (A, B) = (inbound on, outbound off) resp. (off, on).
-/
import Gnet.Spec.ReactorSpec
import Gnet.Proofs.ReactorMain
namespace Gnet.Proofs.ReactorBytes
open Gnet.Reactor

theorem good_of_in {s : RState} (hn : NamesNodup s) (hi : InvIn s) (hq : Quiet s) :
    Good True False 2 s "" (Lv True False 2) := by
  have h2 : ∀ p ∈ s.conns, Lv True False 2 p.2 := fun p hp =>
    Or.inr (fun ho => ⟨(hq p hp ho).1, fun _ => (hq p hp ho).2, fun _ => hi p hp ho, fun hf => hf.elim⟩)
  exact ⟨hn, fun p hp _ => h2 p hp, fun p hp _ => h2 p hp⟩

theorem in_of_good {s : RState} (hG : Good True False 2 s "" (Lv True False 2)) :
    InvIn s ∧ Quiet s ∧ NamesNodup s := by
  have h2 := hG.all
  refine ⟨fun p hp ho => ?_, fun p hp ho => ?_, hG.nodup⟩
  · rcases h2 p hp with h | h
    · cases h
    · exact (h ho).2.2.1 trivial
  · rcases h2 p hp with h | h
    · cases h
    · exact ⟨(h ho).1, (h ho).2.1 rfl⟩

theorem good_of_out {s : RState} (hn : NamesNodup s) (ho : InvOut s) (hq : Quiet s) :
    Good False True 2 s "" (Lv False True 2) := by
  have h2 : ∀ p ∈ s.conns, Lv False True 2 p.2 := fun p hp =>
    Or.inr (fun hop => ⟨(hq p hp hop).1, fun _ => (hq p hp hop).2, fun hf => hf.elim, fun _ => ho p hp hop⟩)
  exact ⟨hn, fun p hp _ => h2 p hp, fun p hp _ => h2 p hp⟩

theorem out_of_good {s : RState} (hG : Good False True 2 s "" (Lv False True 2)) :
    InvOut s ∧ Quiet s ∧ NamesNodup s := by
  have h2 := hG.all
  refine ⟨fun p hp ho => ?_, fun p hp ho => ?_, hG.nodup⟩
  · rcases h2 p hp with h | h
    · cases h
    · exact (h ho).2.2.2 trivial
  · rcases h2 p hp with h | h
    · cases h
    · exact ⟨(h ho).1, (h ho).2.1 rfl⟩

theorem inbound_integrity (s s' : RState) (toks : List Tok) (hn : NamesNodup s)
    (h : acceptRound s toks = .ok s') (hi : InvIn s) (hq : Quiet s) : InvIn s' ∧ Quiet s' ∧ NamesNodup s' :=
  in_of_good (acceptRound_spec s s' toks h (good_of_in hn hi hq))

theorem inbound_init (cfg : Cfg) : InvIn { cfg := cfg } ∧ Quiet { cfg := cfg } ∧ NamesNodup { cfg := cfg } :=
  ⟨fun _ hp => (by cases hp), fun _ hp => (by cases hp), List.nodup_nil⟩

theorem outbound_integrity (s s' : RState) (toks : List Tok) (hn : NamesNodup s)
    (h : acceptRound s toks = .ok s') (ho : InvOut s) (hq : Quiet s) : InvOut s' ∧ Quiet s' ∧ NamesNodup s' :=
  out_of_good (acceptRound_spec s s' toks h (good_of_out hn ho hq))

theorem outbound_init (cfg : Cfg) : InvOut { cfg := cfg } := fun _ hp => by cases hp

end Gnet.Proofs.ReactorBytes
