/-
  A Dequeue running alone terminates (used for the "never stuck" part of C03): a measure on
  the state of the dequeuing thread that every non-returning step decreases, and what a solo
  run preserves.
-/
import Gnet.Model.Msq
import Gnet.Proofs.Msq
import Gnet.Proofs.WakeMsq
namespace Gnet.Proofs.Msq
open Gnet.Msq

theorem chainFrom_congr {q q' : State} (h : nextOf q' = nextOf q) :
    ∀ fuel n, chainFrom q' fuel n = chainFrom q fuel n := by
  intro fuel
  induction fuel with
  | zero => intro n; rfl
  | succ f ih =>
    intro n
    simp only [chainFrom, h]
    cases nextOf q n with
    | none => rfl
    | some m => simp only [ih m]

theorem chain_congr {q q' : State} (h : q'.nodes = q.nodes) : chain q' = chain q := by
  unfold chain
  rw [h, chainFrom_congr (nextOf_congr h)]

/-- how far the shared tail pointer is from the end of the chain -/
def lagT (q : State) : Nat := (chain q).length - posOf q q.tail

theorem lagT_eq {q : State} {c : List Nat} {h t : Nat} (I : InvW q c h t) : lagT q = c.length - t := by
  unfold lagT; rw [I.posOf_tail, I.chain_eq]

theorem lagT_congr {q q' : State} (hn : q'.nodes = q.nodes) (ht : q'.tail = q.tail) : lagT q' = lagT q := by
  unfold lagT posOf
  rw [chain_congr hn, ht]

@[simp] theorem lagT_setThread (q : State) (tid : Nat) (th : Thread) : lagT (setThread q tid th) = lagT q :=
  lagT_congr rfl rfl

def rankD : Pc → Nat
  | .dLoadHead => 7 | .dLoadTail => 6 | .dLoadNext => 5 | .dReloadHead => 4
  | .dHelpTail => 3 | .dCasHead => 2 | .dSub => 1
  | _ => 0

/-- the thread's snapshots are out of date (its current attempt will fail and restart) -/
def staleD (q : State) (th : Thread) : Bool :=
  match th.pc with
  | .dLoadTail => th.head != q.head
  | .dLoadNext | .dReloadHead | .dCasHead => th.head != q.head || th.tail != q.tail
  | .dHelpTail => th.head != q.head || th.tail != q.tail || th.next == none
  | _ => false

def muD (q : State) (th : Thread) : Nat :=
  100 * lagT q + (if staleD q th = true then 20 else 0) + rankD th.pc

theorem lagT_upd (q : State) (hd : Nat) (len : Int) (thrs : List Thread) (a e d : List Nat) :
    lagT { q with head := hd, length := len, threads := thrs, absQ := a, enqLog := e, deqLog := d } = lagT q :=
  lagT_congr rfl rfl

theorem deq_step_measure {q : State} {tid : Nat} (I : Inv q) (hlt : tid < q.threads.length)
    (hd : DeqPc (thr q tid).pc = true) (hr : (step q tid).2 = none) :
    DeqPc (thr (step q tid).1 tid).pc = true ∧
    muD (step q tid).1 (thr (step q tid).1 tid) < muD q (thr q tid) := by
  have hth := getElem?_of_lt hlt
  obtain ⟨c, h, t, I⟩ := I
  have hT := I.thr tid _ hth
  have hL := lagT_eq I
  generalize thr q tid = th at *
  rw [step_eq hth] at hr ⊢
  cases hpc : th.pc <;> simp [DeqPc, hpc] at hd <;> simp only [hpc] at hr ⊢
  case dHelpTail =>
    simp [TInv, hpc, Pre] at hT
    obtain ⟨p, hp, hp1⟩ := hT
    cases hn : th.next with
    | none =>
      simp [thr_setThread, hlt, DeqPc, muD, staleD, rankD, hpc, hn]
    | some nx =>
      simp only
      by_cases heq : q.tail = th.tail
      · rw [if_pos heq]
        have hpt : p = t := nodup_idx I.nodup hp (heq ▸ I.tl)
        subst hpt
        have h1 := hp1 nx hn
        have h2 := lt_of_getElem? h1
        refine ⟨by simp [thr_setThread, hlt, DeqPc], ?_⟩
        have hl' : ∀ th', lagT (setThread { q with tail := nx } tid th') = c.length - (p + 1) := by
          intro th'
          have hc : chain (setThread { q with tail := nx } tid th') = c := by
            rw [← I.chain_eq]; exact chain_congr rfl
          unfold lagT posOf
          rw [hc]
          show c.length - c.findIdx (· == nx) = _
          rw [findIdx_of_nodup I.nodup h1]
        simp only [thr_setThread, hlt, and_self, if_true, muD, staleD, rankD, hpc]
        rw [hl', hL]
        simp only [Bool.false_eq_true, ↓reduceIte]
        split <;> omega
      · rw [if_neg heq]
        have : th.tail ≠ q.tail := fun e => heq e.symm
        simp [thr_setThread, hlt, DeqPc, muD, staleD, rankD, hpc, this]
  case dCasHead =>
    simp [TInv, hpc, Pre] at hT
    obtain ⟨ph, hph, hle, hlt', nx, hn, hnx, htask⟩ := hT
    rw [hn] at hr ⊢
    simp only at hr ⊢
    split
    · rename_i heq
      refine ⟨by simp [thr_setThread, hlt, DeqPc], ?_⟩
      simp only [thr_setThread, hlt, and_self, if_true, muD, staleD, rankD, hpc]
      rw [lagT_setThread, lagT_upd]
      simp only [Bool.false_eq_true, ↓reduceIte]
      split <;> omega
    · rename_i hne
      have : th.head ≠ q.head := fun e => hne e.symm
      simp [thr_setThread, hlt, DeqPc, muD, staleD, rankD, hpc, this]
  case dReloadHead =>
    simp [TInv, hpc, Pre] at hT
    obtain ⟨ph, hph, hle, pt, hpt, hle2, hle3, hsome, hnone⟩ := hT
    have hne : th.head ≠ th.tail → th.next ≠ none := by
      intro hne hn
      have := (hnone hn).1
      subst this
      rw [hph] at hpt
      exact hne (Option.some.inj hpt)
    (repeat' split) <;> simp_all [thr_setThread, DeqPc, muD, staleD, rankD]
  all_goals (repeat' split)
  all_goals simp [thr_setThread, hlt, DeqPc, muD, staleD, rankD, hpc] at hr ⊢

def EarlyD : Pc → Bool
  | .dLoadHead | .dLoadTail | .dLoadNext => true
  | _ => false

/-- the Dequeue in progress is bound to return a task when run alone -/
def GoodT (q : State) (th : Thread) : Prop :=
  th.pc = .dSub ∨ (q.absQ ≠ [] ∧ (EarlyD th.pc = true ∨ th.ghostSawEmpty = false))

theorem good_step {q : State} {tid : Nat} (I : Inv q) (hlt : tid < q.threads.length)
    (hd : DeqPc (thr q tid).pc = true) (hg : GoodT q (thr q tid)) :
    (step q tid).2 ≠ some .deqNone ∧
    ((step q tid).2 = none → GoodT (step q tid).1 (thr (step q tid).1 tid)) := by
  have hth := getElem?_of_lt hlt
  obtain ⟨c, h, t, I⟩ := I
  have hT := I.thr tid _ hth
  generalize thr q tid = th at *
  rw [step_eq hth]
  unfold GoodT at hg ⊢
  cases hpc : th.pc <;> simp [DeqPc, hpc] at hd <;> simp only [hpc] at hg ⊢
  case dReloadHead =>
    simp [TInv, hpc, Pre] at hT
    obtain ⟨ph, hph, hle, pt, hpt, hle2, hle3, hsome, hnone⟩ := hT
    (repeat' split) <;> simp_all [thr_setThread, EarlyD]
  all_goals (repeat' split)
  all_goals simp_all [thr_setThread, EarlyD]

/-- `q'` is reached from `q` by steps of thread `tid` alone, none of which returns -/
inductive SoloDeq (tid : Nat) : State → State → Prop where
  | refl (q : State) : SoloDeq tid q q
  | step {q qk : State} : (step q tid).2 = none → SoloDeq tid (step q tid).1 qk → SoloDeq tid q qk

theorem solo_deq {tid : Nat} : ∀ (n : Nat) (q : State), Inv q → tid < q.threads.length →
    DeqPc (thr q tid).pc = true → muD q (thr q tid) ≤ n →
    ∃ qk, SoloDeq tid q qk ∧
      ((∃ v, (step qk tid).2 = some (.deqSome v)) ∨
       ((step qk tid).2 = some .deqNone ∧ (step qk tid).1.absQ = q.absQ ∧ ¬ GoodT q (thr q tid))) := by
  intro n
  induction n with
  | zero =>
    intro q I hlt hd hm
    exfalso
    revert hd hm
    unfold muD
    cases (thr q tid).pc <;> simp [DeqPc, rankD]
  | succ n ih =>
    intro q I hlt hd hm
    have hs := step_deq I hlt hd
    cases hr : (step q tid).2 with
    | some r =>
      refine ⟨q, SoloDeq.refl q, ?_⟩
      rw [hr] at hs
      rcases hs with ⟨_, h, _⟩ | ⟨_, h, _⟩ | ⟨_, _, _, ha, ⟨h, _⟩ | ⟨h, _, _⟩⟩
      · exact Or.inl ⟨_, hr.trans h⟩
      · cases h
      · cases h
      · refine Or.inr ⟨hr.trans h, ha, ?_⟩
        intro hg
        exact (good_step I hlt hd hg).1 (hr.trans h)
    | none =>
      obtain ⟨hd', hlt'⟩ := deq_step_measure I hlt hd hr
      have I' := inv_step I tid
      have hlen := step_length q tid
      obtain ⟨qk, hsolo, hres⟩ := ih (step q tid).1 I' (by rw [hlen]; exact hlt) hd' (by omega)
      refine ⟨qk, SoloDeq.step hr hsolo, ?_⟩
      rcases hres with h | ⟨h1, h2, h3⟩
      · exact Or.inl h
      · refine Or.inr ⟨h1, ?_, ?_⟩
        · rw [hr] at hs
          rcases hs with ⟨_, h, _⟩ | ⟨_, _, hsub, _⟩ | ⟨_, _, _, ha, _⟩
          · cases h
          · exact absurd (Or.inl hsub) h3
          · rw [h2, ha]
        · intro hg
          exact h3 ((good_step I hlt hd hg).2 hr)

theorem step_eAdd_ret {q : State} {tid : Nat} (hlt : tid < q.threads.length)
    (hpc : (thr q tid).pc = .eAdd) : (step q tid).2 = some .enqDone := by
  have hth := getElem?_of_lt hlt
  rw [step_eq hth]; simp only [hpc]

theorem step_eCasTail_next {q : State} {tid : Nat} (hlt : tid < q.threads.length)
    (hpc : (thr q tid).pc = .eCasTail) :
    (step q tid).2 = none ∧ (thr (step q tid).1 tid).pc = .eAdd := by
  have hth := getElem?_of_lt hlt
  rw [step_eq hth]; simp only [hpc]
  split <;> simp [thr_setThread, hlt]

end Gnet.Proofs.Msq
