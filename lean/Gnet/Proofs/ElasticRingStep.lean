/-
  C10: `elastic.RingBuffer` refines the FIFO specification, one operation and whole runs.
-/
import Gnet.Proofs.ElasticRing
set_option linter.unusedSectionVars false
set_option linter.unusedVariables false
set_option linter.unusedSimpArgs false
namespace Gnet.Proofs.Elastic
open Gnet
variable {α : Type} [Inhabited α]

theorem ering_step (gen : Nat → α) (b : ERing α) (pos : Nat) (op : ElasticFifo.Op α) (h : b.WF) :
    (ERing.step gen (b, pos) op).1.1.WF ∧
    ElasticFifo.Step gen (b.abs, pos) op
      ((ERing.step gen (b, pos) op).1.1.abs, (ERing.step gen (b, pos) op).1.2) (ERing.step gen (b, pos) op).2 := by
  cases op with
  | write p =>
    obtain ⟨h1, h2⟩ := write_spec b p h
    refine ⟨h1, ?_⟩
    show ElasticFifo.Step gen (b.abs, pos) (.write p) ((b.write p).abs, pos) ⟨p.length, .nil, []⟩
    rw [h2]; exact ElasticFifo.Step.write _ _ _
  | writeByte c =>
    obtain ⟨h1, h2⟩ := writeByte_spec b c h
    refine ⟨h1, ?_⟩
    show ElasticFifo.Step gen (b.abs, pos) (.writeByte c) ((b.writeByte c).abs, pos) ⟨1, .nil, []⟩
    rw [h2]; exact ElasticFifo.Step.writeByte _ _ _
  | writev bs =>
    obtain ⟨h1, h2⟩ := write_spec b bs.flatten h
    refine ⟨h1, ?_⟩
    show ElasticFifo.Step gen (b.abs, pos) (.writev bs) ((b.write bs.flatten).abs, pos)
      ⟨bs.flatten.length, .nil, []⟩
    rw [h2]; exact ElasticFifo.Step.writev _ _ _
  | read n =>
    obtain ⟨h1, h2, h3, _⟩ := read_spec b n h
    refine ⟨h1, ?_⟩
    show ElasticFifo.Step gen (b.abs, pos) (.read n) ((b.read n).1.abs, pos)
      ⟨(b.read n).2.1.length, (b.read n).2.2, (b.read n).2.1⟩
    rw [h2, h3, List.length_take]; exact ElasticFifo.Step.read _ _ _ _
  | readByte =>
    obtain ⟨h1, h2, h3, h4⟩ := readByte_spec b h
    refine ⟨h1, ?_⟩
    show ElasticFifo.Step gen (b.abs, pos) .readByte (b.readByte.1.abs, pos)
      ⟨b.readByte.2.1.toList.length, b.readByte.2.2, b.readByte.2.1.toList⟩
    rw [h2, h3, List.length_take]
    refine ElasticFifo.Step.readByte _ _ _ ?_
    intro hne
    rcases h4 with h4 | h4
    · exact h4
    · exact absurd h4 hne
  | peek n =>
    have hp := peek_spec b n h
    refine ⟨h, ?_⟩
    show ElasticFifo.Step gen (b.abs, pos) (.peek n) (b.abs, pos)
      ⟨((b.peek n).1 ++ (b.peek n).2).length, .nil, (b.peek n).1 ++ (b.peek n).2⟩
    rw [hp]
    by_cases hn : n ≤ 0
    · rw [if_pos hn]
      exact ElasticFifo.Step.peekAll _ _ n _ (Or.inl hn) (Or.inl rfl)
    · rw [if_neg hn]
      by_cases hm : n = (ElasticFifo.maxInt32 : Int)
      · have : n.toNat = ElasticFifo.maxInt32 := by omega
        rw [this]
        exact ElasticFifo.Step.peekAll _ _ n _ (Or.inr hm) (Or.inr rfl)
      · by_cases hle : n.toNat ≤ b.abs.length
        · have := ElasticFifo.Step.peek (gen := gen) b.abs pos n (by omega) hm hle
          rwa [List.length_take, Nat.min_eq_left hle]
        · rw [List.take_of_length_le (by omega)]
          exact ElasticFifo.Step.peekShort _ _ n _ _ (by omega) hm (by omega) (Or.inr rfl)
  | discard n =>
    obtain ⟨h1, h2, h3, h4⟩ := discard_spec b n h
    refine ⟨h1, ?_⟩
    show ElasticFifo.Step gen (b.abs, pos) (.discard n) ((b.discard n).1.abs, pos)
      ⟨(b.discard n).2.1, (b.discard n).2.2, []⟩
    rw [h2, h3]
    exact ElasticFifo.Step.discard _ _ _ _
  | bytes =>
    refine ⟨h, ?_⟩
    show ElasticFifo.Step gen (b.abs, pos) .bytes (b.abs, pos) ⟨b.bytes.length, .nil, b.bytes⟩
    rw [bytes_spec b h]; exact ElasticFifo.Step.bytes _ _ _ (Or.inl rfl)
  | readFrom sc =>
    obtain ⟨h1, m, h2, h3, h4, h5⟩ := readFrom_spec gen b pos sc h
    refine ⟨h1, ?_⟩
    show ElasticFifo.Step gen (b.abs, pos) (.readFrom sc)
      ((b.readFrom gen pos sc).1.abs, (b.readFrom gen pos sc).2.2.2)
      ⟨(b.readFrom gen pos sc).2.1, (b.readFrom gen pos sc).2.2.1, []⟩
    rw [h2, h3, h4]; exact ElasticFifo.Step.readFrom _ _ _ _ _ h5
  | writeTo sc =>
    obtain ⟨h1, h2, h3, h4, h5⟩ := writeTo_spec b sc h
    refine ⟨h1, ?_⟩
    show ElasticFifo.Step gen (b.abs, pos) (.writeTo sc) ((b.writeTo sc).1.abs, pos)
      ⟨(b.writeTo sc).2.1, (b.writeTo sc).2.2.1, (b.writeTo sc).2.2.2.1⟩
    rw [h2, h3]; exact ElasticFifo.Step.writeTo _ _ _ _ _ h4 h5
  | reset ms =>
    obtain ⟨h1, h2⟩ := reset_spec b h
    refine ⟨h1, ?_⟩
    show ElasticFifo.Step gen (b.abs, pos) (.reset ms) (b.reset.abs, pos) ⟨0, .nil, []⟩
    rw [h2]; exact ElasticFifo.Step.reset _ _ _
  | release =>
    refine ⟨doneAll_wf b, ?_⟩
    show ElasticFifo.Step gen (b.abs, pos) .release (b.doneAll.abs, pos) ⟨0, .nil, []⟩
    rw [doneAll_abs]; exact ElasticFifo.Step.release _ _

theorem ering_run_from (gen : Nat → α) (ops : List (ElasticFifo.Op α)) : ∀ (b : ERing α) (pos : Nat), b.WF →
    (ERing.run gen (b, pos) ops).1.1.WF ∧
    ElasticFifo.Run gen (b.abs, pos) ops (ERing.run gen (b, pos) ops).2
      ((ERing.run gen (b, pos) ops).1.1.abs, (ERing.run gen (b, pos) ops).1.2) := by
  induction ops with
  | nil => intro b pos h; exact ⟨h, ElasticFifo.Run.nil _⟩
  | cons op ops ih =>
    intro b pos h
    obtain ⟨w1, s1⟩ := ering_step gen b pos op h
    obtain ⟨w2, s2⟩ := ih (ERing.step gen (b, pos) op).1.1 (ERing.step gen (b, pos) op).1.2 w1
    exact ⟨w2, ElasticFifo.Run.cons _ _ _ _ _ _ _ s1 s2⟩

end Gnet.Proofs.Elastic
