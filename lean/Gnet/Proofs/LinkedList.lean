import Gnet.Model.LinkedList
namespace Gnet.Proofs.LinkedList
open Gnet
variable {α : Type}

/-! ### helpers -/

/-- flattened content of a segment list -/
def flat (segs : List (Seg α)) : List α := (segs.map (·.data)).flatten

@[simp] theorem flat_nil : flat ([] : List (Seg α)) = [] := rfl
@[simp] theorem flat_cons (b : Seg α) (rest : List (Seg α)) : flat (b :: rest) = b.data ++ flat rest := by
  simp [flat]
@[simp] theorem flat_append (a b : List (Seg α)) : flat (a ++ b) = flat a ++ flat b := by
  simp [flat]

theorem abs_eq (l : LL α) : l.abs = flat l.segs := rfl
@[simp] theorem abs_mk (segs : List (Seg α)) (s b : Int) : (LL.mk segs s b).abs = flat segs := rfl

theorem sum_len_eq (segs : List (Seg α)) : (segs.map (·.data.length)).sum = (flat segs).length := by
  induction segs with
  | nil => rfl
  | cons b rest ih => simp [ih]

theorem wf_nil : (LL.mk ([] : List (Seg α)) 0 0).WF := ⟨by simp, by simp, by simp⟩

theorem wf_cons_iff (b : Seg α) (rest : List (Seg α)) (size bytes : Int) :
    (LL.mk (b :: rest) size bytes).WF ↔
      b.data ≠ [] ∧ (LL.mk rest (size - 1) (bytes - b.data.length)).WF := by
  constructor
  · rintro ⟨h1, h2, h3⟩
    simp only [List.length_cons, List.map_cons, List.sum_cons] at h1 h2
    refine ⟨h3 b (by simp), ⟨?_, ?_, ?_⟩⟩
    · simp only; omega
    · simp only; omega
    · intro s hs; exact h3 s (by simp [hs])
  · rintro ⟨hb, h1, h2, h3⟩
    simp only at h1 h2 h3
    refine ⟨?_, ?_, ?_⟩
    · simp only [List.length_cons]; omega
    · simp only [List.map_cons, List.sum_cons]; omega
    · intro s hs
      rcases List.mem_cons.mp hs with rfl | hs
      · exact hb
      · exact h3 s hs

theorem wf_bytes (l : LL α) (h : l.WF) : l.bytes = (l.abs.length : Int) := by
  rw [h.bytes_eq, sum_len_eq]; rfl

/-! ### Read -/

theorem readLoop_spec (segs : List (Seg α)) (size bytes : Int) (want : Nat)
    (h : (LL.mk segs size bytes).WF) :
    (LL.readLoop segs size bytes want).1 = (flat segs).take want ∧
    (LL.readLoop segs size bytes want).2.WF ∧
    (LL.readLoop segs size bytes want).2.abs = (flat segs).drop want := by
  induction segs generalizing size bytes want with
  | nil => simp [LL.readLoop, h]
  | cons b rest ih =>
    rw [wf_cons_iff] at h
    obtain ⟨hb, hrest⟩ := h
    have hlen : 0 < b.data.length := List.length_pos_iff.mpr hb
    unfold LL.readLoop
    simp only
    by_cases h1 : min want b.data.length < b.data.length
    · rw [if_pos h1]
      have hw : want < b.data.length := by omega
      have hm : min want b.data.length = want := by omega
      rw [hm]
      refine ⟨?_, ?_, ?_⟩
      · simp [List.take_append_of_le_length (Nat.le_of_lt hw)]
      · rw [wf_cons_iff]
        refine ⟨?_, ?_⟩
        · simp only [ne_eq, List.drop_eq_nil_iff]; omega
        · have : (size - 1 + 1 - 1 : Int) = size - 1 := by omega
          simp only [List.length_drop]
          rw [this]
          have : (bytes - ↑b.data.length + ↑(b.data.length - want) - ↑(b.data.length - want) : Int)
              = bytes - b.data.length := by omega
          rw [this]; exact hrest
      · simp [List.drop_append_of_le_length (Nat.le_of_lt hw)]
    · rw [if_neg h1]
      have hw : b.data.length ≤ want := by omega
      have hm : min want b.data.length = b.data.length := by omega
      rw [hm]
      by_cases h2 : want - b.data.length = 0
      · rw [if_pos h2]
        have : want = b.data.length := by omega
        refine ⟨?_, hrest, ?_⟩
        · simp [this]
        · simp [this]
      · rw [if_neg h2]
        obtain ⟨i1, i2, i3⟩ := ih (size - 1) (bytes - b.data.length) (want - b.data.length) hrest
        refine ⟨?_, i2, ?_⟩
        · simp only [i1, flat_cons, List.take_append]
          rw [List.take_of_length_le hw]
        · simp only [i3, flat_cons, List.drop_append]
          rw [List.drop_eq_nil_of_le hw]; simp

/-! ### Peek -/

theorem peekLoop_spec (bs : List (List α)) (cum mx : Nat) (h : cum ≤ mx) :
    (LL.peekLoop bs cum mx).1.flatten = bs.flatten.take (mx - cum) := by
  induction bs generalizing cum with
  | nil => simp [LL.peekLoop]
  | cons b rest ih =>
    unfold LL.peekLoop
    simp only
    by_cases h1 : cum + b.length > mx
    · rw [if_pos h1]
      have : cum + (mx - cum) = mx := by omega
      rw [if_pos this]
      simp only [List.flatten_cons, List.flatten_nil, List.append_nil]
      rw [List.take_append_of_le_length (by omega)]
    · rw [if_neg h1]
      by_cases h2 : cum + b.length = mx
      · rw [if_pos h2]
        have : mx - cum = b.length := by omega
        simp [this]
      · rw [if_neg h2]
        simp only [List.flatten_cons, List.take_length]
        rw [ih (cum + b.length) (by omega), List.take_append,
          List.take_of_length_le (l := b) (i := mx - cum) (by omega)]
        congr 2; omega

theorem pwbLoop_spec (bs : List (List α)) (cum mx : Nat) (h : cum ≤ mx) :
    (LL.pwbLoop bs cum mx).1.flatten = bs.flatten.take (mx - cum) ∧
    (LL.pwbLoop bs cum mx).2.1 = cum + min (mx - cum) bs.flatten.length ∧
    ((LL.pwbLoop bs cum mx).2.2 = true → mx - cum ≤ bs.flatten.length) ∧
    ((LL.pwbLoop bs cum mx).2.2 = false → bs.flatten.length ≤ mx - cum) := by
  induction bs generalizing cum with
  | nil => simp [LL.pwbLoop]
  | cons b rest ih =>
    unfold LL.pwbLoop
    by_cases h0 : b.length > 0
    · rw [if_pos h0]
      simp only
      by_cases h1 : cum + b.length > mx
      · rw [if_pos h1]
        have : cum + (mx - cum) = mx := by omega
        rw [if_pos this]
        simp only [List.flatten_cons, List.flatten_nil, List.append_nil, List.length_append]
        refine ⟨?_, ?_, ?_, ?_⟩
        · rw [List.take_append_of_le_length (by omega)]
        · omega
        · intro _; omega
        · intro hf; simp at hf
      · rw [if_neg h1]
        by_cases h2 : cum + b.length = mx
        · rw [if_pos h2]
          have : mx - cum = b.length := by omega
          simp only [List.flatten_cons, List.flatten_nil, List.append_nil, List.length_append]
          refine ⟨?_, ?_, ?_, ?_⟩
          · simp [this]
          · omega
          · intro _; omega
          · intro hf; simp at hf
        · rw [if_neg h2]
          obtain ⟨i1, i2, i3, i4⟩ := ih (cum + b.length) (by omega)
          simp only [List.flatten_cons, List.take_length, List.length_append]
          refine ⟨?_, ?_, ?_, ?_⟩
          · rw [i1, List.take_append, List.take_of_length_le (l := b) (i := mx - cum) (by omega)]
            congr 2; omega
          · rw [i2]; omega
          · intro hd; have := i3 hd; omega
          · intro hd; have := i4 hd; omega
    · rw [if_neg h0]
      have hb : b = [] := by
        cases b with
        | nil => rfl
        | cons x xs => simp at h0
      subst hb
      simpa using ih cum h

/-! ### Discard -/

theorem discardLoop_spec (segs : List (Seg α)) (size bytes : Int) (n d : Nat)
    (h : (LL.mk segs size bytes).WF) :
    (LL.discardLoop segs size bytes n d).1 = d + min n (flat segs).length ∧
    (LL.discardLoop segs size bytes n d).2.WF ∧
    (LL.discardLoop segs size bytes n d).2.abs = (flat segs).drop n := by
  induction segs generalizing size bytes n d with
  | nil =>
    unfold LL.discardLoop
    by_cases hn : n = 0
    · simp [hn, h]
    · simp [hn, h]
  | cons b rest ih =>
    unfold LL.discardLoop
    by_cases hn : n = 0
    · rw [if_pos hn]; subst hn; simp [h]
    · rw [if_neg hn]
      rw [wf_cons_iff] at h
      obtain ⟨hb, hrest⟩ := h
      have hlen : 0 < b.data.length := List.length_pos_iff.mpr hb
      simp only
      by_cases h1 : n < b.data.length
      · rw [if_pos h1]
        refine ⟨?_, ?_, ?_⟩
        · simp only [flat_cons, List.length_append]; omega
        · rw [wf_cons_iff]
          refine ⟨?_, ?_⟩
          · simp only [ne_eq, List.drop_eq_nil_iff]; omega
          · have : (size - 1 + 1 - 1 : Int) = size - 1 := by omega
            simp only [List.length_drop]
            rw [this]
            have : (bytes - ↑b.data.length + ↑(b.data.length - n) - ↑(b.data.length - n) : Int)
                = bytes - b.data.length := by omega
            rw [this]; exact hrest
        · simp [List.drop_append_of_le_length (Nat.le_of_lt h1)]
      · rw [if_neg h1]
        obtain ⟨i1, i2, i3⟩ := ih (size - 1) (bytes - b.data.length) (n - b.data.length)
          (d + b.data.length) hrest
        refine ⟨?_, i2, ?_⟩
        · rw [i1]; simp only [flat_cons, List.length_append]; omega
        · rw [i3]; simp only [flat_cons, List.drop_append]
          rw [List.drop_eq_nil_of_le (as := b.data) (i := n) (by omega)]; simp

/-! ### ReadFrom -/

theorem fresh_add (gen : Nat → α) (pos a b : Nat) :
    Fifo.fresh gen pos (a + b) = Fifo.fresh gen pos a ++ Fifo.fresh gen (pos + a) b := by
  simp [Fifo.fresh, List.range_add, Nat.add_assoc]

@[simp] theorem fresh_zero (gen : Nat → α) (pos : Nat) : Fifo.fresh gen pos 0 = [] := by
  simp [Fifo.fresh]

@[simp] theorem fresh_length (gen : Nat → α) (pos m : Nat) : (Fifo.fresh gen pos m).length = m := by
  simp [Fifo.fresh]

theorem wf_pushBack (l : LL α) (b : Seg α) (h : l.WF) (hb : b.data ≠ []) : (l.pushBack b).WF := by
  obtain ⟨h1, h2, h3⟩ := h
  refine ⟨?_, ?_, ?_⟩
  · simp only [LL.pushBack, List.length_append, List.length_cons, List.length_nil]; omega
  · simp only [LL.pushBack, List.map_append, List.sum_append, List.map_cons, List.map_nil,
      List.sum_cons, List.sum_nil]; omega
  · intro s hs
    simp only [LL.pushBack, List.mem_append, List.mem_singleton] at hs
    rcases hs with hs | rfl
    · exact h3 s hs
    · exact hb

theorem wf_pushFront (l : LL α) (b : Seg α) (h : l.WF) (hb : b.data ≠ []) : (l.pushFront b).WF := by
  obtain ⟨h1, h2, h3⟩ := h
  refine ⟨?_, ?_, ?_⟩
  · simp only [LL.pushFront, List.length_cons]; omega
  · simp only [LL.pushFront, List.map_cons, List.sum_cons]; omega
  · intro s hs
    simp only [LL.pushFront, List.mem_cons] at hs
    rcases hs with rfl | hs
    · exact hb
    · exact h3 s hs

@[simp] theorem abs_pushBack (l : LL α) (b : Seg α) : (l.pushBack b).abs = l.abs ++ b.data := by
  simp [LL.pushBack, LL.abs]

@[simp] theorem abs_pushFront (l : LL α) (b : Seg α) : (l.pushFront b).abs = b.data ++ l.abs := by
  simp [LL.pushFront, LL.abs]

theorem readFrom_spec (gen : Nat → α) (l : LL α) (pos n : Nat) (sc : List RStep) (h : l.WF) :
    (l.readFrom gen pos n sc).1.WF ∧
    (l.readFrom gen pos n sc).1.abs = l.abs ++ Fifo.fresh gen pos (SegFifo.rfCount LL.minRead sc) ∧
    (l.readFrom gen pos n sc).2.1 = n + SegFifo.rfCount LL.minRead sc ∧
    (l.readFrom gen pos n sc).2.2.1 = SegFifo.rfErr sc ∧
    (l.readFrom gen pos n sc).2.2.2 = pos + SegFifo.rfCount LL.minRead sc := by
  induction sc generalizing l pos n with
  | nil => simp [LL.readFrom, SegFifo.rfCount, SegFifo.rfErr, h]
  | cons st rest ih =>
    unfold LL.readFrom
    simp only [SegFifo.rfCount, SegFifo.rfErr]
    generalize hm : min st.k LL.minRead = m
    have hl' : (if m > 0 then l.pushBack ⟨Fifo.fresh gen pos m, true⟩ else l).WF ∧
        (if m > 0 then l.pushBack ⟨Fifo.fresh gen pos m, true⟩ else l).abs
          = l.abs ++ Fifo.fresh gen pos m := by
      by_cases hm0 : m > 0
      · rw [if_pos hm0]
        refine ⟨wf_pushBack _ _ h ?_, by simp⟩
        intro hnil
        have := congrArg List.length hnil
        simp at this; omega
      · rw [if_neg hm0]
        have : m = 0 := by omega
        subst this; simp [h]
    generalize (if m > 0 then l.pushBack ⟨Fifo.fresh gen pos m, true⟩ else l) = l' at hl'
    obtain ⟨hw, ha⟩ := hl'
    by_cases he : st.err = .eof
    · rw [if_pos he]
      have hne : st.err ≠ .nil := by rw [he]; decide
      simp [he, hw, ha]
    · rw [if_neg he]
      by_cases hn : st.err = .nil
      · have : ¬ (st.err ≠ .nil) := by simp [hn]
        rw [if_neg this]
        obtain ⟨i1, i2, i3, i4, i5⟩ := ih l' (pos + m) (n + m) hw
        refine ⟨i1, ?_, ?_, ?_, ?_⟩
        · rw [i2, ha, if_pos hn, fresh_add, List.append_assoc]
        · rw [i3, if_pos hn]; omega
        · rw [i4, if_neg he, if_neg this]
        · rw [i5, if_pos hn]; omega
      · rw [if_pos hn]
        simp [he, hn, hw, ha]

/-! ### WriteTo -/

theorem writeToLoop_spec (segs : List (Seg α)) (size bytes : Int) (sc : List WStep) (n : Nat)
    (sink : List α) (h : (LL.mk segs size bytes).WF) :
    ∃ m, m ≤ (flat segs).length ∧
      (LL.writeToLoop segs size bytes sc n sink).1.WF ∧
      (LL.writeToLoop segs size bytes sc n sink).1.abs = (flat segs).drop m ∧
      (LL.writeToLoop segs size bytes sc n sink).2.1 = n + m ∧
      (LL.writeToLoop segs size bytes sc n sink).2.2.2 = sink ++ (flat segs).take m ∧
      ((LL.writeToLoop segs size bytes sc n sink).2.2.1 = .nil → m = (flat segs).length) := by
  induction segs generalizing size bytes sc n sink with
  | nil => exact ⟨0, by simp [LL.writeToLoop, h]⟩
  | cons b rest ih =>
    rw [wf_cons_iff] at h
    obtain ⟨hb, hrest⟩ := h
    have hlen : 0 < b.data.length := List.length_pos_iff.mpr hb
    unfold LL.writeToLoop
    simp only
    generalize hws : LL.wstep sc b.data.length = ws
    obtain ⟨m, err, sc'⟩ := ws
    have hmle : m ≤ b.data.length := by
      cases sc with
      | nil => simp [LL.wstep] at hws; omega
      | cons s t => simp [LL.wstep] at hws; omega
    simp only
    by_cases h1 : m < b.data.length
    · rw [if_pos h1]
      refine ⟨m, ?_, ?_, ?_, rfl, ?_, ?_⟩
      · simp only [flat_cons, List.length_append]; omega
      · rw [wf_cons_iff]
        refine ⟨?_, ?_⟩
        · simp only [ne_eq, List.drop_eq_nil_iff]; omega
        · have : (size - 1 + 1 - 1 : Int) = size - 1 := by omega
          simp only [List.length_drop]
          rw [this]
          have : (bytes - ↑b.data.length + ↑(b.data.length - m) - ↑(b.data.length - m) : Int)
              = bytes - b.data.length := by omega
          rw [this]; exact hrest
      · simp [List.drop_append_of_le_length (Nat.le_of_lt h1)]
      · simp [List.take_append_of_le_length (Nat.le_of_lt h1)]
      · intro he
        exfalso
        simp only at he
        by_cases hen : err = .nil
        · rw [if_pos hen] at he; cases he
        · rw [if_neg hen] at he; exact hen he
    · rw [if_neg h1]
      have hm : m = b.data.length := by omega
      subst hm
      by_cases he : err ≠ .nil
      · rw [if_pos he]
        refine ⟨b.data.length, ?_, hrest, ?_, rfl, ?_, ?_⟩
        · simp
        · simp
        · simp
        · intro h'; exact absurd h' he
      · rw [if_neg he]
        obtain ⟨m', j1, j2, j3, j4, j5, j6⟩ := ih (size - 1) (bytes - b.data.length) sc'
          (n + b.data.length) (sink ++ b.data) hrest
        refine ⟨b.data.length + m', ?_, j2, ?_, ?_, ?_, ?_⟩
        · simp only [flat_cons, List.length_append]; omega
        · rw [j3]; simp [List.drop_append]
        · rw [j4]; omega
        · rw [j5]; simp [List.take_append, List.take_of_length_le]
        · intro h'; have := j6 h'; simp only [flat_cons, List.length_append]; omega

/-! ### API-level lemmas -/

theorem read_spec (l : LL α) (n : Nat) (h : l.WF) :
    (l.read n).1.WF ∧ (l.read n).1.abs = l.abs.drop n ∧ (l.read n).2.1 = l.abs.take n ∧
    ((l.read n).2.2 = .nil ∨ (l.abs = [] ∧ 0 < n)) := by
  unfold LL.read
  by_cases hn : n = 0
  · rw [if_pos hn]; subst hn; simp [h]
  · rw [if_neg hn]
    obtain ⟨r1, r2, r3⟩ := readLoop_spec l.segs l.size l.bytes n h
    rcases hx : LL.readLoop l.segs l.size l.bytes n with ⟨d, l'⟩
    rw [hx] at r1 r2 r3
    simp only at r1 r2 r3 ⊢
    refine ⟨r2, r3, r1, ?_⟩
    by_cases hd : d.length = 0
    · right
      rw [r1, List.length_take] at hd
      refine ⟨?_, by omega⟩
      apply List.length_eq_zero_iff.mp
      show (flat l.segs).length = 0
      omega
    · left; rw [if_neg hd]

theorem peek_flatten (l : LL α) (mx : Nat) :
    (LL.peekLoop (l.segs.map (·.data)) 0 mx).1.flatten = l.abs.take mx := by
  rw [peekLoop_spec _ _ _ (Nat.zero_le _)]; rfl

theorem discard_spec (l : LL α) (n : Int) (h : l.WF) :
    (l.discard n).1.WF ∧ (l.discard n).1.abs = l.abs.drop n.toNat ∧
    (l.discard n).2 = min n.toNat l.abs.length := by
  unfold LL.discard
  by_cases hn : n ≤ 0
  · rw [if_pos hn]
    have : n.toNat = 0 := by omega
    simp [this, h]
  · rw [if_neg hn]
    obtain ⟨r1, r2, r3⟩ := discardLoop_spec l.segs l.size l.bytes n.toNat 0 h
    rcases hx : LL.discardLoop l.segs l.size l.bytes n.toNat 0 with ⟨d, l'⟩
    rw [hx] at r1 r2 r3
    simp only at r1 r2 r3 ⊢
    refine ⟨r2, r3, ?_⟩
    rw [r1]; simp [abs_eq]

theorem writeTo_spec (l : LL α) (sc : List WStep) (h : l.WF) :
    ∃ m, m ≤ l.abs.length ∧ (l.writeTo sc).1.WF ∧ (l.writeTo sc).1.abs = l.abs.drop m ∧
      (l.writeTo sc).2.1 = m ∧ (l.writeTo sc).2.2.2 = l.abs.take m ∧
      ((l.writeTo sc).2.2.1 = .nil → m = l.abs.length) := by
  obtain ⟨m, h1, h2, h3, h4, h5, h6⟩ := writeToLoop_spec l.segs l.size l.bytes sc 0 [] h
  refine ⟨m, h1, h2, h3, ?_, ?_, h6⟩
  · unfold LL.writeTo; rw [h4]; omega
  · unfold LL.writeTo; rw [h5]; simp [abs_eq]

theorem ite_pair_snd {β γ : Type} (c : Prop) [Decidable c] (a b : β) (e : γ) :
    (if c then (a, e) else (b, e)).2 = e := by
  split <;> rfl

theorem peekWithBytes_flatten (l : LL α) (mx : Nat) (bs : List (List α)) :
    (if (LL.pwbLoop bs 0 mx).2.2 = true then ((LL.pwbLoop bs 0 mx).1, Err.nil)
      else ((LL.pwbLoop bs 0 mx).1 ++
        (LL.peekLoop (l.segs.map (fun s : Seg α => s.data)) (LL.pwbLoop bs 0 mx).2.1 mx).1,
          Err.nil)).1.flatten
      = (bs.flatten ++ l.abs).take mx := by
  obtain ⟨p1, p2, p3, p4⟩ := pwbLoop_spec bs 0 mx (Nat.zero_le _)
  rcases hx : LL.pwbLoop bs 0 mx with ⟨r, cum, done⟩
  rw [hx] at p1 p2 p3 p4
  simp only [Nat.sub_zero, Nat.zero_add] at p1 p2 p3 p4 ⊢
  cases done with
  | true =>
    have := p3 rfl
    simp only [if_true]
    rw [p1, List.take_append_of_le_length this]
  | false =>
    have := p4 rfl
    simp only [Bool.false_eq_true, if_false, List.flatten_append]
    rw [p1, peekLoop_spec _ _ _ (by omega), List.take_append, List.take_of_length_le this]
    have : min mx bs.flatten.length = bs.flatten.length := by omega
    rw [p2, this]; rfl

/-! ### main theorems -/

theorem empty_wf : (LL.empty : LL α).WF := wf_nil

theorem step_refines (gen : Nat → α) (l : LL α) (pos : Nat) (op : SegFifo.Op α) (h : l.WF) :
    (LL.step gen (l, pos) op).1.1.WF ∧
    SegFifo.Step gen LL.minRead (l.abs, pos) op
      ((LL.step gen (l, pos) op).1.1.abs, (LL.step gen (l, pos) op).1.2) (LL.step gen (l, pos) op).2 := by
  have hbytes := wf_bytes l h
  cases op with
  | pushBack p =>
    simp only [LL.step, LL.pushBackCopy]
    by_cases hp : p.length = 0
    · have : p = [] := List.length_eq_zero_iff.mp hp
      subst this
      rw [if_pos hp]
      exact ⟨h, by simpa using SegFifo.Step.pushBack (gen := gen) (minRead := LL.minRead) l.abs pos []⟩
    · rw [if_neg hp]
      refine ⟨wf_pushBack _ _ h (by intro h'; simp at h'; simp [h'] at hp), ?_⟩
      rw [abs_pushBack]; exact SegFifo.Step.pushBack _ _ _
  | pushFront p =>
    simp only [LL.step, LL.pushFrontCopy]
    by_cases hp : p.length = 0
    · have : p = [] := List.length_eq_zero_iff.mp hp
      subst this
      rw [if_pos hp]
      exact ⟨h, by simpa using SegFifo.Step.pushFront (gen := gen) (minRead := LL.minRead) l.abs pos []⟩
    · rw [if_neg hp]
      refine ⟨wf_pushFront _ _ h (by intro h'; simp at h'; simp [h'] at hp), ?_⟩
      rw [abs_pushFront]; exact SegFifo.Step.pushFront _ _ _
  | append p =>
    simp only [LL.step, LL.append]
    by_cases hp : p.length = 0
    · have : p = [] := List.length_eq_zero_iff.mp hp
      subst this
      rw [if_pos hp]
      exact ⟨h, by simpa using SegFifo.Step.append (gen := gen) (minRead := LL.minRead) l.abs pos []⟩
    · rw [if_neg hp]
      refine ⟨wf_pushBack _ _ h (by intro h'; simp at h'; simp [h'] at hp), ?_⟩
      rw [abs_pushBack]; exact SegFifo.Step.append _ _ _
  | pop =>
    rcases l with ⟨segs, size, bytes⟩
    cases segs with
    | nil =>
      simp only [LL.step, LL.popBytes, LL.pop]
      refine ⟨h, ?_⟩
      have := SegFifo.Step.pop (gen := gen) (minRead := LL.minRead) ([] : List α) pos 0
        (Nat.le_refl _) (by simp)
      simpa using this
    | cons b rest =>
      simp only [LL.step, LL.popBytes, LL.pop]
      rw [wf_cons_iff] at h
      obtain ⟨hb, hrest⟩ := h
      refine ⟨hrest, ?_⟩
      have := SegFifo.Step.pop (gen := gen) (minRead := LL.minRead) (b.data ++ flat rest) pos
        b.data.length (by simp) (by simp [hb])
      simpa using this
  | read n =>
    obtain ⟨r1, r2, r3, r4⟩ := read_spec l n h
    rcases hx : l.read n with ⟨l', d, e⟩
    rw [hx] at r1 r2 r3 r4
    simp only at r1 r2 r3 r4
    simp only [LL.step, hx]
    refine ⟨r1, ?_⟩
    rw [r2, r3, List.length_take]
    exact SegFifo.Step.read _ _ _ _ r4
  | peek n =>
    simp only [LL.step, LL.peek]
    refine ⟨h, ?_⟩
    by_cases h1 : n ≤ 0 ∨ n = (LL.maxInt32 : Int)
    · rw [if_pos h1]
      simp only [peek_flatten, List.length_take]
      exact SegFifo.Step.peekAll _ _ _ h1
    · rw [if_neg h1]
      have hn : 0 < n := by omega
      have hm : n ≠ (SegFifo.maxInt32 : Int) := fun h' => h1 (Or.inr h')
      by_cases h2 : n > l.buffered
      · rw [if_pos h2]
        simp only [List.flatten_nil, List.length_nil]
        refine SegFifo.Step.peekShort _ _ _ hn hm ?_
        simp only [LL.buffered] at h2; omega
      · rw [if_neg h2]
        simp only [LL.buffered] at h2
        have hle : n.toNat ≤ l.abs.length := by omega
        simp only [peek_flatten, List.length_take]
        rw [Nat.min_eq_left hle]
        exact SegFifo.Step.peek _ _ _ hn hm hle
  | peekWithBytes n bs =>
    simp only [LL.step, LL.peekWithBytes]
    refine ⟨h, ?_⟩
    have hsum : (bs.map List.length).sum = bs.flatten.length := by
      rw [List.length_flatten]
    rw [hsum]
    by_cases h1 : n > 0 ∧ n ≠ (LL.maxInt32 : Int) ∧ n > l.buffered + (bs.flatten.length : Int)
    · rw [if_pos h1]
      simp only [List.flatten_nil, List.length_nil]
      refine SegFifo.Step.peekWithBytesShort _ _ _ _ h1.1 h1.2.1 ?_
      simp only [LL.buffered, List.length_append] at h1 ⊢; omega
    · rw [if_neg h1]
      simp only [peekWithBytes_flatten, ite_pair_snd, List.length_take]
      by_cases h2 : n ≤ 0 ∨ n = (LL.maxInt32 : Int)
      · rw [if_pos h2]
        exact SegFifo.Step.peekWithBytesAll _ _ _ _ h2
      · rw [if_neg h2]
        have hn : 0 < n := by omega
        have hm : n ≠ (SegFifo.maxInt32 : Int) := fun h' => h2 (Or.inr h')
        have hle : n.toNat ≤ (bs.flatten ++ l.abs).length := by
          have : ¬ (n > l.buffered + (bs.flatten.length : Int)) := fun h' => h1 ⟨hn, hm, h'⟩
          simp only [LL.buffered, List.length_append] at this ⊢; omega
        rw [Nat.min_eq_left hle]
        exact SegFifo.Step.peekWithBytes _ _ _ _ hn hm hle
  | discard n =>
    obtain ⟨r1, r2, r3⟩ := discard_spec l n h
    rcases hx : l.discard n with ⟨l', d⟩
    rw [hx] at r1 r2 r3
    simp only at r1 r2 r3
    simp only [LL.step, hx]
    refine ⟨r1, ?_⟩
    rw [r2, r3]
    exact SegFifo.Step.discard _ _ _
  | readFrom sc =>
    obtain ⟨r1, r2, r3, r4, r5⟩ := readFrom_spec gen l pos 0 sc h
    rcases hx : l.readFrom gen pos 0 sc with ⟨l', k, e, pos'⟩
    rw [hx] at r1 r2 r3 r4 r5
    simp only [Nat.zero_add] at r1 r2 r3 r4 r5
    simp only [LL.step, hx]
    refine ⟨r1, ?_⟩
    rw [r2, r3, r4, r5]
    exact SegFifo.Step.readFrom _ _ _
  | writeTo sc =>
    obtain ⟨m, r0, r1, r2, r3, r4, r5⟩ := writeTo_spec l sc h
    rcases hx : l.writeTo sc with ⟨l', k, e, sink⟩
    rw [hx] at r1 r2 r3 r4 r5
    simp only at r1 r2 r3 r4 r5
    simp only [LL.step, hx]
    refine ⟨r1, ?_⟩
    rw [r2, r3, r4]
    exact SegFifo.Step.writeTo _ _ sc m e r0 r5
  | reset =>
    simp only [LL.step, LL.reset]
    exact ⟨wf_nil, SegFifo.Step.reset _ _⟩

theorem run_refines_gen (gen : Nat → α) (ops : List (SegFifo.Op α)) (l : LL α) (pos : Nat)
    (h : l.WF) :
    (LL.run gen (l, pos) ops).1.1.WF ∧
    SegFifo.Run gen LL.minRead (l.abs, pos) ops (LL.run gen (l, pos) ops).2
      ((LL.run gen (l, pos) ops).1.1.abs, (LL.run gen (l, pos) ops).1.2) := by
  induction ops generalizing l pos with
  | nil => exact ⟨h, SegFifo.Run.nil _⟩
  | cons op ops ih =>
    obtain ⟨s1, s2⟩ := step_refines gen l pos op h
    rcases hx : LL.step gen (l, pos) op with ⟨⟨l', pos'⟩, o⟩
    rw [hx] at s1 s2
    simp only at s1 s2
    obtain ⟨i1, i2⟩ := ih l' pos' s1
    simp only [LL.run, hx]
    exact ⟨i1, SegFifo.Run.cons _ _ _ _ _ _ _ s2 i2⟩

theorem run_refines (gen : Nat → α) (ops : List (SegFifo.Op α)) :
    (LL.run gen (LL.empty, 0) ops).1.1.WF ∧
    SegFifo.Run gen LL.minRead ([], 0) ops (LL.run gen (LL.empty, 0) ops).2
      ((LL.run gen (LL.empty, 0) ops).1.1.abs, (LL.run gen (LL.empty, 0) ops).1.2) :=
  run_refines_gen gen ops LL.empty 0 empty_wf

theorem counters (l : LL α) (h : l.WF) :
    l.buffered = (l.abs.length : Int) ∧ l.len = (l.segs.length : Int) ∧
    (l.isEmpty = true ↔ l.buffered = 0) := by
  refine ⟨wf_bytes l h, h.size_eq, ?_⟩
  have hb := wf_bytes l h
  rcases l with ⟨segs, size, bytes⟩
  cases segs with
  | nil => simp only [abs_mk, flat_nil, List.length_nil] at hb; simp [LL.isEmpty, LL.buffered, hb]
  | cons b rest =>
    have hne := h.no_empty b (by simp)
    have : 0 < b.data.length := List.length_pos_iff.mpr hne
    simp only [abs_mk, flat_cons, List.length_append] at hb
    simp only [LL.isEmpty, LL.buffered, List.isEmpty_cons, Bool.false_eq_true, false_iff]
    omega

/-! ### ownership -/

def Owned (segs : List (Seg α)) : Prop := ∀ s ∈ segs, s.owned = true

theorem owned_tail {b : Seg α} {rest : List (Seg α)} (h : Owned (b :: rest)) : Owned rest :=
  fun s hs => h s (List.mem_cons_of_mem _ hs)

theorem owned_cons {b : Seg α} {rest : List (Seg α)} (hb : b.owned = true) (h : Owned rest) :
    Owned (b :: rest) := by
  intro s hs
  rcases List.mem_cons.mp hs with rfl | hs
  · exact hb
  · exact h s hs

theorem readLoop_owned (segs : List (Seg α)) (size bytes : Int) (want : Nat) (h : Owned segs) :
    Owned (LL.readLoop segs size bytes want).2.segs := by
  induction segs generalizing size bytes want with
  | nil => simpa [LL.readLoop] using h
  | cons b rest ih =>
    unfold LL.readLoop
    simp only
    split
    · exact owned_cons (h b (by simp)) (owned_tail h)
    · split
      · exact owned_tail h
      · exact ih _ _ _ (owned_tail h)

theorem discardLoop_owned (segs : List (Seg α)) (size bytes : Int) (n d : Nat) (h : Owned segs) :
    Owned (LL.discardLoop segs size bytes n d).2.segs := by
  induction segs generalizing size bytes n d with
  | nil => unfold LL.discardLoop; split <;> simpa using h
  | cons b rest ih =>
    unfold LL.discardLoop
    split
    · exact h
    · simp only
      split
      · exact owned_cons (h b (by simp)) (owned_tail h)
      · exact ih _ _ _ _ (owned_tail h)

theorem writeToLoop_owned (segs : List (Seg α)) (size bytes : Int) (sc : List WStep) (n : Nat)
    (sink : List α) (h : Owned segs) :
    Owned (LL.writeToLoop segs size bytes sc n sink).1.segs := by
  induction segs generalizing size bytes sc n sink with
  | nil => simpa [LL.writeToLoop] using h
  | cons b rest ih =>
    unfold LL.writeToLoop
    simp only
    split
    · exact owned_cons (h b (by simp)) (owned_tail h)
    · split
      · exact owned_tail h
      · exact ih _ _ _ _ _ (owned_tail h)

theorem owned_pushBack (l : LL α) (b : Seg α) (h : Owned l.segs) (hb : b.owned = true) :
    Owned (l.pushBack b).segs := by
  intro s hs
  simp only [LL.pushBack, List.mem_append, List.mem_singleton] at hs
  rcases hs with hs | rfl
  · exact h s hs
  · exact hb

theorem readFrom_owned (gen : Nat → α) (l : LL α) (pos n : Nat) (sc : List RStep)
    (h : Owned l.segs) : Owned (l.readFrom gen pos n sc).1.segs := by
  induction sc generalizing l pos n with
  | nil => simpa [LL.readFrom] using h
  | cons st rest ih =>
    unfold LL.readFrom
    simp only
    have hl' : Owned (if min st.k LL.minRead > 0 then
        l.pushBack ⟨Fifo.fresh gen pos (min st.k LL.minRead), true⟩ else l).segs := by
      split
      · exact owned_pushBack _ _ h rfl
      · exact h
    split
    · exact hl'
    · split
      · exact hl'
      · exact ih _ _ _ hl'

theorem copy_semantics (gen : Nat → α) (l : LL α) (pos : Nat) (op : SegFifo.Op α)
    (h : l.AllOwned) (hop : ∀ p, op ≠ .append p) : (LL.step gen (l, pos) op).1.1.AllOwned := by
  have h' : Owned l.segs := h
  show Owned (LL.step gen (l, pos) op).1.1.segs
  cases op with
  | pushBack p =>
    simp only [LL.step, LL.pushBackCopy]
    split
    · exact h'
    · exact owned_pushBack _ _ h' rfl
  | pushFront p =>
    simp only [LL.step, LL.pushFrontCopy]
    split
    · exact h'
    · exact owned_cons rfl h'
  | append p => exact absurd rfl (hop p)
  | pop =>
    rcases l with ⟨segs, size, bytes⟩
    cases segs with
    | nil => simpa [LL.step, LL.popBytes, LL.pop] using h'
    | cons b rest =>
      simp only [LL.step, LL.popBytes, LL.pop]
      exact owned_tail h'
  | read n =>
    simp only [LL.step, LL.read]
    split
    · exact h'
    · exact readLoop_owned _ _ _ _ h'
  | peek n => exact h'
  | peekWithBytes n bs => exact h'
  | discard n =>
    simp only [LL.step, LL.discard]
    split
    · exact h'
    · exact discardLoop_owned _ _ _ _ _ h'
  | readFrom sc => exact readFrom_owned gen l pos 0 sc h'
  | writeTo sc => exact writeToLoop_owned _ _ _ _ _ _ h'
  | reset =>
    simp only [LL.step, LL.reset]
    intro s hs; cases hs

end Gnet.Proofs.LinkedList
