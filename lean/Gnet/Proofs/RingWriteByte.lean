import Gnet.Proofs.RingWrite
set_option linter.unusedSectionVars false
set_option linter.unusedVariables false
set_option linter.unusedSimpArgs false
namespace Gnet.Proofs.Ring
open Gnet
variable {α : Type} [Inhabited α]

/-- `WriteByte` after the growth decision -/
def writeByteCore (rb : Ring α) (c : α) : Ring α :=
  let rb : Ring α := { rb with buf := rb.buf.set rb.w c, w := rb.w + 1 }
  let rb : Ring α := if rb.w = rb.size then { rb with w := 0 } else rb
  { rb with isEmpty := false }

theorem writeByte_eq (rb : Ring α) (c : α) :
    rb.writeByte c = writeByteCore (if rb.available < 1 then rb.grow (rb.size + 1) else rb) c := rfl

theorem set_eq_blit (buf : List α) (w : Nat) (c : α) (h : w < buf.length) :
    buf.set w c = buf.take w ++ [c] ++ buf.drop (w + 1) := by
  rw [List.set_eq_take_append_cons_drop, if_pos h]
  simp

theorem writeByteCore_spec (rb : Ring α) (c : α) (h : rb.WF) (hfit : 1 ≤ rb.available) :
    rb.w < rb.buf.length ∧ (writeByteCore rb c).WF ∧ (writeByteCore rb c).abs = rb.abs ++ [c] := by
  rcases rb with ⟨buf, size, r, w, e⟩
  obtain ⟨hl, hr, hw, he, hz⟩ := h
  simp only at hl hr hw he hz
  simp only [Ring.available] at hfit
  cases e
  · have hz' : size ≠ 0 := by simpa using hz
    have hr' : r < size := by omega
    have hw' : w < size := by omega
    simp only [Bool.false_eq_true, if_false] at hfit
    by_cases hrw : r = w
    · simp only [hrw, if_true] at hfit; omega
    · simp only [writeByteCore]
      rw [set_eq_blit _ _ _ (by omega)]
      ring_auto
  · obtain ⟨rfl, rfl⟩ := he rfl
    simp only [if_true] at hfit
    simp only [writeByteCore]
    rw [set_eq_blit _ _ _ (by omega)]
    ring_auto

theorem writeByte_spec (rb : Ring α) (c : α) (h : rb.WF) :
    rb.writeByteSafe c = true ∧ (rb.writeByte c).WF ∧ (rb.writeByte c).abs = rb.abs ++ [c] := by
  have hav := available_eq rb h
  have hlen := abs_length_le rb h
  have hg := grown_spec rb 1 h
  have harg : (if rb.available < 1 then rb.grow (rb.size + 1) else rb) =
      (if rb.available < 1 then rb.grow (rb.abs.length + 1) else rb) := by
    split
    · have : rb.size = rb.abs.length := by omega
      rw [this]
    · rfl
  have harg2 : (if rb.available < 1 then rb.readSafe (Ring.growCap rb.size (rb.size + 1)) else true) =
      (if rb.available < 1 then rb.readSafe (Ring.growCap rb.size (rb.abs.length + 1)) else true) := by
    split
    · have : rb.abs.length = rb.size := by omega
      rw [this]
    · rfl
  rw [writeByte_eq]
  unfold Ring.writeByteSafe
  simp only [harg, harg2]
  simp only at hg
  generalize (if rb.available < 1 then rb.grow (rb.abs.length + 1) else rb) = rb1 at hg ⊢
  obtain ⟨hwf1, habs1, hfit1, hsafe⟩ := hg
  have hc := writeByteCore_spec rb1 c hwf1 hfit1
  refine ⟨?_, hc.2.1, by rw [hc.2.2, habs1]⟩
  simp only [Bool.and_eq_true, decide_eq_true_eq]
  refine ⟨?_, hc.1⟩
  split
  · exact hsafe ‹_›
  · rfl

end Gnet.Proofs.Ring
