/-
  The map registry refines the specification.
-/
import Gnet.Proofs.RegistrySpec
namespace Gnet.Proofs.Registry
open Gnet

@[simp] theorem upd_same {β : Type} (f : Nat → β) (k : Nat) (v : β) : Matrix.upd f k v k = v := by
  simp [Matrix.upd]
@[simp] theorem upd_other {β : Type} (f : Nat → β) (k : Nat) (v : β) (i : Nat) (h : i ≠ k) :
    Matrix.upd f k v i = f i := by simp [Matrix.upd, h]
@[simp] theorem updI_same {β : Type} (f : Int → β) (k : Int) (v : β) : Matrix.updI f k v k = v := by
  simp [Matrix.updI]
@[simp] theorem updI_other {β : Type} (f : Int → β) (k : Int) (v : β) (i : Int) (h : i ≠ k) :
    Matrix.updI f k v i = f i := by simp [Matrix.updI, h]

/-- representation invariant of the map registry -/
structure MInv (m : RegMap) (s : RegSpec) : Prop where
  sinv : SInv s
  conns : ∀ fd, m.conns fd = s.lookup fd
  live : m.live = s.live.map (·.1)
  count : m.count = s.live.length
  objs : ∀ id, m.objs id = s.fdOf id

theorem MInv.init : MInv RegMap.init RegSpec.init :=
  ⟨SInv.init, fun _ => rfl, rfl, rfl, fun _ => rfl⟩

theorem erase_keys {l : List (Int × Nat)} (hpw : l.Pairwise Apart) {fd : Int} {id : Nat}
    (hp : (fd, id) ∈ l) : (l.map (·.1)).erase fd = (l.filter (fun p => p.2 != id)).map (·.1) := by
  induction l with
  | nil => cases hp
  | cons a t ih =>
    rw [List.pairwise_cons] at hpw
    by_cases ha : a = (fd, id)
    · subst ha
      have hfil : t.filter (fun p => p.2 != id) = t := by
        rw [List.filter_eq_self]
        intro q hq
        have := (hpw.1 q hq).2
        simpa using fun e => this e.symm
      simp [hfil]
    · have hin : (fd, id) ∈ t := by
        rcases List.mem_cons.1 hp with e | e
        · exact absurd e.symm ha
        · exact e
      have hap := hpw.1 _ hin
      have h1 : a.1 ≠ fd := hap.1
      have h2 : a.2 ≠ id := hap.2
      rw [List.map_cons, List.erase_cons_tail (by simpa using h1), ih hpw.2 hin,
        List.filter_cons_of_pos (by simpa using h2), List.map_cons]

theorem MInv.conn {m : RegMap} {s : RegSpec} (h : MInv m s) (id : Nat) (fd : Int)
    (hv : s.valid 0 (.conn id fd) ∨ True) (hs : SInv (s.step (.conn id fd))) :
    MInv (m.newConn id fd) (s.step (.conn id fd)) := by
  refine ⟨hs, h.conns, h.live, h.count, ?_⟩
  intro i
  show Matrix.upd m.objs id fd i = if i = id then fd else s.fdOf i
  by_cases e : i = id
  · subst e; simp
  · simp [e, h.objs]

theorem MInv.add {m : RegMap} {s : RegSpec} (h : MInv m s) (id el : Nat)
    (hv : ∀ p ∈ s.live, p.1 ≠ s.fdOf id ∧ p.2 ≠ id) (hs : SInv (s.step (.add id el))) :
    MInv (m.addConn id) (s.step (.add id el)) := by
  have hmem : (s.fdOf id, id) ∈ (s.step (.add id el)).live := by
    show (s.fdOf id, id) ∈ s.live ++ [(s.fdOf id, id)]
    simp
  refine ⟨hs, ?_, ?_, ?_, h.objs⟩
  · intro fd
    show Matrix.updI m.conns (m.objs id) (some id) fd = _
    rw [h.objs]
    by_cases e : fd = s.fdOf id
    · subst e
      rw [updI_same, hs.lookup_mem hmem]
    · rw [updI_other _ _ _ _ e, h.conns]
      by_cases hk : ∃ p ∈ s.live, p.1 = fd
      · obtain ⟨p, hp, rfl⟩ := hk
        rw [h.sinv.lookup_mem (show (p.1, p.2) ∈ s.live from hp)]
        have : (p.1, p.2) ∈ (s.step (.add id el)).live := by
          show (p.1, p.2) ∈ s.live ++ [(s.fdOf id, id)]
          exact List.mem_append_left _ hp
        rw [hs.lookup_mem this]
      · have hk' : ∀ p ∈ s.live, p.1 ≠ fd := fun p hp e => hk ⟨p, hp, e⟩
        rw [lookup_not_key hk', lookup_not_key]
        intro p hp
        have hp' : p ∈ s.live ++ [(s.fdOf id, id)] := hp
        rcases List.mem_append.1 hp' with hp | hp
        · exact hk' p hp
        · rw [List.mem_singleton] at hp; subst hp; exact fun e' => e e'.symm
  · show (if m.live.contains (m.objs id) then m.live else m.live ++ [m.objs id]) = _
    have hnc : m.live.contains (m.objs id) = false := by
      rw [h.live, h.objs]
      apply Bool.eq_false_iff.2
      intro hc
      rw [List.contains_iff_mem, List.mem_map] at hc
      obtain ⟨p, hp, e⟩ := hc
      exact (hv p hp).1 e
    rw [hnc, h.live, h.objs]
    show _ = (s.live ++ [(s.fdOf id, id)]).map (·.1)
    simp
  · show m.count + 1 = ((s.live ++ [(s.fdOf id, id)]).length : Int)
    rw [h.count]; simp

theorem MInv.del {m : RegMap} {s : RegSpec} (h : MInv m s) (id : Nat)
    (hv : (s.fdOf id, id) ∈ s.live) (hs : SInv (s.step (.del id))) :
    MInv (m.delConn id) (s.step (.del id)) := by
  have hlive : (s.step (.del id)).live = s.live.filter (fun p => p.2 != id) := rfl
  refine ⟨hs, ?_, ?_, ?_, h.objs⟩
  · intro fd
    show Matrix.updI m.conns (m.objs id) none fd = _
    rw [h.objs]
    by_cases e : fd = s.fdOf id
    · subst e
      rw [updI_same, lookup_not_key]
      intro p hp e
      rw [hlive, List.mem_filter] at hp
      have := h.sinv.eq_of_fst hp.1 hv e
      subst this
      simp at hp
    · rw [updI_other _ _ _ _ e, h.conns]
      by_cases hk : ∃ p ∈ s.live, p.1 = fd
      · obtain ⟨p, hp, rfl⟩ := hk
        rw [h.sinv.lookup_mem (show (p.1, p.2) ∈ s.live from hp)]
        have hne : p.2 ≠ id := by
          intro e2
          have := h.sinv.eq_of_snd hp hv e2
          subst this
          exact e rfl
        have : (p.1, p.2) ∈ (s.step (.del id)).live := by
          rw [hlive, List.mem_filter]
          exact ⟨hp, by simpa using hne⟩
        rw [hs.lookup_mem this]
      · have hk' : ∀ p ∈ s.live, p.1 ≠ fd := fun p hp e => hk ⟨p, hp, e⟩
        rw [lookup_not_key hk', lookup_not_key]
        intro p hp
        rw [hlive, List.mem_filter] at hp
        exact hk' p hp.1
  · show m.live.erase (m.objs id) = _
    rw [h.live, h.objs, hlive]
    exact erase_keys h.sinv.pw hv
  · show m.count - 1 = ((s.live.filter (fun p => p.2 != id)).length : Int)
    rw [h.count]
    have := filter_length h.sinv.pw hv
    omega

/-- the fold of `RegMap.iterate`, generalised over the remaining entries -/
theorem iterate_fold (del : Bool) : ∀ (l : List (Int × Nat)) (m : RegMap) (fdOf : Nat → Int) (acc : List Nat),
    MInv m ⟨l, fdOf⟩ →
    ∃ m', (l.map (·.1)).foldl (fun (acc : RegMap × List Nat) fd =>
        match acc.1.conns fd with
        | none => acc
        | some id => (if del then acc.1.delConn id else acc.1, acc.2 ++ [id])) (m, acc)
      = (m', acc ++ l.map (·.2)) ∧ (del = true → MInv m' ⟨[], fdOf⟩) ∧ (del = false → m' = m)
  | [], m, fdOf, acc, h => ⟨m, by simp, fun _ => h, fun _ => rfl⟩
  | (fd, id) :: t, m, fdOf, acc, h => by
    have hmem : (fd, id) ∈ (⟨(fd, id) :: t, fdOf⟩ : RegSpec).live := List.mem_cons_self
    have hc : m.conns fd = some id := by rw [h.conns, h.sinv.lookup_mem hmem]
    have hfd : fdOf id = fd := h.sinv.mem_fdOf hmem
    have hpw := h.sinv.pw
    have hpw' : ((fd, id) :: t).Pairwise Apart := hpw
    rw [List.pairwise_cons] at hpw'
    have hfil : ((fd, id) :: t).filter (fun p => p.2 != id) = t := by
      rw [List.filter_cons_of_neg (by simp)]
      rw [List.filter_eq_self]
      intro q hq
      have := (hpw'.1 q hq).2
      simpa using fun e => this e.symm
    cases del with
    | true =>
      have hs' : SInv ((⟨(fd, id) :: t, fdOf⟩ : RegSpec).step (.del id)) :=
        h.sinv.step 0 (.del id) (by show (fdOf id, id) ∈ _; rw [hfd]; exact hmem)
      have hd := h.del id (by show (fdOf id, id) ∈ _; rw [hfd]; exact hmem) hs'
      have hst : (⟨(fd, id) :: t, fdOf⟩ : RegSpec).step (.del id) = ⟨t, fdOf⟩ := by
        show (⟨((fd, id) :: t).filter (fun p => p.2 != id), fdOf⟩ : RegSpec) = _
        rw [hfil]
      rw [hst] at hd
      obtain ⟨m', he, h1, _⟩ := iterate_fold true t (m.delConn id) fdOf (acc ++ [id]) hd
      refine ⟨m', ?_, h1, fun e => Bool.noConfusion e⟩
      rw [List.map_cons, List.foldl_cons]
      simp only [hc]
      simp only [if_true] at he ⊢
      rw [he]
      simp
    | false =>
      -- without deletion the state does not change: a direct argument over the whole list
      have key : ∀ (t' : List (Int × Nat)) (acc' : List Nat), (∀ p ∈ t', m.conns p.1 = some p.2) →
          (t'.map (·.1)).foldl (fun (acc : RegMap × List Nat) fd =>
            match acc.1.conns fd with
            | none => acc
            | some id => (if false = true then acc.1.delConn id else acc.1, acc.2 ++ [id])) (m, acc')
          = (m, acc' ++ t'.map (·.2)) := by
        intro t'
        induction t' with
        | nil => intro acc' _; simp
        | cons a t'' ih =>
          intro acc' hall
          have ha := hall a List.mem_cons_self
          rw [List.map_cons, List.foldl_cons]
          simp only [ha]
          have := ih (acc' ++ [a.2]) (fun p hp => hall p (List.mem_cons_of_mem _ hp))
          simp only [Bool.false_eq_true, if_false] at this ⊢
          rw [this]
          simp
      refine ⟨m, ?_, fun e => Bool.noConfusion e, fun _ => rfl⟩
      apply key
      intro p hp
      rw [h.conns, h.sinv.lookup_mem (show (p.1, p.2) ∈ _ from hp)]

theorem MInv.iter {m : RegMap} {s : RegSpec} (h : MInv m s) (d : Bool) :
    (m.iterate d).2 = s.live.map (·.2) ∧ MInv (m.iterate d).1 (s.step (.iter d)) := by
  obtain ⟨m', he, h1, h2⟩ := iterate_fold d s.live m s.fdOf [] (by cases s; exact h)
  have he' : m.iterate d = (m', s.live.map (·.2)) := by
    unfold RegMap.iterate
    rw [h.live]; exact he.trans (by simp)
  rw [he']
  refine ⟨rfl, ?_⟩
  cases d with
  | true => exact h1 rfl
  | false => rw [h2 rfl]; exact h

theorem map_refines (cap : Nat) : ∀ (ops : List RegOp) (m : RegMap) (s : RegSpec), MInv m s →
    s.validRun cap ops → s.agreesRun ops (m.run ops).2
  | [], _, _, _, _ => trivial
  | op :: ops, m, s, h, hv => by
    have hs' : SInv (s.step op) := h.sinv.step cap op hv.1
    have hrun : (m.run (op :: ops)).2 = (m.runOp op).2 :: ((m.runOp op).1.run ops).2 := rfl
    rw [hrun]
    have step : s.agrees op (m.runOp op).2 ∧ MInv (m.runOp op).1 (s.step op) := by
      cases op with
      | conn id fd => exact ⟨trivial, h.conn id fd (Or.inr trivial) hs'⟩
      | add id el => exact ⟨trivial, h.add id el hv.1.1 hs'⟩
      | del id => exact ⟨trivial, h.del id hv.1 hs'⟩
      | get fd => exact ⟨h.conns fd, h⟩
      | count => exact ⟨h.count, h⟩
      | iter d =>
        have := h.iter d
        refine ⟨?_, this.2⟩
        show ((m.iterate d).2).Perm (s.live.map (·.2))
        rw [this.1]
    exact ⟨step.1, map_refines cap ops _ _ step.2 hv.2⟩

theorem map_run_refines' (ops : List RegOp) (cap : Nat) (hv : RegSpec.init.validRun cap ops) :
    RegSpec.init.agreesRun ops (RegMap.init.run ops).2 :=
  map_refines cap ops _ _ MInv.init hv

end Gnet.Proofs.Registry
