/-
  The invariant through top-level items and whole rounds.
-/
import Gnet.Proofs.ReactorLRound0
namespace Gnet.Proofs.ReactorL
open Gnet.Reactor

set_option maxRecDepth 4000
set_option linter.unusedSimpArgs false

structure K (G : Prop) (cs : List (String × Conn)) (sl : List (String × Bool)) : Prop where
  j : J G cs sl
  nd : ND cs

def topW : Work → Bool
  | .accept .. | .closeConns => true
  | w => plainW w

theorem K_top (G : Prop) (fuel : Nat) (w : Work) (hw : topW w = true) (s : RState)
    (h : K G s.conns s.sysLog) : wp (exec fuel w) (fun _ s' => K G s'.conns s'.sysLog) s := by
  refine wp_mono (wp_and ?_ (nodup_all fuel w s h.nd)) (fun _ _ h => ⟨h.1, h.2⟩)
  cases w <;> first
    | exact J_nt G fuel _ rfl s h.j
    | exact J_target G _ fuel _ rfl s h.j
    | cases hw

set_option hygiene false in
macro "k_auto" : tactic => `(tactic| repeat' first
  | intro _
  | apply And.intro
  | exact True.intro
  | assumption
  | (refine wp_mono (K_top G _ _ rfl _ ?_) ?_ <;> try dsimp only)
  | (split <;> try wsimp))

theorem K_topLevel (G : Prop) (fuel : Nat) (s : RState) (h : K G s.conns s.sysLog) :
    wp (topLevel fuel) (fun _ s' => K G s'.conns s'.sysLog) s := by
  unfold topLevel; wsimp
  k_auto

theorem K_finish (G : Prop) (fuel : Nat) (s : RState) (h : K G s.conns s.sysLog) :
    wp (finish fuel) (fun _ s' => K G s'.conns s'.sysLog) s := by
  unfold finish; wsimp
  k_auto

theorem K_round (G : Prop) : ∀ fuel s, K G s.conns s.sysLog →
    wp (round fuel) (fun _ s' => K G s'.conns s'.sysLog) s := by
  intro fuel
  induction fuel with
  | zero => intro s _; rw [round, wp_throw]; trivial
  | succ fuel ih =>
    intro s h
    rw [round]; wsimp
    repeat' first
      | intro _
      | apply And.intro
      | exact True.intro
      | assumption
      | (refine wp_mono (K_topLevel G _ _ ?_) ?_ <;> try dsimp only)
      | (refine wp_mono (K_finish G _ _ ?_) ?_ <;> try dsimp only)
      | (refine wp_mono (ih _ ?_) ?_ <;> try dsimp only)
      | (split <;> try wsimp)

end Gnet.Proofs.ReactorL
