/-
  Model/DrainOrder.lean with the order of the code is Model/Drain.lean.
-/
import Gnet.Model.DrainOrder
namespace Gnet.Proofs.DrainOrder
open Gnet.DrainOrder

theorem getElem?_map_emb (l : List Drain.ProdPc) (p : Nat) (pc : Drain.ProdPc) :
    ((l.map embProd)[p]? = some (embProd pc)) ↔ (l[p]? = some pc) := by
  rw [List.getElem?_map]
  cases h : l[p]? with
  | none => simp
  | some x => cases x <;> cases pc <;> simp [embProd]

theorem embeds_step (s : Drain.State) (a : Drain.Step) : step asCoded (emb s) a = emb (Drain.step s a) := by
  cases a with
  | loopRun =>
    obtain ⟨loop, exited, queue, prods, next, ran, aborted⟩ := s
    cases loop <;> cases queue <;> simp [step, Drain.step, emb, embLoop]
  | loopLeave =>
    obtain ⟨loop, exited, queue, prods, next, ran, aborted⟩ := s
    cases loop <;> simp [step, Drain.step, emb, embLoop]
  | loopSetExited =>
    obtain ⟨loop, exited, queue, prods, next, ran, aborted⟩ := s
    cases loop <;> simp [step, Drain.step, emb, embLoop, asCoded]
  | loopDrain =>
    obtain ⟨loop, exited, queue, prods, next, ran, aborted⟩ := s
    cases loop <;> cases queue <;> simp [step, Drain.step, emb, embLoop, asCoded]
  | enqueue p =>
    have hiff := getElem?_map_emb s.prods p .idle
    by_cases h : s.prods[p]? = some .idle
    · have h2 : (emb s).prods[p]? = some ProdPc.idle := hiff.mpr h
      simp only [step, Drain.step, asCoded, ↓reduceIte, h, h2]
      simp [emb, setProd, Drain.setProd, List.map_set, embProd]
    · have h2 : ¬ (emb s).prods[p]? = some ProdPc.idle := fun c => h (hiff.mp c)
      simp only [step, Drain.step, asCoded, ↓reduceIte, if_neg h, if_neg h2]
  | load p =>
    have hiff := getElem?_map_emb s.prods p .enqueued
    by_cases h : s.prods[p]? = some .enqueued
    · have h2 : (emb s).prods[p]? = some ProdPc.enqueued := hiff.mpr h
      simp only [step, Drain.step, asCoded, ↓reduceIte, h, h2]
      cases he : s.exited <;> simp [emb, setProd, Drain.setProd, List.map_set, embProd, he]
    · have h2 : ¬ (emb s).prods[p]? = some ProdPc.enqueued := fun c => h (hiff.mp c)
      simp only [step, Drain.step, asCoded, ↓reduceIte, if_neg h, if_neg h2]
  | prodDrain p =>
    have hiff := getElem?_map_emb s.prods p .draining
    by_cases h : s.prods[p]? = some .draining
    · have h2 : (emb s).prods[p]? = some ProdPc.draining := hiff.mpr h
      simp only [step, Drain.step, ↓reduceIte, h, h2]
      cases hq : s.queue <;> simp [emb, setProd, Drain.setProd, List.map_set, embProd, hq]
    · have h2 : ¬ (emb s).prods[p]? = some ProdPc.draining := fun c => h (hiff.mp c)
      simp only [step, Drain.step, if_neg h, if_neg h2]

theorem embeds_run (s : Drain.State) (steps : List Drain.Step) :
    run asCoded (emb s) steps = emb (Drain.run s steps) := by
  induction steps generalizing s with
  | nil => rfl
  | cons a rest ih => simp only [run, Drain.run, embeds_step, ih]

theorem emb_init (n : Nat) : emb (Drain.init n) = init n := by
  simp [emb, Drain.init, init, embLoop, embProd]

theorem emb_quiescent (s : Drain.State) : Quiescent (emb s) = Drain.Quiescent s := by
  simp only [Quiescent, Drain.Quiescent, emb]
  congr 1
  · cases s.loop <;> simp [embLoop] <;> decide
  · rw [List.all_map]
    congr 1
    funext pc
    cases pc <;> simp [embProd] <;> decide

end Gnet.Proofs.DrainOrder
