import Gnet.Model.Sockaddr
namespace Gnet.Proofs.Sockaddr
open Gnet.Sockaddr

/-- a well-formed interface table -/
structure GoodTable (ifs : IfTable) : Prop where
  names_nodup : (ifs.map (·.1)).Nodup
  idx_nodup : (ifs.map (·.2)).Nodup
  idx_pos : ∀ p ∈ ifs, 0 < p.2
  name_ne : ∀ p ∈ ifs, p.1 ≠ ""
  name_not_number : ∀ p ∈ ifs, ∀ n : Nat, p.1 ≠ itod n

/-! ### interface table lookups -/

theorem find_name (ifs : IfTable) (hn : (ifs.map (·.1)).Nodup) (name : String) (idx : Nat)
    (hz : (name, idx) ∈ ifs) : ifs.find? (·.1 == name) = some (name, idx) := by
  induction ifs with
  | nil => simp at hz
  | cons p t ih =>
    rw [List.map_cons, List.nodup_cons] at hn
    rw [List.mem_cons] at hz
    rcases hz with hz | hz
    · subst hz; simp
    · have hne : p.1 ≠ name := by
        intro h
        apply hn.1
        rw [h]
        exact List.mem_map.2 ⟨(name, idx), hz, rfl⟩
      rw [List.find?_cons_of_neg (by simpa using hne)]
      exact ih hn.2 hz

theorem find_idx (ifs : IfTable) (hn : (ifs.map (·.2)).Nodup) (name : String) (idx : Nat)
    (hz : (name, idx) ∈ ifs) : ifs.find? (·.2 == idx) = some (name, idx) := by
  induction ifs with
  | nil => simp at hz
  | cons p t ih =>
    rw [List.map_cons, List.nodup_cons] at hn
    rw [List.mem_cons] at hz
    rcases hz with hz | hz
    · subst hz; simp
    · have hne : p.2 ≠ idx := by
        intro h
        apply hn.1
        rw [h]
        exact List.mem_map.2 ⟨(name, idx), hz, rfl⟩
      rw [List.find?_cons_of_neg (by simpa using hne)]
      exact ih hn.2 hz

/-! ### decimal digits -/

theorem digit_spec (d : Nat) (hd : d < 10) :
    ('0' ≤ Char.ofNat (d + '0'.toNat) ∧ Char.ofNat (d + '0'.toNat) ≤ '9') ∧
      (Char.ofNat (d + '0'.toNat)).toNat - '0'.toNat = d := by
  match d, hd with
  | 0, _ => decide
  | 1, _ => decide
  | 2, _ => decide
  | 3, _ => decide
  | 4, _ => decide
  | 5, _ => decide
  | 6, _ => decide
  | 7, _ => decide
  | 8, _ => decide
  | 9, _ => decide
  | n + 10, h => omega

theorem dtoiLoop_digit (d : Nat) (hd : d < 10) (rest : List Char) (acc i : Nat)
    (hb : acc * 10 + d < big) :
    dtoiLoop (Char.ofNat (d + '0'.toNat) :: rest) acc i = dtoiLoop rest (acc * 10 + d) (i + 1) := by
  obtain ⟨h1, h2⟩ := digit_spec d hd
  rw [dtoiLoop, if_pos h1]
  simp only [h2]
  rw [if_neg (by omega)]

theorem dtoiLoop_digits (f : Nat) : ∀ (v : Nat) (rest : List Char) (acc i : Nat),
    v < 10 ^ f → acc * 10 ^ (itodDigits f v).length + v < big →
    dtoiLoop (itodDigits f v ++ rest) acc i =
      dtoiLoop rest (acc * 10 ^ (itodDigits f v).length + v) (i + (itodDigits f v).length) := by
  induction f with
  | zero =>
    intro v rest acc i hv _
    have : v = 0 := by simpa using hv
    subst this
    simp [itodDigits]
  | succ f ih =>
    intro v rest acc i hv hb
    by_cases h0 : v = 0
    · subst h0; simp [itodDigits]
    · have hv' : v / 10 < 10 ^ f := by
        rw [Nat.pow_succ] at hv
        omega
      have hlen : (itodDigits (f + 1) v).length = (itodDigits f (v / 10)).length + 1 := by
        rw [itodDigits, if_neg h0, List.length_append]; rfl
      rw [hlen] at hb ⊢
      rw [Nat.pow_succ, ← Nat.mul_assoc] at hb ⊢
      generalize hX : acc * 10 ^ (itodDigits f (v / 10)).length = X at hb ⊢
      rw [itodDigits, if_neg h0, List.append_assoc]
      rw [ih (v / 10) _ acc i hv' (by rw [hX]; omega), hX]
      show dtoiLoop (Char.ofNat (v % 10 + '0'.toNat) :: rest) _ _ = _
      rw [dtoiLoop_digit (v % 10) (Nat.mod_lt _ (by decide)) rest _ _ (by omega)]
      have e : (X + v / 10) * 10 + v % 10 = X * 10 + v := by omega
      rw [e, Nat.add_assoc]

theorem itodDigits_ne_nil (f v : Nat) (h0 : v ≠ 0) : itodDigits (f + 1) v ≠ [] := by
  rw [itodDigits, if_neg h0]
  simp

theorem big_lt : big < 10 ^ 32 := by decide

theorem dtoi_ofList_digits (n : Nat) (hb : n < big) (h0 : 0 < n) :
    dtoi (String.ofList (itodDigits 32 n)) = (n, true) := by
  have hl := dtoiLoop_digits 32 n [] 0 0 (Nat.lt_trans hb big_lt) (by omega)
  have hne := itodDigits_ne_nil 31 n (by omega)
  unfold dtoi
  rw [String.toList_ofList]
  rw [List.append_nil] at hl
  rw [hl]
  simp [dtoiLoop, hne]

theorem dtoi_itod (n : Nat) (hb : n < big) (h0 : 0 < n) : dtoi (itod n) = (n, true) := by
  unfold itod
  rw [if_neg (by omega)]
  exact dtoi_ofList_digits n hb h0

theorem itod_ne_empty (n : Nat) (hb : n < big) (h0 : 0 < n) : itod n ≠ "" := by
  intro h
  have := dtoi_itod n hb h0
  rw [h] at this
  have e : dtoi "" = (0, false) := by decide
  rw [e] at this
  injection this with h1 h2
  exact Bool.noConfusion h2

/-! ### round trips -/

theorem roundtrip_v4 (ifs : IfTable) (ip : IP) (port : Int) (h4 : (to4 ip).isSome) :
    ∃ sa a, ipToSockaddr ifs ip false port "" = some sa ∧ sockaddrToNetAddr ifs sa = some a ∧
      ipEqual a.ip ip = true ∧ a.port = port ∧ a.zone = "" := by
  unfold ipToSockaddr
  unfold to4 at h4 ⊢
  by_cases h : ip.length = 4
  · simp only [h, if_true]
    refine ⟨_, _, rfl, rfl, ?_, rfl, rfl⟩
    simp [ipEqual]
  · rw [if_neg h] at h4 ⊢
    by_cases h' : ip.length = 16 ∧ ip.take 12 = v4InV6Prefix
    · rw [if_pos h']
      refine ⟨_, _, rfl, rfl, ?_, rfl, rfl⟩
      have hl : (ip.drop 12).length = 4 := by rw [List.length_drop, h'.1]
      simp [ipEqual, hl, h'.1, h'.2]
    · rw [if_neg h'] at h4
      simp at h4

theorem to16_of_len16 (ip : IP) (h16 : ip.length = 16) : to16 ip = some ip := by
  unfold to16
  rw [if_neg (by omega), if_pos h16]

theorem roundtrip_v6_name (ifs : IfTable) (hg : GoodTable ifs) (ip : IP) (port : Int) (name : String) (idx : Nat)
    (h16 : ip.length = 16) (hn4 : to4 ip = none) (hz : (name, idx) ∈ ifs) (hi : idx < 2 ^ 32) :
    ∃ sa a, ipToSockaddr ifs ip false port name = some sa ∧ sockaddrToNetAddr ifs sa = some a ∧
      a.ip = ip ∧ a.port = port ∧ a.zone = name := by
  have hne : name ≠ "" := hg.name_ne _ hz
  have hpos : 0 < idx := hg.idx_pos _ hz
  have hzi : zoneToInt ifs name = idx := by
    unfold zoneToInt
    rw [if_neg hne, find_name ifs hg.names_nodup name idx hz]
  have hzs : zoneToString ifs idx = name := by
    unfold zoneToString
    rw [if_neg (by omega), find_idx ifs hg.idx_nodup name idx hz]
  unfold ipToSockaddr
  simp only [hn4, to16_of_len16 ip h16, hzi, Nat.mod_eq_of_lt hi]
  exact ⟨_, _, rfl, rfl, rfl, rfl, hzs⟩

theorem roundtrip_v6_nozone (ifs : IfTable) (ip : IP) (port : Int) (h16 : ip.length = 16) (hn4 : to4 ip = none) :
    ∃ sa a, ipToSockaddr ifs ip false port "" = some sa ∧ sockaddrToNetAddr ifs sa = some a ∧
      a.ip = ip ∧ a.port = port ∧ a.zone = "" := by
  have hzi : zoneToInt ifs "" = 0 := by
    unfold zoneToInt
    rw [if_pos rfl]
  have hzs : zoneToString ifs 0 = "" := by
    unfold zoneToString
    rw [if_pos rfl]
  unfold ipToSockaddr
  simp only [hn4, to16_of_len16 ip h16, hzi]
  exact ⟨_, _, rfl, rfl, rfl, rfl, hzs⟩

theorem roundtrip_v6_numeric (ifs : IfTable) (hg : GoodTable ifs) (ip : IP) (port : Int) (n : Nat)
    (h16 : ip.length = 16) (hn4 : to4 ip = none) (h0 : 0 < n) (hb : n < big)
    (hni : ∀ p ∈ ifs, p.2 ≠ n) :
    ∃ sa a, ipToSockaddr ifs ip false port (itod n) = some sa ∧ sockaddrToNetAddr ifs sa = some a ∧
      a.ip = ip ∧ a.port = port ∧ a.zone = itod n := by
  have hne : itod n ≠ "" := itod_ne_empty n hb h0
  have hf1 : ifs.find? (·.1 == itod n) = none := by
    rw [List.find?_eq_none]
    intro p hp
    simpa using hg.name_not_number p hp n
  have hf2 : ifs.find? (·.2 == n) = none := by
    rw [List.find?_eq_none]
    intro p hp
    simpa using hni p hp
  have hzi : zoneToInt ifs (itod n) = n := by
    unfold zoneToInt
    rw [if_neg hne, hf1, dtoi_itod n hb h0]
  have hzs : zoneToString ifs n = itod n := by
    unfold zoneToString
    rw [if_neg (by omega), hf2]
  have hlt : n < 2 ^ 32 := by
    have : big = 16777215 := by decide
    omega
  unfold ipToSockaddr
  simp only [hn4, to16_of_len16 ip h16, hzi, Nat.mod_eq_of_lt hlt]
  exact ⟨_, _, rfl, rfl, rfl, rfl, hzs⟩

theorem invalid_length_nil (ifs : IfTable) (ip : IP) (port : Int) (zone : String)
    (h4 : ip.length ≠ 4) (h16 : ip.length ≠ 16) : ipToSockaddr ifs ip false port zone = none := by
  have e4 : to4 ip = none := by
    unfold to4
    rw [if_neg h4, if_neg (fun h => h16 h.1)]
  have e16 : to16 ip = none := by
    unfold to16
    rw [if_neg h4, if_neg h16]
  unfold ipToSockaddr
  simp [e4, e16]
end Gnet.Proofs.Sockaddr
