/-
  What every work of the acceptor guarantees (the induction hypothesis of the main induction on
  fuel), and the tactics for stepping through `exec`.
-/
import Gnet.Proofs.ReactorInv
namespace Gnet.Reactor

/-- a freshly accepted connection before registration -/
def Raw0 (A B : Prop) (x : Conn) : Prop := x.buffer = [] ∧ (A → eqIn x) ∧ (B → eqOut x)
/-- registered, about to be opened -/
def Raw1 (A B : Prop) (x : Conn) : Prop := x.registered = true ∧ Raw0 A B x

/-- after a read event: at rest unless the handler asked for Shutdown -/
def AfterRead (A B : Prop) (r : Ret) (x : Conn) : Prop := Lv A B 1 x ∧ (r.code ≠ .shutdown → Lv A B 2 x)

structure Specs (A B : Prop) (fuel : Nat) : Prop where
  accept : ∀ ko l s r s', Ok (exec fuel (.accept l)) s r s' → Good A B ko s l (Lv A B ko) → Good A B ko s' l (Lv A B ko)
  register0 : ∀ ko c s r s', Ok (exec fuel (.register0 c)) s r s' → Good A B ko s c (Raw0 A B) → Good A B ko s' c (Lv A B 2)
  open_ : ∀ ko c s r s', Ok (exec fuel (.open c)) s r s' → Good A B ko s c (Raw1 A B) → Good A B ko s' c (Lv A B 2)
  connOpen : ∀ ko c buf k s r s', 1 ≤ k → Ok (exec fuel (.connOpen c buf)) s r s' → Good A B ko s c (Snd A B k buf) →
    Good A B ko s' c (fun x => if r.code = .nil then Lv A B k x else (x.opened = true → x.registered = true))
  processIO : ∀ ko c mask s r s', Ok (exec fuel (.processIO c mask)) s r s' → Good A B ko s c (Lv A B 2) → Good A B ko s' c (AfterRead A B r)
  elRead : ∀ ko c s r s', Ok (exec fuel (.elRead c)) s r s' → Good A B ko s c (Lv A B 2) → Good A B ko s' c (AfterRead A B r)
  elReadLoop : ∀ ko c recv s r s', Ok (exec fuel (.elReadLoop c recv)) s r s' → Good A B ko s c (Lv A B 2) → Good A B ko s' c (AfterRead A B r)
  elWrite : ∀ ko c k s r s', Ok (exec fuel (.elWrite c)) s r s' → Good A B ko s c (Lv A B k) → Good A B ko s' c (Lv A B k)
  elWriteLoop : ∀ ko c sent k s r s', Ok (exec fuel (.elWriteLoop c sent)) s r s' → Good A B ko s c (Lv A B k) → Good A B ko s' c (Lv A B k)
  close : ∀ ko c e Ψ s r s', Ok (exec fuel (.close c e)) s r s' → Good A B ko s c Ψ →
    Good A B ko s' c (fun x => x.opened = false ∨ (Ψ x ∧ x.registered = false))
  closeFlush : ∀ ko c s r s', Ok (exec fuel (.closeFlush c)) s r s' → Good A B ko s c (Lv A B 0) → Good A B ko s' c (Lv A B 0)
  handleAction : ∀ ko c a Ψ s r s', Ok (exec fuel (.handleAction c a)) s r s' → Good A B ko s c Ψ →
    Good A B ko s' c (fun x => x.opened = false ∨ Ψ x)
  callback : ∀ ko kind c k s r s', (kind = "open" → 1 ≤ k) → Ok (exec fuel (.callback kind c)) s r s' →
    Good A B ko s c (Lv A B k) → Good A B ko s' c (Lv A B k)
  connWrite : ∀ ko c d k s r s', Ok (exec fuel (.connWrite c d)) s r s' → Good A B ko s c (Lv A B k) → Good A B ko s' c (Lv A B k)
  connWriteLoop : ∀ ko c d total k s r s', Ok (exec fuel (.connWriteLoop c d total)) s r s' →
    Good A B ko s c (SndE A B k d) → Good A B ko s' c (Lv A B k)
  connWritev : ∀ ko c segs k s r s', Ok (exec fuel (.connWritev c segs)) s r s' → Good A B ko s c (Lv A B k) → Good A B ko s' c (Lv A B k)
  connWritevLoop : ∀ ko c segs total k s r s', Ok (exec fuel (.connWritevLoop c segs total)) s r s' →
    Good A B ko s c (SndE A B k segs.flatten) → Good A B ko s' c (Lv A B k)
  flush : ∀ ko c k s r s', Ok (exec fuel (.flush c)) s r s' → Good A B ko s c (Lv A B k) → Good A B ko s' c (Lv A B k)
  wake : ∀ ko c k s r s', Ok (exec fuel (.wake c)) s r s' → Good A B ko s c (Lv A B k) → Good A B ko s' c (Lv A B k)
  readUDP : ∀ ko l s r s', Ok (exec fuel (.readUDP l)) s r s' → Good A B ko s l (Lv A B ko) → Good A B ko s' l (Lv A B ko)
  udpCallback : ∀ ko l src s r s', Ok (exec fuel (.udpCallback l src)) s r s' → Good A B ko s l (Lv A B 0) → Good A B ko s' l (Lv A B ko)
  closeConns : ∀ ko s r s', Ok (exec fuel .closeConns) s r s' → Good A B ko s "" (Lv A B ko) → Good A B ko s' "" (Lv A B ko)

/-! ### stepping tactics: they act on `h : (prog).run s = .ok (r, s')` and `hG : Good A B s c Ψ` -/

theorem guard_inv {α β : Type} {c : Prop} [Decidable c] {e : String} {k : α → M β} {u : α} {s : RState} {r : β × RState}
    (h : (if c then (throw e : M α) >>= k else k u).run s = .ok r) : ¬c ∧ (k u).run s = .ok r := by
  split at h
  · exact (throw_bind_inv h).elim
  · exact ⟨‹_›, h⟩

/-- a guard that ends the alternative: `if c then throw e else m` -/
theorem guard_inv' {β : Type} {c : Prop} [Decidable c] {e : String} {m : M β} {s : RState} {r : β × RState}
    (h : (if c then (throw e : M β) else m).run s = .ok r) : ¬c ∧ m.run s = .ok r := by
  split at h
  · exact (throw_inv h).elim
  · exact ⟨‹_›, h⟩

/-- a guard inside the first component of a bind -/
theorem guard_bind_inv {α β γ : Type} {c : Prop} [Decidable c] {e : String} {k : α → M β} {u : α} {K : β → M γ}
    {s : RState} {r : γ × RState}
    (h : ((if c then (throw e : M α) >>= k else k u) >>= K).run s = .ok r) : ¬c ∧ (k u >>= K).run s = .ok r := by
  split at h
  · rw [bind_assoc] at h; exact (throw_bind_inv h).elim
  · exact ⟨‹_›, h⟩

theorem guard_bind_inv' {β γ : Type} {c : Prop} [Decidable c] {e : String} {m : M β} {K : β → M γ}
    {s : RState} {r : γ × RState}
    (h : ((if c then (throw e : M β) else m) >>= K).run s = .ok r) : ¬c ∧ (m >>= K).run s = .ok r := by
  split at h
  · exact (throw_bind_inv h).elim
  · exact ⟨‹_›, h⟩

theorem ite_inv {β : Type} {c : Prop} [Decidable c] {m1 m2 : M β} {s : RState} {r : β × RState}
    (h : (if c then m1 else m2).run s = .ok r) : (c ∧ m1.run s = .ok r) ∨ (¬c ∧ m2.run s = .ok r) := by
  split at h
  · exact Or.inl ⟨‹_›, h⟩
  · exact Or.inr ⟨‹_›, h⟩

set_option hygiene false in
/-- consume `get` (and name the configuration) -/
macro "mget" : tactic => `(tactic| (have h' := get_bind_inv h; clear h; have h := h'; clear h'; dsimp -zeta -zetaHave only at h; try extract_lets cfg at h))

set_option hygiene false in
/-- a guard `if c then throw ..` followed by more statements: keeps `hc : ¬c` -/
macro "mguard" : tactic => `(tactic| (
  first
  | (have h' := guard_inv h; clear h; obtain ⟨hc, h⟩ := h')
  | (have h' := guard_inv' h; clear h; obtain ⟨hc, h⟩ := h')
  | (have h' := guard_bind_inv h; clear h; obtain ⟨hc, h⟩ := h')
  | (have h' := guard_bind_inv' h; clear h; obtain ⟨hc, h⟩ := h')
  try dsimp -zeta -zetaHave only at h))

set_option hygiene false in
/-- beta-reduce the program -/
macro "mbeta" : tactic => `(tactic| try dsimp -zeta -zetaHave only at h)

set_option hygiene false in
/-- `let r ← m; ...` for a call `m` (typically `exec fuel w`): afterwards `hcall : m.run s✝ = .ok (ret, s)` -/
macro "mcall" : tactic => `(tactic| (
  obtain ⟨ret, s, hcall, h'⟩ := bind_inv h
  clear h; have h := h'; clear h'))


set_option hygiene false in
macro "mpop" : tactic => `(tactic| (
  obtain ⟨t, s, ht, hG', h'⟩ := Good.pop_step hG h
  clear hG h; have hG := hG'; have h := h'; clear hG' h'))

set_option hygiene false in
macro "menter" : tactic => `(tactic| (
  obtain ⟨_, s, hG', h'⟩ := Good.enter_step hG h
  clear hG h; have hG := hG'; have h := h'; clear hG' h'))

set_option hygiene false in
macro "mcheck" : tactic => `(tactic| (
  obtain ⟨s, hG', h'⟩ := Good.checkHop_step hG h
  clear hG h; have hG := hG'; have h := h'; clear hG' h'))

set_option hygiene false in
macro "mres" : tactic => `(tactic| (
  obtain ⟨res, s, hG', h'⟩ := Good.popRes_step hG h
  clear hG h; have hG := hG'; have h := h'; clear hG' h'))

set_option hygiene false in
macro "mnote" : tactic => `(tactic| (
  obtain ⟨s, hG', h'⟩ := Good.noteSys_step hG h
  clear hG h; have hG := hG'; have h := h'; clear hG' h'))

set_option hygiene false in
/-- `x ← getConn c`: afterwards `hx : Ψ x` and `hG : Good s c (· = x)` -/
macro "mconn" : tactic => `(tactic| (
  obtain ⟨x, hx, hG', h'⟩ := Good.getConn_step hG h
  clear hG h; have hG := hG'; have h := h'; clear hG' h'))

set_option hygiene false in
/-- `modConn c g`: give the new condition; the side goal `∀ x, Ψ x → Ψ' (g x)` comes first -/
macro "mmod" t:term : tactic => `(tactic| focus (
  refine Exists.elim (Good.modConn_step $t hG h ?_) ?_
  rotate_left
  intro s hh
  obtain ⟨hG', h'⟩ := hh
  clear hG h; have hG := hG'; have h := h'; clear hG' h'
  rotate_left))

set_option hygiene false in
/-- the run is impossible (a `throw`) -/
macro "mdead" : tactic => `(tactic| first
  | exact (throw_inv h).elim | exact (throw_bind_inv h).elim
  | exact (mismatch_inv h).elim | exact (mismatch_bind_inv h).elim)

set_option hygiene false in
/-- split the head `match`/`if` of the program, discarding the alternatives that throw -/
macro "msplit" : tactic => `(tactic| (split at h <;> try mdead))

set_option hygiene false in
/-- the run ended with `pure a` -/
macro "mret" : tactic => `(tactic| (
  have h' := pure_inv h; clear h
  simp only [Prod.mk.injEq] at h'
  obtain ⟨hr, hs⟩ := h'
  subst hs))

end Gnet.Reactor
