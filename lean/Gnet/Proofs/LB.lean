import Gnet.Model.LB
namespace Gnet.Proofs.LB
open Gnet

/-- the loops chosen by `k` consecutive round-robin calls (empty if the balancer has no loop) -/
def rrRun (lb : LB) : Nat → List Nat
  | 0 => []
  | k + 1 => match lb.rrNext with
    | none => []
    | some (i, lb') => i :: rrRun lb' k

theorem rrNext_eq (lb : LB) (hn : 0 < lb.size) :
    lb.rrNext = some (lb.nextIndex.toNat % lb.size, { lb with nextIndex := lb.nextIndex + 1 }) := by
  unfold LB.rrNext
  have : lb.size ≠ 0 := by omega
  simp [this]

theorem rr_cyclic (lb : LB) (hn : 0 < lb.size) (k : Nat) :
    rrRun lb k = (List.range k).map (fun i => (lb.nextIndex.toNat + i) % 2 ^ 64 % lb.size) := by
  induction k generalizing lb with
  | zero => simp [rrRun]
  | succ k ih =>
    have hlt : lb.nextIndex.toNat < 2 ^ 64 := lb.nextIndex.isLt
    rw [rrRun, rrNext_eq lb hn]
    simp only []
    rw [ih _ (by simpa [LB.size] using hn), List.range_succ_eq_map]
    simp only [List.map_cons, List.map_map, Nat.add_zero]
    congr 1
    · rw [Nat.mod_eq_of_lt hlt]
    · apply List.map_congr_left
      intro i _
      have h1 : (1 : BitVec 64).toNat = 1 := rfl
      simp only [Function.comp, LB.size, BitVec.toNat_add, Nat.succ_eq_add_one, h1]
      congr 1
      omega

theorem count_mod_range (n : Nat) (k j : Nat) (hj : j < n) :
    ((List.range (k * n)).map (fun i => i % n)).count j = k := by
  induction k with
  | zero => simp
  | succ k ih =>
    rw [Nat.succ_mul, List.range_add, List.map_append, List.count_append, ih, List.map_map]
    have : List.map ((fun i => i % n) ∘ fun x => k * n + x) (List.range n) = List.range n := by
      conv => rhs; rw [← List.map_id (List.range n)]
      apply List.map_congr_left
      intro i hi
      have hi' : i < n := List.mem_range.mp hi
      simp only [Function.comp, id]
      rw [Nat.mul_add_mod_self_right, Nat.mod_eq_of_lt hi']
    rw [this, List.count_range]
    simp [hj]

theorem rr_fair (counts : List Int) (hn : 0 < counts.length) (k : Nat) (hk : k * counts.length < 2 ^ 64)
    (j : Nat) (hj : j < counts.length) :
    (rrRun ⟨counts, 0⟩ (k * counts.length)).count j = k := by
  rw [rr_cyclic _ (by simpa [LB.size] using hn)]
  have : (List.range (k * counts.length)).map
      (fun i => ((⟨counts, 0⟩ : LB).nextIndex.toNat + i) % 2 ^ 64 % (⟨counts, 0⟩ : LB).size)
      = (List.range (k * counts.length)).map (fun i => i % counts.length) := by
    apply List.map_congr_left
    intro i hi
    have hi' : i < k * counts.length := List.mem_range.mp hi
    have h0 : (0 : BitVec 64).toNat = 0 := rfl
    show (((0 : BitVec 64).toNat + i) % 2 ^ 64) % counts.length = i % counts.length
    rw [h0, Nat.zero_add, Nat.mod_eq_of_lt (show i < 2 ^ 64 by omega)]
  rw [this]
  exact count_mod_range _ k j hj

theorem lcScan_spec (rest pre : List Int) (best : Nat) (hb : best < pre.length)
    (hmin : ∀ j, j < pre.length → pre.getD best 0 ≤ pre.getD j 0)
    (hfirst : ∀ j, j < best → pre.getD best 0 < pre.getD j 0) :
    LB.lcScan rest pre.length best (pre.getD best 0) < (pre ++ rest).length ∧
    (∀ j, j < (pre ++ rest).length →
      (pre ++ rest).getD (LB.lcScan rest pre.length best (pre.getD best 0)) 0 ≤ (pre ++ rest).getD j 0) ∧
    (∀ j, j < LB.lcScan rest pre.length best (pre.getD best 0) →
      (pre ++ rest).getD (LB.lcScan rest pre.length best (pre.getD best 0)) 0 < (pre ++ rest).getD j 0) := by
  induction rest generalizing pre best with
  | nil =>
    simp only [LB.lcScan, List.append_nil]
    exact ⟨hb, hmin, hfirst⟩
  | cons c rest ih =>
    have happ : pre ++ c :: rest = (pre ++ [c]) ++ rest := by simp
    have hlen : (pre ++ [c]).length = pre.length + 1 := by simp
    have hget_lt : ∀ j, j < pre.length → (pre ++ [c]).getD j 0 = pre.getD j 0 := by
      intro j hj
      simp [List.getD_eq_getElem?_getD, List.getElem?_append_left hj]
    have hget_eq : (pre ++ [c]).getD pre.length 0 = c := by
      simp [List.getD_eq_getElem?_getD]
    rw [happ]
    unfold LB.lcScan
    split
    · rename_i hc
      have := ih (pre ++ [c]) pre.length (by omega)
        (by
          intro j hj
          rw [hget_eq]
          rw [hlen] at hj
          by_cases hjl : j < pre.length
          · rw [hget_lt j hjl]; have := hmin j hjl; omega
          · have : j = pre.length := by omega
            subst this; rw [hget_eq]; exact Int.le_refl _)
        (by
          intro j hj
          rw [hget_eq, hget_lt j hj]; have := hmin j hj; omega)
      rw [hlen, hget_eq] at this
      exact this
    · rename_i hc
      have := ih (pre ++ [c]) best (by omega)
        (by
          intro j hj
          rw [hget_lt best hb]
          rw [hlen] at hj
          by_cases hjl : j < pre.length
          · rw [hget_lt j hjl]; exact hmin j hjl
          · have : j = pre.length := by omega
            subst this; rw [hget_eq]; omega)
        (by
          intro j hj
          rw [hget_lt best hb, hget_lt j (by omega)]; exact hfirst j hj)
      rw [hlen, hget_lt best hb] at this
      exact this

theorem lc_minimal (lb : LB) (hn : 0 < lb.size) :
    ∃ i, lb.lcNext = some i ∧ i < lb.size ∧
      (∀ j, j < lb.size → lb.counts.getD i 0 ≤ lb.counts.getD j 0) ∧
      (∀ j, j < i → lb.counts.getD i 0 < lb.counts.getD j 0) := by
  obtain ⟨counts, idx⟩ := lb
  cases counts with
  | nil => simp [LB.size] at hn
  | cons c0 rest =>
    have h := lcScan_spec rest [c0] 0 (by simp)
      (by intro j hj; simp at hj; subst hj; exact Int.le_refl _)
      (by intro j hj; omega)
    simp only [List.length_cons, List.length_nil, Nat.zero_add, List.getD_cons_zero,
      List.singleton_append] at h
    exact ⟨LB.lcScan rest 1 0 c0, rfl, h⟩

theorem hash_eq (addr : List UInt8) : LB.hash addr = ((Crc32.checksum addr).toNat : Int) := by
  unfold LB.hash
  simp

theorem hashNext_eq (lb : LB) (hn : 0 < lb.size) (addr : List UInt8) :
    lb.hashNext addr = some ((Crc32.checksum addr).toNat % lb.size) := by
  unfold LB.hashNext
  have : lb.size ≠ 0 := by omega
  simp [this, hash_eq]

theorem hash_in_range (lb : LB) (hn : 0 < lb.size) (addr : List UInt8) :
    ∃ i, lb.hashNext addr = some i ∧ i < lb.size ∧ i = (Crc32.checksum addr).toNat % lb.size :=
  ⟨_, hashNext_eq lb hn addr, Nat.mod_lt _ hn, rfl⟩

theorem hash_pure (lb lb' : LB) (h : lb.size = lb'.size) (addr : List UInt8) :
    lb.hashNext addr = lb'.hashNext addr := by
  unfold LB.hashNext
  rw [h]

theorem rr_in_range (lb : LB) (hn : 0 < lb.size) : ∃ i lb', lb.rrNext = some (i, lb') ∧ i < lb.size ∧
    lb'.counts = lb.counts ∧ lb'.nextIndex = lb.nextIndex + 1 :=
  ⟨_, _, rrNext_eq lb hn, Nat.mod_lt _ hn, rfl, rfl⟩
/-- the balancer after a connection has been opened on loop `i` (`eventloop.register`: `addConn(1)`) -/
def opened (lb : LB) (i : Nat) : LB := { lb with counts := lb.counts.set i (lb.counts.getD i 0 + 1) }

/-- the connection counts of any two loops differ by at most one -/
def Balanced (lb : LB) : Prop :=
  ∀ j k, j < lb.size → k < lb.size → lb.counts.getD j 0 ≤ lb.counts.getD k 0 + 1

theorem getD_set (l : List Int) (i j : Nat) (v : Int) (hi : i < l.length) :
    (l.set i v).getD j 0 = if i = j then v else l.getD j 0 := by
  simp only [List.getD_eq_getElem?_getD, List.getElem?_set]
  split <;> simp [*]

theorem lc_keeps_balanced (lb : LB) (hn : 0 < lb.size) (hb : Balanced lb) :
    ∃ i, lb.lcNext = some i ∧ Balanced (opened lb i) := by
  obtain ⟨i, hi, hlt, hmin, _⟩ := lc_minimal lb hn
  refine ⟨i, hi, ?_⟩
  intro j k hj hk
  simp only [opened, LB.size, List.length_set] at hj hk ⊢
  have hj' := hmin j hj
  have hk' := hmin k hk
  have hjk := hb j k hj hk
  have hki := hb k i hk hlt
  have hji := hb j i hj hlt
  rw [getD_set _ _ _ _ hlt, getD_set _ _ _ _ hlt]
  split <;> split <;> subst_vars <;> omega

theorem add_mod_inj (s n a b : Nat) (ha : a < n) (hb : b < n) (h : (s + a) % n = (s + b) % n) : a = b := by
  have h1 := Nat.div_add_mod (s + a) n
  have h2 := Nat.div_add_mod (s + b) n
  rw [h] at h1
  rcases Nat.lt_trichotomy ((s + a) / n) ((s + b) / n) with hq | hq | hq
  · have := Nat.mul_le_mul_left n (Nat.succ_le_of_lt hq)
    rw [Nat.mul_succ] at this; omega
  · rw [hq] at h1; omega
  · have := Nat.mul_le_mul_left n (Nat.succ_le_of_lt hq)
    rw [Nat.mul_succ] at this; omega

theorem mem_shift (s n j : Nat) (hj : j < n) : ∃ i, i < n ∧ (s + i) % n = j := by
  refine ⟨(j + (n - s % n)) % n, Nat.mod_lt _ (by omega), ?_⟩
  have hs : s % n < n := Nat.mod_lt _ (by omega)
  have : s % n + (j + (n - s % n)) = j + n := by omega
  rw [Nat.add_mod, Nat.mod_mod, Nat.add_mod_mod, this, Nat.add_mod_right, Nat.mod_eq_of_lt hj]

/-- any `N` consecutive round-robin choices (counter not wrapping inside the window) are a permutation of the loops -/
theorem rr_window (lb : LB) (hn : 0 < lb.size) (hw : lb.nextIndex.toNat + lb.size ≤ 2 ^ 64)
    (j : Nat) (hj : j < lb.size) : (rrRun lb lb.size).count j = 1 := by
  rw [rr_cyclic lb hn]
  have e : (List.range lb.size).map (fun i => (lb.nextIndex.toNat + i) % 2 ^ 64 % lb.size)
      = (List.range lb.size).map (fun i => (lb.nextIndex.toNat + i) % lb.size) := by
    apply List.map_congr_left
    intro i hi
    have hi' : i < lb.size := List.mem_range.mp hi
    rw [Nat.mod_eq_of_lt (show lb.nextIndex.toNat + i < 2 ^ 64 by omega)]
  rw [e]
  have hnd : ((List.range lb.size).map (fun i => (lb.nextIndex.toNat + i) % lb.size)).Nodup := by
    rw [List.Nodup, List.pairwise_map]
    refine List.Pairwise.imp_of_mem ?_ (List.pairwise_lt_range (n := lb.size))
    intro a b ha hb hab heq
    have := add_mod_inj _ _ a b (List.mem_range.mp ha) (List.mem_range.mp hb) heq
    omega
  have hmem : j ∈ (List.range lb.size).map (fun i => (lb.nextIndex.toNat + i) % lb.size) := by
    obtain ⟨i, hi, he⟩ := mem_shift lb.nextIndex.toNat lb.size j hj
    exact List.mem_map.mpr ⟨i, List.mem_range.mpr hi, he⟩
  rw [List.Nodup.count hnd, if_pos hmem]

/-- `k` consecutive accepts under least-connections, each counted on the chosen loop -/
def lcRun (lb : LB) : Nat → LB
  | 0 => lb
  | k + 1 => match lb.lcNext with
    | none => lb
    | some i => lcRun (opened lb i) k

theorem opened_size (lb : LB) (i : Nat) : (opened lb i).size = lb.size := by
  simp [opened, LB.size]

theorem lcRun_balanced (lb : LB) (hb : Balanced lb) (k : Nat) : Balanced (lcRun lb k) := by
  induction k generalizing lb with
  | zero => exact hb
  | succ k ih =>
    by_cases hn : 0 < lb.size
    · obtain ⟨i, hi, hbi⟩ := lc_keeps_balanced lb hn hb
      simp only [lcRun, hi]
      exact ih _ hbi
    · have : lb.counts = [] := by
        cases hc : lb.counts with
        | nil => rfl
        | cons a t => simp [LB.size, hc] at hn
      simp only [lcRun, LB.lcNext, this]
      exact hb

theorem fresh_balanced (n : Nat) : Balanced ⟨List.replicate n 0, 0⟩ := by
  intro j k hj hk
  simp only [LB.size, List.length_replicate] at hj hk
  simp [List.getD_eq_getElem?_getD, hj, hk]
end Gnet.Proofs.LB
