import Gnet.Model.Drain
namespace Gnet.Proofs.Drain
open Gnet.Drain

/-- the inductive invariant of the drain-and-abort protocol -/
structure Inv (s : State) : Prop where
  perm : (s.ran ++ s.aborted ++ s.queue).Perm (List.range s.next)
  ex : s.exited = true ↔ (s.loop = .draining ∨ s.loop = .done)
  watch : s.queue ≠ [] →
    (s.loop ≠ .done ∨ ∃ p : Nat, s.prods[p]? = some ProdPc.enqueued ∨ s.prods[p]? = some ProdPc.draining)
  ranS : s.ran.Pairwise (· < ·)
  ranQ : ∀ a ∈ s.ran, ∀ b ∈ s.queue, a < b
  qS : s.queue.Pairwise (· < ·)
  qN : ∀ b ∈ s.queue, b < s.next
  ranN : ∀ a ∈ s.ran, a < s.next

theorem inv_init (n : Nat) : Inv (init n) := by
  refine ⟨?_, ?_, ?_, ?_, ?_, ?_, ?_, ?_⟩ <;> simp [init]

/-- removing the head of the queue and aborting it -/
theorem inv_abort (s : State) (t : Nat) (q : List Nat) (hq : s.queue = t :: q) (h : Inv s)
    (hl : s.loop ≠ .done ∨ ∃ p : Nat, s.prods[p]? = some ProdPc.enqueued ∨ s.prods[p]? = some ProdPc.draining) :
    Inv { s with queue := q, aborted := s.aborted ++ [t] } := by
  have hperm := h.perm
  have hranQ := h.ranQ
  have hqS := h.qS
  have hqN := h.qN
  rw [hq] at hperm hranQ hqS hqN
  refine ⟨?_, h.ex, fun _ => hl, h.ranS, ?_, ?_, ?_, h.ranN⟩
  · show (s.ran ++ (s.aborted ++ [t]) ++ q).Perm (List.range s.next)
    have e : s.ran ++ (s.aborted ++ [t]) ++ q = s.ran ++ s.aborted ++ t :: q := by
      simp [List.append_assoc]
    rw [e]; exact hperm
  · intro a ha b hb
    exact hranQ a ha b (List.mem_cons_of_mem _ hb)
  · exact (List.pairwise_cons.1 hqS).2
  · intro b hb
    exact hqN b (List.mem_cons_of_mem _ hb)

theorem inv_step (s : State) (a : Step) (h : Inv s) : Inv (step s a) := by
  cases a with
  | loopRun =>
    simp only [step]
    split
    · rename_i hl
      split
      · rename_i t q hq
        have hperm := h.perm
        have hranQ := h.ranQ
        have hqS := h.qS
        have hqN := h.qN
        rw [hq] at hperm hranQ hqS hqN
        refine ⟨?_, h.ex, ?_, ?_, ?_, ?_, ?_, ?_⟩
        · show (s.ran ++ [t] ++ s.aborted ++ q).Perm (List.range s.next)
          refine List.Perm.trans ?_ hperm
          simp only [List.append_assoc]
          refine List.Perm.append_left _ ?_
          show (t :: (s.aborted ++ q)).Perm (s.aborted ++ t :: q)
          exact (List.perm_middle).symm
        · intro _
          left
          show s.loop ≠ .done
          rw [hl]; decide
        · show (s.ran ++ [t]).Pairwise (· < ·)
          rw [List.pairwise_append]
          refine ⟨h.ranS, List.pairwise_singleton _ _, ?_⟩
          intro a ha b hb
          rw [List.mem_singleton] at hb
          subst hb
          exact hranQ a ha b (List.mem_cons_self)
        · intro a ha b hb
          show a < b
          have ha' : a ∈ s.ran ++ [t] := ha
          rw [List.mem_append, List.mem_singleton] at ha'
          rcases ha' with ha' | ha'
          · exact hranQ a ha' b (List.mem_cons_of_mem _ hb)
          · subst ha'
            exact (List.pairwise_cons.1 hqS).1 b hb
        · exact (List.pairwise_cons.1 hqS).2
        · intro b hb
          exact hqN b (List.mem_cons_of_mem _ hb)
        · intro a ha
          have ha' : a ∈ s.ran ++ [t] := ha
          rw [List.mem_append, List.mem_singleton] at ha'
          rcases ha' with ha' | ha'
          · exact h.ranN a ha'
          · subst ha'
            exact hqN a (List.mem_cons_self)
      · exact h
    · exact h
  | loopLeave =>
    simp only [step]
    split
    · rename_i hl
      refine ⟨h.perm, ?_, ?_, h.ranS, h.ranQ, h.qS, h.qN, h.ranN⟩
      · show s.exited = true ↔ (LoopPc.leaving = .draining ∨ LoopPc.leaving = .done)
        have := h.ex
        rw [hl] at this
        simpa using this
      · intro _; left; show LoopPc.leaving ≠ .done; decide
    · exact h
  | loopSetExited =>
    simp only [step]
    split
    · refine ⟨h.perm, ?_, ?_, h.ranS, h.ranQ, h.qS, h.qN, h.ranN⟩
      · show true = true ↔ (LoopPc.draining = .draining ∨ LoopPc.draining = .done)
        simp
      · intro _; left; show LoopPc.draining ≠ .done; decide
    · exact h
  | loopDrain =>
    simp only [step]
    split
    · rename_i hl
      split
      · rename_i t q hq
        exact inv_abort s t q hq h (Or.inl (by rw [hl]; decide))
      · rename_i hq
        refine ⟨h.perm, ?_, ?_, h.ranS, h.ranQ, h.qS, h.qN, h.ranN⟩
        · show s.exited = true ↔ (LoopPc.done = .draining ∨ LoopPc.done = .done)
          have := h.ex
          rw [hl] at this
          simpa using this
        · intro hne
          exact absurd hq hne
    · exact h
  | enqueue p =>
    simp only [step]
    split
    · rename_i hp
      have hplt : p < s.prods.length := by
        rcases List.getElem?_eq_some_iff.1 hp with ⟨hlt, _⟩
        exact hlt
      refine ⟨?_, h.ex, ?_, h.ranS, ?_, ?_, ?_, ?_⟩
      · show (s.ran ++ s.aborted ++ (s.queue ++ [s.next])).Perm (List.range (s.next + 1))
        rw [List.range_succ, ← List.append_assoc]
        exact List.Perm.append_right _ h.perm
      · intro _
        right
        refine ⟨p, Or.inl ?_⟩
        show (s.prods.set p ProdPc.enqueued)[p]? = some ProdPc.enqueued
        rw [List.getElem?_set]
        simp [hplt]
      · intro a ha b hb
        have hb' : b ∈ s.queue ++ [s.next] := hb
        rw [List.mem_append, List.mem_singleton] at hb'
        rcases hb' with hb' | hb'
        · exact h.ranQ a ha b hb'
        · subst hb'
          exact h.ranN a ha
      · show (s.queue ++ [s.next]).Pairwise (· < ·)
        rw [List.pairwise_append]
        refine ⟨h.qS, List.pairwise_singleton _ _, ?_⟩
        intro a ha b hb
        rw [List.mem_singleton] at hb
        subst hb
        exact h.qN a ha
      · intro b hb
        have hb' : b ∈ s.queue ++ [s.next] := hb
        rw [List.mem_append, List.mem_singleton] at hb'
        show b < s.next + 1
        rcases hb' with hb' | hb'
        · exact Nat.lt_succ_of_lt (h.qN b hb')
        · subst hb'
          exact Nat.lt_succ_self _
      · intro a ha
        show a < s.next + 1
        exact Nat.lt_succ_of_lt (h.ranN a ha)
    · exact h
  | load p =>
    simp only [step]
    split
    · rename_i hp
      have hplt : p < s.prods.length := by
        rcases List.getElem?_eq_some_iff.1 hp with ⟨hlt, _⟩
        exact hlt
      refine ⟨h.perm, h.ex, ?_, h.ranS, h.ranQ, h.qS, h.qN, h.ranN⟩
      intro _
      cases hex : s.exited with
      | true =>
        right
        refine ⟨p, Or.inr ?_⟩
        show (s.prods.set p (if true = true then ProdPc.draining else ProdPc.idle))[p]? = some ProdPc.draining
        rw [List.getElem?_set]
        simp [hplt]
      | false =>
        left
        show s.loop ≠ .done
        intro hd
        have := h.ex.2 (Or.inr hd)
        rw [hex] at this
        exact Bool.noConfusion this
    · exact h
  | prodDrain p =>
    simp only [step]
    split
    · rename_i hp
      split
      · rename_i t q hq
        exact inv_abort s t q hq h (Or.inr ⟨p, Or.inr hp⟩)
      · rename_i hq
        refine ⟨h.perm, h.ex, ?_, h.ranS, h.ranQ, h.qS, h.qN, h.ranN⟩
        intro hne
        exact absurd hq hne
    · exact h

theorem inv_run (steps : List Step) : ∀ s : State, Inv s → Inv (run s steps) := by
  induction steps with
  | nil => intro s h; exact h
  | cons a rest ih => intro s h; exact ih (step s a) (inv_step s a h)

theorem inv_reachable (s : State) (h : Reachable s) : Inv s := by
  rcases h with ⟨n, steps, rfl⟩
  exact inv_run steps (init n) (inv_init n)

theorem partition (s : State) (h : Reachable s) :
    (s.ran ++ s.aborted ++ s.queue).Perm (List.range s.next) := by
  exact (inv_reachable s h).perm

theorem nothing_stranded (s : State) (h : Reachable s) (hq : Quiescent s = true) : s.queue = [] := by
  have inv := inv_reachable s h
  unfold Quiescent at hq
  rw [Bool.and_eq_true] at hq
  rcases hq with ⟨hdone, hall⟩
  have hdone' : s.loop = .done := by simpa using hdone
  rw [List.all_eq_true] at hall
  apply Classical.byContradiction
  intro hne
  rcases inv.watch hne with hl | ⟨p, hp | hp⟩
  · exact hl hdone'
  · have := hall _ (List.mem_of_getElem? hp)
    revert this; decide
  · have := hall _ (List.mem_of_getElem? hp)
    revert this; decide

theorem all_settled (s : State) (h : Reachable s) (hq : Quiescent s = true) :
    (s.ran ++ s.aborted).Perm (List.range s.next) := by
  have hp := partition s h
  rw [nothing_stranded s h hq, List.append_nil] at hp
  exact hp

theorem ran_in_order (s : State) (h : Reachable s) : s.ran.Pairwise (· < ·) := by
  exact (inv_reachable s h).ranS

end Gnet.Proofs.Drain
