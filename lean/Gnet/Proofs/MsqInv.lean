/-
  The inductive invariant of the Michael-Scott queue model (C13) and its generic
  preservation lemmas.
-/
import Gnet.Model.Msq
import Gnet.Proofs.MsqChain
namespace Gnet.Proofs.Msq
open Gnet.Msq

/-- the thread has allocated its node but not yet linked it -/
def Pre : Pc → Bool
  | .eLoadTail | .eLoadNext | .eReloadTail | .eCasNext | .eHelpTail => true
  | _ => false

/-- contribution of a thread to the `length` lag: linked, not yet counted -/
def cntB (th : Thread) : Nat := if (th.pc == .eCasTail || th.pc == .eAdd) = true then 1 else 0
/-- contribution of a thread to the `length` lag: unlinked, not yet discounted -/
def subB (th : Thread) : Nat := if (th.pc == .dSub) = true then 1 else 0

/-- per-thread invariant; `c` is the chain, `h`/`t` the positions of the shared head/tail,
    `nlen` the heap size, `val` the node values -/
def TInv (nlen : Nat) (val : Nat → Nat) (c : List Nat) (h t : Nat) (th : Thread) : Prop :=
  (Pre th.pc = true → th.node ∉ c ∧ th.node < nlen) ∧
  match th.pc with
  | .eLoadNext | .eCasNext => ∃ p, c[p]? = some th.tail ∧ p ≤ t
  | .eReloadTail => ∃ p, c[p]? = some th.tail ∧ p ≤ t ∧ ∀ nx, th.next = some nx → c[p+1]? = some nx
  | .eHelpTail | .dHelpTail => ∃ p, c[p]? = some th.tail ∧ ∀ nx, th.next = some nx → c[p+1]? = some nx
  | .eCasTail => ∃ p, c[p]? = some th.tail ∧ c[p+1]? = some th.node
  | .dLoadTail => ∃ ph, c[ph]? = some th.head ∧ ph ≤ h
  | .dLoadNext => ∃ ph pt, c[ph]? = some th.head ∧ ph ≤ h ∧ c[pt]? = some th.tail ∧ pt ≤ t ∧ ph ≤ pt
  | .dReloadHead => ∃ ph pt, c[ph]? = some th.head ∧ ph ≤ h ∧ c[pt]? = some th.tail ∧ pt ≤ t ∧ ph ≤ pt ∧
      (∀ nx, th.next = some nx → c[ph+1]? = some nx) ∧
      (th.next = none → ph = pt ∧ th.ghostSawEmpty = true)
  | .dCasHead => ∃ ph nx, c[ph]? = some th.head ∧ ph ≤ h ∧ ph < t ∧ th.next = some nx ∧
      c[ph+1]? = some nx ∧ th.task = val nx
  | .dSub => th.ghostRet = some th.task
  | _ => True

/-- the invariant, with explicit witnesses: the chain `c` and the positions of head and tail -/
structure InvW (s : State) (c : List Nat) (h t : Nat) : Prop where
  c0 : c[0]? = some 0
  cnext : ∀ i x, c[i]? = some x → nextOf s x = c[i+1]?
  nodup : c.Nodup
  bound : ∀ x ∈ c, x < s.nodes.length
  out : ∀ x, x ∉ c → nextOf s x = none
  hd : c[h]? = some s.head
  tl : c[t]? = some s.tail
  ht : h ≤ t
  lag : c.length ≤ t + 2
  abs : s.absQ = (c.drop (h+1)).map (valueOf s)
  fifo : s.enqLog = s.deqLog ++ s.absQ
  len : s.length = (s.absQ.length : Int)
      - (s.threads.countP (fun t => t.pc == .eCasTail || t.pc == .eAdd) : Nat)
      + (s.threads.countP (fun t => t.pc == .dSub) : Nat)
  thr : ∀ (tid : Nat) (th : Thread), s.threads[tid]? = some th → TInv s.nodes.length (valueOf s) c h t th
  dist : ∀ (i j : Nat) (ti tj : Thread), s.threads[i]? = some ti → s.threads[j]? = some tj →
      Pre ti.pc = true → Pre tj.pc = true → ti.node = tj.node → i = j

def Inv (s : State) : Prop := ∃ c h t, InvW s c h t

/-- thread invariants survive everything other threads can do: the chain only grows at the
    end, head and tail only move forward, the heap only grows, values never change -/
theorem TInv.frame {nlen nlen' : Nat} {val val' : Nat → Nat} {c l : List Nat} {h h' t t' : Nat}
    {th : Thread} (hT : TInv nlen val c h t th)
    (hh : h ≤ h') (ht : t ≤ t') (hn : nlen ≤ nlen') (hv : ∀ x ∈ c, val' x = val x)
    (hpre : Pre th.pc = true → th.node ∉ l) : TInv nlen' val' (c ++ l) h' t' th := by
  obtain ⟨h1, h2⟩ := hT
  refine ⟨?_, ?_⟩
  · intro hp
    have a := h1 hp
    have b := hpre hp
    simp only [List.mem_append, not_or]
    exact ⟨⟨a.1, b⟩, by omega⟩
  · cases hpc : th.pc <;> simp only [hpc] at h2 ⊢
    · obtain ⟨p, a, b⟩ := h2
      exact ⟨p, getElem?_append_of a, by omega⟩
    · obtain ⟨p, a, b, d⟩ := h2
      exact ⟨p, getElem?_append_of a, by omega, fun nx e => getElem?_append_of (d nx e)⟩
    · obtain ⟨p, a, b⟩ := h2
      exact ⟨p, getElem?_append_of a, by omega⟩
    · obtain ⟨p, a, b⟩ := h2
      exact ⟨p, getElem?_append_of a, getElem?_append_of b⟩
    · obtain ⟨p, a, d⟩ := h2
      exact ⟨p, getElem?_append_of a, fun nx e => getElem?_append_of (d nx e)⟩
    · obtain ⟨p, a, b⟩ := h2
      exact ⟨p, getElem?_append_of a, by omega⟩
    · obtain ⟨ph, pt, a, b, d, e, f⟩ := h2
      exact ⟨ph, pt, getElem?_append_of a, by omega, getElem?_append_of d, by omega, f⟩
    · obtain ⟨ph, pt, a, b, d, e, f, g, k⟩ := h2
      exact ⟨ph, pt, getElem?_append_of a, by omega, getElem?_append_of d, by omega, f,
        fun nx e => getElem?_append_of (g nx e), k⟩
    · obtain ⟨p, a, d⟩ := h2
      exact ⟨p, getElem?_append_of a, fun nx e => getElem?_append_of (d nx e)⟩
    · obtain ⟨ph, nx, a, b, d, e, f, g⟩ := h2
      exact ⟨ph, nx, getElem?_append_of a, by omega, by omega, e, getElem?_append_of f,
        by rw [g, hv nx (List.mem_of_getElem? f)]⟩
    · exact h2


theorem nextOf_congr {s s' : State} (h : s'.nodes = s.nodes) : nextOf s' = nextOf s := by
  funext x; simp [nextOf, h]
theorem valueOf_congr {s s' : State} (h : s'.nodes = s.nodes) : valueOf s' = valueOf s := by
  funext x; simp [valueOf, h]

/-- generic preservation for all transitions that leave the heap alone: thread `tid` is
    replaced, head and tail may move forward along the chain -/
theorem InvW.update {s s' : State} {c : List Nat} {h t h' t' : Nat} {tid : Nat} {th th' : Thread}
    (I : InvW s c h t) (hth : s.threads[tid]? = some th)
    (hnodes : s'.nodes = s.nodes) (hthreads : s'.threads = s.threads.set tid th')
    (hh : h ≤ h') (hht : h' ≤ t') (htt : t ≤ t')
    (hhd : c[h']? = some s'.head) (htl : c[t']? = some s'.tail)
    (habs : s'.absQ = (c.drop (h'+1)).map (valueOf s))
    (hfifo : s'.enqLog = s'.deqLog ++ s'.absQ)
    (hlen : s'.length - (s'.absQ.length : Int) + (cntB th' : Nat) - (subB th' : Nat)
          = s.length - (s.absQ.length : Int) + (cntB th : Nat) - (subB th : Nat))
    (hT : TInv s.nodes.length (valueOf s) c h' t' th')
    (hpre : Pre th'.pc = true → Pre th.pc = true ∧ th'.node = th.node) :
    InvW s' c h' t' := by
  have hN := nextOf_congr hnodes
  have hV := valueOf_congr hnodes
  have frameT : ∀ u, TInv s.nodes.length (valueOf s) c h t u →
      TInv s.nodes.length (valueOf s) c h' t' u := by
    intro u hu
    have := TInv.frame (l := []) (nlen' := s.nodes.length) (val' := valueOf s) hu hh htt
      (Nat.le_refl _) (fun _ _ => rfl) (fun _ => by simp)
    simpa using this
  refine ⟨I.c0, ?_, I.nodup, ?_, ?_, hhd, htl, hht, ?_, ?_, hfifo, ?_, ?_, ?_⟩
  · rw [hN]; exact I.cnext
  · rw [hnodes]; exact I.bound
  · rw [hN]; exact I.out
  · have := I.lag; omega
  · rw [hV]; exact habs
  · have h1 := countP_set_add (fun t => t.pc == .eCasTail || t.pc == .eAdd) s.threads tid th th' hth
    have h2 := countP_set_add (fun t => t.pc == .dSub) s.threads tid th th' hth
    have h3 := I.len
    rw [hthreads]
    simp only [cntB, subB] at hlen
    omega
  · intro j u hu
    rw [hnodes, hV]
    rw [hthreads] at hu
    rcases getElem?_set_cases hu with ⟨_, rfl⟩ | ⟨_, hu'⟩
    · exact hT
    · exact frameT u (I.thr j u hu')
  · intro i j ti tj hi hj pi pj hij
    rw [hthreads] at hi hj
    rcases getElem?_set_cases hi with ⟨rfl, rfl⟩ | ⟨hne1, hi'⟩ <;>
    rcases getElem?_set_cases hj with ⟨rfl, rfl⟩ | ⟨hne2, hj'⟩
    · rfl
    · have a := hpre pi
      exact I.dist _ _ th tj hth hj' a.1 pj (by rw [← a.2]; exact hij)
    · have a := hpre pj
      exact I.dist _ _ ti th hi' hth pi a.1 (by rw [← a.2] ; exact hij)
    · exact I.dist _ _ ti tj hi' hj' pi pj hij

end Gnet.Proofs.Msq
