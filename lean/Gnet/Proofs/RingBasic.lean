import Gnet.Model.Ring
set_option linter.unusedSectionVars false
set_option linter.unusedVariables false
set_option linter.unusedSimpArgs false
namespace Gnet.Proofs.Ring
open Gnet
variable {α : Type} [Inhabited α]

/-! ### tactics for equalities between lists built from `take`/`drop`/`++` -/

macro "list_leaf" : tactic => `(tactic| first
  | rfl
  | omega
  | (congr 1; omega)
  | (symm; apply List.getElem?_eq_none; omega)
  | (apply List.getElem?_eq_none; omega))

macro "list_ext" : tactic => `(tactic|
  (apply List.ext_getElem?; intro i;
   simp only [List.getElem?_append, List.getElem?_take, List.getElem?_drop, List.length_take,
     List.length_drop, List.length_append, List.getElem?_nil, List.length_nil, List.length_cons, List.getElem?_cons,
     List.getElem?_replicate, List.length_replicate];
   repeat' split
   all_goals list_leaf))

theorem blit_fit (dst src : List α) (off : Nat) (h : off + src.length ≤ dst.length) :
    blit dst off src = dst.take off ++ src ++ dst.drop (off + src.length) := by
  unfold blit
  have h1 : src.length ≤ dst.length - off := by omega
  rw [List.take_of_length_le h1, Nat.min_eq_left h1]

theorem length_blit (dst src : List α) (off : Nat) (h : off ≤ dst.length) :
    (blit dst off src).length = dst.length := by
  unfold blit
  simp only [List.length_append, List.length_take, List.length_drop]
  omega

/-! ### `WF` in components -/

theorem wf_mk {buf : List α} {size r w : Nat} {e : Bool}
    (h1 : buf.length = size) (h2 : size = 0 ∨ r < size) (h3 : size = 0 ∨ w < size)
    (h4 : e = true → r = 0 ∧ w = 0) (h5 : size = 0 → e = true) :
    (⟨buf, size, r, w, e⟩ : Ring α).WF := ⟨h1, h2, h3, h4, h5⟩

macro "wf_leaf" : tactic => `(tactic| first
  | assumption
  | omega
  | (simp <;> omega))

macro "ring_leaf" : tactic => `(tactic| first
  | omega
  | trivial
  | (apply wf_mk <;> wf_leaf)
  | (intro h; first | contradiction | (simp at h; done))
  | list_ext
  | (simp <;> omega))

syntax "splits" : tactic
macro_rules
  | `(tactic| splits) => `(tactic| first
      | (split <;> (try (rename_i hsplit; simp only [] at hsplit)) <;> first | (exfalso; omega) | splits)
      | skip)

macro "ring_auto" : tactic => `(tactic| (
  splits
  all_goals try simp only [Ring.abs, Ring.reset, if_true, if_false, Bool.false_eq_true, reduceCtorEq]
  all_goals splits
  all_goals and_intros
  all_goals try ring_leaf))

theorem ceilPow2_pos (n : Nat) : 0 < ceilPow2 n := by
  unfold ceilPow2; split
  · omega
  · exact Nat.pow_pos (by omega)

theorem new_wf_aux (n : Int) : (Ring.new n : Ring α).WF := by
  unfold Ring.new
  split
  · exact wf_mk rfl (Or.inl rfl) (Or.inl rfl) (fun _ => ⟨rfl, rfl⟩) (fun _ => rfl)
  · have := ceilPow2_pos n.toNat
    exact wf_mk (by simp) (Or.inr this) (Or.inr this) (fun _ => ⟨rfl, rfl⟩) (fun _ => rfl)

theorem new_abs_aux (n : Int) : (Ring.new n : Ring α).abs = [] := by
  unfold Ring.new
  split <;> simp [Ring.abs]

theorem counters_aux (rb : Ring α) (h : rb.WF) :
    rb.buffered = rb.abs.length ∧ rb.buffered + rb.available = rb.cap ∧
    (rb.isEmpty = true ↔ rb.buffered = 0) ∧
    (rb.isFull = true ↔ (rb.buffered = rb.cap ∧ 0 < rb.cap)) := by
  rcases rb with ⟨buf, size, r, w, e⟩
  obtain ⟨hl, hr, hw, he, hz⟩ := h
  simp only at hl hr hw he hz
  simp only [Ring.buffered, Ring.available, Ring.abs, Ring.cap, Ring.isFull]
  cases e
  · simp only [Bool.false_eq_true, ite_false, false_iff, Bool.not_false, Bool.and_true,
      beq_iff_eq] 
    simp at hz
    refine ⟨?_, ?_, ?_, ?_⟩
    · split <;> (try split) <;> simp [List.length_take, List.length_drop] <;> omega
    · repeat' split
      all_goals omega
    · repeat' split
      all_goals omega
    · repeat' split
      all_goals omega
  · obtain ⟨rfl, rfl⟩ := he rfl
    simp; omega

theorem buffered_eq (rb : Ring α) (h : rb.WF) : rb.buffered = rb.abs.length := (counters_aux rb h).1
theorem available_eq (rb : Ring α) (h : rb.WF) : rb.available = rb.size - rb.abs.length := by
  have := counters_aux rb h
  simp only [Ring.cap] at this
  omega
theorem abs_length_le (rb : Ring α) (h : rb.WF) : rb.abs.length ≤ rb.size := by
  have := counters_aux rb h
  simp only [Ring.cap] at this
  omega
theorem isEmpty_iff (rb : Ring α) (h : rb.WF) : rb.isEmpty = true ↔ rb.abs = [] := by
  have := counters_aux rb h
  rw [this.2.2.1, this.1]; exact List.length_eq_zero_iff

end Gnet.Proofs.Ring
