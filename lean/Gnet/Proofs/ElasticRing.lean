/-
  C10, first layer: `elastic.RingBuffer` (`ERing`) = an optional ring plus the pool.
  For every operation: the invariant of the result, its abstract content, the observation.
-/
import Gnet.Model.Elastic
import Gnet.Proofs.Ring
set_option linter.unusedSectionVars false
set_option linter.unusedVariables false
set_option linter.unusedSimpArgs false
namespace Gnet.Proofs.Elastic
open Gnet
variable {α : Type} [Inhabited α]

/-! ### basic facts -/

theorem pooled_wf (c : Nat) : (ERing.pooled c : Ring α).WF := by
  refine ⟨by simp [ERing.pooled], ?_, ?_, fun _ => ⟨rfl, rfl⟩, fun _ => rfl⟩
  all_goals (simp only [ERing.pooled]; omega)

theorem pooled_abs (c : Nat) : (ERing.pooled c : Ring α).abs = [] := by
  simp [ERing.pooled, Ring.abs]

theorem wf_none (p : RbPool) : (⟨none, p⟩ : ERing α).WF := by
  intro r h; simp at h

theorem wf_some (r : Ring α) (p : RbPool) (h : r.WF) : (⟨some r, p⟩ : ERing α).WF := by
  intro r' h'; simp at h'; exact h' ▸ h

theorem wf_get {r : Ring α} {p : RbPool} (h : (⟨some r, p⟩ : ERing α).WF) : r.WF := h r rfl

@[simp] theorem abs_none (p : RbPool) : (⟨none, p⟩ : ERing α).abs = [] := rfl
@[simp] theorem abs_some (r : Ring α) (p : RbPool) : (⟨some r, p⟩ : ERing α).abs = r.abs := rfl

theorem setRb_wf (b : ERing α) (r : Ring α) (h : r.WF) : (b.setRb r).WF := wf_some r _ h
@[simp] theorem setRb_abs (b : ERing α) (r : Ring α) : (b.setRb r).abs = r.abs := rfl

theorem done_wf (b : ERing α) (h : b.WF) : b.done.WF := by
  rcases b with ⟨rb, pool⟩
  cases rb with
  | none => exact h
  | some r =>
    simp only [ERing.done]
    split
    · exact wf_none _
    · exact h

theorem done_abs (b : ERing α) (h : b.WF) : b.done.abs = b.abs := by
  rcases b with ⟨rb, pool⟩
  cases rb with
  | none => rfl
  | some r =>
    simp only [ERing.done]
    split
    · rename_i he
      have := (Ring.isEmpty_iff r (wf_get h)).mp he
      simp [this]
    · rfl

theorem doneAll_wf (b : ERing α) : b.doneAll.WF := by
  rcases b with ⟨rb, pool⟩
  cases rb with
  | none => exact wf_none _
  | some r => exact wf_none _

theorem doneAll_abs (b : ERing α) : b.doneAll.abs = [] := by
  rcases b with ⟨rb, pool⟩
  cases rb <;> rfl

/-- `instance()`: the ring handed out is well formed, holds the old content, and is now held -/
theorem inst_spec (b : ERing α) (h : b.WF) :
    b.inst.1.WF ∧ b.inst.1.abs = b.abs ∧ b.inst.2.rb = some b.inst.1 := by
  rcases b with ⟨rb, pool⟩
  cases rb with
  | some r => exact ⟨wf_get h, rfl, rfl⟩
  | none =>
    simp only [ERing.inst]
    rcases hg : pool.get with ⟨oc, p'⟩
    cases oc with
    | some c => exact ⟨pooled_wf c, pooled_abs c, rfl⟩
    | none => exact ⟨Ring.new_wf 0, Ring.new_abs 0, rfl⟩

theorem inst_fresh (b : ERing α) (h : b.rb = none) : b.inst.1.WF ∧ b.inst.1.abs = [] := by
  rcases b with ⟨rb, pool⟩
  simp only at h
  subst h
  have := inst_spec (⟨none, pool⟩ : ERing α) (wf_none _)
  exact ⟨this.1, this.2.1⟩

/-! ### operations -/

theorem write_spec (b : ERing α) (p : List α) (h : b.WF) :
    (b.write p).WF ∧ (b.write p).abs = b.abs ++ p := by
  unfold ERing.write
  by_cases hp : p.length = 0
  · rw [if_pos hp, List.length_eq_zero_iff.mp hp]; simp [h]
  · rw [if_neg hp]
    obtain ⟨h1, h2, _⟩ := inst_spec b h
    obtain ⟨_, w2, w3⟩ := Ring.write_spec b.inst.1 p h1
    exact ⟨setRb_wf _ _ w2, by rw [← h2]; exact w3⟩

theorem writeByte_spec (b : ERing α) (c : α) (h : b.WF) :
    (b.writeByte c).WF ∧ (b.writeByte c).abs = b.abs ++ [c] := by
  unfold ERing.writeByte
  obtain ⟨h1, h2, _⟩ := inst_spec b h
  obtain ⟨_, w2, w3⟩ := Ring.writeByte_spec b.inst.1 c h1
  exact ⟨setRb_wf _ _ w2, by rw [← h2]; exact w3⟩

theorem read_spec (b : ERing α) (n : Nat) (h : b.WF) :
    (b.read n).1.WF ∧ (b.read n).1.abs = b.abs.drop n ∧ (b.read n).2.1 = b.abs.take n ∧
    ((b.read n).2.2 = .nil ∨ b.abs = []) := by
  rcases b with ⟨rb, pool⟩
  cases rb with
  | none => exact ⟨h, by simp [ERing.read], by simp [ERing.read], Or.inr rfl⟩
  | some r =>
    obtain ⟨_, r2, r3, r4, r5⟩ := Ring.read_spec r n (wf_get h)
    have hw : (ERing.setRb ⟨some r, pool⟩ (r.read n).1).WF := setRb_wf _ _ r2
    refine ⟨done_wf _ hw, ?_, r4, ?_⟩
    · show (ERing.setRb ⟨some r, pool⟩ (r.read n).1).done.abs = _
      rw [done_abs _ hw]; exact r3
    · rcases r5 with r5 | r5
      · exact Or.inl r5
      · exact Or.inr r5.1

theorem readByte_spec (b : ERing α) (h : b.WF) :
    b.readByte.1.WF ∧ b.readByte.1.abs = b.abs.drop 1 ∧ b.readByte.2.1.toList = b.abs.take 1 ∧
    (b.readByte.2.2 = .nil ∨ b.abs = []) := by
  rcases b with ⟨rb, pool⟩
  cases rb with
  | none => exact ⟨h, by simp [ERing.readByte], by simp [ERing.readByte], Or.inr rfl⟩
  | some r =>
    obtain ⟨_, r2, r3, r4, r5⟩ := Ring.readByte_spec r (wf_get h)
    have hw : (ERing.setRb ⟨some r, pool⟩ r.readByte.1).WF := setRb_wf _ _ r2
    refine ⟨done_wf _ hw, ?_, r4, ?_⟩
    · show (ERing.setRb ⟨some r, pool⟩ r.readByte.1).done.abs = _
      rw [done_abs _ hw]; exact r3
    · rcases r5 with r5 | r5
      · exact Or.inl r5.1
      · exact Or.inr (List.length_eq_zero_iff.mp r5.2)

theorem peek_spec (b : ERing α) (n : Int) (h : b.WF) :
    (b.peek n).1 ++ (b.peek n).2 = (if n ≤ 0 then b.abs else b.abs.take n.toNat) := by
  rcases b with ⟨rb, pool⟩
  cases rb with
  | none => simp [ERing.peek]
  | some r => exact (Ring.peek_prefix r n (wf_get h)).2

theorem discard_spec (b : ERing α) (n : Int) (h : b.WF) :
    (b.discard n).1.WF ∧ (b.discard n).1.abs = b.abs.drop n.toNat ∧
    (b.discard n).2.1 = min n.toNat b.abs.length ∧
    ((b.discard n).2.2 = .nil ∨ b.rb = none) := by
  rcases b with ⟨rb, pool⟩
  cases rb with
  | none => exact ⟨h, by simp [ERing.discard], by simp [ERing.discard], Or.inr rfl⟩
  | some r =>
    obtain ⟨_, r2, r3, r4⟩ := Ring.discard_spec r n (wf_get h)
    have hw : (ERing.setRb ⟨some r, pool⟩ (r.discard n).1).WF := setRb_wf _ _ r2
    refine ⟨done_wf _ hw, ?_, r4, Or.inl rfl⟩
    show (ERing.setRb ⟨some r, pool⟩ (r.discard n).1).done.abs = _
    rw [done_abs _ hw]; exact r3

theorem bytes_spec (b : ERing α) (h : b.WF) : b.bytes = b.abs := by
  rcases b with ⟨rb, pool⟩
  cases rb with
  | none => rfl
  | some r => exact (Ring.bytes_spec r (wf_get h)).2

theorem reset_spec (b : ERing α) (h : b.WF) : b.reset.WF ∧ b.reset.abs = [] := by
  rcases b with ⟨rb, pool⟩
  cases rb with
  | none => exact ⟨h, rfl⟩
  | some r =>
    obtain ⟨r1, r2⟩ := Ring.reset_spec r (wf_get h)
    exact ⟨setRb_wf _ _ r1, r2⟩

theorem readFrom_spec (gen : Nat → α) (b : ERing α) (pos : Nat) (sc : List RStep) (h : b.WF) :
    (b.readFrom gen pos sc).1.WF ∧
    ∃ m, (b.readFrom gen pos sc).2.1 = m ∧ (b.readFrom gen pos sc).2.2.2 = pos + m ∧
      (b.readFrom gen pos sc).1.abs = b.abs ++ Fifo.fresh gen pos m ∧
      (b.readFrom gen pos sc).2.2.1 ≠ .eof := by
  obtain ⟨h1, h2, _⟩ := inst_spec b h
  obtain ⟨_, r2, m, r3, r4, r5, r6⟩ := Ring.readFrom_spec gen sc b.inst.1 pos 0 h1
  refine ⟨setRb_wf _ _ r2, m, ?_, r4, ?_, r6⟩
  · show (b.inst.1.readFrom gen pos 0 sc).2.1 = m
    rw [r3, Nat.zero_add]
  · show (b.inst.1.readFrom gen pos 0 sc).1.abs = _
    rw [r5, h2]

theorem writeTo_spec (b : ERing α) (sc : List WStep) (h : b.WF) :
    (b.writeTo sc).1.WF ∧
    (b.writeTo sc).1.abs = b.abs.drop (b.writeTo sc).2.1 ∧
    (b.writeTo sc).2.2.2.1 = b.abs.take (b.writeTo sc).2.1 ∧
    (b.writeTo sc).2.1 ≤ b.abs.length ∧
    ((b.writeTo sc).2.2.1 = .nil → (b.writeTo sc).2.1 = b.abs.length) := by
  rcases b with ⟨rb, pool⟩
  cases rb with
  | none => exact ⟨h, by simp [ERing.writeTo], by simp [ERing.writeTo], by simp [ERing.writeTo],
      by simp [ERing.writeTo]⟩
  | some r =>
    obtain ⟨_, r2, r3, r4, r5, r6⟩ := Ring.writeTo_spec r sc (wf_get h)
    have hw : (ERing.setRb ⟨some r, pool⟩ (r.writeTo sc).1).WF := setRb_wf _ _ r2
    refine ⟨done_wf _ hw, ?_, r4, r5, r6⟩
    show (ERing.setRb ⟨some r, pool⟩ (r.writeTo sc).1).done.abs = _
    rw [done_abs _ hw]; exact r3

theorem counters (b : ERing α) (h : b.WF) :
    b.buffered = b.abs.length ∧ (b.isEmpty = true ↔ b.buffered = 0) ∧ b.buffered + b.available = b.cap := by
  rcases b with ⟨rb, pool⟩
  cases rb with
  | none => simp [ERing.buffered, ERing.isEmpty, ERing.available, ERing.cap]
  | some r =>
    obtain ⟨c1, c2, c3, _⟩ := Ring.counters r (wf_get h)
    exact ⟨c1, c3, c2⟩

end Gnet.Proofs.Elastic
