import Gnet.Basic
import Gnet.Gen.Arith
import Gnet.Model.Gfd
import Gnet.Proofs.Bits
/-
  C20: proofs about the generated power-of-two / index arithmetic (`Gnet.Gen.Arith`) and the
  GFD model. `Nat`-level helper lemmas live in `Gnet/Proofs/Bits.lean`. Core Lean only.
-/
namespace Gnet.Proofs.Arith
open Gnet Gnet.Proofs.Bits

/-- `x` is a power of two -/
def IsPow2 (x : Int) : Prop := ∃ k : Nat, x = 2 ^ k

theorem toInt_cases (n : BitVec 64) :
    (n.toNat < 9223372036854775808 ∧ n.toInt = (n.toNat : Int)) ∨
    (9223372036854775808 ≤ n.toNat ∧ n.toNat < 18446744073709551616 ∧
      n.toInt = (n.toNat : Int) - 18446744073709551616) := by
  have hlt := n.isLt
  rw [BitVec.toInt_eq_toNat_cond]
  split <;> omega

theorem toNat_sub_one (n : BitVec 64) (h : 0 < n.toNat) : (n - 1#64).toNat = n.toNat - 1 := by
  have hlt := n.isLt
  rw [BitVec.toNat_sub]
  simp
  omega

theorem isPow2_natCast {m : Nat} : IsPow2 (m : Int) ↔ ∃ k, m = 2 ^ k := by
  constructor
  · rintro ⟨k, hk⟩; exact ⟨k, by exact_mod_cast hk⟩
  · rintro ⟨k, hk⟩; exact ⟨k, by exact_mod_cast hk⟩

theorem not_isPow2_of_nonpos {x : Int} (h : x ≤ 0) : ¬ IsPow2 x := by
  rintro ⟨k, hk⟩
  have : (0 : Int) < 2 ^ k := Int.pow_pos (by decide)
  omega

theorem ispow2_spec (n : BitVec 64) :
    ∃ b, Gen.IsPowerOfTwo n = some b ∧ (b = true ↔ IsPow2 n.toInt) := by
  refine ⟨_, rfl, ?_⟩
  simp only [Bool.and_eq_true, beq_iff_eq, BitVec.slt_iff_toInt_lt, BitVec.toInt_zero]
  rcases toInt_cases n with ⟨h1, h2⟩ | ⟨h1, h2, h3⟩
  · rw [h2]
    by_cases h0 : 0 < n.toNat
    · rw [isPow2_natCast, ← and_pred_eq_zero_iff h0, ← toNat_sub_one n h0, ← BitVec.toNat_and,
        ← BitVec.toNat_inj]
      simp
      omega
    · have : n.toNat = 0 := by omega
      rw [this]
      constructor
      · intro h; omega
      · intro h; exact absurd h (not_isPow2_of_nonpos (by simp))
  · constructor
    · intro h; omega
    · intro h; exact absurd h (not_isPow2_of_nonpos (by omega))

theorem p62 : (2:Int) ^ 62 = 4611686018427387904 := by decide
theorem p62n : (2:Nat) ^ 62 = 4611686018427387904 := by decide

theorem ceil_guard (n : BitVec 64) :
    (((n &&& 4611686018427387904#64) != 0#64) && (BitVec.slt 4611686018427387904#64 n)) = true ↔
      2 ^ 62 < n.toInt := by
  rw [p62]
  simp only [Bool.and_eq_true, bne_iff_ne, ne_eq, BitVec.slt_iff_toInt_lt]
  have e : (4611686018427387904#64).toInt = 4611686018427387904 := by decide
  rw [e]
  constructor
  · intro h; exact h.2
  · intro h
    refine ⟨?_, h⟩
    rcases toInt_cases n with ⟨h1, h2⟩ | ⟨h1, h2, h3⟩
    · intro hz
      have hz' := congrArg BitVec.toNat hz
      rw [BitVec.toNat_and] at hz'
      have t : (n.toNat &&& 4611686018427387904).testBit 62 = true := by
        rw [Nat.testBit_and]
        have e1 : n.toNat = 2 ^ 62 + (n.toNat - 2 ^ 62) := by omega
        have : n.toNat.testBit 62 = true := by
          rw [e1, Nat.testBit_two_pow_add_eq, Nat.testBit_lt_two_pow (by omega)]; rfl
        rw [this]; decide
      simp at hz'
      rw [hz'] at t
      simp at t
    · omega

theorem bitLen_le_62 {m : Nat} (h : m < 4611686018427387904) : bitLen m ≤ 62 :=
  bitLen_le_of_lt (by rw [p62n]; exact h)

/-- value of the last branch -/
theorem ceil_shift (n : BitVec 64) (h0 : 0 < n.toNat) (h : n.toNat ≤ 4611686018427387904) :
    (1#64 <<< ((Gnet.bitsLen64 (n - 1#64))).toNat).toNat = 2 ^ bitLen (n.toNat - 1) := by
  have hb := bitLen_le_62 (m := n.toNat - 1) (by omega)
  have e : (Gnet.bitsLen64 (n - 1#64)).toNat = bitLen (n.toNat - 1) := by
    unfold bitsLen64
    rw [toNat_sub_one n h0, BitVec.toNat_ofNat, Nat.mod_eq_of_lt (by omega)]
  rw [e, BitVec.toNat_shiftLeft]
  have : (1#64).toNat = 1 := rfl
  rw [this, Nat.one_shiftLeft, Nat.mod_eq_of_lt]
  exact Nat.lt_of_le_of_lt (pow_le_pow hb) (by decide)

theorem ceil_small (n : BitVec 64) (h : n.toInt ≤ 2) : Gen.CeilToPowerOfTwo n = some 2#64 := by
  unfold Gen.CeilToPowerOfTwo
  have g : ¬ ((((n &&& 4611686018427387904#64) != 0#64) &&
      (BitVec.slt 4611686018427387904#64 n)) = true) := by
    rw [ceil_guard, p62]; omega
  rw [if_neg g]
  have : BitVec.sle n 2#64 = true := by
    rw [BitVec.sle_iff_toInt_le]; exact h
  rw [if_pos this]

theorem ceil_big (n : BitVec 64) (h1 : 2 < n.toInt) (h2 : n.toInt ≤ 2 ^ 62) :
    ∃ r, Gen.CeilToPowerOfTwo n = some r ∧ r.toNat = 2 ^ bitLen (n.toNat - 1) ∧
      r.toInt = ((2 ^ bitLen (n.toNat - 1) : Nat) : Int) ∧
      n.toInt = (n.toNat : Int) ∧ 2 < n.toNat ∧ n.toNat ≤ 4611686018427387904 ∧
      bitLen (n.toNat - 1) ≤ 62 := by
  unfold Gen.CeilToPowerOfTwo
  have g : ¬ ((((n &&& 4611686018427387904#64) != 0#64) &&
      (BitVec.slt 4611686018427387904#64 n)) = true) := by
    rw [ceil_guard]; omega
  rw [if_neg g]
  have : ¬ BitVec.sle n 2#64 = true := by
    rw [BitVec.sle_iff_toInt_le]; show ¬ n.toInt ≤ 2; omega
  rw [if_neg this]
  rw [p62] at h2
  rcases toInt_cases n with ⟨h3, h4⟩ | ⟨h3, h4, h5⟩
  · have hs := ceil_shift n (by omega) (by omega)
    have hb := bitLen_le_62 (m := n.toNat - 1) (by omega)
    refine ⟨_, rfl, hs, ?_, h4, by omega, by omega, hb⟩
    rw [← hs]
    apply BitVec.toInt_eq_toNat_of_lt
    rw [hs]
    have : 2 ^ bitLen (n.toNat - 1) ≤ 2 ^ 62 := pow_le_pow hb
    rw [p62n] at this
    omega
  · omega

theorem ceil_spec (n : BitVec 64) (h : n.toInt ≤ 2 ^ 62) :
    ∃ r, Gen.CeilToPowerOfTwo n = some r ∧ IsPow2 r.toInt ∧ max n.toInt 2 ≤ r.toInt ∧
      ∀ p : Int, IsPow2 p → max n.toInt 2 ≤ p → r.toInt ≤ p := by
  by_cases hs : n.toInt ≤ 2
  · refine ⟨2#64, ceil_small n hs, ⟨1, by decide⟩, ?_, ?_⟩
    · have : (2#64).toInt = 2 := by decide
      omega
    · intro p _ hp
      have : (2#64).toInt = 2 := by decide
      omega
  · obtain ⟨r, hr, hn, hi, hni, h2, h62, hb⟩ := ceil_big n (by omega) h
    refine ⟨r, hr, ?_, ?_, ?_⟩
    · rw [hi, isPow2_natCast]; exact ⟨_, rfl⟩
    · rw [hi, hni]
      have := lt_two_pow_bitLen (n.toNat - 1)
      omega
    · rintro p ⟨j, rfl⟩ hp
      rw [hi]
      rw [hni] at hp
      have hp' : n.toNat ≤ 2 ^ j := by
        have : ((n.toNat : Nat) : Int) ≤ ((2 ^ j : Nat) : Int) := by
          rw [Int.natCast_pow]; exact Int.le_trans (Int.le_max_left _ _) hp
        exact_mod_cast this
      have := bitLen_le_of_lt (m := n.toNat - 1) (j := j) (by omega)
      have := pow_le_pow this
      exact_mod_cast this

theorem ceil_panics (n : BitVec 64) : Gen.CeilToPowerOfTwo n = none ↔ 2 ^ 62 < n.toInt := by
  rw [← ceil_guard]
  unfold Gen.CeilToPowerOfTwo
  split
  · simp [*]
  · rename_i hg
    simp only [hg]
    split <;> simp

theorem ceil_eq_ceilPow2 (n : Nat) (h : n ≤ 2 ^ 62) :
    Gen.CeilToPowerOfTwo (BitVec.ofNat 64 n) = some (BitVec.ofNat 64 (ceilPow2 n)) := by
  rw [p62n] at h
  have hn : (BitVec.ofNat 64 n).toNat = n := by
    rw [BitVec.toNat_ofNat]; exact Nat.mod_eq_of_lt (by omega)
  have hi : (BitVec.ofNat 64 n).toInt = (n : Int) := by
    rw [BitVec.toInt_eq_toNat_of_lt (by omega), hn]
  unfold ceilPow2
  by_cases hs : n ≤ 2
  · rw [if_pos hs, ceil_small _ (by omega)]
  · rw [if_neg hs]
    obtain ⟨r, hr, hrn, _⟩ := ceil_big (BitVec.ofNat 64 n) (by omega) (by rw [p62]; omega)
    rw [hr]
    congr 1
    apply BitVec.eq_of_toNat_eq
    rw [hrn, hn, bitLen_eq (by omega), BitVec.toNat_ofNat, Nat.mod_eq_of_lt]
    have hb := bitLen_le_62 (m := n - 1) (by omega)
    rw [bitLen_eq (by omega)] at hb
    exact Nat.lt_of_le_of_lt (pow_le_pow hb) (by decide)

/-! ### floor -/

theorem smear_step_bv (n : BitVec 64) (s : Nat) (h : n.toNat < 9223372036854775808) :
    (n ||| BitVec.sshiftRight n s).toNat = (n.toNat ||| n.toNat >>> s) ∧
      (n ||| BitVec.sshiftRight n s).toNat < 9223372036854775808 := by
  have hm : n.msb = false := by
    rw [BitVec.msb_eq_false_iff_two_mul_lt]; omega
  rw [BitVec.sshiftRight_eq_of_msb_false hm, BitVec.toNat_or, BitVec.toNat_ushiftRight]
  refine ⟨rfl, ?_⟩
  have h63 : (9223372036854775808 : Nat) = 2 ^ 63 := by decide
  rw [h63] at h ⊢
  apply Nat.or_lt_two_pow h
  rw [Nat.shiftRight_eq_div_pow]
  exact Nat.lt_of_le_of_lt (Nat.div_le_self _ _) h

theorem floor_big (n : BitVec 64) (h : 2 < n.toInt) :
    ∃ r, Gen.FloorToPowerOfTwo n = some r ∧ r.toNat = 2 ^ Nat.log2 n.toNat ∧
      r.toInt = ((2 ^ Nat.log2 n.toNat : Nat) : Int) ∧ n.toInt = (n.toNat : Int) := by
  unfold Gen.FloorToPowerOfTwo
  have : ¬ BitVec.sle n 2#64 = true := by
    rw [BitVec.sle_iff_toInt_le]; show ¬ n.toInt ≤ 2; omega
  rw [if_neg this]
  rcases toInt_cases n with ⟨h3, h4⟩ | ⟨h3, h4, h5⟩
  · have e1 : (1#64).toNat = 1 := rfl
    have e2 : (2#64).toNat = 2 := rfl
    have e4 : (4#64).toNat = 4 := rfl
    have e8 : (8#64).toNat = 8 := rfl
    have e16 : (16#64).toNat = 16 := rfl
    have e32 : (32#64).toNat = 32 := rfl
    simp only [e1, e2, e4, e8, e16, e32]
    obtain ⟨a1, b1⟩ := smear_step_bv n 1 h3
    obtain ⟨a2, b2⟩ := smear_step_bv _ 2 b1
    obtain ⟨a3, b3⟩ := smear_step_bv _ 4 b2
    obtain ⟨a4, b4⟩ := smear_step_bv _ 8 b3
    obtain ⟨a5, b5⟩ := smear_step_bv _ 16 b4
    obtain ⟨a6, b6⟩ := smear_step_bv _ 32 b5
    rw [a5, a4, a3, a2, a1] at a6
    have hs : _ = smear n.toNat := a6
    generalize hy : (_ ||| BitVec.sshiftRight _ 32 : BitVec 64) = y at *
    have hm : y.msb = false := by
      rw [BitVec.msb_eq_false_iff_two_mul_lt]; omega
    have h0 : n.toNat ≠ 0 := by omega
    have hlo := Nat.log2_self_le h0
    have hhi := @Nat.lt_log2_self n.toNat
    have hk : Nat.log2 n.toNat < 64 := by
      rw [Nat.log2_lt h0]; omega
    have hsub := smear_sub hlo hhi hk
    have hrn : (y - y.sshiftRight 1).toNat = 2 ^ Nat.log2 n.toNat := by
      rw [BitVec.sshiftRight_eq_of_msb_false hm, BitVec.toNat_sub_of_le, BitVec.toNat_ushiftRight,
        hs, hsub]
      rw [BitVec.le_def, BitVec.toNat_ushiftRight, Nat.shiftRight_eq_div_pow]
      exact Nat.div_le_self _ _
    refine ⟨_, rfl, hrn, ?_, h4⟩
    rw [← hrn]
    apply BitVec.toInt_eq_toNat_of_lt
    rw [hrn]
    omega
  · omega

theorem floor_spec (n : BitVec 64) :
    ∃ r, Gen.FloorToPowerOfTwo n = some r ∧
      (n.toInt ≤ 2 → r = n) ∧
      (2 < n.toInt → IsPow2 r.toInt ∧ r.toInt ≤ n.toInt ∧ n.toInt < 2 * r.toInt) := by
  by_cases hs : n.toInt ≤ 2
  · refine ⟨n, ?_, fun _ => rfl, fun h => by omega⟩
    unfold Gen.FloorToPowerOfTwo
    have : BitVec.sle n 2#64 = true := by
      rw [BitVec.sle_iff_toInt_le]; exact hs
    rw [if_pos this]
  · obtain ⟨r, hr, hrn, hri, hni⟩ := floor_big n (by omega)
    refine ⟨r, hr, fun h => by omega, fun _ => ?_⟩
    have h0 : n.toNat ≠ 0 := by omega
    have hlo := Nat.log2_self_le h0
    have hhi := @Nat.lt_log2_self n.toNat
    rw [Nat.pow_succ] at hhi
    rw [hri, hni]
    refine ⟨isPow2_natCast.2 ⟨_, rfl⟩, ?_, ?_⟩
    · exact_mod_cast hlo
    · have : n.toNat < 2 * 2 ^ n.toNat.log2 := by omega
      exact_mod_cast this

/-! ### closest -/

theorem closest_counterexample :
    Gen.ClosestPowerOfTwo (BitVec.ofNat 64 (2 ^ 62 + 1)) = none := by decide

theorem eq_of_toInt_natCast (n : BitVec 64) (k : Nat) (hk : k < 9223372036854775808)
    (h : n.toInt = (k : Int)) : n = BitVec.ofNat 64 k := by
  apply BitVec.eq_of_toNat_eq
  rw [BitVec.toNat_ofNat, Nat.mod_eq_of_lt (by omega)]
  rcases toInt_cases n with ⟨h3, h4⟩ | ⟨h3, h4, h5⟩ <;> omega

theorem pow_dichotomy (b j : Nat) (hb : 0 < b) : 2 ^ j ≤ 2 ^ (b - 1) ∨ 2 ^ b ≤ 2 ^ j := by
  by_cases h : j ≤ b - 1
  · exact Or.inl (pow_le_pow h)
  · exact Or.inr (pow_le_pow (by omega))

theorem closest_spec_partial (n : BitVec 64) (h1 : 1 ≤ n.toInt) (h2 : n.toInt ≤ 2 ^ 62) :
    ∃ r, Gen.ClosestPowerOfTwo n = some r ∧ IsPow2 r.toInt ∧
      ∀ p : Int, IsPow2 p →
        (Int.natAbs (n.toInt - r.toInt) ≤ Int.natAbs (n.toInt - p)) ∧
        (Int.natAbs (n.toInt - r.toInt) = Int.natAbs (n.toInt - p) → p ≤ r.toInt) := by
  by_cases hs : n.toInt ≤ 2
  · have : n.toInt = ((1:Nat):Int) ∨ n.toInt = ((2:Nat):Int) := by omega
    rcases this with h | h
    · have := eq_of_toInt_natCast n 1 (by decide) h
      subst this
      refine ⟨1#64, by decide, ⟨0, by decide⟩, ?_⟩
      have e : (BitVec.ofNat 64 1).toInt = 1 := by decide
      have e' : (1#64).toInt = 1 := by decide
      intro p _
      rw [e]
      omega
    · have := eq_of_toInt_natCast n 2 (by decide) h
      subst this
      refine ⟨2#64, by decide, ⟨1, by decide⟩, ?_⟩
      have e : (BitVec.ofNat 64 2).toInt = 2 := by decide
      have e' : (2#64).toInt = 2 := by decide
      intro p _
      rw [e]
      omega
  · obtain ⟨r, hr, hrn, hri, hni, h2n, h62, hb⟩ := ceil_big n (by omega) h2
    have hm := lt_two_pow_bitLen (n.toNat - 1)
    have hm0 : n.toNat - 1 ≠ 0 := by omega
    have hlo := two_pow_bitLen_le hm0
    have hbpos := bitLen_pos hm0
    generalize hbb : bitLen (n.toNat - 1) = b at *
    have hpow : 2 ^ b = 2 * 2 ^ (b - 1) := by
      have : b = (b - 1) + 1 := by omega
      rw [this, Nat.pow_succ]; simp; omega
    have hle62 : 2 ^ b ≤ 4611686018427387904 := by rw [← p62n]; exact pow_le_pow hb
    -- prev
    have hmr : r.msb = false := by rw [BitVec.msb_eq_false_iff_two_mul_lt]; omega
    have hm2 : (2#64).msb = false := by decide
    have hprev : (BitVec.sdiv r 2#64).toNat = 2 ^ (b - 1) := by
      rw [BitVec.sdiv_eq, hmr, hm2]
      show (r / 2#64).toNat = _
      rw [BitVec.toNat_udiv, hrn]
      show 2 ^ b / 2 = _
      omega
    unfold Gen.ClosestPowerOfTwo
    rw [hr]
    simp only [Option.bind_some]
    generalize hq : BitVec.sdiv r 2#64 = q at *
    have hqi : q.toInt = ((2 ^ (b - 1) : Nat) : Int) := by
      rw [← hprev]; apply BitVec.toInt_eq_toNat_of_lt; omega
    have d1 : (n - q).toInt = (n.toNat : Int) - (2 ^ (b - 1) : Nat) := by
      have : (n - q).toNat = n.toNat - 2 ^ (b - 1) := by
        rw [BitVec.toNat_sub_of_le (by rw [BitVec.le_def]; omega), hprev]
      rw [BitVec.toInt_eq_toNat_of_lt (by omega), this]; omega
    have d2 : (r - n).toInt = ((2 ^ b : Nat) : Int) - (n.toNat : Int) := by
      have : (r - n).toNat = 2 ^ b - n.toNat := by
        rw [BitVec.toNat_sub_of_le (by rw [BitVec.le_def]; omega), hrn]
      rw [BitVec.toInt_eq_toNat_of_lt (by omega), this]; omega
    have key : ∀ p : Int, IsPow2 p → p ≤ ((2 ^ (b - 1) : Nat) : Int) ∨ ((2 ^ b : Nat) : Int) ≤ p := by
      rintro p ⟨j, rfl⟩
      rcases pow_dichotomy b j hbpos with h | h
      · left; exact_mod_cast h
      · right; exact_mod_cast h
    by_cases hc : BitVec.slt (n - q) (r - n) = true
    · rw [if_pos hc]
      rw [BitVec.slt_iff_toInt_lt, d1, d2] at hc
      refine ⟨q, rfl, ?_, ?_⟩
      · rw [hqi, isPow2_natCast]; exact ⟨_, rfl⟩
      · intro p hp
        have := key p hp
        rw [hqi, hni]
        omega
    · rw [if_neg hc]
      rw [BitVec.slt_iff_toInt_lt, d1, d2] at hc
      refine ⟨r, rfl, ?_, ?_⟩
      · rw [hri, isPow2_natCast]; exact ⟨_, rfl⟩
      · intro p hp
        have := key p hp
        rw [hri, hni]
        omega

/-! ### bsIndex -/

theorem bs_index_spec (s : BitVec 32) (h1 : 1 ≤ s.toNat) (h2 : s.toNat ≤ 2 ^ 31) :
    ∃ i, Gen.bsIndex s = some i ∧ s.toNat ≤ 2 ^ i.toNat ∧ ∀ j : Nat, s.toNat ≤ 2 ^ j → i.toNat ≤ j := by
  refine ⟨_, rfl, ?_⟩
  have hlt := s.isLt
  have hs : (s - 1#32).toNat = s.toNat - 1 := by
    rw [BitVec.toNat_sub_of_le (by rw [BitVec.le_def]; exact h1)]; rfl
  have hb : bitLen (s.toNat - 1) ≤ 32 := bitLen_le_of_lt (by omega)
  have hi : (BitVec.setWidth 32 (Gnet.bitsLen32 (s - 1#32))).toNat = bitLen (s.toNat - 1) := by
    unfold bitsLen32
    rw [BitVec.toNat_setWidth, BitVec.toNat_ofNat, hs, Nat.mod_eq_of_lt (a := bitLen _) (by omega),
      Nat.mod_eq_of_lt (by omega)]
  rw [hi]
  constructor
  · have := lt_two_pow_bitLen (s.toNat - 1); omega
  · intro j hj
    exact bitLen_le_of_lt (by omega)
/-! ### GFD -/

theorem gfd_new_eq (fd el row col : BitVec 64) (seq : BitVec 32) :
    GFD.new fd el row col seq =
    [BitVec.setWidth 8 el, BitVec.setWidth 8 row, BitVec.ofNat 8 (col.toNat % 65536 / 256),
      BitVec.ofNat 8 (col.toNat % 65536), BitVec.ofNat 8 (seq.toNat / 16777216), BitVec.ofNat 8 (seq.toNat / 65536),
      BitVec.ofNat 8 (seq.toNat / 256), BitVec.setWidth 8 seq, BitVec.ofNat 8 (fd.toNat / 72057594037927936),
      BitVec.ofNat 8 (fd.toNat / 281474976710656), BitVec.ofNat 8 (fd.toNat / 1099511627776),
      BitVec.ofNat 8 (fd.toNat / 4294967296), BitVec.ofNat 8 (fd.toNat / 16777216), BitVec.ofNat 8 (fd.toNat / 65536),
      BitVec.ofNat 8 (fd.toNat / 256), BitVec.setWidth 8 fd] := by
  simp [GFD.new, GFD.putBE, GFD.colOff, GFD.seqOff, GFD.fdOff, Facts.gfdColumnOffset,
    Facts.gfdSequenceOffset, Facts.gfdFdOffset, List.range, List.range.loop, List.replicate]

theorem gfd_roundtrip (fd el row col : BitVec 64) (seq : BitVec 32)
    (hel : el.toNat < 256) (hrow : row.toNat < 256) (hcol : col.toNat < 65536) :
    (GFD.new fd el row col seq).fd = fd ∧ (GFD.new fd el row col seq).eventLoopIndex = el ∧
    (GFD.new fd el row col seq).row = row ∧ (GFD.new fd el row col seq).column = col ∧
    (GFD.new fd el row col seq).sequence = seq := by
  have hfd := fd.isLt
  have hseq := seq.isLt
  rw [gfd_new_eq]
  refine ⟨?_, ?_, ?_, ?_, ?_⟩ <;> apply BitVec.eq_of_toNat_eq <;>
    simp [GFD.fd, GFD.eventLoopIndex, GFD.row, GFD.column, GFD.sequence, GFD.getBE, GFD.colOff,
      GFD.seqOff, GFD.fdOff, Facts.gfdColumnOffset,
      Facts.gfdSequenceOffset, Facts.gfdFdOffset, List.range, List.range.loop] <;> omega

theorem gfd_upd_eq (fd el row col row' col' : BitVec 64) (seq : BitVec 32) :
    (GFD.new fd el row col seq).updateIndexes row' col' = GFD.new fd el row' col' seq := by
  rw [gfd_new_eq, gfd_new_eq]
  simp [GFD.updateIndexes, GFD.putBE, GFD.colOff, Facts.gfdColumnOffset, List.range, List.range.loop]

theorem gfd_update (fd el row col row' col' : BitVec 64) (seq : BitVec 32)
    (hel : el.toNat < 256) (hrow : row'.toNat < 256) (hcol : col'.toNat < 65536) :
    let g := (GFD.new fd el row col seq).updateIndexes row' col'
    g.fd = fd ∧ g.eventLoopIndex = el ∧ g.row = row' ∧ g.column = col' ∧ g.sequence = seq := by
  intro g
  have : g = GFD.new fd el row' col' seq := gfd_upd_eq ..
  rw [this]
  exact gfd_roundtrip fd el row' col' seq hel hrow hcol

end Gnet.Proofs.Arith
