/-
  Preservation of the Michael-Scott queue invariant by `init`, `start` and `step` (C13).
-/
import Gnet.Model.Msq
import Gnet.Proofs.MsqInv
namespace Gnet.Proofs.Msq
open Gnet.Msq

theorem inv_init (n : Nat) : Inv (init n) := by
  refine ⟨[0], 0, 0, ?_⟩
  have hth : ∀ (tid : Nat) (th : Thread), (init n).threads[tid]? = some th → th = {} := by
    intro tid th h
    have := List.mem_of_getElem? h
    simp [init] at this
    exact this.2
  refine ⟨rfl, ?_, by simp, ?_, ?_, rfl, rfl, Nat.le_refl _, by simp, ?_, rfl, ?_, ?_, ?_⟩
  · intro i x hi
    cases i with
    | zero => simp at hi; subst hi; simp [nextOf, init]
    | succ i => simp at hi
  · intro x hx; simp at hx; subst hx; simp [init]
  · intro x hx
    simp at hx
    cases x with
    | zero => exact absurd rfl hx
    | succ x => simp [nextOf, init, default_next]
  · simp [init]
  · simp [init, List.countP_replicate]
  · intro tid th h
    rw [hth tid th h]
    simp [TInv, Pre]
  · intro i j ti tj hi hj pi
    rw [hth i ti hi] at pi
    simp [Pre] at pi

/-- unfolding helper: the acting thread is known -/
theorem step_eq {s : State} {tid : Nat} {th : Thread} (hth : s.threads[tid]? = some th) :
    step s tid = (match th.pc with
    | .idle => (s, none)
    | .eLoadTail => (setThread s tid { th with tail := s.tail, pc := .eLoadNext }, none)
    | .eLoadNext => (setThread s tid { th with next := nextOf s th.tail, pc := .eReloadTail }, none)
    | .eReloadTail =>
      if th.tail = s.tail then
        match th.next with
        | none => (setThread s tid { th with pc := .eCasNext }, none)
        | some _ => (setThread s tid { th with pc := .eHelpTail }, none)
      else (setThread s tid { th with pc := .eLoadTail }, none)
    | .eCasNext =>
      if nextOf s th.tail = none then
        let nd := s.nodes.getD th.tail default
        let v := valueOf s th.node
        let s := { s with nodes := s.nodes.set th.tail { nd with next := some th.node },
                          absQ := s.absQ ++ [v], enqLog := s.enqLog ++ [v] }
        (setThread s tid { th with pc := .eCasTail }, none)
      else (setThread s tid { th with pc := .eLoadTail }, none)
    | .eCasTail =>
      let s := if s.tail = th.tail then { s with tail := th.node } else s
      (setThread s tid { th with pc := .eAdd }, none)
    | .eAdd =>
      let s := { s with length := s.length + 1 }
      (setThread s tid { th with pc := .idle }, some .enqDone)
    | .eHelpTail =>
      let s := match th.next with
        | some nx => if s.tail = th.tail then { s with tail := nx } else s
        | none => s
      (setThread s tid { th with pc := .eLoadTail }, none)
    | .dLoadHead => (setThread s tid { th with head := s.head, pc := .dLoadTail }, none)
    | .dLoadTail => (setThread s tid { th with tail := s.tail, pc := .dLoadNext }, none)
    | .dLoadNext =>
      (setThread s tid { th with next := nextOf s th.head, pc := .dReloadHead, ghostSawEmpty := s.absQ.isEmpty }, none)
    | .dReloadHead =>
      if th.head = s.head then
        if th.head = th.tail then
          match th.next with
          | none => (setThread s tid { th with pc := .idle }, some .deqNone)
          | some _ => (setThread s tid { th with pc := .dHelpTail }, none)
        else
          match th.next with
          | some nx => (setThread s tid { th with task := valueOf s nx, pc := .dCasHead }, none)
          | none => (setThread s tid { th with pc := .idle }, none)
      else (setThread s tid { th with pc := .dLoadHead }, none)
    | .dHelpTail =>
      let s := match th.next with
        | some nx => if s.tail = th.tail then { s with tail := nx } else s
        | none => s
      (setThread s tid { th with pc := .dLoadHead }, none)
    | .dCasHead =>
      match th.next with
      | some nx =>
        if s.head = th.head then
          let s := { s with head := nx, deqLog := s.deqLog ++ s.absQ.take 1 }
          let r := s.absQ.head?
          let s := { s with absQ := s.absQ.drop 1 }
          (setThread s tid { th with pc := .dSub, ghostRet := r }, none)
        else (setThread s tid { th with pc := .dLoadHead }, none)
      | none => (setThread s tid { th with pc := .idle }, none)
    | .dSub =>
      let s := { s with length := s.length - 1 }
      (setThread s tid { th with pc := .idle }, some (.deqSome th.task))
    | .lLoad => (setThread s tid { th with pc := .idle }, some (.len s.length))) := by
  unfold step
  rw [hth]
  rfl

/-- transitions that touch only the acting thread (and possibly the `length` counter) -/
theorem InvW.local {s s' : State} {c : List Nat} {h t : Nat} {tid : Nat} {th th' : Thread}
    (I : InvW s c h t) (hth : s.threads[tid]? = some th)
    (hnodes : s'.nodes = s.nodes) (hthreads : s'.threads = s.threads.set tid th')
    (hhead : s'.head = s.head) (htail : s'.tail = s.tail) (habs : s'.absQ = s.absQ)
    (henq : s'.enqLog = s.enqLog) (hdeq : s'.deqLog = s.deqLog)
    (hlen : s'.length + (cntB th' : Nat) - (subB th' : Nat)
          = s.length + (cntB th : Nat) - (subB th : Nat))
    (hT : TInv s.nodes.length (valueOf s) c h t th')
    (hpre : Pre th'.pc = true → Pre th.pc = true ∧ th'.node = th.node) :
    InvW s' c h t := by
  refine I.update hth hnodes hthreads (Nat.le_refl _) I.ht (Nat.le_refl _) ?_ ?_ ?_ ?_ ?_ hT hpre
  · rw [hhead]; exact I.hd
  · rw [htail]; exact I.tl
  · rw [habs]; exact I.abs
  · rw [henq, hdeq, habs]; exact I.fifo
  · rw [habs]; omega

/-- the shared tail pointer moves one node forward -/
theorem InvW.tailAdv {s s' : State} {c : List Nat} {h t : Nat} {tid : Nat} {th th' : Thread}
    (I : InvW s c h t) (hth : s.threads[tid]? = some th)
    (hnodes : s'.nodes = s.nodes) (hthreads : s'.threads = s.threads.set tid th')
    (hhead : s'.head = s.head) (htail : c[t+1]? = some s'.tail) (habs : s'.absQ = s.absQ)
    (henq : s'.enqLog = s.enqLog) (hdeq : s'.deqLog = s.deqLog)
    (hlen : s'.length + (cntB th' : Nat) - (subB th' : Nat)
          = s.length + (cntB th : Nat) - (subB th : Nat))
    (hT : TInv s.nodes.length (valueOf s) c h (t+1) th')
    (hpre : Pre th'.pc = true → Pre th.pc = true ∧ th'.node = th.node) :
    InvW s' c h (t+1) := by
  refine I.update hth hnodes hthreads (Nat.le_refl _) (by have := I.ht; omega) (by omega) ?_ htail ?_ ?_ ?_ hT hpre
  · rw [hhead]; exact I.hd
  · rw [habs]; exact I.abs
  · rw [henq, hdeq, habs]; exact I.fifo
  · rw [habs]; omega

section steps
variable {s : State} {c : List Nat} {h t tid : Nat} {th : Thread}

theorem step_idle (I : InvW s c h t) (hth : s.threads[tid]? = some th) (hpc : th.pc = .idle) :
    Inv (step s tid).1 := by
  rw [step_eq hth]; simp only [hpc]; exact ⟨c, h, t, I⟩

theorem step_eLoadTail (I : InvW s c h t) (hth : s.threads[tid]? = some th)
    (hpc : th.pc = .eLoadTail) : Inv (step s tid).1 := by
  have hT := I.thr tid th hth
  rw [step_eq hth]; simp only [hpc]
  refine ⟨c, h, t, I.local hth
    rfl rfl rfl rfl rfl rfl rfl ?_ ?_ ?_⟩
  · simp [cntB, subB, hpc, setThread]
  · simp [TInv, hpc, Pre] at hT ⊢
    exact ⟨hT, t, I.tl, Nat.le_refl _⟩
  · simp [hpc, Pre]

theorem step_eLoadNext (I : InvW s c h t) (hth : s.threads[tid]? = some th)
    (hpc : th.pc = .eLoadNext) : Inv (step s tid).1 := by
  have hT := I.thr tid th hth
  rw [step_eq hth]; simp only [hpc]
  refine ⟨c, h, t, I.local hth
    rfl rfl rfl rfl rfl rfl rfl ?_ ?_ ?_⟩
  · simp [cntB, subB, hpc, setThread]
  · simp [TInv, hpc, Pre] at hT ⊢
    obtain ⟨h1, p, hp, hle⟩ := hT
    refine ⟨h1, p, hp, hle, ?_⟩
    intro nx hnx
    rw [← I.cnext p _ hp]; exact hnx
  · simp [hpc, Pre]

theorem step_eReloadTail (I : InvW s c h t) (hth : s.threads[tid]? = some th)
    (hpc : th.pc = .eReloadTail) : Inv (step s tid).1 := by
  have hT := I.thr tid th hth
  rw [step_eq hth]; simp only [hpc]
  simp [TInv, hpc, Pre] at hT
  obtain ⟨h1, p, hp, hle, hnx⟩ := hT
  by_cases heq : th.tail = s.tail
  · rw [if_pos heq]
    cases hn : th.next with
    | none =>
      simp only
      refine ⟨c, h, t, I.local hth
        rfl rfl rfl rfl rfl rfl rfl ?_ ?_ ?_⟩
      · simp [cntB, subB, hpc, setThread]
      · simp [TInv, Pre]
        exact ⟨h1, p, hp, hle⟩
      · simp [hpc, Pre]
    | some nx =>
      simp only
      refine ⟨c, h, t, I.local hth
        rfl rfl rfl rfl rfl rfl rfl ?_ ?_ ?_⟩
      · simp [cntB, subB, hpc, setThread]
      · simp [TInv, Pre]
        exact ⟨h1, p, hp, hnx nx hn⟩
      · simp [hpc, Pre]
  · rw [if_neg heq]
    refine ⟨c, h, t, I.local hth
      rfl rfl rfl rfl rfl rfl rfl ?_ ?_ ?_⟩
    · simp [cntB, subB, hpc, setThread]
    · simp [TInv, Pre]
      exact h1
    · simp [hpc, Pre]

theorem step_eAdd (I : InvW s c h t) (hth : s.threads[tid]? = some th)
    (hpc : th.pc = .eAdd) : Inv (step s tid).1 := by
  rw [step_eq hth]; simp only [hpc]
  refine ⟨c, h, t, I.local hth rfl rfl rfl rfl rfl rfl rfl ?_ ?_ ?_⟩
  · simp [cntB, subB, hpc, setThread]
  · simp [TInv, Pre]
  · simp [Pre]

theorem step_dSub (I : InvW s c h t) (hth : s.threads[tid]? = some th)
    (hpc : th.pc = .dSub) : Inv (step s tid).1 := by
  rw [step_eq hth]; simp only [hpc]
  refine ⟨c, h, t, I.local hth rfl rfl rfl rfl rfl rfl rfl ?_ ?_ ?_⟩
  · simp [cntB, subB, hpc, setThread]
  · simp [TInv, Pre]
  · simp [Pre]

theorem step_lLoad (I : InvW s c h t) (hth : s.threads[tid]? = some th)
    (hpc : th.pc = .lLoad) : Inv (step s tid).1 := by
  rw [step_eq hth]; simp only [hpc]
  refine ⟨c, h, t, I.local hth rfl rfl rfl rfl rfl rfl rfl ?_ ?_ ?_⟩
  · simp [cntB, subB, hpc, setThread]
  · simp [TInv, Pre]
  · simp [Pre]

theorem step_dLoadHead (I : InvW s c h t) (hth : s.threads[tid]? = some th)
    (hpc : th.pc = .dLoadHead) : Inv (step s tid).1 := by
  rw [step_eq hth]; simp only [hpc]
  refine ⟨c, h, t, I.local hth rfl rfl rfl rfl rfl rfl rfl ?_ ?_ ?_⟩
  · simp [cntB, subB, hpc, setThread]
  · simp [TInv, Pre]
    exact ⟨h, I.hd, Nat.le_refl _⟩
  · simp [Pre]

theorem step_dLoadTail (I : InvW s c h t) (hth : s.threads[tid]? = some th)
    (hpc : th.pc = .dLoadTail) : Inv (step s tid).1 := by
  have hT := I.thr tid th hth
  rw [step_eq hth]; simp only [hpc]
  simp [TInv, hpc, Pre] at hT
  obtain ⟨ph, hph, hle⟩ := hT
  refine ⟨c, h, t, I.local hth rfl rfl rfl rfl rfl rfl rfl ?_ ?_ ?_⟩
  · simp [cntB, subB, hpc, setThread]
  · simp [TInv, Pre]
    exact ⟨ph, hph, hle, t, I.tl, Nat.le_refl _, by have := I.ht; omega⟩
  · simp [Pre]

theorem step_dLoadNext (I : InvW s c h t) (hth : s.threads[tid]? = some th)
    (hpc : th.pc = .dLoadNext) : Inv (step s tid).1 := by
  have hT := I.thr tid th hth
  rw [step_eq hth]; simp only [hpc]
  simp [TInv, hpc, Pre] at hT
  obtain ⟨ph, hph, hle, pt, hpt, hle2, hle3⟩ := hT
  refine ⟨c, h, t, I.local hth rfl rfl rfl rfl rfl rfl rfl ?_ ?_ ?_⟩
  · simp [cntB, subB, hpc, setThread]
  · simp [TInv, Pre]
    refine ⟨ph, hph, hle, pt, hpt, hle2, hle3, ?_, ?_⟩
    · intro nx hnx
      rw [← I.cnext ph _ hph]; exact hnx
    · intro hnone
      rw [I.cnext ph _ hph] at hnone
      have h1 := List.getElem?_eq_none_iff.1 hnone
      have h2 := lt_of_getElem? hpt
      refine ⟨by omega, ?_⟩
      rw [I.abs]
      simp
      omega
  · simp [Pre]

theorem step_dReloadHead (I : InvW s c h t) (hth : s.threads[tid]? = some th)
    (hpc : th.pc = .dReloadHead) : Inv (step s tid).1 := by
  have hT := I.thr tid th hth
  rw [step_eq hth]; simp only [hpc]
  simp [TInv, hpc, Pre] at hT
  obtain ⟨ph, hph, hle, pt, hpt, hle2, hle3, hsome, hnone⟩ := hT
  by_cases heq : th.head = s.head
  · rw [if_pos heq]
    by_cases heq2 : th.head = th.tail
    · rw [if_pos heq2]
      cases hn : th.next with
      | none =>
        simp only
        refine ⟨c, h, t, I.local hth rfl rfl rfl rfl rfl rfl rfl ?_ ?_ ?_⟩
        · simp [cntB, subB, hpc, setThread]
        · simp [TInv, Pre]
        · simp [Pre]
      | some nx =>
        simp only
        refine ⟨c, h, t, I.local hth rfl rfl rfl rfl rfl rfl rfl ?_ ?_ ?_⟩
        · simp [cntB, subB, hpc, setThread]
        · simp [TInv, Pre]
          have : ph = pt := nodup_idx I.nodup hph (heq2 ▸ hpt)
          exact ⟨pt, hpt, this ▸ hsome nx hn⟩
        · simp [Pre]
    · rw [if_neg heq2]
      cases hn : th.next with
      | none =>
        simp only
        refine ⟨c, h, t, I.local hth rfl rfl rfl rfl rfl rfl rfl ?_ ?_ ?_⟩
        · simp [cntB, subB, hpc, setThread]
        · simp [TInv, Pre]
        · simp [Pre]
      | some nx =>
        simp only
        refine ⟨c, h, t, I.local hth rfl rfl rfl rfl rfl rfl rfl ?_ ?_ ?_⟩
        · simp [cntB, subB, hpc, setThread]
        · simp [TInv, Pre]
          have hne : ph ≠ pt := by
            intro e; subst e
            rw [hph] at hpt; exact heq2 (Option.some.inj hpt)
          exact ⟨ph, hph, hle, by omega, hsome nx hn⟩
        · simp [Pre]
  · rw [if_neg heq]
    refine ⟨c, h, t, I.local hth rfl rfl rfl rfl rfl rfl rfl ?_ ?_ ?_⟩
    · simp [cntB, subB, hpc, setThread]
    · simp [TInv, Pre]
    · simp [Pre]

theorem step_eCasTail (I : InvW s c h t) (hth : s.threads[tid]? = some th)
    (hpc : th.pc = .eCasTail) : Inv (step s tid).1 := by
  have hT := I.thr tid th hth
  rw [step_eq hth]; simp only [hpc]
  simp [TInv, hpc, Pre] at hT
  obtain ⟨p, hp, hp1⟩ := hT
  by_cases heq : s.tail = th.tail
  · rw [if_pos heq]
    have hpt : p = t := nodup_idx I.nodup hp (heq ▸ I.tl)
    subst hpt
    refine ⟨c, h, p+1, I.tailAdv hth rfl rfl rfl hp1 rfl rfl rfl ?_ ?_ ?_⟩
    · simp [cntB, subB, hpc, setThread]
    · simp [TInv, Pre]
    · simp [Pre]
  · rw [if_neg heq]
    refine ⟨c, h, t, I.local hth rfl rfl rfl rfl rfl rfl rfl ?_ ?_ ?_⟩
    · simp [cntB, subB, hpc, setThread]
    · simp [TInv, Pre]
    · simp [Pre]

theorem step_eHelpTail (I : InvW s c h t) (hth : s.threads[tid]? = some th)
    (hpc : th.pc = .eHelpTail) : Inv (step s tid).1 := by
  have hT := I.thr tid th hth
  rw [step_eq hth]; simp only [hpc]
  simp [TInv, hpc, Pre] at hT
  obtain ⟨h1, p, hp, hp1⟩ := hT
  cases hn : th.next with
  | none =>
    simp only
    refine ⟨c, h, t, I.local hth rfl rfl rfl rfl rfl rfl rfl ?_ ?_ ?_⟩
    · simp [cntB, subB, hpc, setThread]
    · simp [TInv, Pre]; exact h1
    · simp [Pre, hpc]
  | some nx =>
    simp only
    by_cases heq : s.tail = th.tail
    · rw [if_pos heq]
      have hpt : p = t := nodup_idx I.nodup hp (heq ▸ I.tl)
      subst hpt
      refine ⟨c, h, p+1, I.tailAdv hth rfl rfl rfl (hp1 nx hn) rfl rfl rfl ?_ ?_ ?_⟩
      · simp [cntB, subB, hpc, setThread]
      · simp [TInv, Pre]; exact h1
      · simp [Pre, hpc]
    · rw [if_neg heq]
      refine ⟨c, h, t, I.local hth rfl rfl rfl rfl rfl rfl rfl ?_ ?_ ?_⟩
      · simp [cntB, subB, hpc, setThread]
      · simp [TInv, Pre]; exact h1
      · simp [Pre, hpc]

theorem step_dHelpTail (I : InvW s c h t) (hth : s.threads[tid]? = some th)
    (hpc : th.pc = .dHelpTail) : Inv (step s tid).1 := by
  have hT := I.thr tid th hth
  rw [step_eq hth]; simp only [hpc]
  simp [TInv, hpc, Pre] at hT
  obtain ⟨p, hp, hp1⟩ := hT
  cases hn : th.next with
  | none =>
    simp only
    refine ⟨c, h, t, I.local hth rfl rfl rfl rfl rfl rfl rfl ?_ ?_ ?_⟩
    · simp [cntB, subB, hpc, setThread]
    · simp [TInv, Pre]
    · simp [Pre]
  | some nx =>
    simp only
    by_cases heq : s.tail = th.tail
    · rw [if_pos heq]
      have hpt : p = t := nodup_idx I.nodup hp (heq ▸ I.tl)
      subst hpt
      refine ⟨c, h, p+1, I.tailAdv hth rfl rfl rfl (hp1 nx hn) rfl rfl rfl ?_ ?_ ?_⟩
      · simp [cntB, subB, hpc, setThread]
      · simp [TInv, Pre]
      · simp [Pre]
    · rw [if_neg heq]
      refine ⟨c, h, t, I.local hth rfl rfl rfl rfl rfl rfl rfl ?_ ?_ ?_⟩
      · simp [cntB, subB, hpc, setThread]
      · simp [TInv, Pre]
      · simp [Pre]

theorem step_dCasHead (I : InvW s c h t) (hth : s.threads[tid]? = some th)
    (hpc : th.pc = .dCasHead) : Inv (step s tid).1 := by
  have hT := I.thr tid th hth
  rw [step_eq hth]; simp only [hpc]
  simp [TInv, hpc, Pre] at hT
  obtain ⟨ph, hph, hle, hlt, nx, hn, hnx, htask⟩ := hT
  rw [hn]
  simp only
  by_cases heq : s.head = th.head
  · rw [if_pos heq]
    have hpt : ph = h := nodup_idx I.nodup hph (heq ▸ I.hd)
    subst hpt
    have hL := lt_of_getElem? hnx
    have habsl : s.absQ.length = c.length - (ph + 1) := by rw [I.abs]; simp
    refine ⟨c, ph+1, t, I.update hth rfl rfl (by omega) (by omega) (Nat.le_refl _) hnx I.tl
      ?_ ?_ ?_ ?_ ?_⟩
    · show s.absQ.drop 1 = _
      rw [I.abs]; simp [← List.map_drop]
    · show s.enqLog = (s.deqLog ++ s.absQ.take 1) ++ s.absQ.drop 1
      rw [I.fifo, List.append_assoc, List.take_append_drop]
    · show s.length - (((s.absQ.drop 1).length : Nat) : Int) + _ - _ = _
      simp [cntB, subB, hpc]
      omega
    · simp [TInv, Pre]
      rw [I.abs, htask]; simp [List.head?_drop, hnx]
    · simp [Pre]
  · rw [if_neg heq]
    refine ⟨c, h, t, I.local hth rfl rfl rfl rfl rfl rfl rfl ?_ ?_ ?_⟩
    · simp [cntB, subB, hpc, setThread]
    · simp [TInv, Pre]
    · simp [Pre]

theorem step_eCasNext (I : InvW s c h t) (hth : s.threads[tid]? = some th)
    (hpc : th.pc = .eCasNext) : Inv (step s tid).1 := by
  have hT := I.thr tid th hth
  rw [step_eq hth]; simp only [hpc]
  simp [TInv, hpc, Pre] at hT
  obtain ⟨⟨hnc, hnl⟩, p, hp, hle⟩ := hT
  by_cases hnone : nextOf s th.tail = none
  · rw [if_pos hnone]
    simp only
    -- the read tail is the last chain node, and the shared tail has not moved past it
    have hp1 : c[p+1]? = none := by rw [← I.cnext p _ hp]; exact hnone
    have hL1 := List.getElem?_eq_none_iff.1 hp1
    have hL2 := lt_of_getElem? hp
    have hL3 := lt_of_getElem? I.tl
    have htl : th.tail < s.nodes.length := I.bound _ (List.mem_of_getElem? hp)
    have hne : th.node ≠ th.tail := fun e => hnc (e ▸ List.mem_of_getElem? hp)
    generalize hs' : (setThread _ tid _ : State) = s'
    have hnodes : s'.nodes = s.nodes.set th.tail
        { s.nodes.getD th.tail default with next := some th.node } := by subst hs'; rfl
    have hV : ∀ x, valueOf s' x = valueOf s x := by
      intro x
      simp only [valueOf, hnodes, List.getD_eq_getElem?_getD, List.getElem?_set]
      by_cases hx : th.tail = x
      · subst hx; simp [htl]
      · simp [hx]
    have hN1 : nextOf s' th.tail = some th.node := by
      simp [nextOf, hnodes, List.getD_eq_getElem?_getD, htl]
    have hN2 : ∀ x, x ≠ th.tail → nextOf s' x = nextOf s x := by
      intro x hx
      have : ¬ th.tail = x := fun e => hx e.symm
      simp [nextOf, hnodes, List.getD_eq_getElem?_getD, this]
    have hlen' : s'.nodes.length = s.nodes.length := by rw [hnodes]; simp
    have hthreads : s'.threads = s.threads.set tid { th with pc := .eCasTail } := by
      subst hs'; rfl
    have habs : s'.absQ = s.absQ ++ [valueOf s th.node] := by subst hs'; rfl
    have henq : s'.enqLog = s.enqLog ++ [valueOf s th.node] := by subst hs'; rfl
    have hdeq : s'.deqLog = s.deqLog := by subst hs'; rfl
    have hhead : s'.head = s.head := by subst hs'; rfl
    have htail : s'.tail = s.tail := by subst hs'; rfl
    have hlength : s'.length = s.length := by subst hs'; rfl
    have hVf : valueOf s' = valueOf s := funext hV
    refine ⟨c ++ [th.node], h, t, ?_⟩
    refine ⟨getElem?_append_of I.c0, ?_, ?_, ?_, ?_, ?_, ?_, I.ht, ?_, ?_, ?_, ?_, ?_, ?_⟩
    · -- cnext
      intro i x hi
      by_cases hil : i < c.length
      · rw [List.getElem?_append_left hil] at hi
        by_cases hx : x = th.tail
        · subst hx
          have : i = p := nodup_idx I.nodup hi hp
          subst this
          rw [hN1]
          have : i + 1 = c.length := by omega
          rw [this]; simp
        · rw [hN2 x hx, I.cnext i x hi]
          have : i + 1 < c.length := by
            apply Classical.byContradiction; intro hcon
            have : i = p := by omega
            subst this
            rw [hp] at hi; exact hx (Option.some.inj hi).symm
          rw [List.getElem?_append_left this]
      · have hi2 := lt_of_getElem? hi
        simp at hi2
        have : i = c.length := by omega
        subst this
        simp at hi
        subst hi
        rw [hN2 _ hne, I.out _ hnc]
        symm
        apply List.getElem?_eq_none_iff.2
        simp
    · -- nodup
      rw [List.nodup_append]
      refine ⟨I.nodup, by simp, ?_⟩
      intro a ha b hb
      simp at hb; subst hb
      intro e; exact hnc (e ▸ ha)
    · -- bound
      intro x hx
      rw [hlen']
      simp at hx
      rcases hx with hx | hx
      · exact I.bound x hx
      · omega
    · -- out
      intro x hx
      simp at hx
      have hxt : x ≠ th.tail := fun e => hx.1 (e ▸ List.mem_of_getElem? hp)
      rw [hN2 x hxt]; exact I.out x hx.1
    · rw [hhead]; exact getElem?_append_of I.hd
    · rw [htail]; exact getElem?_append_of I.tl
    · simp; omega
    · rw [habs, hVf, I.abs, List.drop_append_of_le_length (by have := I.ht; omega)]
      simp
    · rw [henq, hdeq, habs, I.fifo, List.append_assoc]
    · have h1 := countP_set_add (fun t => t.pc == .eCasTail || t.pc == .eAdd) s.threads tid th
        { th with pc := .eCasTail } hth
      have h2 := countP_set_add (fun t => t.pc == .dSub) s.threads tid th
        { th with pc := .eCasTail } hth
      have h3 := I.len
      rw [hthreads, hlength, habs]
      simp [hpc] at h1 h2
      simp
      omega
    · -- threads
      intro j u hu
      rw [hthreads] at hu
      rw [hlen', hVf]
      rcases getElem?_set_cases hu with ⟨_, rfl⟩ | ⟨hj, hu'⟩
      · simp [TInv, Pre]
        refine ⟨p, getElem?_append_of hp, ?_⟩
        have : p + 1 = c.length := by omega
        rw [this]; simp
      · refine TInv.frame (I.thr j u hu') (Nat.le_refl _) (Nat.le_refl _) (Nat.le_refl _)
          (fun _ _ => rfl) ?_
        intro hpre
        simp
        intro e
        exact hj (I.dist j tid u th hu' hth hpre (by simp [hpc, Pre]) e)
    · -- dist
      intro i j ti tj hi hj pi pj hij
      rw [hthreads] at hi hj
      rcases getElem?_set_cases hi with ⟨rfl, rfl⟩ | ⟨hne1, hi'⟩ <;>
      rcases getElem?_set_cases hj with ⟨rfl, rfl⟩ | ⟨hne2, hj'⟩
      · rfl
      · simp [Pre] at pi
      · simp [Pre] at pj
      · exact I.dist _ _ ti tj hi' hj' pi pj hij
  · rw [if_neg hnone]
    refine ⟨c, h, t, I.local hth rfl rfl rfl rfl rfl rfl rfl ?_ ?_ ?_⟩
    · simp [cntB, subB, hpc, setThread]
    · simp [TInv, Pre]; exact ⟨hnc, hnl⟩
    · simp [Pre, hpc]

end steps

theorem inv_step {s : State} (hI : Inv s) (tid : Nat) : Inv (step s tid).1 := by
  obtain ⟨c, h, t, I⟩ := hI
  cases hth : s.threads[tid]? with
  | none => simp only [step, hth]; exact ⟨c, h, t, I⟩
  | some th =>
    cases hpc : th.pc
    · exact step_idle I hth hpc
    · exact step_eLoadTail I hth hpc
    · exact step_eLoadNext I hth hpc
    · exact step_eReloadTail I hth hpc
    · exact step_eCasNext I hth hpc
    · exact step_eCasTail I hth hpc
    · exact step_eAdd I hth hpc
    · exact step_eHelpTail I hth hpc
    · exact step_dLoadHead I hth hpc
    · exact step_dLoadTail I hth hpc
    · exact step_dLoadNext I hth hpc
    · exact step_dReloadHead I hth hpc
    · exact step_dHelpTail I hth hpc
    · exact step_dCasHead I hth hpc
    · exact step_dSub I hth hpc
    · exact step_lLoad I hth hpc

theorem inv_start {s : State} (hI : Inv s) (tid : Nat) (op : Op) : Inv (start s tid op) := by
  obtain ⟨c, h, t, I⟩ := hI
  unfold start
  cases hth : s.threads[tid]? with
  | none => exact ⟨c, h, t, I⟩
  | some th =>
    simp only
    by_cases hpc : th.pc = .idle
    · rw [if_neg (by simp [hpc])]
      cases op with
      | deq =>
        simp only
        refine ⟨c, h, t, I.local hth rfl rfl rfl rfl rfl rfl rfl ?_ ?_ ?_⟩
        · simp [cntB, subB, hpc, setThread]
        · simp [TInv, Pre]
        · simp [Pre]
      | len =>
        simp only
        refine ⟨c, h, t, I.local hth rfl rfl rfl rfl rfl rfl rfl ?_ ?_ ?_⟩
        · simp [cntB, subB, hpc, setThread]
        · simp [TInv, Pre]
        · simp [Pre]
      | enq v =>
        simp only
        generalize hs' : (setThread _ tid _ : State) = s'
        have hnodes : s'.nodes = s.nodes ++ [⟨v, none⟩] := by subst hs'; rfl
        have hthreads : s'.threads = s.threads.set tid
            { th with pc := .eLoadTail, node := s.nodes.length, ghostRet := none } := by
          subst hs'; simp [setThread]
        have habs : s'.absQ = s.absQ := by subst hs'; rfl
        have henq : s'.enqLog = s.enqLog := by subst hs'; rfl
        have hdeq : s'.deqLog = s.deqLog := by subst hs'; rfl
        have hhead : s'.head = s.head := by subst hs'; rfl
        have htail : s'.tail = s.tail := by subst hs'; rfl
        have hlength : s'.length = s.length := by subst hs'; rfl
        have hlen' : s'.nodes.length = s.nodes.length + 1 := by rw [hnodes]; simp
        have hV : ∀ x, x < s.nodes.length → valueOf s' x = valueOf s x := by
          intro x hx
          simp [valueOf, hnodes, List.getD_eq_getElem?_getD, List.getElem?_append_left hx]
        have hN : ∀ x, nextOf s' x = nextOf s x := by
          intro x
          simp only [nextOf, hnodes, List.getD_eq_getElem?_getD]
          by_cases hx : x < s.nodes.length
          · rw [List.getElem?_append_left hx]
          · by_cases hx2 : x = s.nodes.length
            · subst hx2; simp [default_next]
            · have h1 : (s.nodes ++ [(⟨v, none⟩ : Node)])[x]? = none :=
                List.getElem?_eq_none_iff.2 (by simp; omega)
              have h2 : s.nodes[x]? = none := List.getElem?_eq_none_iff.2 (by omega)
              rw [h1, h2]
        have hNf : nextOf s' = nextOf s := funext hN
        refine ⟨c, h, t, I.c0, ?_, I.nodup, ?_, ?_, ?_, ?_, I.ht, I.lag, ?_, ?_, ?_, ?_, ?_⟩
        · rw [hNf]; exact I.cnext
        · intro x hx; have := I.bound x hx; omega
        · rw [hNf]; exact I.out
        · rw [hhead]; exact I.hd
        · rw [htail]; exact I.tl
        · rw [habs, I.abs]
          apply List.map_congr_left
          intro x hx
          exact (hV x (I.bound x (List.mem_of_mem_drop hx))).symm
        · rw [henq, hdeq, habs]; exact I.fifo
        · have h1 := countP_set_add (fun t => t.pc == .eCasTail || t.pc == .eAdd) s.threads tid th
            { th with pc := .eLoadTail, node := s.nodes.length, ghostRet := none } hth
          have h2 := countP_set_add (fun t => t.pc == .dSub) s.threads tid th
            { th with pc := .eLoadTail, node := s.nodes.length, ghostRet := none } hth
          have h3 := I.len
          rw [hthreads, hlength, habs]
          simp [hpc] at h1 h2
          omega
        · intro j u hu
          rw [hthreads] at hu
          rw [hlen']
          rcases getElem?_set_cases hu with ⟨_, rfl⟩ | ⟨hj, hu'⟩
          · simp [TInv, Pre]
            intro hmem
            have := I.bound _ hmem
            omega
          · have := TInv.frame (l := []) (nlen' := s.nodes.length + 1) (val' := valueOf s')
              (I.thr j u hu') (Nat.le_refl _) (Nat.le_refl _) (by omega)
              (fun x hx => hV x (I.bound x hx)) (fun _ => by simp)
            simpa using this
        · intro i j ti tj hi hj pi pj hij
          rw [hthreads] at hi hj
          rcases getElem?_set_cases hi with ⟨rfl, rfl⟩ | ⟨hne1, hi'⟩ <;>
          rcases getElem?_set_cases hj with ⟨rfl, rfl⟩ | ⟨hne2, hj'⟩
          · rfl
          · have := ((I.thr _ tj hj').1 pj).2
            simp at hij; omega
          · have := ((I.thr _ ti hi').1 pi).2
            simp at hij; omega
          · exact I.dist _ _ ti tj hi' hj' pi pj hij
    · rw [if_pos hpc]; exact ⟨c, h, t, I⟩

theorem inv_runEvs : ∀ (evs : List Ev) (s : State), Inv s → Inv (runEvs s evs) := by
  intro evs
  induction evs with
  | nil => intro s hs; exact hs
  | cons e es ih =>
    intro s hs
    simp only [runEvs]
    apply ih
    cases e with
    | start tid op => exact inv_start hs tid op
    | step tid => exact inv_step hs tid

theorem inv_reachable {s : State} (hr : Reachable s) : Inv s := by
  obtain ⟨n, evs, rfl⟩ := hr
  exact inv_runEvs evs _ (inv_init n)

end Gnet.Proofs.Msq
