/-
  The one-round invariants lifted to whole histories: any number of accepted rounds from the initial state.
-/
import Gnet.Proofs.ReactorBytes
import Gnet.Proofs.ReactorLife
namespace Gnet.Proofs.ReactorRuns
open Gnet.Reactor

/-- a history: rounds accepted one after the other -/
def acceptRounds (s : RState) : List (List Tok) → Except String RState
  | [] => .ok s
  | r :: rest => match acceptRound s r with
    | .ok s' => acceptRounds s' rest
    | .error e => .error e

theorem runs_inbound (rounds : List (List Tok)) (s s' : RState) (hn : NamesNodup s) (hi : InvIn s) (hq : Quiet s)
    (h : acceptRounds s rounds = .ok s') : InvIn s' ∧ Quiet s' ∧ NamesNodup s' := by
  induction rounds generalizing s with
  | nil => simp [acceptRounds] at h; subst h; exact ⟨hi, hq, hn⟩
  | cons r rest ih =>
    simp only [acceptRounds] at h
    split at h
    · rename_i s1 h1
      have := ReactorBytes.inbound_integrity s s1 r hn h1 hi hq
      exact ih s1 this.2.2 this.1 this.2.1 h
    · cases h

theorem runs_outbound (rounds : List (List Tok)) (s s' : RState) (hn : NamesNodup s) (ho : InvOut s) (hq : Quiet s)
    (h : acceptRounds s rounds = .ok s') : InvOut s' ∧ Quiet s' ∧ NamesNodup s' := by
  induction rounds generalizing s with
  | nil => simp [acceptRounds] at h; subst h; exact ⟨ho, hq, hn⟩
  | cons r rest ih =>
    simp only [acceptRounds] at h
    split at h
    · rename_i s1 h1
      have := ReactorBytes.outbound_integrity s s1 r hn h1 ho hq
      exact ih s1 this.2.2 this.1 this.2.1 h
    · cases h

/-- all four invariants together, for every history -/
theorem runs_all (rounds : List (List Tok)) (s s' : RState) (hn : NamesNodup s) (hi : InvIn s) (ho : InvOut s)
    (hq : Quiet s) (hl : InvLife s) (hf : InvFd s) (h : acceptRounds s rounds = .ok s') :
    InvIn s' ∧ InvOut s' ∧ InvLife s' ∧ InvFd s' ∧ Quiet s' ∧ NamesNodup s' := by
  induction rounds generalizing s with
  | nil => simp [acceptRounds] at h; subst h; exact ⟨hi, ho, hl, hf, hq, hn⟩
  | cons r rest ih =>
    simp only [acceptRounds] at h
    split at h
    · rename_i s1 h1
      have a := ReactorBytes.inbound_integrity s s1 r hn h1 hi hq
      have b := ReactorBytes.outbound_integrity s s1 r hn h1 ho hq
      have c := ReactorLife.lifecycle s s1 r hn h1 hl
      have d := ReactorLife.fd_discipline s s1 r hn h1 hl hf
      exact ih s1 a.2.2 a.1 b.1 a.2.1 c d h
    · cases h

/-- ... from the initial state of any configuration -/
theorem runs_from_init (cfg : Cfg) (rounds : List (List Tok)) (s' : RState)
    (h : acceptRounds { cfg := cfg } rounds = .ok s') :
    InvIn s' ∧ InvOut s' ∧ InvLife s' ∧ InvFd s' ∧ Quiet s' ∧ NamesNodup s' :=
  runs_all rounds _ s' (ReactorBytes.inbound_init cfg).2.2 (ReactorBytes.inbound_init cfg).1 (ReactorBytes.outbound_init cfg)
    (ReactorBytes.inbound_init cfg).2.1 (ReactorLife.lifecycle_init cfg) (by intro e he; simp at he) h

end Gnet.Proofs.ReactorRuns
