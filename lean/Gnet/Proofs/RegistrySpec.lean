/-
  Facts about the specification `RegSpec` alone: the well-formedness invariant `SInv`
  (distinct keys, distinct ids, `fdOf` consistent with `live`) is kept by every valid step.
-/
import Gnet.Model.Registry
namespace Gnet.Proofs.Registry
open Gnet

/-- two entries differ in both components -/
def Apart (p q : Int × Nat) : Prop := p.1 ≠ q.1 ∧ p.2 ≠ q.2

theorem Apart.symm {p q : Int × Nat} (h : Apart p q) : Apart q p := ⟨fun e => h.1 e.symm, fun e => h.2 e.symm⟩

theorem pairwise_apart_of_ne {l : List (Int × Nat)} (h : l.Pairwise Apart) :
    ∀ {p q}, p ∈ l → q ∈ l → p ≠ q → Apart p q := by
  induction l with
  | nil => intro p q hp; cases hp
  | cons a t ih =>
    intro p q hp hq hne
    rw [List.pairwise_cons] at h
    rcases List.mem_cons.1 hp with rfl | hp'
    · rcases List.mem_cons.1 hq with rfl | hq'
      · exact absurd rfl hne
      · exact h.1 q hq'
    · rcases List.mem_cons.1 hq with rfl | hq'
      · exact (h.1 p hp').symm
      · exact ih h.2 hp' hq' hne

/-- well-formedness of a specification state -/
structure SInv (s : RegSpec) : Prop where
  pw : s.live.Pairwise Apart
  fdof : ∀ p ∈ s.live, s.fdOf p.2 = p.1

theorem SInv.init : SInv RegSpec.init := ⟨List.Pairwise.nil, fun _ h => by cases h⟩

theorem SInv.eq_of_fst {s : RegSpec} (h : SInv s) {p q : Int × Nat} (hp : p ∈ s.live) (hq : q ∈ s.live)
    (e : p.1 = q.1) : p = q := by
  apply Classical.byContradiction
  intro hne
  exact (pairwise_apart_of_ne h.pw hp hq hne).1 e

theorem SInv.eq_of_snd {s : RegSpec} (h : SInv s) {p q : Int × Nat} (hp : p ∈ s.live) (hq : q ∈ s.live)
    (e : p.2 = q.2) : p = q := by
  apply Classical.byContradiction
  intro hne
  exact (pairwise_apart_of_ne h.pw hp hq hne).2 e

theorem SInv.mem_fdOf {s : RegSpec} (h : SInv s) {fd : Int} {id : Nat} (hp : (fd, id) ∈ s.live) :
    s.fdOf id = fd := h.fdof _ hp

theorem SInv.step {s : RegSpec} (h : SInv s) (cap : Nat) (op : RegOp) (hv : s.valid cap op) :
    SInv (s.step op) := by
  cases op with
  | conn id fd =>
    refine ⟨h.pw, ?_⟩
    intro p hp
    have hne : p.2 ≠ id := hv p hp
    show (if p.2 = id then fd else s.fdOf p.2) = p.1
    rw [if_neg hne]; exact h.fdof p hp
  | add id el =>
    obtain ⟨hv1, _⟩ := hv
    refine ⟨?_, ?_⟩
    · show (s.live ++ [(s.fdOf id, id)]).Pairwise Apart
      rw [List.pairwise_append]
      refine ⟨h.pw, List.pairwise_singleton _ _, ?_⟩
      intro a ha b hb
      rw [List.mem_singleton] at hb
      subst hb
      exact hv1 a ha
    · intro p hp
      have hp' : p ∈ s.live ++ [(s.fdOf id, id)] := hp
      rcases List.mem_append.1 hp' with hp | hp
      · exact h.fdof p hp
      · rw [List.mem_singleton] at hp; subst hp; rfl
  | del id =>
    refine ⟨List.Pairwise.filter _ h.pw, ?_⟩
    intro p hp
    exact h.fdof p (List.mem_filter.1 hp).1
  | get fd => exact h
  | count => exact h
  | iter d =>
    cases d with
    | false => exact h
    | true => exact ⟨List.Pairwise.nil, fun _ hp => by cases hp⟩

theorem SInv.foldl {cap : Nat} : ∀ (ops : List RegOp) {s : RegSpec}, SInv s → s.validRun cap ops →
    SInv (ops.foldl RegSpec.step s)
  | [], _, h, _ => h
  | op :: ops, _, h, hv => SInv.foldl ops (h.step cap op hv.1) hv.2

theorem SInv.keys_nodup {s : RegSpec} (h : SInv s) : (s.live.map (·.1)).Nodup := by
  unfold List.Nodup
  rw [List.pairwise_map]
  exact h.pw.imp (fun hab => hab.1)

theorem SInv.ids_nodup {s : RegSpec} (h : SInv s) : (s.live.map (·.2)).Nodup := by
  unfold List.Nodup
  rw [List.pairwise_map]
  exact h.pw.imp (fun hab => hab.2)

/-- lookup of a live key returns its connection -/
theorem SInv.lookup_mem {s : RegSpec} (h : SInv s) {fd : Int} {id : Nat} (hp : (fd, id) ∈ s.live) :
    s.lookup fd = some id := by
  unfold RegSpec.lookup
  cases hf : s.live.find? (fun p => p.1 == fd) with
  | none =>
    rw [List.find?_eq_none] at hf
    have := hf _ hp
    simp at this
  | some q =>
    have hq : q ∈ s.live := List.mem_of_find?_eq_some hf
    have hq1 : q.1 = fd := by
      have := List.find?_some hf
      simpa using this
    have : q = (fd, id) := h.eq_of_fst hq hp hq1
    subst this
    rfl

theorem lookup_not_key {s : RegSpec} {fd : Int} (hn : ∀ p ∈ s.live, p.1 ≠ fd) : s.lookup fd = none := by
  unfold RegSpec.lookup
  have : s.live.find? (fun p => p.1 == fd) = none := by
    rw [List.find?_eq_none]
    intro p hp
    simpa using hn p hp
  rw [this]; rfl

/-- removing a live connection shortens `live` by exactly one -/
theorem filter_length {l : List (Int × Nat)} (hpw : l.Pairwise Apart) {fd : Int} {id : Nat}
    (hp : (fd, id) ∈ l) : (l.filter (fun p => p.2 != id)).length + 1 = l.length := by
  induction l with
  | nil => cases hp
  | cons a t ih =>
    rw [List.pairwise_cons] at hpw
    by_cases ha : a.2 = id
    · have hnot : ∀ q ∈ t, q.2 ≠ id := fun q hq => by
        have := (hpw.1 q hq).2; rw [ha] at this; exact fun e => this e.symm
      have hfil : t.filter (fun p => p.2 != id) = t := by
        rw [List.filter_eq_self]
        intro q hq
        simpa using hnot q hq
      have : (a :: t).filter (fun p => p.2 != id) = t := by
        rw [List.filter_cons_of_neg (by simp [ha]), hfil]
      rw [this]; rfl
    · have hin : (fd, id) ∈ t := by
        rcases List.mem_cons.1 hp with e | e
        · subst e; exact absurd rfl ha
        · exact e
      have : (a :: t).filter (fun p => p.2 != id) = a :: t.filter (fun p => p.2 != id) := by
        rw [List.filter_cons_of_pos (by simp [ha])]
      rw [this, List.length_cons, List.length_cons, ih hpw.2 hin]

theorem spec_keys_distinct' (cap : Nat) (ops : List RegOp) (hv : RegSpec.init.validRun cap ops) :
    ((ops.foldl RegSpec.step RegSpec.init).live.map (·.1)).Nodup :=
  (SInv.foldl ops SInv.init hv).keys_nodup

end Gnet.Proofs.Registry
