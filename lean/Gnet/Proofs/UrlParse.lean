/-
  `url.Parse` (model) on  scheme "://" authority [ "/" path ]  and on text that has no scheme.
-/
import Gnet.Proofs.UrlBasic
namespace Gnet.Proofs.Url
open Gnet Gnet.Url

/-! ## getScheme -/

theorem lower_isAlpha {c} (h : isLower c = true) : isAlpha c = true := by simp [isAlpha, h]

def lowerOrDigit (c : Char) : Bool := isLower c || isDigit c

theorem getSchemeGo_word (raw : Bytes) (s rest : Bytes) (hs : s.all lowerOrDigit = true) :
    ∀ pre : Bytes, pre ≠ [] →
      getSchemeGo raw pre (s ++ ':' :: rest) = .ok (pre ++ s) rest := by
  induction s with
  | nil =>
    intro pre hp
    have e1 : isAlpha ':' = false := by decide
    have e2 : isDigit ':' = false := by decide
    simp [getSchemeGo, e1, e2, hp]
  | cons x xs ih =>
    intro pre hp
    have hx : lowerOrDigit x = true := by simp at hs; exact hs.1
    have hxs : xs.all lowerOrDigit = true := by simp at hs ⊢; exact hs.2
    rw [List.cons_append, getSchemeGo]
    by_cases ha : isAlpha x = true
    · rw [if_pos ha, ih hxs (pre ++ [x]) (by simp)]; simp
    · have hd : isDigit x = true := by
        simp only [lowerOrDigit, Bool.or_eq_true] at hx
        rcases hx with hx | hx
        · exact absurd (lower_isAlpha hx) ha
        · exact hx
      rw [if_neg ha, if_pos (by simp [hd]), if_neg hp, ih hxs (pre ++ [x]) (by simp)]; simp

theorem schemeWord_cases {s : Bytes} (hs : isSchemeWord s = true) :
    ∃ c cs, s = c :: cs ∧ isLower c = true ∧ cs.all lowerOrDigit = true := by
  cases s with
  | nil => simp [isSchemeWord] at hs
  | cons c cs =>
    simp only [isSchemeWord, Bool.and_eq_true] at hs
    exact ⟨c, cs, rfl, hs.1, hs.2⟩

theorem schemeWord_ne {s : Bytes} (hs : isSchemeWord s = true) : s ≠ [] := by
  obtain ⟨c, cs, rfl, _, _⟩ := schemeWord_cases hs; simp

theorem schemeWord_all {s : Bytes} (hs : isSchemeWord s = true) : s.all lowerOrDigit = true := by
  obtain ⟨c, cs, rfl, hc, hcs⟩ := schemeWord_cases hs
  simp only [List.all_cons, Bool.and_eq_true]; exact ⟨by simp [lowerOrDigit, hc], hcs⟩

theorem lowerWord_schemeWord {s : Bytes} (hs : isLowerWord s = true) : isSchemeWord s = true := by
  cases s with
  | nil => simp [isLowerWord] at hs
  | cons c cs =>
    simp [isLowerWord] at hs
    simp only [isSchemeWord, Bool.and_eq_true, List.all_eq_true]
    exact ⟨hs.1, fun x hx => by simp [hs.2 x hx]⟩

theorem getScheme_word {s rest : Bytes} (hs : isSchemeWord s = true) :
    getScheme (s ++ ':' :: rest) = .ok s rest := by
  obtain ⟨c, cs, rfl, hc, hcs⟩ := schemeWord_cases hs
  unfold getScheme
  rw [List.cons_append, getSchemeGo, if_pos (lower_isAlpha hc),
    getSchemeGo_word _ cs rest hcs _ (by simp)]
  simp

theorem toLower_word {s : Bytes} (hs : s.all lowerOrDigit = true) : s.map toLowerAscii = s := by
  induction s with
  | nil => rfl
  | cons x xs ih =>
    have hx : lowerOrDigit x = true := by simp at hs; exact hs.1
    have hxs : xs.all lowerOrDigit = true := by simp at hs ⊢; exact hs.2
    have : isUpper x = false := by unfold lowerOrDigit at hx; char_arith
    simp [toLowerAscii, this, ih hxs]

/-! ## the part of `parse` after the scheme, for  "//" authority path -/

/-- what `parse` does with the text after "scheme:" when that text is "//" authority path -/
def afterAuthority (scheme au p : Bytes) : UrlResult :=
  match parseAuthority au with
  | none => .error
  | some host =>
    match unescape .path p with
    | none => .error
    | some q => .ok scheme host q

/-- a path part: empty or starting with '/' -/
def PathLike (p : Bytes) : Prop := p = [] ∨ ∃ q, p = '/' :: q

theorem takeWhile_au {au p : Bytes} (hau : '/' ∉ au) (hp : PathLike p) :
    (au ++ p).takeWhile (· ≠ '/') = au := by
  rcases hp with rfl | ⟨q, rfl⟩
  · rw [List.append_nil]; exact takeWhile_ne_all hau
  · exact takeWhile_ne_append hau

theorem dropWhile_au {au p : Bytes} (hau : '/' ∉ au) (hp : PathLike p) :
    (au ++ p).dropWhile (· ≠ '/') = p := by
  rcases hp with rfl | ⟨q, rfl⟩
  · rw [List.append_nil]; exact dropWhile_ne_all hau
  · exact dropWhile_ne_append hau

theorem parseNoFrag_authority (s au p : Bytes)
    (hs : isSchemeWord s = true)
    (hctl : (s ++ ':' :: '/' :: '/' :: (au ++ p)).any isCTL = false)
    (hq : '?' ∉ au ++ p) (hau : '/' ∉ au) (hp : PathLike p) :
    parseNoFrag (s ++ ':' :: '/' :: '/' :: (au ++ p)) = afterAuthority s au p := by
  have hne : s ≠ [] := schemeWord_ne hs
  have hlow : s.all lowerOrDigit = true := schemeWord_all hs
  unfold parseNoFrag
  rw [hctl]
  have hstar : s ++ ':' :: '/' :: '/' :: (au ++ p) ≠ ['*'] := by
    intro h; have := congrArg List.length h; simp at this; omega
  rw [if_neg (by simp), if_neg hstar, getScheme_word hs]
  simp only [toLower_word hlow]
  have hq' : '?' ∉ '/' :: '/' :: (au ++ p) := by
    intro h; simp at h; exact hq (by simpa using h)
  rw [takeWhile_ne_all hq']
  have e1 : ¬ (('/' :: '/' :: (au ++ p)).head? ≠ some '/' ∧ s ≠ []) := by simp
  have e2 : ¬ (('/' :: '/' :: (au ++ p)).head? ≠ some '/' ∧
      ((('/' :: '/' :: (au ++ p)).takeWhile (· ≠ '/')).contains ':') = true) := by simp
  have e3 : (['/', '/'].isPrefixOf ('/' :: '/' :: (au ++ p)) = true ∧
      (s ≠ [] ∨ ¬ ['/', '/', '/'].isPrefixOf ('/' :: '/' :: (au ++ p)) = true)) := by
    refine ⟨by simp [List.isPrefixOf], Or.inl hne⟩
  rw [if_neg e1, if_neg e2, if_pos e3]
  simp only [List.drop_succ_cons, List.drop_zero, takeWhile_au hau hp, dropWhile_au hau hp]
  unfold afterAuthority
  rfl

/-- `url.Parse` on text without '#' is `parse` -/
theorem urlParse_noFrag {raw : Bytes} (h : '#' ∉ raw) : urlParse raw = parseNoFrag raw := by
  unfold urlParse
  simp only [takeWhile_ne_all h, dropWhile_ne_all h, List.drop_nil]
  cases parseNoFrag raw <;> simp

end Gnet.Proofs.Url
