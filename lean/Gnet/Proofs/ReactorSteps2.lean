/-
  One level of `exec` for the write path: flush, connWrite(Loop), connWritev(Loop), connOpen.
-/
import Gnet.Proofs.ReactorSteps1
namespace Gnet.Reactor
variable {A B : Prop}

set_option hygiene false in
/-- `noteSys c; match ← pop with | .sysCtl "ModReadWrite" c' e => guard; if e != "nil" then (close; pure _) else pure _` -/
macro "mctl_close" : tactic => `(tactic| (
  mnote
  mpop
  msplit
  mguard
  split at h
  · mcall
    replace hG := (ih.close _ _ _ _ _ _ _ hcall hG).mono (fun _ => Lv.after_close)
    mret; exact hG
  · mret; exact hG))

theorem step_flush {fuel : Nat} (ih : Specs A B fuel) :
    ∀ ko c k s r s', Ok (exec (fuel+1) (.flush c)) s r s' → Good A B ko s c (Lv A B k) → Good A B ko s' c (Lv A B k) := by
  intro ko c k s r s' h hG
  unfold Ok at h
  rw [exec] at h
  mget
  mcall
  replace hG := ih.elWrite _ _ _ _ _ _ hcall hG
  clear hcall
  split at h
  · mret; exact hG
  mconn
  replace hG : Good A B ko s c (Lv A B k) := hG.mono (by rintro _ rfl; exact hx)
  split at h
  · mctl_close
  · mret; exact hG

theorem step_connWrite {fuel : Nat} (ih : Specs A B fuel) :
    ∀ ko c d k s r s', Ok (exec (fuel+1) (.connWrite c d)) s r s' → Good A B ko s c (Lv A B k) → Good A B ko s' c (Lv A B k) := by
  intro ko c d k s r s' h hG
  unfold Ok at h
  rw [exec] at h
  mget
  mconn
  split at h
  · mret; exact hG.mono (by rintro _ rfl; exact hx)
  split at h
  · mmod (Lv A B k)
    · rintro _ rfl; exact Lv.append_both d hx
    mret; exact hG
  · rename_i hne
    mmod (SndE A B k d)
    · rintro _ rfl
      exact SndE.start d hx (by simpa using hne)
    exact ih.connWriteLoop _ _ _ _ _ _ _ _ h hG

theorem step_connWriteLoop {fuel : Nat} (ih : Specs A B fuel) :
    ∀ ko c d total k s r s', Ok (exec (fuel+1) (.connWriteLoop c d total)) s r s' →
    Good A B ko s c (SndE A B k d) → Good A B ko s' c (Lv A B k) := by
  intro ko c d total k s r s' h hG
  unfold Ok at h
  rw [exec] at h
  mget
  mnote
  mpop
  msplit
  rename_i c' d' n err
  mguard
  split at h
  · split at h
    · mmod (Lv A B k)
      · intro x hx; exact SndE.buffer hx
      split at h
      · mctl_close
      · mret; exact hG
    · mmod (Lv A B k)
      · intro x hx; exact SndE.untake hx
      mcall
      replace hG := (ih.close _ _ _ _ _ _ _ hcall hG).mono (fun _ => Lv.after_close)
      mret; exact hG
  · mbeta
    mmod (SndE A B k (d.drop n.toNat))
    · intro x hx; exact SndE.partial hx (List.take_append_drop _ _)
    extract_lets rest at h
    split at h
    · exact ih.connWriteLoop _ _ _ _ _ _ _ _ h hG
    split at h
    · mmod (Lv A B k)
      · intro x hx; exact SndE.buffer hx
      mctl_close
    · rename_i _ hne
      mret
      refine hG.mono (fun x hx => SndE.done ?_)
      have hr0 : rest = [] := by simpa using hne
      have : List.drop n.toNat d = [] := hr0
      rw [this] at hx; exact hx

theorem step_connWritev {fuel : Nat} (ih : Specs A B fuel) :
    ∀ ko c segs k s r s', Ok (exec (fuel+1) (.connWritev c segs)) s r s' → Good A B ko s c (Lv A B k) → Good A B ko s' c (Lv A B k) := by
  intro ko c segs k s r s' h hG
  unfold Ok at h
  rw [exec] at h
  mget
  mconn
  mbeta
  split at h
  · mret; exact hG.mono (by rintro _ rfl; exact hx)
  split at h
  · mmod (Lv A B k)
    · rintro _ rfl; exact Lv.append_both _ hx
    mret; exact hG
  · rename_i hne
    mmod (SndE A B k segs.flatten)
    · rintro _ rfl
      exact SndE.start _ hx (by simpa using hne)
    exact ih.connWritevLoop _ _ _ _ _ _ _ _ h hG

theorem dropSegs_flatten (segs : List (List Nat)) (n : Nat) : (dropSegs segs n).flatten = segs.flatten.drop n := by
  induction segs generalizing n with
  | nil => simp [dropSegs]
  | cons b rest ih =>
    unfold dropSegs
    split
    · rename_i hlt
      rw [List.flatten_cons, List.flatten_cons, List.drop_append_of_le_length (Nat.le_of_lt hlt)]
    · rename_i hge
      rw [ih, List.flatten_cons, List.drop_append]
      have : List.drop n b = [] := List.drop_eq_nil_of_le (Nat.le_of_not_lt hge)
      rw [this, List.nil_append]

theorem take_flatten_prefix (segs : List (List Nat)) (m : Nat) :
    segs.flatten = (segs.take m).flatten ++ (segs.drop m).flatten := by
  rw [← List.flatten_append, List.take_append_drop]

theorem writev_split (segs : List (List Nat)) (m k : Nat) (hk : k ≤ ((segs.take m).flatten).length) :
    ((segs.take m).flatten).take k ++ (dropSegs segs k).flatten = segs.flatten := by
  rw [dropSegs_flatten]
  conv => lhs; rw [take_flatten_prefix segs m]
  rw [← List.take_append_of_le_length hk, ← take_flatten_prefix, List.take_append_drop]

theorem step_connWritevLoop {fuel : Nat} (ih : Specs A B fuel) :
    ∀ ko c segs total k s r s', Ok (exec (fuel+1) (.connWritevLoop c segs total)) s r s' →
    Good A B ko s c (SndE A B k segs.flatten) → Good A B ko s' c (Lv A B k) := by
  intro ko c segs total k s r s' h hG
  unfold Ok at h
  rw [exec] at h
  mget
  mnote
  mbeta
  mpop
  msplit
  rename_i c' ns d' n err
  mguard
  mbeta
  split at h
  · split at h
    · mmod (Lv A B k)
      · intro x hx; exact SndE.buffer hx
      split at h
      · mctl_close
      · mret; exact hG
    · mmod (Lv A B k)
      · intro x hx; exact SndE.untake hx
      mcall
      replace hG := (ih.close _ _ _ _ _ _ _ hcall hG).mono (fun _ => Lv.after_close)
      mret; exact hG
  · have hd : d' = (List.take cfg.iovMax segs).flatten := by
      have := hc
      simp only [Bool.or_eq_true, bne_iff_ne, ne_eq, not_or, Decidable.not_not] at this
      exact this.1.2
    have hn : n.toNat ≤ d'.length := by
      have : n ≤ (d'.length : Int) := by simpa [Tok.sane] using ht
      omega
    mmod (SndE A B k (dropSegs segs n.toNat).flatten)
    · intro x hx
      refine SndE.partial hx ?_
      rw [hd]
      exact writev_split segs cfg.iovMax n.toNat (by rw [← hd]; exact hn)
    extract_lets rest restLen at h
    split at h
    · exact ih.connWritevLoop _ _ _ _ _ _ _ _ h hG
    split at h
    · mmod (Lv A B k)
      · intro x hx; exact SndE.buffer hx
      mctl_close
    · rename_i hne
      mret
      refine hG.mono (fun x hx => SndE.done ?_)
      have : (dropSegs segs n.toNat).flatten = [] := by
        apply List.eq_nil_of_length_eq_zero
        rw [List.length_flatten]
        simpa using hne
      rw [this] at hx; exact hx

theorem step_connOpen {fuel : Nat} (ih : Specs A B fuel) :
    ∀ ko c buf k s r s', 1 ≤ k → Ok (exec (fuel+1) (.connOpen c buf)) s r s' → Good A B ko s c (Snd A B k buf) →
    Good A B ko s' c (fun x => if r.code = .nil then Lv A B k x else (x.opened = true → x.registered = true)) := by
  intro ko c buf k s r s' hk h hG
  unfold Ok at h
  rw [exec] at h
  mget
  mconn
  split at h
  · mmod (Lv A B k)
    · rintro _ rfl; exact Snd.buffer hx
    mret
    subst hr
    exact hG.mono (fun x hx => by simpa using hx)
  rename_i hempty
  have hx' : SndE A B k buf x := Snd.toE hx (by simpa using hempty)
  replace hG : Good A B ko s c (SndE A B k buf) := hG.mono (by rintro _ rfl; exact hx')
  mnote
  mpop
  msplit
  rename_i c' d' n err
  mguard
  split at h
  · split at h
    · mmod (Lv A B k)
      · intro x hx; exact SndE.buffer hx
      mret
      subst hr
      exact hG.mono (fun x hx => by simpa using hx)
    · mret
      subst hr
      refine hG.mono (fun x hx => ?_)
      simpa using Snd.reg hk (SndE.toSnd hx)
  · mmod (SndE A B k (buf.drop n.toNat))
    · intro x hx; exact SndE.partial hx (List.take_append_drop _ _)
    extract_lets rest at h
    split at h
    · rename_i hne
      mret
      subst hr
      refine hG.mono (fun x hx => ?_)
      have hr0 : rest = [] := by simpa using hne
      have : List.drop n.toNat buf = [] := hr0
      rw [this] at hx
      simpa using SndE.done hx
    · exact ih.connOpen _ _ _ _ _ _ _ hk h (hG.mono (fun _ hx => SndE.toSnd hx))

end Gnet.Reactor
