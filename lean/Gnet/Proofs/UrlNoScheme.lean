/-
  Addresses written without a scheme:  "[v6]:port"  is an error of url.Parse ("first path segment
  in URL cannot contain colon"),  "name:port"  is read as scheme "name" with opaque text "port".
-/
import Gnet.Proofs.UrlIp
namespace Gnet.Proofs.Url
open Gnet Gnet.Url

/-- plain text, possibly with '%' -/
def PlainP (l : Bytes) : Prop := ∀ c ∈ l, plain c = true ∨ c = '%'

theorem Plain.plainP {l} (h : Plain l) : PlainP l := fun c hc => Or.inl (h c hc)
theorem PlainP.append {a b} (ha : PlainP a) (hb : PlainP b) : PlainP (a ++ b) := by
  intro x hx; rcases List.mem_append.mp hx with hx | hx
  · exact ha x hx
  · exact hb x hx
theorem PlainP.cons {c l} (hc : plain c = true ∨ c = '%') (hl : PlainP l) : PlainP (c :: l) := by
  intro x hx; rcases List.mem_cons.mp hx with rfl | hx
  · exact hc
  · exact hl x hx
theorem PlainP.tail {c l} (h : PlainP (c :: l)) : PlainP l := fun x hx => h x (by simp [hx])

theorem PlainP.not_mem {l : Bytes} (h : PlainP l) {c : Char} (hc : plain c = false) (hp : c ≠ '%') :
    c ∉ l := by
  intro hm; rcases h c hm with h | h
  · simp [hc] at h
  · exact hp h

theorem PlainP.escape {l} (h : PlainP l) : PlainP (escapePercent l) := by
  intro c hc
  simp only [escapePercent, List.mem_flatMap] at hc
  obtain ⟨x, hx, hcx⟩ := hc
  by_cases e : x = '%'
  · simp only [e, if_true, pct25, List.mem_cons, List.not_mem_nil, or_false] at hcx
    rcases hcx with rfl | rfl | rfl
    · exact Or.inr rfl
    · exact Or.inl (by decide)
    · exact Or.inl (by decide)
  · simp only [e, if_false, List.mem_cons, List.not_mem_nil, or_false] at hcx
    subst hcx; exact h c hx

theorem mem_escape {l : Bytes} {c : Char} (hc : c ≠ '%') (h : c ∈ l) : c ∈ escapePercent l := by
  simp only [escapePercent, List.mem_flatMap]
  exact ⟨c, h, by simp [hc]⟩

/-- text that starts with '[' and has a ':' before any '/', '?', '#': url.Parse fails -/
theorem urlParse_bracket {r : Bytes} (hr : PlainP r) (hc : ':' ∈ r) : urlParse ('[' :: r) = .error := by
  have hall : PlainP ('[' :: r) := PlainP.cons (Or.inl (by decide)) hr
  rw [urlParse_noFrag (hall.not_mem (by decide) (by decide))]
  unfold parseNoFrag
  by_cases hctl : ('[' :: r).any isCTL = true
  · rw [if_pos hctl]
  · rw [if_neg hctl, if_neg (by intro h; cases h)]
    have hg : getScheme ('[' :: r) = .ok [] ('[' :: r) := by
      have e1 : isAlpha '[' = false := by decide
      have e2 : isDigit '[' = false := by decide
      simp [getScheme, getSchemeGo, e1, e2]
    rw [hg]
    simp only [List.map_nil, takeWhile_ne_all (hall.not_mem (c := '?') (by decide) (by decide)),
      takeWhile_ne_all (hall.not_mem (c := '/') (by decide) (by decide))]
    have e1 : ¬ (('[' :: r).head? ≠ some '/' ∧ ([] : Bytes) ≠ []) := by simp
    have e2 : (('[' :: r).head? ≠ some '/' ∧ ('[' :: r).contains ':' = true) := by
      refine ⟨by simp, ?_⟩
      simp [hc]
    rw [if_neg e1, if_pos e2]

/-- a host of form (b) or (c) is '[' followed by plain text or '%' -/
theorem v6_shape {h : Bytes} (hh : isV6Host h = true ∨ isV6ZoneHost h = true) :
    ∃ r, h = '[' :: r ∧ PlainP r := by
  rcases hh with hh | hh
  · obtain ⟨e, ha⟩ := v6_decompose hh
    refine ⟨inner h ++ [']'], by simpa using e, ?_⟩
    exact ((hexColon_plain ha).append (Plain.cons (by decide) Plain.nil)).plainP
  · obtain ⟨e, ha, hz⟩ := v6zone_decompose hh
    refine ⟨v6Addr h ++ '%' :: v6Zone h ++ [']'], by simpa using e, ?_⟩
    exact ((hexColon_plain ha).plainP.append (PlainP.cons (Or.inr rfl) (zone_plain hz).plainP)).append
      (Plain.cons (by decide) Plain.nil).plainP

theorem urlParse_v6_noScheme {h port : Bytes} (hh : isV6Host h = true ∨ isV6ZoneHost h = true)
    (hp : port.all isDigit = true) :
    urlParse (escapePercent (h ++ ':' :: port)) = .error := by
  obtain ⟨r, rfl, hr⟩ := v6_shape hh
  have hall : PlainP (r ++ ':' :: port) :=
    hr.append (PlainP.cons (Or.inl (by decide)) (digits_plain hp).plainP)
  rw [List.cons_append, escapePercent_cons_plain (by decide)]
  exact urlParse_bracket hall.escape (mem_escape (by decide) (by simp))

/-- "name:port": the name is taken for the scheme and the port for opaque text -/
theorem urlParse_name_noScheme {h port : Bytes} (hh : isSchemeWord h = true)
    (hp : port.all isDigit = true) :
    urlParse (escapePercent (h ++ ':' :: port)) = .ok h [] [] := by
  have hpl : Plain (h ++ ':' :: port) :=
    (lowerWord_plain hh).append (Plain.cons (by decide) (digits_plain hp))
  rw [escapePercent_id hpl.no_pct, urlParse_noFrag hpl.no_hash]
  unfold parseNoFrag
  rw [hpl.safe.noCTL]
  have hstar : h ++ ':' :: port ≠ ['*'] := by
    intro e; have := congrArg List.length e
    simp only [List.length_append, List.length_cons, List.length_nil] at this
    have : h.length = 0 := by omega
    exact schemeWord_ne hh (List.eq_nil_of_length_eq_zero this)
  rw [if_neg (by simp), if_neg hstar, getScheme_word hh]
  simp only [toLower_word (schemeWord_all hh), takeWhile_ne_all (digits_plain hp).no_qm]
  have e1 : (port.head? ≠ some '/' ∧ h ≠ []) := by
    refine ⟨?_, schemeWord_ne hh⟩
    intro e
    have : '/' ∈ port := by
      cases port with
      | nil => simp at e
      | cons x xs => simp at e; simp [e]
    exact (digits_plain hp).no_slash this
  rw [if_pos e1]

end Gnet.Proofs.Url
