/-
  Queue-level facts used by the wake-up protocol proof (C03): frame lemmas for `Msq.start` /
  `Msq.step`, summaries of what one step of an Enqueue / Dequeue does, and preservation of
  `Msq.Reachable` by further events.
-/
import Gnet.Model.Msq
import Gnet.Proofs.Msq
namespace Gnet.Proofs.Msq
open Gnet.Msq

/-- program counters inside `Enqueue` -/
def EnqPc : Pc → Bool
  | .eLoadTail | .eLoadNext | .eReloadTail | .eCasNext | .eCasTail | .eAdd | .eHelpTail => true
  | _ => false
/-- program counters inside `Dequeue` -/
def DeqPc : Pc → Bool
  | .dLoadHead | .dLoadTail | .dLoadNext | .dReloadHead | .dHelpTail | .dCasHead | .dSub => true
  | _ => false
/-- the Enqueue has linked its node and not yet returned -/
def PendPc : Pc → Bool
  | .eCasTail | .eAdd => true
  | _ => false

/-- total view of a thread (threads out of range look idle) -/
def thr (q : State) (j : Nat) : Thread := q.threads.getD j {}

theorem thr_of_getElem? {q : State} {j : Nat} {th : Thread} (h : q.threads[j]? = some th) :
    thr q j = th := by
  simp [thr, List.getD_eq_getElem?_getD, h]

theorem getElem?_of_lt {q : State} {j : Nat} (h : j < q.threads.length) :
    q.threads[j]? = some (thr q j) := by
  simp [thr, List.getD_eq_getElem?_getD, List.getElem?_eq_getElem h]

theorem thr_of_ge {q : State} {j : Nat} (h : q.threads.length ≤ j) : thr q j = {} := by
  simp [thr, List.getD_eq_getElem?_getD, List.getElem?_eq_none_iff.2 h]

theorem getD_set_self {α} {l : List α} {i : Nat} {a d : α} (h : i < l.length) :
    (l.set i a).getD i d = a := by
  simp [List.getD_eq_getElem?_getD, h]

theorem getD_set_ne {α} {l : List α} {i j : Nat} {a d : α} (h : j ≠ i) :
    (l.set i a).getD j d = l.getD j d := by
  simp [List.getD_eq_getElem?_getD, Ne.symm h]

theorem thr_set_self {q q' : State} {tid : Nat} {th' : Thread} (hlt : tid < q.threads.length)
    (h : q'.threads = q.threads.set tid th') : thr q' tid = th' := by
  unfold thr; rw [h, getD_set_self hlt]

theorem thr_set_ne {q q' : State} {tid j : Nat} {th' : Thread} (hne : j ≠ tid)
    (h : q'.threads = q.threads.set tid th') : thr q' j = thr q j := by
  unfold thr; rw [h, getD_set_ne hne]

theorem set_eq_self {α} : ∀ {l : List α} {i : Nat} {a : α}, l[i]? = some a → l.set i a = l := by
  intro l
  induction l with
  | nil => intro i a h; simp
  | cons x l ih =>
    intro i a h
    cases i with
    | zero => simp at h; simp [h]
    | succ i => simp at h; simp [ih h]

/-- every step only replaces the acting thread -/
theorem step_threads {q : State} {tid : Nat} {th : Thread} (hth : q.threads[tid]? = some th) :
    ∃ th', (step q tid).1.threads = q.threads.set tid th' := by
  rw [step_eq hth]
  cases hpc : th.pc <;> simp only
  case idle => exact ⟨th, (set_eq_self hth).symm⟩
  all_goals (repeat' split) <;> exact ⟨_, rfl⟩

theorem step_length (q : State) (tid : Nat) : (step q tid).1.threads.length = q.threads.length := by
  cases hth : q.threads[tid]? with
  | none => simp [step, hth]
  | some th =>
    obtain ⟨th', h⟩ := step_threads hth
    rw [h]; simp

theorem step_thr_ne (q : State) (tid : Nat) {j : Nat} (h : j ≠ tid) :
    thr (step q tid).1 j = thr q j := by
  cases hth : q.threads[tid]? with
  | none => simp [step, hth]
  | some th =>
    obtain ⟨th', h'⟩ := step_threads hth
    simp only [thr]
    rw [h', getD_set_ne h]

theorem start_threads {q : State} {tid : Nat} {op : Op} {th : Thread} (hth : q.threads[tid]? = some th) :
    ∃ th', (start q tid op).threads = q.threads.set tid th' := by
  unfold start
  rw [hth]
  simp only
  split
  · exact ⟨th, (set_eq_self hth).symm⟩
  · cases op <;> exact ⟨_, rfl⟩

theorem start_length (q : State) (tid : Nat) (op : Op) :
    (start q tid op).threads.length = q.threads.length := by
  cases hth : q.threads[tid]? with
  | none => simp [start, hth]
  | some th =>
    obtain ⟨th', h⟩ := start_threads (op := op) hth
    rw [h]; simp

theorem start_thr_ne (q : State) (tid : Nat) (op : Op) {j : Nat} (h : j ≠ tid) :
    thr (start q tid op) j = thr q j := by
  cases hth : q.threads[tid]? with
  | none => simp [start, hth]
  | some th =>
    obtain ⟨th', h'⟩ := start_threads (op := op) hth
    simp only [thr]
    rw [h', getD_set_ne h]

theorem start_absQ (q : State) (tid : Nat) (op : Op) : (start q tid op).absQ = q.absQ := by
  unfold start
  split
  · rfl
  · split
    · rfl
    · cases op <;> rfl

theorem start_deqLog (q : State) (tid : Nat) (op : Op) : (start q tid op).deqLog = q.deqLog := by
  unfold start
  split
  · rfl
  · split
    · rfl
    · cases op <;> rfl

theorem start_enqLog (q : State) (tid : Nat) (op : Op) : (start q tid op).enqLog = q.enqLog := by
  unfold start
  split
  · rfl
  · split
    · rfl
    · cases op <;> rfl

theorem start_len (q : State) (tid : Nat) (op : Op) : (start q tid op).length = q.length := by
  unfold start
  split
  · rfl
  · split
    · rfl
    · cases op <;> rfl

theorem start_thr_enq {q : State} {tid : Nat} (v : Nat) (hlt : tid < q.threads.length)
    (hi : (thr q tid).pc = .idle) : (thr (start q tid (.enq v)) tid).pc = .eLoadTail := by
  have hth := getElem?_of_lt hlt
  unfold start
  rw [hth]
  simp only [hi]
  rw [thr_set_self (th' := _) hlt rfl]

theorem start_thr_deq {q : State} {tid : Nat} (hlt : tid < q.threads.length)
    (hi : (thr q tid).pc = .idle) :
    thr (start q tid .deq) tid =
      { thr q tid with pc := .dLoadHead, ghostSawEmpty := false, ghostRet := none } := by
  have hth := getElem?_of_lt hlt
  unfold start
  rw [hth]
  simp only [hi]
  rw [thr_set_self (th' := _) hlt rfl]


theorem thr_setThread (q0 : State) (tid j : Nat) (th' : Thread) :
    thr (setThread q0 tid th') j = if j = tid ∧ tid < q0.threads.length then th' else thr q0 j := by
  unfold thr setThread
  simp only [List.getD_eq_getElem?_getD, List.getElem?_set]
  by_cases h : tid = j
  · subst h
    by_cases h2 : tid < q0.threads.length
    · simp [h2]
    · simp [h2]
  · have : ¬ j = tid := fun e => h e.symm
    simp [h, this]

@[simp] theorem setThread_absQ (q : State) (tid : Nat) (t : Thread) : (setThread q tid t).absQ = q.absQ := rfl
@[simp] theorem setThread_deqLog (q : State) (tid : Nat) (t : Thread) : (setThread q tid t).deqLog = q.deqLog := rfl
@[simp] theorem setThread_enqLog (q : State) (tid : Nat) (t : Thread) : (setThread q tid t).enqLog = q.enqLog := rfl
@[simp] theorem setThread_length (q : State) (tid : Nat) (t : Thread) : (setThread q tid t).length = q.length := rfl
@[simp] theorem setThread_nodes (q : State) (tid : Nat) (t : Thread) : (setThread q tid t).nodes = q.nodes := rfl
@[simp] theorem setThread_head (q : State) (tid : Nat) (t : Thread) : (setThread q tid t).head = q.head := rfl
@[simp] theorem setThread_tail (q : State) (tid : Nat) (t : Thread) : (setThread q tid t).tail = q.tail := rfl

theorem step_enq {q : State} {tid : Nat} (hlt : tid < q.threads.length)
    (he : EnqPc (thr q tid).pc = true) :
    (step q tid).1.deqLog = q.deqLog ∧
    (((step q tid).2 = none ∧ EnqPc (thr (step q tid).1 tid).pc = true) ∨
      ((step q tid).2 = some .enqDone ∧ (thr (step q tid).1 tid).pc = .idle)) ∧
    ((step q tid).1.absQ = q.absQ ∨
      ((∃ v, (step q tid).1.absQ = q.absQ ++ [v]) ∧ (thr (step q tid).1 tid).pc = .eCasTail)) ∧
    (PendPc (thr q tid).pc = true → (step q tid).2 = none →
      PendPc (thr (step q tid).1 tid).pc = true) := by
  have hth := getElem?_of_lt hlt
  generalize thr q tid = th at *
  rw [step_eq hth]
  cases hpc : th.pc <;> simp [EnqPc, hpc] at he <;> simp only
  all_goals (repeat' split)
  all_goals simp [thr_setThread, hlt, EnqPc, PendPc]
theorem step_deq {q : State} {tid : Nat} (I : Inv q) (hlt : tid < q.threads.length)
    (hd : DeqPc (thr q tid).pc = true) :
    ((thr q tid).pc = .dSub ∧ (step q tid).2 = some (.deqSome (thr q tid).task) ∧
      (thr (step q tid).1 tid).pc = .idle ∧ (step q tid).1.deqLog = q.deqLog ∧
      (step q tid).1.absQ = q.absQ) ∨
    ((thr q tid).pc ≠ .dSub ∧ (step q tid).2 = none ∧ (thr (step q tid).1 tid).pc = .dSub ∧
      (step q tid).1.deqLog = q.deqLog ++ [(thr (step q tid).1 tid).task]) ∨
    ((thr q tid).pc ≠ .dSub ∧ (thr (step q tid).1 tid).pc ≠ .dSub ∧
      (step q tid).1.deqLog = q.deqLog ∧ (step q tid).1.absQ = q.absQ ∧
      (((step q tid).2 = none ∧ DeqPc (thr (step q tid).1 tid).pc = true) ∨
       ((step q tid).2 = some .deqNone ∧ (thr (step q tid).1 tid).pc = .idle ∧
         (thr q tid).ghostSawEmpty = true))) := by
  have hth := getElem?_of_lt hlt
  have I' := inv_step I tid
  obtain ⟨c, h, t, I⟩ := I
  have hT := I.thr tid _ hth
  generalize thr q tid = th at *
  rw [step_eq hth] at I' ⊢
  cases hpc : th.pc <;> simp [DeqPc, hpc] at hd <;> simp only [hpc] at I' ⊢
  case dCasHead =>
    simp [TInv, hpc, Pre] at hT
    obtain ⟨ph, hph, hle, hlt', nx, hn, hnx, htask⟩ := hT
    rw [hn] at I' ⊢
    simp only at I' ⊢
    split
    · rename_i heq
      rw [if_pos heq] at I'
      obtain ⟨c', h', t', I'⟩ := I'
      have hT' := I'.thr tid _ (getElem?_of_lt (by simpa [setThread] using hlt))
      simp [TInv, Pre, thr_setThread, hlt] at hT'
      right; left
      simp [thr_setThread, hlt]
      cases hq : q.absQ with
      | nil => simp [hq] at hT'
      | cons a l => simp [hq] at hT'; simp [hT']
    · simp [thr_setThread, hlt, DeqPc]
  case dReloadHead =>
    simp [TInv, hpc, Pre] at hT
    obtain ⟨ph, hph, hle, pt, hpt, hle2, hle3, hsome, hnone⟩ := hT
    have hne : th.head ≠ th.tail → th.next ≠ none := by
      intro hne hn
      have := (hnone hn).1
      subst this
      rw [hph] at hpt
      exact hne (Option.some.inj hpt)
    (repeat' split) <;> simp_all [thr_setThread, DeqPc]
  all_goals (repeat' split)
  all_goals simp [thr_setThread, hlt, DeqPc]

/-- `length = 0` with a non-empty abstract queue: some Enqueue has linked its node and not yet
    incremented the counter -/
theorem lag_pending {q : State} (I : Inv q) (hlen : q.length = 0) (hq : q.absQ ≠ [])
    (hsub : ∀ j, (thr q j).pc ≠ .dSub) : ∃ j, j < q.threads.length ∧ PendPc (thr q j).pc = true := by
  obtain ⟨c, h, t, I⟩ := I
  have hl := I.len
  have h2 : q.threads.countP (fun t => t.pc == .dSub) = 0 := by
    rw [List.countP_eq_zero]
    intro th hth
    obtain ⟨j, hj⟩ := List.mem_iff_getElem?.1 hth
    have := hsub j
    rw [thr_of_getElem? hj] at this
    simpa using this
  have h3 : 0 < q.absQ.length := List.length_pos_iff.2 hq
  have h1 : 0 < q.threads.countP (fun t => t.pc == .eCasTail || t.pc == .eAdd) := by omega
  obtain ⟨th, hth, hp⟩ := List.countP_pos_iff.1 h1
  obtain ⟨j, hj⟩ := List.mem_iff_getElem?.1 hth
  refine ⟨j, lt_of_getElem? hj, ?_⟩
  rw [thr_of_getElem? hj]
  cases hpc : th.pc <;> simp [hpc, PendPc] at hp ⊢

theorem runEvs_append : ∀ (a b : List Ev) (s : State), runEvs s (a ++ b) = runEvs (runEvs s a) b := by
  intro a
  induction a with
  | nil => intro b s; rfl
  | cons e es ih => intro b s; simp only [List.cons_append, runEvs]; exact ih b _

theorem reachable_start {q : State} (h : Reachable q) (tid : Nat) (op : Op) :
    Reachable (start q tid op) := by
  obtain ⟨n, evs, rfl⟩ := h
  exact ⟨n, evs ++ [.start tid op], by rw [runEvs_append]; rfl⟩

theorem reachable_step {q : State} (h : Reachable q) (tid : Nat) : Reachable (step q tid).1 := by
  obtain ⟨n, evs, rfl⟩ := h
  exact ⟨n, evs ++ [.step tid], by rw [runEvs_append]; rfl⟩

end Gnet.Proofs.Msq
