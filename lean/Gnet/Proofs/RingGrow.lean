import Gnet.Proofs.RingRead
set_option linter.unusedSectionVars false
set_option linter.unusedVariables false
set_option linter.unusedSimpArgs false
namespace Gnet.Proofs.Ring
open Gnet
variable {α : Type} [Inhabited α]

theorem growLoop_ge (n c : Nat) (h : 4 ≤ n) : c ≤ Ring.growLoop n c ∧ n ≤ Ring.growLoop n c := by
  fun_induction Ring.growLoop n c with
  | case1 n h' ih => have := ih (by omega); omega
  | case2 n h' => omega

theorem le_ceilPow2 (n : Nat) : n ≤ ceilPow2 n := by
  unfold ceilPow2
  split
  · omega
  · have := @Nat.lt_log2_self (n - 1)
    omega

theorem le_growCap (size c : Nat) (h : size < c) : c ≤ Ring.growCap size c := by
  unfold Ring.growCap
  have hD : Ring.DefaultBufferSize = 1024 := rfl
  have hT : Ring.bufferGrowThreshold = 4096 := rfl
  split
  · split
    · omega
    · exact le_ceilPow2 c
  · simp only
    split
    · split
      · omega
      · exact (growLoop_ge size c (by omega)).1
    · omega

theorem grow_eq (rb : Ring α) (c : Nat) (h : rb.WF) (hc : rb.size < c) :
    rb.grow c = ⟨rb.abs ++ List.replicate (Ring.growCap rb.size c - rb.abs.length) default,
      Ring.growCap rb.size c, 0, rb.abs.length, decide (rb.abs.length = 0)⟩ := by
  have hnc := le_growCap rb.size c hc
  have hlen := abs_length_le rb h
  obtain ⟨_, hwf, habs, hdata, _⟩ := read_spec rb (Ring.growCap rb.size c) h
  have hdata' : (rb.read (Ring.growCap rb.size c)).2.1 = rb.abs := by
    rw [hdata, List.take_of_length_le (by omega)]
  have hemp : (rb.read (Ring.growCap rb.size c)).1.isEmpty = true := by
    rw [isEmpty_iff _ hwf, habs, List.drop_of_length_le (by omega)]
  unfold Ring.grow
  simp only [hdata', hemp, buffered_eq rb h]
  congr 1
  by_cases h0 : rb.abs.length = 0 <;> simp [h0]
  omega

theorem grow_spec (rb : Ring α) (c : Nat) (h : rb.WF) (hc : rb.size < c) :
    (rb.grow c).WF ∧ (rb.grow c).abs = rb.abs ∧ c ≤ (rb.grow c).size ∧
    rb.readSafe (Ring.growCap rb.size c) = true := by
  have hnc := le_growCap rb.size c hc
  have hlen := abs_length_le rb h
  rw [grow_eq rb c h hc]
  generalize Ring.growCap rb.size c = nc at *
  refine ⟨?_, ?_, hnc, (read_spec rb nc h).1⟩
  all_goals generalize rb.abs = a at *
  · apply wf_mk
    · simp; omega
    · omega
    · omega
    · simp
    · omega
  · simp only [Ring.abs]
    by_cases h0 : a.length = 0
    · simp [h0, List.length_eq_zero_iff.mp h0]
    · simp [h0, Nat.pos_of_ne_zero h0]

/-- the state `Write`, `WriteByte` and `ReadFrom` continue with after the growth decision -/
theorem grown_spec (rb : Ring α) (k : Nat) (h : rb.WF) :
    let rb1 := if rb.available < k then rb.grow (rb.abs.length + k) else rb
    rb1.WF ∧ rb1.abs = rb.abs ∧ k ≤ rb1.available ∧
    (rb.available < k → rb.readSafe (Ring.growCap rb.size (rb.abs.length + k)) = true) := by
  have hav := available_eq rb h
  have hlen := abs_length_le rb h
  intro rb1
  by_cases hg : rb.available < k
  · have hs := grow_spec rb (rb.abs.length + k) h (by omega)
    have : rb1 = rb.grow (rb.abs.length + k) := if_pos hg
    rw [this]
    refine ⟨hs.1, hs.2.1, ?_, fun _ => hs.2.2.2⟩
    rw [available_eq _ hs.1, hs.2.1]
    omega
  · have : rb1 = rb := if_neg hg
    rw [this]
    exact ⟨h, rfl, by omega, fun h' => absurd h' hg⟩

end Gnet.Proofs.Ring
