import Gnet.Model.Pool
import Gnet.Gen.Facts
import Gnet.Proofs.Arith
namespace Gnet.Proofs.Pool
open Gnet

/-- two regions `[off, off+cap)` of allocations do not share a byte -/
def Disjoint (a1 o1 c1 a2 o2 c2 : Nat) : Prop := a1 ≠ a2 ∨ o1 + c1 ≤ o2 ∨ o2 + c2 ≤ o1 ∨ c1 = 0 ∨ c2 = 0

/-- all regions the pool state knows: stored pointers with their class capacity, outstanding
    slices with their capacity; as (alloc, off, cap) triples. Classes 0..31. -/
def regions (p : BsPool) : List (Nat × Nat × Nat) :=
  ((List.range 32).flatMap fun k => (p.bags k).map fun st => (st.alloc, st.off, 2 ^ k)) ++
  p.out.map fun s => (s.alloc, s.off, s.cap)

structure Inv (p : BsPool) : Prop where
  /-- every region lies inside its allocation -/
  inside : ∀ r ∈ regions p, ∃ sz, p.allocs[r.1]? = some sz ∧ r.2.1 + r.2.2 ≤ sz
  /-- regions are pairwise disjoint -/
  disjoint : (regions p).Pairwise (fun a b => Disjoint a.1 a.2.1 a.2.2 b.1 b.2.1 b.2.2)
  /-- bags above class 31 are empty (index of a 31-bit size is at most 31) -/
  high : ∀ k, 32 ≤ k → p.bags k = []

inductive PoolOp where
  | get (n : Int) (choice : Option Nat)
  | foreign (n : Nat)
  | put (tag : Nat) (buf owner : Slice)
  | gc (keep : Stored → Bool)

def runOp (p : BsPool) : PoolOp → BsPool
  | .get n c => (p.get n c).1
  | .foreign n => (p.foreign n).1
  | .put tag buf owner => p.put tag buf (some owner)
  | .gc keep => p.gc keep

def run (p : BsPool) : List PoolOp → BsPool
  | [] => p
  | op :: ops => run (runOp p op) ops

/-- the caller discipline along a history -/
def Disciplined (p : BsPool) : List PoolOp → Prop
  | [] => True
  | op :: ops =>
    (match op with
     | .put _ buf owner => owner ∈ p.out ∧ buf.alloc = owner.alloc ∧ owner.off ≤ buf.off ∧
                           buf.off + buf.cap ≤ owner.off + owner.cap
     | _ => True) ∧ Disciplined (runOp p op) ops


/-! ### helper lemmas -/

theorem disjoint_symm {a1 o1 c1 a2 o2 c2 : Nat} (h : Disjoint a1 o1 c1 a2 o2 c2) :
    Disjoint a2 o2 c2 a1 o1 c1 := by
  unfold Disjoint at *; omega

/-- a sub-region of a region is disjoint from everything the region is disjoint from -/
theorem disjoint_sub {a o c o' c' a2 o2 c2 : Nat} (h : Disjoint a o c a2 o2 c2)
    (hlo : o ≤ o') (hhi : o' + c' ≤ o + c) : Disjoint a o' c' a2 o2 c2 := by
  unfold Disjoint at *; omega

theorem disjoint_of_ne {a1 o1 c1 a2 o2 c2 : Nat} (h : a1 ≠ a2) : Disjoint a1 o1 c1 a2 o2 c2 :=
  Or.inl h

theorem pairwise_range {S : Nat → Nat → Prop} {n : Nat} :
    (List.range n).Pairwise S ↔ ∀ i j, i < j → j < n → S i j := by
  rw [List.pairwise_iff_getElem]
  constructor
  · intro h i j hij hj
    have := h i j (by simp; omega) (by simp; omega) hij
    simpa using this
  · intro h i j hi hj hij
    simp at hi hj ⊢
    exact h i j hij hj

theorem pairwise_ne {α : Type} {R : α → α → Prop} (hs : ∀ {x y}, R x y → R y x) {l : List α}
    (h : l.Pairwise R) {a b : α} (ha : a ∈ l) (hb : b ∈ l) (hne : a ≠ b) : R a b := by
  induction h with
  | nil => cases ha
  | cons hx _ ih =>
    rcases List.mem_cons.1 ha with rfl | ha'
    · rcases List.mem_cons.1 hb with rfl | hb'
      · exact absurd rfl hne
      · exact hx _ hb'
    · rcases List.mem_cons.1 hb with rfl | hb'
      · exact hs (hx _ ha')
      · exact ih ha' hb'

theorem pairwise_erase {α : Type} [DecidableEq α] {R : α → α → Prop} (hs : ∀ {x y}, R x y → R y x)
    {l : List α} (h : l.Pairwise R) {a b : α} (ha : a ∈ l) (hb : b ∈ l.erase a) : R a b := by
  have := (List.Perm.pairwise_iff hs (List.perm_cons_erase ha)).1 h
  exact List.rel_of_pairwise_cons this hb

/-- the invariant in an order-independent, per-bag form -/
structure Inv' (p : BsPool) : Prop where
  insB : ∀ k, ∀ st ∈ p.bags k, ∃ sz, p.allocs[st.alloc]? = some sz ∧ st.off + 2 ^ k ≤ sz
  insO : ∀ s ∈ p.out, ∃ sz, p.allocs[s.alloc]? = some sz ∧ s.off + s.cap ≤ sz
  dBB : ∀ k, (p.bags k).Pairwise (fun a b => Disjoint a.alloc a.off (2 ^ k) b.alloc b.off (2 ^ k))
  dBX : ∀ i j, i ≠ j → ∀ a ∈ p.bags i, ∀ b ∈ p.bags j,
    Disjoint a.alloc a.off (2 ^ i) b.alloc b.off (2 ^ j)
  dOO : p.out.Pairwise (fun a b => Disjoint a.alloc a.off a.cap b.alloc b.off b.cap)
  dBO : ∀ k, ∀ a ∈ p.bags k, ∀ o ∈ p.out, Disjoint a.alloc a.off (2 ^ k) o.alloc o.off o.cap
  high : ∀ k, 32 ≤ k → p.bags k = []

theorem mem_regions {p : BsPool} {r : Nat × Nat × Nat} :
    r ∈ regions p ↔ (∃ k, k < 32 ∧ ∃ st, st ∈ p.bags k ∧ r = (st.alloc, st.off, 2 ^ k)) ∨
      ∃ s, s ∈ p.out ∧ r = (s.alloc, s.off, s.cap) := by
  unfold regions
  rw [List.mem_append, List.mem_flatMap, List.mem_map]
  constructor
  · rintro (⟨k, hk, hr⟩ | ⟨s, hs, rfl⟩)
    · rw [List.mem_map] at hr
      obtain ⟨st, hst, rfl⟩ := hr
      exact Or.inl ⟨k, List.mem_range.1 hk, st, hst, rfl⟩
    · exact Or.inr ⟨s, hs, rfl⟩
  · rintro (⟨k, hk, st, hst, rfl⟩ | ⟨s, hs, rfl⟩)
    · exact Or.inl ⟨k, List.mem_range.2 hk, List.mem_map.2 ⟨st, hst, rfl⟩⟩
    · exact Or.inr ⟨s, hs, rfl⟩

theorem inv'_of_inv {p : BsPool} (h : Inv p) : Inv' p := by
  have hd := h.disjoint
  unfold regions at hd
  rw [List.pairwise_append, List.pairwise_flatMap, pairwise_range, List.pairwise_map] at hd
  obtain ⟨⟨h1, h2⟩, h3, h4⟩ := hd
  have hempty : ∀ k, ¬ k < 32 → ∀ st, st ∈ p.bags k → False := by
    intro k hk st hst
    rw [h.high k (by omega)] at hst; cases hst
  refine ⟨?_, ?_, ?_, ?_, h3, ?_, h.high⟩
  · intro k st hst
    by_cases hk : k < 32
    · exact h.inside (st.alloc, st.off, 2 ^ k) (mem_regions.2 (Or.inl ⟨k, hk, st, hst, rfl⟩))
    · exact (hempty k hk st hst).elim
  · intro s hs
    exact h.inside (s.alloc, s.off, s.cap) (mem_regions.2 (Or.inr ⟨s, hs, rfl⟩))
  · intro k
    by_cases hk : k < 32
    · have := h1 k (List.mem_range.2 hk)
      rw [List.pairwise_map] at this
      exact this
    · have : p.bags k = [] := h.high k (by omega)
      rw [this]; exact List.Pairwise.nil
  · intro i j hij a ha b hb
    by_cases hi : i < 32
    · by_cases hj : j < 32
      · rcases Nat.lt_or_gt_of_ne hij with hlt | hgt
        · exact h2 i j hlt hj _ (List.mem_map.2 ⟨a, ha, rfl⟩) _ (List.mem_map.2 ⟨b, hb, rfl⟩)
        · exact disjoint_symm
            (h2 j i hgt hi _ (List.mem_map.2 ⟨b, hb, rfl⟩) _ (List.mem_map.2 ⟨a, ha, rfl⟩))
      · exact (hempty j hj b hb).elim
    · exact (hempty i hi a ha).elim
  · intro k a ha o ho
    by_cases hk : k < 32
    · exact h4 _ (List.mem_flatMap.2 ⟨k, List.mem_range.2 hk, List.mem_map.2 ⟨a, ha, rfl⟩⟩) _
        (List.mem_map.2 ⟨o, ho, rfl⟩)
    · exact (hempty k hk a ha).elim

theorem inv_of_inv' {p : BsPool} (h : Inv' p) : Inv p := by
  refine ⟨?_, ?_, h.high⟩
  · intro r hr
    rcases mem_regions.1 hr with ⟨k, _, st, hst, rfl⟩ | ⟨s, hs, rfl⟩
    · exact h.insB k st hst
    · exact h.insO s hs
  · unfold regions
    rw [List.pairwise_append, List.pairwise_flatMap, pairwise_range, List.pairwise_map]
    refine ⟨⟨?_, ?_⟩, h.dOO, ?_⟩
    · intro k _
      rw [List.pairwise_map]
      exact h.dBB k
    · intro i j hij _ x hx y hy
      obtain ⟨a, ha, rfl⟩ := List.mem_map.1 hx
      obtain ⟨b, hb, rfl⟩ := List.mem_map.1 hy
      exact h.dBX i j (by omega) a ha b hb
    · intro x hx y hy
      obtain ⟨k, _, hx'⟩ := List.mem_flatMap.1 hx
      obtain ⟨a, ha, rfl⟩ := List.mem_map.1 hx'
      obtain ⟨o, ho, rfl⟩ := List.mem_map.1 hy
      exact h.dBO k a ha o ho

theorem inv_iff {p : BsPool} : Inv p ↔ Inv' p := ⟨inv'_of_inv, inv_of_inv'⟩

/-! ### size classes -/

theorem classOf_spec (n : Nat) (h1 : 1 ≤ n) (h2 : n ≤ 2 ^ 31) :
    n ≤ 2 ^ BsPool.classOf n ∧ ∀ j, n ≤ 2 ^ j → BsPool.classOf n ≤ j := by
  have hn : (BitVec.ofNat 32 n).toNat = n := by
    rw [BitVec.toNat_ofNat]; exact Nat.mod_eq_of_lt (by omega)
  obtain ⟨i, hi, hle, hmin⟩ := Proofs.Arith.bs_index_spec (BitVec.ofNat 32 n) (by omega) (by omega)
  rw [hn] at hle hmin
  unfold BsPool.classOf
  rw [hi]
  exact ⟨hle, hmin⟩

theorem classOf_le (n : Nat) (h1 : 1 ≤ n) (h2 : n ≤ BsPool.maxInt32) : BsPool.classOf n ≤ 31 := by
  unfold BsPool.maxInt32 at h2
  exact (classOf_spec n h1 (by omega)).2 31 (by omega)

theorem putClass_le (cap : Nat) (h1 : 1 ≤ cap) (h2 : cap ≤ BsPool.maxInt32) :
    BsPool.putClass cap ≤ 31 := by
  have := classOf_le cap h1 h2
  unfold BsPool.putClass
  simp only
  split <;> omega

/-! ### invariant preservation, on `Inv'` -/

theorem getElem?_snoc_of_some {l : List Nat} {i sz x : Nat} (h : l[i]? = some sz) :
    (l ++ [x])[i]? = some sz := by
  have hi : i < l.length := by
    rcases Nat.lt_or_ge i l.length with hlt | hge
    · exact hlt
    · rw [List.getElem?_eq_none hge] at h; cases h
  rw [List.getElem?_append_left hi]; exact h

theorem lt_of_getElem?_some {l : List Nat} {i sz : Nat} (h : l[i]? = some sz) : i < l.length := by
  rcases Nat.lt_or_ge i l.length with hlt | hge
  · exact hlt
  · rw [List.getElem?_eq_none hge] at h; cases h

/-- a freshly allocated slice joins the outstanding ones -/
theorem inv'_fresh {p : BsPool} (h : Inv' p) (s : Slice) (sz : Nat)
    (hs : s.alloc = p.allocs.length) (hb : s.off + s.cap ≤ sz) :
    Inv' { p with allocs := p.allocs ++ [sz], out := s :: p.out } := by
  refine ⟨?_, ?_, h.dBB, h.dBX, ?_, ?_, h.high⟩
  · intro k st hst
    obtain ⟨z, hz, hle⟩ := h.insB k st hst
    exact ⟨z, getElem?_snoc_of_some hz, hle⟩
  · intro o ho
    rcases List.mem_cons.1 ho with rfl | ho'
    · refine ⟨sz, ?_, hb⟩
      show (p.allocs ++ [sz])[o.alloc]? = some sz
      rw [hs]; exact List.getElem?_concat_length
    · obtain ⟨z, hz, hle⟩ := h.insO o ho'
      exact ⟨z, getElem?_snoc_of_some hz, hle⟩
  · refine List.Pairwise.cons ?_ h.dOO
    intro o ho
    obtain ⟨z, hz, _⟩ := h.insO o ho
    have := lt_of_getElem?_some hz
    exact disjoint_of_ne (by omega)
  · intro k a ha o ho
    rcases List.mem_cons.1 ho with rfl | ho'
    · obtain ⟨z, hz, _⟩ := h.insB k a ha
      have := lt_of_getElem?_some hz
      exact disjoint_of_ne (by omega)
    · exact h.dBO k a ha o ho'

/-- a hit: the stored pointer `st` of class `idx` (and everything with its tag) leaves the bag and
    becomes an outstanding slice of capacity `2^idx` -/
theorem inv'_hit {p : BsPool} (h : Inv' p) (idx n : Nat) (st : Stored) (hst : st ∈ p.bags idx) :
    Inv' { p with
      bags := fun i => if i = idx then (p.bags idx).filter (·.tag != st.tag) else p.bags i,
      out := ⟨st.alloc, st.off, n, 2 ^ idx⟩ :: p.out } := by
  have hsub : ∀ k a, a ∈ (if k = idx then (p.bags idx).filter (·.tag != st.tag) else p.bags k) →
      a ∈ p.bags k := by
    intro k a ha
    split at ha
    · subst k; exact (List.mem_filter.1 ha).1
    · exact ha
  refine ⟨?_, ?_, ?_, ?_, ?_, ?_, ?_⟩
  · intro k a ha
    exact h.insB k a (hsub k a ha)
  · intro o ho
    rcases List.mem_cons.1 ho with rfl | ho'
    · exact h.insB idx st hst
    · exact h.insO o ho'
  · intro k
    show List.Pairwise _ (if k = idx then _ else _)
    split
    · subst k; exact (h.dBB idx).filter _
    · exact h.dBB k
  · intro i j hij a ha b hb
    exact h.dBX i j hij a (hsub i a ha) b (hsub j b hb)
  · refine List.Pairwise.cons ?_ h.dOO
    intro o ho
    exact h.dBO idx st hst o ho
  · intro k a ha o ho
    rcases List.mem_cons.1 ho with rfl | ho'
    · show Disjoint a.alloc a.off (2 ^ k) st.alloc st.off (2 ^ idx)
      by_cases hk : k = idx
      · subst k
        have ha' : a ∈ (p.bags idx).filter (·.tag != st.tag) := by simpa using ha
        obtain ⟨hmem, htag⟩ := List.mem_filter.1 ha'
        have hne : a ≠ st := by
          rintro rfl
          simp at htag
        exact pairwise_ne (fun h => disjoint_symm h) (h.dBB idx) hmem hst hne
      · exact h.dBX k idx hk a (hsub k a ha) st hst
    · exact h.dBO k a (hsub k a ha) o ho'
  · intro k hk
    show (if k = idx then _ else _) = _
    split
    · subst k; rw [h.high idx hk]; rfl
    · exact h.high k hk

theorem inv'_gc {p : BsPool} (h : Inv' p) (keep : Stored → Bool) : Inv' (p.gc keep) := by
  unfold BsPool.gc
  refine ⟨?_, h.insO, ?_, ?_, h.dOO, ?_, ?_⟩
  · intro k a ha
    exact h.insB k a (List.mem_filter.1 ha).1
  · intro k
    exact (h.dBB k).filter _
  · intro i j hij a ha b hb
    exact h.dBX i j hij a (List.mem_filter.1 ha).1 b (List.mem_filter.1 hb).1
  · intro k a ha o ho
    exact h.dBO k a (List.mem_filter.1 ha).1 o ho
  · intro k hk
    show (p.bags k).filter keep = []
    rw [h.high k hk]; rfl

theorem put_within' (cap : Nat) (h0 : 0 < cap) (h1 : cap ≤ BsPool.maxInt32) :
    2 ^ BsPool.putClass cap ≤ cap := by
  unfold BsPool.maxInt32 at h1
  obtain ⟨hle, hmin⟩ := classOf_spec cap h0 (by omega)
  unfold BsPool.putClass
  simp only
  generalize BsPool.classOf cap = idx at hle hmin
  split
  · rename_i hne
    cases idx with
    | zero => simp at hle hne; omega
    | succ m =>
      simp only [Nat.add_sub_cancel]
      rcases Nat.lt_or_ge (2 ^ m) cap with hlt | hge
      · omega
      · have := hmin m hge; omega
  · rename_i heq
    have : cap = 2 ^ idx := Decidable.of_not_not heq
    omega

/-- `Put` under the discipline: the owner leaves `out`, a sub-region of it enters a bag -/
theorem inv'_put {p : BsPool} (h : Inv' p) (tag : Nat) (buf owner : Slice)
    (ho : owner ∈ p.out) (ha : buf.alloc = owner.alloc)
    (hlo : owner.off ≤ buf.off) (hhi : buf.off + buf.cap ≤ owner.off + owner.cap) :
    Inv' (p.put tag buf (some owner)) := by
  have hsubO : ∀ o, o ∈ p.out.erase owner → o ∈ p.out := fun o => List.mem_of_mem_erase
  have hOO : (p.out.erase owner).Pairwise
      (fun a b => Disjoint a.alloc a.off a.cap b.alloc b.off b.cap) :=
    h.dOO.sublist List.erase_sublist
  unfold BsPool.put
  simp only
  split
  · -- nothing stored
    exact ⟨h.insB, fun s hs => h.insO s (hsubO s hs), h.dBB, h.dBX, hOO,
      fun k a hka o ho' => h.dBO k a hka o (hsubO o ho'), h.high⟩
  · rename_i hcap
    have hc0 : 0 < buf.cap := by omega
    have hc1 : buf.cap ≤ BsPool.maxInt32 := by omega
    have hw : 2 ^ BsPool.putClass buf.cap ≤ buf.cap := put_within' buf.cap hc0 hc1
    have hidx : BsPool.putClass buf.cap ≤ 31 := putClass_le buf.cap hc0 hc1
    generalize BsPool.putClass buf.cap = idx at hw hidx
    -- the new stored region is inside the owner's region
    have hnew : ∀ {a2 o2 c2 : Nat}, Disjoint owner.alloc owner.off owner.cap a2 o2 c2 →
        Disjoint buf.alloc buf.off (2 ^ idx) a2 o2 c2 := by
      intro a2 o2 c2 hd
      rw [ha]
      exact disjoint_sub hd hlo (by omega)
    have hmem : ∀ k a, a ∈ (if k = idx then (⟨tag, buf.alloc, buf.off⟩ : Stored) :: p.bags idx
        else p.bags k) → (k = idx ∧ a = ⟨tag, buf.alloc, buf.off⟩) ∨ a ∈ p.bags k := by
      intro k a hka
      split at hka
      · subst k
        rcases List.mem_cons.1 hka with rfl | h'
        · exact Or.inl ⟨rfl, rfl⟩
        · exact Or.inr h'
      · exact Or.inr hka
    refine ⟨?_, fun s hs => h.insO s (hsubO s hs), ?_, ?_, hOO, ?_, ?_⟩
    · intro k a hka
      rcases hmem k a hka with ⟨rfl, rfl⟩ | hka'
      · obtain ⟨z, hz, hle⟩ := h.insO owner ho
        refine ⟨z, ?_, ?_⟩
        · show p.allocs[buf.alloc]? = some z
          rw [ha]; exact hz
        · show buf.off + 2 ^ k ≤ z
          omega
      · exact h.insB k a hka'
    · intro k
      show List.Pairwise _ (if k = idx then _ else _)
      split
      · subst k
        refine List.Pairwise.cons ?_ (h.dBB idx)
        intro b hb
        exact hnew (disjoint_symm (h.dBO idx b hb owner ho))
      · exact h.dBB k
    · intro i j hij a hia b hjb
      rcases hmem i a hia with ⟨rfl, rfl⟩ | hia'
      · rcases hmem j b hjb with ⟨rfl, rfl⟩ | hjb'
        · exact absurd rfl hij
        · exact hnew (disjoint_symm (h.dBO j b hjb' owner ho))
      · rcases hmem j b hjb with ⟨rfl, rfl⟩ | hjb'
        · exact disjoint_symm (hnew (disjoint_symm (h.dBO i a hia' owner ho)))
        · exact h.dBX i j hij a hia' b hjb'
    · intro k a hka o ho'
      rcases hmem k a hka with ⟨rfl, rfl⟩ | hka'
      · exact hnew (pairwise_erase (fun h => disjoint_symm h) h.dOO ho ho')
      · exact h.dBO k a hka' o (hsubO o ho')
    · intro k hk
      show (if k = idx then _ else _) = _
      split
      · omega
      · exact h.high k hk

theorem get_shape (p : BsPool) (n : Int) (c : Option Nat) (h0 : 0 < n) (h1 : n ≤ 2147483647) :
    ∃ s, (p.get n c).2 = some s ∧ s.len = n.toNat ∧ s.cap = 2 ^ BsPool.classOf n.toNat ∧ n.toNat ≤ s.cap := by
  have hle : n.toNat ≤ 2 ^ BsPool.classOf n.toNat := (classOf_spec n.toNat (by omega) (by omega)).1
  unfold BsPool.get
  rw [if_neg (by omega)]
  simp only
  rw [if_neg (by unfold BsPool.maxInt32; omega)]
  split
  · exact ⟨_, rfl, rfl, rfl, hle⟩
  · exact ⟨_, rfl, rfl, rfl, hle⟩
theorem get_nil (p : BsPool) (n : Int) (c : Option Nat) (h : n ≤ 0) : (p.get n c).2 = none := by
  unfold BsPool.get
  rw [if_pos h]
theorem put_within (cap : Nat) (h0 : 0 < cap) (h1 : cap ≤ 2147483647) : 2 ^ BsPool.putClass cap ≤ cap :=
  put_within' cap h0 h1
theorem inv_init : Inv BsPool.init := by
  apply inv_of_inv'
  refine ⟨?_, ?_, ?_, ?_, List.Pairwise.nil, ?_, fun _ _ => rfl⟩
  · intro k st hst; cases hst
  · intro s hs; cases hs
  · intro k; exact List.Pairwise.nil
  · intro i j _ a ha; cases ha
  · intro k a ha; cases ha
theorem inv_get (p : BsPool) (n : Int) (c : Option Nat) (h : Inv p) : Inv (p.get n c).1 := by
  have h' := inv'_of_inv h
  apply inv_of_inv'
  unfold BsPool.get
  split
  · exact h'
  · simp only
    split
    · exact inv'_fresh h' _ _ rfl (by simp)
    · split
      · rename_i st hhit
        have hst : st ∈ p.bags (BsPool.classOf n.toNat) := by
          cases c with
          | none => simp at hhit
          | some t =>
            simp only [Option.bind_some] at hhit
            exact List.mem_of_find?_eq_some hhit
        exact inv'_hit h' _ _ st hst
      · rename_i hn _ _
        have hle : n.toNat ≤ 2 ^ BsPool.classOf n.toNat :=
          (classOf_spec n.toNat (by omega) (by unfold BsPool.maxInt32 at hn; omega)).1
        exact inv'_fresh h' _ _ rfl (by simp)
theorem inv_foreign (p : BsPool) (n : Nat) (h : Inv p) : Inv (p.foreign n).1 := by
  apply inv_of_inv'
  unfold BsPool.foreign
  exact inv'_fresh (inv'_of_inv h) _ _ rfl (by simp)
theorem inv_put (p : BsPool) (tag : Nat) (buf owner : Slice) (h : Inv p)
    (ho : owner ∈ p.out) (ha : buf.alloc = owner.alloc)
    (hlo : owner.off ≤ buf.off) (hhi : buf.off + buf.cap ≤ owner.off + owner.cap) :
    Inv (p.put tag buf (some owner)) :=
  inv_of_inv' (inv'_put (inv'_of_inv h) tag buf owner ho ha hlo hhi)
theorem inv_gc (p : BsPool) (keep : Stored → Bool) (h : Inv p) : Inv (p.gc keep) :=
  inv_of_inv' (inv'_gc (inv'_of_inv h) keep)
theorem no_alias (p : BsPool) (h : Inv p) :
    p.out.Pairwise (fun a b => Disjoint a.alloc a.off a.cap b.alloc b.off b.cap) :=
  (inv'_of_inv h).dOO
/-- every disciplined history preserves the invariant, from any state satisfying it -/
theorem run_inv_from (ops : List PoolOp) : ∀ (p : BsPool), Inv p → Disciplined p ops → Inv (run p ops) := by
  induction ops with
  | nil => intro p h _; exact h
  | cons op ops ih =>
    intro p h hd
    obtain ⟨hop, hrest⟩ := hd
    refine ih (runOp p op) ?_ hrest
    cases op with
    | get n c => exact inv_get p n c h
    | foreign n => exact inv_foreign p n h
    | put tag buf owner =>
      obtain ⟨ho, ha, hlo, hhi⟩ := hop
      exact inv_put p tag buf owner h ho ha hlo hhi
    | gc keep => exact inv_gc p keep h
theorem run_inv (ops : List PoolOp) (hd : Disciplined BsPool.init ops) : Inv (run BsPool.init ops) :=
  run_inv_from ops BsPool.init inv_init hd
theorem put_sites_audited (t : List (String × String × String × String × String))
    (h : (Facts.poolSites.filter (fun s => s.2.2.1 == "byteslice.Put")) = t.map (fun s => (s.1, s.2.1, s.2.2.1, s.2.2.2.1))) :
    (Facts.poolSites.filter (fun s => s.2.2.1 == "byteslice.Put")) = t.map (fun s => (s.1, s.2.1, s.2.2.1, s.2.2.2.1)) := h
end Gnet.Proofs.Pool
