import Gnet.Model.Handover
namespace Gnet.Proofs.Handover
open Gnet.Handover

/-! ## list helpers -/

/-- replacing the element at a valid index of `L` changes exactly one block of `(L.map f).flatten` -/
theorem flat_set {α : Type} (f : α → List Nat) : ∀ (L : List α) (l : Nat) (x : α), L[l]? = some x →
    ∃ A B, (L.map f).flatten = A ++ f x ++ B ∧ ∀ y, ((L.set l y).map f).flatten = A ++ f y ++ B
  | [], l, x, h => by simp at h
  | z :: L, 0, x, h => by
    simp at h; subst h
    exact ⟨[], (L.map f).flatten, by simp, by intro y; simp⟩
  | z :: L, l+1, x, h => by
    simp at h
    obtain ⟨A, B, h1, h2⟩ := flat_set f L l x h
    exact ⟨f z ++ A, B, by simp [h1], by intro y; simp only [List.set_cons_succ, List.map_cons, List.flatten_cons, h2, List.append_assoc]⟩

theorem pendingOf_push_register (x : Loop) (fd : Nat) :
    pendingOf { x with queue := x.queue ++ [Task.register fd] } = pendingOf x ++ [fd] := by
  simp [pendingOf, List.filterMap_append]

theorem pendingOf_push_sentinel (x : Loop) :
    pendingOf { x with queue := x.queue ++ [Task.sentinel] } = pendingOf x := by
  simp [pendingOf, List.filterMap_append]

theorem pendingOf_pop_register (x : Loop) (fd : Nat) (q : List Task) (r : Bool) (c : List Nat)
    (h : x.queue = Task.register fd :: q) :
    pendingOf x = fd :: pendingOf { running := r, queue := q, conns := c } := by
  simp [pendingOf, h]

theorem pendingOf_pop_sentinel (x : Loop) (q : List Task) (r : Bool) (c : List Nat)
    (h : x.queue = Task.sentinel :: q) :
    pendingOf x = pendingOf { running := r, queue := q, conns := c } := by
  simp [pendingOf, h]

theorem pendingOf_queue (x : Loop) (r : Bool) (c : List Nat) :
    pendingOf { running := r, queue := x.queue, conns := c } = pendingOf x := rfl

theorem pendingOf_nil (r : Bool) (c : List Nat) : pendingOf { running := r, queue := [], conns := c } = [] := rfl

/-! ## `reorder`: a pending registration moves to the head of the queue of its loop -/

/-- the descriptors waiting in the reordered queue are a permutation of those that waited before -/
theorem pendingOf_reorder (x : Loop) (fd : Nat) (hm : Task.register fd ∈ x.queue) :
    (pendingOf { x with queue := Task.register fd :: x.queue.erase (Task.register fd) }).Perm (pendingOf x) :=
  (List.perm_cons_erase hm).symm.filterMap _

/-- the reordered queue holds the same registrations -/
theorem mem_reorder (q : List Task) (fd : Nat) (hm : Task.register fd ∈ q) (t : Task)
    (ht : t ∈ Task.register fd :: q.erase (Task.register fd)) : t ∈ q := by
  rcases List.mem_cons.mp ht with e | ht
  · rw [e]; exact hm
  · exact List.mem_of_mem_erase ht

/-! ## what each step does, as a relation on the observed quantities -/

/-- the observed quantities of a state -/
structure Obs where
  P : List Nat        -- pending
  R : List Nat        -- registered
  C : List Nat        -- closed
  n : Nat             -- nextFd
  O : List Nat        -- opened descriptors

def obs (s : State) : Obs :=
  { P := pending s, R := registered s, C := s.closed, n := s.nextFd, O := s.opened.map Prod.fst }

/-- the counting invariant: ownership partition, and OnOpen descriptors are among the registered or closed ones
(an aborted registration is closed without OnOpen) -/
def Good (o : Obs) : Prop :=
  (∀ a, List.count a (o.P ++ o.R ++ o.C) = List.count a (List.range o.n)) ∧
  (∀ a, List.count a o.O ≤ List.count a (o.R ++ o.C))

def I1 (s : State) : Prop := Good (obs s)

/-- a loop that left Polling has no waiting registrations and no registered connections -/
def I2 (s : State) : Prop := ∀ x ∈ s.loops, x.running = false → pendingOf x = [] ∧ x.conns = []

def I3 (s : State) : Prop := s.assigned.map Prod.fst = List.range s.nextFd

/-- a registration waiting in the queue of loop l was assigned to loop l -/
def I4 (s : State) : Prop :=
  ∀ l x, s.loops[l]? = some x → ∀ fd, Task.register fd ∈ x.queue → (fd, l) ∈ s.assigned

def I5 (s : State) : Prop := ∀ p ∈ s.opened, p ∈ s.assigned

/-! ### I1 -/

theorem I1_setLoop_cases (s : State) (l : Nat) (x : Loop) (hx : s.loops[l]? = some x) :
    ∃ A B A' B', pending s = A ++ pendingOf x ++ B ∧ registered s = A' ++ x.conns ++ B' ∧
      ∀ y, ((s.loops.set l y).map pendingOf).flatten = A ++ pendingOf y ++ B ∧
           ((s.loops.set l y).map (·.conns)).flatten = A' ++ y.conns ++ B' := by
  obtain ⟨A, B, h1, h2⟩ := flat_set pendingOf s.loops l x hx
  obtain ⟨A', B', h1', h2'⟩ := flat_set (·.conns) s.loops l x hx
  exact ⟨A, B, A', B', h1, h1', fun y => ⟨h2 y, h2' y⟩⟩

/-- what `exitLoop` does when it is applied to (a variant of) the loop at index l -/
theorem exitLoop_spec (s : State) (l : Nat) (x y : Loop) (hx : s.loops[l]? = some x)
    (hp : pendingOf y = pendingOf x) (hc : y.conns = x.conns) :
    ∃ A B A' B', pending s = A ++ pendingOf x ++ B ∧ registered s = A' ++ x.conns ++ B' ∧
      pending (exitLoop s l y) = A ++ B ∧ registered (exitLoop s l y) = A' ++ B' ∧
      (exitLoop s l y).closed = s.closed ++ x.conns ++ pendingOf x ∧
      (exitLoop s l y).results = s.results ++ (pendingOf x).filter (· ∈ s.enrolled) ∧
      (exitLoop s l y).failed = s.failed ++ (pendingOf x).filter (· ∈ s.enrolled) := by
  obtain ⟨A, B, A', B', h1, h2, h3⟩ := I1_setLoop_cases s l x hx
  refine ⟨A, B, A', B', h1, h2, ?_, ?_, ?_, ?_, ?_⟩
  · have := (h3 { running := false, queue := [], conns := [] }).1
    rw [pendingOf_nil, List.append_nil] at this
    exact this
  · have := (h3 { running := false, queue := [], conns := [] }).2
    rw [List.append_nil] at this
    exact this
  · show s.closed ++ y.conns ++ pendingOf y = _
    rw [hc, hp]
  · show s.results ++ (pendingOf y).filter (· ∈ s.enrolled) = _
    rw [hp]
  · show s.failed ++ (pendingOf y).filter (· ∈ s.enrolled) = _
    rw [hp]

theorem I1_exitLoop (s : State) (l : Nat) (x y : Loop) (hx : s.loops[l]? = some x)
    (hp : pendingOf y = pendingOf x) (hc : y.conns = x.conns) (h : I1 s) : I1 (exitLoop s l y) := by
  obtain ⟨A, B, A', B', e1, e2, e3, e4, e5, _, _⟩ := exitLoop_spec s l x y hx hp hc
  have e6 : (exitLoop s l y).nextFd = s.nextFd := rfl
  have e7 : (exitLoop s l y).opened = s.opened := rfl
  obtain ⟨h1, h2⟩ := h
  refine ⟨?_, ?_⟩
  · intro a
    have := h1 a
    simp only [obs, e1, e2, e3, e4, e5, e6, List.count_append] at this ⊢
    omega
  · intro a
    have := h2 a
    simp only [obs, e1, e2, e3, e4, e5, e7, List.count_append] at this ⊢
    omega

/-- a step that only closes the fresh descriptor `s.nextFd` (the chosen loop has exited) -/
theorem I1_abort (s s' : State) (hl : s'.loops = s.loops) (hn : s'.nextFd = s.nextFd + 1)
    (hc : s'.closed = s.closed ++ [s.nextFd]) (ho : s'.opened = s.opened) (h : I1 s) : I1 s' := by
  obtain ⟨h1, h2⟩ := h
  refine ⟨?_, ?_⟩
  · intro a
    have := h1 a
    simp only [obs, pending, registered, hl, hn, hc, List.range_succ, List.count_append,
      List.count_singleton] at this ⊢
    omega
  · intro a
    have := h2 a
    simp only [obs, pending, registered, hl, hc, ho, List.count_append] at this ⊢
    omega

theorem I1_step (s : State) (a : Step) (h : I1 s) : I1 (step s a) := by
  cases a with
  | accept l =>
    simp only [step]
    split
    · rename_i x hx
      split
      · split
        · obtain ⟨A, B, A', B', hp, hr, hy⟩ := I1_setLoop_cases s l x hx
          obtain ⟨h1, h2⟩ := h
          simp only [obs, hp, hr] at h1 h2
          refine ⟨?_, ?_⟩
          · intro a
            have := h1 a
            simp only [obs, pending, registered, setLoop, hy, pendingOf_push_register, List.range_succ,
              List.count_append, List.count_singleton] at this ⊢
            omega
          · intro a
            have := h2 a
            simp only [obs, pending, registered, setLoop, hy, List.count_append] at this ⊢
            omega
        · exact I1_abort s _ rfl rfl rfl rfl h
      · exact h
    · exact h
  | exec l =>
    simp only [step]
    split
    · rename_i x hx
      split
      · split
        · rename_i fd q hq
          obtain ⟨A, B, A', B', hp, hr, hy⟩ := I1_setLoop_cases s l x hx
          obtain ⟨h1, h2⟩ := h
          simp only [obs, hp, hr] at h1 h2
          rw [pendingOf_pop_register x fd q x.running (x.conns ++ [fd]) hq] at h1
          refine ⟨?_, ?_⟩
          · intro a
            have := h1 a
            simp only [obs, pending, registered, setLoop, hy, List.count_append, List.count_cons,
              List.count_nil] at this ⊢
            omega
          · intro a
            have := h2 a
            simp only [obs, pending, registered, setLoop, hy, List.count_append, List.map_append,
              List.map_cons, List.map_nil, List.count_singleton] at this ⊢
            omega
        · rename_i q hq
          exact I1_exitLoop s l x _ hx (pendingOf_pop_sentinel x q x.running x.conns hq).symm rfl h
        · exact h
      · exact h
    · exact h
  | action l =>
    simp only [step]
    split
    · rename_i x hx
      split
      · exact I1_exitLoop s l x x hx rfl rfl h
      · exact h
    · exact h
  | peerClose l fd =>
    simp only [step]
    split
    · rename_i x hx
      split
      · rename_i hg
        obtain ⟨A, B, A', B', hp, hr, hy⟩ := I1_setLoop_cases s l x hx
        obtain ⟨h1, h2⟩ := h
        simp only [obs, hp, hr] at h1 h2
        rw [← pendingOf_queue x x.running (x.conns.erase fd)] at h1
        have hpos : 0 < List.count fd x.conns := List.count_pos_iff.mpr hg.2
        refine ⟨?_, ?_⟩
        · intro a
          have := h1 a
          simp only [obs, pending, registered, setLoop, hy, List.count_append, List.count_erase,
            List.count_singleton] at this ⊢
          by_cases hfa : fd = a
          · subst hfa; simp only [beq_self_eq_true, if_true] at this ⊢; omega
          · have hb : (fd == a) = false := by simpa using hfa
            simp only [hb] at this ⊢
            simp only [Bool.false_eq_true, if_false] at this ⊢
            omega
        · intro a
          have := h2 a
          simp only [obs, pending, registered, setLoop, hy, List.count_append, List.count_erase,
            List.count_singleton] at this ⊢
          by_cases hfa : fd = a
          · subst hfa; simp only [beq_self_eq_true, if_true] at this ⊢; omega
          · have hb : (fd == a) = false := by simpa using hfa
            simp only [hb] at this ⊢
            simp only [Bool.false_eq_true, if_false] at this ⊢
            omega
      · exact h
    · exact h
  | requestStop => exact h
  | postSentinels =>
    simp only [step]
    split
    · have e1 : (s.loops.map fun x => ({ x with queue := x.queue ++ [Task.sentinel] } : Loop)).map pendingOf
          = s.loops.map pendingOf := by
        rw [List.map_map]; apply List.map_congr_left; intro x _; exact pendingOf_push_sentinel x
      have e2 : (s.loops.map fun x => ({ x with queue := x.queue ++ [Task.sentinel] } : Loop)).map (·.conns)
          = s.loops.map (·.conns) := by
        rw [List.map_map]; apply List.map_congr_left; intro x _; rfl
      unfold I1 obs pending registered at h ⊢
      simp only [e1, e2]
      exact h
    · exact h
  | acceptorExit =>
    simp only [step]
    split
    · exact h
    · exact h
  | enroll l =>
    simp only [step]
    split
    · rename_i x hx
      split
      · split
        · obtain ⟨A, B, A', B', hp, hr, hy⟩ := I1_setLoop_cases s l x hx
          obtain ⟨h1, h2⟩ := h
          simp only [obs, hp, hr] at h1 h2
          refine ⟨?_, ?_⟩
          · intro a
            have := h1 a
            simp only [obs, pending, registered, setLoop, hy, pendingOf_push_register, List.range_succ,
              List.count_append, List.count_singleton] at this ⊢
            omega
          · intro a
            have := h2 a
            simp only [obs, pending, registered, setLoop, hy, List.count_append] at this ⊢
            omega
        · exact I1_abort s _ rfl rfl rfl rfl h
      · exact h
    · exact h
  | setFlag =>
    simp only [step]
    split
    · exact h
    · exact h
  | reorder l fd =>
    simp only [step]
    split
    · rename_i x hx
      split
      · rename_i hm
        obtain ⟨A, B, A', B', hp, hr, hy⟩ := I1_setLoop_cases s l x hx
        obtain ⟨h1, h2⟩ := h
        simp only [obs, hp, hr] at h1 h2
        have hc := fun a => (pendingOf_reorder x fd hm).count_eq a
        refine ⟨?_, ?_⟩
        · intro a
          have := h1 a
          simp only [obs, pending, registered, setLoop, hy, List.count_append, hc] at this ⊢
          omega
        · intro a
          have := h2 a
          simp only [obs, pending, registered, setLoop, hy, List.count_append] at this ⊢
          omega
      · exact h
    · exact h

/-! ### I2 -/

theorem I2_set (s : State) (l : Nat) (y : Loop) (h : I2 s)
    (hy : y.running = false → pendingOf y = [] ∧ y.conns = []) :
    ∀ x ∈ s.loops.set l y, x.running = false → pendingOf x = [] ∧ x.conns = [] := by
  intro x hx
  rcases List.mem_or_eq_of_mem_set hx with hm | he
  · exact h x hm
  · subst he; exact hy

theorem I2_step (s : State) (a : Step) (h : I2 s) : I2 (step s a) := by
  cases a with
  | accept l =>
    simp only [step]
    split
    · rename_i x hx
      split
      · split
        · rename_i hrun
          exact I2_set s l _ h (fun hr => by simp [hrun] at hr)
        · exact h
      · exact h
    · exact h
  | exec l =>
    simp only [step]
    split
    · rename_i x hx
      split
      · rename_i hrun
        split
        · exact I2_set s l _ h (fun hr => by simp [hrun] at hr)
        · exact I2_set s l _ h (fun _ => ⟨rfl, rfl⟩)
        · exact h
      · exact h
    · exact h
  | action l =>
    simp only [step]
    split
    · split
      · exact I2_set s l _ h (fun _ => ⟨rfl, rfl⟩)
      · exact h
    · exact h
  | peerClose l fd =>
    simp only [step]
    split
    · rename_i x hx
      split
      · rename_i hg
        exact I2_set s l _ h (fun hr => by simp [hg.1] at hr)
      · exact h
    · exact h
  | requestStop => exact h
  | postSentinels =>
    simp only [step]
    split
    · intro x hx
      simp only [List.mem_map] at hx
      obtain ⟨z, hz, rfl⟩ := hx
      intro hr
      exact ⟨(pendingOf_push_sentinel z).trans (h z hz hr).1, (h z hz hr).2⟩
    · exact h
  | acceptorExit =>
    simp only [step]
    split
    · exact h
    · exact h
  | enroll l =>
    simp only [step]
    split
    · rename_i x hx
      split
      · split
        · rename_i hrun
          exact I2_set s l _ h (fun hr => by simp [hrun] at hr)
        · exact h
      · exact h
    · exact h
  | setFlag =>
    simp only [step]
    split
    · exact h
    · exact h
  | reorder l fd =>
    simp only [step]
    split
    · rename_i x hx
      split
      · rename_i hm
        refine I2_set s l _ h (fun hr => ?_)
        have h2 := h x (List.mem_of_getElem? hx) hr
        refine ⟨?_, h2.2⟩
        have hp := pendingOf_reorder x fd hm
        rw [h2.1] at hp
        exact hp.eq_nil
      · exact h
    · exact h

/-! ### I3 -/

theorem I3_step (s : State) (a : Step) (h : I3 s) : I3 (step s a) := by
  cases a with
  | accept l =>
    simp only [step]
    split
    · split
      · split
        · unfold I3 at h ⊢
          simp only [List.map_append, List.map_cons, List.map_nil, h, List.range_succ]
        · unfold I3 at h ⊢
          simp only [List.map_append, List.map_cons, List.map_nil, h, List.range_succ]
      · exact h
    · exact h
  | exec l =>
    simp only [step]
    split
    · split
      · split
        · exact h
        · exact h
        · exact h
      · exact h
    · exact h
  | action l =>
    simp only [step]
    split
    · split
      · exact h
      · exact h
    · exact h
  | peerClose l fd =>
    simp only [step]
    split
    · split
      · exact h
      · exact h
    · exact h
  | requestStop => exact h
  | postSentinels =>
    simp only [step]
    split
    · exact h
    · exact h
  | acceptorExit =>
    simp only [step]
    split
    · exact h
    · exact h
  | enroll l =>
    simp only [step]
    split
    · split
      · split
        · unfold I3 at h ⊢
          simp only [List.map_append, List.map_cons, List.map_nil, h, List.range_succ]
        · unfold I3 at h ⊢
          simp only [List.map_append, List.map_cons, List.map_nil, h, List.range_succ]
      · exact h
    · exact h
  | setFlag =>
    simp only [step]
    split
    · exact h
    · exact h
  | reorder l fd =>
    simp only [step]
    split
    · split
      · exact h
      · exact h
    · exact h

/-! ### I4 -/

/-- replacing loop l by a loop whose queue only holds registrations already accounted for keeps I4 -/
theorem I4_set (s : State) (l : Nat) (y : Loop) (asg : List (Nat × Nat)) (h : I4 s)
    (hmono : ∀ p ∈ s.assigned, p ∈ asg)
    (hy : ∀ fd, Task.register fd ∈ y.queue → (fd, l) ∈ asg) :
    ∀ l' x, (s.loops.set l y)[l']? = some x → ∀ fd, Task.register fd ∈ x.queue → (fd, l') ∈ asg := by
  intro l' x hx fd hfd
  rw [List.getElem?_set] at hx
  by_cases hl : l = l'
  · subst hl
    simp only [if_true] at hx
    split at hx
    · injection hx with hx; subst hx; exact hy fd hfd
    · cases hx
  · simp only [hl, if_false] at hx
    exact hmono _ (h l' x hx fd hfd)

theorem I4_step (s : State) (a : Step) (h : I4 s) : I4 (step s a) := by
  cases a with
  | accept l =>
    simp only [step]
    split
    · rename_i x hx
      split
      · split
        · refine I4_set s l _ (s.assigned ++ [(s.nextFd, l)]) h (fun p hp => List.mem_append_left _ hp) ?_
          intro fd hfd
          simp only [List.mem_append, List.mem_singleton] at hfd ⊢
          rcases hfd with hfd | hfd
          · exact Or.inl (h l x hx fd hfd)
          · injection hfd with hfd; subst hfd; exact Or.inr rfl
        · exact fun l' x' hx' fd hfd => List.mem_append_left _ (h l' x' hx' fd hfd)
      · exact h
    · exact h
  | exec l =>
    simp only [step]
    split
    · rename_i x hx
      split
      · split
        · rename_i fd q hq
          refine I4_set s l _ s.assigned h (fun p hp => hp) ?_
          intro fd' hfd'
          exact h l x hx fd' (by rw [hq]; exact List.mem_cons_of_mem _ hfd')
        · exact I4_set s l _ s.assigned h (fun p hp => hp) (fun fd' hfd' => by simp at hfd')
        · exact h
      · exact h
    · exact h
  | action l =>
    simp only [step]
    split
    · rename_i x hx
      split
      · exact I4_set s l _ s.assigned h (fun p hp => hp) (fun fd' hfd' => by simp at hfd')
      · exact h
    · exact h
  | peerClose l fd =>
    simp only [step]
    split
    · rename_i x hx
      split
      · exact I4_set s l _ s.assigned h (fun p hp => hp) (fun fd hfd => h l x hx fd hfd)
      · exact h
    · exact h
  | requestStop => exact h
  | postSentinels =>
    simp only [step]
    split
    · intro l x hx fd hfd
      simp only [List.getElem?_map, Option.map_eq_some_iff] at hx
      obtain ⟨z, hz, rfl⟩ := hx
      simp only [List.mem_append, List.mem_singleton] at hfd
      rcases hfd with hfd | hfd
      · exact h l z hz fd hfd
      · cases hfd
    · exact h
  | acceptorExit =>
    simp only [step]
    split
    · exact h
    · exact h
  | enroll l =>
    simp only [step]
    split
    · rename_i x hx
      split
      · split
        · refine I4_set s l _ (s.assigned ++ [(s.nextFd, l)]) h (fun p hp => List.mem_append_left _ hp) ?_
          intro fd hfd
          simp only [List.mem_append, List.mem_singleton] at hfd ⊢
          rcases hfd with hfd | hfd
          · exact Or.inl (h l x hx fd hfd)
          · injection hfd with hfd; subst hfd; exact Or.inr rfl
        · exact fun l' x' hx' fd hfd => List.mem_append_left _ (h l' x' hx' fd hfd)
      · exact h
    · exact h
  | setFlag =>
    simp only [step]
    split
    · exact h
    · exact h
  | reorder l fd =>
    simp only [step]
    split
    · rename_i x hx
      split
      · rename_i hm
        exact I4_set s l _ s.assigned h (fun p hp => hp)
          (fun fd' hfd' => h l x hx fd' (mem_reorder x.queue fd hm _ hfd'))
      · exact h
    · exact h

/-! ### I5 -/

theorem I5_step (s : State) (a : Step) (h4 : I4 s) (h : I5 s) : I5 (step s a) := by
  cases a with
  | accept l =>
    simp only [step]
    split
    · split
      · split
        · intro p hp
          exact List.mem_append_left _ (h p hp)
        · intro p hp
          exact List.mem_append_left _ (h p hp)
      · exact h
    · exact h
  | exec l =>
    simp only [step]
    split
    · rename_i x hx
      split
      · split
        · rename_i fd q hq
          intro p hp
          simp only [List.mem_append, List.mem_singleton] at hp
          rcases hp with hp | hp
          · exact h p hp
          · subst hp
            exact h4 l x hx fd (by rw [hq]; exact List.mem_cons_self)
        · exact h
        · exact h
      · exact h
    · exact h
  | action l =>
    simp only [step]
    split
    · split
      · exact h
      · exact h
    · exact h
  | peerClose l fd =>
    simp only [step]
    split
    · split
      · exact h
      · exact h
    · exact h
  | requestStop => exact h
  | postSentinels =>
    simp only [step]
    split
    · exact h
    · exact h
  | acceptorExit =>
    simp only [step]
    split
    · exact h
    · exact h
  | enroll l =>
    simp only [step]
    split
    · split
      · split
        · intro p hp
          exact List.mem_append_left _ (h p hp)
        · intro p hp
          exact List.mem_append_left _ (h p hp)
      · exact h
    · exact h
  | setFlag =>
    simp only [step]
    split
    · exact h
    · exact h
  | reorder l fd =>
    simp only [step]
    split
    · split
      · exact h
      · exact h
    · exact h

/-! ## the invariant holds in every reachable state -/

def Inv (s : State) : Prop := I1 s ∧ I2 s ∧ I3 s ∧ I4 s ∧ I5 s

theorem Inv_step (s : State) (a : Step) (h : Inv s) : Inv (step s a) :=
  ⟨I1_step s a h.1, I2_step s a h.2.1, I3_step s a h.2.2.1, I4_step s a h.2.2.2.1,
   I5_step s a h.2.2.2.1 h.2.2.2.2⟩

theorem Inv_run (steps : List Step) : ∀ s, Inv s → Inv (run s steps) := by
  induction steps with
  | nil => intro s h; exact h
  | cons a rest ih => intro s h; exact ih (step s a) (Inv_step s a h)

theorem Inv_init (n : Nat) : Inv (init n) := by
  refine ⟨⟨?_, ?_⟩, ?_, ?_, ?_, ?_⟩
  · intro a
    simp [obs, init, pending, registered, pendingOf]
  · intro a
    simp [obs, init, registered]
  · intro x hx hr
    simp only [init, List.mem_replicate] at hx
    rw [hx.2]
    exact ⟨rfl, rfl⟩
  · simp [I3, init]
  · intro l x hx fd hfd
    simp only [init, List.getElem?_replicate] at hx
    split at hx
    · injection hx with hx; subst hx; cases hfd
    · cases hx
  · intro p hp
    simp [init] at hp

theorem Inv_of_reachable (s : State) (h : Reachable s) : Inv s := by
  obtain ⟨n, steps, rfl⟩ := h
  exact Inv_run steps _ (Inv_init n)

/-! ## the theorems -/

theorem partition (s : State) (h : Reachable s) :
    (pending s ++ registered s ++ s.closed).Perm (created s) := by
  have := (Inv_of_reachable s h).1.1
  exact List.perm_iff_count.mpr this

theorem opened_assigned (s : State) (h : Reachable s) :
    (∀ p ∈ s.opened, p ∈ s.assigned) ∧ (s.opened.map Prod.fst).Nodup ∧ s.assigned.map Prod.fst = created s := by
  have hi := Inv_of_reachable s h
  refine ⟨hi.2.2.2.2, ?_, hi.2.2.1⟩
  have hall : (pending s ++ registered s ++ s.closed).Nodup :=
    (partition s h).nodup_iff.mpr List.nodup_range
  rw [List.append_assoc] at hall
  have hrc := List.nodup_iff_count.mp (List.nodup_append.mp hall).2.1
  rw [List.nodup_iff_count]
  intro a
  exact Nat.le_trans (hi.1.2 a) (hrc a)

theorem step_exec_register (s : State) (l : Nat) (x : Loop) (fd : Nat) (q : List Task)
    (hx : s.loops[l]? = some x) (hr : x.running = true) (hq : x.queue = Task.register fd :: q) :
    step s (Step.exec l) =
      { setLoop s l { x with queue := q, conns := x.conns ++ [fd] } with
        opened := s.opened ++ [(fd, l)],
        results := if fd ∈ s.enrolled then s.results ++ [fd] else s.results } := by
  simp only [step, hx, hr, hq, if_true]

theorem exec_serves (l : Nat) (rest : List Task) (fd : Nat) : ∀ (pre : List Task) (s : State) (x : Loop),
    s.loops[l]? = some x → x.running = true → x.queue = pre ++ Task.register fd :: rest →
    Task.sentinel ∉ pre →
    (fd, l) ∈ (run s (List.replicate (pre.length + 1) (Step.exec l))).opened := by
  intro pre
  induction pre with
  | nil =>
    intro s x hx hr hq _
    simp only [List.nil_append] at hq
    simp only [List.length_nil, Nat.zero_add, List.replicate_one, run,
      step_exec_register s l x fd rest hx hr hq]
    exact List.mem_append_right _ (List.mem_singleton.mpr rfl)
  | cons t pre' ih =>
    intro s x hx hr hq hns
    cases t with
    | sentinel => exact absurd List.mem_cons_self hns
    | register fd' =>
      simp only [List.cons_append] at hq
      simp only [List.length_cons, List.replicate_succ (n := pre'.length + 1), run,
        step_exec_register s l x fd' _ hx hr hq]
      refine ih _ { x with queue := pre' ++ Task.register fd :: rest, conns := x.conns ++ [fd'] } ?_ hr rfl
        (fun hm => hns (List.mem_cons_of_mem _ hm))
      have hl : l < s.loops.length := by
        rcases Nat.lt_or_ge l s.loops.length with h | h
        · exact h
        · rw [List.getElem?_eq_none h] at hx; cases hx
      simp only [setLoop, List.getElem?_set, if_true, hl]

theorem running_loop_serves (s : State) (l : Nat) (x : Loop) (hx : s.loops[l]? = some x) (hr : x.running = true)
    (pre rest : List Task) (fd : Nat) (hq : x.queue = pre ++ Task.register fd :: rest) (hns : Task.sentinel ∉ pre) :
    (fd, l) ∈ (run s (List.replicate (pre.length + 1) (Step.exec l))).opened :=
  exec_serves l rest fd pre s x hx hr hq hns

theorem registered_final (s : State) (hi : Inv s) (hf : Final s = true) : registered s = [] := by
  simp only [Final, Bool.and_eq_true, List.all_eq_true, Bool.not_eq_true'] at hf
  unfold registered
  rw [List.flatten_eq_nil_iff]
  intro c hc
  simp only [List.mem_map] at hc
  obtain ⟨x, hx, rfl⟩ := hc
  exact (hi.2.1 x hx (hf.2 x hx)).2

theorem pending_final (s : State) (hi : Inv s) (hf : Final s = true) : pending s = [] := by
  simp only [Final, Bool.and_eq_true, List.all_eq_true, Bool.not_eq_true'] at hf
  unfold pending
  rw [List.flatten_eq_nil_iff]
  intro c hc
  simp only [List.mem_map] at hc
  obtain ⟨x, hx, rfl⟩ := hc
  exact (hi.2.1 x hx (hf.2 x hx)).1

/-! ## enrolments and their results -/

/-- what a step does to the pending descriptors, the enrolments and the results: nothing, or a fresh
descriptor is queued (possibly enrolled), or a queued descriptor is registered (and answered if enrolled), ...,
or (`reorder`) the pending descriptors are permuted -/
theorem step_cases (s : State) (a : Step) :
    (pending (step s a) = pending s ∧ (step s a).results = s.results ∧ (step s a).enrolled = s.enrolled ∧
      (step s a).nextFd = s.nextFd) ∨
    (∃ A B, pending s = A ++ B ∧ pending (step s a) = A ++ [s.nextFd] ++ B ∧ (step s a).nextFd = s.nextFd + 1 ∧
      (step s a).results = s.results ∧
      ((step s a).enrolled = s.enrolled ∨ (step s a).enrolled = s.enrolled ++ [s.nextFd])) ∨
    (∃ A B fd, pending s = A ++ fd :: B ∧ pending (step s a) = A ++ B ∧ (step s a).nextFd = s.nextFd ∧
      (step s a).enrolled = s.enrolled ∧
      (step s a).results = if fd ∈ s.enrolled then s.results ++ [fd] else s.results) ∨
    (pending (step s a) = pending s ∧ (step s a).nextFd = s.nextFd + 1 ∧
      (((step s a).results = s.results ∧ (step s a).enrolled = s.enrolled) ∨
       ((step s a).results = s.results ++ [s.nextFd] ∧ (step s a).enrolled = s.enrolled ++ [s.nextFd]))) ∨
    (∃ A M B, pending s = A ++ M ++ B ∧ pending (step s a) = A ++ B ∧ (step s a).nextFd = s.nextFd ∧
      (step s a).enrolled = s.enrolled ∧
      (step s a).results = s.results ++ M.filter (· ∈ s.enrolled)) ∨
    ((pending (step s a)).Perm (pending s) ∧ (step s a).results = s.results ∧ (step s a).enrolled = s.enrolled ∧
      (step s a).nextFd = s.nextFd) := by
  cases a with
  | accept l =>
    simp only [step]
    split
    · rename_i x hx
      split
      · split
        · obtain ⟨A, B, A', B', hp, hr, hy⟩ := I1_setLoop_cases s l x hx
          refine Or.inr (Or.inl ⟨A ++ pendingOf x, B, hp, ?_, rfl, rfl, Or.inl rfl⟩)
          simp only [pending, setLoop, hy, pendingOf_push_register, List.append_assoc]
        · exact Or.inr (Or.inr (Or.inr (Or.inl ⟨rfl, rfl, Or.inl ⟨rfl, rfl⟩⟩)))
      · exact Or.inl ⟨rfl, rfl, rfl, rfl⟩
    · exact Or.inl ⟨rfl, rfl, rfl, rfl⟩
  | enroll l =>
    simp only [step]
    split
    · rename_i x hx
      split
      · split
        · obtain ⟨A, B, A', B', hp, hr, hy⟩ := I1_setLoop_cases s l x hx
          refine Or.inr (Or.inl ⟨A ++ pendingOf x, B, hp, ?_, rfl, rfl, Or.inr rfl⟩)
          simp only [pending, setLoop, hy, pendingOf_push_register, List.append_assoc]
        · exact Or.inr (Or.inr (Or.inr (Or.inl ⟨rfl, rfl, Or.inr ⟨rfl, rfl⟩⟩)))
      · exact Or.inl ⟨rfl, rfl, rfl, rfl⟩
    · exact Or.inl ⟨rfl, rfl, rfl, rfl⟩
  | exec l =>
    simp only [step]
    split
    · rename_i x hx
      split
      · split
        · rename_i fd q hq
          obtain ⟨A, B, A', B', hp, hr, hy⟩ := I1_setLoop_cases s l x hx
          rw [pendingOf_pop_register x fd q x.running (x.conns ++ [fd]) hq] at hp
          refine Or.inr (Or.inr (Or.inl ⟨A, pendingOf { running := x.running, queue := q, conns := x.conns ++ [fd] } ++ B,
            fd, ?_, ?_, rfl, rfl, rfl⟩))
          · rw [hp]; simp only [List.append_assoc, List.cons_append]
          · simp only [pending, setLoop, hy, List.append_assoc]
        · rename_i q hq
          obtain ⟨A, B, _, _, e1, _, e3, _, _, e6, _⟩ :=
            exitLoop_spec s l x _ hx (pendingOf_pop_sentinel x q x.running x.conns hq).symm rfl
          exact Or.inr (Or.inr (Or.inr (Or.inr (Or.inl ⟨A, pendingOf x, B, e1, e3, rfl, rfl, e6⟩))))
        · exact Or.inl ⟨rfl, rfl, rfl, rfl⟩
      · exact Or.inl ⟨rfl, rfl, rfl, rfl⟩
    · exact Or.inl ⟨rfl, rfl, rfl, rfl⟩
  | action l =>
    simp only [step]
    split
    · rename_i x hx
      split
      · obtain ⟨A, B, _, _, e1, _, e3, _, _, e6, _⟩ := exitLoop_spec s l x x hx rfl rfl
        exact Or.inr (Or.inr (Or.inr (Or.inr (Or.inl ⟨A, pendingOf x, B, e1, e3, rfl, rfl, e6⟩))))
      · exact Or.inl ⟨rfl, rfl, rfl, rfl⟩
    · exact Or.inl ⟨rfl, rfl, rfl, rfl⟩
  | peerClose l fd =>
    simp only [step]
    split
    · rename_i x hx
      split
      · obtain ⟨A, B, A', B', hp, hr, hy⟩ := I1_setLoop_cases s l x hx
        rw [← pendingOf_queue x x.running (x.conns.erase fd)] at hp
        refine Or.inl ⟨?_, rfl, rfl, rfl⟩
        simp only [pending, setLoop, hy] at hp ⊢
        exact hp.symm
      · exact Or.inl ⟨rfl, rfl, rfl, rfl⟩
    · exact Or.inl ⟨rfl, rfl, rfl, rfl⟩
  | requestStop => exact Or.inl ⟨rfl, rfl, rfl, rfl⟩
  | postSentinels =>
    simp only [step]
    split
    · have e1 : (s.loops.map fun x => ({ x with queue := x.queue ++ [Task.sentinel] } : Loop)).map pendingOf
          = s.loops.map pendingOf := by
        rw [List.map_map]; apply List.map_congr_left; intro x _; exact pendingOf_push_sentinel x
      refine Or.inl ⟨?_, rfl, rfl, rfl⟩
      simp only [pending, e1]
    · exact Or.inl ⟨rfl, rfl, rfl, rfl⟩
  | acceptorExit =>
    simp only [step]
    split
    · exact Or.inl ⟨rfl, rfl, rfl, rfl⟩
    · exact Or.inl ⟨rfl, rfl, rfl, rfl⟩
  | setFlag =>
    simp only [step]
    split
    · exact Or.inl ⟨rfl, rfl, rfl, rfl⟩
    · exact Or.inl ⟨rfl, rfl, rfl, rfl⟩
  | reorder l fd =>
    simp only [step]
    split
    · rename_i x hx
      split
      · rename_i hm
        obtain ⟨A, B, A', B', hp, hr, hy⟩ := I1_setLoop_cases s l x hx
        refine Or.inr (Or.inr (Or.inr (Or.inr (Or.inr ⟨?_, rfl, rfl, rfl⟩))))
        rw [hp]
        simp only [pending, setLoop, hy]
        exact ((pendingOf_reorder x fd hm).append_left A).append_right B
      · exact Or.inl ⟨rfl, rfl, rfl, rfl⟩
    · exact Or.inl ⟨rfl, rfl, rfl, rfl⟩

/-- enrolled descriptors were created, once each; results are only given to enrolled descriptors; and an
enrolled descriptor is either answered (once) or still pending (once) -/
def J (s : State) : Prop :=
  (∀ a ∈ s.enrolled, a < s.nextFd) ∧ s.enrolled.Nodup ∧ (∀ a ∈ s.results, a ∈ s.enrolled) ∧
  (∀ a ∈ s.enrolled, List.count a s.results + List.count a (pending s) = 1)

theorem pending_lt (s : State) (h : I1 s) : ∀ a ∈ pending s, a < s.nextFd := by
  intro a ha
  have h1 := h.1 a
  simp only [obs, List.count_append] at h1
  have hpos : 0 < List.count a (pending s) := List.count_pos_iff.mpr ha
  have : 0 < List.count a (List.range s.nextFd) := by omega
  exact List.mem_range.mp (List.count_pos_iff.mp this)

theorem count_singleton_ne {a b : Nat} (h : b ≠ a) : List.count a [b] = 0 := by
  simp [h]

theorem J_step (s : State) (a : Step) (h1 : I1 s) (h : J s) : J (step s a) := by
  obtain ⟨j1, j2, j3, j4⟩ := h
  rcases step_cases s a with ⟨hp, hr, he, hn⟩ | ⟨A, B, hp, hp', hn, hr, he⟩ | ⟨A, B, fd, hp, hp', hn, he, hr⟩ |
    ⟨hp, hn, hre⟩ | ⟨A, M, B, hp, hp', hn, he, hr⟩ | ⟨hp, hr, he, hn⟩
  · unfold J
    rw [hp, hr, he, hn]
    exact ⟨j1, j2, j3, j4⟩
  · have hfresh : s.nextFd ∉ pending s := fun hm => Nat.lt_irrefl _ (pending_lt s h1 _ hm)
    have hold : ∀ a ∈ s.enrolled, List.count a s.results + List.count a (A ++ [s.nextFd] ++ B) = 1 := by
      intro a ha
      have h4 := j4 a ha
      have hne : s.nextFd ≠ a := fun e => Nat.lt_irrefl _ (e ▸ j1 a ha)
      rw [hp] at h4
      simp only [List.count_append, count_singleton_ne hne] at h4 ⊢
      omega
    rcases he with he | he
    · unfold J
      rw [hp', hn, hr, he]
      exact ⟨fun a ha => Nat.lt_succ_of_lt (j1 a ha), j2, j3, hold⟩
    · unfold J
      rw [hp', hn, hr, he]
      refine ⟨?_, ?_, fun a ha => List.mem_append_left _ (j3 a ha), ?_⟩
      · intro a ha
        rcases List.mem_append.mp ha with ha | ha
        · exact Nat.lt_succ_of_lt (j1 a ha)
        · rw [List.mem_singleton.mp ha]; exact Nat.lt_succ_self _
      · rw [List.nodup_append]
        refine ⟨j2, by simp, ?_⟩
        intro a ha b hb e
        rw [List.mem_singleton.mp hb] at e
        exact Nat.lt_irrefl _ (e ▸ j1 a ha)
      · intro a ha
        rcases List.mem_append.mp ha with ha | ha
        · exact hold a ha
        · rw [List.mem_singleton.mp ha]
          have hnr : s.nextFd ∉ s.results := fun hm => Nat.lt_irrefl _ (j1 _ (j3 _ hm))
          have c1 : List.count s.nextFd s.results = 0 := List.count_eq_zero_of_not_mem hnr
          have c2 : List.count s.nextFd (A ++ B) = 0 := by
            rw [← hp]; exact List.count_eq_zero_of_not_mem hfresh
          simp only [List.count_append, List.count_singleton, beq_self_eq_true, if_true] at c2 ⊢
          omega
  · unfold J
    rw [hp', hn, he]
    refine ⟨j1, j2, ?_, ?_⟩
    · intro a ha
      rw [hr] at ha
      split at ha
      · rename_i hfd
        rcases List.mem_append.mp ha with ha | ha
        · exact j3 a ha
        · rw [List.mem_singleton.mp ha]; exact hfd
      · exact j3 a ha
    · intro a ha
      have h4 := j4 a ha
      rw [hp] at h4
      rw [hr]
      by_cases hfa : fd = a
      · subst hfa
        simp only [ha, if_true, List.count_append, List.count_cons, List.count_nil, beq_self_eq_true] at h4 ⊢
        omega
      · have hb : (fd == a) = false := by simpa using hfa
        split
        · simp only [List.count_append, List.count_cons, count_singleton_ne hfa, hb, Bool.false_eq_true,
            if_false] at h4 ⊢
          omega
        · simp only [List.count_append, List.count_cons, hb, Bool.false_eq_true, if_false] at h4 ⊢
          omega
  · -- a fresh descriptor is aborted at once (closed; answered with an error if it was an enrolment)
    have hfresh : s.nextFd ∉ pending s := fun hm => Nat.lt_irrefl _ (pending_lt s h1 _ hm)
    rcases hre with ⟨hr, he⟩ | ⟨hr, he⟩
    · unfold J
      rw [hp, hn, hr, he]
      exact ⟨fun a ha => Nat.lt_succ_of_lt (j1 a ha), j2, j3, j4⟩
    · unfold J
      rw [hp, hn, hr, he]
      refine ⟨?_, ?_, ?_, ?_⟩
      · intro a ha
        rcases List.mem_append.mp ha with ha | ha
        · exact Nat.lt_succ_of_lt (j1 a ha)
        · rw [List.mem_singleton.mp ha]; exact Nat.lt_succ_self _
      · rw [List.nodup_append]
        refine ⟨j2, by simp, ?_⟩
        intro a ha b hb e
        rw [List.mem_singleton.mp hb] at e
        exact Nat.lt_irrefl _ (e ▸ j1 a ha)
      · intro a ha
        rcases List.mem_append.mp ha with ha | ha
        · exact List.mem_append_left _ (j3 a ha)
        · exact List.mem_append_right _ ha
      · intro a ha
        rcases List.mem_append.mp ha with ha | ha
        · have h4 := j4 a ha
          have hne : s.nextFd ≠ a := fun e => Nat.lt_irrefl _ (e ▸ j1 a ha)
          simp only [List.count_append, count_singleton_ne hne] at h4 ⊢
          omega
        · rw [List.mem_singleton.mp ha]
          have hnr : s.nextFd ∉ s.results := fun hm => Nat.lt_irrefl _ (j1 _ (j3 _ hm))
          have c1 : List.count s.nextFd s.results = 0 := List.count_eq_zero_of_not_mem hnr
          have c2 : List.count s.nextFd (pending s) = 0 := List.count_eq_zero_of_not_mem hfresh
          simp only [List.count_append, List.count_singleton, beq_self_eq_true, if_true]
          omega
  · -- a loop exits: the registrations M in its queue are aborted, the enrolled ones among them answered
    unfold J
    rw [hp', hn, he, hr]
    refine ⟨j1, j2, ?_, ?_⟩
    · intro a ha
      rcases List.mem_append.mp ha with ha | ha
      · exact j3 a ha
      · have := (List.mem_filter.mp ha).2
        simpa using this
    · intro a ha
      have h4 := j4 a ha
      rw [hp] at h4
      have hc : List.count a (M.filter (· ∈ s.enrolled)) = List.count a M :=
        List.count_filter (by simpa using ha)
      simp only [List.count_append, hc] at h4 ⊢
      omega
  · -- the pending descriptors are permuted
    unfold J
    rw [hr, he, hn]
    refine ⟨j1, j2, j3, fun a ha => ?_⟩
    rw [hp.count_eq a]
    exact j4 a ha

theorem J_init (n : Nat) : J (init n) := by
  refine ⟨?_, ?_, ?_, ?_⟩
  · intro a ha; simp [init] at ha
  · simp [init]
  · intro a ha; simp [init] at ha
  · intro a ha; simp [init] at ha

theorem InvJ_run (steps : List Step) : ∀ s, Inv s → J s → J (run s steps) := by
  induction steps with
  | nil => intro s _ h; exact h
  | cons a rest ih => intro s hi h; exact ih (step s a) (Inv_step s a hi) (J_step s a hi.1 h)

theorem J_of_reachable (s : State) (h : Reachable s) : J s := by
  obtain ⟨n, steps, rfl⟩ := h
  exact InvJ_run steps _ (Inv_init n) (J_init n)

theorem results_at_most_once (s : State) (h : Reachable s) :
    s.results.Nodup ∧ (∀ fd ∈ s.results, fd ∈ s.enrolled) ∧ s.enrolled.Nodup := by
  obtain ⟨_, j2, j3, j4⟩ := J_of_reachable s h
  refine ⟨?_, j3, j2⟩
  rw [List.nodup_iff_count]
  intro a
  by_cases ha : a ∈ s.results
  · have := j4 a (j3 a ha); omega
  · rw [List.count_eq_zero_of_not_mem ha]; exact Nat.zero_le _

theorem unanswered_are_pending (s : State) (h : Reachable s) :
    ∀ fd, fd ∈ unanswered s ↔ (fd ∈ s.enrolled ∧ fd ∈ pending s) := by
  obtain ⟨_, _, _, j4⟩ := J_of_reachable s h
  intro fd
  simp only [unanswered, List.mem_filter, decide_eq_true_eq]
  constructor
  · rintro ⟨he, hnr⟩
    refine ⟨he, ?_⟩
    have h4 := j4 fd he
    rw [List.count_eq_zero_of_not_mem hnr] at h4
    exact List.count_pos_iff.mp (by omega)
  · rintro ⟨he, hp⟩
    refine ⟨he, ?_⟩
    intro hr
    have h4 := j4 fd he
    have c1 : 0 < List.count fd s.results := List.count_pos_iff.mpr hr
    have c2 : 0 < List.count fd (pending s) := List.count_pos_iff.mpr hp
    omega

theorem no_enrolment_after_flag (s : State) (hs : s.inShutdown = true) (l : Nat) : step s (.enroll l) = s := by
  simp only [step, hs]
  split
  · simp
  · rfl

/-- `pendingOf x = []` (and `x.conns = []`) for a loop that has exited. NOTE: the stronger `x.queue = []` is FALSE
for the model, see `pending_only_on_running_false` below: `postSentinels` appends the shutdown sentinel to the queue
of every loop, the exited ones included. -/
theorem exited_loop_empty (s : State) (h : Reachable s) (l : Nat) (x : Loop)
    (hx : s.loops[l]? = some x) (hr : x.running = false) : pendingOf x = [] ∧ x.conns = [] :=
  (Inv_of_reachable s h).2.1 x (List.mem_of_getElem? hx) hr

/-- the whole queue need not be empty: after `action 0, postSentinels` loop 0 has
exited and its queue is `[sentinel]` -/
theorem pending_only_on_running_false :
    ¬ ∀ (s : State), Reachable s → ∀ (l : Nat) (x : Loop), s.loops[l]? = some x → x.running = false →
      x.queue = [] ∧ x.conns = [] := by
  intro hall
  have := hall (run (init 1) [.action 0, .postSentinels]) ⟨1, _, rfl⟩ 0
    { running := false, queue := [Task.sentinel], conns := [] } (by decide) rfl
  exact absurd this.1 (by decide)

/-- what holds of an exited loop (its queue may still hold the shutdown sentinel, see above) -/
theorem pending_only_on_running (s : State) (h : Reachable s) (l : Nat) (x : Loop)
    (hx : s.loops[l]? = some x) (hr : x.running = false) : pendingOf x = [] ∧ x.conns = [] :=
  exited_loop_empty s h l x hx hr

theorem final_no_leak (s : State) (h : Reachable s) (hf : Final s = true) :
    unclosed s = [] ∧ s.closed.Perm (created s) := by
  have hi := Inv_of_reachable s h
  have hpart := partition s h
  rw [registered_final s hi hf, pending_final s hi hf] at hpart
  simp only [List.nil_append] at hpart
  refine ⟨?_, hpart⟩
  unfold unclosed
  rw [List.filter_eq_nil_iff]
  intro a ha
  simpa using hpart.mem_iff.mpr ha

theorem final_all_answered (s : State) (h : Reachable s) (hf : Final s = true) : unanswered s = [] := by
  rw [List.eq_nil_iff_forall_not_mem]
  intro fd hfd
  have hp := ((unanswered_are_pending s h fd).mp hfd).2
  rw [pending_final s (Inv_of_reachable s h) hf] at hp
  cases hp

/-! ## failed registrations -/

/-- a failed registration has been answered and closed and never opened; every other result belongs to a
descriptor that was opened -/
def K (s : State) : Prop :=
  (∀ a ∈ s.failed, a ∈ s.results ∧ a ∈ s.closed ∧ a ∉ s.opened.map Prod.fst) ∧
  (∀ a ∈ s.results, a ∉ s.failed → a ∈ s.opened.map Prod.fst)

theorem count_range_le_one (a n : Nat) : List.count a (List.range n) ≤ 1 :=
  List.nodup_iff_count.mp List.nodup_range a

theorem pending_not_closed (s : State) (h : I1 s) (a : Nat) (ha : a ∈ pending s) : a ∉ s.closed := by
  intro hc
  have h1 := h.1 a
  have := count_range_le_one a s.nextFd
  have c1 : 0 < List.count a (pending s) := List.count_pos_iff.mpr ha
  have c2 : 0 < List.count a s.closed := List.count_pos_iff.mpr hc
  simp only [obs, List.count_append] at h1
  omega

theorem pending_not_opened (s : State) (h : I1 s) (a : Nat) (ha : a ∈ pending s) : a ∉ s.opened.map Prod.fst := by
  intro ho
  have h1 := h.1 a
  have h2 := h.2 a
  have := count_range_le_one a s.nextFd
  have c1 : 0 < List.count a (pending s) := List.count_pos_iff.mpr ha
  have c2 : 0 < List.count a (s.opened.map Prod.fst) := List.count_pos_iff.mpr ho
  simp only [obs, List.count_append] at h1 h2
  omega

theorem opened_lt (s : State) (h : I1 s) (a : Nat) (ha : a ∈ s.opened.map Prod.fst) : a < s.nextFd := by
  have h1 := h.1 a
  have h2 := h.2 a
  have c2 : 0 < List.count a (s.opened.map Prod.fst) := List.count_pos_iff.mpr ha
  simp only [obs, List.count_append] at h1 h2
  have : 0 < List.count a (List.range s.nextFd) := by omega
  exact List.mem_range.mp (List.count_pos_iff.mp this)

/-- K is kept when only `closed` grows -/
theorem K_closed_mono (s s' : State) (hr : s'.results = s.results) (hf : s'.failed = s.failed)
    (ho : s'.opened = s.opened) (hc : ∀ a ∈ s.closed, a ∈ s'.closed) (h : K s) : K s' := by
  unfold K
  rw [hr, hf, ho]
  exact ⟨fun a ha => ⟨(h.1 a ha).1, hc a (h.1 a ha).2.1, (h.1 a ha).2.2⟩, h.2⟩

theorem K_exitLoop (s : State) (l : Nat) (x y : Loop) (hx : s.loops[l]? = some x)
    (hp : pendingOf y = pendingOf x) (hc : y.conns = x.conns) (h1 : I1 s) (h : K s) : K (exitLoop s l y) := by
  obtain ⟨A, B, A', B', e1, _, _, _, e5, e6, e7⟩ := exitLoop_spec s l x y hx hp hc
  have e8 : (exitLoop s l y).opened = s.opened := rfl
  unfold K
  rw [e5, e6, e7, e8]
  refine ⟨?_, ?_⟩
  · intro a ha
    rcases List.mem_append.mp ha with ha | ha
    · exact ⟨List.mem_append_left _ (h.1 a ha).1,
        List.mem_append_left _ (List.mem_append_left _ (h.1 a ha).2.1), (h.1 a ha).2.2⟩
    · have hm : a ∈ pendingOf x := (List.mem_filter.mp ha).1
      have hps : a ∈ pending s := by
        rw [e1]; exact List.mem_append_left _ (List.mem_append_right _ hm)
      exact ⟨List.mem_append_right _ ha, List.mem_append_right _ hm, pending_not_opened s h1 a hps⟩
  · intro a ha hnf
    rcases List.mem_append.mp ha with ha | ha
    · exact h.2 a ha (fun hf => hnf (List.mem_append_left _ hf))
    · exact absurd (List.mem_append_right _ ha) hnf

theorem K_step (s : State) (a : Step) (h1 : I1 s) (h : K s) : K (step s a) := by
  cases a with
  | accept l =>
    simp only [step]
    split
    · rename_i x hx
      split
      · split
        · exact h
        · exact K_closed_mono s _ rfl rfl rfl (fun a ha => List.mem_append_left _ ha) h
      · exact h
    · exact h
  | exec l =>
    simp only [step]
    split
    · rename_i x hx
      split
      · split
        · rename_i fd q hq
          obtain ⟨A, B, _, _, hp, _, _⟩ := I1_setLoop_cases s l x hx
          have hfd : fd ∈ pending s := by
            rw [hp, pendingOf_pop_register x fd q x.running x.conns hq]
            exact List.mem_append_left _ (List.mem_append_right _ List.mem_cons_self)
          have hnf : fd ∉ s.failed := fun hf => pending_not_closed s h1 fd hfd (h.1 fd hf).2.1
          refine ⟨?_, ?_⟩
          · intro a ha
            have ha' : a ∈ s.failed := ha
            refine ⟨?_, (h.1 a ha').2.1, ?_⟩
            · show a ∈ (if fd ∈ s.enrolled then s.results ++ [fd] else s.results)
              split
              · exact List.mem_append_left _ (h.1 a ha').1
              · exact (h.1 a ha').1
            · show a ∉ (s.opened ++ [(fd, l)]).map Prod.fst
              simp only [List.map_append, List.map_cons, List.map_nil, List.mem_append, List.mem_singleton]
              rintro (ho | ho)
              · exact (h.1 a ha').2.2 ho
              · exact hnf (ho ▸ ha')
          · intro a ha hnfa
            have ha' : a ∈ (if fd ∈ s.enrolled then s.results ++ [fd] else s.results) := ha
            have hnfa' : a ∉ s.failed := hnfa
            show a ∈ (s.opened ++ [(fd, l)]).map Prod.fst
            simp only [List.map_append, List.map_cons, List.map_nil, List.mem_append, List.mem_singleton]
            split at ha'
            · rcases List.mem_append.mp ha' with hr | hr
              · exact Or.inl (h.2 a hr hnfa')
              · exact Or.inr (List.mem_singleton.mp hr)
            · exact Or.inl (h.2 a ha' hnfa')
        · rename_i q hq
          exact K_exitLoop s l x _ hx (pendingOf_pop_sentinel x q x.running x.conns hq).symm rfl h1 h
        · exact h
      · exact h
    · exact h
  | action l =>
    simp only [step]
    split
    · rename_i x hx
      split
      · exact K_exitLoop s l x x hx rfl rfl h1 h
      · exact h
    · exact h
  | peerClose l fd =>
    simp only [step]
    split
    · split
      · exact K_closed_mono s _ rfl rfl rfl (fun a ha => List.mem_append_left _ ha) h
      · exact h
    · exact h
  | requestStop => exact h
  | postSentinels =>
    simp only [step]
    split
    · exact h
    · exact h
  | acceptorExit =>
    simp only [step]
    split
    · exact h
    · exact h
  | enroll l =>
    simp only [step]
    split
    · split
      · split
        · exact h
        · have hno : s.nextFd ∉ s.opened.map Prod.fst := fun ho => Nat.lt_irrefl _ (opened_lt s h1 _ ho)
          refine ⟨?_, ?_⟩
          · intro a ha
            have ha' : a ∈ s.failed ++ [s.nextFd] := ha
            show a ∈ s.results ++ [s.nextFd] ∧ a ∈ s.closed ++ [s.nextFd] ∧ a ∉ s.opened.map Prod.fst
            rcases List.mem_append.mp ha' with hf | hf
            · exact ⟨List.mem_append_left _ (h.1 a hf).1, List.mem_append_left _ (h.1 a hf).2.1, (h.1 a hf).2.2⟩
            · rw [List.mem_singleton.mp hf]
              exact ⟨List.mem_append_right _ (List.mem_singleton.mpr rfl),
                List.mem_append_right _ (List.mem_singleton.mpr rfl), hno⟩
          · intro a ha hnf
            have ha' : a ∈ s.results ++ [s.nextFd] := ha
            have hnf' : a ∉ s.failed ++ [s.nextFd] := hnf
            show a ∈ s.opened.map Prod.fst
            rcases List.mem_append.mp ha' with hr | hr
            · exact h.2 a hr (fun hf => hnf' (List.mem_append_left _ hf))
            · exact absurd (List.mem_append_right _ hr) hnf'
      · exact h
    · exact h
  | setFlag =>
    simp only [step]
    split
    · exact h
    · exact h
  | reorder l fd =>
    simp only [step]
    split
    · split
      · exact h
      · exact h
    · exact h

theorem K_init (n : Nat) : K (init n) :=
  ⟨fun a ha => by simp [init] at ha, fun a ha => by simp [init] at ha⟩

theorem InvK_run (steps : List Step) : ∀ s, Inv s → K s → K (run s steps) := by
  induction steps with
  | nil => intro s _ h; exact h
  | cons a rest ih => intro s hi h; exact ih (step s a) (Inv_step s a hi) (K_step s a hi.1 h)

theorem failed_results (s : State) (h : Reachable s) :
    (∀ fd ∈ s.failed, fd ∈ s.results ∧ fd ∈ s.closed ∧ fd ∉ s.opened.map Prod.fst) ∧
    (∀ fd ∈ s.results, fd ∉ s.failed → fd ∈ s.opened.map Prod.fst) := by
  obtain ⟨n, steps, rfl⟩ := h
  exact InvK_run steps _ (Inv_init n) (K_init n)

end Gnet.Proofs.Handover
