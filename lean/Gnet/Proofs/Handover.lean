import Gnet.Model.Handover
namespace Gnet.Proofs.Handover
open Gnet.Handover

/-! ## list helpers -/

/-- replacing the element at a valid index of `L` changes exactly one block of `(L.map f).flatten` -/
theorem flat_set {α : Type} (f : α → List Nat) : ∀ (L : List α) (l : Nat) (x : α), L[l]? = some x →
    ∃ A B, (L.map f).flatten = A ++ f x ++ B ∧ ∀ y, ((L.set l y).map f).flatten = A ++ f y ++ B
  | [], l, x, h => by simp at h
  | z :: L, 0, x, h => by
    simp at h; subst h
    exact ⟨[], (L.map f).flatten, by simp, by intro y; simp⟩
  | z :: L, l+1, x, h => by
    simp at h
    obtain ⟨A, B, h1, h2⟩ := flat_set f L l x h
    exact ⟨f z ++ A, B, by simp [h1], by intro y; simp only [List.set_cons_succ, List.map_cons, List.flatten_cons, h2, List.append_assoc]⟩

theorem pendingOf_push_register (x : Loop) (fd : Nat) :
    pendingOf { x with queue := x.queue ++ [Task.register fd] } = pendingOf x ++ [fd] := by
  simp [pendingOf, List.filterMap_append]

theorem pendingOf_push_sentinel (x : Loop) :
    pendingOf { x with queue := x.queue ++ [Task.sentinel] } = pendingOf x := by
  simp [pendingOf, List.filterMap_append]

theorem pendingOf_pop_register (x : Loop) (fd : Nat) (q : List Task) (r : Bool) (c : List Nat)
    (h : x.queue = Task.register fd :: q) :
    pendingOf x = fd :: pendingOf { running := r, queue := q, conns := c } := by
  simp [pendingOf, h]

theorem pendingOf_pop_sentinel (x : Loop) (q : List Task) (r : Bool) (c : List Nat)
    (h : x.queue = Task.sentinel :: q) :
    pendingOf x = pendingOf { running := r, queue := q, conns := c } := by
  simp [pendingOf, h]

theorem pendingOf_queue (x : Loop) (r : Bool) (c : List Nat) :
    pendingOf { running := r, queue := x.queue, conns := c } = pendingOf x := rfl

/-! ## what each step does, as a relation on the observed quantities -/

/-- the observed quantities of a state -/
structure Obs where
  P : List Nat        -- pending
  R : List Nat        -- registered
  C : List Nat        -- closed
  n : Nat             -- nextFd
  O : List Nat        -- opened descriptors

def obs (s : State) : Obs :=
  { P := pending s, R := registered s, C := s.closed, n := s.nextFd, O := s.opened.map Prod.fst }

/-- the counting invariant: ownership partition, and OnOpen descriptors are the registered or closed ones -/
def Good (o : Obs) : Prop :=
  (∀ a, List.count a (o.P ++ o.R ++ o.C) = List.count a (List.range o.n)) ∧
  (∀ a, List.count a o.O = List.count a (o.R ++ o.C))

def I1 (s : State) : Prop := Good (obs s)

/-- a loop that left Polling has no registered connections -/
def I2 (s : State) : Prop := ∀ x ∈ s.loops, x.running = false → x.conns = []

def I3 (s : State) : Prop := s.assigned.map Prod.fst = List.range s.nextFd

/-- a registration waiting in the queue of loop l was assigned to loop l -/
def I4 (s : State) : Prop :=
  ∀ l x, s.loops[l]? = some x → ∀ fd, Task.register fd ∈ x.queue → (fd, l) ∈ s.assigned

def I5 (s : State) : Prop := ∀ p ∈ s.opened, p ∈ s.assigned

/-! ### I1 -/

theorem I1_setLoop_cases (s : State) (l : Nat) (x : Loop) (hx : s.loops[l]? = some x) :
    ∃ A B A' B', pending s = A ++ pendingOf x ++ B ∧ registered s = A' ++ x.conns ++ B' ∧
      ∀ y, ((s.loops.set l y).map pendingOf).flatten = A ++ pendingOf y ++ B ∧
           ((s.loops.set l y).map (·.conns)).flatten = A' ++ y.conns ++ B' := by
  obtain ⟨A, B, h1, h2⟩ := flat_set pendingOf s.loops l x hx
  obtain ⟨A', B', h1', h2'⟩ := flat_set (·.conns) s.loops l x hx
  exact ⟨A, B, A', B', h1, h1', fun y => ⟨h2 y, h2' y⟩⟩

theorem I1_step (s : State) (a : Step) (h : I1 s) : I1 (step s a) := by
  cases a with
  | accept l =>
    simp only [step]
    split
    · rename_i x hx
      split
      · obtain ⟨A, B, A', B', hp, hr, hy⟩ := I1_setLoop_cases s l x hx
        obtain ⟨h1, h2⟩ := h
        simp only [obs, hp, hr] at h1 h2
        refine ⟨?_, ?_⟩
        · intro a
          have := h1 a
          simp only [obs, pending, registered, setLoop, hy, pendingOf_push_register, List.range_succ,
            List.count_append, List.count_singleton] at this ⊢
          omega
        · intro a
          have := h2 a
          simp only [obs, pending, registered, setLoop, hy, List.count_append] at this ⊢
          omega
      · exact h
    · exact h
  | exec l =>
    simp only [step]
    split
    · rename_i x hx
      split
      · split
        · rename_i fd q hq
          obtain ⟨A, B, A', B', hp, hr, hy⟩ := I1_setLoop_cases s l x hx
          obtain ⟨h1, h2⟩ := h
          simp only [obs, hp, hr] at h1 h2
          rw [pendingOf_pop_register x fd q x.running (x.conns ++ [fd]) hq] at h1
          refine ⟨?_, ?_⟩
          · intro a
            have := h1 a
            simp only [obs, pending, registered, setLoop, hy, List.count_append, List.count_cons,
              List.count_nil] at this ⊢
            omega
          · intro a
            have := h2 a
            simp only [obs, pending, registered, setLoop, hy, List.count_append, List.map_append,
              List.map_cons, List.map_nil, List.count_singleton] at this ⊢
            omega
        · rename_i q hq
          obtain ⟨A, B, A', B', hp, hr, hy⟩ := I1_setLoop_cases s l x hx
          obtain ⟨h1, h2⟩ := h
          simp only [obs, hp, hr] at h1 h2
          rw [pendingOf_pop_sentinel x q false [] hq] at h1
          refine ⟨?_, ?_⟩
          · intro a
            have := h1 a
            simp only [obs, pending, registered, setLoop, exitLoop, hy, List.count_append,
              List.count_nil] at this ⊢
            omega
          · intro a
            have := h2 a
            simp only [obs, pending, registered, setLoop, exitLoop, hy, List.count_append,
              List.count_nil] at this ⊢
            omega
        · exact h
      · exact h
    · exact h
  | action l =>
    simp only [step]
    split
    · rename_i x hx
      split
      · obtain ⟨A, B, A', B', hp, hr, hy⟩ := I1_setLoop_cases s l x hx
        obtain ⟨h1, h2⟩ := h
        simp only [obs, hp, hr] at h1 h2
        rw [← pendingOf_queue x false []] at h1
        refine ⟨?_, ?_⟩
        · intro a
          have := h1 a
          simp only [obs, pending, registered, setLoop, exitLoop, hy, List.count_append,
            List.count_nil] at this ⊢
          omega
        · intro a
          have := h2 a
          simp only [obs, pending, registered, setLoop, exitLoop, hy, List.count_append,
            List.count_nil] at this ⊢
          omega
      · exact h
    · exact h
  | peerClose l fd =>
    simp only [step]
    split
    · rename_i x hx
      split
      · rename_i hg
        obtain ⟨A, B, A', B', hp, hr, hy⟩ := I1_setLoop_cases s l x hx
        obtain ⟨h1, h2⟩ := h
        simp only [obs, hp, hr] at h1 h2
        rw [← pendingOf_queue x x.running (x.conns.erase fd)] at h1
        have hpos : 0 < List.count fd x.conns := List.count_pos_iff.mpr hg.2
        refine ⟨?_, ?_⟩
        · intro a
          have := h1 a
          simp only [obs, pending, registered, setLoop, hy, List.count_append, List.count_erase,
            List.count_singleton] at this ⊢
          by_cases hfa : fd = a
          · subst hfa; simp only [beq_self_eq_true, if_true] at this ⊢; omega
          · have hb : (fd == a) = false := by simpa using hfa
            simp only [hb] at this ⊢
            simp only [Bool.false_eq_true, if_false] at this ⊢
            omega
        · intro a
          have := h2 a
          simp only [obs, pending, registered, setLoop, hy, List.count_append, List.count_erase,
            List.count_singleton] at this ⊢
          by_cases hfa : fd = a
          · subst hfa; simp only [beq_self_eq_true, if_true] at this ⊢; omega
          · have hb : (fd == a) = false := by simpa using hfa
            simp only [hb] at this ⊢
            simp only [Bool.false_eq_true, if_false] at this ⊢
            omega
      · exact h
    · exact h
  | requestStop => exact h
  | postSentinels =>
    simp only [step]
    split
    · have e1 : (s.loops.map fun x => ({ x with queue := x.queue ++ [Task.sentinel] } : Loop)).map pendingOf
          = s.loops.map pendingOf := by
        rw [List.map_map]; apply List.map_congr_left; intro x _; exact pendingOf_push_sentinel x
      have e2 : (s.loops.map fun x => ({ x with queue := x.queue ++ [Task.sentinel] } : Loop)).map (·.conns)
          = s.loops.map (·.conns) := by
        rw [List.map_map]; apply List.map_congr_left; intro x _; rfl
      unfold I1 obs pending registered at h ⊢
      simp only [e1, e2]
      exact h
    · exact h
  | acceptorExit =>
    simp only [step]
    split
    · exact h
    · exact h
  | enroll l =>
    simp only [step]
    split
    · rename_i x hx
      split
      · obtain ⟨A, B, A', B', hp, hr, hy⟩ := I1_setLoop_cases s l x hx
        obtain ⟨h1, h2⟩ := h
        simp only [obs, hp, hr] at h1 h2
        refine ⟨?_, ?_⟩
        · intro a
          have := h1 a
          simp only [obs, pending, registered, setLoop, hy, pendingOf_push_register, List.range_succ,
            List.count_append, List.count_singleton] at this ⊢
          omega
        · intro a
          have := h2 a
          simp only [obs, pending, registered, setLoop, hy, List.count_append] at this ⊢
          omega
      · exact h
    · exact h
  | setFlag =>
    simp only [step]
    split
    · exact h
    · exact h

/-! ### I2 -/

theorem I2_set (s : State) (l : Nat) (y : Loop) (h : I2 s) (hy : y.running = false → y.conns = []) :
    ∀ x ∈ s.loops.set l y, x.running = false → x.conns = [] := by
  intro x hx
  rcases List.mem_or_eq_of_mem_set hx with hm | he
  · exact h x hm
  · subst he; exact hy

theorem I2_step (s : State) (a : Step) (h : I2 s) : I2 (step s a) := by
  cases a with
  | accept l =>
    simp only [step]
    split
    · rename_i x hx
      split
      · exact I2_set s l _ h (fun hr => h x (List.mem_of_getElem? hx) hr)
      · exact h
    · exact h
  | exec l =>
    simp only [step]
    split
    · rename_i x hx
      split
      · rename_i hrun
        split
        · exact I2_set s l _ h (fun hr => by simp [hrun] at hr)
        · exact I2_set s l _ h (fun _ => rfl)
        · exact h
      · exact h
    · exact h
  | action l =>
    simp only [step]
    split
    · split
      · exact I2_set s l _ h (fun _ => rfl)
      · exact h
    · exact h
  | peerClose l fd =>
    simp only [step]
    split
    · rename_i x hx
      split
      · rename_i hg
        exact I2_set s l _ h (fun hr => by simp [hg.1] at hr)
      · exact h
    · exact h
  | requestStop => exact h
  | postSentinels =>
    simp only [step]
    split
    · intro x hx
      simp only [List.mem_map] at hx
      obtain ⟨z, hz, rfl⟩ := hx
      exact h z hz
    · exact h
  | acceptorExit =>
    simp only [step]
    split
    · exact h
    · exact h
  | enroll l =>
    simp only [step]
    split
    · rename_i x hx
      split
      · exact I2_set s l _ h (fun hr => h x (List.mem_of_getElem? hx) hr)
      · exact h
    · exact h
  | setFlag =>
    simp only [step]
    split
    · exact h
    · exact h

/-! ### I3 -/

theorem I3_step (s : State) (a : Step) (h : I3 s) : I3 (step s a) := by
  cases a with
  | accept l =>
    simp only [step]
    split
    · split
      · unfold I3 at h ⊢
        simp only [List.map_append, List.map_cons, List.map_nil, h, List.range_succ]
      · exact h
    · exact h
  | exec l =>
    simp only [step]
    split
    · split
      · split
        · exact h
        · exact h
        · exact h
      · exact h
    · exact h
  | action l =>
    simp only [step]
    split
    · split
      · exact h
      · exact h
    · exact h
  | peerClose l fd =>
    simp only [step]
    split
    · split
      · exact h
      · exact h
    · exact h
  | requestStop => exact h
  | postSentinels =>
    simp only [step]
    split
    · exact h
    · exact h
  | acceptorExit =>
    simp only [step]
    split
    · exact h
    · exact h
  | enroll l =>
    simp only [step]
    split
    · split
      · unfold I3 at h ⊢
        simp only [List.map_append, List.map_cons, List.map_nil, h, List.range_succ]
      · exact h
    · exact h
  | setFlag =>
    simp only [step]
    split
    · exact h
    · exact h

/-! ### I4 -/

/-- replacing loop l by a loop whose queue only holds registrations already accounted for keeps I4 -/
theorem I4_set (s : State) (l : Nat) (y : Loop) (asg : List (Nat × Nat)) (h : I4 s)
    (hmono : ∀ p ∈ s.assigned, p ∈ asg)
    (hy : ∀ fd, Task.register fd ∈ y.queue → (fd, l) ∈ asg) :
    ∀ l' x, (s.loops.set l y)[l']? = some x → ∀ fd, Task.register fd ∈ x.queue → (fd, l') ∈ asg := by
  intro l' x hx fd hfd
  rw [List.getElem?_set] at hx
  by_cases hl : l = l'
  · subst hl
    simp only [if_true] at hx
    split at hx
    · injection hx with hx; subst hx; exact hy fd hfd
    · cases hx
  · simp only [hl, if_false] at hx
    exact hmono _ (h l' x hx fd hfd)

theorem I4_step (s : State) (a : Step) (h : I4 s) : I4 (step s a) := by
  cases a with
  | accept l =>
    simp only [step]
    split
    · rename_i x hx
      split
      · refine I4_set s l _ (s.assigned ++ [(s.nextFd, l)]) h (fun p hp => List.mem_append_left _ hp) ?_
        intro fd hfd
        simp only [List.mem_append, List.mem_singleton] at hfd ⊢
        rcases hfd with hfd | hfd
        · exact Or.inl (h l x hx fd hfd)
        · injection hfd with hfd; subst hfd; exact Or.inr rfl
      · exact h
    · exact h
  | exec l =>
    simp only [step]
    split
    · rename_i x hx
      split
      · split
        · rename_i fd q hq
          refine I4_set s l _ s.assigned h (fun p hp => hp) ?_
          intro fd' hfd'
          exact h l x hx fd' (by rw [hq]; exact List.mem_cons_of_mem _ hfd')
        · rename_i q hq
          refine I4_set s l _ s.assigned h (fun p hp => hp) ?_
          intro fd' hfd'
          exact h l x hx fd' (by rw [hq]; exact List.mem_cons_of_mem _ hfd')
        · exact h
      · exact h
    · exact h
  | action l =>
    simp only [step]
    split
    · rename_i x hx
      split
      · exact I4_set s l _ s.assigned h (fun p hp => hp) (fun fd hfd => h l x hx fd hfd)
      · exact h
    · exact h
  | peerClose l fd =>
    simp only [step]
    split
    · rename_i x hx
      split
      · exact I4_set s l _ s.assigned h (fun p hp => hp) (fun fd hfd => h l x hx fd hfd)
      · exact h
    · exact h
  | requestStop => exact h
  | postSentinels =>
    simp only [step]
    split
    · intro l x hx fd hfd
      simp only [List.getElem?_map, Option.map_eq_some_iff] at hx
      obtain ⟨z, hz, rfl⟩ := hx
      simp only [List.mem_append, List.mem_singleton] at hfd
      rcases hfd with hfd | hfd
      · exact h l z hz fd hfd
      · cases hfd
    · exact h
  | acceptorExit =>
    simp only [step]
    split
    · exact h
    · exact h
  | enroll l =>
    simp only [step]
    split
    · rename_i x hx
      split
      · refine I4_set s l _ (s.assigned ++ [(s.nextFd, l)]) h (fun p hp => List.mem_append_left _ hp) ?_
        intro fd hfd
        simp only [List.mem_append, List.mem_singleton] at hfd ⊢
        rcases hfd with hfd | hfd
        · exact Or.inl (h l x hx fd hfd)
        · injection hfd with hfd; subst hfd; exact Or.inr rfl
      · exact h
    · exact h
  | setFlag =>
    simp only [step]
    split
    · exact h
    · exact h

/-! ### I5 -/

theorem I5_step (s : State) (a : Step) (h4 : I4 s) (h : I5 s) : I5 (step s a) := by
  cases a with
  | accept l =>
    simp only [step]
    split
    · split
      · intro p hp
        exact List.mem_append_left _ (h p hp)
      · exact h
    · exact h
  | exec l =>
    simp only [step]
    split
    · rename_i x hx
      split
      · split
        · rename_i fd q hq
          intro p hp
          simp only [List.mem_append, List.mem_singleton] at hp
          rcases hp with hp | hp
          · exact h p hp
          · subst hp
            exact h4 l x hx fd (by rw [hq]; exact List.mem_cons_self)
        · exact h
        · exact h
      · exact h
    · exact h
  | action l =>
    simp only [step]
    split
    · split
      · exact h
      · exact h
    · exact h
  | peerClose l fd =>
    simp only [step]
    split
    · split
      · exact h
      · exact h
    · exact h
  | requestStop => exact h
  | postSentinels =>
    simp only [step]
    split
    · exact h
    · exact h
  | acceptorExit =>
    simp only [step]
    split
    · exact h
    · exact h
  | enroll l =>
    simp only [step]
    split
    · split
      · intro p hp
        exact List.mem_append_left _ (h p hp)
      · exact h
    · exact h
  | setFlag =>
    simp only [step]
    split
    · exact h
    · exact h

/-! ## the invariant holds in every reachable state -/

def Inv (s : State) : Prop := I1 s ∧ I2 s ∧ I3 s ∧ I4 s ∧ I5 s

theorem Inv_step (s : State) (a : Step) (h : Inv s) : Inv (step s a) :=
  ⟨I1_step s a h.1, I2_step s a h.2.1, I3_step s a h.2.2.1, I4_step s a h.2.2.2.1,
   I5_step s a h.2.2.2.1 h.2.2.2.2⟩

theorem Inv_run (steps : List Step) : ∀ s, Inv s → Inv (run s steps) := by
  induction steps with
  | nil => intro s h; exact h
  | cons a rest ih => intro s h; exact ih (step s a) (Inv_step s a h)

theorem Inv_init (n : Nat) : Inv (init n) := by
  refine ⟨⟨?_, ?_⟩, ?_, ?_, ?_, ?_⟩
  · intro a
    simp [obs, init, pending, registered, pendingOf]
  · intro a
    simp [obs, init, registered]
  · intro x hx hr
    simp only [init, List.mem_replicate] at hx
    rw [hx.2]
  · simp [I3, init]
  · intro l x hx fd hfd
    simp only [init, List.getElem?_replicate] at hx
    split at hx
    · injection hx with hx; subst hx; cases hfd
    · cases hx
  · intro p hp
    simp [init] at hp

theorem Inv_of_reachable (s : State) (h : Reachable s) : Inv s := by
  obtain ⟨n, steps, rfl⟩ := h
  exact Inv_run steps _ (Inv_init n)

/-! ## the theorems -/

theorem partition (s : State) (h : Reachable s) :
    (pending s ++ registered s ++ s.closed).Perm (created s) := by
  have := (Inv_of_reachable s h).1.1
  exact List.perm_iff_count.mpr this

theorem opened_assigned (s : State) (h : Reachable s) :
    (∀ p ∈ s.opened, p ∈ s.assigned) ∧ (s.opened.map Prod.fst).Nodup ∧ s.assigned.map Prod.fst = created s := by
  have hi := Inv_of_reachable s h
  refine ⟨hi.2.2.2.2, ?_, hi.2.2.1⟩
  have hp : (s.opened.map Prod.fst).Perm (registered s ++ s.closed) := List.perm_iff_count.mpr hi.1.2
  have hall : (pending s ++ registered s ++ s.closed).Nodup :=
    (partition s h).nodup_iff.mpr List.nodup_range
  rw [List.append_assoc] at hall
  exact hp.nodup_iff.mpr (List.nodup_append.mp hall).2.1

theorem step_exec_register (s : State) (l : Nat) (x : Loop) (fd : Nat) (q : List Task)
    (hx : s.loops[l]? = some x) (hr : x.running = true) (hq : x.queue = Task.register fd :: q) :
    step s (Step.exec l) =
      { setLoop s l { x with queue := q, conns := x.conns ++ [fd] } with
        opened := s.opened ++ [(fd, l)],
        results := if fd ∈ s.enrolled then s.results ++ [fd] else s.results } := by
  simp only [step, hx, hr, hq, if_true]

theorem exec_serves (l : Nat) (rest : List Task) (fd : Nat) : ∀ (pre : List Task) (s : State) (x : Loop),
    s.loops[l]? = some x → x.running = true → x.queue = pre ++ Task.register fd :: rest →
    Task.sentinel ∉ pre →
    (fd, l) ∈ (run s (List.replicate (pre.length + 1) (Step.exec l))).opened := by
  intro pre
  induction pre with
  | nil =>
    intro s x hx hr hq _
    simp only [List.nil_append] at hq
    simp only [List.length_nil, Nat.zero_add, List.replicate_one, run,
      step_exec_register s l x fd rest hx hr hq]
    exact List.mem_append_right _ (List.mem_singleton.mpr rfl)
  | cons t pre' ih =>
    intro s x hx hr hq hns
    cases t with
    | sentinel => exact absurd List.mem_cons_self hns
    | register fd' =>
      simp only [List.cons_append] at hq
      simp only [List.length_cons, List.replicate_succ (n := pre'.length + 1), run,
        step_exec_register s l x fd' _ hx hr hq]
      refine ih _ { x with queue := pre' ++ Task.register fd :: rest, conns := x.conns ++ [fd'] } ?_ hr rfl
        (fun hm => hns (List.mem_cons_of_mem _ hm))
      have hl : l < s.loops.length := by
        rcases Nat.lt_or_ge l s.loops.length with h | h
        · exact h
        · rw [List.getElem?_eq_none h] at hx; cases hx
      simp only [setLoop, List.getElem?_set, if_true, hl]

theorem running_loop_serves (s : State) (l : Nat) (x : Loop) (hx : s.loops[l]? = some x) (hr : x.running = true)
    (pre rest : List Task) (fd : Nat) (hq : x.queue = pre ++ Task.register fd :: rest) (hns : Task.sentinel ∉ pre) :
    (fd, l) ∈ (run s (List.replicate (pre.length + 1) (Step.exec l))).opened :=
  exec_serves l rest fd pre s x hx hr hq hns

theorem registered_final (s : State) (hi : Inv s) (hf : Final s = true) : registered s = [] := by
  simp only [Final, Bool.and_eq_true, List.all_eq_true, Bool.not_eq_true'] at hf
  unfold registered
  rw [List.flatten_eq_nil_iff]
  intro c hc
  simp only [List.mem_map] at hc
  obtain ⟨x, hx, rfl⟩ := hc
  exact hi.2.1 x hx (hf.2 x hx)

theorem final_unclosed (s : State) (h : Reachable s) (hf : Final s = true) :
    ∀ fd, fd ∈ unclosed s ↔ fd ∈ pending s := by
  have hi := Inv_of_reachable s h
  have hpart := partition s h
  rw [registered_final s hi hf, List.append_nil] at hpart
  have hnd : (pending s ++ s.closed).Nodup := hpart.nodup_iff.mpr List.nodup_range
  intro fd
  simp only [unclosed, List.mem_filter, decide_eq_true_eq]
  constructor
  · rintro ⟨hc, hnc⟩
    have := hpart.mem_iff.mpr hc
    rcases List.mem_append.mp this with hm | hm
    · exact hm
    · exact absurd hm hnc
  · intro hp
    refine ⟨hpart.mem_iff.mp (List.mem_append_left _ hp), ?_⟩
    intro hc
    exact (List.nodup_append.mp hnd).2.2 fd hp fd hc rfl

theorem leak_by_action :
    let s := run (init 1) [.accept 0, .accept 0, .exec 0, .action 0, .postSentinels, .acceptorExit]
    Final s = true ∧ unclosed s = [1] := by
  decide

theorem leak_by_stop :
    let s := run (init 2) [.requestStop, .postSentinels, .accept 1, .exec 0, .exec 1, .acceptorExit]
    Final s = true ∧ unclosed s = [0] := by
  decide

theorem no_stranded_no_leak (s : State) (h : Reachable s) (hf : Final s = true) (hp : pending s = []) :
    s.closed.Perm (created s) := by
  have hi := Inv_of_reachable s h
  have hpart := partition s h
  rw [registered_final s hi hf, hp] at hpart
  simpa using hpart

/-! ## enrolments and their results -/

/-- what a step does to the pending descriptors, the enrolments and the results: nothing, or a fresh
descriptor is queued (possibly enrolled), or a queued descriptor is registered (and answered if enrolled) -/
theorem step_cases (s : State) (a : Step) :
    (pending (step s a) = pending s ∧ (step s a).results = s.results ∧ (step s a).enrolled = s.enrolled ∧
      (step s a).nextFd = s.nextFd) ∨
    (∃ A B, pending s = A ++ B ∧ pending (step s a) = A ++ [s.nextFd] ++ B ∧ (step s a).nextFd = s.nextFd + 1 ∧
      (step s a).results = s.results ∧
      ((step s a).enrolled = s.enrolled ∨ (step s a).enrolled = s.enrolled ++ [s.nextFd])) ∨
    (∃ A B fd, pending s = A ++ fd :: B ∧ pending (step s a) = A ++ B ∧ (step s a).nextFd = s.nextFd ∧
      (step s a).enrolled = s.enrolled ∧
      (step s a).results = if fd ∈ s.enrolled then s.results ++ [fd] else s.results) := by
  cases a with
  | accept l =>
    simp only [step]
    split
    · rename_i x hx
      split
      · obtain ⟨A, B, A', B', hp, hr, hy⟩ := I1_setLoop_cases s l x hx
        refine Or.inr (Or.inl ⟨A ++ pendingOf x, B, hp, ?_, rfl, rfl, Or.inl rfl⟩)
        simp only [pending, setLoop, hy, pendingOf_push_register, List.append_assoc]
      · exact Or.inl ⟨rfl, rfl, rfl, rfl⟩
    · exact Or.inl ⟨rfl, rfl, rfl, rfl⟩
  | enroll l =>
    simp only [step]
    split
    · rename_i x hx
      split
      · obtain ⟨A, B, A', B', hp, hr, hy⟩ := I1_setLoop_cases s l x hx
        refine Or.inr (Or.inl ⟨A ++ pendingOf x, B, hp, ?_, rfl, rfl, Or.inr rfl⟩)
        simp only [pending, setLoop, hy, pendingOf_push_register, List.append_assoc]
      · exact Or.inl ⟨rfl, rfl, rfl, rfl⟩
    · exact Or.inl ⟨rfl, rfl, rfl, rfl⟩
  | exec l =>
    simp only [step]
    split
    · rename_i x hx
      split
      · split
        · rename_i fd q hq
          obtain ⟨A, B, A', B', hp, hr, hy⟩ := I1_setLoop_cases s l x hx
          rw [pendingOf_pop_register x fd q x.running (x.conns ++ [fd]) hq] at hp
          refine Or.inr (Or.inr ⟨A, pendingOf { running := x.running, queue := q, conns := x.conns ++ [fd] } ++ B,
            fd, ?_, ?_, rfl, rfl, rfl⟩)
          · rw [hp]; simp only [List.append_assoc, List.cons_append]
          · simp only [pending, setLoop, hy, List.append_assoc]
        · rename_i q hq
          obtain ⟨A, B, A', B', hp, hr, hy⟩ := I1_setLoop_cases s l x hx
          rw [pendingOf_pop_sentinel x q false [] hq] at hp
          refine Or.inl ⟨?_, rfl, rfl, rfl⟩
          simp only [pending, setLoop, exitLoop, hy] at hp ⊢
          exact hp.symm
        · exact Or.inl ⟨rfl, rfl, rfl, rfl⟩
      · exact Or.inl ⟨rfl, rfl, rfl, rfl⟩
    · exact Or.inl ⟨rfl, rfl, rfl, rfl⟩
  | action l =>
    simp only [step]
    split
    · rename_i x hx
      split
      · obtain ⟨A, B, A', B', hp, hr, hy⟩ := I1_setLoop_cases s l x hx
        rw [← pendingOf_queue x false []] at hp
        refine Or.inl ⟨?_, rfl, rfl, rfl⟩
        simp only [pending, setLoop, exitLoop, hy] at hp ⊢
        exact hp.symm
      · exact Or.inl ⟨rfl, rfl, rfl, rfl⟩
    · exact Or.inl ⟨rfl, rfl, rfl, rfl⟩
  | peerClose l fd =>
    simp only [step]
    split
    · rename_i x hx
      split
      · obtain ⟨A, B, A', B', hp, hr, hy⟩ := I1_setLoop_cases s l x hx
        rw [← pendingOf_queue x x.running (x.conns.erase fd)] at hp
        refine Or.inl ⟨?_, rfl, rfl, rfl⟩
        simp only [pending, setLoop, hy] at hp ⊢
        exact hp.symm
      · exact Or.inl ⟨rfl, rfl, rfl, rfl⟩
    · exact Or.inl ⟨rfl, rfl, rfl, rfl⟩
  | requestStop => exact Or.inl ⟨rfl, rfl, rfl, rfl⟩
  | postSentinels =>
    simp only [step]
    split
    · have e1 : (s.loops.map fun x => ({ x with queue := x.queue ++ [Task.sentinel] } : Loop)).map pendingOf
          = s.loops.map pendingOf := by
        rw [List.map_map]; apply List.map_congr_left; intro x _; exact pendingOf_push_sentinel x
      refine Or.inl ⟨?_, rfl, rfl, rfl⟩
      simp only [pending, e1]
    · exact Or.inl ⟨rfl, rfl, rfl, rfl⟩
  | acceptorExit =>
    simp only [step]
    split
    · exact Or.inl ⟨rfl, rfl, rfl, rfl⟩
    · exact Or.inl ⟨rfl, rfl, rfl, rfl⟩
  | setFlag =>
    simp only [step]
    split
    · exact Or.inl ⟨rfl, rfl, rfl, rfl⟩
    · exact Or.inl ⟨rfl, rfl, rfl, rfl⟩

/-- enrolled descriptors were created, once each; results are only given to enrolled descriptors; and an
enrolled descriptor is either answered (once) or still pending (once) -/
def J (s : State) : Prop :=
  (∀ a ∈ s.enrolled, a < s.nextFd) ∧ s.enrolled.Nodup ∧ (∀ a ∈ s.results, a ∈ s.enrolled) ∧
  (∀ a ∈ s.enrolled, List.count a s.results + List.count a (pending s) = 1)

theorem pending_lt (s : State) (h : I1 s) : ∀ a ∈ pending s, a < s.nextFd := by
  intro a ha
  have h1 := h.1 a
  simp only [obs, List.count_append] at h1
  have hpos : 0 < List.count a (pending s) := List.count_pos_iff.mpr ha
  have : 0 < List.count a (List.range s.nextFd) := by omega
  exact List.mem_range.mp (List.count_pos_iff.mp this)

theorem count_singleton_ne {a b : Nat} (h : b ≠ a) : List.count a [b] = 0 := by
  simp [h]

theorem J_step (s : State) (a : Step) (h1 : I1 s) (h : J s) : J (step s a) := by
  obtain ⟨j1, j2, j3, j4⟩ := h
  rcases step_cases s a with ⟨hp, hr, he, hn⟩ | ⟨A, B, hp, hp', hn, hr, he⟩ | ⟨A, B, fd, hp, hp', hn, he, hr⟩
  · unfold J
    rw [hp, hr, he, hn]
    exact ⟨j1, j2, j3, j4⟩
  · have hfresh : s.nextFd ∉ pending s := fun hm => Nat.lt_irrefl _ (pending_lt s h1 _ hm)
    have hold : ∀ a ∈ s.enrolled, List.count a s.results + List.count a (A ++ [s.nextFd] ++ B) = 1 := by
      intro a ha
      have h4 := j4 a ha
      have hne : s.nextFd ≠ a := fun e => Nat.lt_irrefl _ (e ▸ j1 a ha)
      rw [hp] at h4
      simp only [List.count_append, count_singleton_ne hne] at h4 ⊢
      omega
    rcases he with he | he
    · unfold J
      rw [hp', hn, hr, he]
      exact ⟨fun a ha => Nat.lt_succ_of_lt (j1 a ha), j2, j3, hold⟩
    · unfold J
      rw [hp', hn, hr, he]
      refine ⟨?_, ?_, fun a ha => List.mem_append_left _ (j3 a ha), ?_⟩
      · intro a ha
        rcases List.mem_append.mp ha with ha | ha
        · exact Nat.lt_succ_of_lt (j1 a ha)
        · rw [List.mem_singleton.mp ha]; exact Nat.lt_succ_self _
      · rw [List.nodup_append]
        refine ⟨j2, by simp, ?_⟩
        intro a ha b hb e
        rw [List.mem_singleton.mp hb] at e
        exact Nat.lt_irrefl _ (e ▸ j1 a ha)
      · intro a ha
        rcases List.mem_append.mp ha with ha | ha
        · exact hold a ha
        · rw [List.mem_singleton.mp ha]
          have hnr : s.nextFd ∉ s.results := fun hm => Nat.lt_irrefl _ (j1 _ (j3 _ hm))
          have c1 : List.count s.nextFd s.results = 0 := List.count_eq_zero_of_not_mem hnr
          have c2 : List.count s.nextFd (A ++ B) = 0 := by
            rw [← hp]; exact List.count_eq_zero_of_not_mem hfresh
          simp only [List.count_append, List.count_singleton, beq_self_eq_true, if_true] at c2 ⊢
          omega
  · unfold J
    rw [hp', hn, he]
    refine ⟨j1, j2, ?_, ?_⟩
    · intro a ha
      rw [hr] at ha
      split at ha
      · rename_i hfd
        rcases List.mem_append.mp ha with ha | ha
        · exact j3 a ha
        · rw [List.mem_singleton.mp ha]; exact hfd
      · exact j3 a ha
    · intro a ha
      have h4 := j4 a ha
      rw [hp] at h4
      rw [hr]
      by_cases hfa : fd = a
      · subst hfa
        simp only [ha, if_true, List.count_append, List.count_cons, List.count_nil, beq_self_eq_true] at h4 ⊢
        omega
      · have hb : (fd == a) = false := by simpa using hfa
        split
        · simp only [List.count_append, List.count_cons, count_singleton_ne hfa, hb, Bool.false_eq_true,
            if_false] at h4 ⊢
          omega
        · simp only [List.count_append, List.count_cons, hb, Bool.false_eq_true, if_false] at h4 ⊢
          omega

theorem J_init (n : Nat) : J (init n) := by
  refine ⟨?_, ?_, ?_, ?_⟩
  · intro a ha; simp [init] at ha
  · simp [init]
  · intro a ha; simp [init] at ha
  · intro a ha; simp [init] at ha

theorem InvJ_run (steps : List Step) : ∀ s, Inv s → J s → J (run s steps) := by
  induction steps with
  | nil => intro s _ h; exact h
  | cons a rest ih => intro s hi h; exact ih (step s a) (Inv_step s a hi) (J_step s a hi.1 h)

theorem J_of_reachable (s : State) (h : Reachable s) : J s := by
  obtain ⟨n, steps, rfl⟩ := h
  exact InvJ_run steps _ (Inv_init n) (J_init n)

theorem results_at_most_once (s : State) (h : Reachable s) :
    s.results.Nodup ∧ (∀ fd ∈ s.results, fd ∈ s.enrolled) ∧ s.enrolled.Nodup := by
  obtain ⟨_, j2, j3, j4⟩ := J_of_reachable s h
  refine ⟨?_, j3, j2⟩
  rw [List.nodup_iff_count]
  intro a
  by_cases ha : a ∈ s.results
  · have := j4 a (j3 a ha); omega
  · rw [List.count_eq_zero_of_not_mem ha]; exact Nat.zero_le _

theorem unanswered_are_pending (s : State) (h : Reachable s) :
    ∀ fd, fd ∈ unanswered s ↔ (fd ∈ s.enrolled ∧ fd ∈ pending s) := by
  obtain ⟨_, _, _, j4⟩ := J_of_reachable s h
  intro fd
  simp only [unanswered, List.mem_filter, decide_eq_true_eq]
  constructor
  · rintro ⟨he, hnr⟩
    refine ⟨he, ?_⟩
    have h4 := j4 fd he
    rw [List.count_eq_zero_of_not_mem hnr] at h4
    exact List.count_pos_iff.mp (by omega)
  · rintro ⟨he, hp⟩
    refine ⟨he, ?_⟩
    intro hr
    have h4 := j4 fd he
    have c1 : 0 < List.count fd s.results := List.count_pos_iff.mpr hr
    have c2 : 0 < List.count fd (pending s) := List.count_pos_iff.mpr hp
    omega

theorem register_unanswered_reachable :
    let s := run (init 1) [.requestStop, .postSentinels, .exec 0, .enroll 0, .acceptorExit, .setFlag]
    Final s = true ∧ s.inShutdown = true ∧ unanswered s = [0] := by
  decide

theorem no_enrolment_after_flag (s : State) (hs : s.inShutdown = true) (l : Nat) : step s (.enroll l) = s := by
  simp only [step, hs]
  split
  · simp
  · rfl

end Gnet.Proofs.Handover
