/-
  C04 / C07 / C08 / C18 on the reactor model: the theorems re-exported by Gnet/Props/C040718.lean.
  The machinery lives in Gnet/Proofs/ReactorL*.lean:
  * ReactorLBase   weakest preconditions for the monad `M`, specifications of the primitives
  * ReactorLFrame  frame property of work about one connection; stability while unregistered
  * ReactorLInv    the lifecycle / descriptor invariant through work about one connection
  * ReactorLRound0 the same through accept, UDP, closeConns; uniqueness of names
  * ReactorLRound  top-level items and whole rounds
  * ReactorLClose  the effect of `close`
-/
import Gnet.Spec.ReactorSpec
import Gnet.Proofs.ReactorLClose
namespace Gnet.Proofs.ReactorLife
open Gnet.Reactor Gnet.Proofs.ReactorL

set_option maxRecDepth 4000
set_option linter.unusedSimpArgs false

private theorem K_of (G : Prop) (s : RState) (hn : NamesNodup s) (hl : InvLife s) (hf : G → InvFd s) :
    K G s.conns s.sysLog :=
  ⟨⟨fun c x hx => by obtain ⟨p, hp, e⟩ := lookup_mem hx; subst e; exact hl p hp, hf⟩, hn⟩

private theorem acceptRound_K (G : Prop) (s s' : RState) (toks : List Tok)
    (h : acceptRound s toks = .ok s') (hk : K G s.conns s.sysLog) : K G s'.conns s'.sysLog := by
  unfold acceptRound at h
  dsimp only at h
  split at h
  · rename_i u s1 e
    cases h
    exact wp_elim (K_round G _ { s with toks := toks } hk) e
  · cases h

private theorem InvLife_of_K {G : Prop} {s : RState} (h : K G s.conns s.sysLog) : InvLife s :=
  fun p hp => h.j.inv p.1 p.2 (mem_lookup h.nd hp)

theorem lifecycle (s s' : RState) (toks : List Tok) (hn : NamesNodup s)
    (h : acceptRound s toks = .ok s') (hl : InvLife s) : InvLife s' :=
  InvLife_of_K (acceptRound_K False s s' toks h (K_of False s hn hl (fun g => g.elim)))

theorem lifecycle_init (cfg : Cfg) : InvLife { cfg := cfg } := by
  intro p hp; cases hp

theorem fd_discipline (s s' : RState) (toks : List Tok) (hn : NamesNodup s)
    (h : acceptRound s toks = .ok s') (hl : InvLife s) (hf : InvFd s) : InvFd s' :=
  (acceptRound_K True s s' toks h (K_of True s hn hl (fun _ => hf))).j.fd trivial

private theorem frame_lookup (fuel : Nat) (w : Work) (c : String) (hw : target w = some c)
    (s s' : RState) (r : Ret) (h : (exec fuel w).run s = .ok (r, s')) (c' : String) (hc : c' ≠ c) :
    lookup s' c' = lookup s c' :=
  wp_elim (frame_gen c (fun cs => lookupL cs c' = lookupL s.conns c')
    (fun l y hl => by rw [lookupL_updL_other _ _ _ _ hc]; exact hl) fuel w hw s rfl) h

theorem fault_isolation (fuel : Nat) (c : String) (mask : Nat) (s s' : RState) (r : Ret)
    (h : (exec fuel (.processIO c mask)).run s = .ok (r, s')) (c' : String) (hc : c' ≠ c) :
    lookup s' c' = lookup s c' :=
  frame_lookup fuel _ c rfl s s' r h c' hc

theorem close_isolation (fuel : Nat) (c : String) (en : Bool) (s s' : RState) (r : Ret)
    (h : (exec fuel (.close c en)).run s = .ok (r, s')) (c' : String) (hc : c' ≠ c) :
    lookup s' c' = lookup s c' :=
  frame_lookup fuel _ c rfl s s' r h c' hc

set_option linter.unusedVariables false in
theorem read_error_closes (fuel : Nat) (c : String) (s s' : RState) (r : Ret) (rest : List Tok)
    (len : Nat) (n : Int) (err : String) (data : List Nat) (x : Conn)
    (hx : lookup s c = some x) (ho : x.opened = true) (hr : x.registered = true) (hn : NamesNodup s)
    (ht : s.toks = .enter "read" c "" :: .sysRead c len n err data :: rest)
    (he : err ≠ "nil") (he2 : err ≠ "EAGAIN")
    (h : (exec fuel (.elRead c)).run s = .ok (r, s')) :
    ∃ x', lookup s' c = some x' ∧ x'.opened = false ∧ x'.registered = false ∧ x'.fdOpen = false ∧
      x'.word = x.word ++ ["close"] ∧ x'.closeErrNil = false := by
  have hx' : lookupL s.conns c = some x := hx
  suffices hw : wp (exec fuel (.elRead c))
      (fun _ s' => PA False c (false, false, false, x.word ++ ["close"], false) s'.conns s'.sysLog) s by
    obtain ⟨x', h1, h2, _⟩ := wp_elim hw h
    simp only [core, Prod.mk.injEq] at h2
    exact ⟨x', h1, h2.1, h2.2.1, h2.2.2.1, h2.2.2.2.1, h2.2.2.2.2⟩
  cases fuel with
  | zero => exact exec_zero _ _ _
  | succ fuel =>
    rw [exec]; dsimp only; wsimp
    intro a rest1 ht1 x1 hx1
    rw [hx'] at hx1; cases hx1
    rw [ht] at ht1; cases ht1
    refine ⟨fun hb => by simp [ho] at hb, fun _ => ?_⟩
    cases fuel with
    | zero => exact exec_zero _ _ _
    | succ fuel =>
      rw [exec]; dsimp only; wsimp
      intro x2 hx2 t rest2 ht2 hsane
      cases ht2
      wsimp
      refine ⟨fun _ => trivial, fun _ => ⟨fun _ => ⟨fun hb => ?_, fun _ => ?_⟩, fun hb => ?_⟩⟩
      · simp [he2] at hb
      · exact close_spec c false x ho hr fuel _ hx'
      · simp [he] at hb

theorem udp_one_event (fuel : Nat) (l : String) (s s' : RState) (r : Ret) (rest : List Tok)
    (n : Int) (src : String) (data : List Nat) (t : Tok)
    (ht : s.toks = .sysRecvfrom l n "nil" src data :: t :: rest)
    (h : (exec fuel (.readUDP l)).run s = .ok (r, s')) :
    ∃ en, t = .cb "OnTraffic" l data.length en src := by
  suffices hw : wp (exec fuel (.readUDP l)) (fun _ _ => ∃ en, t = .cb "OnTraffic" l data.length en src) s from
    wp_elim hw h
  cases fuel with
  | zero => exact exec_zero _ _ _
  | succ fuel =>
    rw [exec]; dsimp only; wsimp
    intro t' rest' e _
    rw [ht] at e; cases e
    wsimp
    refine ⟨fun _ => trivial, fun _ => ⟨fun hh => by simp at hh, fun _ => ?_⟩⟩
    intro t1 r1 e _
    cases e
    split
    · rename_i c' readable en remote
      wsimp
      simp only [bne_iff_ne, ne_eq, Decidable.not_not]
      refine ⟨fun _ => trivial, fun h1 => ⟨fun _ => trivial, fun h2 => ⟨fun _ => trivial, fun h3 => ?_⟩⟩⟩
      subst h1 h2 h3
      exact wp_post fun _ _ => ⟨_, rfl⟩
    · wsimp

end Gnet.Proofs.ReactorLife
