/-
  The invariant carried through the symbolic execution of the reactor acceptor.

  `A` switches the inbound accounting on, `B` the outbound accounting. One connection `c` (the
  one the current work is about) may be in a special condition `Ψ`; every other connection is
  at rest (`Lv 2`).
-/
import Gnet.Proofs.ReactorHoare
namespace Gnet.Reactor

def eqIn (x : Conn) : Prop := x.consumed ++ x.inbound ++ x.buffer = x.delivered
def eqOut (x : Conn) : Prop := x.toKernel ++ x.outbound = x.accepted

/-- the condition of a connection.
    level 0: anything (inside `close`, or the transient UDP connection);
    level 1: registered and accounted, `buffer` may hold the rest of the latest read (inside
             OnTraffic, or after OnTraffic returned Shutdown);
    level 2: at rest: additionally `buffer = []` -/
def Lv (A B : Prop) (k : Nat) (x : Conn) : Prop :=
  k = 0 ∨ (x.opened = true → x.registered = true ∧ (k = 2 → x.buffer = []) ∧ (A → eqIn x) ∧ (B → eqOut x))

/-- the condition of a connection while `data` (already in `accepted`) is still to be written or buffered -/
def Snd (A B : Prop) (k : Nat) (data : List Nat) (x : Conn) : Prop :=
  k = 0 ∨ (x.opened = true → x.registered = true ∧ (k = 2 → x.buffer = []) ∧ (A → eqIn x) ∧
    (B → x.toKernel ++ x.outbound ++ data = x.accepted))

/-- ... and the outbound buffer is known to be empty (the direct-write loops) -/
def SndE (A B : Prop) (k : Nat) (data : List Nat) (x : Conn) : Prop :=
  k = 0 ∨ (x.opened = true → x.registered = true ∧ (k = 2 → x.buffer = []) ∧ (A → eqIn x) ∧
    (B → x.outbound = [] ∧ x.toKernel ++ data = x.accepted))

/-- the state invariant: names are unique, the connection `c` is in condition `Ψ`, every other
    connection is at level `ko` -/
structure Good (A B : Prop) (ko : Nat) (s : RState) (c : String) (Ψ : Conn → Prop) : Prop where
  nodup : NamesNodup s
  here : ∀ p ∈ s.conns, p.1 = c → Ψ p.2
  others : ∀ p ∈ s.conns, p.1 ≠ c → Lv A B ko p.2

variable {A B : Prop} {ko : Nat}

theorem Good.mono {s : RState} {c : String} {Ψ Ψ' : Conn → Prop} (hG : Good A B ko s c Ψ)
    (h : ∀ x, Ψ x → Ψ' x) : Good A B ko s c Ψ' :=
  ⟨hG.nodup, fun p hp hc => h _ (hG.here p hp hc), hG.others⟩

/-- everybody at the same level: the distinguished name is irrelevant -/
theorem Good.rest_irrel {s : RState} {c : String} (c' : String) (hG : Good A B ko s c (Lv A B ko)) :
    Good A B ko s c' (Lv A B ko) :=
  ⟨hG.nodup,
    fun p hp _ => by
      by_cases hc : p.1 = c
      · exact hG.here p hp hc
      · exact hG.others p hp hc,
    fun p hp _ => by
      by_cases hc : p.1 = c
      · exact hG.here p hp hc
      · exact hG.others p hp hc⟩

theorem Good.all {s : RState} {c : String} (hG : Good A B ko s c (Lv A B ko)) :
    ∀ p ∈ s.conns, Lv A B ko p.2 := fun p hp => (hG.rest_irrel p.1).here p hp rfl

theorem Good.set_toks {s : RState} {c : String} {Ψ : Conn → Prop} (l : List Tok) (hG : Good A B ko s c Ψ) :
    Good A B ko { s with toks := l } c Ψ :=
  ⟨hG.nodup, hG.here, hG.others⟩

theorem Good.set_sysLog {s : RState} {c : String} {Ψ : Conn → Prop} (l : List (String × Bool))
    (hG : Good A B ko s c Ψ) : Good A B ko { s with sysLog := l } c Ψ :=
  ⟨hG.nodup, hG.here, hG.others⟩

theorem Good.set_tasks {s : RState} {c : String} {Ψ : Conn → Prop} (l : List Task)
    (hG : Good A B ko s c Ψ) : Good A B ko { s with tasks := l } c Ψ :=
  ⟨hG.nodup, hG.here, hG.others⟩

theorem Good.set_freshPos {s : RState} {c : String} {Ψ : Conn → Prop} (l : Nat)
    (hG : Good A B ko s c Ψ) : Good A B ko { s with freshPos := l } c Ψ :=
  ⟨hG.nodup, hG.here, hG.others⟩

theorem Good.set_exited {s : RState} {c : String} {Ψ : Conn → Prop} (l : Bool)
    (hG : Good A B ko s c Ψ) : Good A B ko { s with exited := l } c Ψ :=
  ⟨hG.nodup, hG.here, hG.others⟩

theorem nodup_fst_unique {l : List (String × Conn)} (hn : (l.map (·.1)).Nodup) {p q : String × Conn}
    (hp : p ∈ l) (hq : q ∈ l) (h : p.1 = q.1) : p = q := by
  induction l with
  | nil => cases hp
  | cons a l ih =>
    rw [List.map_cons, List.nodup_cons] at hn
    rcases List.mem_cons.mp hp with rfl | hp' <;> rcases List.mem_cons.mp hq with rfl | hq'
    · rfl
    · exact (hn.1 (by rw [h]; exact List.mem_map_of_mem hq')).elim
    · exact (hn.1 (by rw [← h]; exact List.mem_map_of_mem hp')).elim
    · exact ih hn.2 hp' hq'

theorem Good.find {s : RState} {c : String} {Ψ : Conn → Prop} {n : String} {x : Conn}
    (hG : Good A B ko s c Ψ) (hx : s.conns.find? (·.1 == c) = some (n, x)) :
    Ψ x ∧ Good A B ko s c (fun y => y = x) := by
  have hmem : (n, x) ∈ s.conns := List.mem_of_find?_eq_some hx
  have hn : n = c := by
    have := List.find?_some hx
    simpa using this
  subst hn
  refine ⟨hG.here _ hmem rfl, hG.nodup, ?_, hG.others⟩
  intro p hp hc
  have := nodup_fst_unique hG.nodup hp hmem hc
  rw [this]

theorem Good.map {s : RState} {c : String} {Ψ Ψ' : Conn → Prop} {n : String} {x : Conn} (g : Conn → Conn)
    (hG : Good A B ko s c Ψ) (hx : s.conns.find? (·.1 == c) = some (n, x)) (hg : Ψ x → Ψ' (g x)) :
    Good A B ko { s with conns := s.conns.map fun p => if p.1 == c then (c, g x) else p } c Ψ' := by
  obtain ⟨hΨ, _⟩ := hG.find hx
  refine ⟨?_, ?_, ?_⟩
  · have : (List.map (fun p : String × Conn => if p.1 == c then (c, g x) else p) s.conns).map (·.1)
        = s.conns.map (·.1) := by
      rw [List.map_map]
      apply List.map_congr_left
      intro p _
      simp only [Function.comp]
      split
      · rename_i h; exact (by simpa using h : p.1 = c).symm
      · rfl
    unfold NamesNodup
    rw [this]; exact hG.nodup
  · intro p hp hc
    obtain ⟨q, hq, rfl⟩ := List.mem_map.mp hp
    split
    · exact hg hΨ
    · rename_i h
      split at hc
      · contradiction
      · exact absurd hc (by simpa using h)
  · intro p hp hc
    obtain ⟨q, hq, rfl⟩ := List.mem_map.mp hp
    split
    · rename_i h; simp [h] at hc
    · exact hG.others q hq (by rename_i h; simpa using h)

/-- `accept`: a fresh, unused name joins -/
theorem Good.accept {s : RState} {l nfd : String} {Ψ : Conn → Prop} (n : Nat) (hG : Good A B ko s l (Lv A B ko))
    (hfresh : ¬ (s.conns.any (·.1 == nfd)) = true) (hΨ : Ψ {}) :
    Good A B ko { s with conns := s.conns ++ [(nfd, {})], nconn := n } nfd Ψ := by
  have hnot : ∀ p ∈ s.conns, p.1 ≠ nfd := by
    intro p hp hc
    apply hfresh
    rw [List.any_eq_true]
    exact ⟨p, hp, by simpa using hc⟩
  refine ⟨?_, ?_, ?_⟩
  · unfold NamesNodup
    show (List.map (·.1) (s.conns ++ [(nfd, ({} : Conn))])).Nodup
    rw [List.map_append, List.nodup_append]
    refine ⟨hG.nodup, by simp, ?_⟩
    intro a ha b hb
    obtain ⟨p, hp, rfl⟩ := List.mem_map.mp ha
    simp only [List.map_cons, List.map_nil, List.mem_singleton] at hb
    subst hb
    exact hnot p hp
  · intro p hp hc
    rcases List.mem_append.mp hp with hp | hp
    · exact absurd hc (hnot p hp)
    · simp only [List.mem_singleton] at hp
      subst hp; exact hΨ
  · intro p hp hc
    rcases List.mem_append.mp hp with hp | hp
    · exact hG.all p hp
    · simp only [List.mem_singleton] at hp
      subst hp; exact absurd rfl hc

/-- `readUDP`: the transient connection named after the listener replaces whatever had that name -/
theorem Good.udp {s : RState} {l : String} (y : Conn) (hG : Good A B ko s l (Lv A B ko)) :
    Good A B ko { s with conns := (s.conns.filter (·.1 != l)) ++ [(l, y)] } l (Lv A B 0) := by
  refine ⟨?_, fun _ _ _ => Or.inl rfl, ?_⟩
  · unfold NamesNodup
    show (List.map (·.1) ((s.conns.filter (·.1 != l)) ++ [(l, y)])).Nodup
    rw [List.map_append, List.nodup_append]
    refine ⟨?_, by simp, ?_⟩
    · have := hG.nodup
      unfold NamesNodup at this
      exact (List.filter_sublist.map _).nodup this
    · intro a ha b hb
      obtain ⟨p, hp, rfl⟩ := List.mem_map.mp ha
      simp only [List.map_cons, List.map_nil, List.mem_singleton] at hb
      subst hb
      have := (List.mem_filter.mp hp).2
      simpa using this
  · intro p hp hc
    rcases List.mem_append.mp hp with hp | hp
    · exact hG.all p (List.mem_filter.mp hp).1
    · simp only [List.mem_singleton] at hp
      subst hp; exact absurd rfl hc

/-- the transient UDP connection is released -/
theorem Good.udp_done {s : RState} {l : String} {Ψ : Conn → Prop} (hG : Good A B ko s l Ψ) :
    Good A B ko { s with conns := s.conns.filter (·.1 != l) } l (Lv A B ko) := by
  refine ⟨?_, ?_, ?_⟩
  · have := hG.nodup
    unfold NamesNodup at this ⊢
    exact (List.filter_sublist.map _).nodup this
  · intro p hp hc
    have := (List.mem_filter.mp hp).2
    simp [hc] at this
  · intro p hp hc
    exact hG.others p (List.mem_filter.mp hp).1 hc

/-! ### steps -/

section steps
variable {β : Type} {s : RState} {c : String} {Ψ : Conn → Prop} {r : β × RState}

theorem Good.pop_step {f : Tok → M β} (hG : Good A B ko s c Ψ) (h : (pop >>= f).run s = .ok r) :
    ∃ t s1, t.sane = true ∧ Good A B ko s1 c Ψ ∧ (f t).run s1 = .ok r := by
  obtain ⟨t, rest, ht, hs, h⟩ := pop_bind_inv h
  exact ⟨t, _, hs, hG.set_toks rest, h⟩

theorem Good.enter_step {fn c' : String} {f : String → M β} (hG : Good A B ko s c Ψ)
    (h : (expectEnter fn c' >>= f).run s = .ok r) :
    ∃ a s1, Good A B ko s1 c Ψ ∧ (f a).run s1 = .ok r := by
  obtain ⟨a, t, rest, ht, h⟩ := expectEnter_bind_inv h
  exact ⟨a, _, hG.set_toks rest, h⟩

theorem Good.checkHop_step {op : String} {n : Int} {e : String} {d : List Nat} {f : Unit → M β}
    (hG : Good A B ko s c Ψ) (h : (checkHop op n e d >>= f).run s = .ok r) :
    ∃ s1, Good A B ko s1 c Ψ ∧ (f ()).run s1 = .ok r := by
  obtain ⟨t, rest, ht, h⟩ := checkHop_bind_inv h
  exact ⟨_, hG.set_toks rest, h⟩

theorem Good.popRes_step {op : String} {f : Int × String × List Nat → M β}
    (hG : Good A B ko s c Ψ) (h : (popRes op >>= f).run s = .ok r) :
    ∃ a s1, Good A B ko s1 c Ψ ∧ (f a).run s1 = .ok r := by
  obtain ⟨a, t, rest, ht, h⟩ := popRes_bind_inv h
  exact ⟨a, _, hG.set_toks rest, h⟩

theorem Good.noteSys_step {c' : String} {f : Unit → M β}
    (hG : Good A B ko s c Ψ) (h : (noteSys c' >>= f).run s = .ok r) :
    ∃ s1, Good A B ko s1 c Ψ ∧ (f ()).run s1 = .ok r := by
  obtain ⟨l, h⟩ := noteSys_bind_inv h
  exact ⟨_, hG.set_sysLog l, h⟩

theorem Good.getConn_step {f : Conn → M β}
    (hG : Good A B ko s c Ψ) (h : (getConn c >>= f).run s = .ok r) :
    ∃ x, Ψ x ∧ Good A B ko s c (fun y => y = x) ∧ (f x).run s = .ok r := by
  obtain ⟨n, x, hx, h⟩ := getConn_bind_inv h
  obtain ⟨h1, h2⟩ := hG.find hx
  exact ⟨x, h1, h2, h⟩

theorem Good.modConn_step {g : Conn → Conn} {f : Unit → M β} (Ψ' : Conn → Prop)
    (hG : Good A B ko s c Ψ) (h : (modConn c g >>= f).run s = .ok r) (hg : ∀ x, Ψ x → Ψ' (g x)) :
    ∃ s1, Good A B ko s1 c Ψ' ∧ (f ()).run s1 = .ok r := by
  obtain ⟨n, x, hx, h⟩ := modConn_bind_inv h
  exact ⟨_, hG.map g hx (hg x), h⟩

end steps

end Gnet.Reactor
