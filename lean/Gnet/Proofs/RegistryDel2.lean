/-
  `delConn` keeps the representation invariant: the two cases (the removed connection is the
  last one / another one is moved into the hole).
-/
import Gnet.Proofs.RegistryDel
namespace Gnet.Proofs.Registry
open Gnet

theorem isNone_of_isSome_false {α : Type} {o : Option α} (h : o.isSome = false) : o.isNone = true := by
  cases o with
  | none => rfl
  | some x => cases h

/-- common facts used by both cases -/
structure DelCtx (m : Matrix) (s : RegSpec) (id r cl lr lc mid : Nat) (tr : Nat → Option Nat) : Prop where
  hr : (m.objs id).grow = r
  hcl : (m.objs id).gcol = cl
  hid : cell m r cl = some id
  hlast : cell m lr lc = some mid
  htr : m.table r = some tr
  F1 : ∀ r', hi lr lc m.cols r' = if r' = lr then hi m.row m.col m.cols r' - 1 else hi m.row m.col m.cols r'
  F2 : lc + 1 = hi m.row m.col m.cols lr
  F3r : lr < m.rows
  F3c : lc < m.cols
  F4 : r < lr ∨ (r = lr ∧ cl ≤ lc)
  F5 : lr * m.cols + lc + 1 = m.row * m.cols + m.col
  F6 : ∀ r', lr < r' → hi m.row m.col m.cols r' = 0

theorem Inv.delCtx {m : Matrix} {s : RegSpec} (h : Inv m s) (id : Nat) (hv : (s.fdOf id, id) ∈ s.live) :
    ∃ r cl lr lc mid tr, DelCtx m s id r cl lr lc mid tr := by
  obtain ⟨_, hid⟩ := h.live_cell hv
  have hidpos := h.cell_pos hid
  obtain ⟨lr, lc, F1, F2, F3r, F3c, F4, F5, F6⟩ :=
    last_exists m.row m.col m.cols m.rows _ _ h.c2 h.cur hidpos
  have hocc : (cell m lr lc).isSome := (h.dense lr lc).2 (by omega)
  obtain ⟨mid, hmid⟩ := Option.isSome_iff_exists.1 hocc
  have hal : (m.table (m.objs id).grow).isSome := (h.alloc _).2 (by omega)
  obtain ⟨tr, htr⟩ := Option.isSome_iff_exists.1 hal
  exact ⟨_, _, lr, lc, mid, tr, rfl, rfl, hid, hmid, htr, F1, F2, F3r, F3c, F4, F5, F6⟩

/-- the state before compaction, in terms of the context -/
structure Core3 (m : Matrix) (id r cl : Nat) (m3 : Matrix) : Prop where
  rows3 : m3.rows = m.rows
  cols3 : m3.cols = m.cols
  dc3 : m3.disableCompact = m.disableCompact
  o3 : m3.objs = m.objs
  f3 : m3.fd2gfd = Matrix.updI m.fd2gfd (m.objs id).fd none
  c3 : m3.counts = Matrix.upd m.counts r (m.counts r - 1)
  t3 : m3.table = clearT m.table (decide (m.counts r - 1 = 0)) r cl

theorem core3 (m : Matrix) (id r cl : Nat) (hr : (m.objs id).grow = r) (hcl : (m.objs id).gcol = cl) :
    Core3 m id r cl (delCore m id) := by
  refine ⟨delCore_rows m id, delCore_cols m id, delCore_dc m id, delCore_objs m id, delCore_fd2gfd m id, ?_, ?_⟩
  · rw [delCore_counts, hr]
  · rw [delCore_table, hr, hcl]

/-- the removed connection is the last one: nothing is moved -/
theorem Inv.del_last {m : Matrix} {s : RegSpec} (h : Inv m s) (id : Nat) (hv : (s.fdOf id, id) ∈ s.live)
    {r cl mid : Nat} {tr : Nat → Option Nat} (cx : DelCtx m s id r cl r cl mid tr) :
    ∃ m', m.delConn id = some m' ∧ Inv m' (s.step (.del id)) ∧ m'.rows = m.rows ∧ m'.cols = m.cols := by
  obtain ⟨hr, hcl, hid, hlast, htr, F1, F2, F3r, F3c, F4, F5, F6⟩ := cx
  have hmid : id = mid := by rw [hid] at hlast; cases hlast; rfl
  subst hmid
  have hidpos := h.cell_pos hid
  have hcntr : m.counts r = (hi m.row m.col m.cols r : Nat) := h.cnt r
  have hpre : m.counts (m.objs id).grow - 1 ≠ 0 → (m.table (m.objs id).grow).isSome := by
    intro _; rw [hr, htr]; rfl
  have hcursor : m.row > (m.objs id).grow ∨ m.col > (m.objs id).gcol := by
    rw [hr, hcl]
    rcases hi_spec m.row m.col m.cols r with a | a | a <;> omega
  obtain ⟨rows3, cols3, dc3, o3, f3, c3, t3⟩ := core3 m id r cl hr hcl
  obtain ⟨row3, col3⟩ := delCore_cursor m id hcursor
  rw [hr] at row3
  rw [hcl] at col3
  have hc2 := h.c2
  -- evaluation
  have eval : m.delConn id = some (delCore m id) := by
    rw [delConn_eq m id hpre, hr, hcl]
    by_cases hz : m.counts r - 1 = 0
    · rw [if_pos]
      right
      apply isNone_of_isSome_false
      rw [t3, clearT_isSome, if_pos rfl]
      simp [hz]
    · have hsome : ((delCore m id).table r).isSome = true := by
        rw [t3, clearT_isSome, if_pos rfl, htr]
        simp [hz]
      rw [if_neg]
      · apply compact_none
        obtain ⟨d, hd⟩ : ∃ d, m.rows = (r + 1) + d := ⟨m.rows - (r + 1), by omega⟩
        rw [rows3, hd, scanRows_skip _ r cl (r + 1) (by omega) d, scanRows_succ, if_pos (Nat.le_refl r),
          if_neg (by rw [c3, upd_same]; exact hz), if_pos rfl, cols3]
        · by_cases hcm : (m.cols : Int) - 1 > (cl : Int)
          · rw [if_pos hcm]
            obtain ⟨trow, htrow⟩ := Option.isSome_iff_exists.1 hsome
            rw [htrow]
            dsimp only
            rw [scanCols_none trow cl m.cols]
            · dsimp only
              exact scanRows_below _ r cl
            · intro c hc1 hc2
              rw [cellT_of_row htrow, t3, cellT_clearT]
              simp only [hz, decide_false, Bool.false_eq_true, if_false]
              rw [if_neg (by omega)]
              have := h.dense r c
              cases hx : cell m r c with
              | none => exact hx
              | some x => rw [hx] at this; simp at this; omega
          · rw [if_neg hcm]
            exact scanRows_below _ r cl
        · intro row h1 h2
          rw [c3, upd_other _ _ _ _ (by omega), h.cnt, F6 row (by omega)]
          rfl
      · rw [dc3, h.dc]
        obtain ⟨x, hx⟩ := Option.isSome_iff_exists.1 hsome
        rw [hx]
        simp
  refine ⟨delCore m id, eval, ?_, rows3, cols3⟩
  have hz_iff : (m.counts r - 1 = 0) ↔ cl = 0 := by omega
  apply h.del_final id hv r cl r cl id hid hid F1 F2 F5 (delCore m id) rows3 cols3 (dc3.trans h.dc) row3 col3
  · intro r' c'
    show cellT (delCore m id).table r' c' = _
    rw [t3, cellT_clearT]
    by_cases hz : m.counts r - 1 = 0
    · simp only [hz, decide_true, if_true]
      by_cases e : r' = r
      · rw [if_pos e]
        by_cases e2 : c' = cl
        · rw [if_pos ⟨e, e2⟩]
        · rw [if_neg (fun a => e2 a.2), if_neg (fun a => e2 a.2), e]
          have := h.dense r c'
          cases hx : cell m r c' with
          | none => rfl
          | some x => rw [hx] at this; simp at this; omega
      · rw [if_neg e, if_neg (fun a => e a.1), if_neg (fun a => e a.1)]
        rfl
    · simp only [hz, decide_false, Bool.false_eq_true, if_false]
      by_cases e : r' = r ∧ c' = cl
      · rw [if_pos e, if_pos e]
      · rw [if_neg e, if_neg e, if_neg e]
        rfl
  · intro r'
    rw [t3, clearT_isSome, F1]
    by_cases e : r' = r
    · rw [if_pos e, if_pos e, e, htr]
      simp only [Option.isSome_some, Bool.and_true, Bool.not_eq_true', decide_eq_false_iff_not]
      omega
    · rw [if_neg e, if_neg e]
      exact h.alloc r'
  · intro r'
    rw [c3, F1]
    by_cases e : r' = r
    · rw [if_pos e, e, upd_same, hcntr]; omega
    · rw [if_neg e, upd_other _ _ _ _ e]; exact h.cnt r'
  · intro i; rw [o3]
  · intro i _; rw [o3]
  · intro e; exact absurd rfl e
  · intro fd'
    rw [f3, h.objfd]
    by_cases e : fd' = s.fdOf id
    · rw [if_pos e, e, updI_same]
    · rw [if_neg e, if_neg e, updI_other _ _ _ _ e]

theorem cellT_some_row {t : Nat → Option (Nat → Option Nat)} {r c x : Nat} (h : cellT t r c = some x) :
    ∃ tr, t r = some tr ∧ tr c = some x := by
  unfold cellT at h
  cases ht : t r with
  | none => rw [ht] at h; cases h
  | some tr => rw [ht] at h; exact ⟨tr, rfl, h⟩

/-- another connection (the last one) is moved into the hole -/
theorem Inv.del_move {m : Matrix} {s : RegSpec} (h : Inv m s) (id : Nat) (hv : (s.fdOf id, id) ∈ s.live)
    {r cl lr lc mid : Nat} {tr : Nat → Option Nat} (cx : DelCtx m s id r cl lr lc mid tr)
    (hM : ¬ (r = lr ∧ cl = lc)) :
    ∃ m', m.delConn id = some m' ∧ Inv m' (s.step (.del id)) ∧ m'.rows = m.rows ∧ m'.cols = m.cols := by
  obtain ⟨hr, hcl, hid, hlast, htr, F1, F2, F3r, F3c, F4, F5, F6⟩ := cx
  have hlt : r < lr ∨ (r = lr ∧ cl < lc) := by omega
  have hidpos := h.cell_pos hid
  have hcntr : m.counts r = (hi m.row m.col m.cols r : Nat) := h.cnt r
  have hcntl : m.counts lr = (hi m.row m.col m.cols lr : Nat) := h.cnt lr
  have hc2 := h.c2
  have hrle := h.rle
  have hcle := h.cle
  have hhir : 2 ≤ hi m.row m.col m.cols r := by
    rcases hi_spec m.row m.col m.cols r with a | a | a <;>
      rcases hi_spec m.row m.col m.cols lr with b | b | b <;> omega
  have hz : ¬ (m.counts r - 1 = 0) := by omega
  have hpre : m.counts (m.objs id).grow - 1 ≠ 0 → (m.table (m.objs id).grow).isSome := by
    intro _; rw [hr, htr]; rfl
  have hcursor : m.row > (m.objs id).grow ∨ m.col > (m.objs id).gcol := by
    rw [hr, hcl]
    rcases hi_spec m.row m.col m.cols r with a | a | a <;> omega
  obtain ⟨rows3, cols3, dc3, o3, f3, c3, t3⟩ := core3 m id r cl hr hcl
  have t3' : (delCore m id).table = Matrix.upd m.table r (some (Matrix.upd tr cl none)) := by
    rw [t3]; unfold clearT; simp [hz, htr]
  have h3 : (delCore m id).table r = some (Matrix.upd tr cl none) := by rw [t3', upd_same]
  have hcell3 : ∀ r' c', cellT (delCore m id).table r' c' =
      if r' = r ∧ c' = cl then none else cell m r' c' := by
    intro r' c'
    rw [t3']
    exact cellT_upd_some m.table r tr htr cl none r' c'
  have hmidne : mid ≠ id := by
    intro e
    rw [e] at hlast
    exact hM (h.cell_inj hid hlast)
  have hlast3 : cellT (delCore m id).table lr lc = some mid := by
    rw [hcell3, if_neg (fun a => hM ⟨a.1.symm, a.2.symm⟩)]; exact hlast
  obtain ⟨trow, htrow, htrowlc⟩ := cellT_some_row hlast3
  have hcnt3l : (delCore m id).counts lr ≠ 0 := by
    rw [c3]
    by_cases e : lr = r
    · rw [e, upd_same]; exact hz
    · rw [upd_other _ _ _ _ e, hcntl]; omega
  -- the scan finds the last occupied cell
  have hscan : Matrix.scanRows (delCore m id) r cl (delCore m id).rows = some (some (lr, lc)) := by
    obtain ⟨d, hd⟩ : ∃ d, m.rows = (lr + 1) + d := ⟨m.rows - (lr + 1), by omega⟩
    rw [rows3, hd, scanRows_skip _ r cl (lr + 1) (by omega) d, scanRows_succ, if_pos (by omega),
      if_neg hcnt3l, cols3]
    · generalize hcm : (if lr = r then (cl : Int) else -1) = cmin
      have hcm1 : cmin < (lc : Int) := by
        rw [← hcm]; split <;> omega
      rw [if_pos (by omega), htrow]
      dsimp only
      rw [scanCols_found trow cmin lc hcm1 (by rw [htrowlc]; rfl) m.cols F3c]
      intro c' h1 h2
      rw [cellT_of_row htrow, hcell3]
      by_cases e : lr = r ∧ c' = cl
      · rw [if_pos e]
      · rw [if_neg e]
        have := h.dense lr c'
        cases hx : cell m lr c' with
        | none => rfl
        | some x => rw [hx] at this; simp at this; omega
    · intro row h1 h2
      rw [c3, upd_other _ _ _ _ (by omega), h.cnt, F6 row (by omega)]
      rfl
  have h4 : Matrix.upd (Matrix.upd (delCore m id).counts lr ((delCore m id).counts lr - 1)) r
        (Matrix.upd (delCore m id).counts lr ((delCore m id).counts lr - 1) r + 1) lr ≠ 0 →
      (Matrix.upd (delCore m id).table r (some (Matrix.upd (Matrix.upd tr cl none) cl (some mid))) lr).isSome := by
    intro _
    by_cases e : lr = r
    · rw [e, upd_same]; rfl
    · rw [upd_other _ _ _ _ e, htrow]; rfl
  have eval : m.delConn id = some (relocState (delCore m id) r cl lr lc mid (Matrix.upd tr cl none)) := by
    rw [delConn_eq m id hpre, hr, hcl, if_neg, compact_some _ r cl lr lc hscan,
      relocate_eq _ r cl lr lc mid trow (Matrix.upd tr cl none) htrow htrowlc h3 h4]
    rw [dc3, h.dc, h3]
    simp
  refine ⟨_, eval, ?_, rows3, cols3⟩
  have hbd := h.cell_bounds hid
  have hr256 : r % 256 = r := Nat.mod_eq_of_lt (by omega)
  have hc65536 : cl % 65536 = cl := Nat.mod_eq_of_lt (by omega)
  have hmidlive : (s.fdOf mid, mid) ∈ s.live := (h.obj _ _ _ hlast).2.2
  have hfdne : s.fdOf mid ≠ s.fdOf id := by
    intro e
    have := h.sinv.eq_of_fst hmidlive hv e
    exact hmidne (congrArg Prod.snd this)
  have hcn2 : ∀ r', Matrix.upd (Matrix.upd (delCore m id).counts lr ((delCore m id).counts lr - 1)) r
        (Matrix.upd (delCore m id).counts lr ((delCore m id).counts lr - 1) r + 1) r' =
      (hi lr lc m.cols r' : Nat) := by
    intro r'
    rw [c3, F1]
    by_cases e1 : r' = r
    · rw [e1, upd_same]
      by_cases e3 : r = lr
      · rw [if_pos e3, ← e3, upd_same, upd_same, hcntr]; omega
      · rw [if_neg e3, upd_other _ _ _ _ e3, upd_same, hcntr]; omega
    · rw [upd_other _ _ _ _ e1]
      by_cases e2 : r' = lr
      · rw [if_pos e2, e2, upd_same, upd_other _ _ _ _ (fun a => e1 (e2.trans a)), hcntl]; omega
      · rw [if_neg e2, upd_other _ _ _ _ e2, upd_other _ _ _ _ e1]; exact h.cnt r'
  have hhill : hi lr lc m.cols lr = lc := by
    rcases hi_spec lr lc m.cols lr with a | a | a <;> omega
  have hzl : (Matrix.upd (Matrix.upd (delCore m id).counts lr ((delCore m id).counts lr - 1)) r
        (Matrix.upd (delCore m id).counts lr ((delCore m id).counts lr - 1) r + 1) lr = 0) ↔ lc = 0 := by
    rw [hcn2, hhill]; omega
  apply h.del_final id hv r cl lr lc mid hid hlast F1 F2 F5
    (relocState (delCore m id) r cl lr lc mid (Matrix.upd tr cl none)) rows3 cols3 (dc3.trans h.dc) rfl rfl
  · intro r' c'
    show cellT (clearT (Matrix.upd (delCore m id).table r (some (Matrix.upd (Matrix.upd tr cl none) cl (some mid))))
      _ lr lc) r' c' = _
    rw [cellT_clearT, cellT_upd_some _ r _ h3 cl (some mid), hcell3]
    by_cases hl0 : lc = 0
    · rw [decide_eq_true (hzl.2 hl0)]
      simp only [if_true]
      have hlr : lr ≠ r := by omega
      by_cases e : r' = lr
      · rw [if_pos e]
        by_cases e2 : c' = lc
        · rw [if_pos (show r' = lr ∧ c' = lc from ⟨e, e2⟩)]
        · rw [if_neg (show ¬ (r' = lr ∧ c' = lc) from fun a => e2 a.2),
            if_neg (show ¬ (r' = r ∧ c' = cl) from fun a => hlr (e.symm.trans a.1)), e]
          have := h.dense lr c'
          cases hx : cell m lr c' with
          | none => rfl
          | some x => rw [hx] at this; simp at this; omega
      · rw [if_neg e, if_neg (show ¬ (r' = lr ∧ c' = lc) from fun a => e a.1)]
        by_cases e2 : r' = r ∧ c' = cl
        · rw [if_pos e2, if_pos e2]
        · rw [if_neg e2, if_neg e2, if_neg e2]
    · rw [decide_eq_false (fun a => hl0 (hzl.1 a))]
      simp only [Bool.false_eq_true, if_false]
      by_cases e : r' = lr ∧ c' = lc
      · rw [if_pos e, if_pos e]
      · rw [if_neg e, if_neg e]
        by_cases e2 : r' = r ∧ c' = cl
        · rw [if_pos e2, if_pos e2]
        · rw [if_neg e2, if_neg e2, if_neg e2]
  · intro r'
    show (clearT (Matrix.upd (delCore m id).table r (some (Matrix.upd (Matrix.upd tr cl none) cl (some mid))))
      _ lr lc r').isSome ↔ _
    rw [clearT_isSome]
    have hT : ∀ r'', (Matrix.upd (delCore m id).table r
        (some (Matrix.upd (Matrix.upd tr cl none) cl (some mid))) r'').isSome = (m.table r'').isSome := by
      intro r''
      by_cases e : r'' = r
      · rw [e, upd_same, htr]; rfl
      · rw [upd_other _ _ _ _ e, t3', upd_other _ _ _ _ e]
    rw [hT, hT]
    by_cases e : r' = lr
    · rw [if_pos e, e, hhill]
      have : (m.table lr).isSome = true := (h.alloc lr).2 (by omega)
      rw [this]
      by_cases hl0 : lc = 0
      · rw [decide_eq_true (hzl.2 hl0)]; simp; omega
      · rw [decide_eq_false (fun a => hl0 (hzl.1 a))]; simp; omega
    · rw [if_neg e, F1, if_neg e]
      exact h.alloc r'
  · intro r'
    exact hcn2 r'
  · intro i
    show (Matrix.upd (delCore m id).objs mid _ i).fd = _
    by_cases e : i = mid
    · rw [e, upd_same, o3]
    · rw [upd_other _ _ _ _ e, o3]
  · intro i e
    show Matrix.upd (delCore m id).objs mid _ i = _
    rw [upd_other _ _ _ _ e, o3]
  · intro _
    show (Matrix.upd (delCore m id).objs mid _ mid).grow = r ∧ (Matrix.upd (delCore m id).objs mid _ mid).gcol = cl
    rw [upd_same]
    exact ⟨hr256, hc65536⟩
  · intro fd'
    show Matrix.updI (delCore m id).fd2gfd ((delCore m id).objs mid).fd (some (r % 256, cl % 65536)) fd' = _
    rw [f3, o3, h.objfd, h.objfd, hr256, hc65536]
    by_cases e : fd' = s.fdOf id
    · rw [if_pos e, e, updI_other _ _ _ _ (fun a => hfdne a.symm), updI_same]
    · rw [if_neg e]
      by_cases e2 : fd' = s.fdOf mid
      · rw [if_pos e2, e2, updI_same]
      · rw [if_neg e2, updI_other _ _ _ _ e2, updI_other _ _ _ _ e]

/-- `delConn` of a live connection does not panic and keeps the invariant -/
theorem Inv.del {m : Matrix} {s : RegSpec} (h : Inv m s) (id : Nat) (hv : (s.fdOf id, id) ∈ s.live) :
    ∃ m', m.delConn id = some m' ∧ Inv m' (s.step (.del id)) ∧ m'.rows = m.rows ∧ m'.cols = m.cols := by
  obtain ⟨r, cl, lr, lc, mid, tr, cx⟩ := h.delCtx id hv
  by_cases hL : r = lr ∧ cl = lc
  · obtain ⟨rfl, rfl⟩ := hL
    exact h.del_last id hv cx
  · exact h.del_move id hv cx hL

end Gnet.Proofs.Registry
