/-
  List / chain helper lemmas for the Michael-Scott queue proof (C13).
-/
import Gnet.Model.Msq
namespace Gnet.Proofs.Msq
open Gnet.Msq

/-- pigeonhole: a duplicate-free list of numbers below `n` has at most `n` elements -/
theorem nodup_length_le : ∀ (n : Nat) (l : List Nat), l.Nodup → (∀ x ∈ l, x < n) → l.length ≤ n := by
  intro n
  induction n with
  | zero =>
    intro l _ hb
    cases l with
    | nil => simp
    | cons a l => exact absurd (hb a (by simp)) (by omega)
  | succ n ih =>
    intro l hnd hb
    have h1 : (l.erase n).Nodup := hnd.erase n
    have h2 : ∀ x ∈ l.erase n, x < n := by
      intro x hx
      have := (List.Nodup.mem_erase_iff hnd).1 hx
      have := hb x this.2
      omega
    have h3 := ih (l.erase n) h1 h2
    have h4 : (l.erase n).length = if n ∈ l then l.length - 1 else l.length := List.length_erase
    split at h4 <;> omega

theorem nodup_idx {c : List Nat} (hnd : c.Nodup) {i j x : Nat}
    (hi : c[i]? = some x) (hj : c[j]? = some x) : i = j := by
  have hlt : i < c.length := by
    by_cases h : i < c.length
    · exact h
    · have := List.getElem?_eq_none_iff.2 (Nat.le_of_not_lt h)
      rw [this] at hi; cases hi
  exact (List.getElem?_inj hlt hnd).1 (by rw [hi, hj])

theorem lt_of_getElem? {α} {c : List α} {i : Nat} {x : α} (hi : c[i]? = some x) : i < c.length := by
  by_cases h : i < c.length
  · exact h
  · have := List.getElem?_eq_none_iff.2 (Nat.le_of_not_lt h)
    rw [this] at hi; cases hi

theorem getElem?_append_of {α} {c l : List α} {i : Nat} {x : α} (hi : c[i]? = some x) :
    (c ++ l)[i]? = some x := by
  rw [List.getElem?_append_left (lt_of_getElem? hi)]; exact hi

/-- the walk along `next` pointers reproduces an explicitly described chain -/
theorem chainFrom_eq (s : State) (c : List Nat)
    (cnext : ∀ i x, c[i]? = some x → nextOf s x = c[i+1]?) :
    ∀ fuel i x, c[i]? = some x → c.length - i ≤ fuel → chainFrom s fuel x = c.drop i := by
  intro fuel
  induction fuel with
  | zero =>
    intro i x hi hf
    have := lt_of_getElem? hi
    omega
  | succ fuel ih =>
    intro i x hi hf
    have hlt := lt_of_getElem? hi
    have hx : c[i] = x := by
      have := List.getElem?_eq_getElem hlt
      rw [this] at hi; exact Option.some.inj hi
    rw [List.drop_eq_getElem_cons hlt, hx]
    simp only [chainFrom]
    rw [cnext i x hi]
    cases hn : c[i+1]? with
    | none =>
      have := List.getElem?_eq_none_iff.1 hn
      simp [List.drop_eq_nil_iff.2 this]
    | some m =>
      simp only
      rw [ih (i+1) m hn (by omega)]

theorem chain_eq (s : State) (c : List Nat)
    (c0 : c[0]? = some 0)
    (cnext : ∀ i x, c[i]? = some x → nextOf s x = c[i+1]?)
    (hnd : c.Nodup) (hb : ∀ x ∈ c, x < s.nodes.length) : chain s = c := by
  have hl := nodup_length_le s.nodes.length c hnd hb
  have := chainFrom_eq s c cnext s.nodes.length 0 0 c0 (by omega)
  simpa [chain] using this

theorem findIdx_of_nodup {c : List Nat} (hnd : c.Nodup) {i x : Nat} (hi : c[i]? = some x) :
    c.findIdx (· == x) = i := by
  have hlt := lt_of_getElem? hi
  have hx : c[i] = x := by
    have := List.getElem?_eq_getElem hlt
    rw [this] at hi; exact Option.some.inj hi
  rw [List.findIdx_eq hlt]
  refine ⟨by simp [hx], ?_⟩
  intro j hji
  have hjl : j < c.length := by omega
  simp only [beq_eq_false_iff_ne, ne_eq]
  intro hj
  have hj' : c[j]? = some x := by rw [List.getElem?_eq_getElem hjl, hj]
  have := nodup_idx hnd hj' hi
  omega

/-- replacing one element of a list changes `countP` by that element's contribution -/
theorem countP_set_add {α} (p : α → Bool) : ∀ (l : List α) (i : Nat) (a b : α), l[i]? = some a →
    (l.set i b).countP p + (if p a then 1 else 0) = l.countP p + (if p b then 1 else 0) := by
  intro l
  induction l with
  | nil => intro i a b h; simp at h
  | cons x l ih =>
    intro i a b h
    cases i with
    | zero =>
      simp at h
      subst h
      simp [List.countP_cons]
      omega
    | succ i =>
      simp at h
      have := ih i a b h
      simp [List.countP_cons]
      omega

theorem getElem?_set_cases {α} {l : List α} {i j : Nat} {a u : α}
    (h : (l.set i a)[j]? = some u) : (j = i ∧ u = a) ∨ (j ≠ i ∧ l[j]? = some u) := by
  rw [List.getElem?_set] at h
  by_cases hij : i = j
  · subst hij
    simp at h
    left; exact ⟨rfl, h.2.symm⟩
  · simp [hij] at h
    right; exact ⟨fun e => hij e.symm, h⟩

theorem default_next : (default : Node).next = none := rfl

end Gnet.Proofs.Msq
