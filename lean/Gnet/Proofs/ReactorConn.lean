/-
  Connection-level facts: how the field updates of the model act on the conditions `Lv`, `Snd`, `SndE`.
-/
import Gnet.Proofs.ReactorSpecs
namespace Gnet.Reactor
variable {A B : Prop}

theorem Lv.zero (x : Conn) : Lv A B 0 x := Or.inl rfl

theorem Lv.closed {k : Nat} {x : Conn} (h : x.opened = false) : Lv A B k x :=
  Or.inr (fun ho => by rw [h] at ho; cases ho)

theorem Lv.after_close {k : Nat} {x : Conn} (h : x.opened = false ∨ (Lv A B k x ∧ x.registered = false)) :
    Lv A B k x := by
  rcases h with h | h
  · exact Lv.closed h
  · exact h.1

theorem Lv.after_action {k : Nat} {x : Conn} (h : x.opened = false ∨ Lv A B k x) : Lv A B k x := by
  rcases h with h | h
  · exact Lv.closed h
  · exact h

/-- level 2 implies every level -/
theorem Lv.of_two {k : Nat} {x : Conn} (h : Lv A B 2 x) : Lv A B k x := by
  rcases h with h | h
  · cases h
  · exact Or.inr (fun ho => by
      obtain ⟨h1, h2, h3, h4⟩ := h ho
      exact ⟨h1, fun _ => h2 rfl, h3, h4⟩)

theorem Lv.to_one {k : Nat} {x : Conn} (hk : 1 ≤ k) (h : Lv A B k x) : Lv A B 1 x := by
  rcases h with h | h
  · omega
  · exact Or.inr (fun ho => by
      obtain ⟨h1, _, h3, h4⟩ := h ho
      exact ⟨h1, fun h => absurd h (by decide), h3, h4⟩)

theorem Lv.reg {k : Nat} {x : Conn} (hk : 1 ≤ k) (h : Lv A B k x) : x.opened = true → x.registered = true := by
  rcases h with h | h
  · omega
  · exact fun ho => (h ho).1

theorem prefix_write {d o : List Nat} {k : Nat} (hd : d = o.take d.length) (hk : k ≤ d.length) :
    d.take k ++ o.drop k = o := by
  rw [hd, List.take_take, Nat.min_eq_left hk, List.take_append_drop]

set_option hygiene false in
/-- start the analysis of a level condition: the outbound part is left -/
macro "lv_start" h:ident : tactic => `(tactic| (
  rcases $h:ident with h0 | $h:ident
  · exact Or.inl h0
  refine Or.inr (fun ho => ?_)
  obtain ⟨h1, h2, h3, h4⟩ := $h:ident ho
  refine ⟨h1, h2, h3, fun hB => ?_⟩
  replace h4 := h4 hB))

theorem Lv.write {k : Nat} {x : Conn} {d : List Nat} {k' : Nat} (hx : Lv A B k x)
    (hd : d.take k' ++ x.outbound.drop k' = x.outbound) :
    Lv A B k { x with outbound := x.outbound.drop k', toKernel := x.toKernel ++ d.take k' } := by
  lv_start hx
  simp only [eqOut] at h4 ⊢
  rw [List.append_assoc, hd]; exact h4

theorem Lv.append_both {k : Nat} {x : Conn} (data : List Nat) (hx : Lv A B k x) :
    Lv A B k { x with outbound := x.outbound ++ data, accepted := x.accepted ++ data } := by
  lv_start hx
  simp only [eqOut] at h4 ⊢
  rw [← List.append_assoc, h4]

theorem SndE.start {k : Nat} {x : Conn} (data : List Nat) (hx : Lv A B k x) (ho' : x.outbound = []) :
    SndE A B k data { x with accepted := x.accepted ++ data } := by
  lv_start hx
  simp only [eqOut] at h4 ⊢
  rw [ho', List.append_nil] at h4
  exact ⟨ho', by rw [h4]⟩

theorem SndE.buffer {k : Nat} {x : Conn} {data : List Nat} (hx : SndE A B k data x) :
    Lv A B k { x with outbound := x.outbound ++ data } := by
  lv_start hx
  simp only [eqOut] at h4 ⊢
  rw [h4.1, List.nil_append]; exact h4.2

theorem SndE.untake {k : Nat} {x : Conn} {data : List Nat} (hx : SndE A B k data x) :
    Lv A B k { x with accepted := x.accepted.take (x.accepted.length - data.length) } := by
  lv_start hx
  simp only [eqOut] at h4 ⊢
  rw [h4.1, List.append_nil, ← h4.2, List.length_append, Nat.add_sub_cancel, List.take_left']
  rfl

theorem SndE.partial {k : Nat} {x : Conn} {data p rest : List Nat} (hx : SndE A B k data x)
    (hp : p ++ rest = data) : SndE A B k rest { x with toKernel := x.toKernel ++ p } := by
  lv_start hx
  refine ⟨h4.1, ?_⟩
  show (x.toKernel ++ p) ++ rest = x.accepted
  rw [List.append_assoc, hp]; exact h4.2

theorem SndE.done {k : Nat} {x : Conn} (hx : SndE A B k [] x) : Lv A B k x := by
  lv_start hx
  simp only [eqOut]
  rw [h4.1, List.append_nil]
  simpa using h4.2

theorem SndE.toSnd {k : Nat} {x : Conn} {data : List Nat} (hx : SndE A B k data x) : Snd A B k data x := by
  lv_start hx
  rw [h4.1, List.append_nil]; exact h4.2

theorem Snd.toE {k : Nat} {x : Conn} {data : List Nat} (hx : Snd A B k data x) (ho' : x.outbound = []) :
    SndE A B k data x := by
  lv_start hx
  rw [ho', List.append_nil] at h4
  exact ⟨ho', h4⟩

theorem Snd.start {k : Nat} {x : Conn} (buf : List Nat) (hx : Lv A B k x) :
    Snd A B k buf { x with accepted := x.accepted ++ buf } := by
  lv_start hx
  simp only [eqOut] at h4
  show x.toKernel ++ x.outbound ++ buf = x.accepted ++ buf
  rw [h4]

theorem Snd.buffer {k : Nat} {x : Conn} {buf : List Nat} (hx : Snd A B k buf x) :
    Lv A B k { x with outbound := x.outbound ++ buf } := by
  lv_start hx
  simp only [eqOut]
  rw [← List.append_assoc]; exact h4

theorem Snd.reg {k : Nat} {x : Conn} {buf : List Nat} (hk : 1 ≤ k) (h : Snd A B k buf x) :
    x.opened = true → x.registered = true := by
  rcases h with h | h
  · omega
  · exact fun ho => (h ho).1

theorem consume_list (a b : List Nat) (j : Nat) :
    List.take j (a ++ b) ++ (List.drop j a ++ List.drop (j - a.length) b) = a ++ b := by
  rw [← List.drop_append, List.take_append_drop]

theorem Lv.consume {k : Nat} {x : Conn} (j : Nat) (hx : Lv A B k x) :
    Lv A B k { x with consumed := x.consumed ++ (x.inbound ++ x.buffer).take j,
                      inbound := x.inbound.drop j, buffer := x.buffer.drop (j - x.inbound.length) } := by
  rcases hx with h0 | hx
  · exact Or.inl h0
  refine Or.inr (fun ho => ?_)
  obtain ⟨h1, h2, h3, h4⟩ := hx ho
  refine ⟨h1, fun hk => ?_, fun hA => ?_, h4⟩
  · show List.drop _ x.buffer = []
    rw [h2 hk]; exact List.drop_nil
  · have := h3 hA
    simp only [eqIn] at this ⊢
    rw [List.append_assoc, List.append_assoc, consume_list, ← List.append_assoc]; exact this

theorem AfterRead.of_two {r : Ret} {x : Conn} (h : Lv A B 2 x) : AfterRead A B r x :=
  ⟨Lv.of_two h, fun _ => h⟩

theorem Lv.closed_of_unreg {k k' : Nat} {x : Conn} (hk : 1 ≤ k)
    (h : x.opened = false ∨ (Lv A B k x ∧ x.registered = false)) : Lv A B k' x := by
  rcases h with h | ⟨h, hreg⟩
  · exact Lv.closed h
  · refine Lv.closed ?_
    cases ho : x.opened
    · rfl
    · rw [Lv.reg hk h ho] at hreg; cases hreg

theorem Raw1.open {x : Conn} (h : Raw1 A B x) : Lv A B 2 { x with opened := true } :=
  Or.inr (fun _ => ⟨h.1, fun _ => h.2.1, h.2.2.1, h.2.2.2⟩)

/-- `outboundBuffer.Release()` on a broken connection: the buffered bytes leave `accepted` as well -/
theorem Lv.release {k : Nat} {x : Conn} (hx : Lv A B k x) :
    Lv A B k { x with outbound := [], accepted := x.toKernel } := by
  lv_start hx
  simp [eqOut]

/-- a successful read(2): level 2 becomes level 1 -/
theorem Lv.deliver {x : Conn} (data : List Nat) (hx : Lv A B 2 x) :
    Lv A B 1 { x with buffer := data, delivered := x.delivered ++ data } := by
  rcases hx with h0 | hx
  · cases h0
  refine Or.inr (fun ho => ?_)
  obtain ⟨h1, h2, h3, h4⟩ := hx ho
  refine ⟨h1, fun h => absurd h (by decide), fun hA => ?_, h4⟩
  have := h3 hA
  simp only [eqIn] at this ⊢
  rw [h2 rfl, List.append_nil] at this
  rw [this]

/-- the rest of the read moves to the inbound buffer: level 1 becomes level 2 -/
theorem Lv.handover {k : Nat} {x : Conn} (hk : 1 ≤ k) (hx : Lv A B k x) :
    Lv A B 2 { x with inbound := x.inbound ++ x.buffer, buffer := [] } := by
  rcases hx with h0 | hx
  · omega
  refine Or.inr (fun ho => ?_)
  obtain ⟨h1, h2, h3, h4⟩ := hx ho
  refine ⟨h1, fun _ => rfl, fun hA => ?_, h4⟩
  have := h3 hA
  simp only [eqIn] at this ⊢
  rw [List.append_nil, ← List.append_assoc]; exact this

/-- updates of fields the conditions do not mention -/
theorem Lv.congr {k : Nat} {x y : Conn} (hx : Lv A B k x)
    (h1 : y.opened = x.opened) (h2 : y.registered = x.registered) (h3 : y.buffer = x.buffer)
    (h4 : y.inbound = x.inbound) (h5 : y.consumed = x.consumed) (h6 : y.delivered = x.delivered)
    (h7 : y.outbound = x.outbound) (h8 : y.toKernel = x.toKernel) (h9 : y.accepted = x.accepted) :
    Lv A B k y := by
  unfold Lv eqIn eqOut at *
  rw [h1, h2, h3, h4, h5, h6, h7, h8, h9]; exact hx

end Gnet.Reactor
