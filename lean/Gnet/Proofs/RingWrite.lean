import Gnet.Proofs.RingGrow
set_option linter.unusedSectionVars false
set_option linter.unusedVariables false
set_option linter.unusedSimpArgs false
namespace Gnet.Proofs.Ring
open Gnet
variable {α : Type} [Inhabited α]

/-- `Write` after the growth decision -/
def writeCore (rb : Ring α) (p : List α) : Ring α :=
  let n := p.length
  let rb : Ring α :=
    if rb.w ≥ rb.r then
      let c1 := rb.size - rb.w
      if c1 ≥ n then { rb with buf := blit rb.buf rb.w p, w := rb.w + n }
      else
        let b1 := blit rb.buf rb.w (p.take c1)
        { rb with buf := blit b1 0 (p.drop c1), w := n - c1 }
    else { rb with buf := blit rb.buf rb.w p, w := rb.w + n }
  let rb : Ring α := if rb.w = rb.size then { rb with w := 0 } else rb
  { rb with isEmpty := false }

theorem write_eq (rb : Ring α) (p : List α) :
    rb.write p = if p.length = 0 then rb else
      writeCore (if p.length > rb.available then rb.grow (rb.size + p.length - rb.available) else rb) p := rfl

theorem blit_wrap (buf p : List α) (w : Nat) (hw : w ≤ buf.length)
    (h1 : buf.length - w < p.length) (h2 : p.length - (buf.length - w) ≤ w) :
    blit (blit buf w (p.take (buf.length - w))) 0 (p.drop (buf.length - w)) =
      p.drop (buf.length - w) ++ (buf.take w).drop (p.length - (buf.length - w)) ++
        p.take (buf.length - w) := by
  rw [blit_fit buf _ _ (by simp; omega)]
  rw [blit_fit _ _ _ (by simp; omega)]
  list_ext

theorem writeCore_spec (rb : Ring α) (p : List α) (h : rb.WF) (hn : p.length ≠ 0)
    (hfit : p.length ≤ rb.available) :
    (writeCore rb p).WF ∧ (writeCore rb p).abs = rb.abs ++ p := by
  rcases rb with ⟨buf, size, r, w, e⟩
  obtain ⟨hl, hr, hw, he, hz⟩ := h
  simp only at hl hr hw he hz
  simp only [Ring.available] at hfit
  cases e
  · have hz' : size ≠ 0 := by simpa using hz
    have hr' : r < size := by omega
    have hw' : w < size := by omega
    simp only [Bool.false_eq_true, if_false] at hfit
    by_cases hrw : r = w
    · simp only [hrw, if_true] at hfit; omega
    · simp only [hrw, if_false] at hfit
      split at hfit
      · -- w < r
        have c1 : ¬ r ≤ w := by omega
        simp only [writeCore, ge_iff_le, c1, if_false]
        rw [blit_fit _ _ _ (by omega)]
        ring_auto
      · have c1 : r ≤ w := by omega
        by_cases c2 : p.length ≤ size - w
        · simp only [writeCore, ge_iff_le, c1, c2, if_true]
          rw [blit_fit _ _ _ (by omega)]
          ring_auto
        · have c3 : ¬ p.length - (size - w) = size := by omega
          subst hl
          simp only [writeCore, ge_iff_le, c1, c2, c3, if_true, if_false]
          rw [blit_wrap _ _ _ (by omega) (by omega) (by omega)]
          ring_auto
  · obtain ⟨rfl, rfl⟩ := he rfl
    simp only [if_true] at hfit
    have c2 : p.length ≤ size - 0 := by omega
    simp only [writeCore, ge_iff_le, Nat.le_refl, c2, if_true]
    rw [blit_fit _ _ _ (by omega)]
    ring_auto

theorem wf_w_le (rb : Ring α) (h : rb.WF) : rb.w ≤ rb.buf.length := by
  have h1 := h.len_eq; have h2 := h.w_lt; have h3 := h.empty_zero; have h4 := h.zero_empty
  by_cases h0 : rb.size = 0
  · have := (h3 (h4 h0)).2; omega
  · omega

theorem write_spec (rb : Ring α) (p : List α) (h : rb.WF) :
    rb.writeSafe p = true ∧ (rb.write p).WF ∧ (rb.write p).abs = rb.abs ++ p := by
  by_cases hn : p.length = 0
  · have : p = [] := List.length_eq_zero_iff.mp hn
    subst this
    simp [Ring.writeSafe, write_eq, h]
  have hav := available_eq rb h
  have hlen := abs_length_le rb h
  have harg : rb.size + p.length - rb.available = rb.abs.length + p.length := by omega
  have hg := grown_spec rb p.length h
  rw [write_eq, if_neg hn]
  unfold Ring.writeSafe
  simp only [if_neg hn, harg, gt_iff_lt]
  simp only at hg
  generalize (if rb.available < p.length then rb.grow (rb.abs.length + p.length) else rb) = rb1 at hg ⊢
  obtain ⟨hwf1, habs1, hfit1, hsafe⟩ := hg
  have hc := writeCore_spec rb1 p hwf1 hn hfit1
  refine ⟨?_, hc.1, by rw [hc.2, habs1]⟩
  simp only [Bool.and_eq_true, decide_eq_true_eq]
  refine ⟨⟨?_, wf_w_le rb1 hwf1⟩, ?_⟩
  · split
    · exact hsafe ‹_›
    · rfl
  · split
    · split
      · rfl
      · simp only [decide_eq_true_eq]; omega
    · rfl

end Gnet.Proofs.Ring
