/-
  The invariant for work that is not about one fixed connection (accept, UDP, closeConns).
-/
import Gnet.Proofs.ReactorLInv
namespace Gnet.Proofs.ReactorL
open Gnet.Reactor

set_option maxRecDepth 4000
set_option linter.unusedSimpArgs false

theorem lookupL_append_single (cs : List (String × Conn)) (n : String) (y : Conn) (c' : String) :
    lookupL (cs ++ [(n, y)]) c' =
      match lookupL cs c' with
      | some x => some x
      | none => if n = c' then some y else none := by
  induction cs with
  | nil => simp [lookupL_cons, lookupL_nil]
  | cons p cs ih =>
    rw [List.cons_append, lookupL_cons, lookupL_cons]
    by_cases h : p.1 = c'
    · simp [h]
    · simp only [h, if_false]; exact ih

theorem lookupL_none_of_not_any (cs : List (String × Conn)) (n : String)
    (h : ¬ (cs.any (fun x => x.1 == n)) = true) : lookupL cs n = none := by
  induction cs with
  | nil => rfl
  | cons p cs ih =>
    simp only [List.any_cons, Bool.or_eq_true, beq_iff_eq, not_or] at h
    rw [lookupL_cons, if_neg h.1]
    exact ih h.2

theorem lookupL_filter_ne (cs : List (String × Conn)) (l c' : String) (h : c' ≠ l) :
    lookupL (cs.filter (fun x => x.1 != l)) c' = lookupL cs c' := by
  induction cs with
  | nil => rfl
  | cons p cs ih =>
    by_cases hp : p.1 = l
    · have h1 : (p.1 != l) = false := by simp [hp]
      have h2 : ¬ p.1 = c' := by rw [hp]; exact fun e => h e.symm
      rw [List.filter_cons_of_neg (by simp [hp]), lookupL_cons, if_neg h2]; exact ih
    · have h1 : (p.1 != l) = true := by simp [hp]
      rw [List.filter_cons, h1, if_pos rfl, lookupL_cons, lookupL_cons, ih]

theorem lookupL_filter_same (cs : List (String × Conn)) (l : String) :
    lookupL (cs.filter (fun x => x.1 != l)) l = none := by
  induction cs with
  | nil => rfl
  | cons p cs ih =>
    by_cases hp : p.1 = l
    · have h1 : (p.1 != l) = false := by simp [hp]
      rw [List.filter_cons_of_neg (by simp [hp])]; exact ih
    · have h1 : (p.1 != l) = true := by simp [hp]
      rw [List.filter_cons, h1, if_pos rfl, lookupL_cons, if_neg hp]; exact ih

theorem InvO_udp_start {l : String} {cs : List (String × Conn)} {y : Conn} (h : InvLc cs) :
    InvO l (cs.filter (fun x => x.1 != l) ++ [(l, y)]) := by
  intro c' x hc hx
  rw [lookupL_append_single, lookupL_filter_ne _ _ _ hc] at hx
  cases h1 : lookupL cs c' with
  | some x1 => rw [h1] at hx; cases hx; exact h c' x h1
  | none =>
    rw [h1] at hx
    have : ¬ l = c' := fun e => hc e.symm
    simp [this] at hx

theorem InvLc_udp_end {l : String} {cs : List (String × Conn)} (h : InvO l cs) :
    InvLc (cs.filter (fun x => x.1 != l)) := by
  intro c' x hx
  by_cases hc : c' = l
  · subst hc; rw [lookupL_filter_same] at hx; cases hx
  · rw [lookupL_filter_ne _ _ _ hc] at hx; exact h c' x hc hx

theorem LifeOK_fresh : LifeOK ({} : Conn) :=
  ⟨Or.inl rfl, fun h => (nomatch h), fun h => (nomatch h), fun h => (nomatch h)⟩

theorem PreW_accept {G : Prop} {cs : List (String × Conn)} {sl} {nfd : String} (h : J G cs sl)
    (hn : ¬ (cs.any (fun x => x.1 == nfd)) = true) :
    PreW G nfd (.register0 nfd) (cs ++ [(nfd, ({} : Conn))]) sl := by
  have h0 := lookupL_none_of_not_any cs nfd hn
  refine ⟨⟨?_, h.fd⟩, ({} : Conn), ?_, rfl, rfl, rfl, rfl⟩
  · intro c' x hx
    rw [lookupL_append_single] at hx
    cases h1 : lookupL cs c' with
    | some x1 => rw [h1] at hx; cases hx; exact h.inv c' x h1
    | none =>
      rw [h1] at hx
      by_cases e : nfd = c'
      · simp [e] at hx; subst hx; exact LifeOK_fresh
      · simp [e] at hx
  · rw [lookupL_append_single, h0]; simp

def PreN (G : Prop) (w : Work) (cs : List (String × Conn)) (sl : List (String × Bool)) : Prop :=
  match w with
  | .udpCallback l _ => InvO l cs ∧ (G → FdL sl)
  | _ => J G cs sl

theorem J_nt (G : Prop) :
    ∀ fuel w, target w = none → ∀ s, PreN G w s.conns s.sysLog →
      wp (exec fuel w) (fun _ s' => J G s'.conns s'.sysLog) s := by
  intro fuel
  induction fuel with
  | zero => intro w _ s _; exact exec_zero _ _ _
  | succ fuel ih =>
    intro w hw s hs
    cases w with
    | accept l =>
      dsimp only [PreN] at hs; rw [exec]; dsimp only; wsimp
      repeat' first
        | (apply PreW_accept <;> assumption)
        | intro _
        | apply And.intro
        | exact True.intro
        | assumption
        | (refine wp_mono (J_target G _ fuel _ rfl _ ?_) ?_ <;> try dsimp only [PreW])
        | (refine wp_mono (ih _ rfl _ ?_) ?_ <;> try dsimp only [PreN])
        | (split <;> wsimp)
    | readUDP l =>
      dsimp only [PreN] at hs; rw [exec]; dsimp only; wsimp
      repeat' first
        | exact ⟨InvO_udp_start hs.inv, hs.fd⟩
        | intro _
        | apply And.intro
        | exact True.intro
        | assumption
        | (refine wp_mono (ih _ rfl _ ?_) ?_ <;> try dsimp only [PreN])
        | (split <;> wsimp)
    | udpCallback l src =>
      dsimp only [PreN] at hs; rw [exec]; dsimp only; wsimp
      obtain ⟨hO, hF⟩ := hs
      repeat' first
        | exact ⟨InvLc_udp_end hO, hF⟩
        | (apply InvO_upd)
        | assumption
        | intro _
        | apply And.intro
        | exact True.intro
        | (refine wp_mono (ih _ rfl _ ?_) ?_ <;> try dsimp only [PreN])
        | (split <;> wsimp)
    | closeConns =>
      dsimp only [PreN] at hs; rw [exec]; dsimp only; wsimp
      repeat' first
        | intro _
        | apply And.intro
        | exact True.intro
        | assumption
        | (refine wp_mono (J_target G _ fuel _ rfl _ ?_) ?_ <;> try dsimp only [PreW])
        | (refine wp_mono (ih _ rfl _ ?_) ?_ <;> try dsimp only [PreN])
        | (split <;> wsimp)
    | _ => cases hw

def ND (cs : List (String × Conn)) : Prop := (cs.map (·.1)).Nodup

theorem ND_upd {cs : List (String × Conn)} {c : String} {y : Conn} (h : ND cs) : ND (updL cs c y) := by
  unfold ND; rw [names_updL]; exact h

theorem ND_filter {cs : List (String × Conn)} (p : String × Conn → Bool) (h : ND cs) : ND (cs.filter p) :=
  List.Nodup.sublist (List.Sublist.map _ List.filter_sublist) h

theorem ND_append {cs : List (String × Conn)} {n : String} {y : Conn} (h : ND cs)
    (hn : ¬ (cs.any (fun x => x.1 == n)) = true) : ND (cs ++ [(n, y)]) := by
  unfold ND
  rw [List.map_append, List.nodup_append]
  refine ⟨h, by simp, ?_⟩
  intro a ha b hb
  simp only [List.map_cons, List.map_nil, List.mem_singleton] at hb
  subst hb
  intro e
  apply hn
  rw [List.any_eq_true]
  obtain ⟨p, hp, hpa⟩ := List.mem_map.mp ha
  exact ⟨p, hp, by simp [hpa, e]⟩

theorem ND_udp {cs : List (String × Conn)} {l : String} {y : Conn} (h : ND cs) :
    ND (cs.filter (fun x => x.1 != l) ++ [(l, y)]) := by
  apply ND_append (ND_filter _ h)
  intro e
  rw [List.any_eq_true] at e
  obtain ⟨p, hp, hpl⟩ := e
  have := (List.mem_filter.mp hp).2
  simp at this hpl
  exact this hpl

theorem mem_lookup {cs : List (String × Conn)} (h : ND cs) {p : String × Conn} (hp : p ∈ cs) :
    lookupL cs p.1 = some p.2 := by
  induction cs with
  | nil => cases hp
  | cons q cs ih =>
    unfold ND at h
    rw [List.map_cons, List.nodup_cons] at h
    rw [lookupL_cons]
    cases hp with
    | head => simp
    | tail _ hp' =>
      have : ¬ q.1 = p.1 := by
        intro e; apply h.1; rw [e]; exact List.mem_map.mpr ⟨p, hp', rfl⟩
      rw [if_neg this]; exact ih h.2 hp'

theorem lookup_mem {cs : List (String × Conn)} {c : String} {x : Conn} (h : lookupL cs c = some x) :
    ∃ p ∈ cs, p.2 = x := by
  induction cs with
  | nil => cases h
  | cons q cs ih =>
    rw [lookupL_cons] at h
    by_cases e : q.1 = c
    · rw [if_pos e] at h; cases h; exact ⟨q, List.mem_cons_self, rfl⟩
    · rw [if_neg e] at h
      obtain ⟨p, hp, hx⟩ := ih h
      exact ⟨p, List.mem_cons_of_mem _ hp, hx⟩

theorem nodup_all :
    ∀ fuel w s, ND s.conns → wp (exec fuel w) (fun _ s' => ND s'.conns) s := by
  intro fuel
  induction fuel with
  | zero => intro w s _; exact exec_zero _ _ _
  | succ fuel ih =>
    intro w s hs
    have tgt : ∀ c w, target w = some c → ∀ s, ND s.conns → wp (exec fuel w) (fun _ s' => ND s'.conns) s :=
      fun c w hw s hs => frame_gen c ND (fun _ _ h => ND_upd h) fuel w hw s hs
    cases w with
    | accept l =>
      rw [exec]; dsimp only; wsimp
      repeat' first
        | (apply ND_append <;> assumption)
        | intro _
        | apply And.intro
        | exact True.intro
        | assumption
        | (refine wp_mono (tgt _ _ rfl _ ?_) ?_ <;> try dsimp only)
        | (refine wp_mono (ih _ _ ?_) ?_ <;> try dsimp only)
        | (split <;> wsimp)
    | readUDP l =>
      rw [exec]; dsimp only; wsimp
      repeat' first
        | exact ND_udp hs
        | intro _
        | apply And.intro
        | exact True.intro
        | assumption
        | (refine wp_mono (ih _ _ ?_) ?_ <;> try dsimp only)
        | (split <;> wsimp)
    | udpCallback l src =>
      rw [exec]; dsimp only; wsimp
      repeat' first
        | exact ND_filter _ hs
        | (apply ND_upd)
        | assumption
        | intro _
        | apply And.intro
        | exact True.intro
        | (refine wp_mono (ih _ _ ?_) ?_ <;> try dsimp only)
        | (split <;> wsimp)
    | closeConns =>
      rw [exec]; dsimp only; wsimp
      repeat' first
        | intro _
        | apply And.intro
        | exact True.intro
        | assumption
        | (refine wp_mono (tgt _ _ rfl _ ?_) ?_ <;> try dsimp only)
        | (refine wp_mono (ih _ _ ?_) ?_ <;> try dsimp only)
        | (split <;> wsimp)
    | _ => exact frame_gen _ ND (fun _ _ h => ND_upd h) (fuel + 1) _ rfl s hs

end Gnet.Proofs.ReactorL
