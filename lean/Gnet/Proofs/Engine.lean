import Gnet.Model.Engine
import Gnet.Proofs.EngineInv
namespace Gnet.Proofs.Engine
open Gnet.Engine

theorem shutdown_complete (s : State) (h : Reachable s) (hs : s.inShutdown = true) :
    (∀ l ∈ s.loops, l.st = .exited ∧ l.conns = []) ∧ s.tickerAlive = false ∧
    s.trace.count .shutdown = 1 ∧ openIn s.trace = [] := by
  have hi := inv_reachable h
  have hr : s.stopPc = .returned := hi.ctl.flag.mp hs
  have hall := hi.ctl.allEx (Or.inr (Or.inr hr))
  have hloops : ∀ l ∈ s.loops, l.st = .exited ∧ l.conns = [] :=
    fun l hl => ⟨hall.1 l hl, hi.ctl.exEmpty l hl (hall.1 l hl)⟩
  refine ⟨hloops, hall.2, ?_, ?_⟩
  · have := hi.ctl.shut; simpa [hr] using this
  · have hnil : s.loops.flatMap (·.conns) = [] := by
      rw [List.flatMap_eq_nil_iff]; exact fun l hl => (hloops l hl).2
    have := hi.conn.perm
    rw [hnil] at this
    exact this.eq_nil

theorem run_returns_after_flag (s : State) (h : Reachable s) (hr : s.stopPc = .returned) : s.inShutdown = true :=
  (inv_reachable h).ctl.flag.mpr hr

theorem final (s : State) (h : Reachable s) (hr : s.stopPc = .returned) (a : Step) :
    (step s a).trace = s.trace := by
  have hi := inv_reachable h
  have hall := hi.ctl.allEx (Or.inr (Or.inr hr))
  have hex : ∀ {l : Nat} {x : Loop}, s.loops[l]? = some x → x.st = .exited :=
    fun hx => hall.1 _ (List.mem_of_getElem? hx)
  cases a with
  | accept l =>
    simp only [step]; split
    · rename_i x hx; have := hex hx; simp [this]
    · rfl
  | traffic l c =>
    simp only [step]; split
    · rename_i x hx; have := hex hx; simp [this]
    · rfl
  | peerClose l c =>
    simp only [step]; split
    · rename_i x hx; have := hex hx; simp [this]
    · rfl
  | requestStop => rfl
  | actionShutdown l =>
    simp only [step]; split
    · split <;> rfl
    · rfl
  | runSentinel l =>
    simp only [step]; split
    · split <;> rfl
    · rfl
  | closeOne l =>
    simp only [step]; split
    · rename_i x hx; have := hex hx; simp [this]
    · rfl
  | loopExit l =>
    simp only [step]; split
    · split <;> rfl
    · rfl
  | tick => simp [step, hall.2]
  | tickerExit => simp only [step]; split <;> rfl
  | stopper => simp [step, hr]

theorem callbacks_once (s : State) (h : Reachable s) :
    s.trace.count .shutdown ≤ 1 ∧
    (∀ c, s.trace.count (.open c) ≤ 1 ∧ s.trace.count (.close c) ≤ s.trace.count (.open c)) ∧
    (openIn s.trace).Perm (s.loops.flatMap (·.conns)) := by
  have hi := inv_reachable h
  refine ⟨?_, ?_, hi.conn.perm⟩
  · have := hi.ctl.shut
    split at this <;> omega
  · intro c
    have := hi.conn.bal c
    exact ⟨hi.conn.once c, by omega⟩

/-! ### termination: a measure of the work left, and a step that decreases it -/

/-- statements of `engine.stop` still to run -/
def pcWork : StopPc → Nat
  | .waitCtx => 6 | .onShutdown => 5 | .postSentinels => 4 | .waitGroup => 3
  | .closeLoops => 2 | .setFlag => 1 | .returned => 0

/-- steps loop `x` still has to take: leave Polling, one per connection, exit -/
def loopWork (x : Loop) : Nat :=
  match x.st with
  | .running => 2 + x.conns.length
  | .closing => 1 + x.conns.length
  | .exited => 0

def work (s : State) : Nat :=
  pcWork s.stopPc + (if s.tickerAlive then 1 else 0) + (s.loops.map loopWork).sum

theorem set_sum {α} (f : α → Nat) : ∀ (ls : List α) (l : Nat) (x : α), ls[l]? = some x →
    ∃ r, (ls.map f).sum = f x + r ∧ ∀ y, ((ls.set l y).map f).sum = f y + r := by
  intro ls
  induction ls with
  | nil => intro l x h; simp at h
  | cons a t ih =>
    intro l x h
    cases l with
    | zero =>
      simp at h; subst h
      exact ⟨(t.map f).sum, by simp, by intro y; simp⟩
    | succ l =>
      simp at h
      obtain ⟨r, h1, h2⟩ := ih l x h
      refine ⟨f a + r, ?_, ?_⟩
      · simp [h1]; omega
      · intro y
        have := h2 y
        simp only [List.set_cons_succ, List.map_cons, List.sum_cons, this]; omega

theorem loopWork_sum_le (ls : List Loop) :
    (ls.map loopWork).sum ≤ 2 * ls.length + (ls.map (·.conns.length)).sum := by
  induction ls with
  | nil => simp
  | cons a t ih =>
    have : loopWork a ≤ 2 + a.conns.length := by
      unfold loopWork; split <;> omega
    simp only [List.map_cons, List.sum_cons, List.length_cons]
    omega

theorem work_le (s : State) : work s ≤ 7 + 2 * s.loops.length + (s.loops.map (·.conns.length)).sum := by
  have h1 := loopWork_sum_le s.loops
  have h2 : pcWork s.stopPc ≤ 6 := by cases s.stopPc <;> simp [pcWork]
  unfold work
  split <;> omega

theorem progress {s : State} (h : Inv s) (hc : s.ctxCancelled = true) (hr : s.stopPc ≠ .returned) :
    ∃ a, work (step s a) < work s := by
  by_cases hw : s.stopPc = .waitGroup
  · by_cases he : allExited s = true
    · exact ⟨.stopper, by simp [step, hw, he, work, pcWork]⟩
    · by_cases ht : s.tickerAlive = true
      · exact ⟨.tickerExit, by simp [step, ht, hc, work]⟩
      · rw [allExited_iff] at he
        have ht' : s.tickerAlive = false := by simpa using ht
        have : ∃ x ∈ s.loops, x.st ≠ .exited := by
          apply Classical.byContradiction
          intro hn
          apply he
          refine ⟨?_, ht'⟩
          intro x hx
          apply Classical.byContradiction
          intro hne
          exact hn ⟨x, hx, hne⟩
        obtain ⟨x, hx, hne⟩ := this
        obtain ⟨l, hl⟩ := List.getElem?_of_mem hx
        obtain ⟨r, h1, h2⟩ := set_sum loopWork s.loops l x hl
        have hsent : x.sentinel = true :=
          h.ctl.sent (by simp [hw]) (by simp [hw]) (by simp [hw]) x hx
        cases hst : x.st with
        | exited => exact absurd hst hne
        | running =>
          refine ⟨.runSentinel l, ?_⟩
          simp only [step, hl, hst, hsent, and_self, if_true, work, setLoop, h1, h2]
          simp [loopWork, hst]
        | closing =>
          cases hcs : x.conns with
          | nil =>
            refine ⟨.loopExit l, ?_⟩
            simp only [step, hl, hst, hcs, and_self, if_true, work, setLoop, h1, h2]
            simp [loopWork, hst, hcs]
          | cons c rest =>
            refine ⟨.closeOne l, ?_⟩
            simp only [step, hl, hst, hcs, if_true, work, setLoop, h1, h2]
            simp [loopWork, hst, hcs]
  · refine ⟨.stopper, ?_⟩
    have hsum : ∀ ls : List Loop,
        ((ls.map fun x => { x with sentinel := true }).map loopWork).sum = (ls.map loopWork).sum := by
      intro ls
      simp only [List.map_map]
      congr 1
    cases hp : s.stopPc with
    | waitCtx => simp [step, hp, hc, work, pcWork]
    | onShutdown => simp [step, hp, work, pcWork]
    | postSentinels => simp only [step, hp, work, hsum]; simp [pcWork]
    | waitGroup => exact absurd hp hw
    | closeLoops => simp [step, hp, work, pcWork]
    | setFlag => simp [step, hp, work, pcWork]
    | returned => exact absurd hp hr

theorem terminates_aux : ∀ (n : Nat) (s : State), Inv s → s.ctxCancelled = true → work s ≤ n →
    ∃ steps, (run s steps).stopPc = .returned ∧ steps.length ≤ n := by
  intro n
  induction n with
  | zero =>
    intro s h hc hn
    by_cases hr : s.stopPc = .returned
    · exact ⟨[], hr, by simp⟩
    · obtain ⟨a, ha⟩ := progress h hc hr
      omega
  | succ n ih =>
    intro s h hc hn
    by_cases hr : s.stopPc = .returned
    · exact ⟨[], hr, by simp⟩
    · obtain ⟨a, ha⟩ := progress h hc hr
      have hc' : (step s a).ctxCancelled = true := by
        cases a <;> simp only [step] <;> (repeat' split) <;> simp_all [setLoop]
      obtain ⟨steps, h1, h2⟩ := ih (step s a) (inv_step h a) hc' (by omega)
      exact ⟨a :: steps, h1, by simp; omega⟩

theorem shutdown_terminates (s : State) (h : Reachable s) (hc : s.ctxCancelled = true) :
    ∃ steps, (run s steps).stopPc = .returned ∧
      steps.length ≤ 8 + 3 * s.loops.length + (s.loops.map (·.conns.length)).sum := by
  obtain ⟨steps, h1, h2⟩ := terminates_aux (work s) s (inv_reachable h) hc (Nat.le_refl _)
  have := work_le s
  exact ⟨steps, h1, by omega⟩

theorem action_shutdown_requests (s : State) (l : Nat) (x : Loop) (hx : s.loops[l]? = some x)
    (hc : x.st = .closing) (he : x.conns = []) : (step s (.loopExit l)).ctxCancelled = true := by
  simp [step, hx, hc, he]
theorem api_never (c : Call) : api .never c = (if c = .count then .minusOne else .empty) := by
  cases c <;> decide
theorem api_running : api .running .validate = .nil ∧ api .running .count = .number ∧ api .running .dup = .nil ∧
    api .running .registerNoTarget = .invalidAddr ∧ api .running .dupListenerUnknown = .invalidAddr := by decide
theorem api_down (c : Call) : api .down c = (if c = .count then .minusOne else .inShutdown) := by
  cases c <;> decide
theorem api_booting_register : api .booting .registerNoTarget = .empty := by decide
theorem request_is_final (s : State) (a : Step) (hc : s.ctxCancelled = true) : (step s a).ctxCancelled = true := by
  cases a <;> simp only [step] <;> (repeat' split) <;> simp_all [setLoop]
theorem flag_only_at_end (s : State) (a : Step) (h0 : s.inShutdown = false) (h1 : (step s a).inShutdown = true) :
    a = .stopper ∧ s.stopPc = .setFlag := by
  cases a <;> simp only [step] at h1 <;> (repeat' split at h1) <;> simp_all [setLoop]
end Gnet.Proofs.Engine
