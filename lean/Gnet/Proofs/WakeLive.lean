/-
  "Never stuck" for the wake-up protocol (C03): from every reachable state with a queued task
  some schedule makes the loop execute a task.
-/
import Gnet.Model.Wake
import Gnet.Proofs.Msq
import Gnet.Proofs.WakeMsq
import Gnet.Proofs.WakeSolo
import Gnet.Proofs.WakeInv
import Gnet.Proofs.WakeStep
namespace Gnet.Proofs.Wake
open Gnet Gnet.Wake
open Gnet.Proofs.Msq (thr EnqPc DeqPc PendPc GoodT SoloDeq)

/-- number of tasks executed so far -/
def execN (s : State) : Nat := s.executedU.length + s.executedL.length

/-- some continuation executes a task -/
def Progress (s : State) : Prop := ∃ evs, execN s < execN (runEvs s evs)

theorem runEvs_append : ∀ (a b : List Ev) (s : State), runEvs s (a ++ b) = runEvs (runEvs s a) b := by
  intro a
  induction a with
  | nil => intro b s; rfl
  | cons e es ih => intro b s; simp only [List.cons_append, runEvs]; exact ih b _

theorem execN_step_le (s : State) (tid : Nat) : execN s ≤ execN (step s tid).1 := by
  cases ht : s.threads[tid]? with
  | none => simp [step, ht]
  | some t =>
    rw [step_eq ht]
    cases hpc : t.pc <;> simp only
    all_goals (repeat' split)
    all_goals simp [execN, setThread, beginDeqU, beginDeqL]
    all_goals omega

theorem execN_start_le (s : State) (tid v : Nat) (l : Bool) : execN s ≤ execN (start s tid v l) := by
  unfold start
  repeat' split
  all_goals simp [execN, setThread]

theorem execN_runEvs_le : ∀ (evs : List Ev) (s : State), execN s ≤ execN (runEvs s evs) := by
  intro evs
  induction evs with
  | nil => intro s; exact Nat.le_refl _
  | cons e es ih =>
    intro s
    simp only [runEvs]
    refine Nat.le_trans ?_ (ih _)
    cases e with
    | start tid v l => exact execN_start_le s tid v l
    | step tid => exact execN_step_le s tid

theorem Progress.of_runEvs {s : State} (evs : List Ev) (h : Progress (runEvs s evs)) : Progress s := by
  obtain ⟨evs', h⟩ := h
  refine ⟨evs ++ evs', ?_⟩
  rw [runEvs_append]
  exact Nat.lt_of_le_of_lt (execN_runEvs_le evs s) h

theorem Progress.of_step {s : State} (tid : Nat) (h : Progress (step s tid).1) : Progress s :=
  Progress.of_runEvs [.step tid] h

theorem Progress.now {s : State} (tid : Nat) (h : execN s < execN (step s tid).1) : Progress s :=
  ⟨[.step tid], h⟩

theorem wt_setThread_self {s : State} {tid : Nat} {t' : Thread} (h : tid < s.threads.length) :
    wt (setThread s tid t') tid = t' := by
  unfold wt setThread; exact Msq.getD_set_self h

theorem wt_setThread_ne {s : State} {tid j : Nat} {t' : Thread} (h : j ≠ tid) :
    wt (setThread s tid t') j = wt s j := by
  unfold wt setThread; exact Msq.getD_set_ne h

theorem step_lDeqL_silent {s : State} {t : Thread} (ht : s.threads[0]? = some t) (hpc : t.pc = .lDeqL)
    (hr : (Msq.step s.low 0).2 = none) : (step s 0).1 = { s with low := (Msq.step s.low 0).1 } := by
  rw [step_eq ht]; simp only [hpc, hr]

theorem step_lDeqU_silent {s : State} {t : Thread} (ht : s.threads[0]? = some t) (hpc : t.pc = .lDeqU)
    (hr : (Msq.step s.urgent 0).2 = none) : (step s 0).1 = { s with urgent := (Msq.step s.urgent 0).1 } := by
  rw [step_eq ht]; simp only [hpc, hr]

theorem lift_soloL {q qk : Msq.State} (hs : SoloDeq 0 q qk) : ∀ (s : State) (t : Thread),
    s.low = q → s.threads[0]? = some t → t.pc = .lDeqL → ∃ evs, runEvs s evs = { s with low := qk } := by
  induction hs with
  | refl q => intro s t hq _ _; subst hq; exact ⟨[], rfl⟩
  | step hr _ ih =>
    intro s t hq ht hpc
    subst hq
    obtain ⟨evs, he⟩ := ih { s with low := (Msq.step s.low 0).1 } t rfl ht hpc
    refine ⟨.step 0 :: evs, ?_⟩
    simp only [runEvs, apply]
    rw [step_lDeqL_silent ht hpc hr, he]

theorem lift_soloU {q qk : Msq.State} (hs : SoloDeq 0 q qk) : ∀ (s : State) (t : Thread),
    s.urgent = q → s.threads[0]? = some t → t.pc = .lDeqU → ∃ evs, runEvs s evs = { s with urgent := qk } := by
  induction hs with
  | refl q => intro s t hq _ _; subst hq; exact ⟨[], rfl⟩
  | step hr _ ih =>
    intro s t hq ht hpc
    subst hq
    obtain ⟨evs, he⟩ := ih { s with urgent := (Msq.step s.urgent 0).1 } t rfl ht hpc
    refine ⟨.step 0 :: evs, ?_⟩
    simp only [runEvs, apply]
    rw [step_lDeqU_silent ht hpc hr, he]

/-- the loop finishes the Dequeue of the low-priority queue it is in: it executes a task, or
    (only if that Dequeue was not bound to succeed) finds the queue empty and moves on -/
theorem run_lDeqL {s : State} (W : WInv s) (hpc : (wt s 0).pc = .lDeqL) :
    Progress s ∨ ∃ evs, (wt (runEvs s evs) 0).pc = .lStore ∧ (runEvs s evs).urgent = s.urgent ∧
      (runEvs s evs).low.absQ = s.low.absQ ∧ ¬ GoodT s.low (thr s.low 0) := by
  have ht := getElem?_of_lt W.pos
  have hlt0 : 0 < s.low.threads.length := by rw [W.lenL]; exact W.pos
  have hT := W.tok 0
  rw [hpc] at hT
  obtain ⟨qk, hsolo, hres⟩ := Msq.solo_deq _ s.low W.il hlt0 hT.2.2 (Nat.le_refl _)
  obtain ⟨evs, hrun⟩ := lift_soloL hsolo s _ rfl ht hpc
  have ht' : ({ s with low := qk } : State).threads[0]? = some (wt s 0) := ht
  rcases hres with ⟨v, hv⟩ | ⟨hn, ha, hg⟩
  · left
    apply Progress.of_runEvs evs
    rw [hrun]
    apply Progress.now 0
    rw [step_eq ht']; simp only [hpc, hv]
    (repeat' split) <;> simp [execN, setThread, beginDeqL]
  · right
    refine ⟨evs ++ [.step 0], ?_⟩
    rw [runEvs_append, hrun]
    simp only [runEvs, apply]
    rw [step_eq ht']; simp only [hpc, hn]
    refine ⟨?_, rfl, ha, hg⟩
    rw [wt_setThread_self (by exact W.pos)]

/-- the loop finishes the Dequeue of the urgent queue it is in: it executes a task, or (only if
    that Dequeue was not bound to succeed) finds the queue empty and moves on to the
    low-priority queue or to the end of the round -/
theorem run_lDeqU {s : State} (W : WInv s) (hpc : (wt s 0).pc = .lDeqU) :
    Progress s ∨ ∃ evs, (runEvs s evs).urgent.absQ = s.urgent.absQ ∧
      (runEvs s evs).low.absQ = s.low.absQ ∧ ¬ GoodT s.urgent (thr s.urgent 0) ∧
      (((wt (runEvs s evs) 0).pc = .lDeqL ∧ (thr (runEvs s evs).low 0).pc = .dLoadHead) ∨
        ((wt (runEvs s evs) 0).pc = .lStore ∧ ¬ (wt s 0).lowCount < maxAsync)) := by
  have ht := getElem?_of_lt W.pos
  have hlt0 : 0 < s.urgent.threads.length := by rw [W.lenU]; exact W.pos
  have hltL : 0 < s.low.threads.length := by rw [W.lenL]; exact W.pos
  have hT := W.tok 0
  rw [hpc] at hT
  have hiL : (thr s.low 0).pc = .idle := by simpa [okL] using hT.2.2
  obtain ⟨qk, hsolo, hres⟩ := Msq.solo_deq _ s.urgent W.iu hlt0 hT.2.1 (Nat.le_refl _)
  obtain ⟨evs, hrun⟩ := lift_soloU hsolo s _ rfl ht hpc
  have ht' : ({ s with urgent := qk } : State).threads[0]? = some (wt s 0) := ht
  rcases hres with ⟨v, hv⟩ | ⟨hn, ha, hg⟩
  · left
    apply Progress.of_runEvs evs
    rw [hrun]
    apply Progress.now 0
    rw [step_eq ht']; simp only [hpc, hv]
    (repeat' split) <;> simp [execN, setThread, beginDeqU]
  · right
    refine ⟨evs ++ [.step 0], ?_⟩
    rw [runEvs_append, hrun]
    simp only [runEvs, apply]
    rw [step_eq ht']; simp only [hpc, hn]
    split
    · simp only [beginDeqL]
      refine ⟨ha, Msq.start_absQ _ _ _, hg, Or.inl ⟨?_, ?_⟩⟩
      · rw [wt_setThread_self (by exact W.pos)]
      · show (thr (Msq.start s.low 0 .deq) 0).pc = .dLoadHead
        rw [Msq.start_thr_deq hltL hiL]
    · rename_i hlc
      refine ⟨ha, rfl, hg, Or.inr ⟨?_, hlc⟩⟩
      rw [wt_setThread_self (by exact W.pos)]

theorem prog_lDeqL_good {s : State} (W : WInv s) (hpc : (wt s 0).pc = .lDeqL)
    (hg : GoodT s.low (thr s.low 0)) : Progress s := by
  rcases run_lDeqL W hpc with h | ⟨_, _, _, _, h⟩
  · exact h
  · exact absurd hg h

theorem prog_lDeqU_good {s : State} (W : WInv s) (hpc : (wt s 0).pc = .lDeqU) (hq : anyQueued s)
    (hg : s.urgent.absQ ≠ [] → GoodT s.urgent (thr s.urgent 0)) : Progress s := by
  rcases run_lDeqU W hpc with h | ⟨evs, hu, hl, hng, hcase⟩
  · exact h
  · have hue : s.urgent.absQ = [] := Classical.byContradiction fun h => hng (hg h)
    have hle : s.low.absQ ≠ [] := by
      rcases hq with h | h
      · exact absurd hue h
      · exact h
    have W' := winv_runEvs evs s W
    rcases hcase with ⟨h1, h2⟩ | ⟨_, h2⟩
    · apply Progress.of_runEvs evs
      refine prog_lDeqL_good W' h1 (Or.inr ⟨by rw [hl]; exact hle, Or.inl (by rw [h2]; rfl)⟩)
    · have := W.lc hpc
      rw [this] at h2
      exact absurd (by decide) h2

theorem prog_lWait_edge {s : State} (W : WInv s) (hpc : (wt s 0).pc = .lWait) (he : s.edge = true)
    (hq : anyQueued s) : Progress s := by
  have ht := getElem?_of_lt W.pos
  have hlt0 : 0 < s.urgent.threads.length := by rw [W.lenU]; exact W.pos
  have hT := W.tok 0
  rw [hpc] at hT
  have hiU : (thr s.urgent 0).pc = .idle := by simpa [okU] using hT.2.1
  have W' := winv_step W 0
  apply Progress.of_step 0
  rw [step_eq ht] at W' ⊢
  simp only [hpc, he, if_true, beginDeqU] at W' ⊢
  refine prog_lDeqU_good W' ?_ ?_ ?_
  · rw [wt_setThread_self (by exact W.pos)]
  · rcases hq with h | h
    · left; show (Msq.start s.urgent 0 .deq).absQ ≠ []; rw [Msq.start_absQ]; exact h
    · right; exact h
  · intro h
    refine Or.inr ⟨h, Or.inl ?_⟩
    show Msq.EarlyD (thr (Msq.start s.urgent 0 .deq) 0).pc = true
    rw [Msq.start_thr_deq hlt0 hiU]; rfl

theorem lt_of_pc_ne_idle {s : State} {j : Nat} (h : (wt s j).pc ≠ .idle) : j < s.threads.length := by
  apply Classical.byContradiction
  intro hn
  rw [wt_of_ge (Nat.le_of_not_lt hn)] at h
  exact h rfl

theorem prog_writer {s : State} (W : WInv s) (hpc : (wt s 0).pc = .lWait) (hq : anyQueued s)
    {j : Nat} (hj : (wt s j).pc = .pWrite) : Progress s := by
  have h0 : 0 < j := W.prod_pos (by rw [hj]; rfl)
  have ht := getElem?_of_lt (lt_of_pc_ne_idle (j := j) (by rw [hj]; intro h; cases h))
  have W' := winv_step W j
  apply Progress.of_step j
  rw [step_eq ht] at W' ⊢
  simp only [hj] at W' ⊢
  refine prog_lWait_edge W' ?_ rfl hq
  rw [wt_setThread_ne (by omega)]; exact hpc

theorem prog_cas {s : State} (W : WInv s) (hpc : (wt s 0).pc = .lWait) (he : s.edge = false)
    (hq : anyQueued s) {j : Nat} (hj : (wt s j).pc = .pCas) : Progress s := by
  have h0 : 0 < j := W.prod_pos (by rw [hj]; rfl)
  have hlt := lt_of_pc_ne_idle (j := j) (by rw [hj]; intro h; cases h)
  have ht := getElem?_of_lt hlt
  by_cases hw : s.wakeupCall = 0
  · have W' := winv_step W j
    apply Progress.of_step j
    rw [step_eq ht] at W' ⊢
    simp only [hj, hw, if_true] at W' ⊢
    refine prog_writer W' ?_ hq (j := j) ?_
    · rw [wt_setThread_ne (by omega)]; exact hpc
    · rw [wt_setThread_self (by exact hlt)]
  · have h1 : s.wakeupCall = 1 := by rcases W.flag with h | h; exact absurd h hw; exact h
    rcases W.i2 h1 with h | ⟨k, hk⟩ | h
    · rw [he] at h; cases h
    · exact prog_writer W hpc hq hk
    · rw [hpc] at h; cases h

theorem prog_addU {s : State} (W : WInv s) (hpc : (wt s 0).pc = .lWait) (he : s.edge = false)
    (hq : anyQueued s) {j : Nat} (hj : (wt s j).pc = .pEnqU) (hu : (thr s.urgent j).pc = .eAdd) :
    Progress s := by
  have h0 : 0 < j := W.prod_pos (by rw [hj]; rfl)
  have hlt := lt_of_pc_ne_idle (j := j) (by rw [hj]; intro h; cases h)
  have ht := getElem?_of_lt hlt
  have hltU : j < s.urgent.threads.length := by rw [W.lenU]; exact hlt
  have hr := Msq.step_eAdd_ret hltU hu
  obtain ⟨_, _, ha, _⟩ := Msq.step_enq hltU (by rw [hu]; rfl)
  have W' := winv_step W j
  apply Progress.of_step j
  rw [step_eq ht] at W' ⊢
  simp only [hj, hr] at W' ⊢
  refine prog_cas W' ?_ he ?_ (j := j) ?_
  · rw [wt_setThread_ne (by omega)]; exact hpc
  · rcases hq with hq | hq
    · left
      rcases ha with h | ⟨⟨v, h⟩, _⟩
      · show (Msq.step s.urgent j).1.absQ ≠ []; rw [h]; exact hq
      · show (Msq.step s.urgent j).1.absQ ≠ []; rw [h]; simp
    · right; exact hq
  · rw [wt_setThread_self (by exact hlt)]

theorem prog_tailU {s : State} (W : WInv s) (hpc : (wt s 0).pc = .lWait) (he : s.edge = false)
    (hq : anyQueued s) {j : Nat} (hj : (wt s j).pc = .pEnqU) (hu : (thr s.urgent j).pc = .eCasTail) :
    Progress s := by
  have h0 : 0 < j := W.prod_pos (by rw [hj]; rfl)
  have hlt := lt_of_pc_ne_idle (j := j) (by rw [hj]; intro h; cases h)
  have ht := getElem?_of_lt hlt
  have hltU : j < s.urgent.threads.length := by rw [W.lenU]; exact hlt
  obtain ⟨hr, hn⟩ := Msq.step_eCasTail_next hltU hu
  obtain ⟨_, _, ha, _⟩ := Msq.step_enq hltU (by rw [hu]; rfl)
  have W' := winv_step W j
  apply Progress.of_step j
  rw [step_eq ht] at W' ⊢
  simp only [hj, hr] at W' ⊢
  refine prog_addU W' hpc he ?_ (j := j) hj hn
  rcases hq with hq | hq
  · left
    rcases ha with h | ⟨⟨v, h⟩, _⟩
    · show (Msq.step s.urgent j).1.absQ ≠ []; rw [h]; exact hq
    · show (Msq.step s.urgent j).1.absQ ≠ []; rw [h]; simp
  · right; exact hq

theorem prog_addL {s : State} (W : WInv s) (hpc : (wt s 0).pc = .lWait) (he : s.edge = false)
    (hq : anyQueued s) {j : Nat} (hj : (wt s j).pc = .pEnqL) (hu : (thr s.low j).pc = .eAdd) :
    Progress s := by
  have h0 : 0 < j := W.prod_pos (by rw [hj]; rfl)
  have hlt := lt_of_pc_ne_idle (j := j) (by rw [hj]; intro h; cases h)
  have ht := getElem?_of_lt hlt
  have hltL : j < s.low.threads.length := by rw [W.lenL]; exact hlt
  have hr := Msq.step_eAdd_ret hltL hu
  obtain ⟨_, _, ha, _⟩ := Msq.step_enq hltL (by rw [hu]; rfl)
  have W' := winv_step W j
  apply Progress.of_step j
  rw [step_eq ht] at W' ⊢
  simp only [hj, hr] at W' ⊢
  refine prog_cas W' ?_ he ?_ (j := j) ?_
  · rw [wt_setThread_ne (by omega)]; exact hpc
  · rcases hq with hq | hq
    · left; exact hq
    · right
      rcases ha with h | ⟨⟨v, h⟩, _⟩
      · show (Msq.step s.low j).1.absQ ≠ []; rw [h]; exact hq
      · show (Msq.step s.low j).1.absQ ≠ []; rw [h]; simp
  · rw [wt_setThread_self (by exact hlt)]

theorem prog_tailL {s : State} (W : WInv s) (hpc : (wt s 0).pc = .lWait) (he : s.edge = false)
    (hq : anyQueued s) {j : Nat} (hj : (wt s j).pc = .pEnqL) (hu : (thr s.low j).pc = .eCasTail) :
    Progress s := by
  have h0 : 0 < j := W.prod_pos (by rw [hj]; rfl)
  have hlt := lt_of_pc_ne_idle (j := j) (by rw [hj]; intro h; cases h)
  have ht := getElem?_of_lt hlt
  have hltL : j < s.low.threads.length := by rw [W.lenL]; exact hlt
  obtain ⟨hr, hn⟩ := Msq.step_eCasTail_next hltL hu
  obtain ⟨_, _, ha, _⟩ := Msq.step_enq hltL (by rw [hu]; rfl)
  have W' := winv_step W j
  apply Progress.of_step j
  rw [step_eq ht] at W' ⊢
  simp only [hj, hr] at W' ⊢
  refine prog_addL W' hpc he ?_ (j := j) hj hn
  rcases hq with hq | hq
  · left; exact hq
  · right
    rcases ha with h | ⟨⟨v, h⟩, _⟩
    · show (Msq.step s.low j).1.absQ ≠ []; rw [h]; exact hq
    · show (Msq.step s.low j).1.absQ ≠ []; rw [h]; simp

theorem prog_lWait {s : State} (W : WInv s) (hpc : (wt s 0).pc = .lWait) (hq : anyQueued s) :
    Progress s := by
  cases he : s.edge with
  | true => exact prog_lWait_edge W hpc he hq
  | false =>
    have hP : Pending s := by
      rcases hq with hq | hq
      · rcases W.i3U hq with h | h | h
        · rw [he] at h; cases h
        · exact h
        · rw [hpc] at h; cases h
      · rcases W.i3L hq with h | h | h
        · rw [he] at h; cases h
        · exact h
        · rw [hpc] at h; cases h
    obtain ⟨j, h0, hp⟩ := hP
    cases hj : (wt s j).pc <;> rw [hj] at hp <;> simp only [pend] at hp <;> try (cases hp; done)
    · rcases (PendPc_iff _).1 hp with h | h
      · exact prog_tailU W hpc he hq hj h
      · exact prog_addU W hpc he hq hj h
    · rcases (PendPc_iff _).1 hp with h | h
      · exact prog_tailL W hpc he hq hj h
      · exact prog_addL W hpc he hq hj h
    · exact prog_cas W hpc he hq hj
    · exact prog_writer W hpc hq hj

theorem prog_lWrite {s : State} (W : WInv s) (hpc : (wt s 0).pc = .lWrite) (hq : anyQueued s) :
    Progress s := by
  have ht := getElem?_of_lt W.pos
  have W' := winv_step W 0
  apply Progress.of_step 0
  rw [step_eq ht] at W' ⊢
  simp only [hpc] at W' ⊢
  exact prog_lWait W' (by rw [wt_setThread_self (by exact W.pos)]) hq

theorem prog_lCas {s : State} (W : WInv s) (hpc : (wt s 0).pc = .lCas) (hq : anyQueued s) :
    Progress s := by
  have ht := getElem?_of_lt W.pos
  have W' := winv_step W 0
  apply Progress.of_step 0
  rw [step_eq ht] at W' ⊢
  simp only [hpc] at W' ⊢
  split at W' <;> rename_i hw
  · rw [if_pos hw]
    exact prog_lWrite W' (by rw [wt_setThread_self (by exact W.pos)]) hq
  · rw [if_neg hw]
    exact prog_lWait W' (by rw [wt_setThread_self (by exact W.pos)]) hq

theorem prog_lEmptyU {s : State} (W : WInv s) (hpc : (wt s 0).pc = .lEmptyU) (hq : anyQueued s) :
    Progress s := by
  have ht := getElem?_of_lt W.pos
  have W' := winv_step W 0
  apply Progress.of_step 0
  rw [step_eq ht] at W' ⊢
  simp only [hpc] at W' ⊢
  split at W' <;> rename_i hw
  · rw [if_pos hw]
    exact prog_lCas W' (by rw [wt_setThread_self (by exact W.pos)]) hq
  · rw [if_neg hw]
    exact prog_lWait W' (by rw [wt_setThread_self (by exact W.pos)]) hq

theorem prog_lEmptyL {s : State} (W : WInv s) (hpc : (wt s 0).pc = .lEmptyL) (hq : anyQueued s) :
    Progress s := by
  have ht := getElem?_of_lt W.pos
  have W' := winv_step W 0
  apply Progress.of_step 0
  rw [step_eq ht] at W' ⊢
  simp only [hpc] at W' ⊢
  split at W' <;> rename_i hw
  · rw [if_pos hw]
    exact prog_lCas W' (by rw [wt_setThread_self (by exact W.pos)]) hq
  · rw [if_neg hw]
    exact prog_lEmptyU W' (by rw [wt_setThread_self (by exact W.pos)]) hq

theorem prog_lStore {s : State} (W : WInv s) (hpc : (wt s 0).pc = .lStore) (hq : anyQueued s) :
    Progress s := by
  have ht := getElem?_of_lt W.pos
  have W' := winv_step W 0
  apply Progress.of_step 0
  rw [step_eq ht] at W' ⊢
  simp only [hpc] at W' ⊢
  exact prog_lEmptyL W' (by rw [wt_setThread_self (by exact W.pos)]) hq

theorem prog_lDeqL {s : State} (W : WInv s) (hpc : (wt s 0).pc = .lDeqL) (hq : anyQueued s) :
    Progress s := by
  rcases run_lDeqL W hpc with h | ⟨evs, h1, h2, h3, _⟩
  · exact h
  · apply Progress.of_runEvs evs
    refine prog_lStore (winv_runEvs evs s W) h1 ?_
    unfold anyQueued at hq ⊢
    rw [h2, h3]; exact hq

theorem prog_lDeqU {s : State} (W : WInv s) (hpc : (wt s 0).pc = .lDeqU) (hq : anyQueued s) :
    Progress s := by
  rcases run_lDeqU W hpc with h | ⟨evs, h1, h2, _, h4⟩
  · exact h
  · apply Progress.of_runEvs evs
    have hq' : anyQueued (runEvs s evs) := by
      unfold anyQueued at hq ⊢
      rw [h1, h2]; exact hq
    rcases h4 with ⟨h, _⟩ | ⟨h, _⟩
    · exact prog_lDeqL (winv_runEvs evs s W) h hq'
    · exact prog_lStore (winv_runEvs evs s W) h hq'

theorem never_stuck_inv {s : State} (W : WInv s) (hq : anyQueued s) (hx : (wt s 0).pc ≠ .lExit) :
    Progress s := by
  have hT := (W.tok 0).1
  simp only [if_true] at hT
  cases hpc : (wt s 0).pc <;> rw [hpc] at hT <;> try (cases hT; done)
  · exact prog_lWait W hpc hq
  · exact prog_lDeqU W hpc hq
  · exact prog_lDeqL W hpc hq
  · exact prog_lStore W hpc hq
  · exact prog_lEmptyL W hpc hq
  · exact prog_lEmptyU W hpc hq
  · exact prog_lCas W hpc hq
  · exact prog_lWrite W hpc hq
  · exact absurd hpc hx


end Gnet.Proofs.Wake
